#![feature(allocator_api)]
// Contract overlay for the pivot search (yui-matrix/src/sparse/pivot.rs), property C11:
//   "for every interleaving of the worker threads the returned pivot list has pairwise distinct rows and columns,
//    every pivot entry satisfies the condition, and the pivot dependency graph is acyclic (triangular after the
//    permutation); the call never panics".
// What is proved here, on the repository's own bodies:
//   * PivotData keeps its representation invariant (col -> row table and insertion order agree, no column twice);
//   * RowWorker::{init, traverse, update_diff, choose_candidate}: the reachability marks are a closed traversal of
//     the pivot dependency graph from the row's pivot columns, so a surviving Candidate column is not reachable;
//   * adding such a column keeps the dependency graph acyclic (`lemma_add_pivot`, by an explicit rank function);
//   * the sequential phase (find_cycle_free_pivots_s) and the validate-or-retry critical section of the parallel
//     phase (find_cycle_free_pivots_in) therefore preserve `pf_inv` = distinct rows & columns, candidates only, acyclic.
// The schedule quantifier is discharged by the lock-invariant / rely-guarantee rule: the RwLock is modelled by an
// ASSUMED contract (acquire yields the invariant and the rely, release demands the invariant and the guarantee);
// each critical section is verified against that contract, which covers every interleaving the lock admits.
use vstd::prelude::*;
use std::collections::VecDeque;
verus! {
//@include prelude/rt.rs
//@source yui-matrix/src/sparse/pivot.rs

// ---------------------------------------------------------------- text of the ASSUMED parts, pinned: a change there makes this unit UNDECIDED (exit 2), not silently stale
// the dispatcher of the parallel phase: snapshot, catch up, init, critical section; the table returns to the finder afterwards
//@expect std::mem::take(&mut self.pivots)
//@expect remain_rows.par_iter().for_each(|&i| {
//@expect pivots.read().unwrap().clone()
//@expect loc_pivots.update_from(&pivots.read().unwrap()); w.init(i, &self.str, &loc_pivots); self.find_cycle_free_pivots_in(&pivots, &mut loc_pivots, &mut w);
//@expect self.pivots = pivots.into_inner().unwrap();
//@expect if #[cfg(feature = "multithread")] { self.find_cycle_free_pivots_m(); } else { self.find_cycle_free_pivots_s(); }
// remain_rows, PivotData::iter
//@expect let piv_rows: AHashSet<_> = self.pivots.iter().map(|(i, _)| i).collect();
//@expect (0 .. m).filter(|&i| !piv_rows.contains(&i) && !self.str.is_empty_row(i) ).sorted_by(|&i1, &i2| self.str.cmp_rows(i1, i2) )
//@expect self.indices.iter().map(|&j| { let i = self.data[j].unwrap(); (i, j) })
// MatrixStr::new
//@expect for (i, j, r) in a.iter() { if r.is_zero() { continue } let (i, j) = t(i, j); entries[i].push(j);
//@expect if pivot_cond.is_cand(r) { cands[i].insert(j); }
// result
//@expect let list = self.str.cols_in(i).filter(|&&j2| j != j2 && self.pivots.has_col(j2) ).copied().collect_vec(); (j, list)
//@expect let sorted = top_sort(tree).unwrap();
//@expect let i = self.pivots.row_for(j).unwrap(); if is_row_type { (i, j) } else { (j, i) }
// the entry point
//@expect let mut pf = PivotFinder::new(a, piv_type, pivot_cond); pf.find_pivots(); pf.result()

pub type Row = usize;
pub type Col = usize;

// ---------------------------------------------------------------- std contracts (ASSUMED)
pub assume_specification<T, A: std::alloc::Allocator> [std::collections::VecDeque::<T, A>::is_empty] (q: &VecDeque<T, A>) -> (b: bool)
    ensures b == (q@.len() == 0);
pub assume_specification<T: Clone> [<[T]>::fill] (s: &mut [T], v: T)
    ensures final(s)@.len() == old(s)@.len(), forall|i: int| 0 <= i < final(s)@.len() ==> final(s)@[i] == v;

pub assume_specification<'a, T: Copy> [Option::<&'a T>::copied] (o: Option<&'a T>) -> (r: Option<T>)
    ensures r.is_some() == o.is_some(), o.is_some() ==> r.unwrap() == *o.unwrap();

/// AHashSet<usize> by its set view (ASSUMED contract of ahash/std HashSet)
pub struct ASet { pub s: Ghost<Set<usize>> }
impl ASet {
    pub open spec fn v(&self) -> Set<usize> { self.s@ }
    #[verifier::external_body] pub fn new() -> (r: ASet) ensures r.v() == Set::<usize>::empty() { unimplemented!() }
    #[verifier::external_body] pub fn contains(&self, x: &usize) -> (b: bool) ensures b == self.v().contains(*x) { unimplemented!() }
    #[verifier::external_body] pub fn insert(&mut self, x: usize) -> (b: bool) ensures final(self).v() == old(self).v().insert(x) { unimplemented!() }
    #[verifier::external_body] pub fn clear(&mut self) ensures final(self).v() == Set::<usize>::empty() { unimplemented!() }
}

// slice iteration model (ASSUMED std contract), as in unit link
pub struct VIter<'a, T> { pub es: Ghost<Seq<T>>, pub pos: Ghost<int>, pub w: Option<&'a T> }
#[verifier::external_body] pub fn viter_<'a, T>(c: &'a Vec<T>) -> (r: VIter<'a, T>) ensures r.es@ == c@, r.pos@ == 0 { unimplemented!() }
impl<'a, T> VIter<'a, T> {
    pub fn into_iter(self) -> (r: Self) ensures r == self { self }
    #[verifier::external_body] pub fn next(&mut self) -> (r: Option<&'a T>)
        requires 0 <= old(self).pos@ <= old(self).es@.len()
        ensures final(self).es@ == old(self).es@,
            old(self).pos@ < old(self).es@.len() ==> (final(self).pos@ == old(self).pos@ + 1 && r.is_some() && *r.unwrap() == old(self).es@[old(self).pos@]),
            old(self).pos@ >= old(self).es@.len() ==> (final(self).pos@ == old(self).pos@ && r.is_none()),
    { unimplemented!() }
}

// ---------------------------------------------------------------- the repository's declarations
//@item struct/MatrixStr subst=AHashSet<Col>:ASet
//@item struct/PivotData
#[derive(PartialEq, Eq, Structural, Clone, Copy)]
//@item enum/EntryStatus
//@item struct/RowWorker subst=AHashSet<Col>:ASet
#[derive(PartialEq, Eq, Structural, Clone, Copy)]
//@item enum/PivotType

/// the pivot condition (One / Weight(w) / AnyUnit): a predicate on ring elements, evaluated by MatrixStr::new only -- OPAQUE here
pub struct PivotCondition { pub c: Ghost<int> }

// ---------------------------------------------------------------- specification
pub open spec fn nrows(s: MatrixStr) -> int { s.shape.0 as int }
pub open spec fn ncols(s: MatrixStr) -> int { s.shape.1 as int }
pub open spec fn ent(s: MatrixStr, i: int) -> Seq<usize> { s.entries@[i]@ }
/// column j occurs in row i of the structure
pub open spec fn row_has(s: MatrixStr, i: int, j: int) -> bool { exists|k: int| 0 <= k < ent(s, i).len() && #[trigger] ent(s, i)[k] == j }
pub open spec fn str_wf(s: MatrixStr) -> bool {
    &&& s.entries@.len() == nrows(s) && s.cands@.len() == nrows(s)
    &&& forall|i: int, k: int| 0 <= i < nrows(s) && 0 <= k < ent(s, i).len() ==> (#[trigger] ent(s, i)[k]) < ncols(s)
    // a row lists a column once (the matrix has one entry per position)
    &&& forall|i: int, k: int, l: int| 0 <= i < nrows(s) && 0 <= k < l < ent(s, i).len() ==> #[trigger] ent(s, i)[k] != #[trigger] ent(s, i)[l]
}
pub open spec fn is_cand(s: MatrixStr, i: int, j: int) -> bool { 0 <= i < nrows(s) && 0 <= j < ncols(s) && s.cands@[i].v().contains(j as usize) }

pub open spec fn has_col(p: PivotData, j: int) -> bool { 0 <= j < p.data@.len() && p.data@[j].is_some() }
pub open spec fn prow(p: PivotData, j: int) -> int { p.data@[j].unwrap() as int }
/// representation invariant of the pivot table: the col -> row table and the insertion order describe the same set of columns, once each
pub open spec fn piv_rep(p: PivotData) -> bool {
    &&& forall|k: int| 0 <= k < p.indices@.len() ==> has_col(p, #[trigger] p.indices@[k] as int)
    &&& forall|j: int| has_col(p, j) ==> exists|k: int| 0 <= k < p.indices@.len() && #[trigger] p.indices@[k] == j
    &&& forall|k: int, l: int| 0 <= k < l < p.indices@.len() ==> p.indices@[k] != p.indices@[l]
}
pub open spec fn piv_wf(s: MatrixStr, p: PivotData) -> bool {
    &&& p.data@.len() == ncols(s)
    &&& piv_rep(p)
    &&& forall|j: int| has_col(p, j) ==> 0 <= prow(p, j) < nrows(s)
}
pub open spec fn is_piv_row(p: PivotData, i: int) -> bool { exists|j: int| has_col(p, j) && #[trigger] prow(p, j) == i }
/// the pivots are matrix entries satisfying the pivot condition, on pairwise distinct rows
pub open spec fn piv_valid(s: MatrixStr, p: PivotData) -> bool {
    &&& forall|j: int| has_col(p, j) ==> is_cand(s, #[trigger] prow(p, j), j) && row_has(s, prow(p, j), j)
    &&& forall|j: int, j2: int| has_col(p, j) && has_col(p, j2) && j != j2 ==> #[trigger] prow(p, j) != #[trigger] prow(p, j2)
}
/// dependency edge j -> j2 (the graph handed to top_sort in PivotFinder::result): pivot column j2 occurs in the row of pivot j
pub open spec fn edge(s: MatrixStr, p: PivotData, j: int, j2: int) -> bool { has_col(p, j) && has_col(p, j2) && j != j2 && row_has(s, prow(p, j), j2) }
pub open spec fn rank_ok(s: MatrixStr, p: PivotData, rk: spec_fn(int) -> int, bound: int) -> bool {
    &&& forall|j: int| has_col(p, j) ==> 0 <= #[trigger] rk(j) < bound
    &&& forall|j: int, j2: int| #[trigger] edge(s, p, j, j2) ==> rk(j) > rk(j2)
}
/// acyclic <=> a strictly decreasing rank exists (finite graph)
pub open spec fn acyclic(s: MatrixStr, p: PivotData) -> bool { exists|rk: spec_fn(int) -> int, bound: int| rank_ok(s, p, rk, bound) }
pub open spec fn pf_inv(s: MatrixStr, p: PivotData) -> bool { str_wf(s) && piv_wf(s, p) && piv_valid(s, p) && acyclic(s, p) }

/// p2 is p with the pivot (i, j) appended
pub open spec fn added(p: PivotData, p2: PivotData, i: int, j: int) -> bool {
    0 <= j < p.data@.len() && p2.data@ == p.data@.update(j, Some(i as usize)) && p2.indices@ == p.indices@.push(j as usize)
}
/// p2 extends p (same table on p's columns, p's insertion order a prefix)
pub open spec fn extends(p2: PivotData, p: PivotData) -> bool {
    &&& p2.data@.len() == p.data@.len() && p.indices@.len() <= p2.indices@.len()
    &&& forall|k: int| 0 <= k < p.indices@.len() ==> p2.indices@[k] == p.indices@[k]
    &&& forall|j: int| has_col(p, j) ==> p2.data@[j] == p.data@[j]
}

/// Adding a pivot (i, j) keeps the dependency graph acyclic if a set q of pivot columns is closed under edges, contains every
/// pivot column of row i, and no row of a member of q contains j.
pub proof fn lemma_add_pivot(s: MatrixStr, p: PivotData, p2: PivotData, i: int, j: int, q: spec_fn(int) -> bool)
    requires str_wf(s), piv_wf(s, p), acyclic(s, p), added(p, p2, i, j), !has_col(p, j), 0 <= i < nrows(s),
        forall|c: int| q(c) ==> has_col(p, c),
        forall|c: int, c2: int| q(c) && #[trigger] edge(s, p, c, c2) ==> q(c2),
        forall|c2: int| has_col(p, c2) && #[trigger] row_has(s, i, c2) ==> q(c2),
        forall|c: int| q(c) ==> !row_has(s, #[trigger] prow(p, c), j),
    ensures acyclic(s, p2)
{
    let (rk, bound0) = choose|rk: spec_fn(int) -> int, bound: int| rank_ok(s, p, rk, bound);
    let bound = if bound0 < 0 { 0 } else { bound0 };
    let rk2 = |c: int| if c == j { bound } else if q(c) { rk(c) } else { rk(c) + bound + 1 };
    let bound2 = 2 * bound + 2;
    assert forall|c: int| has_col(p2, c) implies 0 <= #[trigger] rk2(c) < bound2 by {
        if c != j { assert(has_col(p, c)); assert(0 <= rk(c) < bound); }
    }
    assert forall|a: int, b: int| #[trigger] edge(s, p2, a, b) implies rk2(a) > rk2(b) by {
        if a == j {
            assert(has_col(p, b)); assert(prow(p2, a) == i); assert(q(b)); assert(0 <= rk(b) < bound);
        } else if b == j {
            assert(has_col(p, a)); assert(prow(p2, a) == prow(p, a));
            assert(!q(a)); assert(0 <= rk(a) < bound);
        } else {
            assert(has_col(p, a) && has_col(p, b)); assert(prow(p2, a) == prow(p, a));
            assert(edge(s, p, a, b)); assert(rk(a) > rk(b)); assert(0 <= rk(a) < bound && 0 <= rk(b) < bound);
            if q(a) { assert(q(b)); }
        }
    }
    assert(rank_ok(s, p2, rk2, bound2));
}
pub proof fn lemma_acyclic_empty(s: MatrixStr, p: PivotData)
    requires forall|j: int| !has_col(p, j)
    ensures acyclic(s, p)
{ let rk = |c: int| 0int; assert(rank_ok(s, p, rk, 1)); }

/// piv_wf / piv_valid after appending a pivot on a fresh column and a fresh row
pub proof fn lemma_added_wf(s: MatrixStr, p: PivotData, p2: PivotData, i: int, j: int)
    requires str_wf(s), piv_wf(s, p), piv_valid(s, p), added(p, p2, i, j), !has_col(p, j), 0 <= i < nrows(s), !is_piv_row(p, i), is_cand(s, i, j), row_has(s, i, j)
    ensures piv_wf(s, p2), piv_valid(s, p2), extends(p2, p), has_col(p2, j), prow(p2, j) == i,
        forall|c: int| has_col(p2, c) <==> (c == j || has_col(p, c)),
        forall|c: int| has_col(p, c) ==> prow(p2, c) == prow(p, c),
{
    assert forall|k: int| 0 <= k < p2.indices@.len() implies has_col(p2, #[trigger] p2.indices@[k] as int) by {
        if k < p.indices@.len() { assert(has_col(p, p.indices@[k] as int)); }
    }
    assert forall|c: int| has_col(p2, c) implies exists|k: int| 0 <= k < p2.indices@.len() && #[trigger] p2.indices@[k] == c by {
        if c == j { assert(p2.indices@[p.indices@.len() as int] == j); }
        else { assert(has_col(p, c)); let k = choose|k: int| 0 <= k < p.indices@.len() && #[trigger] p.indices@[k] == c; assert(p2.indices@[k] == c); }
    }
    assert forall|k: int, l: int| 0 <= k < l < p2.indices@.len() implies p2.indices@[k] != p2.indices@[l] by {
        if l == p.indices@.len() { assert(has_col(p, p.indices@[k] as int)); }
    }
    assert forall|c: int, c2: int| has_col(p2, c) && has_col(p2, c2) && c != c2 implies #[trigger] prow(p2, c) != #[trigger] prow(p2, c2) by {
        if c == j { assert(has_col(p, c2)); assert(prow(p, c2) == prow(p2, c2)); }
        else if c2 == j { assert(has_col(p, c)); assert(prow(p, c) == prow(p2, c)); }
        else { assert(has_col(p, c) && has_col(p, c2)); }
    }
    assert forall|c: int| has_col(p2, c) implies is_cand(s, #[trigger] prow(p2, c), c) && row_has(s, prow(p2, c), c) by {
        if c != j { assert(has_col(p, c)); assert(prow(p2, c) == prow(p, c)); }
    }
}

// ---------------------------------------------------------------- MatrixStr accessors
impl MatrixStr {
    /// ASSUMED (reads the matrix through nalgebra-sparse's CSC triplet iterator, f64 weights, the PivotCondition test on ring elements):
    /// the structure lists, per row (per column for PivotType::Cols), the positions of the non-zero entries once each and in increasing order
    #[verifier::external_body] fn new(a: &SpMat, piv_type: PivotType, pivot_cond: PivotCondition) -> (r: MatrixStr)
        ensures str_wf(r), str_sorted(r), r.shape == (if piv_type == PivotType::Rows { (a.sh@.0, a.sh@.1) } else { (a.sh@.1, a.sh@.0) }),
    { unimplemented!() }
    fn shape(&self) -> (r: (usize, usize)) ensures r == self.shape,
    //@body impl/MatrixStr/shape
    fn is_empty_row(&self, i: Row) -> (r: bool)
        requires str_wf(*self), i < nrows(*self),
        ensures r == (ent(*self, i as int).len() == 0),
    //@body impl/MatrixStr/is_empty_row
    fn head_col_in(&self, i: Row) -> (r: Option<Col>)
        requires str_wf(*self), i < nrows(*self),
        ensures r.is_some() == (ent(*self, i as int).len() > 0), r.is_some() ==> r.unwrap() == ent(*self, i as int)[0],
    //@body impl/MatrixStr/head_col_in
    fn cols_in(&self, i: Row) -> (r: VIter<'_, Col>)
        requires str_wf(*self), i < nrows(*self),
        ensures r.es@ == ent(*self, i as int), r.pos@ == 0,
    //@body impl/MatrixStr/cols_in iter_model=entries
    fn is_candidate(&self, i: Row, j: Col) -> (r: bool)
        requires str_wf(*self), i < nrows(*self),
        ensures j < ncols(*self) ==> r == is_cand(*self, i as int, j as int),
    //@body impl/MatrixStr/is_candidate
    /// column order by weight (f64 comparison): only used to pick among equally admissible candidates — UNINTERPRETED
    #[verifier::external_body] fn cmp_cols(&self, j1: Col, j2: Col) -> core::cmp::Ordering { unimplemented!() }
}

// ---------------------------------------------------------------- the matrix, by its shape only (entries are read by MatrixStr::new alone, which is ASSUMED)
pub struct SpMat { pub sh: Ghost<(usize, usize)> }
impl SpMat {
    #[verifier::external_body] pub fn nrows(&self) -> (r: usize) ensures r == self.sh@.0 { unimplemented!() }
    #[verifier::external_body] pub fn ncols(&self) -> (r: usize) ensures r == self.sh@.1 { unimplemented!() }
}

// ---------------------------------------------------------------- PivotData
pub struct PivIter { pub es: Ghost<Seq<(usize, usize)>>, pub pos: Ghost<int> }
pub open spec fn piv_iter_ok(p: PivotData, es: Seq<(usize, usize)>) -> bool {
    es.len() == p.indices@.len() && forall|k: int| 0 <= k < es.len() ==> (#[trigger] es[k]).1 == p.indices@[k] && es[k].0 as int == prow(p, p.indices@[k] as int)
}
impl PivIter {
    pub fn into_iter(self) -> (r: Self) ensures r == self { self }
    #[verifier::external_body] pub fn next(&mut self) -> (r: Option<(usize, usize)>)
        requires 0 <= old(self).pos@ <= old(self).es@.len()
        ensures final(self).es@ == old(self).es@,
            old(self).pos@ < old(self).es@.len() ==> (final(self).pos@ == old(self).pos@ + 1 && r == Some(old(self).es@[old(self).pos@])),
            old(self).pos@ >= old(self).es@.len() ==> (final(self).pos@ == old(self).pos@ && r.is_none()),
    { unimplemented!() }
}
impl PivotData {
    fn new(a: &SpMat, piv_type: PivotType) -> (r: PivotData)
        ensures r.data@.len() == (if piv_type == PivotType::Rows { a.sh@.1 } else { a.sh@.0 }), r.indices@.len() == 0, forall|j: int| !has_col(r, j),
    //@body impl/PivotData/new vec_elem=usize
    fn count(&self) -> (r: usize) ensures r == self.indices@.len(),
    //@body impl/PivotData/count
    fn has_col(&self, j: Col) -> (r: bool)
        requires j < self.data@.len(),
        ensures r == has_col(*self, j as int),
    //@body impl/PivotData/has_col
    fn row_for(&self, j: Col) -> (r: Option<Row>)
        requires j < self.data@.len(),
        ensures r == self.data@[j as int],
    //@body impl/PivotData/row_for
    fn set(&mut self, i: Row, j: Col)
        requires j < old(self).data@.len(),
//@if B
            !has_col(*old(self), j as int),
//@endif
        ensures !has_col(*old(self), j as int), added(*old(self), *final(self), i as int, j as int),
    //@body impl/PivotData/set
    fn pivot_at(&self, k: usize) -> (r: (Row, Col))
        requires k < self.indices@.len(), has_col(*self, self.indices@[k as int] as int),
        ensures r.1 == self.indices@[k as int], r.0 == prow(*self, r.1 as int),
    //@body impl/PivotData/pivot_at
    /// ASSUMED (`indices.iter().map(|&j| (data[j].unwrap(), j))`, a lazy adaptor): the pivots (row, column) in insertion order
    #[verifier::external_body] fn iter(&self) -> (r: PivIter)
        requires piv_rep(*self),
        ensures r.pos@ == 0, piv_iter_ok(*self, r.es@),
    { unimplemented!() }
    /// catch up with a later state of the table: afterwards the two agree
    fn update_from(&mut self, from: &Self)
        requires piv_rep(*old(self)), piv_rep(*from), extends(*from, *old(self)),
        ensures final(self).data@ == from.data@, final(self).indices@ == from.indices@,
    //@body impl/PivotData/update_from for_range=1 loops=1
    //@+ loop 0 header
    //@| for k in self.count() .. from.count()
    //@+ pre-raw
    //@| let ghost p0 = *self;
    //@+ loop 0
    //@| invariant piv_rep(*self), piv_rep(*from), extends(*from, *self), plen(*self) == __it0, __hi0 == plen(*from), __it0 <= __hi0,
    //@+ loop 0 begin-raw
    //@| let ghost p1 = *self;
    //@+ loop 0 begin
    //@| assert(has_col(*from, from.indices@[k as int] as int));
    //@| assert(!has_col(*self, from.indices@[k as int] as int)) by {
    //@|     if has_col(*self, from.indices@[k as int] as int) { let l = choose|l: int| 0 <= l < self.indices@.len() && #[trigger] self.indices@[l] == from.indices@[k as int] as int; assert(from.indices@[l] == self.indices@[l]); }
    //@| }
    //@+ loop 0 end
    //@| assert(piv_rep(*self)) by {
    //@|     assert forall|l: int| 0 <= l < self.indices@.len() implies has_col(*self, #[trigger] self.indices@[l] as int) by { if l < p1.indices@.len() { assert(has_col(p1, p1.indices@[l] as int)); } }
    //@|     assert forall|c: int| has_col(*self, c) implies exists|l: int| 0 <= l < self.indices@.len() && #[trigger] self.indices@[l] == c by {
    //@|         if c == j as int { assert(self.indices@[p1.indices@.len() as int] == c); } else { assert(has_col(p1, c)); let l = choose|l: int| 0 <= l < p1.indices@.len() && #[trigger] p1.indices@[l] == c; assert(self.indices@[l] == c); }
    //@|     }
    //@|     assert forall|l: int, l2: int| 0 <= l < l2 < self.indices@.len() implies self.indices@[l] != self.indices@[l2] by { if l2 == p1.indices@.len() { assert(has_col(p1, p1.indices@[l] as int)); } }
    //@| }
    //@| assert(extends(*from, *self)) by {
    //@|     assert forall|c: int| has_col(*self, c) implies from.data@[c] == self.data@[c] by { if c != j as int { assert(has_col(p1, c)); } }
    //@| }
    //@+ post
    //@| assert(self.indices@ =~= from.indices@);
    //@| assert(self.data@ =~= from.data@) by {
    //@|     assert forall|c: int| 0 <= c < self.data@.len() implies self.data@[c] == from.data@[c] by {
    //@|         if has_col(*from, c) { let l = choose|l: int| 0 <= l < from.indices@.len() && #[trigger] from.indices@[l] == c; assert(self.indices@[l] == c); assert(has_col(*self, self.indices@[l] as int)); }
    //@|         else if has_col(*self, c) { let l = choose|l: int| 0 <= l < self.indices@.len() && #[trigger] self.indices@[l] == c; assert(has_col(*from, from.indices@[l] as int)); }
    //@|     }
    //@| }
}

// ---------------------------------------------------------------- RowWorker: specification of the reachability marks
use EntryStatus::{Candidate, Occupied};
#[verifier::external_body] pub fn vec_from_elem_<T: Clone>(x: T, n: usize) -> (v: Vec<T>) ensures v@.len() == n, forall|k: int| 0 <= k < n ==> v@[k] == x { unimplemented!() }

/// number of Candidate marks among the first k entries
pub open spec fn ncnt(st: Seq<EntryStatus>, k: int) -> int decreases k { if k <= 0 { 0 } else { ncnt(st, k - 1) + (if st[k - 1] == Candidate { 1int } else { 0int }) } }
pub proof fn lemma_ncnt_bounds(st: Seq<EntryStatus>, k: int) requires 0 <= k ensures 0 <= ncnt(st, k) <= k decreases k { if k > 0 { lemma_ncnt_bounds(st, k - 1); } }
pub proof fn lemma_ncnt_zero(st: Seq<EntryStatus>, k: int)
    requires 0 <= k <= st.len()
    ensures ncnt(st, k) == 0 <==> (forall|c: int| 0 <= c < k ==> st[c] != Candidate)
    decreases k
{ if k > 0 { lemma_ncnt_zero(st, k - 1); lemma_ncnt_bounds(st, k - 1); if st[k - 1] == Candidate { } } }
pub proof fn lemma_ncnt_update(st: Seq<EntryStatus>, i: int, v: EntryStatus, k: int)
    requires 0 <= i < st.len(), 0 <= k <= st.len()
    ensures ncnt(st.update(i, v), k) == ncnt(st, k) + (if i < k && v == Candidate { 1int } else { 0int }) - (if i < k && st[i] == Candidate { 1int } else { 0int })
    decreases k
{ if k > 0 { lemma_ncnt_update(st, i, v, k - 1); } }
pub proof fn lemma_ncnt_all_none(st: Seq<EntryStatus>, k: int)
    requires 0 <= k <= st.len(), forall|c: int| 0 <= c < st.len() ==> st[c] == EntryStatus::None
    ensures ncnt(st, k) == 0
    decreases k
{ if k > 0 { lemma_ncnt_all_none(st, k - 1); } }

/// c is one of the first k pivot columns (insertion order)
pub open spec fn hk(p: PivotData, k: int, c: int) -> bool { exists|l: int| 0 <= l < k && l < p.indices@.len() && #[trigger] p.indices@[l] as int == c }
pub open spec fn in_queue(w: RowWorker, c: int) -> bool { exists|e: int| 0 <= e < w.queue@.len() && #[trigger] w.queue@[e] as int == c }
pub open spec fn wk_basic(w: RowWorker, s: MatrixStr) -> bool {
    w.status@.len() == ncols(s) && w.ncand as int == ncnt(w.status@, ncols(s)) && w.row < nrows(s)
}
/// column c2 is marked Occupied and, if it is a pivot column, has been queued
pub open spec fn occq(w: RowWorker, p: PivotData, k: int, c2: int) -> bool {
    0 <= c2 < w.status@.len() && w.status@[c2] == Occupied && (hk(p, k, c2) ==> w.queued.v().contains(c2 as usize))
}
pub open spec fn pent(s: MatrixStr, p: PivotData, c: int) -> Seq<usize> { ent(s, prow(p, c)) }
/// The marks are a (partial) breadth-first traversal of the dependency graph of the first k pivots, started from row `w.row`:
/// every queued pivot that has left the queue (except `cur`, whose row is processed up to `upto`) has its whole row marked.
pub open spec fn tinv(w: RowWorker, s: MatrixStr, p: PivotData, k: int, cur: int, upto: int) -> bool {
    &&& wk_basic(w, s)
    &&& forall|e: int| 0 <= e < w.queue@.len() ==> w.queued.v().contains(#[trigger] w.queue@[e])
    &&& forall|c: usize| #[trigger] w.queued.v().contains(c) ==> hk(p, k, c as int) && has_col(p, c as int) && w.status@[c as int] == Occupied
    &&& forall|e: int| 0 <= e < ent(s, w.row as int).len() ==> w.status@[(#[trigger] ent(s, w.row as int)[e]) as int] != EntryStatus::None
            && (hk(p, k, ent(s, w.row as int)[e] as int) ==> w.queued.v().contains(ent(s, w.row as int)[e]))
    &&& forall|c: usize, e: int| w.queued.v().contains(c) && !in_queue(w, c as int) && c as int != cur && 0 <= e < pent(s, p, c as int).len()
            ==> occq(w, p, k, (#[trigger] pent(s, p, c as int)[e]) as int)
    &&& cur >= 0 ==> w.queued.v().contains(cur as usize) && 0 <= upto <= pent(s, p, cur).len()
            && forall|e: int| 0 <= e < upto ==> occq(w, p, k, (#[trigger] pent(s, p, cur)[e]) as int)
    &&& forall|c: int| 0 <= c < w.status@.len() && #[trigger] w.status@[c] == Candidate ==> row_has(s, w.row as int, c) && is_cand(s, w.row as int, c) && !hk(p, k, c)
}
pub open spec fn plen(p: PivotData) -> int { p.indices@.len() as int }
pub proof fn lemma_hk_full(s: MatrixStr, p: PivotData, c: int)
    requires piv_wf(s, p)
    ensures hk(p, plen(p), c) == has_col(p, c)
{
    if has_col(p, c) { let l = choose|l: int| 0 <= l < p.indices@.len() && #[trigger] p.indices@[l] == c; assert(p.indices@[l] as int == c); }
    if hk(p, plen(p), c) { let l = choose|l: int| 0 <= l < plen(p) && l < p.indices@.len() && #[trigger] p.indices@[l] as int == c; assert(has_col(p, p.indices@[l] as int)); }
}

/// what every reachable worker state satisfies, candidates left or not: queued columns are pivot columns
pub open spec fn wk_always(w: RowWorker, s: MatrixStr, p: PivotData) -> bool {
    &&& wk_basic(w, s)
    &&& forall|e: int| 0 <= e < w.queue@.len() ==> has_col(p, #[trigger] w.queue@[e] as int)
    &&& forall|c: usize| #[trigger] w.queued.v().contains(c) ==> has_col(p, c as int)
}
/// termination measure of the breadth-first traversal: pivots not yet queued + length of the queue
pub open spec fn bfs_measure(w: RowWorker, p: PivotData) -> int { plen(p) - w.queued.v().len() + w.queue@.len() }
pub proof fn lemma_measure(w: RowWorker, s: MatrixStr, p: PivotData)
    requires piv_wf(s, p), wk_always(w, s, p)
    ensures w.queued.v().len() <= plen(p), bfs_measure(w, p) >= 0
{
    let cs = p.indices@.to_set();
    assert(p.indices@.no_duplicates()) by {
        assert forall|i: int, j: int| 0 <= i < p.indices@.len() && 0 <= j < p.indices@.len() && i != j implies p.indices@[i] != p.indices@[j] by {
            if i < j { assert(p.indices@[i] != p.indices@[j]); } else { assert(p.indices@[j] != p.indices@[i]); }
        }
    }
    p.indices@.unique_seq_to_set();
    assert(w.queued.v().subset_of(cs)) by {
        assert forall|c: usize| w.queued.v().contains(c) implies cs.contains(c) by {
            assert(has_col(p, c as int));
            let k = choose|k: int| 0 <= k < p.indices@.len() && #[trigger] p.indices@[k] == c as int;
            assert(p.indices@[k] == c); assert(p.indices@.contains(c));
        }
    }
    vstd::set_lib::lemma_len_subset(w.queued.v(), cs);
}
pub proof fn lemma_tinv_always(w: RowWorker, s: MatrixStr, p: PivotData, k: int, cur: int, upto: int)
    requires tinv(w, s, p, k, cur, upto)
    ensures wk_always(w, s, p)
{ assert forall|e: int| 0 <= e < w.queue@.len() implies has_col(p, #[trigger] w.queue@[e] as int) by { assert(w.queued.v().contains(w.queue@[e])); } }

/// state of RowWorker::init after `pos` entries of row i
pub open spec fn init_inv(w: RowWorker, s: MatrixStr, p: PivotData, i: int, pos: int) -> bool {
    &&& wk_basic(w, s) && w.row as int == i
    &&& forall|e: int| 0 <= e < w.queue@.len() ==> w.queued.v().contains(#[trigger] w.queue@[e])
    &&& forall|c: usize| #[trigger] w.queued.v().contains(c) ==> has_col(p, c as int) && w.status@[c as int] == Occupied && in_queue(w, c as int)
    &&& forall|e: int| 0 <= e < pos ==> w.status@[(#[trigger] ent(s, i)[e]) as int] != EntryStatus::None && (has_col(p, ent(s, i)[e] as int) ==> w.queued.v().contains(ent(s, i)[e]))
    &&& forall|c: int| 0 <= c < w.status@.len() && #[trigger] w.status@[c] != EntryStatus::None ==> exists|e: int| 0 <= e < pos && #[trigger] ent(s, i)[e] as int == c
    &&& forall|c: int| 0 <= c < w.status@.len() && #[trigger] w.status@[c] == Candidate ==> is_cand(s, i, c) && !has_col(p, c)
}
pub proof fn lemma_init_done(w: RowWorker, s: MatrixStr, p: PivotData, i: int)
    requires str_wf(s), piv_wf(s, p), 0 <= i < nrows(s), init_inv(w, s, p, i, ent(s, i).len() as int)
    ensures tinv(w, s, p, plen(p), -1, 0)
{
    assert forall|c: usize| #[trigger] w.queued.v().contains(c) implies hk(p, plen(p), c as int) && has_col(p, c as int) && w.status@[c as int] == Occupied by { lemma_hk_full(s, p, c as int); }
    assert forall|e: int| 0 <= e < ent(s, w.row as int).len() implies w.status@[(#[trigger] ent(s, w.row as int)[e]) as int] != EntryStatus::None
            && (hk(p, plen(p), ent(s, w.row as int)[e] as int) ==> w.queued.v().contains(ent(s, w.row as int)[e])) by { lemma_hk_full(s, p, ent(s, i)[e] as int); }
    assert forall|c: int| 0 <= c < w.status@.len() && #[trigger] w.status@[c] == Candidate implies row_has(s, w.row as int, c) && is_cand(s, w.row as int, c) && !hk(p, plen(p), c) by {
        lemma_hk_full(s, p, c);
        let e = choose|e: int| 0 <= e < ent(s, i).len() && #[trigger] ent(s, i)[e] as int == c;
        assert(ent(s, i)[e] == c);
    }
}
/// dequeuing the head c of the queue turns a complete state into one with `cur` = c, nothing of its row processed yet
pub proof fn lemma_dequeue(w: RowWorker, w2: RowWorker, s: MatrixStr, p: PivotData, k: int)
    requires tinv(w, s, p, k, -1, 0), w.queue@.len() > 0, w2.queue@ == w.queue@.subrange(1, w.queue@.len() as int),
        w2.status == w.status, w2.ncand == w.ncand, w2.row == w.row, w2.queued == w.queued,
        0 <= prow(p, w.queue@[0] as int) < nrows(s),
    ensures tinv(w2, s, p, k, w.queue@[0] as int, 0)
{
    let cur = w.queue@[0] as int;
    assert forall|e: int| 0 <= e < w2.queue@.len() implies w2.queued.v().contains(#[trigger] w2.queue@[e]) by { assert(w2.queue@[e] == w.queue@[e + 1]); }
    assert forall|c: usize, e: int| w2.queued.v().contains(c) && !in_queue(w2, c as int) && c as int != cur && 0 <= e < pent(s, p, c as int).len()
            implies occq(w2, p, k, (#[trigger] pent(s, p, c as int)[e]) as int) by {
        if in_queue(w, c as int) {
            let e0 = choose|e0: int| 0 <= e0 < w.queue@.len() && #[trigger] w.queue@[e0] as int == c as int;
            assert(e0 != 0); assert(w2.queue@[e0 - 1] == w.queue@[e0]); assert(in_queue(w2, c as int));
        }
        assert(occq(w, p, k, pent(s, p, c as int)[e] as int));
    }
    assert(w.queued.v().contains(w.queue@[0]));
}
/// a fully processed `cur` is an ordinary processed pivot
pub proof fn lemma_cur_done(w: RowWorker, s: MatrixStr, p: PivotData, k: int, cur: int)
    requires cur >= 0, tinv(w, s, p, k, cur, pent(s, p, cur).len() as int)
    ensures tinv(w, s, p, k, -1, 0)
{
    assert forall|c: usize, e: int| w.queued.v().contains(c) && !in_queue(w, c as int) && c as int != -1 && 0 <= e < pent(s, p, c as int).len()
            implies occq(w, p, k, (#[trigger] pent(s, p, c as int)[e]) as int) by {
        if c as int == cur { assert(occq(w, p, k, pent(s, p, cur)[e] as int)); }
    }
}
/// one step of the inner loop of traverse: entry `pos` of the row of `cur` is j2; it is queued if it is a pivot column, then marked
pub proof fn lemma_trav_step(w: RowWorker, w2: RowWorker, s: MatrixStr, p: PivotData, cur: int, pos: int, j2: usize)
    requires str_wf(s), piv_wf(s, p), tinv(w, s, p, plen(p), cur, pos), cur >= 0, 0 <= pos < pent(s, p, cur).len(), j2 == pent(s, p, cur)[pos], j2 < ncols(s),
        (has_col(p, j2 as int) && !w.queued.v().contains(j2)) ==> (w2.queue@ == w.queue@.push(j2) && w2.queued.v() == w.queued.v().insert(j2)),
        !(has_col(p, j2 as int) && !w.queued.v().contains(j2)) ==> (w2.queue == w.queue && w2.queued == w.queued),
        w2.status@ == w.status@.update(j2 as int, Occupied), w2.ncand as int == ncnt(w2.status@, w2.status@.len() as int), w2.row == w.row,
    ensures tinv(w2, s, p, plen(p), cur, pos + 1)
{
    let k = plen(p);
    lemma_hk_full(s, p, j2 as int);
    assert forall|c: int| in_queue(w, c) implies in_queue(w2, c) by {
        let e0 = choose|e0: int| 0 <= e0 < w.queue@.len() && #[trigger] w.queue@[e0] as int == c; assert(w2.queue@[e0] as int == c);
    }
    assert forall|e: int| 0 <= e < w2.queue@.len() implies w2.queued.v().contains(#[trigger] w2.queue@[e]) by {
        if e < w.queue@.len() { assert(w2.queue@[e] == w.queue@[e]); }
    }
    assert forall|c: usize| #[trigger] w2.queued.v().contains(c) implies hk(p, k, c as int) && has_col(p, c as int) && w2.status@[c as int] == Occupied by {
        if c != j2 { assert(w.queued.v().contains(c)); }
    }
    assert forall|e: int| 0 <= e < ent(s, w2.row as int).len() implies w2.status@[(#[trigger] ent(s, w2.row as int)[e]) as int] != EntryStatus::None
            && (hk(p, k, ent(s, w2.row as int)[e] as int) ==> w2.queued.v().contains(ent(s, w2.row as int)[e])) by {
        let c = ent(s, w.row as int)[e];
        assert(w.status@[c as int] != EntryStatus::None);
    }
    assert forall|c: usize, e: int| w2.queued.v().contains(c) && !in_queue(w2, c as int) && c as int != cur && 0 <= e < pent(s, p, c as int).len()
            implies occq(w2, p, k, (#[trigger] pent(s, p, c as int)[e]) as int) by {
        if !w.queued.v().contains(c) { assert(c == j2); assert(w2.queue@[w.queue@.len() as int] == j2); assert(in_queue(w2, c as int)); }
        assert(!in_queue(w, c as int));
        assert(occq(w, p, k, pent(s, p, c as int)[e] as int));
    }
    assert forall|e: int| 0 <= e < pos + 1 implies occq(w2, p, k, (#[trigger] pent(s, p, cur)[e]) as int) by {
        if e < pos { assert(occq(w, p, k, pent(s, p, cur)[e] as int)); }
    }
    assert forall|c: int| 0 <= c < w2.status@.len() && #[trigger] w2.status@[c] == Candidate implies row_has(s, w2.row as int, c) && is_cand(s, w2.row as int, c) && !hk(p, k, c) by {
        assert(w.status@[c] == Candidate);
    }
}

/// c is one of the pivot columns p has beyond loc, among the first kk of p
pub open spec fn newk(loc: PivotData, p: PivotData, kk: int, c: int) -> bool { exists|l: int| plen(loc) <= l < kk && l < p.indices@.len() && #[trigger] p.indices@[l] as int == c }
/// RowWorker::update_diff after the pivots p.indices[plen(loc) .. kk): those of them that carry a mark (Candidate or Occupied) are queued and Occupied, nothing else changes
pub open spec fn upd_inv(w0: RowWorker, w: RowWorker, loc: PivotData, p: PivotData, kk: int) -> bool {
    &&& w.row == w0.row && w.status@.len() == w0.status@.len() && w.ncand as int == ncnt(w.status@, w.status@.len() as int)
    &&& forall|c: int| 0 <= c < w.status@.len() ==> #[trigger] w.status@[c] == (if newk(loc, p, kk, c) && w0.status@[c] != EntryStatus::None { Occupied } else { w0.status@[c] })
    &&& forall|c: usize| #[trigger] w.queued.v().contains(c) <==> w0.queued.v().contains(c) || (newk(loc, p, kk, c as int) && c < w0.status@.len() && w0.status@[c as int] != EntryStatus::None)
    &&& w.queue@.len() >= w0.queue@.len()
    &&& forall|e: int| 0 <= e < w0.queue@.len() ==> #[trigger] w.queue@[e] == w0.queue@[e]
    &&& forall|e: int| w0.queue@.len() <= e < w.queue@.len() ==> newk(loc, p, kk, #[trigger] w.queue@[e] as int) && w.queue@[e] < w0.status@.len() && w0.status@[w.queue@[e] as int] != EntryStatus::None
    &&& forall|c: int| newk(loc, p, kk, c) && 0 <= c < w0.status@.len() && w0.status@[c] != EntryStatus::None ==> #[trigger] in_queue(w, c)
}
pub proof fn lemma_hk_extends(loc: PivotData, p: PivotData, c: int)
    requires extends(p, loc)
    ensures hk(p, plen(p), c) == (hk(loc, plen(loc), c) || newk(loc, p, plen(p), c))
{
    if hk(loc, plen(loc), c) { let l = choose|l: int| 0 <= l < plen(loc) && l < loc.indices@.len() && #[trigger] loc.indices@[l] as int == c; assert(p.indices@[l] as int == c); }
    if newk(loc, p, plen(p), c) { let l = choose|l: int| plen(loc) <= l < plen(p) && l < p.indices@.len() && #[trigger] p.indices@[l] as int == c; assert(p.indices@[l] as int == c); }
    if hk(p, plen(p), c) {
        let l = choose|l: int| 0 <= l < plen(p) && l < p.indices@.len() && #[trigger] p.indices@[l] as int == c;
        if l < plen(loc) { assert(loc.indices@[l] as int == c); } else { assert(p.indices@[l] as int == c); }
    }
}
/// the marks stay a valid traversal when the table has grown from loc to p and update_diff has run
pub proof fn lemma_update_diff(w0: RowWorker, w: RowWorker, s: MatrixStr, loc: PivotData, p: PivotData)
    requires str_wf(s), piv_wf(s, loc), piv_wf(s, p), extends(p, loc), tinv(w0, s, loc, plen(loc), -1, 0), upd_inv(w0, w, loc, p, plen(p)),
    ensures tinv(w, s, p, plen(p), -1, 0)
{
    let k = plen(p);
    assert forall|c: int| true implies #[trigger] hk(p, k, c) == (hk(loc, plen(loc), c) || newk(loc, p, k, c)) by { lemma_hk_extends(loc, p, c); }
    assert forall|c: int| #[trigger] has_col(loc, c) implies has_col(p, c) && prow(p, c) == prow(loc, c) by { }
    assert forall|e: int| 0 <= e < w.queue@.len() implies w.queued.v().contains(#[trigger] w.queue@[e]) by {
        if e < w0.queue@.len() { assert(w.queue@[e] == w0.queue@[e]); assert(w0.queued.v().contains(w0.queue@[e])); }
    }
    assert forall|c: usize| #[trigger] w.queued.v().contains(c) implies hk(p, k, c as int) && has_col(p, c as int) && w.status@[c as int] == Occupied by {
        lemma_hk_full(s, p, c as int);
        if w0.queued.v().contains(c) { assert(has_col(loc, c as int)); assert(w0.status@[c as int] == Occupied); }
    }
    assert forall|e: int| 0 <= e < ent(s, w.row as int).len() implies w.status@[(#[trigger] ent(s, w.row as int)[e]) as int] != EntryStatus::None
            && (hk(p, k, ent(s, w.row as int)[e] as int) ==> w.queued.v().contains(ent(s, w.row as int)[e])) by {
        let c = ent(s, w0.row as int)[e];
        assert(w0.status@[c as int] != EntryStatus::None);
    }
    assert forall|c: int| in_queue(w0, c) implies in_queue(w, c) by {
        let e0 = choose|e0: int| 0 <= e0 < w0.queue@.len() && #[trigger] w0.queue@[e0] as int == c; assert(w.queue@[e0] as int == c);
    }
    assert forall|c: usize, e: int| w.queued.v().contains(c) && !in_queue(w, c as int) && c as int != -1 && 0 <= e < pent(s, p, c as int).len()
            implies occq(w, p, k, (#[trigger] pent(s, p, c as int)[e]) as int) by {
        if !w0.queued.v().contains(c) { assert(in_queue(w, c as int)); }
        assert(has_col(loc, c as int));
        if in_queue(w0, c as int) { assert(in_queue(w, c as int)); }
        assert(pent(s, p, c as int) == pent(s, loc, c as int));
        assert(occq(w0, loc, plen(loc), pent(s, loc, c as int)[e] as int));
    }
    assert forall|c: int| 0 <= c < w.status@.len() && #[trigger] w.status@[c] == Candidate implies row_has(s, w.row as int, c) && is_cand(s, w.row as int, c) && !hk(p, k, c) by {
        assert(w0.status@[c] == Candidate);
    }
}
/// specifications depend on a pivot table only through its views
pub proof fn lemma_cong(w: RowWorker, s: MatrixStr, p: PivotData, p2: PivotData)
    requires p2.data@ == p.data@, p2.indices@ == p.indices@, piv_wf(s, p), tinv(w, s, p, plen(p), -1, 0),
    ensures piv_wf(s, p2), tinv(w, s, p2, plen(p2), -1, 0), plen(p) == plen(p2)
{
    let k = plen(p);
    assert forall|c: int| true implies #[trigger] has_col(p2, c) == has_col(p, c) by { }
    assert forall|c: int| true implies #[trigger] prow(p2, c) == prow(p, c) by { }
    assert forall|c: int| true implies #[trigger] hk(p2, k, c) == hk(p, k, c) by {
        if hk(p, k, c) { let l = choose|l: int| 0 <= l < k && l < p.indices@.len() && #[trigger] p.indices@[l] as int == c; assert(p2.indices@[l] as int == c); }
        if hk(p2, k, c) { let l = choose|l: int| 0 <= l < k && l < p2.indices@.len() && #[trigger] p2.indices@[l] as int == c; assert(p.indices@[l] as int == c); }
    }
    assert forall|c: int| true implies #[trigger] pent(s, p2, c) == pent(s, p, c) by { }
    assert(piv_wf(s, p2)) by {
        assert forall|l: int| 0 <= l < p2.indices@.len() implies has_col(p2, #[trigger] p2.indices@[l] as int) by { assert(has_col(p, p.indices@[l] as int)); }
        assert forall|j: int| has_col(p2, j) implies exists|l: int| 0 <= l < p2.indices@.len() && #[trigger] p2.indices@[l] == j by {
            assert(has_col(p, j)); let l = choose|l: int| 0 <= l < p.indices@.len() && #[trigger] p.indices@[l] == j; assert(p2.indices@[l] == j);
        }
        assert forall|j: int| has_col(p2, j) implies 0 <= prow(p2, j) < nrows(s) by { assert(has_col(p, j)); }
    }
    assert forall|c: usize| #[trigger] w.queued.v().contains(c) implies hk(p2, k, c as int) && has_col(p2, c as int) && w.status@[c as int] == Occupied by { assert(hk(p, k, c as int)); }
    assert forall|e: int| 0 <= e < ent(s, w.row as int).len() implies w.status@[(#[trigger] ent(s, w.row as int)[e]) as int] != EntryStatus::None
            && (hk(p2, k, ent(s, w.row as int)[e] as int) ==> w.queued.v().contains(ent(s, w.row as int)[e])) by { assert(hk(p2, k, ent(s, w.row as int)[e] as int) == hk(p, k, ent(s, w.row as int)[e] as int)); }
    assert forall|c: usize, e: int| w.queued.v().contains(c) && !in_queue(w, c as int) && c as int != -1 && 0 <= e < pent(s, p2, c as int).len()
            implies occq(w, p2, k, (#[trigger] pent(s, p2, c as int)[e]) as int) by {
        assert(pent(s, p2, c as int) == pent(s, p, c as int));
        let x = pent(s, p, c as int)[e] as int;
        assert(occq(w, p, k, x)); assert(hk(p2, k, x) == hk(p, k, x));
    }
    assert forall|c: int| 0 <= c < w.status@.len() && #[trigger] w.status@[c] == Candidate implies row_has(s, w.row as int, c) && is_cand(s, w.row as int, c) && !hk(p2, k, c) by { assert(hk(p2, k, c) == hk(p, k, c)); }
}
/// the marks are complete and j is a surviving candidate: (w.row, j) may be committed
pub open spec fn ready(w: RowWorker, s: MatrixStr, p: PivotData, j: int) -> bool {
    tinv(w, s, p, plen(p), -1, 0) && w.queue@.len() == 0 && 0 <= j < w.status@.len() && w.status@[j] == Candidate
}
/// committing a surviving candidate keeps the whole invariant: distinct rows and columns, pivot condition, acyclic
pub proof fn lemma_ready_add(w: RowWorker, s: MatrixStr, p: PivotData, p2: PivotData, j: int)
    requires pf_inv(s, p), ready(w, s, p, j), !is_piv_row(p, w.row as int), added(p, p2, w.row as int, j),
    ensures pf_inv(s, p2), extends(p2, p), !has_col(p, j), has_col(p2, j), prow(p2, j) == w.row,
        forall|c: int| has_col(p2, c) <==> (c == j || has_col(p, c)),
{
    let k = plen(p);
    let i = w.row as int;
    lemma_hk_full(s, p, j);
    lemma_added_wf(s, p, p2, i, j);
    let q = |c: int| 0 <= c < ncols(s) && w.queued.v().contains(c as usize);
    assert forall|c: int, c2: int| q(c) && #[trigger] edge(s, p, c, c2) implies q(c2) by {
        let e = choose|e: int| 0 <= e < ent(s, prow(p, c)).len() && #[trigger] ent(s, prow(p, c))[e] == c2;
        assert(!in_queue(w, c));
        assert(occq(w, p, k, pent(s, p, (c as usize) as int)[e] as int));
        lemma_hk_full(s, p, c2);
    }
    assert forall|c2: int| has_col(p, c2) && #[trigger] row_has(s, i, c2) implies q(c2) by {
        let e = choose|e: int| 0 <= e < ent(s, i).len() && #[trigger] ent(s, i)[e] == c2;
        lemma_hk_full(s, p, c2);
        assert(hk(p, k, ent(s, w.row as int)[e] as int));
    }
    assert forall|c: int| q(c) implies !row_has(s, #[trigger] prow(p, c), j) by {
        if row_has(s, prow(p, c), j) {
            let e = choose|e: int| 0 <= e < ent(s, prow(p, c)).len() && #[trigger] ent(s, prow(p, c))[e] == j;
            assert(!in_queue(w, c));
            assert(occq(w, p, k, pent(s, p, (c as usize) as int)[e] as int));
        }
    }
    lemma_add_pivot(s, p, p2, i, j, q);
}
/// pairwise different numbers below n are at most n many
pub proof fn lemma_nodup_bound(q: Seq<usize>, n: int)
    requires 0 <= n, forall|k: int| 0 <= k < q.len() ==> (#[trigger] q[k] as int) < n, forall|k: int, l: int| 0 <= k < l < q.len() ==> q[k] != q[l],
    ensures q.len() <= n
    decreases n
{
    if q.len() > 0 {
        if n == 0 { assert((q[0] as int) < 0); }
        else if exists|k: int| 0 <= k < q.len() && #[trigger] q[k] as int == n - 1 {
            let k = choose|k: int| 0 <= k < q.len() && #[trigger] q[k] as int == n - 1;
            let r = q.remove(k);
            assert forall|a: int| 0 <= a < r.len() implies (#[trigger] r[a] as int) < n - 1 by {
                if a < k { assert(r[a] == q[a]); assert(q[a] != q[k]); } else { assert(r[a] == q[a + 1]); assert(q[k] != q[a + 1]); }
            }
            assert forall|a: int, b: int| 0 <= a < b < r.len() implies r[a] != r[b] by {
                let a2 = if a < k { a } else { a + 1 }; let b2 = if b < k { b } else { b + 1 };
                assert(r[a] == q[a2] && r[b] == q[b2]); assert(q[a2] != q[b2]);
            }
            lemma_nodup_bound(r, n - 1);
        } else {
            assert forall|a: int| 0 <= a < q.len() implies (#[trigger] q[a] as int) < n - 1 by { }
            lemma_nodup_bound(q, n - 1);
        }
    }
}
pub proof fn lemma_plen_bound(s: MatrixStr, p: PivotData)
    requires piv_wf(s, p)
    ensures plen(p) <= ncols(s)
{
    assert forall|k: int| 0 <= k < p.indices@.len() implies (#[trigger] p.indices@[k] as int) < ncols(s) by { assert(has_col(p, p.indices@[k] as int)); }
    lemma_nodup_bound(p.indices@, ncols(s));
}

impl RowWorker {
    fn new(size: usize) -> (r: RowWorker)
        ensures r.status@.len() == size, forall|c: int| 0 <= c < size ==> r.status@[c] == EntryStatus::None, r.ncand == 0, r.queue@.len() == 0, r.queued.v() == Set::<usize>::empty(), r.row == 0,
    //@body impl/RowWorker/new subst=AHashSet:ASet
    fn clear(&mut self)
        ensures final(self).status@.len() == old(self).status@.len(), forall|c: int| 0 <= c < final(self).status@.len() ==> final(self).status@[c] == EntryStatus::None,
            final(self).ncand == 0, final(self).queue@.len() == 0, final(self).queued.v() == Set::<usize>::empty(), final(self).row == 0,
    //@body impl/RowWorker/clear
    fn should_retry(&self) -> (r: bool) ensures r == (self.queue@.len() > 0),
    //@body impl/RowWorker/should_retry
    fn has_candidate(&self) -> (r: bool) ensures r == (self.ncand > 0),
    //@body impl/RowWorker/has_candidate
    fn is_candidate(&self, i: usize) -> (r: bool)
        requires i < self.status@.len(),
        ensures r == (self.status@[i as int] == Candidate),
    //@body impl/RowWorker/is_candidate
    fn is_occupied(&self, i: usize) -> (r: bool)
        requires i < self.status@.len(),
        ensures r == (self.status@[i as int] == Occupied),
    //@body impl/RowWorker/is_occupied
    fn set_candidate(&mut self, i: usize)
        requires i < old(self).status@.len(), old(self).ncand as int == ncnt(old(self).status@, old(self).status@.len() as int),
//@if B
            old(self).status@[i as int] == EntryStatus::None,
//@endif
        ensures old(self).status@[i as int] == EntryStatus::None, final(self).status@ == old(self).status@.update(i as int, Candidate),
            final(self).ncand as int == ncnt(final(self).status@, final(self).status@.len() as int), final(self).ncand == old(self).ncand + 1,
            final(self).queue == old(self).queue, final(self).queued == old(self).queued, final(self).row == old(self).row,
    //@body impl/RowWorker/set_candidate
    //@+ pre
    //@| lemma_ncnt_update(self.status@, i as int, Candidate, self.status@.len() as int);
    //@| lemma_ncnt_bounds(self.status@.update(i as int, Candidate), self.status@.len() as int);
    //@| assert(self.status@.len() == self.status.len());
    fn set_occupied(&mut self, i: usize)
        requires i < old(self).status@.len(), old(self).ncand as int == ncnt(old(self).status@, old(self).status@.len() as int),
        ensures final(self).status@ == old(self).status@.update(i as int, Occupied),
            final(self).ncand as int == ncnt(final(self).status@, final(self).status@.len() as int),
            final(self).ncand as int == old(self).ncand - (if old(self).status@[i as int] == Candidate { 1int } else { 0int }),
            final(self).queue == old(self).queue, final(self).queued == old(self).queued, final(self).row == old(self).row,
    //@body impl/RowWorker/set_occupied
    //@+ pre
    //@| lemma_ncnt_update(self.status@, i as int, Occupied, self.status@.len() as int);
    //@| lemma_ncnt_bounds(self.status@.update(i as int, Occupied), self.status@.len() as int);
    fn enqueue(&mut self, i: Col)
        ensures final(self).queue@ == old(self).queue@.push(i), final(self).queued.v() == old(self).queued.v().insert(i),
            final(self).status == old(self).status, final(self).ncand == old(self).ncand, final(self).row == old(self).row,
    //@body impl/RowWorker/enqueue
    fn dequeue(&mut self) -> (r: Option<Col>)
        ensures old(self).queue@.len() == 0 ==> r.is_none() && final(self).queue@.len() == 0,
            old(self).queue@.len() > 0 ==> r == Some(old(self).queue@[0]) && final(self).queue@ == old(self).queue@.subrange(1, old(self).queue@.len() as int),
            final(self).status == old(self).status, final(self).ncand == old(self).ncand, final(self).row == old(self).row, final(self).queued == old(self).queued,
    //@body impl/RowWorker/dequeue
    fn is_queued(&self, i: Col) -> (r: bool) ensures r == self.queued.v().contains(i),
    //@body impl/RowWorker/is_queued

    fn init(&mut self, i: usize, str: &MatrixStr, pivots: &PivotData)
        requires str_wf(*str), piv_wf(*str, *pivots), i < nrows(*str), old(self).status@.len() == ncols(*str),
        ensures tinv(*final(self), *str, *pivots, plen(*pivots), -1, 0), final(self).row == i,
    //@body impl/RowWorker/init for_iter=1 loops=1
    //@+ loop 0 header
    //@| for &j in str.cols_in(i)
    //@+ loop 0 before
    //@| lemma_ncnt_all_none(self.status@, self.status@.len() as int);
    //@+ loop 0
    //@| invariant str_wf(*str), piv_wf(*str, *pivots), i < nrows(*str), __it0.es@ == ent(*str, i as int), 0 <= __it0.pos@ <= __it0.es@.len(),
    //@|     init_inv(*self, *str, *pivots, i as int, __it0.pos@),
    //@| ensures __it0.pos@ == __it0.es@.len(),
    //@| decreases __it0.es@.len() - __it0.pos@,
    //@+ loop 0 begin-raw
    //@| let ghost w0 = *self; let ghost pos0 = __it0.pos@ - 1;
    //@+ loop 0 begin
    //@| assert(j == ent(*str, i as int)[pos0] && j < ncols(*str));
    //@| // j has not been seen before (a row lists a column once), so its mark is still None
    //@| assert(self.status@[j as int] == EntryStatus::None) by {
    //@|     if self.status@[j as int] != EntryStatus::None { let e = choose|e: int| 0 <= e < pos0 && #[trigger] ent(*str, i as int)[e] as int == j as int; assert(ent(*str, i as int)[e] != ent(*str, i as int)[pos0]); }
    //@| }
    //@+ loop 0 end
    //@| assert(self.status@ == w0.status@.update(j as int, self.status@[j as int]));
    //@| assert forall|c: usize| #[trigger] self.queued.v().contains(c) implies has_col(*pivots, c as int) && self.status@[c as int] == Occupied && in_queue(*self, c as int) by {
    //@|     if w0.queued.v().contains(c) { let e0 = choose|e0: int| 0 <= e0 < w0.queue@.len() && #[trigger] w0.queue@[e0] as int == c as int; assert(self.queue@[e0] as int == c as int); }
    //@|     else { assert(self.queue@[w0.queue@.len() as int] == j); }
    //@| }
    //@| assert forall|e: int| 0 <= e < self.queue@.len() implies self.queued.v().contains(#[trigger] self.queue@[e]) by { if e < w0.queue@.len() { assert(self.queue@[e] == w0.queue@[e]); } }
    //@| assert forall|c: int| 0 <= c < self.status@.len() && #[trigger] self.status@[c] != EntryStatus::None implies exists|e: int| 0 <= e < pos0 + 1 && #[trigger] ent(*str, i as int)[e] as int == c by {
    //@|     if c == j as int { assert(ent(*str, i as int)[pos0] as int == c); }
    //@|     else { assert(w0.status@[c] != EntryStatus::None); let e = choose|e: int| 0 <= e < pos0 && #[trigger] ent(*str, i as int)[e] as int == c; assert(ent(*str, i as int)[e] as int == c); }
    //@| }
    //@| assert forall|e: int| 0 <= e < pos0 + 1 implies self.status@[(#[trigger] ent(*str, i as int)[e]) as int] != EntryStatus::None && (has_col(*pivots, ent(*str, i as int)[e] as int) ==> self.queued.v().contains(ent(*str, i as int)[e])) by {
    //@|     if e < pos0 { assert(w0.status@[ent(*str, i as int)[e] as int] != EntryStatus::None); }
    //@| }
    //@+ post
    //@| lemma_init_done(*self, *str, *pivots, i as int);

    fn traverse(&mut self, str: &MatrixStr, pivots: &PivotData)
        requires str_wf(*str), piv_wf(*str, *pivots), tinv(*old(self), *str, *pivots, plen(*pivots), -1, 0),
        ensures wk_basic(*final(self), *str), final(self).row == old(self).row, final(self).ncand <= old(self).ncand,
            final(self).ncand > 0 ==> tinv(*final(self), *str, *pivots, plen(*pivots), -1, 0) && final(self).queue@.len() == 0,
    //@body impl/RowWorker/traverse for_iter=1 loops=2
    //@+ loop 0 header
    //@| while let Some(j) = self.dequeue()
    //@+ loop 1 header
    //@| for &j2 in str.cols_in(i2)
    //@+ pre-raw
    //@| let ghost row0 = self.row; let ghost nc0 = self.ncand;
    //@+ loop 0 before
    //@| lemma_tinv_always(*self, *str, *pivots, plen(*pivots), -1, 0);
    //@+ loop 0
    //@| invariant str_wf(*str), piv_wf(*str, *pivots), wk_always(*self, *str, *pivots), self.row == row0, self.ncand <= nc0,
    //@|     self.ncand > 0 ==> tinv(*self, *str, *pivots, plen(*pivots), -1, 0),
    //@| ensures self.queue@.len() == 0,
    //@| decreases bfs_measure(*self, *pivots),
    //@+ loop 0 top-raw
    //@| let ghost w0q = *self;
    //@| proof { lemma_measure(*self, *str, *pivots); }
    //@+ loop 1 before
    //@| assert(has_col(*pivots, j as int));
    //@| if self.ncand > 0 { lemma_dequeue(w0q, *self, *str, *pivots, plen(*pivots)); }
    //@| lemma_measure(*self, *str, *pivots);
    //@+ loop 1
    //@| invariant str_wf(*str), piv_wf(*str, *pivots), wk_always(*self, *str, *pivots), self.row == row0, self.ncand <= nc0,
    //@|     has_col(*pivots, j as int), i2 as int == prow(*pivots, j as int), __it1.es@ == pent(*str, *pivots, j as int), 0 <= __it1.pos@ <= __it1.es@.len(),
    //@|     self.ncand > 0 ==> tinv(*self, *str, *pivots, plen(*pivots), j as int, __it1.pos@),
    //@|     bfs_measure(*self, *pivots) == bfs_measure(w0q, *pivots) - 1,
    //@| ensures self.ncand > 0 ==> __it1.pos@ == __it1.es@.len(),
    //@| decreases __it1.es@.len() - __it1.pos@,
    //@+ loop 1 begin-raw
    //@| let ghost w1 = *self; let ghost pos1 = __it1.pos@ - 1;
    //@+ loop 1 begin
    //@| assert(j2 == pent(*str, *pivots, j as int)[pos1] && j2 < ncols(*str));
    //@+ loop 1 end
    //@| assert(wk_always(*self, *str, *pivots)) by {
    //@|     assert forall|e: int| 0 <= e < self.queue@.len() implies has_col(*pivots, #[trigger] self.queue@[e] as int) by { if e < w1.queue@.len() { assert(self.queue@[e] == w1.queue@[e]); } }
    //@| }
    //@| if self.ncand > 0 { lemma_trav_step(w1, *self, *str, *pivots, j as int, pos1, j2); }
    //@+ loop 1 after
    //@| if self.ncand > 0 { lemma_cur_done(*self, *str, *pivots, plen(*pivots), j as int); }

    fn choose_candidate(&self, str: &MatrixStr) -> (r: Option<Col>)
        ensures r.is_some() ==> r.unwrap() < self.status@.len() && self.status@[r.unwrap() as int] == Candidate,
            r.is_none() ==> forall|c: int| 0 <= c < self.status@.len() ==> self.status@[c] != Candidate,
    //@body impl/RowWorker/choose_candidate for_iter=1 loops=1
    //@+ loop 0 header
    //@| (0 .. n) .filter(|&j|
    //@+ loop 0
    //@| invariant __hi0 == self.status@.len(), __it0 <= __hi0,
    //@|     __best0.is_some() ==> __best0.unwrap() < __it0 && self.status@[__best0.unwrap() as int] == Candidate,
    //@|     __best0.is_none() ==> forall|c: int| 0 <= c < __it0 ==> self.status@[c] != Candidate,

    fn update_diff(&mut self, loc_pivots: &PivotData, pivots: &PivotData)
        requires piv_rep(*pivots), plen(*loc_pivots) <= plen(*pivots), old(self).ncand as int == ncnt(old(self).status@, old(self).status@.len() as int),
            forall|k: int| 0 <= k < pivots.indices@.len() ==> (#[trigger] pivots.indices@[k]) < old(self).status@.len(),
        ensures upd_inv(*old(self), *final(self), *loc_pivots, *pivots, plen(*pivots)),
    //@body impl/RowWorker/update_diff for_range=1 loops=1
    //@+ loop 0 header
    //@| for k in loc_pivots.count()..pivots.count()
    //@+ pre-raw
    //@| let ghost w0 = *self;
    //@+ loop 0
    //@| invariant piv_rep(*pivots), plen(*loc_pivots) <= __it0 <= __hi0, __hi0 == plen(*pivots), w0.ncand as int == ncnt(w0.status@, w0.status@.len() as int),
    //@|     forall|k: int| 0 <= k < pivots.indices@.len() ==> (#[trigger] pivots.indices@[k]) < w0.status@.len(),
    //@|     upd_inv(w0, *self, *loc_pivots, *pivots, __it0 as int),
    //@+ loop 0 begin-raw
    //@| let ghost w1 = *self;
    //@+ loop 0 begin
    //@| assert(pivots.indices@[k as int] < w0.status@.len());
    //@| // the k-th pivot column is none of the earlier ones, so its mark is still the original one
    //@| assert(!newk(*loc_pivots, *pivots, k as int, pivots.indices@[k as int] as int)) by {
    //@|     if newk(*loc_pivots, *pivots, k as int, pivots.indices@[k as int] as int) { let l = choose|l: int| plen(*loc_pivots) <= l < k && l < pivots.indices@.len() && #[trigger] pivots.indices@[l] as int == pivots.indices@[k as int] as int; assert(pivots.indices@[l] != pivots.indices@[k as int]); }
    //@| }
    //@+ loop 0 end
    //@| let jj = pivots.indices@[k as int];
    //@| assert forall|c: int| true implies #[trigger] newk(*loc_pivots, *pivots, k + 1, c) == (newk(*loc_pivots, *pivots, k as int, c) || c == jj as int) by {
    //@|     if newk(*loc_pivots, *pivots, k as int, c) { let l = choose|l: int| plen(*loc_pivots) <= l < k && l < pivots.indices@.len() && #[trigger] pivots.indices@[l] as int == c; assert(pivots.indices@[l] as int == c); }
    //@|     if c == jj as int { assert(pivots.indices@[k as int] as int == c); }
    //@|     if newk(*loc_pivots, *pivots, k + 1, c) { let l = choose|l: int| plen(*loc_pivots) <= l < k + 1 && l < pivots.indices@.len() && #[trigger] pivots.indices@[l] as int == c; if l < k { assert(pivots.indices@[l] as int == c); } }
    //@| }
    //@| assert forall|c: int| newk(*loc_pivots, *pivots, k + 1, c) && 0 <= c < w0.status@.len() && w0.status@[c] != EntryStatus::None implies #[trigger] in_queue(*self, c) by {
    //@|     if c == jj as int { assert(self.queue@[w1.queue@.len() as int] as int == c); }
    //@|     else { assert(in_queue(w1, c)); let e0 = choose|e0: int| 0 <= e0 < w1.queue@.len() && #[trigger] w1.queue@[e0] as int == c; assert(self.queue@[e0] as int == c); }
    //@| }
    //@| assert forall|e: int| w0.queue@.len() <= e < self.queue@.len() implies newk(*loc_pivots, *pivots, k + 1, #[trigger] self.queue@[e] as int) && self.queue@[e] < w0.status@.len() && w0.status@[self.queue@[e] as int] != EntryStatus::None by {
    //@|     if e < w1.queue@.len() { assert(self.queue@[e] == w1.queue@[e]); }
    //@| }
    //@| assert forall|e: int| 0 <= e < w0.queue@.len() implies #[trigger] self.queue@[e] == w0.queue@[e] by { assert(self.queue@[e] == w1.queue@[e]); }

    fn find_cycle_free_pivots(&mut self, i: usize, str: &MatrixStr, pivots: &PivotData) -> (r: Option<Col>)
        requires str_wf(*str), piv_wf(*str, *pivots), i < nrows(*str), old(self).status@.len() == ncols(*str),
        ensures final(self).row == i, final(self).status@.len() == ncols(*str), r.is_some() ==> ready(*final(self), *str, *pivots, r.unwrap() as int),
    //@body impl/RowWorker/find_cycle_free_pivots
    //@+ post
    //@| lemma_ncnt_zero(self.status@, self.status@.len() as int);
}

// ---------------------------------------------------------------- the shared pivot table behind std::sync::RwLock: lock-invariant model (ASSUMED)
// The lock owns a PivotData satisfying pf_inv for the lock's matrix structure.  Acquiring for writing yields the current value g:
//   * invariant:  pf_inv(st, g);
//   * history:    g extends every value seen earlier (guaranteed by every release: the table only grows);
//   * rely:       a row that only this invocation commits on (`owned`) is not a pivot row of g.
// Releasing (the guard's drop) demands the invariant and the guarantee: the table extends the acquired one and every new pivot lies on the
// caller's own row.  Mutual exclusion of std's RwLock is what makes this rule sound for every interleaving; it is not proved here.
pub struct PLock { pub id: Ghost<int> }
impl PLock {
    pub uninterp spec fn st(&self) -> MatrixStr;
    pub uninterp spec fn seen(&self, data: Seq<Option<usize>>, indices: Seq<usize>) -> bool;
}
#[verifier::external_body]
pub fn lock_write_(lk: &PLock, Ghost(loc): Ghost<PivotData>, Ghost(row): Ghost<int>, Ghost(owned): Ghost<bool>) -> (g: PivotData)
    requires lk.seen(loc.data@, loc.indices@),
    ensures pf_inv(lk.st(), g), extends(g, loc), owned ==> !is_piv_row(g, row), lk.seen(g.data@, g.indices@),
{ unimplemented!() }
#[verifier::external_body]
pub fn lock_release_(lk: &PLock, g: &PivotData, Ghost(g0): Ghost<PivotData>, Ghost(row): Ghost<int>, Ghost(owned): Ghost<bool>)
    requires pf_inv(lk.st(), *g), extends(*g, g0), forall|c: int| has_col(*g, c) && !has_col(g0, c) ==> owned && #[trigger] prow(*g, c) == row,
    ensures lk.seen(g.data@, g.indices@),
{ unimplemented!() }

// ---------------------------------------------------------------- PivotFinder
//@item struct/PivotFinder
//@item const/LOG_THRESHOLD

/// the rows still to be searched, as handed out by PivotFinder::remain_rows (model of the collected vector and its by-value iteration)
pub struct RowVec { pub v: Vec<usize> }
pub struct RowVecIter { pub es: Ghost<Seq<usize>>, pub pos: Ghost<int> }
pub struct RemIter { pub es: Ghost<Seq<usize>> }
impl RemIter { #[verifier::external_body] pub fn collect(self) -> (r: RowVec) ensures r.v@ == self.es@ { unimplemented!() } }
impl RowVec {
    pub fn len(&self) -> (r: usize) ensures r == self.v@.len() { self.v.len() }
    #[verifier::external_body] pub fn into_iter(self) -> (r: RowVecIter) ensures r.es@ == self.v@, r.pos@ == 0 { unimplemented!() }
}
impl RowVecIter {
    pub fn into_iter(self) -> (r: Self) ensures r == self { self }
    #[verifier::external_body] pub fn next(&mut self) -> (r: Option<usize>)
        requires 0 <= old(self).pos@ <= old(self).es@.len()
        ensures final(self).es@ == old(self).es@,
            old(self).pos@ < old(self).es@.len() ==> (final(self).pos@ == old(self).pos@ + 1 && r == Some(old(self).es@[old(self).pos@])),
            old(self).pos@ >= old(self).es@.len() ==> (final(self).pos@ == old(self).pos@ && r.is_none()),
    { unimplemented!() }
}
/// rows: pairwise different, in range, none of them a pivot row
pub open spec fn rows_ok(s: MatrixStr, p: PivotData, v: Seq<usize>, from: int) -> bool {
    &&& forall|k: int| from <= k < v.len() ==> (#[trigger] v[k]) < nrows(s) && !is_piv_row(p, v[k] as int)
    &&& forall|k: int, l: int| 0 <= k < l < v.len() ==> v[k] != v[l]
}

/// rows list their columns in strictly increasing order
pub open spec fn str_sorted(s: MatrixStr) -> bool { forall|i: int, k: int, l: int| 0 <= i < nrows(s) && 0 <= k < l < ent(s, i).len() ==> #[trigger] ent(s, i)[k] < #[trigger] ent(s, i)[l] }
/// every pivot is the leading entry of its row
pub open spec fn all_heads(s: MatrixStr, p: PivotData) -> bool { forall|c: int| has_col(p, c) ==> ent(s, #[trigger] prow(p, c)).len() > 0 && ent(s, prow(p, c))[0] == c }
/// occ contains every column of every pivot row
pub open spec fn occ_ok(s: MatrixStr, p: PivotData, occ: Set<usize>) -> bool { forall|c0: int, e: int| has_col(p, c0) && 0 <= e < pent(s, p, c0).len() ==> occ.contains(#[trigger] pent(s, p, c0)[e]) }

/// phase 1 commit: (i, j) with j the leading column of row i, j not yet a pivot column
pub proof fn lemma_fl_add(s: MatrixStr, p: PivotData, p2: PivotData, i: int, j: int)
    requires pf_inv(s, p), str_sorted(s), all_heads(s, p), added(p, p2, i, j), !has_col(p, j), 0 <= i < nrows(s), !is_piv_row(p, i),
        ent(s, i).len() > 0, ent(s, i)[0] == j, is_cand(s, i, j),
    ensures pf_inv(s, p2), all_heads(s, p2), extends(p2, p), forall|c: int| has_col(p2, c) <==> (c == j || has_col(p, c)), forall|c: int| has_col(p, c) ==> prow(p2, c) == prow(p, c), prow(p2, j) == i,
{
    assert(row_has(s, i, j));
    lemma_added_wf(s, p, p2, i, j);
    let q = |c: int| has_col(p, c) && c > j;
    assert forall|c: int, c2: int| q(c) && #[trigger] edge(s, p, c, c2) implies q(c2) by {
        let e = choose|e: int| 0 <= e < ent(s, prow(p, c)).len() && #[trigger] ent(s, prow(p, c))[e] == c2;
        assert(ent(s, prow(p, c))[0] == c); if e > 0 { assert(ent(s, prow(p, c))[0] < ent(s, prow(p, c))[e]); }
    }
    assert forall|c2: int| has_col(p, c2) && #[trigger] row_has(s, i, c2) implies q(c2) by {
        let e = choose|e: int| 0 <= e < ent(s, i).len() && #[trigger] ent(s, i)[e] == c2;
        if e > 0 { assert(ent(s, i)[0] < ent(s, i)[e]); }
    }
    assert forall|c: int| q(c) implies !row_has(s, #[trigger] prow(p, c), j) by {
        if row_has(s, prow(p, c), j) {
            let e = choose|e: int| 0 <= e < ent(s, prow(p, c)).len() && #[trigger] ent(s, prow(p, c))[e] == j;
            assert(ent(s, prow(p, c))[0] == c); if e > 0 { assert(ent(s, prow(p, c))[0] < ent(s, prow(p, c))[e]); }
        }
    }
    lemma_add_pivot(s, p, p2, i, j, q);
    assert forall|c: int| has_col(p2, c) implies ent(s, #[trigger] prow(p2, c)).len() > 0 && ent(s, prow(p2, c))[0] == c by { if c != j { assert(has_col(p, c)); assert(prow(p2, c) == prow(p, c)); } }
}
pub proof fn lemma_not_occ_not_piv(s: MatrixStr, p: PivotData, occ: Set<usize>, j: int)
    requires pf_inv(s, p), occ_ok(s, p, occ), 0 <= j < ncols(s), !occ.contains(j as usize)
    ensures !has_col(p, j)
{
    if has_col(p, j) { assert(row_has(s, prow(p, j), j)); let e = choose|e: int| 0 <= e < ent(s, prow(p, j)).len() && #[trigger] ent(s, prow(p, j))[e] == j; assert(occ.contains(pent(s, p, j)[e])); }
}
/// phase 2 commit: (i, j) with j a candidate of row i that occurs in no pivot row
pub proof fn lemma_flcol_add(s: MatrixStr, p: PivotData, p2: PivotData, i: int, j: int, occ: Set<usize>)
    requires pf_inv(s, p), occ_ok(s, p, occ), added(p, p2, i, j), 0 <= j < ncols(s), !occ.contains(j as usize), 0 <= i < nrows(s), !is_piv_row(p, i), is_cand(s, i, j), row_has(s, i, j),
    ensures pf_inv(s, p2), extends(p2, p), !has_col(p, j), forall|c: int| has_col(p2, c) <==> (c == j || has_col(p, c)), forall|c: int| has_col(p, c) ==> prow(p2, c) == prow(p, c), prow(p2, j) == i,
{
    assert(!has_col(p, j)) by {
        if has_col(p, j) { assert(row_has(s, prow(p, j), j)); let e = choose|e: int| 0 <= e < ent(s, prow(p, j)).len() && #[trigger] ent(s, prow(p, j))[e] == j; assert(occ.contains(pent(s, p, j)[e])); }
    }
    lemma_added_wf(s, p, p2, i, j);
    let q = |c: int| has_col(p, c);
    assert forall|c: int| q(c) implies !row_has(s, #[trigger] prow(p, c), j) by {
        if row_has(s, prow(p, c), j) { let e = choose|e: int| 0 <= e < ent(s, prow(p, c)).len() && #[trigger] ent(s, prow(p, c))[e] == j; assert(occ.contains(pent(s, p, c)[e])); }
    }
    lemma_add_pivot(s, p, p2, i, j, q);
}
/// after committing on row v[pos], the later rows are still free
pub proof fn lemma_rows_step(s: MatrixStr, p: PivotData, p2: PivotData, v: Seq<usize>, pos: int, j: int)
    requires rows_ok(s, p, v, pos), 0 <= pos < v.len(), forall|c: int| has_col(p2, c) <==> (c == j || has_col(p, c)), forall|c: int| has_col(p, c) ==> prow(p2, c) == prow(p, c), prow(p2, j) == v[pos] as int,
    ensures rows_ok(s, p2, v, pos + 1)
{
    assert forall|k: int| pos + 1 <= k < v.len() implies (#[trigger] v[k]) < nrows(s) && !is_piv_row(p2, v[k] as int) by {
        if is_piv_row(p2, v[k] as int) {
            let c = choose|c: int| has_col(p2, c) && #[trigger] prow(p2, c) == v[k] as int;
            if c != j { assert(has_col(p, c)); assert(prow(p, c) == v[k] as int); assert(is_piv_row(p, v[k] as int)); }
            else { assert(v[pos] != v[k]); }
        }
    }
}

impl PivotFinder {
    pub fn new(a: &SpMat, piv_type: PivotType, pivot_cond: PivotCondition) -> (r: PivotFinder)
        ensures pf_inv(r.str, r.pivots), str_sorted(r.str), all_heads(r.str, r.pivots), r.pivots.indices@.len() == 0, r.piv_type == piv_type,
    //@body impl/PivotFinder/new
    //@+ post
    //@| lemma_acyclic_empty(str, pivots);
    /// phase 3 = find_cycle_free_pivots_m with the default feature `multithread` (its critical section is verified below, its rayon / thread-local
    /// dispatcher is ASSUMED to call it as the preconditions there describe), find_cycle_free_pivots_s otherwise (verified below).  The body is a
    /// cfg_if! switch between the two.
    #[verifier::external_body] fn find_cycle_free_pivots(&mut self)
        requires pf_inv(old(self).str, old(self).pivots),
        ensures pf_inv(final(self).str, final(self).pivots), final(self).str == old(self).str, extends(final(self).pivots, old(self).pivots),
    { unimplemented!() }
    /// all three phases: the table handed to `result` satisfies pf_inv -- distinct rows and columns, pivot condition, acyclic dependency graph
    pub fn find_pivots(&mut self)
        requires pf_inv(old(self).str, old(self).pivots), str_sorted(old(self).str), all_heads(old(self).str, old(self).pivots),
        ensures pf_inv(final(self).str, final(self).pivots), final(self).str == old(self).str,
    //@body impl/PivotFinder/find_pivots
    fn rows(&self) -> (r: Row) ensures r == self.str.shape.0,
    //@body impl/PivotFinder/rows
    fn cols(&self) -> (r: Col) ensures r == self.str.shape.1,
    //@body impl/PivotFinder/cols
    /// ASSUMED (AHashSet collect + filter + itertools::sorted_by on f64 weights): the non-empty rows that carry no pivot, each once
    #[verifier::external_body] fn remain_rows(&self) -> (r: RemIter)
        requires str_wf(self.str), piv_wf(self.str, self.pivots),
        ensures rows_ok(self.str, self.pivots, r.es@, 0),
    { unimplemented!() }
    /// log level query -- UNINTERPRETED
    #[verifier::external_body] fn should_report(&self) -> (r: bool) { unimplemented!() }

    /// sequential search phase: every commit keeps pf_inv
    fn find_cycle_free_pivots_s(&mut self)
        requires pf_inv(old(self).str, old(self).pivots),
        ensures pf_inv(final(self).str, final(self).pivots), final(self).str == old(self).str, extends(final(self).pivots, old(self).pivots),
    //@body impl/PivotFinder/find_cycle_free_pivots_s for_iter=1 loops=1 subst=Vec:RowVec
    //@+ loop 0 header
    //@| for i in remain_rows
    //@+ pre-raw
    //@| let ghost s0 = self.str; let ghost p0 = self.pivots;
    //@+ loop 0
    //@| invariant self.str == s0, pf_inv(s0, self.pivots), extends(self.pivots, p0), w.status@.len() == ncols(s0), 0 <= __it0.pos@ <= __it0.es@.len(), __it0.es@.len() <= usize::MAX,
    //@|     rows_ok(s0, self.pivots, __it0.es@, __it0.pos@), row_count <= __it0.pos@,
    //@| ensures __it0.pos@ == __it0.es@.len(),
    //@| decreases __it0.es@.len() - __it0.pos@,
    //@+ loop 0 begin-raw
    //@| let ghost p1 = self.pivots; let ghost pos1 = __it0.pos@ - 1;
    //@+ loop 0 begin
    //@| assert(i == __it0.es@[pos1]);
    //@+ after-call set#0
    //@| lemma_ready_add(w, s0, p1, self.pivots, j as int);
    //@| assert forall|k: int| pos1 + 1 <= k < __it0.es@.len() implies !is_piv_row(self.pivots, (#[trigger] __it0.es@[k]) as int) by {
    //@|     if is_piv_row(self.pivots, __it0.es@[k] as int) {
    //@|         let c = choose|c: int| has_col(self.pivots, c) && #[trigger] prow(self.pivots, c) == __it0.es@[k] as int;
    //@|         if c != j as int { assert(has_col(p1, c)); assert(prow(p1, c) == __it0.es@[k] as int); assert(is_piv_row(p1, __it0.es@[k] as int)); }
    //@|         else { assert(__it0.es@[pos1] != __it0.es@[k]); }
    //@|     }
    //@| }
    //@| assert(extends(self.pivots, p0));

    /// the validate-or-retry critical section of the parallel phase.  Preconditions describe the (unverified) dispatcher
    /// find_cycle_free_pivots_m: `w` was initialised for its row on `loc_pivots` (RowWorker::init, verified above), `loc_pivots` is an
    /// earlier value of the shared table, and -- ghost `owned` below -- this invocation is the only one committing on row `w.row`.
    fn find_cycle_free_pivots_in(&self, pivots: &PLock, loc_pivots: &mut PivotData, w: &mut RowWorker)
        requires str_wf(self.str), pivots.st() == self.str, piv_wf(self.str, *old(loc_pivots)), pivots.seen(old(loc_pivots).data@, old(loc_pivots).indices@),
            tinv(*old(w), self.str, *old(loc_pivots), plen(*old(loc_pivots)), -1, 0),
        ensures final(w).row == old(w).row,
    //@body impl/PivotFinder/find_cycle_free_pivots_in loops=1
    //@+ loop 0 header
    //@| loop
    //@+ pre-raw
    //@| let ghost s0 = self.str; let ghost row0 = w.row; let ghost mut owned = true;
    //@+ loop 0
    //@| invariant_except_break str_wf(s0), s0 == self.str, pivots.st() == s0, piv_wf(s0, *loc_pivots), pivots.seen(loc_pivots.data@, loc_pivots.indices@),
    //@|     tinv(*w, s0, *loc_pivots, plen(*loc_pivots), -1, 0), owned,
    //@| invariant w.row == row0,
    //@| decreases ncols(s0) - plen(*loc_pivots),
    //@+ after-let j
    //@| lemma_ncnt_zero(w.status@, w.status@.len() as int);
    //@| assert(ready(*w, s0, *loc_pivots, j as int));
    //@| lemma_plen_bound(s0, *loc_pivots);
    //@+ guard pivots acquire
    //@| lock_write_(__lk_pivots, Ghost(*loc_pivots), Ghost(row0 as int), Ghost(owned))
    //@+ guard pivots release
    //@| lock_release_(__lk_pivots, &pivots, Ghost(g0), Ghost(row0 as int), Ghost(owned)); proof { if plen(pivots) > plen(g0) { owned = false; } }
    //@+ after-let-raw pivots
    //@| let ghost g0 = pivots; let ghost wq = *w; let ghost loc0 = *loc_pivots;
    //@| proof { assert forall|k: int| 0 <= k < pivots.indices@.len() implies (#[trigger] pivots.indices@[k]) < w.status@.len() by { assert(has_col(pivots, pivots.indices@[k] as int)); } }
    //@+ after-call update_diff#0
    //@| lemma_update_diff(wq, *w, s0, loc0, pivots);
    //@| lemma_hk_full(s0, pivots, j as int);
    //@| lemma_plen_bound(s0, pivots);
    //@| if w.queue@.len() > 0 { let c = w.queue@[0]; assert(newk(loc0, pivots, plen(pivots), c as int)); }
    //@| else {
    //@|     // nothing was queued: the candidate j is not one of the new pivot columns and keeps its mark
    //@|     if newk(loc0, pivots, plen(pivots), j as int) { assert(in_queue(*w, j as int)); }
    //@|     assert(w.status@[j as int] == Candidate);
    //@|     assert(!has_col(pivots, j as int));
    //@| }
    //@+ after-call update_from#0
    //@| lemma_cong(*w, s0, pivots, *loc_pivots);
    //@+ after-call set#0
    //@| lemma_ready_add(*w, s0, g0, pivots, j as int);

    /// phase 1: rows whose leading column is free.  Relies on rows listing their columns in increasing order (ASSUMED of MatrixStr::new:
    /// the CSC iteration order of the matrix); then the leading column is the least one and the pivots are triangular as they stand.
    fn find_fl_pivots(&mut self)
        requires pf_inv(old(self).str, old(self).pivots), str_sorted(old(self).str), all_heads(old(self).str, old(self).pivots),
        ensures pf_inv(final(self).str, final(self).pivots), final(self).str == old(self).str, extends(final(self).pivots, old(self).pivots),
    //@body impl/PivotFinder/find_fl_pivots for_iter=1 loops=1 subst=Vec:RowVec
    //@+ loop 0 header
    //@| for i in remain_rows
    //@+ pre-raw
    //@| let ghost s0 = self.str; let ghost p0 = self.pivots;
    //@+ loop 0
    //@| invariant self.str == s0, pf_inv(s0, self.pivots), str_sorted(s0), all_heads(s0, self.pivots), extends(self.pivots, p0), 0 <= __it0.pos@ <= __it0.es@.len(),
    //@|     rows_ok(s0, self.pivots, __it0.es@, __it0.pos@),
    //@| ensures __it0.pos@ == __it0.es@.len(),
    //@| decreases __it0.es@.len() - __it0.pos@,
    //@+ loop 0 begin-raw
    //@| let ghost p1 = self.pivots; let ghost pos1 = __it0.pos@ - 1;
    //@+ loop 0 begin
    //@| assert(i == __it0.es@[pos1]);
    //@+ after-call set#0
    //@| lemma_fl_add(s0, p1, self.pivots, i as int, j as int);
    //@| lemma_rows_step(s0, p1, self.pivots, __it0.es@, pos1, j as int);
    //@| assert(extends(self.pivots, p0));

    /// every column occurring in a pivot row
    fn occupied_cols(&self) -> (r: ASet)
        requires str_wf(self.str), piv_wf(self.str, self.pivots),
        ensures occ_ok(self.str, self.pivots, r.v()),
    //@body impl/PivotFinder/occupied_cols for_iter=1 loops=2 subst=AHashSet:ASet
    //@+ loop 0 header
    //@| self.pivots.iter().fold(AHashSet::new(),
    //@+ loop 1 header
    //@| for &j in self.str.cols_in(i)
    //@+ loop 0
    //@| invariant str_wf(self.str), piv_wf(self.str, self.pivots), piv_iter_ok(self.pivots, __it0.es@), 0 <= __it0.pos@ <= __it0.es@.len(),
    //@|     forall|k: int, e: int| 0 <= k < __it0.pos@ && 0 <= e < pent(self.str, self.pivots, self.pivots.indices@[k] as int).len() ==> __acc0.v().contains(#[trigger] pent(self.str, self.pivots, self.pivots.indices@[k] as int)[e]),
    //@| ensures __it0.pos@ == __it0.es@.len(),
    //@| decreases __it0.es@.len() - __it0.pos@,
    //@+ loop 1
    //@| invariant str_wf(self.str), i < nrows(self.str), __it1.es@ == ent(self.str, i as int), 0 <= __it1.pos@ <= __it1.es@.len(),
    //@|     forall|c: usize| acc_in.contains(c) ==> res.v().contains(c),
    //@|     forall|e: int| 0 <= e < __it1.pos@ ==> res.v().contains(#[trigger] ent(self.str, i as int)[e]),
    //@| ensures __it1.pos@ == __it1.es@.len(),
    //@| decreases __it1.es@.len() - __it1.pos@,
    //@+ loop 1 before
    //@| acc_in = res.v();
    //@| assert(has_col(self.pivots, self.pivots.indices@[__it0.pos@ - 1] as int));
    //@+ pre-raw
    //@| let ghost mut acc_in: Set<usize> = Set::empty();
    //@+ loop 0 end
    //@| assert forall|k: int, e: int| 0 <= k < __it0.pos@ && 0 <= e < pent(self.str, self.pivots, self.pivots.indices@[k] as int).len() implies __acc0.v().contains(#[trigger] pent(self.str, self.pivots, self.pivots.indices@[k] as int)[e]) by {
    //@|     if k < __it0.pos@ - 1 { assert(acc_in.contains(pent(self.str, self.pivots, self.pivots.indices@[k] as int)[e])); }
    //@| }
    //@+ loop 0 after
    //@| assert forall|c0: int, e: int| has_col(self.pivots, c0) && 0 <= e < pent(self.str, self.pivots, c0).len() implies __acc0.v().contains(#[trigger] pent(self.str, self.pivots, c0)[e]) by {
    //@|     let k = choose|k: int| 0 <= k < self.pivots.indices@.len() && #[trigger] self.pivots.indices@[k] == c0;
    //@|     assert(__acc0.v().contains(pent(self.str, self.pivots, self.pivots.indices@[k] as int)[e]));
    //@| }

    /// phase 2: a candidate column that occurs in no pivot row
    fn find_fl_col_pivots(&mut self)
        requires pf_inv(old(self).str, old(self).pivots),
        ensures pf_inv(final(self).str, final(self).pivots), final(self).str == old(self).str, extends(final(self).pivots, old(self).pivots),
    //@body impl/PivotFinder/find_fl_col_pivots for_iter=1 loops=4 subst=Vec:RowVec vec_elem=usize
    //@+ loop 0 header
    //@| for i in remain_rows
    //@+ loop 1 header
    //@| for &j in self.str.cols_in(i)
    //@+ loop 2 header
    //@| cands.into_iter().sorted_by(|&j1, &j2|
    //@+ loop 3 header
    //@| for &j in self.str.cols_in(i)
    //@+ pre-raw
    //@| let ghost s0 = self.str; let ghost p0 = self.pivots;
    //@+ loop 0
    //@| invariant self.str == s0, pf_inv(s0, self.pivots), extends(self.pivots, p0), 0 <= __it0.pos@ <= __it0.es@.len(),
    //@|     rows_ok(s0, self.pivots, __it0.es@, __it0.pos@), occ_ok(s0, self.pivots, occ_cols.v()),
    //@| ensures __it0.pos@ == __it0.es@.len(),
    //@| decreases __it0.es@.len() - __it0.pos@,
    //@+ loop 0 begin-raw
    //@| let ghost p1 = self.pivots; let ghost pos1 = __it0.pos@ - 1; let ghost occ1 = occ_cols.v();
    //@+ loop 0 begin
    //@| assert(i == __it0.es@[pos1]);
    //@+ loop 1
    //@| invariant self.str == s0, str_wf(s0), i < nrows(s0), __it1.es@ == ent(s0, i as int), 0 <= __it1.pos@ <= __it1.es@.len(), occ_cols.v() == occ1,
    //@|     forall|e: int| 0 <= e < cands@.len() ==> !occ1.contains(#[trigger] cands@[e]) && is_cand(s0, i as int, cands@[e] as int) && row_has(s0, i as int, cands@[e] as int),
    //@| ensures __it1.pos@ == __it1.es@.len(),
    //@| decreases __it1.es@.len() - __it1.pos@,
    //@+ loop 1 begin
    //@| assert(j == ent(s0, i as int)[__it1.pos@ - 1] && j < ncols(s0));
    //@+ loop 2
    //@| invariant __hi2 == __v2@.len(), __it2 <= __hi2,
    //@|     __best2.is_some() ==> exists|e: int| 0 <= e < __v2@.len() && #[trigger] __v2@[e] == __best2.unwrap(),
    //@+ after-let j
    //@| let e = choose|e: int| 0 <= e < cands@.len() && #[trigger] cands@[e] == j;
    //@| assert(!occ1.contains(j) && is_cand(s0, i as int, j as int) && row_has(s0, i as int, j as int));
    //@| lemma_not_occ_not_piv(s0, p1, occ1, j as int);
    //@+ after-call set#0
    //@| lemma_flcol_add(s0, p1, self.pivots, i as int, j as int, occ1);
    //@| lemma_rows_step(s0, p1, self.pivots, __it0.es@, pos1, j as int);
    //@| assert(extends(self.pivots, p0));
    //@+ loop 3
    //@| invariant self.str == s0, str_wf(s0), i < nrows(s0), __it3.es@ == ent(s0, i as int), 0 <= __it3.pos@ <= __it3.es@.len(),
    //@|     forall|c: usize| occ1.contains(c) ==> occ_cols.v().contains(c),
    //@|     forall|e: int| 0 <= e < __it3.pos@ ==> occ_cols.v().contains(#[trigger] ent(s0, i as int)[e]),
    //@| ensures __it3.pos@ == __it3.es@.len(),
    //@| decreases __it3.es@.len() - __it3.pos@,
    //@+ loop 3 after
    //@| assert(occ_ok(s0, self.pivots, occ_cols.v())) by {
    //@|     assert forall|c0: int, e: int| has_col(self.pivots, c0) && 0 <= e < pent(s0, self.pivots, c0).len() implies occ_cols.v().contains(#[trigger] pent(s0, self.pivots, c0)[e]) by {
    //@|         if c0 != j as int { assert(has_col(p1, c0)); assert(pent(s0, self.pivots, c0) == pent(s0, p1, c0)); assert(occ1.contains(pent(s0, p1, c0)[e])); }
    //@|     }
    //@| }
}

} // verus!
fn main() {}
