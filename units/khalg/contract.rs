// Contract overlay for the Frobenius algebra of Khovanov homology (yui-khovanov/src/kh/alg.rs: KhAlgStr::{prod, coprod}), properties C01 / C05:
// the cube-of-resolutions complex is built from A = R[X]/(X^2 - hX - t) with counit eps(1) = 0, eps(X) = 1.
//   * prod(x, y) lists exactly the non-zero structure constants of the multiplication of A in the basis {1, X};
//   * coprod(x) lists exactly the non-zero coefficients of the comultiplication dual to eps;
//   * the constants themselves are pinned by lemmas, not restated: unit, the relation X^2 = hX + t, the counit law (eps (x) 1) Delta = id
//     and the Frobenius law Delta mu = (mu (x) 1)(1 (x) Delta) hold for mu / dl over an arbitrary commutative ring.
use vstd::prelude::*;
verus! {
//@include prelude/rt.rs
//@include prelude/er.rs
//@source yui-khovanov/src/kh/alg.rs

#[derive(PartialEq, Eq, Structural, Clone, Copy)]
//@item enum/KhAlgGen
use KhAlgGen::{I, X};
//@item struct/KhAlgStr subst=R:ER

/// front removal of a Vec (what `into_iter()` yields next) -- ASSUMED std contract
#[verifier::external_body] pub fn vec_take_first_<T>(v: &mut Vec<T>) -> (r: Option<T>)
    ensures old(v)@.len() == 0 ==> r.is_none() && final(v)@ == old(v)@,
        old(v)@.len() > 0 ==> r == Some(old(v)@[0]) && final(v)@ == old(v)@.subrange(1, old(v)@.len() as int),
{ unimplemented!() }

// ---------------------------------------------------------------- the algebra (specification)
/// x * y = sum_z mu(x, y, z) z   in A = R[X]/(X^2 - hX - t)
pub open spec fn mu(h: int, t: int, x: KhAlgGen, y: KhAlgGen, z: KhAlgGen) -> int {
    if x == I && y == I { if z == I { r1() } else { r0() } }
    else if x == X && y == X { if z == X { h } else { t } }
    else { if z == X { r1() } else { r0() } }
}
/// Delta(x) = sum_{y,z} dl(x, y, z) y (x) z
pub open spec fn dl(h: int, t: int, x: KhAlgGen, y: KhAlgGen, z: KhAlgGen) -> int {
    if x == I { if y == I && z == I { rneg(h) } else if y == X && z == X { r0() } else { r1() } }
    else { if y == X && z == X { r1() } else if y == I && z == I { t } else { r0() } }
}
/// counit
pub open spec fn eps(x: KhAlgGen) -> int { if x == X { r1() } else { r0() } }

/// counit law: (eps (x) 1) Delta(x) = x, i.e. sum_y eps(y) dl(x, y, z) = [z == x]   -- this determines Delta from eps and mu
pub proof fn lemma_counit(h: int, t: int, x: KhAlgGen, z: KhAlgGen)
    ensures radd(rmul(eps(I), dl(h, t, x, I, z)), rmul(eps(X), dl(h, t, x, X, z))) == (if z == x { r1() } else { r0() })
{
    spray(h, t);
}
/// Frobenius law, coefficient of a (x) b in Delta(x y) and in (mu (x) 1)(x (x) Delta(y)):  sum_z mu(x,y,z) dl(z,a,b) = sum_c dl(y,c,b) mu(x,c,a)
pub proof fn lemma_frobenius(h: int, t: int, x: KhAlgGen, y: KhAlgGen, a: KhAlgGen, b: KhAlgGen)
    ensures radd(rmul(mu(h, t, x, y, I), dl(h, t, I, a, b)), rmul(mu(h, t, x, y, X), dl(h, t, X, a, b)))
         == radd(rmul(dl(h, t, y, I, b), mu(h, t, x, I, a)), rmul(dl(h, t, y, X, b), mu(h, t, x, X, a)))
{
    spray(h, t);
}
/// instances of the commutative-ring axioms on the five values {0, 1, h, t, -h} the structure constants take
pub proof fn spray(h: int, t: int)
    ensures
        forall|u: int| #![trigger rmul(r0(), u)] rmul(r0(), u) == r0(),
        forall|u: int| #![trigger rmul(u, r0())] rmul(u, r0()) == r0(),
        forall|u: int| #![trigger rmul(r1(), u)] rmul(r1(), u) == u,
        forall|u: int| #![trigger rmul(u, r1())] rmul(u, r1()) == u,
        forall|u: int| #![trigger radd(r0(), u)] radd(r0(), u) == u,
        forall|u: int| #![trigger radd(u, r0())] radd(u, r0()) == u,
        radd(rneg(h), h) == r0(), radd(h, rneg(h)) == r0(),
        radd(rmul(t, rneg(h)), rmul(h, t)) == r0(),
{
    assert forall|u: int| #![trigger rmul(r0(), u)] rmul(r0(), u) == r0() by { id_mul_zero(u); }
    assert forall|u: int| #![trigger rmul(u, r0())] rmul(u, r0()) == r0() by { id_mul_zero(u); }
    assert forall|u: int| #![trigger rmul(r1(), u)] rmul(r1(), u) == u by { ax_mul_one(u); }
    assert forall|u: int| #![trigger rmul(u, r1())] rmul(u, r1()) == u by { ax_mul_one(u); }
    assert forall|u: int| #![trigger radd(r0(), u)] radd(r0(), u) == u by { ax_add_zero(u); }
    assert forall|u: int| #![trigger radd(u, r0())] radd(u, r0()) == u by { ax_add_zero(u); }
    ax_add_neg(h); ax_add_comm(h, rneg(h));
    // t (-h) + h t = -(h t) + h t = 0
    ax_mul_comm(t, rneg(h)); id_neg_mul(h, t); ax_add_neg(rmul(h, t)); ax_add_comm(rneg(rmul(h, t)), rmul(h, t));
}

// ---------------------------------------------------------------- coefficient of a generator (pair) in a term list
pub open spec fn c1(e: (KhAlgGen, ER), z: KhAlgGen) -> int { if e.0 == z { e.1.v() } else { r0() } }
pub open spec fn coef1(s: Seq<(KhAlgGen, ER)>, z: KhAlgGen) -> int decreases s.len() { if s.len() == 0 { r0() } else { radd(coef1(s.drop_last(), z), c1(s.last(), z)) } }
pub open spec fn c2(e: (KhAlgGen, KhAlgGen, ER), y: KhAlgGen, z: KhAlgGen) -> int { if e.0 == y && e.1 == z { e.2.v() } else { r0() } }
pub open spec fn coef2(s: Seq<(KhAlgGen, KhAlgGen, ER)>, y: KhAlgGen, z: KhAlgGen) -> int decreases s.len() { if s.len() == 0 { r0() } else { radd(coef2(s.drop_last(), y, z), c2(s.last(), y, z)) } }
pub proof fn lemma_coef1_push(s: Seq<(KhAlgGen, ER)>, e: (KhAlgGen, ER), z: KhAlgGen) ensures coef1(s.push(e), z) == radd(coef1(s, z), c1(e, z)) { assert(s.push(e).drop_last() == s); }
pub proof fn lemma_coef2_push(s: Seq<(KhAlgGen, KhAlgGen, ER)>, e: (KhAlgGen, KhAlgGen, ER), y: KhAlgGen, z: KhAlgGen) ensures coef2(s.push(e), y, z) == radd(coef2(s, y, z), c2(e, y, z)) { assert(s.push(e).drop_last() == s); }
/// an entry with coefficient zero does not contribute
pub proof fn lemma_drop1(a: Seq<(KhAlgGen, ER)>, x: (KhAlgGen, ER), b: Seq<(KhAlgGen, ER)>, z: KhAlgGen)
    requires x.1.v() == r0()
    ensures coef1(a.push(x) + b, z) == coef1(a + b, z)
    decreases b.len()
{
    if b.len() == 0 { assert(a.push(x) + b == a.push(x)); assert(a + b == a); lemma_coef1_push(a, x, z); ax_add_zero(coef1(a, z)); }
    else {
        assert((a.push(x) + b).drop_last() == a.push(x) + b.drop_last()); assert((a + b).drop_last() == a + b.drop_last());
        assert((a.push(x) + b).last() == b.last()); assert((a + b).last() == b.last());
        lemma_drop1(a, x, b.drop_last(), z);
    }
}
pub proof fn lemma_drop2(a: Seq<(KhAlgGen, KhAlgGen, ER)>, x: (KhAlgGen, KhAlgGen, ER), b: Seq<(KhAlgGen, KhAlgGen, ER)>, y: KhAlgGen, z: KhAlgGen)
    requires x.2.v() == r0()
    ensures coef2(a.push(x) + b, y, z) == coef2(a + b, y, z)
    decreases b.len()
{
    if b.len() == 0 { assert(a.push(x) + b == a.push(x)); assert(a + b == a); lemma_coef2_push(a, x, y, z); ax_add_zero(coef2(a, y, z)); }
    else {
        assert((a.push(x) + b).drop_last() == a.push(x) + b.drop_last()); assert((a + b).drop_last() == a + b.drop_last());
        assert((a.push(x) + b).last() == b.last()); assert((a + b).last() == b.last());
        lemma_drop2(a, x, b.drop_last(), y, z);
    }
}

impl KhAlgStr {
    pub fn h(&self) -> (r: &ER) ensures r.v() == self.h.v(),
    //@body impl/KhAlgStr/h
    pub fn t(&self) -> (r: &ER) ensures r.v() == self.t.v(),
    //@body impl/KhAlgStr/t

    /// the product of two basis elements: every listed coefficient is non-zero and the coefficient of z is mu(x, y, z)
    pub fn prod(&self, x: KhAlgGen, y: KhAlgGen) -> (r: Vec<(KhAlgGen, ER)>)
        ensures forall|k: int| 0 <= k < r@.len() ==> (#[trigger] r@[k]).1.v() != r0(),
            forall|z: KhAlgGen| #[trigger] coef1(r@, z) == mu(self.h.v(), self.t.v(), x, y, z),
    //@body impl/KhAlgStr/prod for_iter=1 loops=1 ring=1 subst=R:ER vec_elem=(KhAlgGen,ER)
    //@+ loop 0 header
    //@| res.into_iter().filter(|(_, a)|
    //@+ after-let res
    //@| let e = Seq::<(KhAlgGen, ER)>::empty();
    //@| assert forall|z: KhAlgGen| #[trigger] coef1(res@, z) == mu(self.h.v(), self.t.v(), x, y, z) by {
    //@|     ax_add_zero(r0()); ax_add_zero(r1()); ax_add_zero(self.h.v()); ax_add_zero(self.t.v());
    //@|     if res@.len() == 1 { lemma_coef1_push(e, res@[0], z); assert(res@ == e.push(res@[0])); }
    //@|     else { lemma_coef1_push(e, res@[0], z); lemma_coef1_push(e.push(res@[0]), res@[1], z); assert(res@ == e.push(res@[0]).push(res@[1])); }
    //@| }
    //@+ pre-raw
    //@| let ghost mut res0: Seq<(KhAlgGen, ER)> = Seq::empty();
    //@+ loop 0
    //@| invariant forall|k: int| 0 <= k < __out0@.len() ==> (#[trigger] __out0@[k]).1.v() != r0(),
    //@|     forall|z: KhAlgGen| #[trigger] coef1(__out0@ + __src0@, z) == mu(self.h.v(), self.t.v(), x, y, z),
    //@| ensures __src0@.len() == 0,
    //@| decreases __src0@.len(),
    //@+ loop 0 top-raw
    //@| let ghost o1 = __out0@; let ghost s1 = __src0@;
    //@+ loop 0 end
    //@| let it = s1[0];
    //@| assert forall|z: KhAlgGen| #[trigger] coef1(__out0@ + __src0@, z) == mu(self.h.v(), self.t.v(), x, y, z) by {
    //@|     assert(coef1(o1 + s1, z) == mu(self.h.v(), self.t.v(), x, y, z));
    //@|     if it.1.v() != r0() { assert(__out0@ + __src0@ =~= o1 + s1); }
    //@|     else { lemma_drop1(o1, it, __src0@, z); assert(o1.push(it) + __src0@ =~= o1 + s1); }
    //@| }
    //@+ loop 0 after
    //@| assert(__out0@ + __src0@ =~= __out0@);

    /// the coproduct of a basis element: every listed coefficient is non-zero and the coefficient of y (x) z is dl(x, y, z)
    pub fn coprod(&self, x: KhAlgGen) -> (r: Vec<(KhAlgGen, KhAlgGen, ER)>)
        ensures forall|k: int| 0 <= k < r@.len() ==> (#[trigger] r@[k]).2.v() != r0(),
            forall|y: KhAlgGen, z: KhAlgGen| #[trigger] coef2(r@, y, z) == dl(self.h.v(), self.t.v(), x, y, z),
    //@body impl/KhAlgStr/coprod for_iter=1 loops=1 ring=1 subst=R:ER vec_elem=(KhAlgGen,KhAlgGen,ER)
    //@+ loop 0 header
    //@| res.into_iter().filter(|(_, _, a)|
    //@+ after-let res
    //@| let e = Seq::<(KhAlgGen, KhAlgGen, ER)>::empty();
    //@| assert forall|y: KhAlgGen, z: KhAlgGen| #[trigger] coef2(res@, y, z) == dl(self.h.v(), self.t.v(), x, y, z) by {
    //@|     ax_add_zero(r0()); ax_add_zero(r1()); ax_add_zero(rneg(self.h.v())); ax_add_zero(self.t.v());
    //@|     lemma_coef2_push(e, res@[0], y, z); lemma_coef2_push(e.push(res@[0]), res@[1], y, z);
    //@|     if res@.len() == 2 { assert(res@ == e.push(res@[0]).push(res@[1])); }
    //@|     else { lemma_coef2_push(e.push(res@[0]).push(res@[1]), res@[2], y, z); assert(res@ == e.push(res@[0]).push(res@[1]).push(res@[2])); }
    //@| }
    //@+ loop 0
    //@| invariant forall|k: int| 0 <= k < __out0@.len() ==> (#[trigger] __out0@[k]).2.v() != r0(),
    //@|     forall|y: KhAlgGen, z: KhAlgGen| #[trigger] coef2(__out0@ + __src0@, y, z) == dl(self.h.v(), self.t.v(), x, y, z),
    //@| ensures __src0@.len() == 0,
    //@| decreases __src0@.len(),
    //@+ loop 0 top-raw
    //@| let ghost o1 = __out0@; let ghost s1 = __src0@;
    //@+ loop 0 end
    //@| let it = s1[0];
    //@| assert forall|y: KhAlgGen, z: KhAlgGen| #[trigger] coef2(__out0@ + __src0@, y, z) == dl(self.h.v(), self.t.v(), x, y, z) by {
    //@|     assert(coef2(o1 + s1, y, z) == dl(self.h.v(), self.t.v(), x, y, z));
    //@|     if it.2.v() != r0() { assert(__out0@ + __src0@ =~= o1 + s1); }
    //@|     else { lemma_drop2(o1, it, __src0@, y, z); assert(o1.push(it) + __src0@ =~= o1 + s1); }
    //@| }
    //@+ loop 0 after
    //@| assert(__out0@ + __src0@ =~= __out0@);
}
} // verus!
fn main() {}
