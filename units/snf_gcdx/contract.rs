// Contract overlay for SnfCalc::gcdx (yui-matrix/src/dense/snf.rs), property C09: the 2x2 unimodular
// elimination step relies on  d == s x + t y  with d the normalised gcd.  Verified over the abstract
// Euclidean domain ER, modularly against the contract of EucRing::gcdx (unit euc_ring, re-verified here).
use vstd::prelude::*;
verus! {
//@include prelude/rt.rs
//@include prelude/er.rs
//@include units/euc_ring/body.inc
//@source yui-matrix/src/dense/snf.rs

pub struct SnfCalc;
impl SnfCalc {
    pub fn gcdx(x: &ER, y: &ER) -> (res: (ER, ER, ER))
        requires !(x.v() == r0() && y.v() == r0()),
        ensures
            res.0.v() == radd(rmul(res.1.v(), x.v()), rmul(res.2.v(), y.v())),
            is_gcd(res.0.v(), x.v(), y.v()),
            is_norm(res.0.v()),
    //@body impl/SnfCalc/gcdx ring=1 subst=EucRing:ER,R:ER
    //@+ sig
    //@| fn gcdx(x: &R, y: &R) -> (R, R, R)
    //@+ after-let d
    //@| if d.v() == r0() { lemma_zero_dvd(x.v()); lemma_zero_dvd(y.v()); }
    //@| lemma_rem_zero_iff_dvd(x.v(), d.v()); ax_euclid(x.v(), d.v()); ax_add_zero(rmul(rdiv(x.v(), d.v()), d.v()));
    //@+ after-let a
    //@| // x == a d ;  a w == 1  ==>  w x + 0 y == d
    //@| assert forall|w: int| rmul(a.v(), w) == r1() implies radd(rmul(w, x.v()), rmul(r0(), y.v())) == d.v() by {
    //@|     id_inv_cancel(w, a.v(), d.v()); ax_mul_one(d.v()); id_mul_zero(y.v()); ax_add_zero(rmul(w, x.v()));
    //@| }
}
} // verus!
fn main() {}
