// Contract overlay for the trait-default code of yui/src/abst/euc_ring.rs and yui/src/abst/ring.rs
// (property C15), verified over the abstract Euclidean domain `ER` (prelude/er.rs): these bodies
// run for Z[i], Z[w], Q[x], F_p[x] (machine integers override gcd/gcdx/lcm with num_integer).
// Postconditions are the property statement: gcd divides both, is a combination s a + t b with the
// returned s, t, is the normalised associate regardless of argument order; lcm * gcd ~ a b.
use vstd::prelude::*;
verus! {
//@include prelude/rt.rs
//@include prelude/er.rs

// The proof is about the trait's DEFAULT bodies; it speaks for a type only as long as that type does not override them.
// These pins make an override appear as a lost anchor (exit 2, then the native witness search), not as silence:
//@expect-in yui/src/types/poly/poly.rs impl<const X: char, R> EucRing for Poly<X, R> where R: Field, for<'x> &'x R: FieldOps<R> {}
//@expect-in yui/src/types/poly/h_poly.rs impl<const X: char, R> EucRing for HPoly<X, R> where R: Field, for<'x> &'x R: FieldOps<R> {}
//@expect-in yui/src/types/qint.rs impl<I> EucRing for QuadInt<I, -1> where I: Integer, for<'x> &'x I: IntOps<I> {}
//@expect-in yui/src/types/qint.rs impl<I> EucRing for QuadInt<I, -3> where I: Integer, for<'x> &'x I: IntOps<I> {}
//@expect-in yui/src/types/ratio.rs impl<T> EucRing for Ratio<T> where T: EucRing, for<'x> &'x T: EucRingOps<T> {}
//@expect-in yui/src/types/ff.rs impl<const p: I> EucRing for FF<p> {}
//@expect-in yui/src/types/f2.rs impl EucRing for FF2 {}

//@include units/euc_ring/body.inc

} // verus!
fn main() {}
