// Contract overlay for the invertibility kernel of yui-khovanov/src/kh/internal/v2/cob.rs used by
// Gaussian elimination (properties C01 / C05, mechanism "Gaussian elimination d - c a^-1 b on invertible
// cobordisms"):  LcCob::{is_invertible, inv}, CobComp::{is_invertible, inv}.
//   inv(eps . c) == eps^-1 . c^-1   — the coefficient is the INVERSE unit (a unit need not be its own inverse),
//   and None unless the morphism is a single invertible cobordism with a unit coefficient.
// Coefficients live in the abstract Euclidean domain ER; Cob and the linear combination Lc<Cob, R>
// are abstract (assumed API contracts).
use vstd::prelude::*;
verus! {
//@include prelude/rt.rs
//@include prelude/er.rs
//@source yui-khovanov/src/kh/internal/v2/cob.rs

// ---------------------------------------------------------------- abstract Cob / Lc
pub uninterp spec fn cob_invertible(c: int) -> bool;
pub uninterp spec fn cob_inverse(c: int) -> int;
pub struct Cob { pub k: Ghost<int> }
impl Cob {
    #[verifier::external_body] pub fn is_invertible(&self) -> (r: bool) ensures r == cob_invertible(self.k@) { unimplemented!() }
    #[verifier::external_body] pub fn inv(&self) -> (r: Option<Cob>)
        ensures r.is_some() == cob_invertible(self.k@), r.is_some() ==> r.unwrap().k@ == cob_inverse(self.k@) { unimplemented!() }
}
/// Lc<Cob, R>: finitely many (cobordism, non-zero coefficient) terms.  ASSUMED API contract:
/// nterms, iter().next() (some term, if any), From<(Cob, R)> (the single term)
pub struct LcCob { pub terms: Ghost<Map<int, int>> }
pub struct LcIter { pub terms: Ghost<Map<int, int>> }
impl LcCob {
    pub open spec fn single(&self, c: int, a: int) -> bool { self.terms@.dom() =~= set![c] && self.terms@[c] == a }
    #[verifier::external_body] pub fn nterms(&self) -> (r: usize) ensures r == self.terms@.dom().len(), self.terms@.dom().finite() { unimplemented!() }
    #[verifier::external_body] pub fn iter(&self) -> (r: LcIter) ensures r.terms@ == self.terms@ { unimplemented!() }
    #[verifier::external_body] pub fn from(t: (Cob, ER)) -> (r: LcCob) ensures r.single(t.0.k@, t.1.v()) { unimplemented!() }
}
impl LcIter {
    #[verifier::external_body] pub fn next(&mut self) -> (r: Option<(&Cob, &ER)>)
        ensures old(self).terms@.dom().len() == 0 ==> r.is_none(),
            old(self).terms@.dom().len() > 0 ==> r.is_some(),
            r.is_some() ==> old(self).terms@.dom().contains(r.unwrap().0.k@) && old(self).terms@[r.unwrap().0.k@] == r.unwrap().1.v(),
    { unimplemented!() }
}
pub proof fn lemma_single_term(m: Map<int, int>, c: int)
    requires m.dom().finite(), m.dom().len() == 1, m.dom().contains(c)
    ensures m.dom() =~= set![c]
{
    let s = m.dom();
    assert forall|x: int| s.contains(x) implies x == c by {
        if x != c {
            let s2 = s.remove(c);
            assert(s2.len() == 0);
            assert(s2.contains(x));
            assert(s2 =~= Set::<int>::empty());
        }
    }
}

impl LcCob {
    /// a single term eps . c with c invertible and eps a unit
    pub open spec fn invertible(&self) -> bool {
        exists|c: int| #[trigger] self.terms@.dom().contains(c) && self.terms@.dom() =~= set![c] && cob_invertible(c) && is_unit(self.terms@[c])
    }

    pub fn is_invertible(&self) -> (r: bool)
        ensures r == self.invertible(),
    //@body impl/LcCobTrait@LcCob/is_invertible
    //@+ sig
    //@| fn is_invertible(&self) -> bool
    //@+ closure 0 params
    //@| __p: (&Cob, &ER)
    //@+ closure 0
    //@| -> (res: bool) ensures res == (cob_invertible(__p.0.k@) && is_unit(__p.1.v()))
    //@+ post
    //@| if self.terms@.dom().len() == 1 {
    //@|     let c = choose|c: int| self.terms@.dom().contains(c);
    //@|     assert(self.terms@.dom().len() > 0);
    //@|     lemma_single_term(self.terms@, c);
    //@| }
    //@| if self.invertible() {
    //@|     let c = choose|c: int| #[trigger] self.terms@.dom().contains(c) && self.terms@.dom() =~= set![c] && cob_invertible(c) && is_unit(self.terms@[c]);
    //@|     assert(set![c].len() == 1);
    //@| }

    /// g is the single term eps^-1 . c^-1 for a term eps . c of self
    pub open spec fn has_inverse(&self, g: LcCob) -> bool {
        exists|c: int| #[trigger] self.terms@.dom().contains(c) && cob_invertible(c)
            && g.terms@.dom() =~= set![cob_inverse(c)] && rmul(self.terms@[c], g.terms@[cob_inverse(c)]) == r1()
    }

    /// inverse of an invertible morphism:  (eps . c)^-1 == eps^-1 . c^-1
    pub fn inv(&self) -> (r: Option<LcCob>)
        ensures
            self.invertible() ==> r.is_some(),
            r.is_some() ==> self.has_inverse(r.unwrap()),
    //@body impl/LcCobTrait@LcCob/inv
    //@+ sig
    //@| fn inv(&self) -> Option<Self>
    //@+ closure 0 params
    //@| __p: (&Cob, &ER)
    //@+ closure 0
    //@| -> (res: (Option<Cob>, Option<ER>)) ensures
    //@|     res.0.is_some() == cob_invertible(__p.0.k@), res.0.is_some() ==> res.0.unwrap().k@ == cob_inverse(__p.0.k@),
    //@|     match res.1 { Some(w) => rmul(__p.1.v(), w.v()) == r1(), None => !is_unit(__p.1.v()) },
    //@+ pre
    //@| if self.invertible() {
    //@|     let c = choose|c: int| #[trigger] self.terms@.dom().contains(c) && self.terms@.dom() =~= set![c] && cob_invertible(c) && is_unit(self.terms@[c]);
    //@|     assert(set![c].len() == 1); assert(self.terms@.dom().len() > 0);
    //@| }
}

} // verus!
fn main() {}
