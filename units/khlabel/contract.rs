// Contract overlay for KhLabel / KhAlgGen (yui-khovanov/src/kh/gen.rs, kh/alg.rs) — property C17 lists
// gen.rs among its anchors: a label is a sequence of algebra generators stored in a BitSeq
// (bit 0 = X, bit 1 = 1).  View: Seq<bool> (true = the generator 1).  Every wrapper must be the list
// operation, modulo this encoding.  BitSeq's own contracts (proved in unit bitseq) are re-stated here
// as the callee contracts (modular verification: only the contract of the callee is visible).
use vstd::prelude::*;
verus! {
//@include prelude/rt.rs

// ---- BitSeq: contract proved in unit `bitseq` (variant B preconditions) ----
pub struct BitSeq { pub s: Ghost<Seq<bool>> }
impl BitSeq {
    pub open spec fn wf(&self) -> bool { self.s@.len() <= 64 }
    #[verifier::external_body] pub fn empty() -> (r: BitSeq) ensures r.wf(), r.s@ =~= Seq::<bool>::empty() { unimplemented!() }
    #[verifier::external_body] pub fn is_empty(&self) -> (r: bool) ensures r == (self.s@.len() == 0) { unimplemented!() }
    #[verifier::external_body] pub fn len(&self) -> (r: usize) requires self.wf() ensures r == self.s@.len() { unimplemented!() }
    #[verifier::external_body] pub fn push_0(&mut self) requires old(self).wf(), old(self).s@.len() < 64 ensures final(self).wf(), final(self).s@ =~= old(self).s@.push(false) { unimplemented!() }
    #[verifier::external_body] pub fn push_1(&mut self) requires old(self).wf(), old(self).s@.len() < 64 ensures final(self).wf(), final(self).s@ =~= old(self).s@.push(true) { unimplemented!() }
    #[verifier::external_body] pub fn append(&mut self, b: BitSeq) requires old(self).wf(), b.wf(), old(self).s@.len() + b.s@.len() <= 64 ensures final(self).wf(), final(self).s@ =~= old(self).s@ + b.s@ { unimplemented!() }
    #[verifier::external_body] pub fn remove(&mut self, i: usize) requires old(self).wf(), i < old(self).s@.len() ensures final(self).wf(), final(self).s@ =~= old(self).s@.remove(i as int) { unimplemented!() }
    #[verifier::external_body] pub fn insert_0(&mut self, i: usize) requires old(self).wf(), i <= old(self).s@.len(), old(self).s@.len() < 64 ensures final(self).wf(), final(self).s@ =~= old(self).s@.insert(i as int, false) { unimplemented!() }
    #[verifier::external_body] pub fn insert_1(&mut self, i: usize) requires old(self).wf(), i <= old(self).s@.len(), old(self).s@.len() < 64 ensures final(self).wf(), final(self).s@ =~= old(self).s@.insert(i as int, true) { unimplemented!() }
    #[verifier::external_body] pub fn sub(&self, l: usize) -> (r: BitSeq) requires self.wf(), l <= self.s@.len() ensures r.wf(), r.s@ =~= self.s@.subrange(0, l as int) { unimplemented!() }
    #[verifier::external_body] pub fn is_sub(&self, o: &BitSeq) -> (r: bool) requires self.wf(), o.wf() ensures r <==> (self.s@.len() <= o.s@.len() && self.s@ =~= o.s@.subrange(0, self.s@.len() as int)) { unimplemented!() }
}
/// Index<usize> for BitSeq (bit as an is_zero test, as used by KhLabel::index)
pub struct Bit { pub b: Ghost<bool> }
impl Bit { #[verifier::external_body] pub fn is_zero(&self) -> (r: bool) ensures r == !self.b@ { unimplemented!() } }
impl BitSeq {
    #[verifier::external_body] pub fn index(&self, i: usize) -> (r: &Bit) requires self.wf(), i < self.s@.len() ensures r.b@ == self.s@[i as int] { unimplemented!() }
}

//@source yui-khovanov/src/kh/alg.rs
#[derive(PartialEq, Eq, Structural, Clone, Copy)]
//@item enum/KhAlgGen
impl KhAlgGen {
    /// true = the generator 1, false = X
    pub open spec fn one(&self) -> bool { *self == KhAlgGen::I }
    #[allow(non_snake_case)]
    pub fn is_X(&self) -> (r: bool) ensures r == !self.one(),
    //@body impl/KhAlgGen/is_X
    pub fn is_1(&self) -> (r: bool) ensures r == self.one(),
    //@body impl/KhAlgGen/is_1
    /// quantum degree: deg(1) = 0, deg(X) = -2
    pub fn deg(&self) -> (r: isize) ensures r == (if self.one() { 0int } else { -2int }),
    //@body impl/KhAlgGen/deg
}

//@source yui-khovanov/src/kh/gen.rs
//@item struct/KhLabel

impl KhLabel {
    pub open spec fn wf(&self) -> bool { self.0.wf() }
    pub open spec fn view(&self) -> Seq<bool> { self.0.s@ }

    pub fn empty() -> (r: KhLabel) ensures r.wf(), r.view() =~= Seq::<bool>::empty(),
    //@body impl/KhLabel/empty
    pub fn is_empty(&self) -> (r: bool) ensures r == (self.view().len() == 0),
    //@body impl/KhLabel/is_empty
    pub fn len(&self) -> (r: usize) requires self.wf() ensures r == self.view().len(),
    //@body impl/KhLabel/len
    pub fn push(&mut self, x: KhAlgGen)
        requires old(self).wf(), old(self).view().len() < 64,
        ensures final(self).wf(), final(self).view() =~= old(self).view().push(x.one()),
    //@body impl/KhLabel/push
    pub fn append(&mut self, other: KhLabel)
        requires old(self).wf(), other.wf(), old(self).view().len() + other.view().len() <= 64,
        ensures final(self).wf(), final(self).view() =~= old(self).view() + other.view(),
    //@body impl/KhLabel/append
    pub fn remove(&mut self, i: usize)
        requires old(self).wf(), i < old(self).view().len(),
        ensures final(self).wf(), final(self).view() =~= old(self).view().remove(i as int),
    //@body impl/KhLabel/remove
    pub fn insert(&mut self, i: usize, x: KhAlgGen)
        requires old(self).wf(), i <= old(self).view().len(), old(self).view().len() < 64,
        ensures final(self).wf(), final(self).view() =~= old(self).view().insert(i as int, x.one()),
    //@body impl/KhLabel/insert
    pub fn sub(&self, l: usize) -> (r: KhLabel)
        requires self.wf(), l <= self.view().len(),
        ensures r.wf(), r.view() =~= self.view().subrange(0, l as int),
    //@body impl/KhLabel/sub
    pub fn is_sub(&self, other: &KhLabel) -> (r: bool)
        requires self.wf(), other.wf(),
        ensures r <==> (self.view().len() <= other.view().len() && self.view() =~= other.view().subrange(0, self.view().len() as int)),
    //@body impl/KhLabel/is_sub
    pub fn index(&self, index: usize) -> (r: &KhAlgGen)
        requires self.wf(), index < self.view().len(),
        ensures r.one() == self.view()[index as int],
    //@body impl/Index@KhLabel/index index1=self.0
}
} // verus!
fn main() {}
