// C07 (homology bookkeeping) — witness search / replay for the Verus unit `hcalc` on the real crate:
// chain complexes Z^2 --d1--> Z^3 --d2--> Z^1 with d2 = k (u x v)^T (so d2 d1 = 0), small entries.
use super::src::*;
use crate::{ob, reach};
use yui_homology::utils::HomologyCalc;
use yui_matrix::sparse::SpMat;
use yui_matrix::MatTrait;

fn gcd(a: i64, b: i64) -> i64 { if b == 0 { a.abs() } else { gcd(b, a % b) } }

pub fn hcalc_small(s: &mut Src) -> R {
    let mut u = [0i64; 3]; let mut v = [0i64; 3];
    for i in 0..3 { u[i] = s.small(-4, 4); v[i] = s.small(-4, 4); }
    let k = s.small(-2, 2);
    reach!();
    let w = [u[1] * v[2] - u[2] * v[1], u[2] * v[0] - u[0] * v[2], u[0] * v[1] - u[1] * v[0]];
    let d1 = SpMat::from_dense_data((3, 2), [u[0], v[0], u[1], v[1], u[2], v[2]]);
    let d2 = SpMat::from_dense_data((1, 3), [k * w[0], k * w[1], k * w[2]]);
    ob!((&d2 * &d1).is_zero(), "harness::d2.d1==0");
    let (rank, tors, t) = HomologyCalc::calculate(d1.clone(), d2.clone(), true);
    // independent values: rank d1 from the 2x2 minors, invariant factors e1 = gcd(entries), e1 e2 = gcd(minors)
    let e1 = u.iter().chain(v.iter()).fold(0, |g, &x| gcd(g, x));
    let m = gcd(gcd(w[0], w[1]), w[2]);
    let r1 = if m != 0 { 2 } else if e1 != 0 { 1 } else { 0 };
    let r2 = if k != 0 && m != 0 { 1 } else { 0 };
    ob!(rank == 3 - r1 - r2, "HomologyCalc::rank==n-r1-r2");
    let mut want = vec![];
    if e1 > 1 { want.push(e1); }
    if m != 0 && m / e1 > 1 { want.push(m / e1); }
    let got: Vec<i64> = tors.iter().map(|x| x.abs()).collect();
    ob!(got == want, "HomologyCalc::tors-are-the-non-unit-invariant-factors");
    let t = t.unwrap();
    let (p, q) = (t.forward_mat(), t.backward_mat());
    let g = rank + tors.len();
    ob!(p.shape() == (g, 3) && q.shape() == (3, g), "HomologyCalc::trans::shapes");
    // (dense comparison: SpMat's derived == is structural and distinguishes explicitly stored zeros)
    ob!((&p * &q).into_dense() == SpMat::<i64>::id(g).into_dense(), "HomologyCalc::trans::p.q==I");
    ob!((&d2 * &q.submat_cols(0..rank)).is_zero(), "HomologyCalc::trans::free-generators-are-cycles");
    ob!((&p.submat_rows(0..rank) * &d1).is_zero(), "HomologyCalc::trans::boundaries-die-in-the-free-part");
    ob!((&d2 * &q).is_zero(), "HomologyCalc::trans::all-generators-are-cycles");
    Ok(())
}

crate::harness_table!(HCALC: hcalc_small);
