// Contract overlay for `impl<T: Integer> DivRound for T` (yui/src/misc/int_ext.rs) over the
// integer model Z: all magnitudes (BigInt), and i32/i64/i128 whenever no intermediate overflows.
// Property C15 / C09 / C10: "nearest-integer division returns the exactly rounded quotient for
// operands of any size".
use vstd::prelude::*;
verus! {
//@include prelude/rt.rs
//@include prelude/z.rs
//@source yui/src/misc/int_ext.rs

impl Z {
    pub fn div_round(&self, q: &Z) -> (r: Z)
        requires q.v() != 0,
        ensures
            // r is a nearest integer to self / q
            2 * zabs(self.v() - r.v() * q.v()) <= zabs(q.v()),
            // ties are rounded away from zero (the behaviour of f64::round the code used to rely on)
            2 * zabs(self.v() - r.v() * q.v()) == zabs(q.v()) ==> zabs(r.v()) > zabs(tdiv(self.v(), q.v())),
            // exact quotient when q divides self
            zdvd(q.v(), self.v()) ==> r.v() * q.v() == self.v(),
    //@body impl/DivRound@T/div_round ring=1 machine=is_negative
    //@+ sig
    //@| fn div_round(&self, q: &Self) -> Self
    //@+ pre
    //@| lemma_tdiv(self.v(), q.v());
    //@| if zdvd(q.v(), self.v()) { lemma_tdiv_exact(self.v(), q.v()); }
    //@| let (a, b, d, m) = (self.v(), q.v(), tdiv(self.v(), q.v()), trem(self.v(), q.v()));
    //@| assert(a - (d + 1) * b == m - b) by (nonlinear_arith) requires a == d * b + m;
    //@| assert(a - (d - 1) * b == m + b) by (nonlinear_arith) requires a == d * b + m;
    //@| // sign of the truncated quotient follows the signs of the operands
    //@| assert(d > 0 ==> (a < 0) == (b < 0)); assert(d < 0 ==> (a < 0) != (b < 0));
}

} // verus!
fn main() {}
