// Pure lemmas for property C16 (monomial layer): the lexicographic and graded-lexicographic key
// orders on exponent tuples are total orders, consistent with equality, and compatible with
// multiplication of monomials (= addition of exponent tuples).  The Kani harnesses mono_* prove on
// the real code that Var/Var2/Var3::{cmp_lex,cmp_grlex} compute exactly these key orders and that
// multiplication adds exponents; together this gives the order clause of C16 for these types.
// No repository code is spliced into this unit.
use vstd::prelude::*;
verus! {
pub open spec fn c1(a: int, b: int) -> int { if a < b { -1 } else if a == b { 0 } else { 1 } }
pub open spec fn then(o: int, p: int) -> int { if o != 0 { o } else { p } }
pub open spec fn lex2(a: (int, int), b: (int, int)) -> int { then(c1(a.0, b.0), c1(a.1, b.1)) }
pub open spec fn lex3(a: (int, int, int), b: (int, int, int)) -> int { then(c1(a.0, b.0), then(c1(a.1, b.1), c1(a.2, b.2))) }
pub open spec fn grlex2(a: (int, int), b: (int, int)) -> int { then(c1(a.0 + a.1, b.0 + b.1), lex2(a, b)) }
pub open spec fn grlex3(a: (int, int, int), b: (int, int, int)) -> int { then(c1(a.0 + a.1 + a.2, b.0 + b.1 + b.2), lex3(a, b)) }
pub open spec fn add2(a: (int, int), c: (int, int)) -> (int, int) { (a.0 + c.0, a.1 + c.1) }
pub open spec fn add3(a: (int, int, int), c: (int, int, int)) -> (int, int, int) { (a.0 + c.0, a.1 + c.1, a.2 + c.2) }

pub proof fn lemma_lex2_order(a: (int, int), b: (int, int), c: (int, int))
    ensures
        lex2(a, a) == 0, lex2(a, b) == -lex2(b, a), (lex2(a, b) == 0) == (a == b),
        (lex2(a, b) <= 0 && lex2(b, c) <= 0) ==> lex2(a, c) <= 0,
        lex2(add2(a, c), add2(b, c)) == lex2(a, b),
        (a.0 >= 0 && a.1 >= 0) ==> lex2((0, 0), a) <= 0,
{}
pub proof fn lemma_grlex2_order(a: (int, int), b: (int, int), c: (int, int))
    ensures
        grlex2(a, a) == 0, grlex2(a, b) == -grlex2(b, a), (grlex2(a, b) == 0) == (a == b),
        (grlex2(a, b) <= 0 && grlex2(b, c) <= 0) ==> grlex2(a, c) <= 0,
        grlex2(add2(a, c), add2(b, c)) == grlex2(a, b),
        (a.0 >= 0 && a.1 >= 0) ==> grlex2((0, 0), a) <= 0,
{}
pub proof fn lemma_lex3_order(a: (int, int, int), b: (int, int, int), c: (int, int, int))
    ensures
        lex3(a, a) == 0, lex3(a, b) == -lex3(b, a), (lex3(a, b) == 0) == (a == b),
        (lex3(a, b) <= 0 && lex3(b, c) <= 0) ==> lex3(a, c) <= 0,
        lex3(add3(a, c), add3(b, c)) == lex3(a, b),
        (a.0 >= 0 && a.1 >= 0 && a.2 >= 0) ==> lex3((0, 0, 0), a) <= 0,
{}
pub proof fn lemma_grlex3_order(a: (int, int, int), b: (int, int, int), c: (int, int, int))
    ensures
        grlex3(a, a) == 0, grlex3(a, b) == -grlex3(b, a), (grlex3(a, b) == 0) == (a == b),
        (grlex3(a, b) <= 0 && grlex3(b, c) <= 0) ==> grlex3(a, c) <= 0,
        grlex3(add3(a, c), add3(b, c)) == grlex3(a, b),
        (a.0 >= 0 && a.1 >= 0 && a.2 >= 0) ==> grlex3((0, 0, 0), a) <= 0,
{}
} // verus!
fn main() {}
