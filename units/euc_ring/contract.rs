// Contract overlay for the trait-default code of yui/src/abst/euc_ring.rs and yui/src/abst/ring.rs
// (property C15), verified over the abstract Euclidean domain `ER` (prelude/er.rs): these bodies
// run for Z[i], Z[w], Q[x], F_p[x] (machine integers override gcd/gcdx/lcm with num_integer).
// Postconditions are the property statement: gcd divides both, is a combination s a + t b with the
// returned s, t, is the normalised associate regardless of argument order; lcm * gcd ~ a b.
use vstd::prelude::*;
verus! {
//@include prelude/rt.rs
//@include prelude/er.rs

pub open spec fn cd(d: int, a: int, b: int) -> bool { dvd(d, a) && dvd(d, b) }

/// any two gcds are associates; normalised ones are equal (gcd is independent of argument order)
pub proof fn lemma_gcd_unique(g: int, h: int, x: int, y: int)
    requires is_gcd(g, x, y), is_gcd(h, x, y), is_norm(g), is_norm(h)
    ensures g == h
{
    assert(dvd(g, h)); assert(dvd(h, g));
    ax_norm_unique(g, h);
}
pub proof fn lemma_gcd_symmetric(g: int, x: int, y: int)
    requires is_gcd(g, x, y)
    ensures is_gcd(g, y, x)
{}

impl ER {
//@source yui/src/abst/euc_ring.rs
    pub fn divides(&self, y: &ER) -> (r: bool)
        ensures r == (self.v() != r0() && dvd(self.v(), y.v())),
    //@body trait/EucRing/divides ring=1
    //@+ sig
    //@| fn divides(&self, y: &Self) -> bool
    //@+ pre
    //@| if self.v() != r0() { lemma_rem_zero_iff_dvd(y.v(), self.v()); }

//@source yui/src/abst/ring.rs
    pub fn normalized(&self) -> (r: ER)
        ensures r.v() == rmul(self.v(), nunit(self.v())), is_norm(r.v()), assoc(self.v(), r.v()),
    //@body trait/Ring/normalized ring=1
    //@+ sig
    //@| fn normalized(&self) -> Self

    pub fn into_normalized(self) -> (r: ER)
        ensures r.v() == rmul(self.v(), nunit(self.v())), is_norm(r.v()), assoc(self.v(), r.v()),
    //@body trait/Ring/into_normalized ring=1
    //@+ sig
    //@| fn into_normalized(self) -> Self
    //@+ pre-raw
    //@| let ghost a = self.v();
    //@+ pre
    //@| ax_mul_one(a); ax_nunit_normalizes(a); ax_nunit_unit(a); lemma_unit_assoc(a, nunit(a));

    pub fn is_pm_one(&self) -> (r: bool)
        ensures r == (self.v() == r1() || rneg(self.v()) == r1()),
    //@body trait/Ring/is_pm_one ring=1
    //@+ sig
    //@| fn is_pm_one(&self) -> bool

//@source yui/src/abst/euc_ring.rs
    pub fn gcd(x: &ER, y: &ER) -> (g: ER)
        ensures
            (x.v() == r0() && y.v() == r0()) ==> g.v() == r0(),
            is_gcd(g.v(), x.v(), y.v()),
            is_norm(g.v()),
    //@body trait/EucRing/gcd ring=1
    //@+ sig
    //@| fn gcd(x: &Self, y: &Self) -> Self
    //@+ pre-raw
    //@| let ghost xx = x.v(); let ghost yy = y.v();
    //@+ pre
    //@| ax_nunit_zero();
    //@| assert forall|c: int| dvd(c, r0()) by { lemma_dvd_zero(c); }
    //@| let g1 = rmul(xx, nunit(xx)); let g2 = rmul(yy, nunit(yy));
    //@| ax_nunit_unit(xx); lemma_unit_assoc(xx, nunit(xx));
    //@| ax_nunit_unit(yy); lemma_unit_assoc(yy, nunit(yy));
    //@| lemma_dvd_refl(xx); lemma_dvd_refl(yy);
    //@| if dvd(xx, yy) {
    //@|     lemma_dvd_trans(g1, xx, yy);
    //@|     assert forall|c: int| dvd(c, xx) && dvd(c, yy) implies dvd(c, g1) by { lemma_dvd_trans(c, xx, g1); }
    //@| }
    //@| if dvd(yy, xx) {
    //@|     lemma_dvd_trans(g2, yy, xx);
    //@|     assert forall|c: int| dvd(c, xx) && dvd(c, yy) implies dvd(c, g2) by { lemma_dvd_trans(c, yy, g2); }
    //@| }
    //@+ loop 0
    //@| invariant
    //@|     forall|d: int| #[trigger] cd(d, x.v(), y.v()) <==> cd(d, xx, yy),
    //@| decreases emeasure(y.v()),
    //@+ after-let r
    //@| ax_euclid(x.v(), y.v());
    //@| assert forall|d: int| #[trigger] cd(d, y.v(), r.v()) <==> cd(d, xx, yy) by {
    //@|     lemma_cd_step(d, x.v(), y.v(), rdiv(x.v(), y.v()), r.v());
    //@|     assert(cd(d, x.v(), y.v()) <==> cd(d, xx, yy));
    //@| }
    //@+ post
    //@| let xv = x.v(); let gv = rmul(xv, nunit(xv));
    //@| ax_nunit_unit(xv); lemma_unit_assoc(xv, nunit(xv));
    //@| lemma_dvd_refl(xv); lemma_dvd_zero(xv);
    //@| assert(cd(xv, xv, y.v()));
    //@| lemma_dvd_trans(gv, xv, xx); lemma_dvd_trans(gv, xv, yy);
    //@| assert forall|c: int| dvd(c, xx) && dvd(c, yy) implies dvd(c, gv) by {
    //@|     assert(cd(c, xx, yy)); assert(cd(c, xv, y.v())); lemma_dvd_trans(c, xv, gv);
    //@| }

    pub fn gcdx(x: &ER, y: &ER) -> (res: (ER, ER, ER))
        ensures
            (x.v() == r0() && y.v() == r0()) ==> res.0.v() == r0(),
            res.0.v() == radd(rmul(res.1.v(), x.v()), rmul(res.2.v(), y.v())),
            is_gcd(res.0.v(), x.v(), y.v()),
            is_norm(res.0.v()),
    //@body trait/EucRing/gcdx ring=1
    //@+ sig
    //@| fn gcdx(x: &Self, y: &Self) -> (Self, Self, Self)
    //@+ pre-raw
    //@| let ghost xx = x.v(); let ghost yy = y.v();
    //@+ pre
    //@| ax_nunit_zero();
    //@| assert forall|c: int| dvd(c, r0()) by { lemma_dvd_zero(c); }
    //@| id_one_zero_comb(xx, yy); id_mul_zero(xx); id_mul_zero(yy); ax_add_zero(r0());
    //@| let g1 = rmul(xx, nunit(xx)); let g2 = rmul(yy, nunit(yy));
    //@| ax_nunit_unit(xx); lemma_unit_assoc(xx, nunit(xx)); ax_nunit_normalizes(xx); id_unit_comb(nunit(xx), xx, yy);
    //@| ax_nunit_unit(yy); lemma_unit_assoc(yy, nunit(yy)); ax_nunit_normalizes(yy); id_unit_comb(nunit(yy), xx, yy);
    //@| lemma_dvd_refl(xx); lemma_dvd_refl(yy);
    //@| if dvd(xx, yy) {
    //@|     lemma_dvd_trans(g1, xx, yy);
    //@|     assert forall|c: int| dvd(c, xx) && dvd(c, yy) implies dvd(c, g1) by { lemma_dvd_trans(c, xx, g1); }
    //@| }
    //@| if dvd(yy, xx) {
    //@|     lemma_dvd_trans(g2, yy, xx);
    //@|     assert forall|c: int| dvd(c, xx) && dvd(c, yy) implies dvd(c, g2) by { lemma_dvd_trans(c, yy, g2); }
    //@| }
    //@+ loop 0
    //@| invariant
    //@|     forall|d: int| #[trigger] cd(d, x.v(), y.v()) <==> cd(d, xx, yy),
    //@|     x.v() == radd(rmul(s0.v(), xx), rmul(t0.v(), yy)),
    //@|     y.v() == radd(rmul(s1.v(), xx), rmul(t1.v(), yy)),
    //@| decreases emeasure(y.v()),
    //@+ after-let r
    //@| ax_euclid(x.v(), y.v());
    //@| assert forall|d: int| #[trigger] cd(d, y.v(), r.v()) <==> cd(d, xx, yy) by {
    //@|     lemma_cd_step(d, x.v(), y.v(), q.v(), r.v());
    //@|     assert(cd(d, x.v(), y.v()) <==> cd(d, xx, yy));
    //@| }
    //@| id_sub_cancel(rmul(q.v(), y.v()), r.v());
    //@| id_bezout_step(xx, yy, s0.v(), t0.v(), s1.v(), t1.v(), q.v());
    //@+ after-let d
    //@| let dv = d.v(); let gv = rmul(dv, nunit(dv));
    //@| ax_nunit_unit(dv); lemma_unit_assoc(dv, nunit(dv)); ax_nunit_normalizes(dv); ax_mul_one(dv);
    //@| id_scale_comb(s.v(), xx, t.v(), yy, nunit(dv));
    //@| lemma_dvd_refl(dv); lemma_dvd_zero(dv);
    //@| assert(cd(dv, dv, y.v()));
    //@| lemma_dvd_trans(gv, dv, xx); lemma_dvd_trans(gv, dv, yy);
    //@| assert forall|c: int| dvd(c, xx) && dvd(c, yy) implies dvd(c, gv) by {
    //@|     assert(cd(c, xx, yy)); assert(cd(c, dv, y.v())); lemma_dvd_trans(c, dv, gv);
    //@| }

    pub fn lcm(x: &ER, y: &ER) -> (l: ER)
        requires !(x.v() == r0() && y.v() == r0()),
        ensures
            is_norm(l.v()),
            forall|g: int| is_gcd(g, x.v(), y.v()) && is_norm(g) ==> assoc(#[trigger] rmul(l.v(), g), rmul(x.v(), y.v())),
    //@body trait/EucRing/lcm ring=1
    //@+ sig
    //@| fn lcm(x: &Self, y: &Self) -> Self
    //@+ after-let g
    //@| if g.v() == r0() { lemma_zero_dvd(x.v()); lemma_zero_dvd(y.v()); }
    //@| lemma_rem_zero_iff_dvd(y.v(), g.v()); ax_euclid(y.v(), g.v()); ax_add_zero(rmul(rdiv(y.v(), g.v()), g.v()));
    //@+ post
    //@| let gv = g.v(); let yp = rdiv(y.v(), gv); let mv = m.v(); let u = nunit(mv);
    //@| id_lcm(x.v(), yp, gv);
    //@| ax_nunit_unit(mv); lemma_unit_assoc(rmul(x.v(), y.v()), u); id_mul_swap(mv, u, gv);
    //@| assert forall|h: int| is_gcd(h, x.v(), y.v()) && is_norm(h) implies assoc(#[trigger] rmul(rmul(mv, u), h), rmul(x.v(), y.v())) by {
    //@|     lemma_gcd_unique(h, gv, x.v(), y.v());
    //@| }
}

} // verus!
fn main() {}
