// Contract overlay for the prime fields FF<p> (yui/src/types/ff.rs), properties C14 (exact ring operations, canonical representatives) and
// C15 (inverse, units, normalising unit, division): for EVERY modulus p >= 2 of the representation type i32 -- the Kani harnesses cover
// p in {2, 3, 5, 7} only.  Real machine arithmetic (i32 / i64), no model: a value is its representative 0 <= rep < p, every operation
// returns the representative of the mathematical result.  inv / division additionally need gcd(a, p) = 1 for 0 < a < p (p prime).
use vstd::prelude::*;
use vstd::arithmetic::div_mod::*;
use vstd::arithmetic::mul::*;
verus! {
//@include prelude/rt.rs
//@source yui/src/types/ff.rs

pub type I = i32;
/// the type itself (one line; the item extractor does not carry const generics, so it is restated here and pinned)
//@expect-in yui/src/types/ff.rs pub struct FF<const p: I>(I);
#[derive(Clone, Copy)]
pub struct FF<const p: I>(pub I);

/// i32::rem_euclid / i64::rem_euclid (ASSUMED std contract): the Euclidean remainder, for a positive modulus
pub assume_specification[ i32::rem_euclid ](a: i32, m: i32) -> (r: i32)
    requires m > 0,
    ensures r == (a as int) % (m as int), 0 <= r < m;
pub assume_specification[ i64::rem_euclid ](a: i64, m: i64) -> (r: i64)
    requires m > 0,
    ensures r == (a as int) % (m as int), 0 <= r < m;
/// num-integer's extended gcd on i32 (ASSUMED: yui/src/misc/int_ext.rs delegates to it): d = gcd >= 0 and a Bezout pair
pub uninterp spec fn igcd(a: int, b: int) -> int;
#[verifier::external_body] pub fn i32_gcdx_(a: &i32, b: &i32) -> (r: (i32, i32, i32))
    ensures r.0 == igcd(*a as int, *b as int), r.0 >= 0, r.1 * (*a as int) + r.2 * (*b as int) == r.0 { unimplemented!() }

/// num-traits `One::is_one` on i32 -- ASSUMED
pub trait I32Ext { spec fn ival(&self) -> int; fn is_one(&self) -> (r: bool) ensures r == (self.ival() == 1); }
impl I32Ext for i32 { open spec fn ival(&self) -> int { *self as int } #[verifier::external_body] fn is_one(&self) -> (r: bool) { unimplemented!() } }

impl<const p: I> FF<p> {
    pub open spec fn wf(&self) -> bool { 0 <= self.0 < p }
    pub open spec fn v(&self) -> int { self.0 as int }

    pub fn new(a: I) -> (r: FF<p>)
//@if B
        requires p > 0,
//@endif
        ensures p > 0, r.wf(), r.v() == (a as int) % (p as int),
    //@body impl/FF/new

    /// the wide constructor used by + - * (64-bit intermediate results)
    pub fn new_wide(a: i64) -> (r: FF<p>)
//@if B
        requires p > 0,
//@endif
        ensures p > 0, r.wf(), r.v() == (a as int) % (p as int),
    //@body impl/FF/new_wide

    pub fn zero() -> (r: FF<p>) ensures r.v() == 0,
    //@body impl/Zero@FF/zero
    pub fn one() -> (r: FF<p>) ensures r.v() == 1,
    //@body impl/One@FF/one
    /// `self.0.is_zero()` / `self.0.is_one()` (num-traits on i32) -- ASSUMED
    #[verifier::external_body] pub fn is_zero(&self) -> (r: bool) ensures r == (self.v() == 0) { unimplemented!() }
    #[verifier::external_body] pub fn is_one(&self) -> (r: bool) ensures r == (self.v() == 1) { unimplemented!() }

    pub fn neg(self) -> (r: FF<p>)
        requires self.wf(),
        ensures r.wf(), r.v() == (-self.v()) % (p as int),
    //@body impl/Neg@FF/neg macro=impl_unop(Neg;neg) opmethods=1

    pub fn add(&self, rhs: &FF<p>) -> (r: FF<p>)
        requires self.wf(), rhs.wf(),
        ensures r.wf(), r.v() == (self.v() + rhs.v()) % (p as int),
    //@body impl/Add@&FF/add macro=impl_binop(Add;add) opmethods=1
    pub fn sub(&self, rhs: &FF<p>) -> (r: FF<p>)
        requires self.wf(), rhs.wf(),
        ensures r.wf(), r.v() == (self.v() - rhs.v()) % (p as int),
    //@body impl/Sub@&FF/sub macro=impl_binop(Sub;sub) opmethods=1
    pub fn mul(&self, rhs: &FF<p>) -> (r: FF<p>)
        requires self.wf(), rhs.wf(),
        ensures r.wf(), r.v() == (self.v() * rhs.v()) % (p as int),
    //@body impl/Mul@&FF/mul macro=impl_binop(Mul;mul) opmethods=1
    //@+ pre
    //@| assert(0 <= (self.0 as int) * (rhs.0 as int) <= 0x7fff_ffff * 0x7fff_ffff) by (nonlinear_arith) requires 0 <= self.0 <= 0x7fff_ffff, 0 <= rhs.0 <= 0x7fff_ffff;

    /// the inverse of a non-zero residue (the modulus is prime: gcd(a, p) = 1; otherwise the assert rejects): a * inv(a) = 1 mod p
    pub fn inv(&self) -> (r: Option<FF<p>>)
        requires self.wf(), p >= 2,
//@if B
            self.v() != 0 ==> igcd(self.v(), p as int) == 1,
//@endif
        ensures r.is_some() == (self.v() != 0),
            r.is_some() ==> (igcd(self.v(), p as int) == 1 && r.unwrap().wf() && (self.v() * r.unwrap().v()) % (p as int) == 1),
    //@body impl/Ring@FF/inv subst=I::gcdx:i32_gcdx_
    //@+ after-let inv
    //@| let (a, xx, yy, pp) = (self.v(), x as int, _y as int, p as int);
    //@| assert(xx * a + yy * pp == 1);
    //@| lemma_mul_mod_noop_right(a, xx, pp);
    //@| lemma_mul_is_commutative(a, xx); lemma_mul_is_commutative(yy, pp);
    //@| assert(a * xx == pp * (-yy) + 1) by (nonlinear_arith) requires xx * a + yy * pp == 1;
    //@| lemma_mod_multiples_vanish(-yy, 1, pp);
    //@| lemma_small_mod(1, pp as nat);

    /// a / b = a * inv(b); division by zero is rejected
    pub fn div(&self, rhs: &FF<p>) -> (r: FF<p>)
        requires self.wf(), rhs.wf(), p >= 2,
//@if B
            rhs.v() != 0, igcd(rhs.v(), p as int) == 1,
//@endif
        ensures rhs.v() != 0, r.wf(), (r.v() * rhs.v()) % (p as int) == self.v(),
    //@body impl/Div@&FF/div ring=1 q=self qname=ff
    //@+ post
    //@| let (a, b, pp) = (self.v(), rhs.v(), p as int);
    //@| let w = choose|w: FF<p>| #[trigger] w.wf() && (b * w.v()) % pp == 1 && __ret.v() == (a * w.v()) % pp;
    //@| let wi = w.v();
    //@| // ((a w) % p) * b % p == (a w b) % p == (a * ((b w) % p)) % p == a % p == a
    //@| lemma_mul_mod_noop_left(a * wi, b, pp);
    //@| assert((a * wi) * b == a * (b * wi)) by (nonlinear_arith);
    //@| lemma_mul_mod_noop_right(a, b * wi, pp);
    //@| lemma_small_mod(a as nat, pp as nat);
    /// the remainder of a division in a field is zero
    pub fn rem(&self, rhs: &FF<p>) -> (r: FF<p>)
//@if B
        requires rhs.v() != 0,
//@endif
        ensures rhs.v() != 0, r.v() == 0,
    //@body impl/Rem@&FF/rem subst=FF::zero:FF::<p>::zero

    pub fn is_unit(&self) -> (r: bool) ensures r == (self.v() != 0),
    //@body impl/Ring@FF/is_unit

    /// the unit u with u * a = 1 for a != 0 (the normal form of a non-zero element of a field is 1), 1 for a = 0
    pub fn normalizing_unit(&self) -> (r: FF<p>)
        requires self.wf(), p >= 2,
//@if B
            self.v() != 0 ==> igcd(self.v(), p as int) == 1,
//@endif
        ensures r.wf() || self.v() == 0, self.v() == 0 ==> r.v() == 1, self.v() != 0 ==> (self.v() * r.v()) % (p as int) == 1,
    //@body impl/Ring@FF/normalizing_unit
}
/// `&a * b` with b by value (#[auto_ops] derives it from the by-reference impl proved above -- ASSUMED to forward to it)
pub fn ffmul_<const p: I>(a: &FF<p>, b: FF<p>) -> (r: FF<p>)
    requires a.wf(), b.wf(),
    ensures r.wf(), r.v() == (a.v() * b.v()) % (p as int)
{ a.mul(&b) }
} // verus!
fn main() {}
