// Contract overlay for the Schur complement of a matrix whose leading r x r block is unit-triangular
// (yui-matrix/src/sparse/schur.rs, Schur::from_partial_triangular).  Property C12: "for every matrix whose leading
// r x r block is such a triangular matrix the Schur routine returns S = D - C A^-1 B together with maps satisfying
// F_tgt M B_src = S and F B = I".  GIVEN the contract of the triangular solver (A X = Y, resp. X A = Y: the other half
// of C12, not decided) and of compute_schur (S = D - C X, column by column in parallel: assumed), the routine's block
// bookkeeping — divide4, proj / incl / id, stack, extend_cols, the signs — is verified over abstract block matrices.
use vstd::prelude::*;
verus! {
//@include prelude/rt.rs
//@include prelude/er.rs
//@include prelude/bx.rs
//@source yui-matrix/src/sparse/schur.rs

//@include units/schur/model.inc

/// the algebra behind Schur::from_partial_triangular
pub open spec fn schur_setup(t: TriangularType, mm: int, a: int, b: int, c: int, d: int, x: int, s: int, r: int, m: int, n: int) -> bool {
    &&& mm == mstack(mconcat(a, b), mconcat(c, d)) && 0 <= r <= m && r <= n
    &&& nr(a) == r && nc(a) == r && nr(b) == r && nc(b) == n - r && nr(c) == m - r && nc(c) == r && nr(d) == m - r && nc(d) == n - r
    &&& tri_ok(t, a) && mmul(a, x) == b && nr(x) == r && nc(x) == n - r
    &&& s == msub(d, mmul(c, x)) && nr(s) == m - r && nc(s) == n - r
}
pub proof fn lemma_schur_s(t: TriangularType, mm: int, a: int, b: int, c: int, d: int, x: int, s: int, r: int, m: int, n: int)
    requires schur_setup(t, mm, a, b, c, d, x, s, r, m, n)
    ensures x == mmul(minv(a), b), s == msub(d, mmul(c, mmul(minv(a), b)))
{
    bx_tri_inv(t, a); bx_assoc(minv(a), a, x); bx_id(x);
}
/// source side: M [-x ; I] = [0 ; s]  and  [0 | I] [-x ; I] = I
pub proof fn lemma_schur_src(t: TriangularType, mm: int, a: int, b: int, c: int, d: int, x: int, s: int, r: int, m: int, n: int)
    requires schur_setup(t, mm, a, b, c, d, x, s, r, m, n)
    ensures ({
        let bs = mstack(mneg(x), mid(n - r)); let fs = mconcat(mzero(n - r, r), mid(n - r));
        mmul(mm, bs) == mstack(mzero(r, n - r), s) && mmul(fs, bs) == mid(n - r) && nr(bs) == n && nc(bs) == n - r
    }),
{
    bx_dims_all();
    let i = mid(n - r); let nx = mneg(x); let bs = mstack(nx, i);
    bx_add_dims(x, x); bx_dims(0, 0, 0, 0, n - r, 0, 0); bx_dims(nx, i, 0, 0, 0, 0, 0);
    bx_stack_mul(mconcat(a, b), mconcat(c, d), bs);
    // [a | b] [-x ; I] = -(a x) + b = 0
    bx_concat_stack(a, b, nx, i); bx_neg_mul(a, x); bx_id(b); bx_add_zero(b);
    // [c | d] [-x ; I] = -(c x) + d = s
    bx_concat_stack(c, d, nx, i); bx_neg_mul(c, x); bx_id(d); bx_add_comm(mneg(mmul(c, x)), d);
    // [0 | I] [-x ; I] = 0 (-x) + I I = I
    bx_concat_stack(mzero(n - r, r), i, nx, i); bx_zero_mul(nx, n - r, r); bx_id(i); bx_add_zero(i);
}
/// target side: [fy | I] M = [0 | s]  (fy a = -c: the pivot columns are killed),  [fy | I] [0 ; s'] = s',  [fy | I] [0 ; I] = I
pub proof fn lemma_schur_tgt(t: TriangularType, mm: int, a: int, b: int, c: int, d: int, x: int, s: int, r: int, m: int, n: int, y: int)
    requires schur_setup(t, mm, a, b, c, d, x, s, r, m, n), mmul(y, a) == c, nr(y) == m - r, nc(y) == r
    ensures ({
        let ft = mconcat(mneg(y), mid(m - r)); let bt = mstack(mzero(r, m - r), mid(m - r));
        &&& mmul(ft, mm) == mconcat(mzero(m - r, r), s)
        &&& mmul(ft, mstack(mzero(r, n - r), s)) == s
        &&& mmul(ft, bt) == mid(m - r) && nr(ft) == m - r && nc(ft) == m
    }),
{
    bx_dims_all();
    let i = mid(m - r); let ny = mneg(y); let ft = mconcat(ny, i);
    bx_add_dims(y, y); bx_dims(0, 0, 0, 0, m - r, 0, 0); bx_dims(ny, i, 0, 0, 0, 0, 0);
    lemma_schur_s(t, mm, a, b, c, d, x, s, r, m, n); bx_tri_inv(t, a);
    // y = c a^-1, hence y b = c x
    bx_assoc(y, a, minv(a)); bx_id(y); bx_assoc(c, minv(a), b);
    assert(mmul(y, b) == mmul(c, x));
    // [ny | I] [[a, b], [c, d]] = [ny a + c | ny b + d] = [0 | s]
    bx_mul_concat_rows(ny, i, a, b, c, d);
    bx_neg_mul(y, a); bx_id(c); bx_add_zero(c);
    bx_neg_mul(y, b); bx_id(d); bx_add_comm(mneg(mmul(c, x)), d);
    // [ny | I] [0 ; s] = ny 0 + I s = s
    bx_concat_stack(ny, i, mzero(r, n - r), s); bx_zero_mul(ny, r, n - r); bx_id(s); bx_add_zero(s);
    // [ny | I] [0 ; I] = I
    bx_concat_stack(ny, i, mzero(r, m - r), i); bx_zero_mul(ny, r, m - r); bx_id(i); bx_add_zero(i);
}


impl Schur {
    /// ASSUMED (rayon / cfg_if; column j of the result is d_j - c (a^-1 b)_j): S = D - C X
    #[verifier::external_body] pub fn compute_schur(ainvb: &SpMat, c: &SpMat, d: &SpMat) -> (s: SpMat)
        requires nc(c.m@) == nr(ainvb.m@), nr(c.m@) == nr(d.m@), nc(ainvb.m@) == nc(d.m@)
        ensures s.m@ == msub(d.m@, mmul(c.m@, ainvb.m@)), nr(s.m@) == nr(d.m@), nc(s.m@) == nc(d.m@) { unimplemented!() }

    pub fn from_partial_triangular(t: TriangularType, abcd: &SpMat, r: usize, with_trans: bool) -> (res: Schur)
        requires
            // the leading r x r block is a valid pivot block (checked by a debug_assert inside the solver only)
            forall|a: int, b: int, c: int, d: int| abcd.m@ == mstack(mconcat(a, b), mconcat(c, d)) && nr(a) == r && nc(a) == r ==> tri_ok(t, a),
//@if B
            r <= nr(abcd.m@), r <= nc(abcd.m@),
//@endif
        ensures r <= nr(abcd.m@), r <= nc(abcd.m@),
            exists|a: int, b: int, c: int, d: int| #![trigger mstack(mconcat(a, b), mconcat(c, d))]
                abcd.m@ == mstack(mconcat(a, b), mconcat(c, d)) && nr(a) == r && nc(a) == r
                && res.s.m@ == msub(d, mmul(c, mmul(minv(a), b)))                                   // S = D - C A^-1 B
                && res.t_src.is_some() == with_trans && res.t_tgt.is_some() == with_trans
                && (with_trans ==> {
                    let (fs, bs, ft, bt) = (res.t_src.unwrap().f@, res.t_src.unwrap().b@, res.t_tgt.unwrap().f@, res.t_tgt.unwrap().b@);
                    &&& mmul(mmul(ft, abcd.m@), bs) == res.s.m@                                   // F_tgt M B_src = S
                    &&& mmul(ft, abcd.m@) == mconcat(mzero(nr(abcd.m@) - r, r as int), res.s.m@)     // F_tgt M = [0 | S]: the pivot columns are eliminated
                    &&& mmul(abcd.m@, bs) == mstack(mzero(r as int, nc(abcd.m@) - r), res.s.m@)      // M B_src = [0 ; S]: the pivot rows are eliminated
                    &&& mmul(fs, bs) == mid(nc(abcd.m@) - r) && mmul(ft, bt) == mid(nr(abcd.m@) - r)   // F B = I on both sides
                }),
            // whether or not they are returned, the eliminating maps exist (this is what a caller needs to see that S inherits d d = 0)
            exists|ft: int, bs: int| #[trigger] elim_maps(abcd.m@, res.s.m@, r as int, ft, bs)
                && (with_trans ==> (ft == res.t_tgt.unwrap().f@ && bs == res.t_src.unwrap().b@
                    && res.t_src.unwrap().f@ == mconcat(mzero(nc(abcd.m@) - r, r as int), mid(nc(abcd.m@) - r))       // f_src = [0 | I]
                    && res.t_tgt.unwrap().b@ == mstack(mzero(r as int, nr(abcd.m@) - r), mid(nr(abcd.m@) - r))))       // b_tgt = [0 ; I]
                // and their block form: ft = [-c a^-1 | I], bs = [-a^-1 b ; I]
                && exists|a: int, b: int, c: int, d: int| #![trigger mstack(mconcat(a, b), mconcat(c, d))]
                    abcd.m@ == mstack(mconcat(a, b), mconcat(c, d)) && block_dims(a, b, c, d, r as int, nr(abcd.m@), nc(abcd.m@)) && tri_ok(t, a)
                    && ft == mconcat(mneg(mmul(c, minv(a))), mid(nr(abcd.m@) - r)) && bs == mstack(mneg(mmul(minv(a), b)), mid(nc(abcd.m@) - r)),
    //@body impl/Schur/from_partial_triangular for_iter=1 arr_own=1 ring=1 machine=n,m,r,k,i q=ainvb,solve_triangular_left qname=q subst=SpMat:SpMat,R:ER
    //@+ after-let-raw ainvb
    //@| let ghost (ga, gb, gc, gd, gx) = (a.m@, b.m@, c.m@, d.m@, ainvb.m@);
    //@+ after-let-raw s
    //@| let ghost gs = s.m@;
    //@+ after-let s
    //@| assert(schur_setup(t, abcd.m@, ga, gb, gc, gd, gx, gs, r as int, m as int, n as int));
    //@| lemma_schur_s(t, abcd.m@, ga, gb, gc, gd, gx, gs, r as int, m as int, n as int);
    //@| lemma_schur_src(t, abcd.m@, ga, gb, gc, gd, gx, gs, r as int, m as int, n as int);
    //@| bx_add_dims(gx, gx); bx_dims(0, 0, 0, 0, n - r, 0, 0); bx_dims(0, 0, 0, 0, m - r, 0, 0);
    //@+ after-let f#1
    //@| lemma_schur_tgt(t, abcd.m@, ga, gb, gc, gd, gx, gs, r as int, m as int, n as int, mneg(f.m@));
    //@| // the solver's answer is c a^-1:  Y = Y a a^-1 = c a^-1
    //@| bx_tri_inv(t, ga); bx_assoc(mneg(f.m@), ga, minv(ga)); bx_id(mneg(f.m@));
    //@| assert(mneg(f.m@) == mmul(gc, minv(ga)));
    //@+ post
    //@| if with_trans {
    //@|     let (fs, bs, ft, bt) = (__ret.t_src.unwrap().f@, __ret.t_src.unwrap().b@, __ret.t_tgt.unwrap().f@, __ret.t_tgt.unwrap().b@);
    //@|     bx_assoc(ft, abcd.m@, bs);
    //@|     assert(bs == mstack(mneg(gx), mid(n - r)) && fs == mconcat(mzero(n - r, r as int), mid(n - r)));
    //@|     assert(bt == mstack(mzero(r as int, m - r), mid(m - r)));
    //@|     assert(mmul(ft, mstack(mzero(r as int, n - r), gs)) == gs);
    //@| }
    //@| assert(abcd.m@ == mstack(mconcat(ga, gb), mconcat(gc, gd)) && nr(ga) == r && nc(ga) == r && __ret.s.m@ == msub(gd, mmul(gc, mmul(minv(ga), gb))));
    //@| // the eliminating maps, with y = c a^-1
    //@| let y = mmul(gc, minv(ga));
    //@| bx_tri_inv(t, ga); bx_assoc(gc, minv(ga), ga); bx_id(gc); bx_dims(gc, minv(ga), 0, 0, 0, 0, 0);
    //@| lemma_schur_tgt(t, abcd.m@, ga, gb, gc, gd, gx, gs, r as int, m as int, n as int, y);
    //@| let (ft0, bs0) = (mconcat(mneg(y), mid(m - r)), mstack(mneg(gx), mid(n - r)));
    //@| bx_dims(abcd.m@, 0, 0, 0, 0, 0, 0);
    //@| assert(nr(abcd.m@) == m && nc(abcd.m@) == n);
    //@| if with_trans { assert(__ret.t_tgt.unwrap().f@ == ft0); }
    //@| assert(elim_maps(abcd.m@, __ret.s.m@, r as int, ft0, bs0));
    //@| assert(block_dims(ga, gb, gc, gd, r as int, nr(abcd.m@), nc(abcd.m@)));
    //@| assert(abcd.m@ == mstack(mconcat(ga, gb), mconcat(gc, gd)) && ft0 == mconcat(mneg(mmul(gc, minv(ga))), mid(nr(abcd.m@) - r)) && bs0 == mstack(mneg(mmul(minv(ga), gb)), mid(nc(abcd.m@) - r)));
    //@+ closure 0 typed
    //@| n: usize
    //@+ closure 0
    //@| -> (o: SpMat) ensures o.m@ == mid(n as int)
    //@+ closure 1 typed
    //@| n: usize, k: usize
    //@+ closure 1
    //@| -> (o: SpMat) requires k <= n ensures o.m@ == mstack(mzero(n - k, k as int), mid(k as int))
    //@+ closure 1 pre
    //@| bx_shift(n as int, k as int);
    //@+ closure 2 typed
    //@| i: usize
    //@+ closure 2
    //@| -> (o: (usize, usize, ER)) requires i < k, k <= n ensures o.0 == n - k + i, o.1 == i, o.2.v() == r1()
    //@+ closure 3 typed
    //@| n: usize, k: usize
    //@+ closure 3
    //@| -> (o: SpMat) requires k <= n ensures o.m@ == mconcat(mzero(k as int, n - k), mid(k as int))
    //@+ closure 3 pre
    //@| bx_shift(n as int, k as int);
    //@+ closure 4 typed
    //@| i: usize
    //@+ closure 4
    //@| -> (o: (usize, usize, ER)) requires i < k, k <= n ensures o.0 == i, o.1 == n - k + i, o.2.v() == r1()
}

} // verus!
fn main() {}
