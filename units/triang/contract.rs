// Contract overlay for the triangular solver kernel (yui-matrix/src/sparse/triang.rs, _solve_triangular).
// Property C12: "for every sparse triangular matrix with unit diagonal entries and every right-hand side, the solver
// returns X with A X = Y", mechanism "column-oriented substitution on a dense scratch vector that must return to all-zero".
// Entry-level proof over the abstract ring ER: the returned sparse vector x satisfies  sum_j a_ij x_j = y_i  for every row i
// (sum in the order the columns are processed), stores no zero, is sorted, and the scratch vector is all zero on return.
// Both orientations (Upper: columns n-1, .., 0;  Lower: 0, .., n-1) go through one loop, as in the code.
use vstd::prelude::*;
verus! {
//@include prelude/rt.rs
//@include prelude/er.rs
//@source yui-matrix/src/sparse/triang.rs

#[derive(PartialEq, Eq, Structural, Clone, Copy)]
//@item enum/TriangularType
impl TriangularType {
    pub fn is_upper(&self) -> (r: bool) ensures r == is_up(*self),
    //@body impl/TriangularType/is_upper
}

// ---------------------------------------------------------------- models (ASSUMED container contracts)
pub uninterp spec fn mat_at(m: int, i: int, j: int) -> int;
pub uninterp spec fn mat_n(m: int) -> int;
/// es lists the stored entries of column j of m: distinct row indices in range, every non-zero entry present (explicit zeros allowed)
pub open spec fn col_entries(es: Seq<(int, int)>, m: int, j: int) -> bool {
    &&& forall|k: int| 0 <= k < es.len() ==> 0 <= (#[trigger] es[k]).0 < mat_n(m) && es[k].1 == mat_at(m, es[k].0, j)
    &&& forall|k: int, l: int| 0 <= k < l < es.len() ==> (#[trigger] es[k]).0 != (#[trigger] es[l]).0
    &&& forall|i: int| 0 <= i < mat_n(m) && mat_at(m, i, j) != r0() ==> exists|k: int| 0 <= k < es.len() && (#[trigger] es[k]).0 == i
}
pub open spec fn seen(es: Seq<(int, int)>, n: int, i: int) -> bool { exists|k: int| 0 <= k < n && k < es.len() && (#[trigger] es[k]).0 == i }
pub struct SpMat { pub m: Ghost<int> }
pub struct SpVec { pub dim: Ghost<int>, pub es: Ghost<Seq<(int, int)>> }
pub struct SVIter<'a> { pub src: &'a SpVec, pub pos: Ghost<int> }
impl SpMat {
    #[verifier::external_body] pub fn ncols(&self) -> (r: usize) ensures r == mat_n(self.m@) { unimplemented!() }
    #[verifier::external_body] pub fn col_vec(&self, j: usize) -> (r: SpVec) requires j < mat_n(self.m@) ensures col_entries(r.es@, self.m@, j as int), r.dim@ == mat_n(self.m@) { unimplemented!() }
}
impl SpVec {
    #[verifier::external_body] pub fn iter(&self) -> (r: SVIter<'_>) ensures r.src == self, r.pos@ == 0 { unimplemented!() }
    /// ASSUMED: the sparse vector with exactly these (index, value) entries (A: rejects an index >= dim)
    #[verifier::external_body] pub fn from_sorted_entries(dim: usize, entries: Vec<(usize, ER)>) -> (r: SpVec)
//@if B
        requires forall|k: int| 0 <= k < entries@.len() ==> (#[trigger] entries@[k]).0 < dim,
//@endif
        ensures r.dim@ == dim, r.es@.len() == entries@.len(), forall|k: int| 0 <= k < entries@.len() ==> #[trigger] r.es@[k] == (entries@[k].0 as int, entries@[k].1.v()),
    { unimplemented!() }
}
impl<'a> SVIter<'a> {
    pub fn into_iter(self) -> (r: Self) ensures r == self { self }
    #[verifier::external_body] pub fn next(&mut self) -> (r: Option<(usize, &'a ER)>)
        requires 0 <= old(self).pos@ <= old(self).src.es@.len()
        ensures final(self).src == old(self).src,
            old(self).pos@ < old(self).src.es@.len() ==> (final(self).pos@ == old(self).pos@ + 1 && r.is_some()
                && r.unwrap().0 as int == old(self).src.es@[old(self).pos@].0 && r.unwrap().1.v() == old(self).src.es@[old(self).pos@].1),
            old(self).pos@ >= old(self).src.es@.len() ==> (final(self).pos@ == old(self).pos@ && r.is_none()),
    { unimplemented!() }
}
// slice iteration: diag.iter().enumerate() [.rev()], wrapped in Either; b.iter()
pub struct VIter<'a, T> { pub es: Ghost<Seq<T>>, pub pos: Ghost<int>, pub w: Option<&'a T> }
/// enumerate(), possibly reversed: yields (idx(k), &es[idx(k)]) for k = 0, 1, ..  with idx(k) = k or len-1-k
pub struct VEnum<'a, T> { pub es: Ghost<Seq<T>>, pub pos: Ghost<int>, pub back: Ghost<bool>, pub w: Option<&'a T> }
#[verifier::external_body] pub fn viter_<'a, T>(c: &'a [T]) -> (r: VIter<'a, T>) ensures r.es@ == c@, r.pos@ == 0 { unimplemented!() }
impl<'a, T> VIter<'a, T> {
    pub fn into_iter(self) -> (r: Self) ensures r == self { self }
    #[verifier::external_body] pub fn enumerate(self) -> (r: VEnum<'a, T>) requires self.pos@ == 0 ensures r.es@ == self.es@, r.pos@ == 0, r.back@ == false { unimplemented!() }
    #[verifier::external_body] pub fn next(&mut self) -> (r: Option<&'a T>)
        requires 0 <= old(self).pos@ <= old(self).es@.len()
        ensures final(self).es@ == old(self).es@,
            old(self).pos@ < old(self).es@.len() ==> (final(self).pos@ == old(self).pos@ + 1 && r.is_some() && *r.unwrap() == old(self).es@[old(self).pos@]),
            old(self).pos@ >= old(self).es@.len() ==> (final(self).pos@ == old(self).pos@ && r.is_none()),
    { unimplemented!() }
}
pub open spec fn eidx(back: bool, len: int, k: int) -> int { if back { len - 1 - k } else { k } }
impl<'a, T> VEnum<'a, T> {
    pub fn into_iter(self) -> (r: Self) ensures r == self { self }
    #[verifier::external_body] pub fn rev(self) -> (r: Self) requires self.pos@ == 0, !self.back@ ensures r.es@ == self.es@, r.pos@ == 0, r.back@ == true { unimplemented!() }
    #[verifier::external_body] pub fn next(&mut self) -> (r: Option<(usize, &'a T)>)
        requires 0 <= old(self).pos@ <= old(self).es@.len(), old(self).es@.len() <= usize::MAX
        ensures final(self).es@ == old(self).es@, final(self).back@ == old(self).back@,
            old(self).pos@ < old(self).es@.len() ==> (final(self).pos@ == old(self).pos@ + 1 && r.is_some()
                && r.unwrap().0 as int == eidx(old(self).back@, old(self).es@.len() as int, old(self).pos@) && *r.unwrap().1 == old(self).es@[r.unwrap().0 as int]),
            old(self).pos@ >= old(self).es@.len() ==> (final(self).pos@ == old(self).pos@ && r.is_none()),
    { unimplemented!() }
}
/// either::Either over the two enumerations (they are the same model type here); iteration delegates to the wrapped iterator
pub enum Either<L, R> { Left(L), Right(R) }
impl<'a, T> Either<VEnum<'a, T>, VEnum<'a, T>> {
    pub open spec fn it(&self) -> VEnum<'a, T> { match *self { Either::Left(l) => l, Either::Right(r) => r } }
    pub fn into_iter(self) -> (r: Self) ensures r == self { self }
    pub fn next(&mut self) -> (r: Option<(usize, &'a T)>)
        requires 0 <= old(self).it().pos@ <= old(self).it().es@.len(), old(self).it().es@.len() <= usize::MAX
        ensures final(self).it().es@ == old(self).it().es@, final(self).it().back@ == old(self).it().back@,
            old(self).it().pos@ < old(self).it().es@.len() ==> (final(self).it().pos@ == old(self).it().pos@ + 1 && r.is_some()
                && r.unwrap().0 as int == eidx(old(self).it().back@, old(self).it().es@.len() as int, old(self).it().pos@) && *r.unwrap().1 == old(self).it().es@[r.unwrap().0 as int]),
            old(self).it().pos@ >= old(self).it().es@.len() ==> (final(self).it().pos@ == old(self).it().pos@ && r.is_none()),
    { match self { Either::Left(l) => l.next(), Either::Right(r) => r.next() } }
}
pub assume_specification<T> [ <[T]>::reverse ] (s: &mut [T]) ensures final(s)@ == old(s)@.reverse();

// ---- whole-matrix iteration (CSC order) and dense conversion, for collect_diag / solve_triangular_vec ----
/// ents lists the stored entries (i, j, value) of m in column-major order: sorted by (j, i), positions distinct and in range,
/// every non-zero entry present (explicit zeros allowed)
pub open spec fn mat_entries(ents: Seq<(int, int, int)>, m: int) -> bool {
    &&& forall|k: int| 0 <= k < ents.len() ==> 0 <= (#[trigger] ents[k]).0 < mat_n(m) && 0 <= ents[k].1 < mat_n(m) && ents[k].2 == mat_at(m, ents[k].0, ents[k].1)
    &&& forall|k: int, l: int| 0 <= k < l < ents.len() ==> ((#[trigger] ents[k]).1 < (#[trigger] ents[l]).1 || (ents[k].1 == ents[l].1 && ents[k].0 < ents[l].0))
    &&& forall|i: int, j: int| 0 <= i < mat_n(m) && 0 <= j < mat_n(m) && #[trigger] mat_at(m, i, j) != r0() ==> exists|k: int| 0 <= k < ents.len() && (#[trigger] ents[k]).0 == i && ents[k].1 == j
}
pub struct MIter<'a> { pub src: &'a SpMat, pub es: Ghost<Seq<(int, int, int)>>, pub pos: Ghost<int> }
impl SpMat {
    #[verifier::external_body] pub fn nrows(&self) -> (r: usize) ensures r == mat_n(self.m@) { unimplemented!() }
    #[verifier::external_body] pub fn iter(&self) -> (r: MIter<'_>) ensures r.src == self, r.pos@ == 0, mat_entries(r.es@, self.m@) { unimplemented!() }
    /// ASSUMED (iter_nz().all(..)): square, and zero on the other side of the diagonal
    #[verifier::external_body] pub fn is_triang(&self, t: TriangularType) -> (r: bool) ensures r == tri(self.m@, is_up(t)) { unimplemented!() }
}
impl<'a> MIter<'a> {
    pub fn into_iter(self) -> (r: Self) ensures r == self { self }
    #[verifier::external_body] pub fn next(&mut self) -> (r: Option<(usize, usize, &'a ER)>)
        requires 0 <= old(self).pos@ <= old(self).es@.len()
        ensures final(self).es@ == old(self).es@, final(self).src == old(self).src,
            old(self).pos@ < old(self).es@.len() ==> (final(self).pos@ == old(self).pos@ + 1 && r.is_some()
                && r.unwrap().0 as int == old(self).es@[old(self).pos@].0 && r.unwrap().1 as int == old(self).es@[old(self).pos@].1 && r.unwrap().2.v() == old(self).es@[old(self).pos@].2),
            old(self).pos@ >= old(self).es@.len() ==> (final(self).pos@ == old(self).pos@ && r.is_none()),
    { unimplemented!() }
}
impl SpVec {
    /// the vector as a function of the index
    pub uninterp spec fn val(&self, i: int) -> int;
    #[verifier::external_body] pub fn dim(&self) -> (r: usize) ensures r == self.dim@ { unimplemented!() }
    #[verifier::external_body] pub fn to_dense(&self) -> (r: Vec<ER>) ensures r@.len() == self.dim@, forall|i: int| 0 <= i < r@.len() ==> (#[trigger] r@[i]).v() == self.val(i) { unimplemented!() }
}
pub open spec fn has_diag(ents: Seq<(int, int, int)>, p: int, j: int) -> bool { exists|k: int| 0 <= k < p && (#[trigger] ents[k]).0 == j && ents[k].1 == j }
/// number of diagonal entries among the first n stored entries
pub open spec fn ndiag(ents: Seq<(int, int, int)>, n: int) -> int decreases n { if n <= 0 { 0 } else { ndiag(ents, n - 1) + (if ents[n - 1].0 == ents[n - 1].1 { 1int } else { 0int }) } }
/// in column-major order with every diagonal entry stored, the k-th diagonal entry met is the one of column k
pub proof fn lemma_diag_order(ents: Seq<(int, int, int)>, m: int, p: int)
    requires mat_entries(ents, m), 0 <= p <= ents.len(), 0 <= mat_n(m), forall|j: int| 0 <= j < mat_n(m) ==> #[trigger] mat_at(m, j, j) != r0(),
    ensures 0 <= ndiag(ents, p) <= mat_n(m), p < ents.len() && ents[p].0 == ents[p].1 ==> ents[p].1 == ndiag(ents, p),
        p == ents.len() ==> ndiag(ents, p) == mat_n(m),
        // every column below ndiag has had its diagonal entry, none at or above
        forall|k: int| 0 <= k < p && (#[trigger] ents[k]).0 == ents[k].1 ==> ents[k].1 < ndiag(ents, p),
        forall|j: int| 0 <= j < ndiag(ents, p) ==> #[trigger] has_diag(ents, p, j),
    decreases p
{
    let c = ndiag(ents, p);
    if p > 0 {
        lemma_diag_order(ents, m, p - 1);
        let c0 = ndiag(ents, p - 1);
        assert forall|jj: int| 0 <= jj < c implies #[trigger] has_diag(ents, p, jj) by {
            if jj < c0 { assert(has_diag(ents, p - 1, jj)); let k = choose|k: int| 0 <= k < p - 1 && (#[trigger] ents[k]).0 == jj && ents[k].1 == jj; }
            else { assert(ents[p - 1].0 == jj && ents[p - 1].1 == jj); }
        }
        assert forall|k: int| 0 <= k < p && (#[trigger] ents[k]).0 == ents[k].1 implies ents[k].1 < c by { }
        assert(0 <= ents[p - 1].1 < mat_n(m));
    }
    assert(0 <= c <= mat_n(m));
    // the next diagonal entry, if any, is the one of column c; and at the end all columns are done
    if c < mat_n(m) {
        assert(mat_at(m, c, c) != r0());
        let kc = choose|k: int| 0 <= k < ents.len() && (#[trigger] ents[k]).0 == c && ents[k].1 == c;
        if kc < p { assert(ents[kc].1 < c); }
        if p < ents.len() && ents[p].0 == ents[p].1 {
            let j = ents[p].1;
            if j < c { assert(has_diag(ents, p, j)); let k = choose|k: int| 0 <= k < p && (#[trigger] ents[k]).0 == j && ents[k].1 == j; assert(ents[k].1 == ents[p].1 && ents[k].0 == ents[p].0); }
            if j > c { if kc > p { assert(ents[p].1 <= ents[kc].1); } }
        }
    } else if p < ents.len() && ents[p].0 == ents[p].1 {
        let j = ents[p].1;
        assert(has_diag(ents, p, j)); let k = choose|k: int| 0 <= k < p && (#[trigger] ents[k]).0 == j && ents[k].1 == j; assert(ents[k].1 == ents[p].1 && ents[k].0 == ents[p].0);
    }
}

// ---------------------------------------------------------------- specification
pub open spec fn is_up(t: TriangularType) -> bool { t == TriangularType::Upper }
/// row i is finished before column j is processed (Upper: i > j, Lower: i < j): there the matrix is zero
pub open spec fn before(up: bool, i: int, j: int) -> bool { if up { i > j } else { i < j } }
pub open spec fn tri(m: int, up: bool) -> bool { forall|i: int, j: int| 0 <= i < mat_n(m) && 0 <= j < mat_n(m) && before(up, i, j) ==> #[trigger] mat_at(m, i, j) == r0() }
pub open spec fn xat(x: Map<int, int>, j: int) -> int { if x.dom().contains(j) { x[j] } else { r0() } }
/// sum over the first k processed columns of a_ij x_j
pub open spec fn psum(m: int, up: bool, x: Map<int, int>, i: int, k: int) -> int decreases k {
    if k <= 0 { r0() } else { let j = eidx(up, mat_n(m), k - 1); radd(psum(m, up, x, i, k - 1), rmul(mat_at(m, i, j), xat(x, j))) }
}
/// a new x_j for a column not yet processed does not change the partial sums
pub proof fn lemma_psum_insert(m: int, up: bool, x: Map<int, int>, i: int, k: int, j: int, v: int)
    requires 0 <= k <= mat_n(m), forall|k2: int| 0 <= k2 < k ==> eidx(up, mat_n(m), k2) != j
    ensures psum(m, up, x.insert(j, v), i, k) == psum(m, up, x, i, k)
    decreases k
{ if k > 0 { lemma_psum_insert(m, up, x, i, k - 1, j, v); } }

/// the result vector: sparse entries representing x, sorted, no zero stored
pub open spec fn represents(es: Seq<(int, int)>, x: Map<int, int>) -> bool {
    &&& forall|k: int| 0 <= k < es.len() ==> x.dom().contains((#[trigger] es[k]).0) && x[es[k].0] == es[k].1 && es[k].1 != r0()
    &&& forall|j: int| x.dom().contains(j) ==> exists|k: int| 0 <= k < es.len() && (#[trigger] es[k]).0 == j
    &&& forall|k: int, l: int| 0 <= k < l < es.len() ==> (#[trigger] es[k]).0 < (#[trigger] es[l]).0
}

/// one right-hand side: substitute column by column on the dense scratch vector b
pub fn _solve_triangular(t: TriangularType, a: &SpMat, diag: &[&ER], b: &mut [ER]) -> (res: SpVec)
    requires
        tri(a.m@, is_up(t)), 0 <= mat_n(a.m@) <= usize::MAX,
        diag@.len() == mat_n(a.m@), old(b)@.len() == mat_n(a.m@),
        forall|j: int| 0 <= j < diag@.len() ==> (#[trigger] diag@[j]).v() == mat_at(a.m@, j, j),
        forall|j: int| 0 <= j < diag@.len() ==> is_unit(#[trigger] mat_at(a.m@, j, j)),      // "unit diagonal entries" (the code unwraps u.inv())
    ensures
        final(b)@.len() == old(b)@.len(),
        forall|i: int| 0 <= i < final(b)@.len() ==> (#[trigger] final(b)@[i]).v() == r0(),             // the scratch vector is all zero again
        exists|x: Map<int, int>| #![trigger represents(res.es@, x)] represents(res.es@, x) && res.dim@ == mat_n(a.m@)
            && forall|i: int| 0 <= i < mat_n(a.m@) ==> old(b)@[i].v() == #[trigger] psum(a.m@, is_up(t), x, i, mat_n(a.m@)),   // A x = y
//@body fn/_solve_triangular for_iter=1 loops=3 ring=1 iter_model=diag,b vec_elem=(usize,ER)
//@+ sig
//@| fn _solve_triangular<R>(t: TriangularType, a: &SpMat<R>, diag: &[&R], b: &mut [R]) -> SpVec<R> where R: Ring, for<'x> &'x R: RingOps<R>
//@+ loop 0 header
//@| for (j, u) in itr
//@+ loop 1 header
//@| for (i, a_ij) in a.col_vec(j).iter()
//@+ loop 2 header
//@| b.iter().all(|b_i|
//@+ pre-raw
//@| let ghost y0 = b@; let ghost mut gx = Map::<int, int>::empty(); let ghost up = is_up(t); let ghost m = a.m@; let ghost n = mat_n(a.m@); let ghost mut entries0: Seq<(usize, ER)> = Seq::empty();
//@+ loop 0
//@| invariant
//@|     __it0.it().es@ == diag@, __it0.it().back@ == up, 0 <= __it0.it().pos@ <= n, n == mat_n(m), m == a.m@, up == (is_up(t)), diag@.len() == n, b@.len() == n, y0.len() == n, n <= usize::MAX,
//@|     tri(m, up), forall|j: int| 0 <= j < diag@.len() ==> (#[trigger] diag@[j]).v() == mat_at(m, j, j),
//@|     forall|j: int| 0 <= j < diag@.len() ==> is_unit(#[trigger] mat_at(m, j, j)),
//@|     forall|i: int| 0 <= i < n ==> (#[trigger] b@[i]).v() == rsub(y0[i].v(), psum(m, up, gx, i, __it0.it().pos@)),
//@|     forall|k2: int| 0 <= k2 < __it0.it().pos@ ==> b@[#[trigger] eidx(up, n, k2)].v() == r0(),
//@|     forall|j: int| gx.dom().contains(j) ==> exists|k2: int| 0 <= k2 < __it0.it().pos@ && #[trigger] eidx(up, n, k2) == j,
//@|     forall|e: int| 0 <= e < entries@.len() ==> gx.dom().contains((#[trigger] entries@[e]).0 as int) && gx[entries@[e].0 as int] == entries@[e].1.v() && entries@[e].1.v() != r0(),
//@|     forall|j: int| gx.dom().contains(j) ==> exists|e: int| 0 <= e < entries@.len() && (#[trigger] entries@[e]).0 == j,
//@|     forall|e: int, f: int| 0 <= e < f < entries@.len() ==> before(up, (#[trigger] entries@[e]).0 as int, (#[trigger] entries@[f]).0 as int),
//@| ensures __it0.it().pos@ == n,
//@| decreases n - __it0.it().pos@,
//@+ loop 0 before
//@| assert forall|i: int| 0 <= i < n implies (#[trigger] b@[i]).v() == rsub(y0[i].v(), psum(m, up, gx, i, 0)) by { id_sub_sub(y0[i].v(), r0(), r0()); }
//@+ loop 0 begin-raw
//@| let ghost en0 = entries@; let ghost k = __it0.it().pos@ - 1; let ghost bj = b@[j as int].v(); let ghost mut xj = r0(); let ghost mut b0 = b@; let ghost mut w = r0();
//@+ loop 0 begin
//@| assert(j as int == eidx(up, n, k) && 0 <= j < n && u.v() == mat_at(m, j as int, j as int));
//@| // column j has not been processed: x_j is still 0
//@| assert(!gx.dom().contains(j as int)) by { if gx.dom().contains(j as int) { let k2 = choose|k2: int| 0 <= k2 < k && #[trigger] eidx(up, n, k2) == j; } }
//@| if bj == r0() {
//@|     assert forall|i: int| 0 <= i < n implies (#[trigger] b@[i]).v() == rsub(y0[i].v(), psum(m, up, gx, i, k + 1)) by {
//@|         id_mul_zero(mat_at(m, i, j as int)); ax_add_zero(psum(m, up, gx, i, k));
//@|     }
//@|     assert forall|k2: int| 0 <= k2 < k + 1 implies b@[#[trigger] eidx(up, n, k2)].v() == r0() by {}
//@| }
//@+ after-let x_j
//@| xj = x_j.v(); b0 = b@; w = uinv.v();
//@| // x_j = b_j u^-1 is not zero (integral domain, u^-1 a unit)
//@| assert(rmul(u.v(), w) == r1());
//@| if w == r0() { id_mul_zero(u.v()); ax_nontrivial(); }
//@| ax_domain(bj, w);
//@| assert(xj != r0());
//@+ loop 1
//@| invariant
//@|     col_entries(__it1.src.es@, m, j as int), 0 <= __it1.pos@ <= __it1.src.es@.len(), b@.len() == n, b0.len() == n, 0 <= j < n, n == mat_n(m), xj == x_j.v(),
//@|     forall|i: int| 0 <= i < n ==> (#[trigger] b@[i]).v() == (if seen(__it1.src.es@, __it1.pos@, i) { rsub(b0[i].v(), rmul(mat_at(m, i, j as int), xj)) } else { b0[i].v() }),
//@| ensures __it1.pos@ == __it1.src.es@.len(),
//@| decreases __it1.src.es@.len() - __it1.pos@,
//@+ loop 1 begin-raw
//@| let ghost p1 = __it1.pos@ - 1; let ghost es = __it1.src.es@; let ghost b1 = b@;
//@+ loop 1 begin
//@| assert(i as int == es[p1].0 && a_ij.v() == es[p1].1 && a_ij.v() == mat_at(m, i as int, j as int) && 0 <= i < n);
//@| assert(!seen(es, p1, i as int));
//@| if a_ij.v() == r0() {
//@|     id_mul_zero(xj); id_sub_sub(b0[i as int].v(), r0(), r0());
//@|     assert forall|i2: int| 0 <= i2 < n implies (#[trigger] b@[i2]).v() == (if seen(es, p1 + 1, i2) { rsub(b0[i2].v(), rmul(mat_at(m, i2, j as int), xj)) } else { b0[i2].v() }) by {
//@|         if i2 == i as int { assert(seen(es, p1 + 1, i2)); } else { assert(seen(es, p1 + 1, i2) == seen(es, p1, i2)); }
//@|     }
//@| }
//@+ loop 1 end
//@| assert forall|i2: int| 0 <= i2 < n implies (#[trigger] b@[i2]).v() == (if seen(es, p1 + 1, i2) { rsub(b0[i2].v(), rmul(mat_at(m, i2, j as int), xj)) } else { b0[i2].v() }) by {
//@|     assert(b1[i2].v() == (if seen(es, p1, i2) { rsub(b0[i2].v(), rmul(mat_at(m, i2, j as int), xj)) } else { b0[i2].v() }));
//@|     if i2 == i as int { assert(seen(es, p1 + 1, i2)); } else { assert(seen(es, p1 + 1, i2) == seen(es, p1, i2)); assert(b@[i2] == b1[i2]); }
//@| }
//@+ loop 1 after
//@| assert forall|i2: int| 0 <= i2 < n implies (#[trigger] b@[i2]).v() == rsub(b0[i2].v(), rmul(mat_at(m, i2, j as int), xj)) by {
//@|     let es = __it1.src.es@;
//@|     if !seen(es, es.len() as int, i2) {
//@|         if mat_at(m, i2, j as int) != r0() { let k3 = choose|k3: int| 0 <= k3 < es.len() && (#[trigger] es[k3]).0 == i2; assert(seen(es, es.len() as int, i2)); }
//@|         id_mul_zero(xj); id_sub_sub(b0[i2].v(), r0(), r0());
//@|     }
//@| }
//@+ loop 0 end
//@| let gx0 = gx;
//@| gx = gx.insert(j as int, xj);
//@| assert(entries@.len() == en0.len() + 1 && entries@[en0.len() as int].0 == j && entries@[en0.len() as int].1.v() == xj && forall|e: int| 0 <= e < en0.len() ==> #[trigger] entries@[e] == en0[e]);
//@| assert forall|i: int| 0 <= i < n implies (#[trigger] b@[i]).v() == rsub(y0[i].v(), psum(m, up, gx, i, k + 1)) by {
//@|     lemma_psum_insert(m, up, gx0, i, k, j as int, xj);
//@|     id_sub_sub(y0[i].v(), psum(m, up, gx0, i, k), rmul(mat_at(m, i, j as int), xj));
//@|     assert(b0[i].v() == rsub(y0[i].v(), psum(m, up, gx0, i, k)));
//@| }
//@| assert forall|k2: int| 0 <= k2 < k + 1 implies b@[#[trigger] eidx(up, n, k2)].v() == r0() by {
//@|     let i = eidx(up, n, k2);
//@|     if k2 == k {
//@|         // b_j - u (b_j u^-1) = 0
//@|         id_mul_swap3(u.v(), bj, w); ax_mul_one(bj); id_sub_self(bj);
//@|     } else {
//@|         assert(before(up, i, j as int)); assert(mat_at(m, i, j as int) == r0());
//@|         id_mul_zero(xj); id_sub_sub(b0[i].v(), r0(), r0());
//@|     }
//@| }
//@| assert forall|j2: int| gx.dom().contains(j2) implies exists|k2: int| 0 <= k2 < k + 1 && #[trigger] eidx(up, n, k2) == j2 by {
//@|     if j2 == j as int { assert(eidx(up, n, k) == j2); } else { let k2 = choose|k2: int| 0 <= k2 < k && #[trigger] eidx(up, n, k2) == j2; }
//@| }
//@| assert forall|j2: int| gx.dom().contains(j2) implies exists|e: int| 0 <= e < entries@.len() && (#[trigger] entries@[e]).0 == j2 by {
//@|     if j2 == j as int { assert(entries@[entries@.len() - 1].0 == j); } else { let e = choose|e: int| 0 <= e < en0.len() && (#[trigger] en0[e]).0 == j2; assert(entries@[e] == en0[e]); }
//@| }
//@| assert forall|e: int, f: int| 0 <= e < f < entries@.len() implies before(up, (#[trigger] entries@[e]).0 as int, (#[trigger] entries@[f]).0 as int) by {
//@|     assert(entries@[e] == en0[e]);
//@|     if f == entries@.len() - 1 { let k2 = choose|k2: int| 0 <= k2 < k && #[trigger] eidx(up, n, k2) == en0[e].0 as int; } else { assert(entries@[f] == en0[f]); }
//@| }
//@+ loop 2
//@| invariant __it2.es@ == b@, 0 <= __it2.pos@ <= __it2.es@.len(), __all2, forall|i: int| 0 <= i < b@.len() ==> (#[trigger] b@[i]).v() == r0(),
//@| ensures __all2,
//@| decreases __it2.es@.len() - __it2.pos@,
//@+ loop 0 after
//@| entries0 = entries@;
//@| assert forall|i: int| 0 <= i < n implies (#[trigger] b@[i]).v() == r0() by { let k2 = if up { n - 1 - i } else { i }; assert(eidx(up, n, k2) == i); }
//@| assert forall|i: int| 0 <= i < n implies y0[i].v() == #[trigger] psum(m, up, gx, i, n) by { id_sub_add_back(y0[i].v(), psum(m, up, gx, i, n)); ax_add_zero(psum(m, up, gx, i, n)); assert(b@[i].v() == r0()); }
//@+ post
//@| let es = __ret.es@;
//@| assert(represents(es, gx)) by {
//@|     assert forall|k3: int, l: int| 0 <= k3 < l < es.len() implies (#[trigger] es[k3]).0 < (#[trigger] es[l]).0 by {
//@|         if up { assert(before(up, entries0[es.len() - 1 - l].0 as int, entries0[es.len() - 1 - k3].0 as int)); } else { assert(before(up, entries0[k3].0 as int, entries0[l].0 as int)); }
//@|     }
//@|     assert forall|j2: int| gx.dom().contains(j2) implies exists|k3: int| 0 <= k3 < es.len() && (#[trigger] es[k3]).0 == j2 by {
//@|         let e = choose|e: int| 0 <= e < entries0.len() && (#[trigger] entries0[e]).0 == j2;
//@|         let k3 = if up { es.len() - 1 - e } else { e }; assert(es[k3].0 == j2);
//@|     }
//@| }
/// the diagonal of a (triangular, unit-diagonal) matrix, read off the column-major entry stream
pub fn collect_diag<'a>(a: &'a SpMat) -> (diag: Vec<&'a ER>)
    requires 0 <= mat_n(a.m@), forall|j: int| 0 <= j < mat_n(a.m@) ==> #[trigger] mat_at(a.m@, j, j) != r0(),
    ensures diag@.len() == mat_n(a.m@), forall|j: int| 0 <= j < diag@.len() ==> (#[trigger] diag@[j]).v() == mat_at(a.m@, j, j),
//@body fn/collect_diag for_iter=1 loops=1
//@+ sig
//@| fn collect_diag<'a, R>(a: &'a SpMat<R>) -> Vec<&'a R> where R: Ring, for<'x> &'x R: RingOps<R>
//@+ loop 0 header
//@| a.iter().filter_map(|(i, j, a)|
//@+ loop 0 elem
//@| &'a ER
//@+ loop 0
//@| invariant __it0.src == a, mat_entries(__it0.es@, a.m@), 0 <= __it0.pos@ <= __it0.es@.len(), 0 <= mat_n(a.m@), forall|j: int| 0 <= j < mat_n(a.m@) ==> #[trigger] mat_at(a.m@, j, j) != r0(),
//@|     __out0@.len() == ndiag(__it0.es@, __it0.pos@), forall|j: int| 0 <= j < __out0@.len() ==> (#[trigger] __out0@[j]).v() == mat_at(a.m@, j, j),
//@| ensures __it0.pos@ == __it0.es@.len(),
//@| decreases __it0.es@.len() - __it0.pos@,
//@+ loop 0 end
//@| lemma_diag_order(__it0.es@, __it0.src.m@, __it0.pos@ - 1);
//@+ loop 0 after
//@| lemma_diag_order(__it0.es@, a.m@, __it0.pos@);

/// one right-hand side, public entry point: A x = b
pub fn solve_triangular_vec(t: TriangularType, a: &SpMat, b: &SpVec) -> (res: SpVec)
    requires 0 <= mat_n(a.m@) <= usize::MAX, forall|j: int| 0 <= j < mat_n(a.m@) ==> is_unit(#[trigger] mat_at(a.m@, j, j)),
        tri(a.m@, is_up(t)),        // checked by the code only in debug builds
//@if B
        b.dim@ == mat_n(a.m@),
//@endif
    ensures b.dim@ == mat_n(a.m@),
        exists|x: Map<int, int>| #![trigger represents(res.es@, x)] represents(res.es@, x) && res.dim@ == mat_n(a.m@)
            && forall|i: int| 0 <= i < mat_n(a.m@) ==> b.val(i) == #[trigger] psum(a.m@, is_up(t), x, i, mat_n(a.m@)),
//@body fn/solve_triangular_vec
//@+ sig
//@| fn solve_triangular_vec<R>(t: TriangularType, a: &SpMat<R>, b: &SpVec<R>) -> SpVec<R> where R: Ring, for<'x> &'x R: RingOps<R>
//@+ pre
//@| assert forall|j: int| 0 <= j < mat_n(a.m@) implies #[trigger] mat_at(a.m@, j, j) != r0() by {
//@|     let u = mat_at(a.m@, j, j); if u == r0() { let w = choose|w: int| #[trigger] rmul(u, w) == r1(); id_mul_zero(w); ax_nontrivial(); }
//@| }
} // verus!
fn main() {}
