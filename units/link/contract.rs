// Contract overlay for the resolution bookkeeping of link diagrams (yui-link/src/link/{crossing,link}.rs).
// Property C18 ("... resolutions ... are correct") and C04 (the cube of resolutions is indexed by states):
//   resolved_by(s) resolves the i-th *actual* (unresolved) crossing of the diagram by the i-th bit of s and
//   leaves everything else alone; crossing_at(i) is the i-th actual crossing; crossing_num counts them;
//   pass_edge finds the other occurrence of an edge label.
// Crossing / CrossingType / Bit are the repository's own declarations (spliced), Vec and arrays are Verus's;
// slice iteration (`.iter()`, `.enumerate()`) is an iterator model with a ghost element sequence (ASSUMED std contract).
use vstd::prelude::*;
verus! {
//@include prelude/rt.rs
//@source yui-link/src/link/crossing.rs

pub type Edge = usize;
#[derive(PartialEq, Eq, Structural, Clone, Copy)]
//@item enum/Bit source=yui/src/misc/bitseq.rs
#[derive(PartialEq, Eq, Structural, Clone, Copy)]
//@item enum/CrossingType
//@item struct/Crossing
use CrossingType::{X, Xm, V, H};

// ---------------------------------------------------------------- slice iteration model (ASSUMED std contract)
pub trait AsSeq<T> { spec fn sq(&self) -> Seq<T>; }
impl<T> AsSeq<T> for Vec<T> { open spec fn sq(&self) -> Seq<T> { self@ } }
impl<T, const N: usize> AsSeq<T> for [T; N] { open spec fn sq(&self) -> Seq<T> { self@ } }
impl<T, const N: usize> AsSeq<T> for &[T; N] { open spec fn sq(&self) -> Seq<T> { (**self)@ } }
pub struct VIter<'a, T> { pub es: Ghost<Seq<T>>, pub pos: Ghost<int>, pub w: Option<&'a T> }
pub struct VEnum<'a, T> { pub es: Ghost<Seq<T>>, pub pos: Ghost<int>, pub w: Option<&'a T> }
#[verifier::external_body] pub fn viter_<'a, T, C: AsSeq<T>>(c: &'a C) -> (r: VIter<'a, T>) ensures r.es@ == c.sq(), r.pos@ == 0 { unimplemented!() }
impl<'a, T> VIter<'a, T> {
    pub fn into_iter(self) -> (r: Self) ensures r == self { self }
    #[verifier::external_body] pub fn enumerate(self) -> (r: VEnum<'a, T>) ensures r.es@ == self.es@, r.pos@ == self.pos@ { unimplemented!() }
    #[verifier::external_body] pub fn next(&mut self) -> (r: Option<&'a T>)
        requires 0 <= old(self).pos@ <= old(self).es@.len()
        ensures final(self).es@ == old(self).es@,
            old(self).pos@ < old(self).es@.len() ==> (final(self).pos@ == old(self).pos@ + 1 && r.is_some() && *r.unwrap() == old(self).es@[old(self).pos@]),
            old(self).pos@ >= old(self).es@.len() ==> (final(self).pos@ == old(self).pos@ && r.is_none()),
    { unimplemented!() }
}
impl<'a, T> VEnum<'a, T> {
    pub fn into_iter(self) -> (r: Self) ensures r == self { self }
    #[verifier::external_body] pub fn next(&mut self) -> (r: Option<(usize, &'a T)>)
        requires 0 <= old(self).pos@ <= old(self).es@.len(), old(self).es@.len() <= usize::MAX
        ensures final(self).es@ == old(self).es@,
            old(self).pos@ < old(self).es@.len() ==> (final(self).pos@ == old(self).pos@ + 1 && r.is_some() && r.unwrap().0 as int == old(self).pos@ && *r.unwrap().1 == old(self).es@[old(self).pos@]),
            old(self).pos@ >= old(self).es@.len() ==> (final(self).pos@ == old(self).pos@ && r.is_none()),
    { unimplemented!() }
}

// ---------------------------------------------------------------- Crossing (the repository's bodies)
pub open spec fn unres(c: Crossing) -> bool { c.ctype == X || c.ctype == Xm }
/// the smoothing a crossing receives from a state bit (Bar-Natan's 0- / 1-resolution; mirrored for Xm)
pub open spec fn res_type(t: CrossingType, r: Bit) -> CrossingType {
    match (t, r) { (X, Bit::Bit0) => H, (Xm, Bit::Bit1) => H, (X, Bit::Bit1) => V, (Xm, Bit::Bit0) => V, (o, _) => o }
}
pub open spec fn res(c: Crossing, r: Bit) -> Crossing { Crossing { ctype: res_type(c.ctype, r), edges: c.edges } }

impl Crossing {
    /// derive(Clone) — TRUSTED
    #[verifier::external_body] pub fn clone(&self) -> (r: Crossing) ensures r == *self { unimplemented!() }
    pub fn ctype(&self) -> (r: CrossingType) ensures r == self.ctype,
    //@body impl/Crossing/ctype
    pub fn edge(&self, i: usize) -> (r: Edge)
//@if B
        requires i < 4,
//@endif
        ensures i < 4, r == self.edges@[i as int],
    //@body impl/Crossing/edge
    pub fn edges(&self) -> (r: &[Edge; 4]) ensures *r == self.edges,
    //@body impl/Crossing/edges
    pub fn is_resolved(&self) -> (r: bool) ensures r == !unres(*self),
    //@body impl/Crossing/is_resolved
    pub fn resolve(&mut self, r: Bit)
//@if B
        requires unres(*old(self)),
//@endif
        ensures unres(*old(self)), *final(self) == res(*old(self), r), !unres(*final(self)),
    //@body impl/Crossing/resolve
}

// ---------------------------------------------------------------- State (= BitSeq, verified in unit bitseq; here by its sequence view)
pub struct State { pub bits: Ghost<Seq<Bit>> }
pub struct BitIter { pub es: Ghost<Seq<Bit>>, pub pos: Ghost<int> }
impl State {
    #[verifier::external_body] pub fn len(&self) -> (r: usize) ensures r == self.bits@.len() { unimplemented!() }
    #[verifier::external_body] pub fn iter(&self) -> (r: BitIter) ensures r.es@ == self.bits@, r.pos@ == 0 { unimplemented!() }
}
impl BitIter {
    pub fn into_iter(self) -> (r: Self) ensures r == self { self }
    #[verifier::external_body] pub fn next(&mut self) -> (r: Option<Bit>)
        requires 0 <= old(self).pos@ <= old(self).es@.len()
        ensures final(self).es@ == old(self).es@,
            old(self).pos@ < old(self).es@.len() ==> (final(self).pos@ == old(self).pos@ + 1 && r == Some(old(self).es@[old(self).pos@])),
            old(self).pos@ >= old(self).es@.len() ==> (final(self).pos@ == old(self).pos@ && r.is_none()),
    { unimplemented!() }
}

// ---------------------------------------------------------------- Link
//@source yui-link/src/link/link.rs
//@item struct/Link

/// number of actual (unresolved) crossings among the first n entries
pub open spec fn nunres(d: Seq<Crossing>, n: int) -> int decreases n { if n <= 0 { 0 } else { nunres(d, n - 1) + (if unres(d[n - 1]) { 1int } else { 0int }) } }
pub proof fn lemma_nunres_bounds(d: Seq<Crossing>, n: int) requires 0 <= n ensures 0 <= nunres(d, n) <= n decreases n { if n > 0 { lemma_nunres_bounds(d, n - 1); } }
pub proof fn lemma_nunres_mono(d: Seq<Crossing>, a: int, b: int) requires 0 <= a <= b ensures nunres(d, a) <= nunres(d, b) decreases b - a { if a < b { lemma_nunres_mono(d, a, b - 1); } }
/// l is d with the first k actual crossings resolved by the bits s[0..k)
pub open spec fn rel(l: Seq<Crossing>, d: Seq<Crossing>, s: Seq<Bit>, k: int) -> bool {
    l.len() == d.len() && forall|j: int| 0 <= j < d.len() ==>
        #[trigger] l[j] == (if unres(d[j]) && nunres(d, j) < k { res(d[j], s[nunres(d, j)]) } else { d[j] })
}
/// under rel, the actual crossings of l are those of d with rank >= k
pub proof fn lemma_rel_count(l: Seq<Crossing>, d: Seq<Crossing>, s: Seq<Bit>, k: int, n: int)
    requires rel(l, d, s, k), 0 <= n <= d.len(), 0 <= k
    ensures nunres(l, n) == (if nunres(d, n) > k { nunres(d, n) - k } else { 0 })
    decreases n
{
    if n > 0 {
        lemma_rel_count(l, d, s, k, n - 1);
        lemma_nunres_bounds(d, n - 1);
        assert(l[n - 1] == (if unres(d[n - 1]) && nunres(d, n - 1) < k { res(d[n - 1], s[nunres(d, n - 1)]) } else { d[n - 1] }));
    }
}

/// slot (i, j) carries the same edge label as slot (ci, ei) and is a different slot
pub open spec fn occ(d: Seq<Crossing>, ci: int, ei: int, i: int, j: int) -> bool {
    0 <= i < d.len() && 0 <= j < 4 && d[i].edges@[j] == d[ci].edges@[ei] && !(i == ci && j == ei)
}

impl Link {
    /// derive(Clone) — TRUSTED
    #[verifier::external_body] pub fn clone(&self) -> (r: Link) ensures r.data@ == self.data@ { unimplemented!() }

    pub fn crossing_num(&self) -> (r: usize) ensures r == nunres(self.data@, self.data@.len() as int),
    //@body impl/Link/crossing_num for_iter=1 loops=1 iter_model=data
    //@+ loop 0 header
    //@| self.data.iter() .filter(|x|
    //@+ loop 0
    //@| invariant __it0.es@ == self.data@, 0 <= __it0.pos@ <= __it0.es@.len(), __cnt0 == nunres(self.data@, __it0.pos@), __cnt0 <= __it0.pos@, self.data@.len() == self.data.len(),
    //@| ensures __it0.pos@ == __it0.es@.len(),
    //@| decreases __it0.es@.len() - __it0.pos@,
    //@+ loop 0 end
    //@| lemma_nunres_bounds(self.data@, __it0.pos@);

    /// index in `data` of the i-th actual crossing
    /// (the parameter is named i0 here and re-bound to `i` first: the body shadows it with `let mut i = i;`, so the loop
    ///  invariant could not otherwise name the parameter)
    pub fn crossing_index(&self, i0: usize) -> (j: usize)
//@if B
        requires i0 < nunres(self.data@, self.data@.len() as int),
//@endif
        ensures j < self.data@.len(), unres(self.data@[j as int]), nunres(self.data@, j as int) == i0, i0 < nunres(self.data@, self.data@.len() as int),
    //@body impl/Link/crossing_index for_iter=1 loops=1 iter_model=data
    //@+ loop 0 header
    //@| for (j, x) in self.data.iter().enumerate()
    //@+ sig
    //@| fn crossing_index(&self, i: usize) -> usize
    //@+ pre-raw
    //@| let i = i0;
    //@+ after-let-raw i
    //@| let ghost i_in = i;
    //@+ loop 0
    //@| invariant __it0.es@ == self.data@, 0 <= __it0.pos@ <= __it0.es@.len(), i + nunres(self.data@, __it0.pos@) == i_in, i_in == i0, self.data@.len() == self.data.len(),
    //@| ensures __it0.pos@ == __it0.es@.len(),
    //@| decreases __it0.es@.len() - __it0.pos@,
    //@+ loop 0 begin
    //@| assert(j as int == __it0.pos@ - 1 && *x == self.data@[j as int]);
    //@| if unres(*x) && i == 0 { lemma_nunres_mono(self.data@, j as int + 1, self.data@.len() as int); }

    pub fn crossing_at(&self, i: usize) -> (r: &Crossing)
//@if B
        requires i < nunres(self.data@, self.data@.len() as int),
//@endif
        ensures exists|j: int| 0 <= j < self.data@.len() && unres(self.data@[j]) && nunres(self.data@, j) == i && *r == self.data@[j],
    //@body impl/Link/crossing_at

    /// ASSUMED shape (`&mut self.data[self.crossing_index(i)]`): a mutable borrow of the i-th actual crossing
    //@expect pub fn crossing_at_mut(&mut self, i: usize) -> &mut Crossing { let j = self.crossing_index(i); &mut self.data[j] }
    #[verifier::external_body] pub fn crossing_at_mut(&mut self, i: usize) -> (r: &mut Crossing)
//@if B
        requires i < nunres(old(self).data@, old(self).data@.len() as int),
//@endif
        ensures exists|j: int| 0 <= j < old(self).data@.len() && unres(old(self).data@[j]) && nunres(old(self).data@, j) == i
            && *r == old(self).data@[j] && final(self).data@ == old(self).data@.update(j, *final(r)),
    { unimplemented!() }

    pub fn resolved_at(&self, i: usize, r: Bit) -> (l: Link)
//@if B
        requires i < nunres(self.data@, self.data@.len() as int),
//@endif
        ensures exists|j: int| 0 <= j < self.data@.len() && unres(self.data@[j]) && nunres(self.data@, j) == i && l.data@ == self.data@.update(j, res(self.data@[j], r)),
    //@body impl/Link/resolved_at

    /// the vertex of the cube of resolutions named by the state s
    pub fn resolved_by(&self, s: &State) -> (l: Link)
//@if B
        requires s.bits@.len() == nunres(self.data@, self.data@.len() as int),
//@endif
        ensures rel(l.data@, self.data@, s.bits@, s.bits@.len() as int), s.bits@.len() <= nunres(self.data@, self.data@.len() as int),
    //@body impl/Link/resolved_by for_iter=1 loops=1
    //@+ loop 0 header
    //@| for r in s.iter()
    //@+ loop 0
    //@| invariant __it0.es@ == s.bits@, 0 <= __it0.pos@ <= __it0.es@.len(),
    //@|     rel(l.data@, self.data@, s.bits@, __it0.pos@), __it0.pos@ <= nunres(self.data@, self.data@.len() as int),
//@if B
    //@|     s.bits@.len() == nunres(self.data@, self.data@.len() as int),
//@endif
    //@| ensures __it0.pos@ == __it0.es@.len(),
    //@| decreases __it0.es@.len() - __it0.pos@,
    //@+ loop 0 before
    //@| assert forall|j: int| 0 <= j < self.data@.len() implies nunres(self.data@, j) >= 0 by { lemma_nunres_bounds(self.data@, j); }
    //@| lemma_nunres_bounds(self.data@, self.data@.len() as int);
    //@+ loop 0 begin-raw
    //@| let ghost l0 = l.data@;
    //@+ loop 0 begin
    //@| lemma_rel_count(l0, self.data@, s.bits@, __it0.pos@ - 1, self.data@.len() as int);
    //@+ loop 0 end
    //@| let d = self.data@; let k = __it0.pos@ - 1;
    //@| let j0 = choose|j: int| 0 <= j < l0.len() && unres(l0[j]) && nunres(l0, j) == 0 && l.data@ == l0.update(j, res(l0[j], r));
    //@| lemma_rel_count(l0, d, s.bits@, k, j0);
    //@| lemma_nunres_bounds(d, j0);
    //@| assert(l0[j0] == (if unres(d[j0]) && nunres(d, j0) < k { res(d[j0], s.bits@[nunres(d, j0)]) } else { d[j0] }));
    //@| assert(nunres(d, j0) == k);
    //@| lemma_nunres_mono(d, j0 + 1, d.len() as int);
    //@| assert forall|j: int| 0 <= j < d.len() implies #[trigger] l.data@[j] == (if unres(d[j]) && nunres(d, j) < k + 1 { res(d[j], s.bits@[nunres(d, j)]) } else { d[j] }) by {
    //@|     assert(l0[j] == (if unres(d[j]) && nunres(d, j) < k { res(d[j], s.bits@[nunres(d, j)]) } else { d[j] }));
    //@|     if j != j0 && unres(d[j]) && nunres(d, j) == k { if j < j0 { lemma_nunres_mono(d, j + 1, j0); } else { lemma_nunres_mono(d, j0 + 1, j); } }
    //@| }

    /// the other end of the strand leaving crossing c_index through slot e_index
    pub fn pass_edge(&self, c_index: usize, e_index: usize) -> (r: Option<(usize, usize)>)
        requires c_index < self.data@.len(), e_index < 4,
        ensures match r {
            Some((i, j)) => occ(self.data@, c_index as int, e_index as int, i as int, j as int)
                && forall|i2: int, j2: int| (i2 < i || (i2 == i && j2 < j)) ==> !occ(self.data@, c_index as int, e_index as int, i2, j2),
            None => forall|i2: int, j2: int| !occ(self.data@, c_index as int, e_index as int, i2, j2),
        },
    //@body impl/Link/pass_edge for_iter=1 loops=2 iter_model=data,edges
    //@+ loop 0 header
    //@| for (i, c) in self.data.iter().enumerate()
    //@+ loop 1 header
    //@| for (j, f) in c.edges().iter().enumerate()
    //@+ loop 0
    //@| invariant __it0.es@ == self.data@, 0 <= __it0.pos@ <= __it0.es@.len(), c_index < self.data@.len(), e_index < 4, *e == self.data@[c_index as int].edges@[e_index as int], self.data@.len() == self.data.len(),
    //@|     forall|i2: int, j2: int| i2 < __it0.pos@ ==> !occ(self.data@, c_index as int, e_index as int, i2, j2),
    //@| ensures __it0.pos@ == __it0.es@.len(),
    //@| decreases __it0.es@.len() - __it0.pos@,
    //@+ loop 1
    //@| invariant __it1.es@ == c.edges@, 0 <= __it1.pos@ <= 4, *c == self.data@[i as int], i == __it0.pos@ - 1, 0 <= i < self.data@.len(),
    //@|     __it0.es@ == self.data@, 0 <= __it0.pos@ <= __it0.es@.len(), c_index < self.data@.len(), e_index < 4, *e == self.data@[c_index as int].edges@[e_index as int],
    //@|     forall|i2: int, j2: int| i2 < i ==> !occ(self.data@, c_index as int, e_index as int, i2, j2),
    //@|     forall|j2: int| j2 < __it1.pos@ ==> !occ(self.data@, c_index as int, e_index as int, i as int, j2),
    //@| ensures __it1.pos@ == 4,
    //@| decreases 4 - __it1.pos@,
}

} // verus!
fn main() {}
