// Contract overlay for the plain LLL driver (yui-matrix/src/dense/lll.rs: LLLCalc::{process, iterate}, LLLData::{reduce, add_row_to,
// lovasz_ok, next, back}), property C10, clause "the result is reduced".
// What is proved: on the integral Gram-Schmidt tables the code itself maintains (det[j] = d_j, lambda[a, j] = d_j * mu[a, j]), when
// `process` returns EVERY row is size-reduced -- lambda[a, j] is reduced modulo det[j] for all j < a (for Z: 2|lambda| <= det, i.e.
// |mu| <= 1/2) -- and the Lovasz test holds for every consecutive pair.  The argument is the order of the reductions: reduce(i, k) only
// disturbs lambda[k, j] for j <= i, so walking i downwards finishes the row; rows below the step are never touched; a swap only touches
// rows >= k-1 and det[k-1].
// What is NOT proved here: that the tables are the Gram-Schmidt data of the current basis (orthogonalize, the update formulas of swap),
// termination, B = P.A (unit lll_prims).  `red`, `rdivr`, `lov_val` are uninterpreted; DivRound's contract is decided under C15.
use vstd::prelude::*;
verus! {
//@include prelude/rt.rs
//@include prelude/er.rs
//@source yui-matrix/src/dense/lll.rs

pub type Row = usize;
pub type Col = usize;

/// x is reduced modulo d: the remainder class div_round leaves (|x| <= |d|/2 in Z; norm-Euclidean in Z[i], Z[w]) -- UNINTERPRETED
pub uninterp spec fn red(x: int, d: int) -> bool;
pub uninterp spec fn rdivr(a: int, d: int) -> int;
/// values of LLLRing::{alpha, norm, as_int} -- UNINTERPRETED (as_int's carrier i128 is only a name for Self::Int)
pub uninterp spec fn alpha_p() -> int;
pub uninterp spec fn alpha_q() -> int;
pub uninterp spec fn rnv(a: int) -> int;
pub uninterp spec fn asint(a: int) -> Option<i128>;
impl ER {
    /// DivRound::div_round (C15, units int_div_round / qint): the remainder a - round(a/d) d is reduced modulo d; does not return for d = 0 -- ASSUMED
    #[verifier::external_body] pub fn div_round(&self, d: &ER) -> (q: ER)
        ensures q.v() == rdivr(self.v(), d.v()), red(rsub(self.v(), rmul(q.v(), d.v())), d.v()) { unimplemented!() }
    #[verifier::external_body] pub fn alpha() -> (r: (ER, ER)) ensures r.0.v() == alpha_p(), r.1.v() == alpha_q() { unimplemented!() }
    #[verifier::external_body] pub fn norm(&self) -> (r: ER) ensures r.v() == rnv(self.v()) { unimplemented!() }
    #[verifier::external_body] pub fn as_int(&self) -> (r: Option<i128>) ensures r == asint(self.v()) { unimplemented!() }
}

/// `>=` on LLLRing::Int (written as a helper by the operator rule)
pub fn ge_(a: &i128, b: &i128) -> (r: bool) ensures r == (*a >= *b) { *a >= *b }

/// dense matrix by its entries (ASSUMED: Mat's Index/IndexMut and `+=` on an entry)
pub struct Mat { pub e: Ghost<Map<(int, int), int>>, pub sh: Ghost<(int, int)> }
pub open spec fn at(m: Mat, i: int, j: int) -> int { m.e@[(i, j)] }
impl Mat {
    #[verifier::external_body] pub fn at(&self, i: usize, j: usize) -> (r: &ER) ensures r.v() == at(*self, i as int, j as int) { unimplemented!() }
    #[verifier::external_body] pub fn add_at(&mut self, i: usize, j: usize, v: ER)
        ensures final(self).e@ == old(self).e@.insert((i as int, j as int), radd(at(*old(self), i as int, j as int), v.v())), final(self).sh == old(self).sh { unimplemented!() }
    #[verifier::external_body] pub fn nrows(&self) -> (r: usize) ensures r == self.sh@.0 { unimplemented!() }
    /// row / column operations on target, p, pinv: their values are the subject of unit lll_prims, not of this one
    #[verifier::external_body] pub fn add_row_to(&mut self, i: usize, j: usize, r: &ER) ensures final(self).sh == old(self).sh { unimplemented!() }
    #[verifier::external_body] pub fn add_col_to(&mut self, i: usize, j: usize, r: &ER) ensures final(self).sh == old(self).sh { unimplemented!() }
}

//@item struct/LLLData subst=Mat<R>:Mat,Vec<R>:Vec<ER>
//@item struct/LLLCalc subst=LLLData<R>:LLLData

pub open spec fn dv(s: LLLData, j: int) -> int { s.det@[j].v() }
pub open spec fn nr(s: LLLData) -> int { s.det@.len() as int }
/// row a of the table is size-reduced
pub open spec fn size_red(s: LLLData, a: int) -> bool { forall|j: int| 0 <= j < a ==> red(#[trigger] at(s.lambda, a, j), dv(s, j)) }
/// the value LLLData::lovasz_ok computes from d_{k-2} (1 for k = 1), d_{k-1}, d_k, lambda[k, k-1]
pub open spec fn lov_val(d0: int, d1: int, d2: int, l0: int) -> bool {
    asint(rmul(alpha_q(), radd(rmul(d0, d2), rnv(l0)))).unwrap() >= asint(rmul(alpha_p(), rmul(d1, d1))).unwrap()
}
pub open spec fn lov(s: LLLData, k: int) -> bool { lov_val(if k >= 2 { dv(s, k - 2) } else { r1() }, dv(s, k - 1), dv(s, k), at(s.lambda, k, k - 1)) }
/// rows below `n` are size-reduced and satisfy the Lovasz test
pub open spec fn reduced_upto(s: LLLData, n: int) -> bool { forall|a: int| 1 <= a < n ==> #[trigger] size_red(s, a) && lov(s, a) }
/// the rows of the tables below `n`, and det below `n`, are the same in s and s2
pub open spec fn same_below(s: LLLData, s2: LLLData, n: int) -> bool {
    &&& nr(s2) == nr(s)
    &&& forall|j: int| 0 <= j < n && j < nr(s) ==> (#[trigger] s2.det@[j]).v() == s.det@[j].v()
    &&& forall|a: int, j: int| 0 <= a < n && 0 <= j < a ==> #[trigger] at(s2.lambda, a, j) == at(s.lambda, a, j)
}
pub proof fn lemma_same_below(s: LLLData, s2: LLLData, n: int, m: int)
    requires same_below(s, s2, n), reduced_upto(s, m), m <= n, m <= nr(s)
    ensures reduced_upto(s2, m)
{
    assert forall|a: int| 1 <= a < m implies #[trigger] size_red(s2, a) && lov(s2, a) by {
        assert(size_red(s, a));
        assert(lov(s, a));
        assert forall|j: int| 0 <= j < a implies red(#[trigger] at(s2.lambda, a, j), dv(s2, j)) by { assert(red(at(s.lambda, a, j), dv(s, j))); assert(dv(s2, j) == dv(s, j)); }
        assert(at(s2.lambda, a, a - 1) == at(s.lambda, a, a - 1));
        assert(dv(s2, a) == dv(s, a)); assert(dv(s2, a - 1) == dv(s, a - 1));
        if a >= 2 { assert(dv(s2, a - 2) == dv(s, a - 2)); }
    }
}

impl LLLData {
    /// a[k] += r * a[i]: on the tables, lambda[k, i] += r d_i and lambda[k, j] += r lambda[i, j] for j < i; nothing else
    fn add_row_to(&mut self, i: usize, k: usize, r: &ER)
        requires i < nr(*old(self)),
//@if B
            i < k,
//@endif
        ensures i < k, final(self).det == old(self).det, final(self).step == old(self).step, final(self).lambda.sh == old(self).lambda.sh, final(self).target.sh == old(self).target.sh,
            forall|a: int, j: int| #[trigger] at(final(self).lambda, a, j) == (
                if a == k as int && j == i as int { radd(at(old(self).lambda, a, j), rmul(r.v(), dv(*old(self), i as int))) }
                else if a == k as int && 0 <= j < i as int { radd(at(old(self).lambda, a, j), rmul(r.v(), at(old(self).lambda, i as int, j))) }
                else { at(old(self).lambda, a, j) }),
    //@body impl/LLLData/add_row_to ring=1 index2=1 for_range=1 machine=i,j,k loops=1
    //@+ loop 0 header
    //@| for j in 0..i
    //@+ sig
    //@| fn add_row_to(&mut self, i: Row, k: Row, r: &R)
    //@+ pre-raw
    //@| let ghost s0 = *self;
    //@+ loop 0
    //@| invariant i < k, self.det == s0.det, self.step == s0.step, self.lambda.sh == s0.lambda.sh, self.target.sh == s0.target.sh, __hi0 == i, __it0 <= __hi0,
    //@|     forall|a: int, j: int| #[trigger] at(self.lambda, a, j) == (
    //@|         if a == k as int && j == i as int { radd(at(s0.lambda, a, j), rmul(r.v(), dv(s0, i as int))) }
    //@|         else if a == k as int && 0 <= j < __it0 as int { radd(at(s0.lambda, a, j), rmul(r.v(), at(s0.lambda, i as int, j))) }
    //@|         else { at(s0.lambda, a, j) }),
    //@+ loop 0 begin-raw
    //@| let ghost l1 = self.lambda;
    //@+ loop 0 end
    //@| assert forall|a: int, j2: int| #[trigger] at(self.lambda, a, j2) == (
    //@|         if a == k as int && j2 == i as int { radd(at(s0.lambda, a, j2), rmul(r.v(), dv(s0, i as int))) }
    //@|         else if a == k as int && 0 <= j2 < j + 1 { radd(at(s0.lambda, a, j2), rmul(r.v(), at(s0.lambda, i as int, j2))) }
    //@|         else { at(s0.lambda, a, j2) }) by {
    //@|     assert(at(l1, i as int, j as int) == at(s0.lambda, i as int, j as int));
    //@|     assert(at(l1, a, j2) == at(l1, a, j2));
    //@|     if !(a == k as int && j2 == j as int) { assert(at(self.lambda, a, j2) == at(l1, a, j2)); }
    //@| }

    /// size-reduce lambda[k, i]; lambda[k, j] for j > i, every other row and det are left alone
    fn reduce(&mut self, i: usize, k: usize)
        requires i < nr(*old(self)),
//@if B
            i < k,
//@endif
        ensures i < k, final(self).det == old(self).det, final(self).step == old(self).step, final(self).lambda.sh == old(self).lambda.sh, final(self).target.sh == old(self).target.sh,
            red(at(final(self).lambda, k as int, i as int), dv(*final(self), i as int)),
            forall|a: int, j: int| (a != k as int || j > i as int) ==> #[trigger] at(final(self).lambda, a, j) == at(old(self).lambda, a, j),
    //@body impl/LLLData/reduce ring=1 index2=1 machine=i,k
    //@+ sig
    //@| fn reduce(&mut self, i: Row, k: Row)
    //@+ post
    //@| let a0 = at(old(self).lambda, k as int, i as int); let d0 = dv(*old(self), i as int); let q0 = rdivr(a0, d0);
    //@| if q0 == r0() { id_mul_zero(d0); id_sub_sub(a0, r0(), r0()); }
    //@| else { id_neg_mul(q0, d0); }

    /// the Lovasz test reads d_{k-2}, d_{k-1}, d_k and lambda[k, k-1]
    fn lovasz_ok(&self, k: usize) -> (r: bool)
        requires k < nr(*self),
            // (variant A only: that as_int succeeds -- the compared values are rational integers -- is not modelled)
        ensures k > 0, r == lov(*self, k as int),
    //@body impl/LLLData/lovasz_ok ring=1 index2=1 machine=k subst=R:ER
    //@+ sig
    //@| fn lovasz_ok(&self, k: usize) -> bool

    fn next(&mut self)
        requires old(self).step < usize::MAX,
        ensures final(self).step == old(self).step + 1, final(self).det == old(self).det, final(self).lambda == old(self).lambda, final(self).target == old(self).target,
    //@body impl/LLLData/next
    fn back(&mut self)
        ensures final(self).step == (if old(self).step > 1 { (old(self).step - 1) as usize } else { old(self).step }), final(self).det == old(self).det, final(self).lambda == old(self).lambda, final(self).target == old(self).target,
    //@body impl/LLLData/back
    fn nrows(&self) -> (r: usize) ensures r == self.target.sh@.0,
    //@body impl/LLLData/nrows
    /// b[k-1] <-> b[k] with the table update: touches rows k-1, k of lambda for columns < k-1, columns k-1, k of the rows below k, lambda[k, k-1]
    /// and det[k-1].  FRAME ASSUMED here (the nalgebra column views it writes through are not modelled); its effect on B = P.A is unit lll_prims.
    #[verifier::external_body] fn swap(&mut self, k: usize)
        requires 0 < k < nr(*old(self)),
        ensures final(self).step == old(self).step, same_below(*old(self), *final(self), k - 1), final(self).target.sh == old(self).target.sh,
    { unimplemented!() }
}

impl LLLCalc {
    /// one step at k = step: either row k becomes size-reduced and passes the test (step + 1), or rows k-1, k are swapped (step - 1)
    fn iterate(&mut self)
        requires 1 <= old(self).data.step < nr(old(self).data), nr(old(self).data) <= usize::MAX - 1, reduced_upto(old(self).data, old(self).data.step as int),
        ensures 1 <= final(self).data.step <= nr(final(self).data), nr(final(self).data) == nr(old(self).data), reduced_upto(final(self).data, final(self).data.step as int),
            final(self).data.target.sh == old(self).data.target.sh,
    //@body impl/LLLCalc/iterate for_range=1 loops=1
    //@+ loop 0 header
    //@| for i in (0..k-1).rev()
    //@+ pre-raw
    //@| let ghost s0 = self.data; let ghost mut s1 = self.data;
    //@+ after-call reduce#0
    //@| s1 = self.data;
    //@| assert(same_below(s0, self.data, k as int));
    //@+ loop 0
    //@| invariant 1 <= k < nr(self.data), self.data.step == k, __lo0 == 0, __it0 <= k - 1, nr(self.data) == nr(s0), self.data.target.sh == s0.target.sh,
    //@|     same_below(s0, self.data, k as int), lov(self.data, k as int),
    //@|     forall|j: int| __it0 as int <= j < k as int ==> red(#[trigger] at(self.data.lambda, k as int, j), dv(self.data, j)),
    //@+ loop 0 begin-raw
    //@| let ghost s2 = self.data;
    //@+ loop 0 end
    //@| assert(same_below(s0, self.data, k as int)) by {
    //@|     assert forall|j: int| 0 <= j < k as int && j < nr(s0) implies (#[trigger] self.data.det@[j]).v() == s0.det@[j].v() by { assert(s2.det@[j].v() == s0.det@[j].v()); }
    //@|     assert forall|a: int, j: int| 0 <= a < k as int && 0 <= j < a implies #[trigger] at(self.data.lambda, a, j) == at(s0.lambda, a, j) by { assert(at(s2.lambda, a, j) == at(s0.lambda, a, j)); }
    //@| }
    //@| assert(lov(self.data, k as int)) by { assert(at(self.data.lambda, k as int, k - 1) == at(s2.lambda, k as int, k - 1)); }
    //@| assert forall|j: int| __it0 as int <= j < k as int implies red(#[trigger] at(self.data.lambda, k as int, j), dv(self.data, j)) by {
    //@|     if j > i as int { assert(at(self.data.lambda, k as int, j) == at(s2.lambda, k as int, j)); }
    //@| }
    //@+ after-call next#0
    //@| assert(nr(self.data) == nr(s0));
    //@| assert(reduced_upto(s0, k as int));
    //@| assert(same_below(s0, self.data, k as int));
    //@| lemma_same_below(s0, self.data, k as int, k as int);
    //@| assert(size_red(self.data, k as int));
    //@+ after-call swap#0
    //@| assert(same_below(s0, self.data, k - 1)) by {
    //@|     assert forall|j: int| 0 <= j < k - 1 && j < nr(s0) implies (#[trigger] self.data.det@[j]).v() == s0.det@[j].v() by { assert(s1.det@[j].v() == s0.det@[j].v()); }
    //@|     assert forall|a: int, j: int| 0 <= a < k - 1 && 0 <= j < a implies #[trigger] at(self.data.lambda, a, j) == at(s0.lambda, a, j) by { assert(at(s1.lambda, a, j) == at(s0.lambda, a, j)); }
    //@| }
    //@+ after-call back#0
    //@| if k > 1 { lemma_same_below(s0, self.data, k - 1, k - 1); }

    /// at exit every row is size-reduced and every consecutive pair passes the Lovasz test (on the tables the code maintains).
    /// Termination of this loop (the LLL potential argument) is NOT proved: partial correctness only.
    #[verifier::exec_allows_no_decreases_clause]
    pub fn process(&mut self)
        requires nr(old(self).data) == old(self).data.target.sh@.0, nr(old(self).data) <= usize::MAX - 1,
//@if B
            old(self).data.step == 1,
//@endif
        ensures reduced_upto(final(self).data, nr(final(self).data)), nr(final(self).data) == nr(old(self).data),
    //@body impl/LLLCalc/process loops=1
    //@+ loop 0 header
    //@| while self.data.step < m
    //@+ pre-raw
    //@| let ghost n0 = nr(self.data);
    //@+ loop 0
    //@| invariant m == n0, nr(self.data) == n0, n0 <= usize::MAX - 1, self.data.target.sh@.0 == n0, 1 <= self.data.step, self.data.step <= n0 || n0 == 0, reduced_upto(self.data, self.data.step as int),
}
} // verus!
fn main() {}
