//! vextract — mechanical extraction of function bodies from /repo into a Verus
//! contract overlay (DESIGN.md §1.2).  Every run re-reads the repository's current
//! working tree.  The only things this tool does to a body are the rewrite rules
//! R1..R10 below; each application is counted and reported.
//!
//! usage: vextract --repo /repo --verif /verif --unit units/x/contract.rs
//!                 --variant A|B --out build/x_A.rs --report build/x_A.json
//!        vextract --repo /repo --print-sig <file> <selector> [macro=...]
//!
//! exit codes: 0 ok, 3 = anchor lost / unsupported construct (driver => UNDECIDED),
//!             2 = usage / io error.

use proc_macro2::{Span, TokenStream, TokenTree};
use quote::ToTokens;
use std::cell::{Cell, RefCell};
use std::collections::BTreeMap;
use std::path::{Path, PathBuf};
use syn::punctuated::Punctuated;
use syn::spanned::Spanned;
use syn::visit::{self, Visit};
use syn::{BinOp, Block, Expr, ImplItem, Item, Signature, Stmt, Token, TraitItem, UnOp};

#[derive(Debug)]
struct Fail {
    kind: &'static str,
    msg: String,
}
fn fail<T>(kind: &'static str, msg: impl Into<String>) -> Result<T, Fail> {
    Err(Fail { kind, msg: msg.into() })
}

#[derive(Default, Debug, Clone)]
struct Directive {
    selector: String,
    opts: BTreeMap<String, String>,
    sections: BTreeMap<String, String>,
    line_no: usize,
}

struct BodyOut {
    text: String,
    sig: String,
    src_file: String,
    src_lines: (usize, usize),
    loops: usize,
    rules: BTreeMap<String, usize>,
}

// ---------------------------------------------------------------- selection

fn type_name(ty: &syn::Type) -> String {
    match ty {
        syn::Type::Reference(r) => format!("&{}", type_name(&r.elem)),
        syn::Type::Path(p) => p.path.segments.last().map(|s| s.ident.to_string()).unwrap_or_default(),
        syn::Type::Paren(p) => type_name(&p.elem),
        syn::Type::Tuple(t) if t.elems.is_empty() => "()".into(),
        _ => ty.to_token_stream().to_string(),
    }
}

fn find_in_items<'a>(items: &'a [Item], kind: &str, owner: &str, name: &str) -> Vec<(&'a Signature, &'a Block)> {
    let mut out = vec![];
    for it in items {
        match it {
            Item::Fn(f) if kind == "fn" && f.sig.ident == name => out.push((&f.sig, &*f.block)),
            Item::Impl(im) if kind == "impl" => {
                let tn = type_name(&im.self_ty);
                let tr = im.trait_.as_ref().map(|(_, p, _)| p.segments.last().unwrap().ident.to_string());
                let (want_tr, want_ty) = match owner.split_once('@') {
                    Some((a, b)) => (Some(a.to_string()), b.to_string()),
                    None => (None, owner.to_string()),
                };
                if tn != want_ty {
                    continue;
                }
                if let Some(w) = &want_tr {
                    // `Trait` matches by name; `Trait<Args>` additionally by the argument text (whitespace-insensitive)
                    let full = im.trait_.as_ref().map(|(_, p, _)| p.segments.last().unwrap().to_token_stream().to_string().split_whitespace().collect::<String>());
                    let ok = if w.contains('<') { full.as_deref() == Some(w.as_str()) } else { tr.as_deref() == Some(w.as_str()) };
                    if !ok {
                        continue;
                    }
                }
                for x in &im.items {
                    if let ImplItem::Fn(m) = x {
                        if m.sig.ident == name {
                            out.push((&m.sig, &m.block));
                        }
                    }
                }
            }
            Item::Trait(t) if kind == "trait" && t.ident == owner => {
                for x in &t.items {
                    if let TraitItem::Fn(m) = x {
                        if m.sig.ident == name {
                            if let Some(b) = &m.default {
                                out.push((&m.sig, b));
                            }
                        }
                    }
                }
            }
            Item::Mod(m) => {
                if m.ident == "tests" {
                    continue;
                }
                if let Some((_, its)) = &m.content {
                    out.extend(find_in_items(its, kind, owner, name));
                }
            }
            _ => {}
        }
    }
    out
}

fn find_nested<'a>(b: &'a Block, name: &str) -> Option<(&'a Signature, &'a Block)> {
    for s in &b.stmts {
        if let Stmt::Item(Item::Fn(f)) = s {
            if f.sig.ident == name {
                return Some((&f.sig, &*f.block));
            }
        }
    }
    None
}

fn select<'a>(file: &'a syn::File, selector: &str) -> Result<(&'a Signature, &'a Block), Fail> {
    let parts: Vec<&str> = selector.split('/').collect();
    let (kind, owner, name, rest) = match parts[0] {
        "fn" if parts.len() >= 2 => ("fn", "", parts[1], &parts[2..]),
        "impl" | "trait" if parts.len() >= 3 => (parts[0], parts[1], parts[2], &parts[3..]),
        _ => return fail("usage", format!("bad selector {selector}")),
    };
    // optional "#k" suffix on name picks the k-th match
    let (name, pick) = match name.split_once('#') {
        Some((n, k)) => (n, Some(k.parse::<usize>().unwrap_or(0))),
        None => (name, None),
    };
    let found = find_in_items(&file.items, kind, owner, name);
    let (mut sig, mut blk) = match (found.len(), pick) {
        (0, _) => return fail("anchor-lost", format!("selector {selector}: no such function in source")),
        (1, None) => found[0],
        (_, Some(k)) if k < found.len() => found[k],
        (n, _) => return fail("anchor-lost", format!("selector {selector}: ambiguous ({n} matches)")),
    };
    for inner in rest {
        match find_nested(blk, inner) {
            Some((s, b)) => {
                sig = s;
                blk = b;
            }
            None => return fail("anchor-lost", format!("selector {selector}: nested fn {inner} not found")),
        }
    }
    Ok((sig, blk))
}

// ---------------------------------------------------------------- macro instantiation (R10)

/// instantiate the first rule of `macro_rules! name` with plain `$x:frag` metavariables.
fn instantiate_macro(src: &str, file: &syn::File, spec: &str) -> Result<String, Fail> {
    let (name, args) = spec
        .split_once('(')
        .map(|(n, a)| (n, a.trim_end_matches(')')))
        .ok_or(Fail { kind: "usage", msg: format!("bad macro spec {spec}") })?;
    let args: Vec<&str> = args.split(';').map(|s| s.trim()).collect();
    fn find_macro<'a>(items: &'a [Item], name: &str) -> Option<&'a syn::ItemMacro> {
        for it in items {
            match it {
                Item::Macro(m) if m.ident.as_ref().map(|i| i == name).unwrap_or(false) => return Some(m),
                Item::Mod(m) if m.ident != "tests" => {
                    if let Some((_, its)) = &m.content {
                        if let Some(x) = find_macro(its, name) {
                            return Some(x);
                        }
                    }
                }
                _ => {}
            }
        }
        None
    }
    let m = find_macro(&file.items, name).ok_or(Fail { kind: "anchor-lost", msg: format!("macro_rules! {name} not found") })?;
    let toks: Vec<TokenTree> = m.mac.tokens.clone().into_iter().collect();
    // first rule: Group(pattern) '=' '>' Group(body)
    let (pat, body) = match (&toks.get(0), &toks.get(3)) {
        (Some(TokenTree::Group(p)), Some(TokenTree::Group(b))) => (p, b),
        _ => return fail("unsupported-construct", format!("macro {name}: unexpected rule shape")),
    };
    let mut vars = vec![];
    let pt: Vec<TokenTree> = pat.stream().into_iter().collect();
    let mut i = 0;
    while i < pt.len() {
        match &pt[i] {
            TokenTree::Punct(p) if p.as_char() == '$' => {
                match pt.get(i + 1) {
                    Some(TokenTree::Ident(id)) => vars.push(id.to_string()),
                    _ => return fail("unsupported-construct", format!("macro {name}: repetition in pattern")),
                }
                i += 4; // $ name : frag
            }
            TokenTree::Punct(p) if p.as_char() == ',' => i += 1,
            _ => return fail("unsupported-construct", format!("macro {name}: pattern not plain metavariables")),
        }
    }
    if vars.len() != args.len() {
        return fail("anchor-lost", format!("macro {name}: expects {} args, spec gives {}", vars.len(), args.len()));
    }
    // the invocation must exist in the file with these args
    let want: Vec<String> = args.iter().map(|a| a.replace(' ', "")).collect();
    fn has_invocation(items: &[Item], name: &str, want: &[String]) -> bool {
        items.iter().any(|it| match it {
            Item::Macro(m) if m.ident.is_none() && m.mac.path.is_ident(name) => {
                let s = m.mac.tokens.to_string().replace(' ', "");
                let got: Vec<&str> = s.split(',').collect();
                got.len() == want.len() && got.iter().zip(want).all(|(a, b)| a == b)
            }
            Item::Mod(m) if m.ident != "tests" => m.content.as_ref().map(|(_, its)| has_invocation(its, name, want)).unwrap_or(false),
            _ => false,
        })
    }
    if !has_invocation(&file.items, name, &want) {
        return fail("anchor-lost", format!("no invocation {name}!({}) in source", args.join(", ")));
    }
    let r = body.span().byte_range();
    let inner = &src[r.start + 1..r.end - 1];
    if inner.contains("$(") {
        return fail("unsupported-construct", format!("macro {name}: repetition in body"));
    }
    let mut text = inner.to_string();
    // longest names first so $type does not clobber $type2
    let mut order: Vec<usize> = (0..vars.len()).collect();
    order.sort_by_key(|&k| std::cmp::Reverse(vars[k].len()));
    for k in order {
        text = text.replace(&format!("${}", vars[k]), args[k]);
    }
    let start_line = body.span().start().line;
    Ok(format!("{}{}", "\n".repeat(start_line.saturating_sub(1)), text))
}

// ---------------------------------------------------------------- rewriting

struct Rw<'a> {
    src: &'a str,
    variant: &'a str,
    ring: bool,
    machine: Vec<String>,
    qnames: Vec<String>,
    qprefix: &'a str,
    index2: bool,
    index1: Vec<String>,
    boolor: bool,
    shl_total: bool,
    opmethods: bool,
    collect_via: Option<String>,
    fold_loops: bool,
    for_range: bool,
    for_iter: bool,
    vec_elem: Option<String>,
    arr_own: bool,
    iter_model: Vec<String>,
    subst: Vec<(String, String)>,
    sections: &'a BTreeMap<String, String>,
    rules: RefCell<BTreeMap<String, usize>>,
    loop_idx: Cell<usize>,
    loop_headers: RefCell<Vec<String>>,
    closure_idx: Cell<usize>,
    hoisted: RefCell<Vec<String>>,
    call_idx: RefCell<BTreeMap<String, usize>>,
    let_idx: RefCell<BTreeMap<String, usize>>,
    used_sections: RefCell<Vec<String>>,
    errors: RefCell<Vec<Fail>>,
}

type Edit = (usize, usize, String);

/// inserted proof text is tagged line by line so the driver can tell scaffolding from repository code
/// R20: Verus has no reference patterns; `&name` inside a pattern becomes `__r_name`, bound by `let name = *__r_name;`
/// at the start of the arm (what the pattern does for a `Copy` scrutinee)
fn deref_pats(pat: &str) -> (String, String) {
    let b = pat.as_bytes();
    let (mut out, mut binds, mut i) = (String::new(), String::new(), 0);
    while i < b.len() {
        if b[i] == b'&' {
            let mut j = i + 1;
            while j < b.len() && b[j] == b' ' { j += 1; }
            let st = j;
            while j < b.len() && (b[j].is_ascii_alphanumeric() || b[j] == b'_') { j += 1; }
            if j > st && !(b[st] as char).is_ascii_digit() {
                let name = &pat[st..j];
                if name != "_" && name != "mut" {
                    out.push_str(&format!("__r_{name}"));
                    binds.push_str(&format!("let {name} = *__r_{name}; "));
                    i = j;
                    continue;
                }
            }
        }
        out.push(b[i] as char);
        i += 1;
    }
    (out, binds)
}

fn mark(t: &str) -> String {
    t.lines().map(|l| format!("{} //@p", l)).collect::<Vec<_>>().join("\n")
}

fn apply_edits(src: &str, range: std::ops::Range<usize>, mut edits: Vec<Edit>) -> String {
    edits.sort_by(|a, b| (a.0, a.1).cmp(&(b.0, b.1)));
    let mut out = String::new();
    let mut pos = range.start;
    for (s, e, t) in edits {
        if s < pos {
            // overlapping edit: keep the outer (earlier) one
            continue;
        }
        out.push_str(&src[pos..s]);
        out.push_str(&t);
        pos = e;
    }
    out.push_str(&src[pos..range.end]);
    out
}

impl<'a> Rw<'a> {
    fn count(&self, rule: &str) {
        *self.rules.borrow_mut().entry(rule.to_string()).or_insert(0) += 1;
    }
    fn err(&self, kind: &'static str, msg: String) {
        self.errors.borrow_mut().push(Fail { kind, msg });
    }
    fn section(&self, name: &str) -> Option<&'a String> {
        let s = self.sections.get(name);
        if s.is_some() {
            self.used_sections.borrow_mut().push(name.to_string());
        }
        s
    }
    fn render_expr(&self, e: &Expr) -> String {
        let mut c = Collector { rw: self, edits: vec![] };
        c.visit_expr(e);
        apply_edits(self.src, e.span().byte_range(), c.edits)
    }
    fn render_tokens_as_exprs(&self, ts: &TokenStream) -> Option<Vec<String>> {
        let parser = Punctuated::<Expr, Token![,]>::parse_terminated;
        let p = syn::parse::Parser::parse2(parser, ts.clone()).ok()?;
        Some(p.iter().map(|e| self.render_expr(e)).collect())
    }
    fn is_machine(&self, e: &Expr) -> bool {
        let m = |s: String| self.machine.iter().any(|x| *x == s);
        match e {
            Expr::Lit(l) => matches!(l.lit, syn::Lit::Int(_)),
            Expr::Path(p) => p.path.get_ident().map(|i| m(i.to_string())).unwrap_or(false),
            Expr::Field(f) => match &f.member {
                syn::Member::Named(i) => m(i.to_string()),
                _ => false,
            },
            Expr::Paren(p) => self.is_machine(&p.expr),
            Expr::Group(p) => self.is_machine(&p.expr),
            Expr::Reference(p) => self.is_machine(&p.expr),
            Expr::Unary(u) => self.is_machine(&u.expr),
            Expr::Binary(b) => self.is_machine(&b.left) && self.is_machine(&b.right),
            Expr::Cast(_) => true,
            Expr::MethodCall(c) => m(c.method.to_string()),
            Expr::Index(i) => self.is_machine(&i.expr),
            _ => false,
        }
    }
    /// names at the leaves of an operand: identifiers, field names, called method / function names
    fn leaf_names(e: &Expr, out: &mut Vec<String>) {
        match e {
            Expr::Path(p) => { if let Some(s) = p.path.segments.last() { out.push(s.ident.to_string()); } }
            Expr::Field(f) => { if let syn::Member::Named(i) = &f.member { out.push(i.to_string()); } }
            Expr::Paren(p) => Self::leaf_names(&p.expr, out),
            Expr::Group(p) => Self::leaf_names(&p.expr, out),
            Expr::Reference(p) => Self::leaf_names(&p.expr, out),
            Expr::Unary(u) => Self::leaf_names(&u.expr, out),
            Expr::Binary(b) => { Self::leaf_names(&b.left, out); Self::leaf_names(&b.right, out); }
            Expr::MethodCall(c) => out.push(c.method.to_string()),
            Expr::Call(c) => Self::leaf_names(&c.func, out),
            _ => {}
        }
    }
    /// second operator family (option `q=`): operands mentioning one of these names use q-prefixed helpers
    fn fam(&self, es: &[&Expr]) -> &str {
        if self.qnames.is_empty() { return ""; }
        let mut v = vec![];
        for e in es { Self::leaf_names(e, &mut v); }
        // an entry `name:prefix` selects its own helper family; a bare `name` the default one (option qname=, "q")
        for q in &self.qnames {
            let (name, pre) = match q.split_once(':') { Some((a, b)) => (a, Some(b)), None => (q.as_str(), None) };
            if v.iter().any(|n| n == name) { return pre.unwrap_or(self.qprefix); }
        }
        ""
    }
    fn macro_name(mac: &syn::Macro) -> String {
        mac.path.segments.last().map(|s| s.ident.to_string()).unwrap_or_default()
    }
    /// replacement text for a macro invocation, or None to leave it alone.
    fn rewrite_macro(&self, mac: &syn::Macro, stmt_pos: bool) -> Option<String> {
        let name = Self::macro_name(mac);
        match name.as_str() {
            "assert" | "debug_assert" => {
                let args = self.render_tokens_as_exprs(&mac.tokens)?;
                self.count("R1");
                let f = if name == "assert" { "rt_assert" } else { "rt_debug_assert" };
                Some(format!("{}({})", f, args.first()?))
            }
            "assert_eq" | "assert_ne" | "debug_assert_eq" | "debug_assert_ne" => {
                let parser = Punctuated::<Expr, Token![,]>::parse_terminated;
                let p = syn::parse::Parser::parse2(parser, mac.tokens.clone()).ok()?;
                if p.len() < 2 {
                    return None;
                }
                self.count("R1");
                let ne = name.ends_with("_ne");
                let (l, r) = (self.render_expr(&p[0]), self.render_expr(&p[1]));
                let both_machine = self.is_machine(&p[0]) || self.is_machine(&p[1]);
                let cmp = if self.ring && !both_machine {
                    format!("{}(&({}), &({}))", if ne { "ne_" } else { "eq_" }, l, r)
                } else {
                    format!("({}) {} ({})", l, if ne { "!=" } else { "==" }, r)
                };
                let f = if name.starts_with("debug") { "rt_debug_assert" } else { "rt_assert" };
                Some(format!("{}({})", f, cmp))
            }
            "vec" => {
                // R17: `vec![a, b, ..]` -> `{ let mut __v = Vec::new(); __v.push(a); ..; __v }`  (list form only)
                if mac.tokens.to_string().contains(';') && self.render_tokens_as_exprs(&mac.tokens).is_none() {
                    // R17b: `vec![x; n]` -> `vec_from_elem_(x, n)`, the overlay's model of the repeat form (n copies of x; ASSUMED std contract)
                    let parser = Punctuated::<Expr, Token![;]>::parse_separated_nonempty;
                    if let Ok(p) = syn::parse::Parser::parse2(parser, mac.tokens.clone()) {
                        if p.len() == 2 {
                            self.count("R17");
                            return Some(format!("vec_from_elem_({}, {})", self.render_expr(&p[0]), self.render_expr(&p[1])));
                        }
                    }
                    self.err("unsupported-construct", "vec![x; n] in body".into());
                    return None;
                }
                let items = self.render_tokens_as_exprs(&mac.tokens)?;
                self.count("R17");
                if items.is_empty() {
                    // option vec_elem=<T>: the element type rustc infers from later pushes, written out (Verus's spec terms need it early)
                    Some(match &self.vec_elem { Some(t) => format!("Vec::<{t}>::new()"), None => "Vec::new()".to_string() })
                } else {
                    let pushes: Vec<String> = items.iter().map(|x| format!("__v.push({x});")).collect();
                    Some(format!("{{ let mut __v = Vec::new(); {} __v }}", pushes.join(" ")))
                }
            }
            "cartesian" if !stmt_pos => {
                // R36: `cartesian!(A, B)` (external crate `cartesian`: the nested-loop product of two iterators, A-major) -> `cartesian_(A, B)`,
                //   the overlay's model of that iterator (ASSUMED contract)
                let items = self.render_tokens_as_exprs(&mac.tokens)?;
                if items.len() != 2 { self.err("unsupported-construct", "cartesian! with other than two factors".into()); return None; }
                self.count("R36");
                Some(format!("cartesian_({}, {})", items[0], items[1]))
            }
            "panic" | "unreachable" | "todo" | "unimplemented" => {
                self.count("R2");
                Some(if stmt_pos { "rt_never()".to_string() } else { "rt_panic()".to_string() })
            }
            "debug" | "trace" | "info" | "warn" | "error" if stmt_pos => {
                self.count("R9");
                Some(String::new())
            }
            "matches" => {
                // R24: `matches!(e, PAT)` -> `(match e { PAT => true, _ => false })` (the macro's definition; no guard form)
                let text = mac.tokens.to_string();
                let ts: Vec<proc_macro2::TokenTree> = mac.tokens.clone().into_iter().collect();
                let comma = ts.iter().position(|t| matches!(t, proc_macro2::TokenTree::Punct(p) if p.as_char() == ','))?;
                let scrut: TokenStream = ts[..comma].iter().cloned().collect();
                let pat: TokenStream = ts[comma + 1..].iter().cloned().collect();
                if text.contains(" if ") { self.err("unsupported-construct", "matches! with a guard".into()); return None; }
                let e: Expr = syn::parse2(scrut).ok()?;
                self.count("R24");
                Some(format!("(match {} {{ {} => true, _ => false }})", self.render_expr(&e), pat))
            }
            _ => {
                self.err("unsupported-construct", format!("macro {}! in body", name));
                None
            }
        }
    }
}

struct Collector<'a, 'b> {
    rw: &'b Rw<'a>,
    edits: Vec<Edit>,
}

fn binop_name(op: &BinOp) -> Option<(&'static str, u8)> {
    // kind: 0 = value op, 1 = comparison (operands borrowed), 2 = assigning
    Some(match op {
        BinOp::Add(_) => ("add_", 0),
        BinOp::Sub(_) => ("sub_", 0),
        BinOp::Mul(_) => ("mul_", 0),
        BinOp::Div(_) => ("div_", 0),
        BinOp::Rem(_) => ("rem_", 0),
        BinOp::Eq(_) => ("eq_", 1),
        BinOp::Ne(_) => ("ne_", 1),
        BinOp::Lt(_) => ("lt_", 1),
        BinOp::Le(_) => ("le_", 1),
        BinOp::Gt(_) => ("gt_", 1),
        BinOp::Ge(_) => ("ge_", 1),
        BinOp::AddAssign(_) => ("add_assign_", 2),
        BinOp::SubAssign(_) => ("sub_assign_", 2),
        BinOp::MulAssign(_) => ("mul_assign_", 2),
        BinOp::DivAssign(_) => ("div_assign_", 2),
        BinOp::RemAssign(_) => ("rem_assign_", 2),
        _ => return None,
    })
}

impl<'a, 'b> Collector<'a, 'b> {
    fn record_header(&self, e: &Expr, body: &Block) {
        let a = e.span().byte_range().start;
        let b = body.brace_token.span.open().byte_range().start;
        let h: String = self.rw.src[a..b].split_whitespace().collect::<Vec<_>>().join(" ");
        self.rw.loop_headers.borrow_mut().push(h);
    }
    fn loop_anchor(&mut self, body: &Block) {
        let idx = self.rw.loop_idx.get();
        self.rw.loop_idx.set(idx + 1);
        if let Some(t) = self.rw.section(&format!("loop {idx}")) {
            let at = body.brace_token.span.open().byte_range().start;
            self.edits.push((at, at, format!("\n{}\n", mark(t))));
        }
        if let Some(t) = self.rw.section(&format!("loop {idx} begin")) {
            let at = body.brace_token.span.open().byte_range().end;
            self.edits.push((at, at, format!("\nproof {{ //@p\n{}\n}} //@p\n", mark(t))));
        }
        if let Some(t) = self.rw.section(&format!("loop {idx} end")) {
            let at = body.brace_token.span.close().byte_range().start;
            self.edits.push((at, at, format!("\nproof {{ //@p\n{}\n}} //@p\n", mark(t))));
        }
        for (k, s) in body.stmts.iter().enumerate() {
            if let Some(t) = self.rw.section(&format!("loop {idx} stmt {k}")) {
                let at = s.span().byte_range().start;
                self.edits.push((at, at, format!("proof {{ //@p\n{}\n}} //@p\n", mark(t))));
            }
        }
    }
}

impl<'a, 'b, 'ast> Visit<'ast> for Collector<'a, 'b> {
    fn visit_item(&mut self, _i: &'ast Item) {
        // nested items (inner fns) are not part of this body's executable text; they are
        // extracted on their own.  Drop them from the spliced body (`use` declarations stay).
        if matches!(_i, Item::Use(_)) {
            return;
        }
        let r = _i.span().byte_range();
        self.edits.push((r.start, r.end, String::new()));
    }

    fn visit_block(&mut self, b: &'ast syn::Block) {
        // R33 (sections "guard G acquire" / "guard G release"): a lock guard `let [mut] G = L.write().unwrap();` (or `.read()`) becomes
        //   `let __lk_G = L; let mut G = <acquire>;` (the protected value, held by value, as Verus's own lock API does), and the guard's
        //   drop -- implicit in Rust at every exit of the enclosing block -- is made explicit: `<release>` is inserted before each
        //   `continue` / `break` / `return` that leaves the block after the let, and at the block's end if it can fall through.
        for (k, st) in b.stmts.iter().enumerate() {
            if let Stmt::Local(l) = st {
                if let (syn::Pat::Ident(pi), Some(init)) = (&l.pat, &l.init) {
                    let g = pi.ident.to_string();
                    if let (Some(acq), Some(rel)) = (self.rw.section(&format!("guard {g} acquire")), self.rw.section(&format!("guard {g} release"))) {
                        let lock = match &*init.expr {
                            Expr::MethodCall(u) if u.method == "unwrap" => match &*u.receiver {
                                Expr::MethodCall(w) if (w.method == "write" || w.method == "read") && w.args.is_empty() => Some(&*w.receiver),
                                _ => None,
                            },
                            _ => None,
                        };
                        if let Some(lock) = lock {
                            let at = st.span().byte_range().start;
                            self.edits.push((at, at, format!("let __lk_{g} = {}; //@p\n", self.rw.render_expr(lock))));
                            let r = init.expr.span().byte_range();
                            self.edits.push((r.start, r.end, format!("\n{}\n", mark(acq).trim_end())));
                            self.rw.count("R33");
                            struct Exits<'x> { depth: usize, out: Vec<(usize, usize, String)>, rel: &'x str, src: &'x str }
                            impl<'x, 'y> Visit<'y> for Exits<'x> {
                                fn visit_expr(&mut self, e: &'y Expr) {
                                    match e {
                                        Expr::Closure(_) => {}
                                        Expr::Loop(_) | Expr::While(_) | Expr::ForLoop(_) => { self.depth += 1; visit::visit_expr(self, e); self.depth -= 1; }
                                        Expr::Break(_) | Expr::Continue(_) if self.depth == 0 => {
                                            let r = e.span().byte_range();
                                            self.out.push((r.start, r.end, format!("{{\n{}\n{} }}", self.rel, &self.src[r.clone()])));
                                        }
                                        Expr::Return(_) => {
                                            let r = e.span().byte_range();
                                            self.out.push((r.start, r.end, format!("{{\n{}\n{} }}", self.rel, &self.src[r.clone()])));
                                        }
                                        _ => visit::visit_expr(self, e),
                                    }
                                }
                            }
                            let relm = mark(rel);
                            let mut ex = Exits { depth: 0, out: vec![], rel: relm.trim_end(), src: self.rw.src };
                            for later in &b.stmts[k + 1..] { ex.visit_stmt(later); }
                            self.edits.extend(ex.out);
                            fn diverges(s: &Stmt) -> bool {
                                fn ediv(e: &Expr) -> bool {
                                    match e {
                                        Expr::Break(_) | Expr::Continue(_) | Expr::Return(_) => true,
                                        Expr::If(i) => match &i.else_branch {
                                            Some((_, eb)) => i.then_branch.stmts.last().map(diverges).unwrap_or(false) && ediv(eb),
                                            None => false,
                                        },
                                        Expr::Block(bl) => bl.block.stmts.last().map(diverges).unwrap_or(false),
                                        _ => false,
                                    }
                                }
                                match s { Stmt::Expr(e, _) => ediv(e), _ => false }
                            }
                            if !b.stmts.last().map(diverges).unwrap_or(false) {
                                let end = b.span().byte_range().end - 1;
                                self.edits.push((end, end, format!("\n{}\n", relm.trim_end())));
                            }
                        }
                    }
                }
            }
        }
        visit::visit_block(self, b);
    }

    fn visit_path(&mut self, p: &'ast syn::Path) {
        // a key with `::` replaces the whole path (`Self::from` -> `Self::from_pair`: picks one overload of an overloaded name)
        let full: String = p.segments.iter().map(|s| s.ident.to_string()).collect::<Vec<_>>().join("::");
        if full.contains("::") {
            for (k, v) in &self.rw.subst {
                if *k == full {
                    let r = p.span().byte_range();
                    self.edits.push((r.start, r.end, v.clone()));
                    self.rw.count("R6");
                    return;
                }
            }
        }
        if let Some(first) = p.segments.first() {
            let id = first.ident.to_string();
            for (k, v) in &self.rw.subst {
                if *k == id {
                    let r = first.span().byte_range();
                    self.edits.push((r.start, r.end, v.clone()));
                    self.rw.count("R6");
                    // generic args on the replaced segment are dropped; visit the rest
                    for seg in p.segments.iter().skip(1) {
                        self.visit_path_segment(seg);
                    }
                    return;
                }
            }
        }
        visit::visit_path(self, p);
    }

    fn visit_stmt(&mut self, s: &'ast Stmt) {
        match s {
            Stmt::Macro(sm) => {
                if let Some(t) = self.rw.rewrite_macro(&sm.mac, true) {
                    if t.is_empty() {
                        let r = s.span().byte_range();
                        self.edits.push((r.start, r.end, String::new()));
                    } else {
                        let r = sm.mac.span().byte_range();
                        self.edits.push((r.start, r.end, t));
                    }
                }
            }
            Stmt::Expr(Expr::Assign(a), Some(_)) if matches!(&*a.left, Expr::Tuple(_)) => {
                // R4: destructuring assignment
                if let Expr::Tuple(t) = &*a.left {
                    let n = t.elems.len();
                    let names: Vec<String> = (0..n).map(|k| format!("__t{k}")).collect();
                    let mut out = format!("let ({}) = {}; ", names.join(", "), self.rw.render_expr(&a.right));
                    for (k, el) in t.elems.iter().enumerate() {
                        out.push_str(&format!("{} = {}; ", self.rw.render_expr(el), names[k]));
                    }
                    self.rw.count("R4");
                    let r = s.span().byte_range();
                    self.edits.push((r.start, r.end, out));
                }
            }
            Stmt::Expr(e, semi) if matches!(e, Expr::MethodCall(_) | Expr::Call(_)) => {
                // anchor "after-call NAME#K": proof text right after the K-th statement that is a call of NAME
                let name = match e {
                    Expr::MethodCall(c) => c.method.to_string(),
                    Expr::Call(c) => match &*c.func {
                        Expr::Path(p) => p.path.segments.last().map(|x| x.ident.to_string()).unwrap_or_default(),
                        _ => String::new(),
                    },
                    _ => String::new(),
                };
                let k = {
                    let mut m = self.rw.call_idx.borrow_mut();
                    let c = m.entry(name.clone()).or_insert(0);
                    *c += 1;
                    *c - 1
                };
                if let Some(t) = self.rw.section(&format!("after-call {name}#{k}")) {
                    let body = self.rw.render_expr(e);
                    let r = s.span().byte_range();
                    let text = if semi.is_some() {
                        format!("{};\nproof {{ //@p\n{}\n}} //@p\n", body, mark(t))
                    } else {
                        format!("{{ {};\nproof {{ //@p\n{}\n}} //@p\n}}", body, mark(t))
                    };
                    self.edits.push((r.start, r.end, text));
                } else {
                    visit::visit_stmt(self, s)
                }
            }
            Stmt::Local(l) if matches!(&l.pat, syn::Pat::Slice(_)) && l.init.is_some() => {
                // R12: `let [a, b, c] = e;` -> `let __arr = e; let (a, b, c) = (__arr[0], __arr[1], __arr[2]);`
                if let (syn::Pat::Slice(ps), Some(init)) = (&l.pat, &l.init) {
                    let names: Vec<String> = ps.elems.iter().map(|p| self.rw.src[p.span().byte_range()].to_string()).collect();
                    let rhs = self.rw.render_expr(&init.expr);
                    let idx: Vec<String> = (0..names.len()).map(|k| format!("__arr[{k}]")).collect();
                    // option arr_own=1: the elements are moved out (non-Copy) -> `let (a, b, c) = arr3_(e);` (overlay helper: the array as a tuple)
                    let text = if self.rw.arr_own { format!("let ({}) = arr{}_({});", names.join(", "), names.len(), rhs) }
                        else { format!("let __arr = {}; let ({}) = ({});", rhs, names.join(", "), idx.join(", ")) };
                    self.rw.count("R12");
                    let r = s.span().byte_range();
                    self.edits.push((r.start, r.end, text));
                }
            }
            Stmt::Local(l) => {
                // anchors "after-let NAME" / "before-let NAME": proof text next to the let that binds NAME
                struct Names(Vec<String>);
                impl<'x> Visit<'x> for Names {
                    fn visit_pat_ident(&mut self, p: &'x syn::PatIdent) {
                        self.0.push(p.ident.to_string());
                    }
                }
                let mut n = Names(vec![]);
                n.visit_pat(&l.pat);
                for name in n.0 {
                    // occurrences of `let NAME` are numbered in source order: "after-let NAME#K"
                    // ("after-let NAME" is the first one)
                    let k = {
                        let mut m = self.rw.let_idx.borrow_mut();
                        let c = m.entry(name.clone()).or_insert(0);
                        *c += 1;
                        *c - 1
                    };
                    let mut keys = vec![format!("{name}#{k}")];
                    if k == 0 {
                        keys.push(name.clone());
                    }
                    for key in keys {
                        if let Some(t) = self.rw.section(&format!("after-let-raw {key}")) {
                            let at = s.span().byte_range().end;
                            self.edits.push((at, at, format!("\n{}\n", mark(t))));
                        }
                        if let Some(t) = self.rw.section(&format!("after-let {key}")) {
                            let at = s.span().byte_range().end;
                            self.edits.push((at, at, format!("\nproof {{ //@p\n{}\n}} //@p\n", mark(t))));
                        }
                        if let Some(t) = self.rw.section(&format!("before-let {key}")) {
                            let at = s.span().byte_range().start;
                            self.edits.push((at, at, format!("proof {{ //@p\n{}\n}} //@p\n", mark(t))));
                        }
                    }
                }
                visit::visit_stmt(self, s)
            }
            _ => visit::visit_stmt(self, s),
        }
    }

    fn visit_expr(&mut self, e: &'ast Expr) {
        let rw = self.rw;
        match e {
            Expr::Macro(m) => {
                if let Some(t) = rw.rewrite_macro(&m.mac, false) {
                    let r = e.span().byte_range();
                    self.edits.push((r.start, r.end, t));
                }
            }
            Expr::MethodCall(c) if rw.opmethods && ((c.method == "neg" && c.args.is_empty()) || ((c.method == "add" || c.method == "sub" || c.method == "mul") && c.args.len() == 1 && matches!(&c.args[0], Expr::Reference(_)))) => {
                // R46 (option opmethods=1): the operator-trait methods written out as method calls on machine integers (macro-generated code:
                //   `a.add(&b)`, `a.sub(&b)`, `a.mul(&b)`, `a.neg()`) -> the operators they are (`a + b`, `a - b`, `a * b`, `-a`); on the primitive
                //   integer types `Add<&i32> for i32` etc. are defined as the operator on the dereferenced operand
                let recv = rw.render_expr(&c.receiver);
                let text = if c.method == "neg" { format!("(-({recv}))") } else {
                    let op = if c.method == "add" { "+" } else if c.method == "sub" { "-" } else { "*" };
                    let rhs = if let Expr::Reference(r) = &c.args[0] { rw.render_expr(&r.expr) } else { String::new() };
                    format!("(({recv}) {op} ({rhs}))")
                };
                rw.count("R46");
                let sp = e.span().byte_range();
                self.edits.push((sp.start, sp.end, text));
            }
            Expr::Binary(b) if rw.shl_total && matches!(b.op, BinOp::Shl(_)) => {
                // R40 (option shl_total=1): `a << n` whose amount is not bounded by an assert -> `shl_any_(a, n)`: the shifted value for n below the
                //   bit width, UNSPECIFIED otherwise (Rust panics there with overflow checks and masks the amount without them; the proof
                //   must hold for either)
                let text = format!("shl_any_({}, {})", rw.render_expr(&b.left), rw.render_expr(&b.right));
                rw.count("R40");
                let sp = e.span().byte_range();
                self.edits.push((sp.start, sp.end, text));
            }
            Expr::Binary(b) if rw.boolor && matches!(b.op, BinOp::BitOr(_)) => {
                // R15 (option boolor=1): non-short-circuit `a | b` on bool (Verus rejects `|` on bool)
                //   -> `{ let __l = a; let __r = b; __l || __r }`   (both operands still evaluated, in order)
                let text = format!("{{ let __l = {}; let __r = {}; __l || __r }}", rw.render_expr(&b.left), rw.render_expr(&b.right));
                rw.count("R15");
                let sp = e.span().byte_range();
                self.edits.push((sp.start, sp.end, text));
            }
            Expr::Assign(a) if rw.index2 && matches!(&*a.left, Expr::Index(ix) if matches!(&*ix.index, Expr::Tuple(t) if t.elems.len() == 2)) => {
                // R13: `m[(i, j)] = v` (IndexMut<(usize, usize)>) -> `m.set_at(i, j, v)`
                if let Expr::Index(ix) = &*a.left {
                    if let Expr::Tuple(t) = &*ix.index {
                        let text = format!("{}.set_at({}, {}, {})", rw.render_expr(&ix.expr), rw.render_expr(&t.elems[0]), rw.render_expr(&t.elems[1]), rw.render_expr(&a.right));
                        rw.count("R13");
                        let sp = e.span().byte_range();
                        self.edits.push((sp.start, sp.end, text));
                    }
                }
            }
            Expr::Binary(b) if rw.index2 && matches!(b.op, BinOp::AddAssign(_)) && matches!(&*b.left, Expr::Index(ix) if matches!(&*ix.index, Expr::Tuple(t) if t.elems.len() == 2)) => {
                // R13: `m[(i, j)] += v` -> `m.add_at(i, j, v)`
                if let Expr::Index(ix) = &*b.left {
                    if let Expr::Tuple(t) = &*ix.index {
                        let text = format!("{}.add_at({}, {}, {})", rw.render_expr(&ix.expr), rw.render_expr(&t.elems[0]), rw.render_expr(&t.elems[1]), rw.render_expr(&b.right));
                        rw.count("R13");
                        let sp = e.span().byte_range();
                        self.edits.push((sp.start, sp.end, text));
                    }
                }
            }
            Expr::Binary(b) if rw.ring && binop_name(&b.op).is_some() && !(rw.is_machine(&b.left) || rw.is_machine(&b.right)) => {
                let (name0, kind) = binop_name(&b.op).unwrap();
                let name = format!("{}{}", rw.fam(&[&b.left, &b.right]), name0);
                let l = rw.render_expr(&b.left);
                let r = rw.render_expr(&b.right);
                let t = match kind {
                    0 => format!("{name}({l}, {r})"),
                    1 => format!("{name}(&({l}), &({r}))"),
                    _ => format!("{name}(&mut {l}, {r})"),
                };
                rw.count("R3");
                let sp = e.span().byte_range();
                self.edits.push((sp.start, sp.end, t));
            }
            Expr::Unary(u) if rw.ring && matches!(u.op, UnOp::Neg(_)) && !rw.is_machine(&u.expr) => {
                let x = rw.render_expr(&u.expr);
                rw.count("R3");
                let sp = e.span().byte_range();
                self.edits.push((sp.start, sp.end, format!("{}neg_({x})", rw.fam(&[&u.expr]))));
            }
            Expr::MethodCall(c) if c.method == "collect" && c.args.is_empty() && !(rw.for_iter && matches!(&*c.receiver, Expr::MethodCall(m) if m.method == "filter_map" || m.method == "cloned" || (rw.collect_via.is_some() && m.method == "map" && matches!(&*m.receiver, Expr::MethodCall(mm) if mm.method == "iter")) || (m.method == "filter" && matches!(&*m.receiver, Expr::MethodCall(mm) if mm.method == "into_iter")) || (m.method == "map" && matches!(&*m.receiver, Expr::MethodCall(mm) if mm.method == "into_par_iter")))) => {
                // R8: (a..b).collect()
                let mut inner = &*c.receiver;
                while let Expr::Paren(p) = inner {
                    inner = &p.expr;
                }
                if let Expr::Range(r) = inner {
                    if let (Some(lo), Some(hi), syn::RangeLimits::HalfOpen(_)) = (&r.start, &r.end, &r.limits) {
                        let t = format!("collect_range({}, {})", rw.render_expr(lo), rw.render_expr(hi));
                        rw.count("R8");
                        let sp = e.span().byte_range();
                        self.edits.push((sp.start, sp.end, t));
                        return;
                    }
                }
                visit::visit_expr(self, e);
            }
            Expr::MethodCall(c) if rw.for_iter && c.method == "fold" && c.args.len() == 2 && matches!(&c.args[1], Expr::Closure(cl) if cl.inputs.len() == 2) => {
                // R16b (option for_iter=1): `(lo..=hi).fold(init, |a, i| B)` -> the inclusive-range loop;
                //   `E.map(|P| M).fold(init, |a, x| B)` / `E.fold(init, |a, x| B)` over an iterator ->
                //   `{ let mut it = E.into_iter(); let mut acc = init; loop { match it.next() { Some(P) => { let x = M; let a = acc; acc = B; } None => break } } acc }`
                if let Expr::Closure(cl) = &c.args[1] {
                    let idx = rw.loop_idx.get();
                    rw.loop_idx.set(idx + 1);
                    let a0 = e.span().byte_range().start;
                    let b0 = cl.span().byte_range().start;
                    rw.loop_headers.borrow_mut().push(rw.src[a0..b0].split_whitespace().collect::<Vec<_>>().join(" "));
                    let init = rw.render_expr(&c.args[0]);
                    let pa = &rw.src[cl.inputs[0].span().byte_range()];
                    let px = &rw.src[cl.inputs[1].span().byte_range()];
                    let body = rw.render_expr(&cl.body);
                    let inv = rw.section(&format!("loop {idx}")).map(|t| mark(t)).unwrap_or_default();
                    let end = rw.section(&format!("loop {idx} end")).map(|t| format!("proof {{ //@p\n{}\n}} //@p\n", mark(t))).unwrap_or_default();
                    let after = rw.section(&format!("loop {idx} after")).map(|t| format!("proof {{ //@p\n{}\n}} //@p\n", mark(t))).unwrap_or_default();
                    let before = rw.section(&format!("loop {idx} before")).map(|t| format!("proof {{ //@p\n{}\n}} //@p\n", mark(t))).unwrap_or_default();
                    let mut recv = &*c.receiver;
                    while let Expr::Paren(p) = recv { recv = &p.expr; }
                    let text = if let Expr::Range(r) = recv {
                        let (lo, hi) = (rw.render_expr(r.start.as_ref().unwrap()), rw.render_expr(r.end.as_ref().unwrap()));
                        if matches!(r.limits, syn::RangeLimits::HalfOpen(_)) {
                            format!("({{ let mut __acc{idx} = {init}; let mut __it{idx} = {lo}; let __hi{idx} = {hi};\nwhile __it{idx} < __hi{idx}\n{inv}\ndecreases __hi{idx} - __it{idx}, //@p\n{{ let {px} = __it{idx}; __it{idx} += 1; let {pa} = __acc{idx}; __acc{idx} = {body};\n{end} }}\n{after} __acc{idx} }})")
                        } else {
                            format!("({{ let mut __acc{idx} = {init}; let mut __it{idx} = {lo}; let __hi{idx} = {hi}; let mut __go{idx} = __it{idx} <= __hi{idx};\nwhile __go{idx}\n{inv}\ndecreases (if __go{idx} {{ __hi{idx} - __it{idx} + 1 }} else {{ 0 }}), //@p\n{{ let {px} = __it{idx}; if __it{idx} < __hi{idx} {{ __it{idx} += 1; }} else {{ __go{idx} = false; }} let {pa} = __acc{idx}; __acc{idx} = {body};\n{end} }}\n{after} __acc{idx} }})")
                        }
                    } else {
                        let (src_it, item_pat, item_val) = match recv {
                            Expr::MethodCall(m) if m.method == "map" && m.args.len() == 1 && matches!(&m.args[0], Expr::Closure(mc) if mc.inputs.len() == 1) => {
                                if let Expr::Closure(mc) = &m.args[0] {
                                    (rw.render_expr(&m.receiver), rw.src[mc.inputs[0].span().byte_range()].to_string(), rw.render_expr(&mc.body))
                                } else { unreachable!() }
                            }
                            other => (rw.render_expr(other), "__item".to_string(), "__item".to_string()),
                        };
                        let (item_pat, binds) = deref_pats(&item_pat);
                        format!("({{ let mut __it{idx} = ({src_it}).into_iter(); let mut __acc{idx} = {init};\n{before}loop\n{inv}\n{{ match __it{idx}.next() {{ Some({item_pat}) => {{ {binds}let {px} = {item_val}; let {pa} = __acc{idx}; __acc{idx} = {body};\n{end} }} None => {{ break; }} }} }}\n{after} __acc{idx} }})")
                    };
                    rw.count("R16");
                    let sp = e.span().byte_range();
                    self.edits.push((sp.start, sp.end, text));
                }
            }
            Expr::MethodCall(c) if rw.fold_loops && c.method == "fold" && c.args.len() == 2 && matches!(&c.args[1], Expr::Closure(cl) if cl.inputs.len() == 2) => {
                // R16 (option fold_loops=1): `V.iter().fold(init, |a, x| B)` / `V.iter().rev().fold(init, |a, x| B)` over a Vec ->
                // the index loop these adaptors perform (front to back, resp. back to front)
                let (mut recv, mut rev) = (&*c.receiver, false);
                if let Expr::MethodCall(m) = recv { if m.method == "rev" && m.args.is_empty() { rev = true; recv = &*m.receiver; } }
                let base = match recv { Expr::MethodCall(m) if m.method == "iter" && m.args.is_empty() => Some(&*m.receiver), _ => None };
                if let (Some(base), Expr::Closure(cl)) = (base, &c.args[1]) {
                    let idx = rw.loop_idx.get();
                    rw.loop_idx.set(idx + 1);
                    let a = e.span().byte_range().start;
                    let b = cl.span().byte_range().start;
                    rw.loop_headers.borrow_mut().push(rw.src[a..b].split_whitespace().collect::<Vec<_>>().join(" "));
                    let v = rw.render_expr(base);
                    let init = rw.render_expr(&c.args[0]);
                    let pa = &rw.src[cl.inputs[0].span().byte_range()];
                    let px = &rw.src[cl.inputs[1].span().byte_range()];
                    let body = rw.render_expr(&cl.body);
                    let inv = rw.section(&format!("loop {idx}")).map(|t| mark(t)).unwrap_or_default();
                    let end = rw.section(&format!("loop {idx} end")).map(|t| format!("proof {{ //@p\n{}\n}} //@p\n", mark(t))).unwrap_or_default();
                    let text = if rev {
                        format!("{{ let mut __acc{idx} = {init}; let mut __k{idx} = {v}.len();\nwhile __k{idx} > 0\n{inv}\ndecreases __k{idx}, //@p\n{{ __k{idx} -= 1; let {pa} = __acc{idx}; let {px} = &{v}[__k{idx}]; __acc{idx} = {body};\n{end} }} __acc{idx} }}")
                    } else {
                        format!("{{ let mut __acc{idx} = {init}; let __n{idx} = {v}.len(); let mut __k{idx} = 0;\nwhile __k{idx} < __n{idx}\n{inv}\ndecreases __n{idx} - __k{idx}, //@p\n{{ let {pa} = __acc{idx}; let {px} = &{v}[__k{idx}]; __k{idx} += 1; __acc{idx} = {body};\n{end} }} __acc{idx} }}")
                    };
                    rw.count("R16");
                    let sp = e.span().byte_range();
                    self.edits.push((sp.start, sp.end, text));
                } else {
                    visit::visit_expr(self, e);
                }
            }
            Expr::MethodCall(c) if c.method == "contains" && c.args.len() == 1 && matches!(&c.args[0], Expr::Reference(_)) && { let mut r = &*c.receiver; while let Expr::Paren(p) = r { r = &p.expr; } matches!(r, Expr::Range(rg) if rg.start.is_some() && rg.end.is_some() && matches!(rg.limits, syn::RangeLimits::HalfOpen(_))) } => {
                // R23: `(a..b).contains(&x)` on an integer range -> `(a <= x && x < b)` (Range::contains, by definition)
                let mut r = &*c.receiver; while let Expr::Paren(p) = r { r = &p.expr; }
                if let (Expr::Range(rg), Expr::Reference(x)) = (r, &c.args[0]) {
                    let (lo, hi, xv) = (rw.render_expr(rg.start.as_ref().unwrap()), rw.render_expr(rg.end.as_ref().unwrap()), rw.render_expr(&x.expr));
                    let text = format!("({lo} <= {xv} && {xv} < {hi})");
                    rw.count("R23");
                    let sp = e.span().byte_range();
                    self.edits.push((sp.start, sp.end, text));
                }
            }
            Expr::MethodCall(c) if !rw.iter_model.is_empty() && (c.method == "iter" || c.method == "into_iter") && c.args.is_empty() && { let mut v = vec![]; Rw::leaf_names(&c.receiver, &mut v); v.last().map(|n| rw.iter_model.contains(&format!("{n}!"))).unwrap_or(false) } => {
                // R22 (owned form, `iter_model=name!`): `f().iter()` / `f().into_iter()` on a Vec returned by value -> `viter_own_(f())`
                //   (the model iterator owns the vector, as the temporary does in the original expression)
                let text = format!("viter_own_({})", rw.render_expr(&c.receiver));
                rw.count("R22");
                let sp = e.span().byte_range();
                self.edits.push((sp.start, sp.end, text));
            }
            Expr::MethodCall(c) if !rw.iter_model.is_empty() && c.method == "iter" && c.args.is_empty() && { let mut v = vec![]; let mut r = &*c.receiver; while let Expr::Index(ix) = r { r = &ix.expr; } Rw::leaf_names(r, &mut v); v.last().map(|n| rw.iter_model.contains(n)).unwrap_or(false) } => {
                // R22 (option iter_model=<names>): `X.iter()` on a Vec / array whose last path segment is listed (also `X[i].iter()`) -> `viter_(&X)`,
                //   the overlay's iterator model of slice iteration (ghost element sequence + position; `enumerate` is a method of the model)
                // a place expression is borrowed (auto-ref of the method call); a call result is already the reference
                let amp = if matches!(&*c.receiver, Expr::MethodCall(_) | Expr::Call(_)) { "" } else { "&" };
                let text = format!("viter_({amp}{})", rw.render_expr(&c.receiver));
                rw.count("R22");
                let sp = e.span().byte_range();
                self.edits.push((sp.start, sp.end, text));
            }
            Expr::MethodCall(c) if rw.for_iter && c.method == "map" && c.args.len() == 1 && matches!(&c.args[0], Expr::Closure(_)) && { let mut r = &*c.receiver; while let Expr::Paren(p) = r { r = &p.expr; } matches!(r, Expr::Range(rg) if rg.start.is_some() && rg.end.is_some() && matches!(rg.limits, syn::RangeLimits::HalfOpen(_))) } => {
                // R27 (option for_iter=1): `(lo..hi).map(f)` passed on as an iterator -> `range_map_(lo, hi, f)`: the overlay's model of
                //   the lazy sequence f(lo), .., f(hi-1); the closure itself still needs its contract section (R11)
                let mut r = &*c.receiver; while let Expr::Paren(p) = r { r = &p.expr; }
                if let Expr::Range(rg) = r {
                    let text = format!("range_map_({}, {}, {})", rw.render_expr(rg.start.as_ref().unwrap()), rw.render_expr(rg.end.as_ref().unwrap()), rw.render_expr(&c.args[0]));
                    rw.count("R27");
                    let sp = e.span().byte_range();
                    self.edits.push((sp.start, sp.end, text));
                }
            }
            Expr::MethodCall(c) if rw.for_iter && c.method == "next" && c.args.is_empty() && matches!(&*c.receiver, Expr::MethodCall(m) if m.method == "filter" && m.args.len() == 1 && matches!(&m.args[0], Expr::Closure(cl) if cl.inputs.len() == 1) && { let mut r = &*m.receiver; while let Expr::Paren(p) = r { r = &p.expr; } matches!(r, Expr::Range(rg) if rg.start.is_some() && rg.end.is_some() && matches!(rg.limits, syn::RangeLimits::HalfOpen(_))) }) => {
                // R29 (option for_iter=1): `(lo..hi).filter(|&i| B).next()` -> the find-first loop
                //   `{ let mut k = lo; let mut found = None; while k < hi { let i = k; k += 1; if B { found = Some(i); break; } } found }`
                if let Expr::MethodCall(m) = &*c.receiver { if let Expr::Closure(cl) = &m.args[0] {
                    let mut r = &*m.receiver; while let Expr::Paren(p) = r { r = &p.expr; }
                    if let Expr::Range(rg) = r {
                        let idx = rw.loop_idx.get();
                        rw.loop_idx.set(idx + 1);
                        let a = e.span().byte_range().start;
                        let b = cl.body.span().byte_range().start;
                        rw.loop_headers.borrow_mut().push(rw.src[a..b].split_whitespace().collect::<Vec<_>>().join(" "));
                        let (lo, hi) = (rw.render_expr(rg.start.as_ref().unwrap()), rw.render_expr(rg.end.as_ref().unwrap()));
                        let pat = rw.src[cl.inputs[0].span().byte_range()].trim().trim_start_matches('&').trim().to_string();
                        let body = rw.render_expr(&cl.body);
                        let inv = rw.section(&format!("loop {idx}")).map(|t| mark(t)).unwrap_or_default();
                        let text = format!("({{ let mut __it{idx} = {lo}; let __hi{idx} = {hi}; let mut __found{idx}: Option<usize> = None;\nwhile __it{idx} < __hi{idx}\n{inv}\ndecreases __hi{idx} - __it{idx}, //@p\n{{ let {pat} = __it{idx}; __it{idx} += 1; if {body} {{ __found{idx} = Some({pat}); break; }} }} __found{idx} }})");
                        rw.count("R29");
                        let sp = e.span().byte_range();
                        self.edits.push((sp.start, sp.end, text));
                    }
                } }
            }
            Expr::MethodCall(c) if rw.for_iter && c.method == "next" && c.args.is_empty() && matches!(&*c.receiver, Expr::MethodCall(sb) if sb.method == "sorted_by" && sb.args.len() == 1 && matches!(&sb.args[0], Expr::Closure(cc) if cc.inputs.len() == 2) && matches!(&*sb.receiver, Expr::MethodCall(m) if m.method == "into_iter" && m.args.is_empty() && matches!(&*m.receiver, Expr::Path(_)))) => {
                // R31 (vector form): `V.into_iter().sorted_by(|&a, &b| C).next()` on a Vec of Copy elements -> the same selection loop over V's indices
                if let Expr::MethodCall(sb) = &*c.receiver { if let (Expr::Closure(cc), Expr::MethodCall(m)) = (&sb.args[0], &*sb.receiver) {
                    let idx = rw.loop_idx.get();
                    rw.loop_idx.set(idx + 1);
                    let a = e.span().byte_range().start;
                    let b = cc.body.span().byte_range().start;
                    rw.loop_headers.borrow_mut().push(rw.src[a..b].split_whitespace().collect::<Vec<_>>().join(" "));
                    let v = rw.render_expr(&m.receiver);
                    let p1 = rw.src[cc.inputs[0].span().byte_range()].trim().trim_start_matches('&').trim().to_string();
                    let p2 = rw.src[cc.inputs[1].span().byte_range()].trim().trim_start_matches('&').trim().to_string();
                    let cmp = rw.render_expr(&cc.body);
                    let inv = rw.section(&format!("loop {idx}")).map(|t| mark(t)).unwrap_or_default();
                    let text = format!("({{ let __v{idx} = {v}; let mut __it{idx}: usize = 0; let __hi{idx} = __v{idx}.len(); let mut __best{idx} = None;\nwhile __it{idx} < __hi{idx}\n{inv}\ndecreases __hi{idx} - __it{idx}, //@p\n{{ let __x = __v{idx}[__it{idx}]; __it{idx} += 1; __best{idx} = match __best{idx} {{ None => Some(__x), Some(__b0) => {{ let {p1} = __x; let {p2} = __b0; match {cmp} {{ core::cmp::Ordering::Less => Some(__x), _ => Some(__b0) }} }} }}; }} __best{idx} }})");
                    rw.count("R31");
                    let sp = e.span().byte_range();
                    self.edits.push((sp.start, sp.end, text));
                } }
            }
            Expr::MethodCall(c) if rw.for_iter && c.method == "next" && c.args.is_empty() && matches!(&*c.receiver, Expr::MethodCall(sb) if sb.method == "sorted_by" && sb.args.len() == 1 && matches!(&sb.args[0], Expr::Closure(cc) if cc.inputs.len() == 2) && matches!(&*sb.receiver, Expr::MethodCall(m) if m.method == "filter" && m.args.len() == 1 && matches!(&m.args[0], Expr::Closure(cl) if cl.inputs.len() == 1) && { let mut r = &*m.receiver; while let Expr::Paren(p) = r { r = &p.expr; } matches!(r, Expr::Range(rg) if rg.start.is_some() && rg.end.is_some() && matches!(rg.limits, syn::RangeLimits::HalfOpen(_))) })) => {
                // R31 (option for_iter=1): `(lo..hi).filter(|&j| B).sorted_by(|&a, &b| C).next()` -> the selection loop for the element a stable
                //   sort puts first (the first minimal one, for a comparator that is a total preorder):
                //   `{ let mut k = lo; let mut best = None; while k < hi { let j = k; k += 1; if B { best = match best { None => Some(j),
                //       Some(b0) => { let a = j; let b = b0; match C { Ordering::Less => Some(j), _ => Some(b0) } } }; } } best }`
                if let Expr::MethodCall(sb) = &*c.receiver { if let (Expr::Closure(cc), Expr::MethodCall(m)) = (&sb.args[0], &*sb.receiver) { if let Expr::Closure(cl) = &m.args[0] {
                    let mut r = &*m.receiver; while let Expr::Paren(p) = r { r = &p.expr; }
                    if let Expr::Range(rg) = r {
                        let idx = rw.loop_idx.get();
                        rw.loop_idx.set(idx + 1);
                        let a = e.span().byte_range().start;
                        let b = cl.body.span().byte_range().start;
                        rw.loop_headers.borrow_mut().push(rw.src[a..b].split_whitespace().collect::<Vec<_>>().join(" "));
                        let (lo, hi) = (rw.render_expr(rg.start.as_ref().unwrap()), rw.render_expr(rg.end.as_ref().unwrap()));
                        let pat = rw.src[cl.inputs[0].span().byte_range()].trim().trim_start_matches('&').trim().to_string();
                        let p1 = rw.src[cc.inputs[0].span().byte_range()].trim().trim_start_matches('&').trim().to_string();
                        let p2 = rw.src[cc.inputs[1].span().byte_range()].trim().trim_start_matches('&').trim().to_string();
                        let body = rw.render_expr(&cl.body);
                        let cmp = rw.render_expr(&cc.body);
                        let inv = rw.section(&format!("loop {idx}")).map(|t| mark(t)).unwrap_or_default();
                        let text = format!("({{ let mut __it{idx} = {lo}; let __hi{idx} = {hi}; let mut __best{idx}: Option<usize> = None;\nwhile __it{idx} < __hi{idx}\n{inv}\ndecreases __hi{idx} - __it{idx}, //@p\n{{ let {pat} = __it{idx}; __it{idx} += 1; if {body} {{ __best{idx} = match __best{idx} {{ None => Some({pat}), Some(__b0) => {{ let {p1} = {pat}; let {p2} = __b0; match {cmp} {{ core::cmp::Ordering::Less => Some({pat}), _ => Some(__b0) }} }} }}; }} }} __best{idx} }})");
                        rw.count("R31");
                        let sp = e.span().byte_range();
                        self.edits.push((sp.start, sp.end, text));
                    }
                } } }
            }
            Expr::MethodCall(c) if rw.for_iter && c.method == "collect" && c.args.is_empty() && matches!(&*c.receiver, Expr::MethodCall(f) if f.method == "filter" && f.args.len() == 1 && matches!(&f.args[0], Expr::Closure(cl) if cl.inputs.len() == 1) && matches!(&*f.receiver, Expr::MethodCall(m) if m.method == "into_iter" && m.args.is_empty() && matches!(&*m.receiver, Expr::Path(_)))) => {
                // R34 (option for_iter=1): `V.into_iter().filter(|P| B).collect()` on a Vec held in a variable -> the loop these adaptors perform
                //   (items in order, each tested through a reference, the kept ones moved to the output):
                //   `{ let mut src = V; let mut out = Vec::new(); loop { match vec_take_first_(&mut src) { Some(item) => { let keep = { let P = &item; B };
                //       if keep { out.push(item); } } None => break } } out }`   (a tuple pattern binds references to the item's fields)
                if let Expr::MethodCall(f) = &*c.receiver { if let (Expr::Closure(cl), Expr::MethodCall(m)) = (&f.args[0], &*f.receiver) {
                    let idx = rw.loop_idx.get();
                    rw.loop_idx.set(idx + 1);
                    let a = e.span().byte_range().start;
                    let b = cl.body.span().byte_range().start;
                    rw.loop_headers.borrow_mut().push(rw.src[a..b].split_whitespace().collect::<Vec<_>>().join(" "));
                    let v = rw.render_expr(&m.receiver);
                    let body = rw.render_expr(&cl.body);
                    let binds = match &cl.inputs[0] {
                        syn::Pat::Tuple(t) => t.elems.iter().enumerate().filter_map(|(k, p)| match p { syn::Pat::Ident(pi) => Some(format!("let {} = &__item{idx}.{k};", pi.ident)), _ => None }).collect::<Vec<_>>().join(" "),
                        other => format!("let {} = &__item{idx};", rw.src[other.span().byte_range()].trim()),
                    };
                    let inv = rw.section(&format!("loop {idx}")).map(|t| mark(t)).unwrap_or_default();
                    let end = rw.section(&format!("loop {idx} end")).map(|t| format!("proof {{ //@p\n{}\n}} //@p\n", mark(t))).unwrap_or_default();
                    let newv = match &rw.vec_elem { Some(t) => format!("Vec::<{t}>::new()"), None => "Vec::new()".to_string() };
                    let top = rw.section(&format!("loop {idx} top-raw")).map(|t| format!("{}\n", mark(t))).unwrap_or_default();
                    let after = rw.section(&format!("loop {idx} after")).map(|t| format!("proof {{ //@p\n{}\n}} //@p\n", mark(t))).unwrap_or_default();
                    let text = format!("({{ let mut __src{idx} = {v}; let mut __out{idx} = {newv};\nloop\n{inv}\n{{ {top}match vec_take_first_(&mut __src{idx}) {{ Some(__item{idx}) => {{ let __keep{idx} = {{ {binds} {body} }}; if __keep{idx} {{ __out{idx}.push(__item{idx}); }}\n{end} }} None => {{ break; }} }} }}\n{after} __out{idx} }})");
                    rw.count("R34");
                    let sp = e.span().byte_range();
                    self.edits.push((sp.start, sp.end, text));
                } }
            }
            Expr::MethodCall(c) if rw.for_iter && c.method == "filter" && c.args.len() == 1 && matches!(&c.args[0], Expr::Closure(cl) if cl.inputs.len() == 1 && matches!(&cl.inputs[0], syn::Pat::Reference(pr) if matches!(&*pr.pat, syn::Pat::Ident(_))) && matches!(&*cl.body, Expr::Binary(b) if matches!(b.op, syn::BinOp::Ne(_)) && matches!(&*b.left, Expr::Path(_)) && matches!(&*b.right, Expr::Path(_)))) => {
                // R37 (option for_iter=1): `E.filter(|&a| a != b)` (exactly this shape: the closure's parameter against a variable) ->
                //   `filter_ne_(E, b)`: the elements of E different from b, in order
                if let Expr::Closure(cl) = &c.args[0] { if let (syn::Pat::Reference(pr), Expr::Binary(b)) = (&cl.inputs[0], &*cl.body) { if let (syn::Pat::Ident(pi), Expr::Path(l), Expr::Path(r)) = (&*pr.pat, &*b.left, &*b.right) {
                    if l.path.is_ident(&pi.ident) && !r.path.is_ident(&pi.ident) {
                        let text = format!("filter_ne_({}, {})", rw.render_expr(&c.receiver), rw.src[r.span().byte_range()].trim());
                        rw.count("R37");
                        let sp = e.span().byte_range();
                        self.edits.push((sp.start, sp.end, text));
                    } else { visit::visit_expr(self, e); }
                } else { visit::visit_expr(self, e); } } else { visit::visit_expr(self, e); } }
            }
            Expr::MethodCall(c) if rw.for_iter && c.method == "collect" && c.args.is_empty() && matches!(&*c.receiver, Expr::MethodCall(mp) if mp.method == "map" && mp.args.len() == 1 && matches!(&mp.args[0], Expr::Closure(cl) if cl.inputs.len() == 1) && matches!(&*mp.receiver, Expr::MethodCall(m) if m.method == "into_par_iter" && m.args.is_empty() && matches!(&*m.receiver, Expr::Path(_)))) => {
                // R35 (option for_iter=1): `V.into_par_iter().map(|P| B).collect::<Vec<_>>()` on a Vec held in a variable, B not mutating anything ->
                //   the sequential map (rayon's indexed collect keeps the order of V; the closure is `Fn`, so the order of evaluation is immaterial):
                //   `{ let mut src = V; let mut out = Vec::new(); loop { match vec_take_first_(&mut src) { Some(item) => { let P = item; let y = B; out.push(y); } None => break } } out }`
                if let Expr::MethodCall(mp) = &*c.receiver { if let (Expr::Closure(cl), Expr::MethodCall(m)) = (&mp.args[0], &*mp.receiver) {
                    let idx = rw.loop_idx.get();
                    rw.loop_idx.set(idx + 1);
                    let a = e.span().byte_range().start;
                    let b = cl.body.span().byte_range().start;
                    rw.loop_headers.borrow_mut().push(rw.src[a..b].split_whitespace().collect::<Vec<_>>().join(" "));
                    let v = rw.render_expr(&m.receiver);
                    let body = rw.render_expr(&cl.body);
                    let pat = rw.src[cl.inputs[0].span().byte_range()].trim().to_string();
                    let inv = rw.section(&format!("loop {idx}")).map(|t| mark(t)).unwrap_or_default();
                    let top = rw.section(&format!("loop {idx} top-raw")).map(|t| format!("{}\n", mark(t))).unwrap_or_default();
                    let end = rw.section(&format!("loop {idx} end")).map(|t| format!("proof {{ //@p\n{}\n}} //@p\n", mark(t))).unwrap_or_default();
                    let after = rw.section(&format!("loop {idx} after")).map(|t| format!("proof {{ //@p\n{}\n}} //@p\n", mark(t))).unwrap_or_default();
                    let newv = match &rw.vec_elem { Some(t) => format!("Vec::<{t}>::new()"), None => "Vec::new()".to_string() };
                    let begin = rw.section(&format!("loop {idx} begin")).map(|t| format!("proof {{ //@p\n{}\n}} //@p\n", mark(t))).unwrap_or_default();
                    let text = format!("({{ let mut __src{idx} = {v}; let mut __out{idx} = {newv};\nloop\n{inv}\n{{ {top}match vec_take_first_(&mut __src{idx}) {{ Some(__item{idx}) => {{ let {pat} = __item{idx};\n{begin}let __y{idx} = {body}; __out{idx}.push(__y{idx});\n{end} }} None => {{ break; }} }} }}\n{after} __out{idx} }})");
                    rw.count("R35");
                    let sp = e.span().byte_range();
                    self.edits.push((sp.start, sp.end, text));
                } }
            }
            Expr::MethodCall(c) if rw.for_iter && c.method == "filter_map" && c.args.len() == 1
                && matches!(&*c.receiver, Expr::MethodCall(it) if it.method == "iter" && it.args.is_empty())
                && matches!(&c.args[0], Expr::Closure(cl) if cl.inputs.len() == 1 && matches!(&*cl.body, Expr::MethodCall(mp) if mp.method == "map" && mp.args.len() == 1 && matches!(&mp.args[0], Expr::Closure(c2) if c2.inputs.len() == 1))) => {
                // R42 (option for_iter=1): `E.iter().filter_map(|P| C.map(|Q| B))` (consumed by a collecting callee) -> the Vec these adaptors yield:
                //   `{ let mut out = Vec::new(); for P in E.iter() { match C { Some(Q) => out.push(B), None => {} } } out }`
                //   (filter_map keeps the Some values in order; Option::map applies the inner closure to the payload; both closures are `Fn`)
                if let (Expr::MethodCall(it), Expr::Closure(cl)) = (&*c.receiver, &c.args[0]) { if let Expr::MethodCall(mp) = &*cl.body { if let Expr::Closure(c2) = &mp.args[0] {
                    let idx = rw.loop_idx.get();
                    rw.loop_idx.set(idx + 1);
                    let a = e.span().byte_range().start;
                    let b = c2.body.span().byte_range().start;
                    rw.loop_headers.borrow_mut().push(rw.src[a..b].split_whitespace().collect::<Vec<_>>().join(" "));
                    let newv = match &rw.vec_elem { Some(t) => format!("Vec::<{t}>::new()"), None => "Vec::new()".to_string() };
                    let p1 = rw.src[cl.inputs[0].span().byte_range()].trim().to_string();
                    let p2 = rw.src[c2.inputs[0].span().byte_range()].trim().to_string();
                    let src_it = rw.render_expr(&it.receiver);
                    let cond = rw.render_expr(&mp.receiver);
                    let body = rw.render_expr(&c2.body);
                    let inv = rw.section(&format!("loop {idx}")).map(|t| mark(t)).unwrap_or_default();
                    let braw = rw.section(&format!("loop {idx} begin-raw")).map(|t| format!("{}\n", mark(t))).unwrap_or_default();
                    let begin = rw.section(&format!("loop {idx} begin")).map(|t| format!("proof {{ //@p\n{}\n}} //@p\n", mark(t))).unwrap_or_default();
                    let end = rw.section(&format!("loop {idx} end")).map(|t| format!("proof {{ //@p\n{}\n}} //@p\n", mark(t))).unwrap_or_default();
                    let after = rw.section(&format!("loop {idx} after")).map(|t| format!("proof {{ //@p\n{}\n}} //@p\n", mark(t))).unwrap_or_default();
                    let text = format!("({{ let mut __fout{idx} = {newv};\nmatch ({src_it}.iter()).into_iter() {{ mut __it{idx} => {{\nloop\n{inv}\n{{ match __it{idx}.next() {{ Some({p1}) => {{\n{braw}{begin}let __o{idx} = {cond};\nmatch __o{idx} {{ Some({p2}) => {{ let __y{idx} = {body}; __fout{idx}.push(__y{idx}); }} None => {{}} }}\n{end} }} None => {{ break; }} }} }}\n }} }}\n{after} __fout{idx} }})");
                    rw.count("R42");
                    let sp = e.span().byte_range();
                    self.edits.push((sp.start, sp.end, text));
                } } }
            }
            Expr::MethodCall(c) if rw.for_iter && c.method == "map" && c.args.len() == 1 && matches!(&c.args[0], Expr::Closure(cl) if cl.inputs.len() == 1)
                && matches!(&*c.receiver, Expr::MethodCall(it) if it.method == "into_iter" && it.args.is_empty() && matches!(&*it.receiver, Expr::Path(p) if p.path.get_ident().map(|i| rw.iter_model.contains(&format!("{i}!"))).unwrap_or(false))) => {
                // R43 (option for_iter=1, iter_model=X!): `X.into_iter().map(|P| B)` on a Vec held by value (consumed by a collecting callee) ->
                //   the Vec it yields: `{ let mut out = Vec::new(); for P in X { out.push(B) } out }`  (items in order; the closure is applied once per item)
                if let (Expr::MethodCall(it), Expr::Closure(cl)) = (&*c.receiver, &c.args[0]) {
                    let idx = rw.loop_idx.get();
                    rw.loop_idx.set(idx + 1);
                    let a = e.span().byte_range().start;
                    let b = cl.body.span().byte_range().start;
                    rw.loop_headers.borrow_mut().push(rw.src[a..b].split_whitespace().collect::<Vec<_>>().join(" "));
                    let newv = match &rw.vec_elem { Some(t) => format!("Vec::<{t}>::new()"), None => "Vec::new()".to_string() };
                    let pat = rw.src[cl.inputs[0].span().byte_range()].trim().to_string();
                    let x = rw.render_expr(&it.receiver);
                    let body = rw.render_expr(&cl.body);
                    let inv = rw.section(&format!("loop {idx}")).map(|t| mark(t)).unwrap_or_default();
                    let braw = rw.section(&format!("loop {idx} begin-raw")).map(|t| format!("{}\n", mark(t))).unwrap_or_default();
                    let begin = rw.section(&format!("loop {idx} begin")).map(|t| format!("proof {{ //@p\n{}\n}} //@p\n", mark(t))).unwrap_or_default();
                    let end = rw.section(&format!("loop {idx} end")).map(|t| format!("proof {{ //@p\n{}\n}} //@p\n", mark(t))).unwrap_or_default();
                    let after = rw.section(&format!("loop {idx} after")).map(|t| format!("proof {{ //@p\n{}\n}} //@p\n", mark(t))).unwrap_or_default();
                    let text = format!("({{ let mut __mout{idx} = {newv};\nmatch (viter_own_({x})).into_iter() {{ mut __it{idx} => {{\nloop\n{inv}\n{{ match __it{idx}.next() {{ Some({pat}) => {{\n{braw}{begin}let __y{idx} = {body}; __mout{idx}.push(__y{idx});\n{end} }} None => {{ break; }} }} }}\n }} }}\n{after} __mout{idx} }})");
                    rw.count("R43");
                    let sp = e.span().byte_range();
                    self.edits.push((sp.start, sp.end, text));
                }
            }
            Expr::MethodCall(c) if rw.for_iter && rw.collect_via.is_some() && c.method == "collect" && c.args.is_empty()
                && matches!(&*c.receiver, Expr::MethodCall(mp) if mp.method == "map" && mp.args.len() == 1 && matches!(&mp.args[0], Expr::Closure(cl) if cl.inputs.len() == 1) && matches!(&*mp.receiver, Expr::MethodCall(it) if it.method == "iter" && it.args.is_empty())) => {
                // R45 (options for_iter=1, collect_via=F): `E.iter().map(|P| B).collect()` into a user type T (FromIterator) ->
                //   `F({ let mut out = Vec::new(); for P in E.iter() { out.push(B) } out })`, where the overlay's F(v) is `T::from_iter` on the items of v
                //   (Iterator::collect is FromIterator::from_iter by definition; map yields B for each item in order)
                if let Expr::MethodCall(mp) = &*c.receiver { if let (Expr::Closure(cl), Expr::MethodCall(it)) = (&mp.args[0], &*mp.receiver) {
                    let idx = rw.loop_idx.get();
                    rw.loop_idx.set(idx + 1);
                    let a = e.span().byte_range().start;
                    let b = cl.body.span().byte_range().start;
                    rw.loop_headers.borrow_mut().push(rw.src[a..b].split_whitespace().collect::<Vec<_>>().join(" "));
                    let newv = match &rw.vec_elem { Some(t) => format!("Vec::<{t}>::new()"), None => "Vec::new()".to_string() };
                    let pat = rw.src[cl.inputs[0].span().byte_range()].trim().to_string();
                    let src_it = rw.render_expr(&it.receiver);
                    let body = rw.render_expr(&cl.body);
                    let inv = rw.section(&format!("loop {idx}")).map(|t| mark(t)).unwrap_or_default();
                    let braw = rw.section(&format!("loop {idx} begin-raw")).map(|t| format!("{}\n", mark(t))).unwrap_or_default();
                    let begin = rw.section(&format!("loop {idx} begin")).map(|t| format!("proof {{ //@p\n{}\n}} //@p\n", mark(t))).unwrap_or_default();
                    let end = rw.section(&format!("loop {idx} end")).map(|t| format!("proof {{ //@p\n{}\n}} //@p\n", mark(t))).unwrap_or_default();
                    let after = rw.section(&format!("loop {idx} after")).map(|t| format!("proof {{ //@p\n{}\n}} //@p\n", mark(t))).unwrap_or_default();
                    let via = rw.collect_via.clone().unwrap();
                    let text = format!("{via}(({{ let mut __cout{idx} = {newv};\nmatch ({src_it}.iter()).into_iter() {{ mut __it{idx} => {{\nloop\n{inv}\n{{ match __it{idx}.next() {{ Some({pat}) => {{\n{braw}{begin}let __y{idx} = {body}; __cout{idx}.push(__y{idx});\n{end} }} None => {{ break; }} }} }}\n }} }}\n{after} __cout{idx} }}))");
                    rw.count("R45");
                    let sp = e.span().byte_range();
                    self.edits.push((sp.start, sp.end, text));
                } }
            }
            Expr::MethodCall(c) if rw.for_iter && c.method == "collect" && c.args.is_empty() && matches!(&*c.receiver, Expr::MethodCall(cl) if cl.method == "cloned" && cl.args.is_empty() && matches!(&*cl.receiver, Expr::MethodCall(it) if it.method == "iter" && it.args.is_empty())) => {
                // R44 (option for_iter=1): `E.iter().cloned().collect()` -> `vec_cloned_(E)`: the Vec of clones of the elements of the slice / Vec E, in order
                if let Expr::MethodCall(cl) = &*c.receiver { if let Expr::MethodCall(it) = &*cl.receiver {
                    let text = format!("vec_cloned_({})", rw.render_expr(&it.receiver));
                    rw.count("R44");
                    let sp = e.span().byte_range();
                    self.edits.push((sp.start, sp.end, text));
                } }
            }
            Expr::MethodCall(c) if rw.for_iter && c.method == "flat_map" && c.args.len() == 1
                && matches!(&*c.receiver, Expr::Call(z) if z.args.len() == 2 && matches!(&*z.func, Expr::Path(p) if p.path.is_ident("zip")) && matches!((&z.args[0], &z.args[1]), (Expr::Array(a), Expr::Array(b)) if a.elems.len() == b.elems.len()))
                && matches!(&c.args[0], Expr::Closure(cl) if cl.inputs.len() == 1 && matches!(&*cl.body, Expr::MethodCall(mp) if mp.method == "map" && mp.args.len() == 1 && matches!(&mp.args[0], Expr::Closure(c2) if c2.inputs.len() == 1) && matches!(&*mp.receiver, Expr::MethodCall(it) if it.method == "iter" && it.args.is_empty()))) => {
                // R39 (option for_iter=1): `zip([a0, a1, ..], [b0, b1, ..]).flat_map(|P| E.iter().map(move |Q| B))` on two array literals of the same
                //   length (consumed by a collecting callee) -> the Vec these adaptors yield, one loop per pair, in order:
                //   `{ let mut out = Vec::new(); { let P = (a0, b0); for Q in E.iter() { out.push(B) } } { let P = (a1, b1); ... } ... out }`
                //   (zip pairs the arrays elementwise; flat_map concatenates the inner iterators in that order; the closures are `Fn` / move-by-copy)
                if let (Expr::Call(z), Expr::Closure(cl)) = (&*c.receiver, &c.args[0]) { if let (Expr::Array(xa), Expr::Array(xb), Expr::MethodCall(mp)) = (&z.args[0], &z.args[1], &*cl.body) { if let (Expr::Closure(c2), Expr::MethodCall(it)) = (&mp.args[0], &*mp.receiver) {
                    let idx0 = rw.loop_idx.get();
                    let newv = match &rw.vec_elem { Some(t) => format!("Vec::<{t}>::new()"), None => "Vec::new()".to_string() };
                    let p1 = rw.src[cl.inputs[0].span().byte_range()].trim().to_string();
                    let p3 = rw.src[c2.inputs[0].span().byte_range()].trim().to_string();
                    let a = e.span().byte_range().start;
                    let b = c2.body.span().byte_range().start;
                    let header = rw.src[a..b].split_whitespace().collect::<Vec<_>>().join(" ");
                    let mut text = format!("({{ let mut __zout{idx0} = {newv};\n");
                    for (ea, eb) in xa.elems.iter().zip(xb.elems.iter()) {
                        let idx = rw.loop_idx.get();
                        rw.loop_idx.set(idx + 1);
                        rw.loop_headers.borrow_mut().push(header.clone());
                        let src_it = rw.render_expr(&it.receiver);
                        let body = rw.render_expr(&c2.body);
                        let inv = rw.section(&format!("loop {idx}")).map(|t| mark(t)).unwrap_or_default();
                        let before = rw.section(&format!("loop {idx} before-raw")).map(|t| format!("{}\n", mark(t))).unwrap_or_default();
                        let begin = rw.section(&format!("loop {idx} begin")).map(|t| format!("proof {{ //@p\n{}\n}} //@p\n", mark(t))).unwrap_or_default();
                        let end = rw.section(&format!("loop {idx} end")).map(|t| format!("proof {{ //@p\n{}\n}} //@p\n", mark(t))).unwrap_or_default();
                        let after = rw.section(&format!("loop {idx} after")).map(|t| format!("proof {{ //@p\n{}\n}} //@p\n", mark(t))).unwrap_or_default();
                        let braw = rw.section(&format!("loop {idx} begin-raw")).map(|t| format!("{}\n", mark(t))).unwrap_or_default();
                        text += &format!("{{ let {p1} = ({}, {});\n{before}match ({src_it}.iter()).into_iter() {{ mut __it{idx} => {{\nloop\n{inv}\n{{ match __it{idx}.next() {{ Some({p3}) => {{\n{braw}{begin}let __y{idx} = {body}; __zout{idx0}.push(__y{idx});\n{end} }} None => {{ break; }} }} }}\n }} }}\n{after} }}\n", rw.render_expr(ea), rw.render_expr(eb));
                    }
                    text += &format!("__zout{idx0} }})");
                    rw.count("R39");
                    let sp = e.span().byte_range();
                    self.edits.push((sp.start, sp.end, text));
                } } }
            }
            Expr::MethodCall(c) if rw.for_iter && c.method == "map" && c.args.len() == 1 && matches!(&*c.receiver, Expr::Array(_)) && matches!(&c.args[0], Expr::Closure(cl) if cl.inputs.len() == 1 && matches!(&cl.inputs[0], syn::Pat::Ident(_))) => {
                // R38 (option for_iter=1): `[a, b, ..].map(|x| E)` on an array literal -> `[{ let x = a; E }, { let x = b; E }, ..]`
                //   (array::map applies the closure to the elements in order; the closure captures nothing mutably)
                if let (Expr::Array(arr), Expr::Closure(cl)) = (&*c.receiver, &c.args[0]) { if let syn::Pat::Ident(pi) = &cl.inputs[0] {
                    let body = rw.render_expr(&cl.body);
                    let items: Vec<String> = arr.elems.iter().map(|a| format!("{{ let {} = {}; {} }}", pi.ident, rw.render_expr(a), body)).collect();
                    rw.count("R38");
                    let sp = e.span().byte_range();
                    self.edits.push((sp.start, sp.end, format!("[{}]", items.join(", "))));
                } }
            }
            Expr::MethodCall(c) if rw.for_iter && c.method == "then" && c.args.len() == 1 && matches!(&c.args[0], Expr::Closure(cl) if cl.inputs.is_empty()) => {
                // R26 (option for_iter=1): `b.then(|| E)` -> `if b { Some(E) } else { None }`  (bool::then, by definition)
                if let Expr::Closure(cl) = &c.args[0] {
                    let text = format!("(if {} {{ Some({}) }} else {{ None }})", rw.render_expr(&c.receiver), rw.render_expr(&cl.body));
                    rw.count("R26");
                    let sp = e.span().byte_range();
                    self.edits.push((sp.start, sp.end, text));
                }
            }
            Expr::MethodCall(c) if rw.for_iter && c.method == "max_by" && c.args.len() == 1 && matches!(&c.args[0], Expr::Closure(cl) if cl.inputs.len() == 2) => {
                // R30 (option for_iter=1): `E.max_by(|a, b| C)` -> the fold Iterator::max_by performs (the LAST of several maximal elements wins):
                //   `{ let mut it = E.into_iter(); let mut best = None; loop { match it.next() { Some(x) => { best = match best { None => Some(x),
                //       Some(b0) => { let a = &b0; let b = &x; match C { Ordering::Greater => Some(b0), _ => Some(x) } } }; } None => break } } best }`
                if let Expr::Closure(cl) = &c.args[0] {
                    let idx = rw.loop_idx.get();
                    rw.loop_idx.set(idx + 1);
                    let a = e.span().byte_range().start;
                    let b = cl.body.span().byte_range().start;
                    rw.loop_headers.borrow_mut().push(rw.src[a..b].split_whitespace().collect::<Vec<_>>().join(" "));
                    let it = rw.render_expr(&c.receiver);
                    let p1 = rw.src[cl.inputs[0].span().byte_range()].trim().to_string();
                    let p2 = rw.src[cl.inputs[1].span().byte_range()].trim().to_string();
                    let body = rw.render_expr(&cl.body);
                    let inv = rw.section(&format!("loop {idx}")).map(|t| mark(t)).unwrap_or_default();
                    let before = rw.section(&format!("loop {idx} before")).map(|t| format!("proof {{ //@p\n{}\n}} //@p\n", mark(t))).unwrap_or_default();
                    let end = rw.section(&format!("loop {idx} end")).map(|t| format!("proof {{ //@p\n{}\n}} //@p\n", mark(t))).unwrap_or_default();
                    let after = rw.section(&format!("loop {idx} after")).map(|t| format!("proof {{ //@p\n{}\n}} //@p\n", mark(t))).unwrap_or_default();
                    let elem = rw.section(&format!("loop {idx} elem")).map(|t| format!(": Option<{}>", t.trim())).unwrap_or_default();
                    let braw = rw.section(&format!("loop {idx} begin-raw")).map(|t| format!("{}\n", mark(t))).unwrap_or_default();
                    let text = format!("({{ let mut __it{idx} = ({it}).into_iter(); let mut __best{idx}{elem} = None;\n{before}loop\n{inv}\n{{ match __it{idx}.next() {{ Some(__x{idx}) => {{ {braw}__best{idx} = match __best{idx} {{ None => Some(__x{idx}), Some(__b{idx}) => {{ let {p1} = &__b{idx}; let {p2} = &__x{idx}; match {body} {{ core::cmp::Ordering::Greater => Some(__b{idx}), _ => Some(__x{idx}) }} }} }};\n{end} }} None => {{ break; }} }} }}\n{after} __best{idx} }})");
                    rw.count("R30");
                    let sp = e.span().byte_range();
                    self.edits.push((sp.start, sp.end, text));
                }
            }
            Expr::MethodCall(c) if rw.for_iter && c.method == "min" && c.args.is_empty() && matches!(&*c.receiver, Expr::MethodCall(m) if m.method == "filter_map" && m.args.len() == 1 && matches!(&m.args[0], Expr::Closure(cl) if cl.inputs.len() == 1)) => {
                // R28 (option for_iter=1): `E.filter_map(|P| B).min()` -> the loop keeping the first minimal value (Iterator::min)
                if let Expr::MethodCall(m) = &*c.receiver { if let Expr::Closure(cl) = &m.args[0] {
                    let idx = rw.loop_idx.get();
                    rw.loop_idx.set(idx + 1);
                    let a = e.span().byte_range().start;
                    let b = cl.body.span().byte_range().start;
                    rw.loop_headers.borrow_mut().push(rw.src[a..b].split_whitespace().collect::<Vec<_>>().join(" "));
                    let it = rw.render_expr(&m.receiver);
                    let (pat, binds) = deref_pats(&rw.src[cl.inputs[0].span().byte_range()]);
                    let body = rw.render_expr(&cl.body);
                    let inv = rw.section(&format!("loop {idx}")).map(|t| mark(t)).unwrap_or_default();
                    let before = rw.section(&format!("loop {idx} before")).map(|t| format!("proof {{ //@p\n{}\n}} //@p\n", mark(t))).unwrap_or_default();
                    let end = rw.section(&format!("loop {idx} end")).map(|t| format!("proof {{ //@p\n{}\n}} //@p\n", mark(t))).unwrap_or_default();
                    let after = rw.section(&format!("loop {idx} after")).map(|t| format!("proof {{ //@p\n{}\n}} //@p\n", mark(t))).unwrap_or_default();
                    let elem = rw.section(&format!("loop {idx} elem")).map(|t| format!(": Option<{}>", t.trim())).unwrap_or_default();
                    let braw = rw.section(&format!("loop {idx} begin-raw")).map(|t| format!("{}\n", mark(t))).unwrap_or_default();
                    let text = format!("({{ let mut __it{idx} = ({it}).into_iter(); let mut __min{idx}{elem} = None;\n{before}loop\n{inv}\n{{ match __it{idx}.next() {{ Some({pat}) => {{ {binds}{braw}let __r{idx} = {body}; match __r{idx} {{ Some(__v) => {{ __min{idx} = match __min{idx} {{ None => Some(__v), Some(__m) => if __v < __m {{ Some(__v) }} else {{ Some(__m) }} }}; }} None => {{}} }}\n{end} }} None => {{ break; }} }} }}\n{after} __min{idx} }})");
                    rw.count("R28");
                    let sp = e.span().byte_range();
                    self.edits.push((sp.start, sp.end, text));
                } }
            }
            Expr::MethodCall(c) if rw.for_iter && c.method == "collect" && c.args.is_empty() && matches!(&*c.receiver, Expr::MethodCall(m) if m.method == "filter_map" && m.args.len() == 1 && matches!(&m.args[0], Expr::Closure(cl) if cl.inputs.len() == 1)) => {
                // R25 (option for_iter=1): `E.filter_map(|P| B).collect()` into a Vec -> the loop
                //   `{ let mut it = E.into_iter(); let mut out = Vec::new(); loop { match it.next() { Some(P) => { match B { Some(v) => out.push(v), None => {} } } None => break } } out }`
                if let Expr::MethodCall(m) = &*c.receiver { if let Expr::Closure(cl) = &m.args[0] {
                    let idx = rw.loop_idx.get();
                    rw.loop_idx.set(idx + 1);
                    let a = e.span().byte_range().start;
                    let b = cl.body.span().byte_range().start;
                    rw.loop_headers.borrow_mut().push(rw.src[a..b].split_whitespace().collect::<Vec<_>>().join(" "));
                    let it = rw.render_expr(&m.receiver);
                    let (pat, binds) = deref_pats(&rw.src[cl.inputs[0].span().byte_range()]);
                    let body = rw.render_expr(&cl.body);
                    let inv = rw.section(&format!("loop {idx}")).map(|t| mark(t)).unwrap_or_default();
                    let before = rw.section(&format!("loop {idx} before")).map(|t| format!("proof {{ //@p\n{}\n}} //@p\n", mark(t))).unwrap_or_default();
                    let end = rw.section(&format!("loop {idx} end")).map(|t| format!("proof {{ //@p\n{}\n}} //@p\n", mark(t))).unwrap_or_default();
                    let after = rw.section(&format!("loop {idx} after")).map(|t| format!("proof {{ //@p\n{}\n}} //@p\n", mark(t))).unwrap_or_default();
                    // optional "loop N elem": the element type of the collected Vec (rustc infers it from the use; Verus's spec terms need it early)
                    let elem = rw.section(&format!("loop {idx} elem")).map(|t| format!("::<{}>", t.trim())).unwrap_or_default();
                    let text = format!("({{ let mut __it{idx} = ({it}).into_iter(); let mut __out{idx} = Vec{elem}::new();\n{before}loop\n{inv}\n{{ match __it{idx}.next() {{ Some({pat}) => {{ {binds}match {body} {{ Some(__v) => {{ __out{idx}.push(__v); }} None => {{}} }}\n{end} }} None => {{ break; }} }} }}\n{after} __out{idx} }})");
                    rw.count("R25");
                    let sp = e.span().byte_range();
                    self.edits.push((sp.start, sp.end, text));
                } }
            }
            Expr::MethodCall(c) if rw.for_iter && c.method == "count" && c.args.is_empty() && matches!(&*c.receiver, Expr::MethodCall(m) if m.method == "filter" && m.args.len() == 1 && matches!(&m.args[0], Expr::Closure(cl) if cl.inputs.len() == 1)) => {
                // R21 (option for_iter=1): `E.filter(|P| B).count()` -> the counting loop
                //   `{ let mut it = E.into_iter(); let mut n = 0usize; loop { match it.next() { Some(x) => { let P = &x; if B { n += 1; } } None => break } } n }`
                if let Expr::MethodCall(m) = &*c.receiver { if let Expr::Closure(cl) = &m.args[0] {
                    let idx = rw.loop_idx.get();
                    rw.loop_idx.set(idx + 1);
                    let a = e.span().byte_range().start;
                    let b = cl.body.span().byte_range().start;
                    rw.loop_headers.borrow_mut().push(rw.src[a..b].split_whitespace().collect::<Vec<_>>().join(" "));
                    let it = rw.render_expr(&m.receiver);
                    let pat = &rw.src[cl.inputs[0].span().byte_range()];
                    let body = rw.render_expr(&cl.body);
                    let inv = rw.section(&format!("loop {idx}")).map(|t| mark(t)).unwrap_or_default();
                    let before = rw.section(&format!("loop {idx} before")).map(|t| format!("proof {{ //@p\n{}\n}} //@p\n", mark(t))).unwrap_or_default();
                    let end = rw.section(&format!("loop {idx} end")).map(|t| format!("proof {{ //@p\n{}\n}} //@p\n", mark(t))).unwrap_or_default();
                    let after = rw.section(&format!("loop {idx} after")).map(|t| format!("proof {{ //@p\n{}\n}} //@p\n", mark(t))).unwrap_or_default();
                    // Iterator::filter passes `&Self::Item` to the predicate; a tuple pattern binds references to the item's fields
                    let bind = match &cl.inputs[0] {
                        syn::Pat::Tuple(t) => t.elems.iter().enumerate().filter_map(|(k, p)| match p { syn::Pat::Ident(pi) => Some(format!("let {} = &__item{idx}.{k};", pi.ident)), _ => None }).collect::<Vec<_>>().join(" "),
                        _ => format!("let {pat} = &__item{idx};"),
                    };
                    let text = format!("({{ let mut __it{idx} = ({it}).into_iter(); let mut __cnt{idx} = 0usize;\n{before}loop\n{inv}\n{{ match __it{idx}.next() {{ Some(__item{idx}) => {{ {bind} if {body} {{ __cnt{idx} += 1; }}\n{end} }} None => {{ break; }} }} }}\n{after} __cnt{idx} }})");
                    rw.count("R21");
                    let sp = e.span().byte_range();
                    self.edits.push((sp.start, sp.end, text));
                } }
            }
            Expr::MethodCall(c) if rw.for_iter && c.method == "all" && c.args.len() == 1 && matches!(&c.args[0], Expr::Closure(cl) if cl.inputs.len() == 1) => {
                // R19 (option for_iter=1): `E.all(|P| B)` -> the short-circuiting loop Iterator::all performs,
                //   `{ let mut it = E.into_iter(); let mut all = true; loop { match it.next() { Some(P) => { if !(B) { all = false; break; } } None => { break; } } } all }`
                if let Expr::Closure(cl) = &c.args[0] {
                    let idx = rw.loop_idx.get();
                    rw.loop_idx.set(idx + 1);
                    let a = e.span().byte_range().start;
                    let b = cl.body.span().byte_range().start;
                    rw.loop_headers.borrow_mut().push(rw.src[a..b].split_whitespace().collect::<Vec<_>>().join(" "));
                    let it = rw.render_expr(&c.receiver);
                    let (pat, binds) = deref_pats(&rw.src[cl.inputs[0].span().byte_range()]);
                    let body = rw.render_expr(&cl.body);
                    let inv = rw.section(&format!("loop {idx}")).map(|t| mark(t)).unwrap_or_default();
                    let begin = rw.section(&format!("loop {idx} begin")).map(|t| format!("proof {{ //@p\n{}\n}} //@p\n", mark(t))).unwrap_or_default();
                    let after = rw.section(&format!("loop {idx} after")).map(|t| format!("proof {{ //@p\n{}\n}} //@p\n", mark(t))).unwrap_or_default();
                    let before = rw.section(&format!("loop {idx} before")).map(|t| format!("proof {{ //@p\n{}\n}} //@p\n", mark(t))).unwrap_or_default();
                    let text = format!("({{ let mut __it{idx} = ({it}).into_iter(); let mut __all{idx} = true;\n{before}loop\n{inv}\n{{ match __it{idx}.next() {{ Some({pat}) => {{ {binds}\n{begin} if !({body}) {{ __all{idx} = false; break; }} }} None => {{ break; }} }} }}\n{after} __all{idx} }})");
                    rw.count("R19");
                    let sp = e.span().byte_range();
                    self.edits.push((sp.start, sp.end, text));
                }
            }
            Expr::MethodCall(c) if c.method == "extend" && c.args.len() == 1 && matches!(c.args.first(), Some(Expr::Range(_))) => {
                // R8: v.extend(a .. b)
                if let Some(Expr::Range(r)) = c.args.first() {
                    if let (Some(lo), Some(hi), syn::RangeLimits::HalfOpen(_)) = (&r.start, &r.end, &r.limits) {
                        let t = format!("extend_range(&mut {}, {}, {})", rw.render_expr(&c.receiver), rw.render_expr(lo), rw.render_expr(hi));
                        rw.count("R8");
                        let sp = e.span().byte_range();
                        self.edits.push((sp.start, sp.end, t));
                        return;
                    }
                }
                visit::visit_expr(self, e);
            }
            Expr::Index(ix) if !rw.index1.is_empty() && rw.index1.contains(&rw.src[ix.expr.span().byte_range()].split_whitespace().collect::<String>()) => {
                // R13: `b[i]` on a user type implementing Index<usize> (option index1=<base text>) -> `(*b.index(i))`
                let text = format!("(*{}.index({}))", rw.render_expr(&ix.expr), rw.render_expr(&ix.index));
                rw.count("R13");
                let sp = e.span().byte_range();
                self.edits.push((sp.start, sp.end, text));
            }
            Expr::Index(ix) if rw.index2 && matches!(&*ix.index, Expr::Tuple(t) if t.elems.len() == 2) => {
                // R13: `m[(i, j)]` (Index<(usize, usize)>) -> `m.at(i, j)`
                if let Expr::Tuple(t) = &*ix.index {
                    let text = format!("{}.at({}, {})", rw.render_expr(&ix.expr), rw.render_expr(&t.elems[0]), rw.render_expr(&t.elems[1]));
                    rw.count("R13");
                    let sp = e.span().byte_range();
                    self.edits.push((sp.start, sp.end, text));
                }
            }
            Expr::While(w) if rw.for_iter && matches!(&*w.cond, Expr::Let(_)) => {
                // R32 (option for_iter=1): `while let P = E { B }` -> the desugaring the language defines,
                //   `loop { match E { P => { B } _ => { break; } } }`
                if let Expr::Let(l) = &*w.cond {
                    self.record_header(e, &w.body);
                    let idx = rw.loop_idx.get();
                    rw.loop_idx.set(idx + 1);
                    let scrut = rw.render_expr(&l.expr);
                    let (pat, binds) = deref_pats(&rw.src[l.pat.span().byte_range()]);
                    let inv = rw.section(&format!("loop {idx}")).map(|t| mark(t)).unwrap_or_default();
                    let mut c = Collector { rw, edits: vec![] };
                    for st in &w.body.stmts { c.visit_stmt(st); }
                    let br = w.body.span().byte_range();
                    let inner = apply_edits(rw.src, (br.start + 1)..(br.end - 1), c.edits);
                    let begin = rw.section(&format!("loop {idx} begin")).map(|t| format!("proof {{ //@p\n{}\n}} //@p\n", mark(t))).unwrap_or_default();
                    let end = rw.section(&format!("loop {idx} end")).map(|t| format!("proof {{ //@p\n{}\n}} //@p\n", mark(t))).unwrap_or_default();
                    let after = rw.section(&format!("loop {idx} after")).map(|t| format!("proof {{ //@p\n{}\n}} //@p\n", mark(t))).unwrap_or_default();
                    let begin = format!("{}{}", rw.section(&format!("loop {idx} begin-raw")).map(|t| format!("{}\n", mark(t))).unwrap_or_default(), begin);
                    let before = rw.section(&format!("loop {idx} before")).map(|t| format!("proof {{ //@p\n{}\n}} //@p\n", mark(t))).unwrap_or_default();
                    // "pre-raw": ghost snapshots taken at the top of each iteration, before the scrutinee is evaluated
                    let top = rw.section(&format!("loop {idx} top-raw")).map(|t| format!("{}\n", mark(t))).unwrap_or_default();
                    let text = format!("(); {{ {before}loop\n{inv}\n{{ {top}match {scrut} {{ {pat} => {{ {binds}\n{begin}{{ {inner} }}\n{end} }} _ => {{ break; }} }} }}\n{after} }}");
                    rw.count("R32");
                    let sp = e.span().byte_range();
                    self.edits.push((sp.start, sp.end, text));
                }
            }
            Expr::While(w) => {
                self.record_header(e, &w.body);
                self.loop_anchor(&w.body);
                visit::visit_expr(self, e);
            }
            Expr::ForLoop(w) if rw.for_range && matches!(&*w.pat, syn::Pat::Ident(_)) && matches!(&*w.expr, Expr::MethodCall(m) if m.method == "rev" && m.args.is_empty() && { let mut r = &*m.receiver; while let Expr::Paren(p) = r { r = &p.expr; } matches!(r, Expr::Range(rg) if rg.start.is_some() && rg.end.is_some() && matches!(rg.limits, syn::RangeLimits::HalfOpen(_))) }) => {
                // R14r (option for_range=1): `for x in (lo..hi).rev() { B }` -> the downward `while`:
                //   `{ let __lo = lo; let mut __it = hi; while __it > __lo { __it -= 1; let x = __it; B } }`   (empty when hi <= lo, as the range is)
                if let Expr::MethodCall(m) = &*w.expr {
                    let mut r = &*m.receiver; while let Expr::Paren(p) = r { r = &p.expr; }
                    if let Expr::Range(rg) = r {
                        self.record_header(e, &w.body);
                        let idx = rw.loop_idx.get();
                        rw.loop_idx.set(idx + 1);
                        let var = match &*w.pat { syn::Pat::Ident(pi) => pi.ident.to_string(), _ => format!("__x{idx}") };
                        let lo = rw.render_expr(rg.start.as_ref().unwrap());
                        let hi = rw.render_expr(rg.end.as_ref().unwrap());
                        let inv = rw.section(&format!("loop {idx}")).map(|t| mark(t)).unwrap_or_default();
                        let mut c = Collector { rw, edits: vec![] };
                        for st in &w.body.stmts { c.visit_stmt(st); }
                        let br = w.body.span().byte_range();
                        let inner = apply_edits(rw.src, (br.start + 1)..(br.end - 1), c.edits);
                        let begin = rw.section(&format!("loop {idx} begin")).map(|t| format!("proof {{ //@p\n{}\n}} //@p\n", mark(t))).unwrap_or_default();
                        let begin = format!("{}{}", rw.section(&format!("loop {idx} begin-raw")).map(|t| format!("{}\n", mark(t))).unwrap_or_default(), begin);
                        let inner = format!("{}{}", inner, rw.section(&format!("loop {idx} end")).map(|t| format!("\nproof {{ //@p\n{}\n}} //@p\n", mark(t))).unwrap_or_default());
                        let text = format!("(); {{ let __lo{idx} = {lo}; let mut __it{idx} = {hi}; if __it{idx} < __lo{idx} {{ __it{idx} = __lo{idx}; }}\nwhile __it{idx} > __lo{idx}\n{inv}\ndecreases __it{idx} - __lo{idx}, //@p\n{{ __it{idx} -= 1; let {var} = __it{idx};\n{begin}{inner} }} }}");
                        rw.count("R14");
                        let sp = e.span().byte_range();
                        self.edits.push((sp.start, sp.end, text));
                    }
                }
            }
            Expr::ForLoop(w) if rw.for_range && matches!(&*w.expr, Expr::Range(r) if r.start.is_some() && r.end.is_some()) && matches!(&*w.pat, syn::Pat::Ident(_) | syn::Pat::Wild(_)) => {
                // R14 (option for_range=1): `for x in lo..hi { B }` / `for x in lo..=hi { B }` over an integer range ->
                //   the `while` desugaring (rustc's, specialised to integer ranges; `continue` then needs no support in for-loops)
                if let Expr::Range(r) = &*w.expr {
                    self.record_header(e, &w.body);
                    let idx = rw.loop_idx.get();
                    rw.loop_idx.set(idx + 1);
                    let var = match &*w.pat { syn::Pat::Ident(pi) => pi.ident.to_string(), _ => format!("__x{idx}") };
                    let lo = rw.render_expr(r.start.as_ref().unwrap());
                    let hi = rw.render_expr(r.end.as_ref().unwrap());
                    let inv = rw.section(&format!("loop {idx}")).map(|t| mark(t)).unwrap_or_default();
                    let mut c = Collector { rw, edits: vec![] };
                    for st in &w.body.stmts { c.visit_stmt(st); }
                    let br = w.body.span().byte_range();
                    let inner = apply_edits(rw.src, (br.start + 1)..(br.end - 1), c.edits);
                    let begin = rw.section(&format!("loop {idx} begin")).map(|t| format!("proof {{ //@p\n{}\n}} //@p\n", mark(t))).unwrap_or_default();
                    let begin = format!("{}{}", rw.section(&format!("loop {idx} begin-raw")).map(|t| format!("{}\n", mark(t))).unwrap_or_default(), begin);
                    let inner = format!("{}{}", inner, rw.section(&format!("loop {idx} end")).map(|t| format!("\nproof {{ //@p\n{}\n}} //@p\n", mark(t))).unwrap_or_default());
                    let text = if matches!(r.limits, syn::RangeLimits::HalfOpen(_)) {
                        format!("(); {{ let mut __it{idx} = {lo}; let __hi{idx} = {hi};\nwhile __it{idx} < __hi{idx}\n{inv}\ndecreases __hi{idx} - __it{idx}, //@p\n{{ let {var} = __it{idx}; __it{idx} += 1;\n{begin}{inner} }} }}")
                    } else {
                        format!("(); {{ let mut __it{idx} = {lo}; let __hi{idx} = {hi}; let mut __go{idx} = __it{idx} <= __hi{idx};\nwhile __go{idx}\n{inv}\ndecreases (if __go{idx} {{ __hi{idx} - __it{idx} + 1 }} else {{ 0 }}), //@p\n{{ let {var} = __it{idx}; if __it{idx} < __hi{idx} {{ __it{idx} += 1; }} else {{ __go{idx} = false; }}\n{begin}{inner} }} }}")
                    };
                    rw.count("R14");
                    let sp = e.span().byte_range();
                    self.edits.push((sp.start, sp.end, text));
                }
            }
            Expr::ForLoop(w) if rw.for_iter && matches!(&*w.expr, Expr::MethodCall(c) if c.method == "iter_mut" && c.args.is_empty() && matches!(&*c.receiver, Expr::Path(_))) && matches!(&*w.pat, syn::Pat::Ident(_)) => {
                // R41 (option for_iter=1): `for v in X.iter_mut() { B }` on a Vec held in a variable (B does not touch X otherwise) -> the index loop
                //   `{ let mut k = 0; while k < X.len() { { let v = &mut X[k]; B } k += 1; } }`   (slice::IterMut yields &mut X[0], &mut X[1], .. in order)
                self.record_header(e, &w.body);
                let idx = rw.loop_idx.get();
                rw.loop_idx.set(idx + 1);
                if let Expr::MethodCall(c) = &*w.expr {
                    let x = rw.render_expr(&c.receiver);
                    let pat = rw.src[w.pat.span().byte_range()].trim().to_string();
                    let inv = rw.section(&format!("loop {idx}")).map(|t| mark(t)).unwrap_or_default();
                    let mut cc = Collector { rw, edits: vec![] };
                    for st in &w.body.stmts { cc.visit_stmt(st); }
                    let br = w.body.span().byte_range();
                    let inner = apply_edits(rw.src, (br.start + 1)..(br.end - 1), cc.edits);
                    let begin = rw.section(&format!("loop {idx} begin")).map(|t| format!("proof {{ //@p\n{}\n}} //@p\n", mark(t))).unwrap_or_default();
                    let begin = format!("{}{}", rw.section(&format!("loop {idx} begin-raw")).map(|t| format!("{}\n", mark(t))).unwrap_or_default(), begin);
                    let end = rw.section(&format!("loop {idx} end")).map(|t| format!("proof {{ //@p\n{}\n}} //@p\n", mark(t))).unwrap_or_default();
                    let after = rw.section(&format!("loop {idx} after")).map(|t| format!("proof {{ //@p\n{}\n}} //@p\n", mark(t))).unwrap_or_default();
                    let before = rw.section(&format!("loop {idx} before")).map(|t| format!("proof {{ //@p\n{}\n}} //@p\n", mark(t))).unwrap_or_default();
                    let text = format!("(); {{ let mut __k{idx}: usize = 0;\n{before}while __k{idx} < {x}.len()\n{inv}\n{{ {begin}{{ let {pat} = &mut {x}[__k{idx}];\n{inner} }}\n{end} __k{idx} += 1; }}\n{after} }}");
                    rw.count("R41");
                    let sp = e.span().byte_range();
                    self.edits.push((sp.start, sp.end, text));
                }
            }
            Expr::ForLoop(w) if rw.for_iter => {
                // R18 (option for_iter=1): `for P in E { B }` over a non-range iterator -> the desugaring the language defines,
                //   `{ let mut it = E.into_iter(); loop { match it.next() { Some(P) => { B } None => { break; } } } }`
                // (the overlay supplies the iterator model: into_iter / next with their contracts, and the loop contract incl. decreases)
                self.record_header(e, &w.body);
                let idx = rw.loop_idx.get();
                rw.loop_idx.set(idx + 1);
                let it = rw.render_expr(&w.expr);
                // `for P in v` over a Vec held by value, with `iter_model=v!`: the overlay's owning iterator model (as R22's owned form)
                let it = match &*w.expr { Expr::Path(p) if p.path.get_ident().map(|i| rw.iter_model.contains(&format!("{i}!"))).unwrap_or(false) => format!("viter_own_({it})"), _ => it };
                let (pat, binds) = deref_pats(&rw.src[w.pat.span().byte_range()]);
                let inv = rw.section(&format!("loop {idx}")).map(|t| mark(t)).unwrap_or_default();
                let mut c = Collector { rw, edits: vec![] };
                for st in &w.body.stmts { c.visit_stmt(st); }
                let br = w.body.span().byte_range();
                let inner = apply_edits(rw.src, (br.start + 1)..(br.end - 1), c.edits);
                let begin = rw.section(&format!("loop {idx} begin")).map(|t| format!("proof {{ //@p\n{}\n}} //@p\n", mark(t))).unwrap_or_default();
                let end = rw.section(&format!("loop {idx} end")).map(|t| format!("proof {{ //@p\n{}\n}} //@p\n", mark(t))).unwrap_or_default();
                let after = rw.section(&format!("loop {idx} after")).map(|t| format!("proof {{ //@p\n{}\n}} //@p\n", mark(t))).unwrap_or_default();
                // "begin-raw": ghost `let`s that must stay in scope for the whole iteration (not wrapped in a proof block)
                let begin = format!("{}{}", rw.section(&format!("loop {idx} begin-raw")).map(|t| format!("{}\n", mark(t))).unwrap_or_default(), begin);
                let before = rw.section(&format!("loop {idx} before")).map(|t| format!("proof {{ //@p\n{}\n}} //@p\n", mark(t))).unwrap_or_default();
                // rustc's own desugaring `match IntoIterator::into_iter(E) { mut iter => loop { .. } }`: temporaries of E live for the whole loop
                // (the leading `();` keeps the block from directly following a preceding loop body, which Verus's grammar rejects)
                let text = format!("(); {{ match ({it}).into_iter() {{ mut __it{idx} => {{\n{before}loop\n{inv}\n{{ match __it{idx}.next() {{ Some({pat}) => {{ {binds}\n{begin}{{ {inner} }}\n{end} }} None => {{ break; }} }} }}\n{after} }} }} }}");
                rw.count("R18");
                let sp = e.span().byte_range();
                self.edits.push((sp.start, sp.end, text));
            }
            Expr::ForLoop(w) => {
                self.record_header(e, &w.body);
                self.loop_anchor(&w.body);
                visit::visit_expr(self, e);
            }
            Expr::Loop(w) => {
                self.record_header(e, &w.body);
                self.loop_anchor(&w.body);
                visit::visit_expr(self, e);
            }
            Expr::Match(m) => {
                self.visit_expr(&m.expr);
                for arm in &m.arms {
                    if let (syn::Pat::Or(por), Some((_, g))) = (&arm.pat, &arm.guard) {
                        // R5: split  P1 | P2 if g => e
                        let guard = rw.render_expr(g);
                        let body = rw.render_expr(&arm.body);
                        let mut out = String::new();
                        for p in &por.cases {
                            let pr = p.span().byte_range();
                            out.push_str(&format!("{} if {} => {},\n", &rw.src[pr], guard, body));
                        }
                        rw.count("R5");
                        let sp = arm.span().byte_range();
                        self.edits.push((sp.start, sp.end, out));
                    } else {
                        self.visit_arm(arm);
                    }
                }
            }
            Expr::Closure(c) => {
                // closures are accepted only with a contract section keyed by ordinal:
                //   |args| body   ->   |args| <contract text> { body }
                let idx = rw.closure_idx.get();
                rw.closure_idx.set(idx + 1);
                match rw.section(&format!("closure {idx}")) {
                    Some(t) if matches!(c.output, syn::ReturnType::Default) => {
                        let body = rw.render_expr(&c.body);
                        let sp = c.body.span().byte_range();
                        // optional "closure N params": a single pattern parameter `|(c, a)|` becomes
                        // `|__p: T|` with `let (c, a) = __p;` at the start of the body (how rustc binds it)
                        let mut bind = String::new();
                        if let Some(pt) = rw.section(&format!("closure {idx} typed")) {
                            // "closure N typed": the parameter list with the types rustc infers written out (`|n, k|` -> `|n: usize, k: usize|`)
                            if let (Some(first), Some(last)) = (c.inputs.first(), c.inputs.last()) {
                                let names: Vec<String> = c.inputs.iter().map(|p| rw.src[p.span().byte_range()].trim().to_string()).collect();
                                let given: Vec<String> = pt.split(',').map(|x| x.split(':').next().unwrap_or("").trim().to_string()).collect();
                                if names != given { rw.err("anchor-lost", format!("closure {idx}: parameter names changed ({:?} vs {:?})", names, given)); }
                                self.edits.push((first.span().byte_range().start, last.span().byte_range().end, pt.trim().to_string()));
                            }
                        }
                        if let Some(pt) = rw.section(&format!("closure {idx} params")) {
                            if c.inputs.len() == 1 {
                                let pat = &c.inputs[0];
                                let pr = pat.span().byte_range();
                                let (dp, db) = deref_pats(&rw.src[pr.clone()]);
                                bind = format!("let {} = __p; {}", dp, db);
                                self.edits.push((pr.start, pr.end, pt.trim().to_string()));
                            }
                        }
                        // optional "closure N pre": proof steps at the start of the closure body
                        let pre = rw.section(&format!("closure {idx} pre")).map(|t| format!("proof {{ //@p\n{}\n}} //@p\n", mark(t))).unwrap_or_default();
                        self.edits.push((sp.start, sp.end, format!("{} {{ {}{}{} }}", t.trim_end(), bind, pre, body)));
                        rw.count("R11");
                        // optional "closure N hoist" (the closure captures only parameters of the function): the closure value is bound to
                        // `__clN` at the top of the body and used by that name, so that proof text can refer to it
                        if rw.section(&format!("closure {idx} hoist")).is_some() {
                            let params = match (rw.section(&format!("closure {idx} typed")), rw.section(&format!("closure {idx} params"))) {
                                (Some(pt), _) => pt.trim().to_string(),
                                (_, Some(pt)) => pt.trim().to_string(),
                                _ => c.inputs.iter().map(|p| rw.src[p.span().byte_range()].trim().to_string()).collect::<Vec<_>>().join(", "),
                            };
                            let mv = if c.capture.is_some() { "move " } else { "" };
                            rw.hoisted.borrow_mut().push(format!("let __cl{idx} = {mv}|{params}| {} {{ {}{}{} }}; //@p\n", t.trim_end(), bind, pre, body));
                            let whole = e.span().byte_range();
                            self.edits.push((whole.start, whole.end, format!("__cl{idx}")));
                        }
                    }
                    Some(t) => {
                        // closure with an explicit return type and a block body: the contract section replaces
                        // `-> T` (it must restate the type with a name:  -> (res: T) requires .. ensures ..)
                        if let syn::ReturnType::Type(arrow, ty) = &c.output {
                            let a = arrow.span().byte_range().start;
                            let b = ty.span().byte_range().end;
                            self.edits.push((a, b, t.trim_end().to_string()));
                            let body = rw.render_expr(&c.body);
                            let sp = c.body.span().byte_range();
                            self.edits.push((sp.start, sp.end, body));
                            rw.count("R11");
                        }
                    }
                    _ => rw.err("unsupported-construct", format!("closure {idx} in body without a contract section")),
                }
            }
            _ => visit::visit_expr(self, e),
        }
    }
}

fn sig_norm(s: &str) -> String {
    match syn::parse_str::<Signature>(s) {
        Ok(sig) => sig.to_token_stream().to_string(),
        Err(_) => s.split_whitespace().collect::<Vec<_>>().join(" "),
    }
}

fn extract_body(repo: &Path, source: &str, d: &Directive, variant: &str) -> Result<BodyOut, Fail> {
    let path = repo.join(source);
    let src0 = std::fs::read_to_string(&path).map_err(|e| Fail { kind: "anchor-lost", msg: format!("{}: {e}", path.display()) })?;
    let file0 = syn::parse_file(&src0).map_err(|e| Fail { kind: "anchor-lost", msg: format!("{source}: parse error {e}") })?;
    let mut rules: BTreeMap<String, usize> = BTreeMap::new();
    let (src, file);
    if let Some(spec) = d.opts.get("macro") {
        src = instantiate_macro(&src0, &file0, spec)?;
        file = syn::parse_file(&src).map_err(|e| Fail { kind: "unsupported-construct", msg: format!("macro instance does not parse: {e}") })?;
        rules.insert("R10".into(), 1);
    } else {
        src = src0;
        file = file0;
    }
    let (sig, blk) = select(&file, &d.selector)?;
    let sig_text = sig.to_token_stream().to_string();
    if let Some(want) = d.sections.get("sig") {
        if sig_norm(want) != sig_text {
            return fail("anchor-lost", format!("selector {}: signature changed\n  recorded: {}\n  found:    {}", d.selector, sig_norm(want), sig_text));
        }
    }
    let subst: Vec<(String, String)> = d
        .opts
        .get("subst")
        .map(|s| split_top(s).into_iter().filter_map(|kv| split_kv(&kv)).collect())
        .unwrap_or_default();
    let rw = Rw {
        src: &src,
        variant,
        ring: d.opts.get("ring").map(|v| v == "1").unwrap_or(false),
        machine: d.opts.get("machine").map(|s| s.split(',').map(|x| x.to_string()).collect()).unwrap_or_default(),
        qnames: d.opts.get("q").map(|s| s.split(',').map(|x| x.to_string()).collect()).unwrap_or_default(),
        qprefix: d.opts.get("qname").map(|s| s.as_str()).unwrap_or("q"),
        index2: d.opts.get("index2").map(|v| v == "1").unwrap_or(false),
        index1: d.opts.get("index1").map(|s| s.split(',').map(|x| x.to_string()).collect()).unwrap_or_default(),
        boolor: d.opts.get("boolor").map(|v| v == "1").unwrap_or(false),
        shl_total: d.opts.get("shl_total").map(|v| v == "1").unwrap_or(false),
        opmethods: d.opts.get("opmethods").map(|v| v == "1").unwrap_or(false),
        collect_via: d.opts.get("collect_via").cloned(),
        fold_loops: d.opts.get("fold_loops").map(|v| v == "1").unwrap_or(false),
        for_range: d.opts.get("for_range").map(|v| v == "1").unwrap_or(false),
        for_iter: d.opts.get("for_iter").map(|v| v == "1").unwrap_or(false),
        vec_elem: d.opts.get("vec_elem").cloned(),
        arr_own: d.opts.get("arr_own").map(|v| v == "1").unwrap_or(false),
        iter_model: d.opts.get("iter_model").map(|s| s.split(',').map(|x| x.to_string()).collect()).unwrap_or_default(),
        subst,
        sections: &d.sections,
        rules: RefCell::new(rules),
        loop_idx: Cell::new(0),
        loop_headers: RefCell::new(vec![]),
        closure_idx: Cell::new(0),
        hoisted: RefCell::new(vec![]),
        call_idx: RefCell::new(BTreeMap::new()),
        let_idx: RefCell::new(BTreeMap::new()),
        used_sections: RefCell::new(vec![]),
        errors: RefCell::new(vec![]),
    };
    let _ = rw.variant;
    let mut c = Collector { rw: &rw, edits: vec![] };
    // top-level anchors
    if let Some(t) = rw.section("pre-raw") {
        let at = blk.brace_token.span.open().byte_range().end;
        c.edits.push((at, at, format!("\n{}\n", mark(t))));
    }
    if let Some(t) = rw.section("pre") {
        let at = blk.brace_token.span.open().byte_range().end;
        c.edits.push((at, at, format!("\nproof {{ //@p\n{}\n}} //@p\n", mark(t))));
    }
    for (k, s) in blk.stmts.iter().enumerate() {
        if let Some(t) = rw.section(&format!("stmt {k}")) {
            let at = s.span().byte_range().start;
            c.edits.push((at, at, format!("proof {{ //@p\n{}\n}} //@p\n", mark(t))));
        }
    }
    let post = rw.section("post");
    let n = blk.stmts.len();
    for (k, s) in blk.stmts.iter().enumerate() {
        match (s, post) {
            (Stmt::Expr(e, None), Some(t)) if k + 1 == n => {
                let r = e.span().byte_range();
                let text = format!("let __ret = {};\nproof {{ //@p\n{}\n}} //@p\n__ret", rw.render_expr(e), mark(t));
                c.edits.push((r.start, r.end, text));
            }
            _ => c.visit_stmt(s),
        }
    }
    if let Some(t) = post {
        let tail = matches!(blk.stmts.last(), Some(Stmt::Expr(_, None)));
        if !tail {
            let at = blk.brace_token.span.close().byte_range().start;
            c.edits.push((at, at, format!("\nproof {{ //@p\n{}\n}} //@p\n", mark(t))));
        }
    }
    {
        let h = rw.hoisted.borrow();
        if !h.is_empty() {
            let at = blk.brace_token.span.open().byte_range().end;
            c.edits.push((at, at, format!("\n{}", h.join(""))));
        }
    }
    let text = apply_edits(&src, blk.span().byte_range(), c.edits);
    if let Some(f) = rw.errors.borrow_mut().pop() {
        return Err(f);
    }
    // loop-structure fingerprint: invariants are keyed by loop ordinal, so a body whose loops were added,
    // removed or changed must not be verified with the recorded invariants (=> lost anchor, never an alarm)
    {
        let headers = rw.loop_headers.borrow();
        if let Some(n) = d.opts.get("loops") {
            if n.parse::<usize>().ok() != Some(headers.len()) {
                return fail("anchor-lost", format!("selector {}: body has {} loops, overlay recorded {}", d.selector, headers.len(), n));
            }
        }
        for (k, h) in headers.iter().enumerate() {
            let key = format!("loop {k} header");
            if let Some(want) = d.sections.get(&key) {
                rw.used_sections.borrow_mut().push(key);
                let w: String = want.split_whitespace().collect::<Vec<_>>().join(" ");
                if &w != h {
                    return fail("anchor-lost", format!("selector {}: loop {} header changed\n  recorded: {}\n  found:    {}", d.selector, k, w, h));
                }
            }
        }
        let has_loop_section = d.sections.keys().any(|k| k.starts_with("loop ") && !k.ends_with(" header"));
        if has_loop_section && !d.opts.contains_key("loops") {
            return fail("usage", format!("selector {}: loop sections need a loops=N option (structure fingerprint)", d.selector));
        }
    }
    // every section must have been consumed: a loop ordinal that no longer exists is a lost anchor
    for k in d.sections.keys() {
        // (a closure contract whose closure is gone is simply unused: no obligation is lost, the body is still checked against the function's contract)
        if k.starts_with("closure ") { continue; }
        if k != "sig" && !rw.used_sections.borrow().contains(k) {
            return fail("anchor-lost", format!("selector {}: section '{}' has no anchor in the current body", d.selector, k));
        }
    }
    let loops = rw.loop_idx.get();
    if std::env::var("VX_SHOW_LOOPS").is_ok() {
        for (k, h) in rw.loop_headers.borrow().iter().enumerate() {
            eprintln!("loop {k} header: {h}");
        }
    }
    let rules = rw.rules.borrow().clone();
    Ok(BodyOut {
        text,
        sig: sig_text,
        src_file: source.to_string(),
        src_lines: (blk.span().start().line, blk.span().end().line),
        loops,
        rules,
    })
}


// ---------------------------------------------------------------- type / const items (R7)

/// `key:value` where either side may contain `::` (split at the first single colon)
fn split_kv(kv: &str) -> Option<(String, String)> {
    let b = kv.as_bytes();
    for i in 0..b.len() {
        if b[i] == b':' && (i == 0 || b[i - 1] != b':') && (i + 1 >= b.len() || b[i + 1] != b':') {
            return Some((kv[..i].to_string(), kv[i + 1..].to_string()));
        }
    }
    None
}
/// split at commas that are not inside `<...>` (so `AHashMap<X,R>:AMap,R:ER` has two entries)
fn split_top(s: &str) -> Vec<String> {
    let (mut out, mut cur, mut depth) = (vec![], String::new(), 0i32);
    for ch in s.chars() {
        match ch {
            '<' => { depth += 1; cur.push(ch); }
            '>' => { depth -= 1; cur.push(ch); }
            ',' if depth == 0 => { out.push(std::mem::take(&mut cur)); }
            _ => cur.push(ch),
        }
    }
    if !cur.is_empty() { out.push(cur); }
    out
}
fn subst_type(ty: &syn::Type, subst: &[(String, String)]) -> String {
    // token text without spaces; generic applications can be substituted as a whole ("Mat<R>:Mat")
    let mut t: String = ty.to_token_stream().to_string().split_whitespace().collect();
    let mut keys: Vec<&(String, String)> = subst.iter().collect();
    keys.sort_by_key(|(k, _)| std::cmp::Reverse(k.len()));
    for (k, v) in keys {
        // replace only whole identifiers / whole generic applications
        let mut out = String::new();
        let mut i = 0;
        let b = t.as_bytes();
        while i < t.len() {
            if t[i..].starts_with(k.as_str()) {
                let before_ok = i == 0 || !(b[i - 1].is_ascii_alphanumeric() || b[i - 1] == b'_');
                let j = i + k.len();
                let after_ok = j >= t.len() || !(b[j].is_ascii_alphanumeric() || b[j] == b'_');
                if before_ok && after_ok {
                    out.push_str(v);
                    i = j;
                    continue;
                }
            }
            out.push(b[i] as char);
            i += 1;
        }
        t = out;
    }
    t.replace(',', ", ")
}

fn extract_item(repo: &Path, source: &str, sel: &str, opts: &BTreeMap<String, String>) -> Result<(String, usize, usize), Fail> {
    let path = repo.join(source);
    let src = std::fs::read_to_string(&path).map_err(|e| Fail { kind: "anchor-lost", msg: format!("{}: {e}", path.display()) })?;
    let file = syn::parse_file(&src).map_err(|e| Fail { kind: "anchor-lost", msg: format!("{source}: parse error {e}") })?;
    let subst: Vec<(String, String)> = opts
        .get("subst")
        .map(|s| split_top(s).into_iter().filter_map(|kv| split_kv(&kv)).collect())
        .unwrap_or_default();
    let parts: Vec<&str> = sel.split('/').collect();
    fn all_items<'a>(items: &'a [Item], out: &mut Vec<&'a Item>) {
        for it in items {
            out.push(it);
            if let Item::Mod(m) = it {
                if m.ident != "tests" {
                    if let Some((_, its)) = &m.content {
                        all_items(its, out);
                    }
                }
            }
        }
    }
    let mut items = vec![];
    all_items(&file.items, &mut items);
    match parts[0] {
        "const" if parts.len() == 3 => {
            for it in &items {
                if let Item::Impl(im) = it {
                    if im.trait_.is_none() && type_name(&im.self_ty) == parts[1] {
                        for x in &im.items {
                            if let ImplItem::Const(c) = x {
                                if c.ident == parts[2] {
                                    let e = &src[c.expr.span().byte_range()];
                                    return Ok((format!("pub const {}: {} = {};", c.ident, subst_type(&c.ty, &subst), e), c.span().start().line, c.span().end().line));
                                }
                            }
                        }
                    }
                }
            }
            fail("anchor-lost", format!("item {sel} not found"))
        }
        "const" if parts.len() == 2 => {
            // module-level constant
            for it in &items {
                if let Item::Const(c) = it {
                    if c.ident == parts[1] {
                        let e = &src[c.expr.span().byte_range()];
                        return Ok((format!("pub const {}: {} = {};", c.ident, subst_type(&c.ty, &subst), e), c.span().start().line, c.span().end().line));
                    }
                }
            }
            fail("anchor-lost", format!("item {sel} not found"))
        }
        "struct" if parts.len() == 2 => {
            for it in &items {
                if let Item::Struct(st) = it {
                    if st.ident == parts[1] {
                        let mut fields = vec![];
                        match &st.fields {
                            syn::Fields::Named(n) => {
                                for f in &n.named {
                                    fields.push(format!("    pub {}: {},", f.ident.as_ref().unwrap(), subst_type(&f.ty, &subst)));
                                }
                            }
                            syn::Fields::Unnamed(u) => {
                                let fs: Vec<String> = u.unnamed.iter().map(|f| format!("pub {}", subst_type(&f.ty, &subst))).collect();
                                return Ok((format!("pub struct {}({});", st.ident, fs.join(", ")), st.span().start().line, st.span().end().line));
                            }
                            _ => return fail("unsupported-construct", format!("item {sel}: unit struct")),
                        }
                        return Ok((format!("pub struct {} {{\n{}\n}}", st.ident, fields.join("\n")), st.span().start().line, st.span().end().line));
                    }
                }
            }
            fail("anchor-lost", format!("item {sel} not found"))
        }
        "enum" if parts.len() == 2 => {
            for it in &items {
                if let Item::Enum(en) = it {
                    if en.ident == parts[1] {
                        let mut vs = vec![];
                        for v in &en.variants {
                            if !matches!(v.fields, syn::Fields::Unit) {
                                return fail("unsupported-construct", format!("item {sel}: non-unit variant"));
                            }
                            vs.push(format!("    {},", v.ident));
                        }
                        return Ok((format!("pub enum {} {{\n{}\n}}", en.ident, vs.join("\n")), en.span().start().line, en.span().end().line));
                    }
                }
            }
            fail("anchor-lost", format!("item {sel} not found"))
        }
        _ => fail("usage", format!("bad item selector {sel}")),
    }
}

// ---------------------------------------------------------------- overlay processing

fn json_str(s: &str) -> String {
    let mut o = String::from("\"");
    for ch in s.chars() {
        match ch {
            '"' => o.push_str("\\\""),
            '\\' => o.push_str("\\\\"),
            '\n' => o.push_str("\\n"),
            '\t' => o.push_str("\\t"),
            '\r' => {}
            c if (c as u32) < 0x20 => o.push_str(&format!("\\u{:04x}", c as u32)),
            c => o.push(c),
        }
    }
    o.push('"');
    o
}

fn load_lines(verif: &Path, rel: &str, variant: &str, depth: usize) -> Result<Vec<String>, Fail> {
    if depth > 8 {
        return fail("usage", "include depth");
    }
    let p = verif.join(rel);
    let text = std::fs::read_to_string(&p).map_err(|e| Fail { kind: "usage", msg: format!("{}: {e}", p.display()) })?;
    let mut out = vec![];
    let mut stack: Vec<bool> = vec![];
    for line in text.lines() {
        let t = line.trim();
        if let Some(v) = t.strip_prefix("//@if ") {
            stack.push(v.trim().split('|').any(|x| x == variant));
            continue;
        }
        if t == "//@else" {
            if let Some(x) = stack.last_mut() {
                *x = !*x;
            }
            continue;
        }
        if t == "//@endif" {
            stack.pop();
            continue;
        }
        if stack.iter().any(|b| !*b) {
            continue;
        }
        if let Some(inc) = t.strip_prefix("//@include ") {
            out.extend(load_lines(verif, inc.trim(), variant, depth + 1)?);
            continue;
        }
        if let Some(rest) = t.strip_prefix("//@contract-of ") {
            // `//@contract-of <overlay> <fn>[,<fn>...] [variant=V]`: the callee side of modular verification — copy the
            // signature + requires/ensures of each named function verbatim from the overlay in which it is PROVED
            // (text from `pub fn NAME` up to its `//@body` line) and give it an assumed body here.
            let mut it = rest.split_whitespace();
            let other = it.next().unwrap_or("");
            let names: Vec<&str> = it.next().unwrap_or("").split(',').collect();
            let var = it.next().and_then(|x| x.strip_prefix("variant=")).unwrap_or("A");
            let ol = load_lines(verif, other, var, depth + 1)?;
            for name in names {
                let start = ol.iter().position(|l| { let u = l.trim(); u.starts_with(&format!("pub fn {name}(")) || u.starts_with(&format!("pub fn {name}<")) });
                let Some(a) = start else { return fail("anchor-lost", format!("contract-of {other}: no `pub fn {name}`")); };
                let Some(len) = ol[a..].iter().position(|l| l.trim().starts_with("//@body ")) else { return fail("anchor-lost", format!("contract-of {other}: `{name}` has no //@body")); };
                if ol[a + 1..a + len].iter().any(|l| l.trim().starts_with("pub fn ")) { return fail("anchor-lost", format!("contract-of {other}: `{name}` is not a spliced function")); }
                out.push(format!("// @contract-of {other} {name} (proved there, assumed here)"));
                out.push("#[verifier::external_body]".to_string());
                out.extend(ol[a..a + len].iter().cloned());
                out.push("{ unimplemented!() }".to_string());
            }
            continue;
        }
        out.push(line.to_string());
    }
    Ok(out)
}

fn run() -> Result<i32, Fail> {
    let args: Vec<String> = std::env::args().collect();
    let mut repo = PathBuf::from("/repo");
    let mut verif = PathBuf::from("/verif");
    let (mut unit, mut variant, mut out, mut report) = (None, "A".to_string(), None, None);
    let mut i = 1;
    while i < args.len() {
        match args[i].as_str() {
            "--repo" => { repo = PathBuf::from(&args[i + 1]); i += 2; }
            "--verif" => { verif = PathBuf::from(&args[i + 1]); i += 2; }
            "--unit" => { unit = Some(args[i + 1].clone()); i += 2; }
            "--variant" => { variant = args[i + 1].clone(); i += 2; }
            "--out" => { out = Some(args[i + 1].clone()); i += 2; }
            "--report" => { report = Some(args[i + 1].clone()); i += 2; }
            "--print-sig" => {
                let mut d = Directive { selector: args[i + 2].clone(), ..Default::default() };
                for kv in &args[i + 3..] {
                    if let Some((k, v)) = kv.split_once('=') {
                        d.opts.insert(k.into(), v.into());
                    }
                }
                let b = extract_body(&repo, &args[i + 1], &d, "A")?;
                println!("{}", b.sig);
                println!("// lines {}-{} loops {}", b.src_lines.0, b.src_lines.1, b.loops);
                println!("{}", b.text);
                return Ok(0);
            }
            x => return fail("usage", format!("unknown arg {x}")),
        }
    }
    let unit = unit.ok_or(Fail { kind: "usage", msg: "--unit required".into() })?;
    let lines = load_lines(&verif, &unit, &variant, 0)?;
    let mut source = String::new();
    let mut gen: Vec<String> = vec![];
    let mut bodies_json: Vec<String> = vec![];
    let mut total_rules: BTreeMap<String, usize> = BTreeMap::new();
    let mut k = 0;
    while k < lines.len() {
        let line = &lines[k];
        let t = line.trim();
        if let Some(s) = t.strip_prefix("//@source ") {
            source = s.trim().to_string();
            k += 1;
            continue;
        }
        if let Some(rest) = t.strip_prefix("//@expect-in ") {
            // `//@expect-in <relpath> <text>`: as //@expect, for another source file
            let (file, lit) = rest.trim().split_once(' ').unwrap_or((rest.trim(), ""));
            let norm = |x: &str| x.split_whitespace().collect::<Vec<_>>().join(" ");
            let text = std::fs::read_to_string(repo.join(file)).map_err(|e| Fail { kind: "anchor-lost", msg: format!("{file}: {e}") })?;
            if !norm(&text).contains(&norm(lit)) {
                return fail("anchor-lost", format!("{unit}:{}: {file} no longer contains `{}`", k + 1, lit.trim()));
            }
            gen.push(format!("// @expect {} : {}", file, lit.trim()));
            k += 1;
            continue;
        }
        if let Some(lit) = t.strip_prefix("//@expect ") {
            // `//@expect <text>`: the current source file must contain this text (whitespace-insensitive); used to pin
            // proc-macro input (delegate!, auto_ops) whose expansion the overlay states by hand
            let norm = |x: &str| x.split_whitespace().collect::<Vec<_>>().join(" ");
            let text = std::fs::read_to_string(repo.join(&source)).map_err(|e| Fail { kind: "anchor-lost", msg: format!("{source}: {e}") })?;
            if !norm(&text).contains(&norm(lit)) {
                return fail("anchor-lost", format!("{unit}:{}: {source} no longer contains `{}`", k + 1, lit.trim()));
            }
            gen.push(format!("// @expect {} : {}", source, lit.trim()));
            k += 1;
            continue;
        }
        if let Some(rest) = t.strip_prefix("//@item ") {
            let mut it = rest.split_whitespace();
            let sel = it.next().unwrap_or("").to_string();
            let mut opts = BTreeMap::new();
            for kv in it {
                if let Some((a, b)) = kv.split_once('=') {
                    opts.insert(a.to_string(), b.to_string());
                }
            }
            let src_for = opts.get("source").cloned().unwrap_or(source.clone());
            let (text, l0, l1) = extract_item(&repo, &src_for, &sel, &opts).map_err(|mut f| {
                f.msg = format!("{unit}:{}: {}", k + 1, f.msg);
                f
            })?;
            gen.push(format!("// @src {}:{}-{} item={}", src_for, l0, l1, sel));
            for l in text.lines() {
                gen.push(l.to_string());
            }
            *total_rules.entry("R7".into()).or_insert(0) += 1;
            k += 1;
            continue;
        }
        if let Some(rest) = t.strip_prefix("//@body ") {
            let mut d = Directive { line_no: k + 1, ..Default::default() };
            let mut it = rest.split_whitespace();
            d.selector = it.next().unwrap_or("").to_string();
            for kv in it {
                if let Some((a, b)) = kv.split_once('=') {
                    d.opts.insert(a.to_string(), b.to_string());
                }
            }
            k += 1;
            let mut cur: Option<String> = None;
            while k < lines.len() {
                let t2 = lines[k].trim();
                if let Some(name) = t2.strip_prefix("//@+ ") {
                    cur = Some(name.trim().to_string());
                    d.sections.entry(name.trim().to_string()).or_default();
                } else if let Some(txt) = t2.strip_prefix("//@|") {
                    match &cur {
                        Some(c) => {
                            let e = d.sections.get_mut(c).unwrap();
                            e.push_str(txt);
                            e.push('\n');
                        }
                        None => return fail("usage", format!("{unit}:{}: //@| outside a section", k + 1)),
                    }
                } else {
                    break;
                }
                k += 1;
            }
            let src_for = d.opts.get("source").cloned().unwrap_or(source.clone());
            let b = extract_body(&repo, &src_for, &d, &variant).map_err(|mut f| {
                f.msg = format!("{unit}:{}: {}", d.line_no, f.msg);
                f
            })?;
            let gen_start = gen.len() + 1;
            gen.push(format!("// @src {}:{}-{} selector={}", b.src_file, b.src_lines.0, b.src_lines.1, d.selector));
            for l in b.text.lines() {
                gen.push(l.to_string());
            }
            let gen_end = gen.len();
            for (r, n) in &b.rules {
                *total_rules.entry(r.clone()).or_insert(0) += n;
            }
            let rules_s: Vec<String> = b.rules.iter().map(|(r, n)| format!("{}:{}", json_str(r), n)).collect();
            bodies_json.push(format!(
                "{{\"selector\":{},\"src_file\":{},\"src_start\":{},\"src_end\":{},\"gen_start\":{},\"gen_end\":{},\"sig\":{},\"loops\":{},\"sig_recorded\":{},\"rules\":{{{}}}}}",
                json_str(&d.selector), json_str(&b.src_file), b.src_lines.0, b.src_lines.1, gen_start, gen_end, json_str(&b.sig), b.loops,
                d.sections.contains_key("sig"), rules_s.join(",")
            ));
            continue;
        }
        if t.starts_with("//@") && !t.starts_with("//@@") {
            return fail("usage", format!("{unit}:{}: unknown directive {t}", k + 1));
        }
        gen.push(line.clone());
        k += 1;
    }
    let text = gen.join("\n") + "\n";
    match out {
        Some(o) => std::fs::write(&o, &text).map_err(|e| Fail { kind: "usage", msg: format!("{o}: {e}") })?,
        None => print!("{text}"),
    }
    if let Some(r) = report {
        let rules_s: Vec<String> = total_rules.iter().map(|(r, n)| format!("{}:{}", json_str(r), n)).collect();
        let j = format!("{{\"unit\":{},\"variant\":{},\"bodies\":[{}],\"rules\":{{{}}}}}\n", json_str(&unit), json_str(&variant), bodies_json.join(","), rules_s.join(","));
        std::fs::write(&r, j).map_err(|e| Fail { kind: "usage", msg: format!("{r}: {e}") })?;
    }
    Ok(0)
}

fn main() {
    let _ = Span::call_site();
    match run() {
        Ok(c) => std::process::exit(c),
        Err(f) => {
            eprintln!("VEXTRACT-ERROR kind={} {}", f.kind, f.msg);
            std::process::exit(if f.kind == "usage" { 2 } else { 3 });
        }
    }
}
