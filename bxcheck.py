#!/usr/bin/env python3
"""bxcheck.py — numerical sanity test of the TRUSTED block-matrix axioms of prelude/bx.rs (DESIGN.md 8.11):
every axiom is instantiated with random integer matrices of random compatible shapes (including 0 x n and n x 0)
and evaluated with exact integer arithmetic (numpy object arrays).  Not a proof; it guards against a mis-stated axiom.
Exit 0 if every axiom named in prelude/bx.rs has a test here and every instance holds; exit 2 otherwise."""
import re, sys, random
import numpy as np
rnd = random.Random(int(sys.argv[1]) if len(sys.argv) > 1 else 1)
def M(r, c): return np.array([[rnd.randint(-3, 3) for _ in range(c)] for _ in range(r)], dtype=object).reshape(r, c)
def Z(r, c): return np.zeros((r, c), dtype=object)
def I(n): return np.array([[1 if i == j else 0 for j in range(n)] for i in range(n)], dtype=object).reshape(n, n)
def mul(a, b): assert a.shape[1] == b.shape[0]; return np.array([[sum(a[i, k] * b[k, j] for k in range(a.shape[1])) for j in range(b.shape[1])] for i in range(a.shape[0])], dtype=object).reshape(a.shape[0], b.shape[1])
def rows(a, lo, hi): return a[lo:hi, :]
def cols(a, lo, hi): return a[:, lo:hi]
def stack(a, b): assert a.shape[1] == b.shape[1]; return np.concatenate([a, b], axis=0)
def concat(a, b): assert a.shape[0] == b.shape[0]; return np.concatenate([a, b], axis=1)
def eq(a, b): return a.shape == b.shape and bool((a == b).all()) if a.size else a.shape == b.shape
def d(): return rnd.randint(0, 3)
T = {}
def ax(f): T[f.__name__] = f; return f
@ax
def bx_dims():
    a, b = M(d(), 2), M(2, d()); return mul(a, b).shape == (a.shape[0], b.shape[1])
@ax
def bx_assoc():
    p, q, r, s = d(), d(), d(), d(); a, b, c = M(p, q), M(q, r), M(r, s); return eq(mul(mul(a, b), c), mul(a, mul(b, c)))
@ax
def bx_id():
    a = M(d(), d()); return eq(mul(I(a.shape[0]), a), a) and eq(mul(a, I(a.shape[1])), a)
@ax
def bx_rows_mul():
    a, b = M(3, d()), None; b = M(a.shape[1], d()); lo = rnd.randint(0, 3); hi = rnd.randint(lo, 3); return eq(rows(mul(a, b), lo, hi), mul(rows(a, lo, hi), b))
@ax
def bx_cols_mul():
    b = M(d(), 3); a = M(d(), b.shape[0]); lo = rnd.randint(0, 3); hi = rnd.randint(lo, 3); return eq(cols(mul(a, b), lo, hi), mul(a, cols(b, lo, hi)))
@ax
def bx_id_block():
    n = 4; a = rnd.randint(0, n); b = rnd.randint(a, n); c = rnd.randint(0, n); dd = rnd.randint(c, n); blk = rows(cols(I(n), c, dd), a, b)
    ok = True
    if a == c and b == dd: ok = ok and eq(blk, I(b - a))
    if b <= c or dd <= a: ok = ok and eq(blk, Z(b - a, dd - c))
    return ok
@ax
def bx_full():
    a = M(d(), d()); return eq(rows(a, 0, a.shape[0]), a) and eq(cols(a, 0, a.shape[1]), a)
@ax
def bx_stack_mul():
    k = d(); a, b, c = M(d(), k), M(d(), k), M(k, d()); return eq(mul(stack(a, b), c), stack(mul(a, c), mul(b, c)))
@ax
def bx_mul_concat():
    k = d(); a, c, dd = M(d(), k), M(k, d()), M(k, d()); return eq(mul(a, concat(c, dd)), concat(mul(a, c), mul(a, dd)))
@ax
def bx_block_id():
    r, t = d(), d(); return eq(stack(concat(I(r), Z(r, t)), concat(Z(t, r), I(t))), I(r + t))
@ax
def bx_zero_mul():
    a = M(d(), d()); c = d(); return eq(mul(a, Z(a.shape[1], c)), Z(a.shape[0], c)) and eq(mul(Z(c, a.shape[0]), a), Z(c, a.shape[1]))
@ax
def bx_parts():
    k = d(); a, b = M(d(), k), M(d(), k); ok = eq(rows(stack(a, b), 0, a.shape[0]), a)
    k = d(); a, b = M(k, d()), M(k, d()); return ok and eq(cols(concat(a, b), 0, a.shape[1]), a)
@ax
def bx_parts2():
    k = d(); a, b = M(d(), k), M(d(), k); ok = eq(rows(stack(a, b), a.shape[0], a.shape[0] + b.shape[0]), b)
    k = d(); a, b = M(k, d()), M(k, d()); return ok and eq(cols(concat(a, b), a.shape[1], a.shape[1] + b.shape[1]), b)
@ax
def bx_add_dims(): return True
@ax
def bx_add_zero():
    a = M(d(), d()); z = Z(*a.shape); return eq(z + a, a) and eq(a + z, a) and eq(-a + a, z) and eq(a + (-a), z)
@ax
def bx_neg_mul():
    k = d(); a, b = M(d(), k), M(k, d()); return eq(mul(-a, b), -mul(a, b)) and eq(mul(a, -b), -mul(a, b))
@ax
def bx_neg_zero(): z = Z(d(), d()); return eq(-z, z)
@ax
def bx_concat_stack():
    p, k1, k2, q = d(), d(), d(), d(); a, b, c, dd = M(p, k1), M(p, k2), M(k1, q), M(k2, q); return eq(mul(concat(a, b), stack(c, dd)), mul(a, c) + mul(b, dd))
@ax
def bx_add_comm(): a = M(2, 3); b = M(2, 3); return eq(a + b, b + a)
@ax
def bx_mul_concat_rows():
    s, k1, k2, q1, q2 = d(), d(), d(), d(), d(); p, q = M(s, k1), M(s, k2); a, b, c, dd = M(k1, q1), M(k1, q2), M(k2, q1), M(k2, q2)
    return eq(mul(concat(p, q), stack(concat(a, b), concat(c, dd))), concat(mul(p, a) + mul(q, c), mul(p, b) + mul(q, dd)))
@ax
def bx_split():
    a = M(d(), d()); r = rnd.randint(0, a.shape[0]); ok = eq(a, stack(rows(a, 0, r), rows(a, r, a.shape[0]))); r = rnd.randint(0, a.shape[1]); return ok and eq(a, concat(cols(a, 0, r), cols(a, r, a.shape[1])))
@ax
def bx_sub_zero():
    r, c = 3, 3; lo = rnd.randint(0, 3); hi = rnd.randint(lo, 3); return eq(rows(Z(r, c), lo, hi), Z(hi - lo, c)) and eq(cols(Z(r, c), lo, hi), Z(r, hi - lo))
@ax
def bx_proj():
    w = M(d(), d()); k = rnd.randint(0, w.shape[0]); n = w.shape[0]; ok = eq(mul(concat(Z(k, n - k), I(k)), w), rows(w, n - k, n))
    k = rnd.randint(0, w.shape[1]); n = w.shape[1]; return ok and eq(mul(w, stack(Z(n - k, k), I(k))), cols(w, n - k, n))
@ax
def bx_perm():
    n = d(); p = list(range(n)); rnd.shuffle(p); P = Z(n, n)
    for i in range(n): P[p[i], i] = 1
    return eq(mul(P, P.T), I(n)) and eq(mul(P.T, P), I(n))
@ax
def bx_add_inv(): x = M(2, 2); return eq(x, -(-x))
@ax
def bx_neg_neg(): x = M(d(), d()); return eq(-(-x), x)
@ax
def bx_dims_all(): return True
@ax
def bx_tri_inv():
    # a unit upper-triangular integer matrix (diagonal +-1) has an integer inverse: check via back-substitution on the identity
    n = d() + 1; a = M(n, n)
    for i in range(n):
        for j in range(i): a[i, j] = 0
        a[i, i] = rnd.choice([1, -1])
    inv = Z(n, n)
    for c in range(n):
        x = [0] * n
        for i in reversed(range(n)):
            s = (1 if i == c else 0) - sum(a[i, k] * x[k] for k in range(i + 1, n)); x[i] = s * a[i, i]
        for i in range(n): inv[i, c] = x[i]
    return eq(mul(a, inv), I(n)) and eq(mul(inv, a), I(n))
@ax
def bx_shift():
    n = rnd.randint(0, 4); k = rnd.randint(0, n); inc = Z(n, k); pr = Z(k, n)
    for i in range(k): inc[n - k + i, i] = 1; pr[i, n - k + i] = 1
    return eq(inc, stack(Z(n - k, k), I(k))) and eq(pr, concat(Z(k, n - k), I(k)))
names = set()
for f in ["/verif/prelude/bx.rs", "/verif/units/schur/model.inc"]:
    names |= set(re.findall(r"proof fn (bx_\w+)", open(f).read()))
missing = sorted(names - set(T)); bad = []
for name, f in T.items():
    for _ in range(300):
        try:
            if not f(): bad.append(name); break
        except AssertionError: bad.append(name + " (shape error in the test)"); break
print("bxcheck: %d axioms in the prelude, %d tested, missing=%s, failed=%s" % (len(names), len(set(T) & names), missing, bad))
sys.exit(0 if not missing and not bad else 2)
