// Contract overlay for formal linear combinations Lc<X, R> (yui/src/types/lc/lc.rs) — the term map every
// polynomial type (PolyBase) and chain (Lc) is built on.  Property C16: "add ... as in the [free module]
// over the coefficient ring ... A value never stores a zero coefficient ... hence equality, is_zero,
// term count ... are those of the mathematical [element] after any sequence of operations".
// View: the coefficient function  at : generators -> R  (r0 outside the stored keys); representation
// invariant nz: every stored coefficient is non-zero.  Coefficients in the abstract ring ER, generators
// abstract hashable keys (GenK), AHashMap<X, R> := AMap (ASSUMED hash-map contract incl. its iterator).
use vstd::prelude::*;
verus! {
//@include prelude/rt.rs
//@include prelude/er.rs
//@source yui/src/types/lc/lc.rs

//@include units/lc/model.inc

impl Lc {
    pub fn zero() -> (r: Lc) ensures r.wf(), r.nz(), forall|k: int| r.at(k) == r0(), r.data.m@ =~= Map::<int, int>::empty(),
    //@body impl/Zero@Lc/zero

    pub fn is_zero(&self) -> (r: bool) ensures self.nz() ==> (r == (forall|k: int| self.at(k) == r0())),
    //@body impl/Zero@Lc/is_zero
    //@+ post
    //@| if !__ret && self.nz() {
    //@|     assert(exists|k: int| self.data.m@.dom().contains(k)) by { if forall|k: int| !self.data.m@.dom().contains(k) { assert(self.data.m@.dom() =~= Set::<int>::empty()); } }
    //@|     let k = choose|k: int| self.data.m@.dom().contains(k);
    //@|     assert(self.at(k) != r0());
    //@| }

    pub fn nterms(&self) -> (r: usize) ensures self.data.m@.dom().finite(), r == self.data.m@.dom().len(), r == self.data.ord@.len(),
    //@body impl/Lc/nterms

    pub fn coeff(&self, x: &GenK) -> (r: &ER) requires self.wf() ensures r.v() == self.at(x.k@),
    //@body impl/Lc/coeff

    pub fn iter(&self) -> (r: MapIter<'_>) ensures r.pos@ == 0, r.es@ == self.data.ord@, entries_of(r.es@, self.data.m@), r.src == &self.data,
    //@body impl/Lc/iter
    //@+ sig
    //@| fn iter(&self) -> impl Iterator<Item = (&X, &R)>

    /// "must clean after call": adds r to the coefficient of x, nothing else changes
    pub fn add_pair(&mut self, rhs: (GenK, ER))
        ensures final(self).r_zero == old(self).r_zero,
            forall|k: int| final(self).at(k) == (if k == rhs.0.k@ { radd(old(self).at(k), rhs.1.v()) } else { old(self).at(k) }),
            forall|k: int| final(self).data.m@.dom().contains(k) ==> (old(self).data.m@.dom().contains(k) || k == rhs.0.k@),
    //@body impl/Lc/add_pair
    //@+ sig
    //@| fn add_pair(&mut self, rhs: (X, R))
    //@+ pre
    //@| ax_add_zero(rhs.1.v()); ax_add_zero(old(self).at(rhs.0.k@));

    pub fn add_pair_ref(&mut self, rhs: (&GenK, &ER))
        ensures final(self).r_zero == old(self).r_zero,
            forall|k: int| final(self).at(k) == (if k == rhs.0.k@ { radd(old(self).at(k), rhs.1.v()) } else { old(self).at(k) }),
            forall|k: int| final(self).data.m@.dom().contains(k) ==> (old(self).data.m@.dom().contains(k) || k == rhs.0.k@),
    //@body impl/Lc/add_pair_ref
    //@+ sig
    //@| fn add_pair_ref(&mut self, rhs: (&X, &R))
    //@+ pre
    //@| ax_add_zero(rhs.1.v()); ax_add_zero(old(self).at(rhs.0.k@));

    /// self += rhs : coefficientwise sum, and no zero coefficient is left stored
    pub fn add_assign(&mut self, rhs: &Lc)
        ensures final(self).nz(), final(self).r_zero == old(self).r_zero,
            forall|k: int| final(self).at(k) == radd(old(self).at(k), rhs.at(k)),
    //@body impl/AddAssign@Lc/add_assign for_iter=1 loops=1
    //@+ loop 0 header
    //@| for e in rhs.data.iter()
    //@+ loop 0
    //@| invariant
    //@|     __it0.src == &rhs.data, entries_of(__it0.es@, rhs.data.m@), 0 <= __it0.pos@ <= __it0.es@.len(),
    //@|     self.r_zero == old(self).r_zero,
    //@|     forall|k: int| self.at(k) == (if seen(__it0.es@, __it0.pos@, k) { radd(old(self).at(k), rhs.at(k)) } else { old(self).at(k) }),
    //@| ensures __it0.pos@ == __it0.es@.len(),
    //@| decreases __it0.es@.len() - __it0.pos@,
    //@+ loop 0 begin
    //@| let ghost p = __it0.pos@ - 1;
    //@| assert(e.0.k@ == __it0.es@[p].0 && e.1.v() == __it0.es@[p].1);
    //@| assert(!seen(__it0.es@, p, e.0.k@));
    //@| assert(rhs.at(e.0.k@) == e.1.v());
    //@+ loop 0 end
    //@| assert forall|k: int| self.at(k) == (if seen(__it0.es@, __it0.pos@, k) { radd(old(self).at(k), rhs.at(k)) } else { old(self).at(k) }) by {
    //@|     if k == e.0.k@ { assert(seen(__it0.es@, __it0.pos@, k)); }
    //@|     else { assert(seen(__it0.es@, __it0.pos@, k) == seen(__it0.es@, __it0.pos@ - 1, k)); }
    //@| }
    //@+ loop 0 after
    //@| assert forall|k: int| self.at(k) == radd(old(self).at(k), rhs.at(k)) by {
    //@|     ax_add_zero(old(self).at(k));
    //@|     if rhs.data.m@.dom().contains(k) { let i = choose|i: int| 0 <= i < __it0.es@.len() && #[trigger] __it0.es@[i].0 == k; assert(seen(__it0.es@, __it0.pos@, k)); }
    //@| }

    /// self -= rhs
    pub fn sub_assign(&mut self, rhs: &Lc)
        ensures final(self).nz(), final(self).r_zero == old(self).r_zero,
            forall|k: int| final(self).at(k) == rsub(old(self).at(k), rhs.at(k)),
    //@body impl/SubAssign@Lc/sub_assign for_iter=1 loops=1 ring=1
    //@+ loop 0 header
    //@| for e in rhs.data.iter()
    //@+ loop 0
    //@| invariant
    //@|     __it0.src == &rhs.data, entries_of(__it0.es@, rhs.data.m@), 0 <= __it0.pos@ <= __it0.es@.len(),
    //@|     self.r_zero == old(self).r_zero,
    //@|     forall|k: int| self.at(k) == (if seen(__it0.es@, __it0.pos@, k) { rsub(old(self).at(k), rhs.at(k)) } else { old(self).at(k) }),
    //@| ensures __it0.pos@ == __it0.es@.len(),
    //@| decreases __it0.es@.len() - __it0.pos@,
    //@+ loop 0 begin
    //@| let ghost p = __it0.pos@ - 1;
    //@| assert(e.0.k@ == __it0.es@[p].0 && e.1.v() == __it0.es@[p].1);
    //@| assert(!seen(__it0.es@, p, e.0.k@));
    //@| assert(rhs.at(e.0.k@) == e.1.v());
    //@+ loop 0 end
    //@| assert forall|k: int| self.at(k) == (if seen(__it0.es@, __it0.pos@, k) { rsub(old(self).at(k), rhs.at(k)) } else { old(self).at(k) }) by {
    //@|     if k == e.0.k@ { assert(seen(__it0.es@, __it0.pos@, k)); }
    //@|     else { assert(seen(__it0.es@, __it0.pos@, k) == seen(__it0.es@, __it0.pos@ - 1, k)); }
    //@| }
    //@+ loop 0 after
    //@| assert forall|k: int| self.at(k) == rsub(old(self).at(k), rhs.at(k)) by {
    //@|     ax_add_zero(old(self).at(k)); id_neg_zero();
    //@|     if rhs.data.m@.dom().contains(k) { let i = choose|i: int| 0 <= i < __it0.es@.len() && #[trigger] __it0.es@[i].0 == k; assert(seen(__it0.es@, __it0.pos@, k)); }
    //@| }

    /// FromIterator<(X, R)>: the formal sum of the given terms (repeated generators add up, zero terms vanish)
    pub fn from_iter(iter: PairIter) -> (r: Lc)
        requires iter.pos@ == 0
        ensures r.nz(), r.wf(), forall|k: int| r.at(k) == acc(iter.items@, k),
    //@body impl/FromIterator@Lc/from_iter for_iter=1 loops=1
    //@+ sig
    //@| fn from_iter<T: IntoIterator<Item = (X, R)>>(iter: T) -> Self
    //@+ loop 0 header
    //@| for e in iter.into_iter()
    //@+ loop 0
    //@| invariant
    //@|     __it0.items@ == iter.items@, 0 <= __it0.pos@ <= __it0.items@.len(), res.wf(),
    //@|     forall|k: int| res.at(k) == acc(__it0.items@.take(__it0.pos@), k),
    //@| ensures __it0.pos@ == __it0.items@.len(),
    //@| decreases __it0.items@.len() - __it0.pos@,
    //@+ loop 0 end
    //@| let ghost p = __it0.pos@ - 1;
    //@| assert(__it0.items@.take(p + 1).drop_last() =~= __it0.items@.take(p));
    //@| assert(__it0.items@.take(p + 1).last() == __it0.items@[p]);
    //@+ loop 0 after
    //@| assert(__it0.items@.take(__it0.pos@) =~= iter.items@);

    /// bilinear extension of x_map: coefficient of k is  sum_{i,j : x_map(x_i, y_j) = k} r_i s_j , nothing zero stored
    pub fn combine<F: Fn(&GenK, &GenK) -> GenK>(&self, other: &Lc, x_map: F) -> (res: Lc)
        requires
            forall|a: &GenK, b: &GenK| x_map.requires((a, b)),
            forall|a: &GenK, b: &GenK, r: GenK| x_map.ensures((a, b), r) ==> r.k@ == xm(a.k@, b.k@),
            self.data.m@.dom().len() * other.data.m@.dom().len() <= usize::MAX,   // capacity hint `reserve(n * m)` does not overflow
        ensures res.nz(), res.wf(),
            forall|k: int| res.at(k) == dsum(self.data.ord@, self.data.ord@.len() as int, other.data.ord@, k),
    //@body impl/Lc/combine for_iter=1 loops=2 ring=1 machine=nterms
    //@+ sig
    //@| fn combine<F>(&self, other: &Self, x_map: F) -> Self where F: Fn(&X, &X) -> X
    //@+ loop 0 header
    //@| for (x, r) in self.iter()
    //@+ loop 1 header
    //@| for (y, s) in other.iter()
    //@+ loop 0
    //@| invariant
    //@|     __it0.es@ == self.data.ord@, 0 <= __it0.pos@ <= __it0.es@.len(), res.wf(),
    //@|     forall|a: &GenK, b: &GenK| x_map.requires((a, b)),
    //@|     forall|a: &GenK, b: &GenK, r: GenK| x_map.ensures((a, b), r) ==> r.k@ == xm(a.k@, b.k@),
    //@|     forall|k: int| res.at(k) == dsum(self.data.ord@, __it0.pos@, other.data.ord@, k),
    //@| ensures __it0.pos@ == __it0.es@.len(),
    //@| decreases __it0.es@.len() - __it0.pos@,
    //@+ loop 1
    //@| invariant
    //@|     __it1.es@ == other.data.ord@, 0 <= __it1.pos@ <= __it1.es@.len(), res.wf(),
    //@|     __it0.es@ == self.data.ord@, 1 <= __it0.pos@ <= __it0.es@.len(),
    //@|     x.k@ == self.data.ord@[__it0.pos@ - 1].0, r.v() == self.data.ord@[__it0.pos@ - 1].1,
    //@|     forall|a: &GenK, b: &GenK| x_map.requires((a, b)),
    //@|     forall|a: &GenK, b: &GenK, r: GenK| x_map.ensures((a, b), r) ==> r.k@ == xm(a.k@, b.k@),
    //@|     forall|k: int| res.at(k) == isum(dsum(self.data.ord@, __it0.pos@ - 1, other.data.ord@, k), x.k@, r.v(), other.data.ord@, __it1.pos@, k),
    //@| ensures __it1.pos@ == __it1.es@.len(),
    //@| decreases __it1.es@.len() - __it1.pos@,

    /// Mul for &Lc (X: Gen + Mul): the bilinear extension of the generator product
    pub fn mul(&self, rhs: &Lc) -> (res: Lc)
        requires self.data.m@.dom().len() * rhs.data.m@.dom().len() <= usize::MAX,
        ensures res.nz(), res.wf(),
            forall|k: int| res.at(k) == dsum(self.data.ord@, self.data.ord@.len() as int, rhs.data.ord@, k),
    //@body impl/Mul@&Lc/mul ring=1 q=clone qname=g
    //@+ closure 0
    //@| -> (out: GenK) ensures out.k@ == xm(x.k@, y.k@)

} // impl Lc

} // verus!
fn main() {}
