// Contract overlay for the transform-tracking primitives of yui-matrix/src/dense/lll.rs (property C10:
// "returns H, P, P^-1 with H = P A and P P^-1 = I"):  LLLData::{swap, mul_row, add_row_to}.
// Ghost invariant, for an arbitrary original matrix A:
//     (p present)         target == P A
//     (p, pinv present)   P P^-1 == I and P^-1 P == I
// The Gram-Schmidt data (det, lambda) these functions also update is NOT under contract here: every
// lambda operation is modelled as an arbitrary change of lambda (the exact det/lambda update of `swap`
// and the Lovasz test are out of reach, see DESIGN.md).  Mat operations are ASSUMED to be left / right
// multiplication by the corresponding elementary matrix.
use vstd::prelude::*;
verus! {
//@include prelude/rt.rs
//@include prelude/er.rs
//@source yui-matrix/src/dense/lll.rs

//@include units/lll_prims/model.inc

impl LLLData {
    pub fn mul_row(&mut self, i: usize, r: &ER)
//@if B
        requires is_unit(r.v()),
//@endif
        ensures exists|w: int| (old(self).pinv.is_some() ==> rmul(r.v(), w) == r1()) && #[trigger] row_op(*old(self), *final(self), e_scale(i as int, r.v()), e_scale(i as int, w)),
            forall|a0: int| p_ok(*old(self), a0) ==> p_ok(*final(self), a0),
    //@body impl/LLLData/mul_row
    //@+ sig
    //@| fn mul_row(&mut self, i: Row, r: &R)
    //@+ post
    //@| let w = if old(self).pinv.is_some() { choose|w: int| rmul(r.v(), w) == r1() && opt(self.pinv) == mmul(opt(old(self).pinv), e_scale(i as int, w)) } else { 0 };
    //@| if old(self).pinv.is_some() { mx_scale(i as int, r.v(), w); }
    //@| assert(row_op(*old(self), *self, e_scale(i as int, r.v()), e_scale(i as int, w)));
    //@| lemma_row_op_keeps(*old(self), *self, e_scale(i as int, r.v()), e_scale(i as int, w));

    /// a[k] += r * a[i]
    pub fn add_row_to(&mut self, i: usize, k: usize, r: &ER)
        requires i < old(self).det@.len(),
//@if B
            i < k,
//@endif
        ensures i < k, row_op(*old(self), *final(self), e_shear(k as int, i as int, r.v()), e_shear(k as int, i as int, rneg(r.v()))),
            forall|a0: int| p_ok(*old(self), a0) ==> p_ok(*final(self), a0),
    //@body impl/LLLData/add_row_to ring=1 index2=1 for_range=1 machine=i,j,k loops=1
    //@+ loop 0 header
    //@| for j in 0..i
    //@+ sig
    //@| fn add_row_to(&mut self, i: Row, k: Row, r: &R)
    //@+ pre-raw
    //@| let ghost s0 = *self;
    //@+ loop 0
    //@| invariant i < k, self.step == s0.step, self.det == s0.det,
    //@|     self.target.m@ == mmul(e_shear(k as int, i as int, r.v()), s0.target.m@),
    //@|     s0.p.is_some() == self.p.is_some() && s0.pinv.is_some() == self.pinv.is_some(),
    //@|     s0.p.is_some() ==> opt(self.p) == mmul(e_shear(k as int, i as int, r.v()), opt(s0.p)),
    //@|     s0.pinv.is_some() ==> opt(self.pinv) == mmul(opt(s0.pinv), e_shear(k as int, i as int, rneg(r.v()))),
    //@+ post
    //@| if i < k {
    //@|     mx_shear(k as int, i as int, r.v());
    //@|     lemma_row_op_keeps(*old(self), *self, e_shear(k as int, i as int, r.v()), e_shear(k as int, i as int, rneg(r.v())));
    //@| }

    /// b[k-1] <-> b[k]
    pub fn swap(&mut self, k: usize)
        requires k < old(self).det@.len(), old(self).det@.len() <= usize::MAX - 1,
//@if B
            k > 0,
            // valid Gram-Schmidt data: the (k-1)-st Gram determinant is non-zero (rows are independent); in variant A a division by zero does not return
            old(self).det@[k - 1].v() != r0(),
//@endif
        ensures k > 0, row_op(*old(self), *final(self), e_swap(k - 1, k as int), e_swap(k - 1, k as int)),
            forall|a0: int| p_ok(*old(self), a0) ==> p_ok(*final(self), a0),
    //@body impl/LLLData/swap ring=1 index2=1 for_range=1 machine=i,j,k,m subst=R:ER loops=2 q=d1:z
    //@+ loop 0 header
    //@| for j in 0..k-1
    //@+ loop 1 header
    //@| for i in k+1..m
    //@+ sig
    //@| fn swap(&mut self, k: Row)
    //@+ pre-raw
    //@| let ghost s0 = *self;
    //@+ loop 0
    //@| invariant k > 0, self.target.m@ == mmul(e_swap(k - 1, k as int), s0.target.m@), self.step == s0.step, self.det == s0.det,
    //@|     s0.p.is_some() == self.p.is_some() && s0.pinv.is_some() == self.pinv.is_some(),
    //@|     s0.p.is_some() ==> opt(self.p) == mmul(e_swap(k - 1, k as int), opt(s0.p)),
    //@|     s0.pinv.is_some() ==> opt(self.pinv) == mmul(opt(s0.pinv), e_swap(k - 1, k as int)),
    //@+ loop 1
    //@| invariant k > 0, k < self.det@.len(), zdiv_ok(d1.v()), self.target.m@ == mmul(e_swap(k - 1, k as int), s0.target.m@), self.step == s0.step, self.det == s0.det,
    //@|     s0.p.is_some() == self.p.is_some() && s0.pinv.is_some() == self.pinv.is_some(),
    //@|     s0.p.is_some() ==> opt(self.p) == mmul(e_swap(k - 1, k as int), opt(s0.p)),
    //@|     s0.pinv.is_some() ==> opt(self.pinv) == mmul(opt(s0.pinv), e_swap(k - 1, k as int)),
    //@+ post
    //@| if k > 0 {
    //@|     mx_swap(k - 1, k as int);
    //@|     lemma_row_op_keeps(*old(self), *self, e_swap(k - 1, k as int), e_swap(k - 1, k as int));
    //@| }
}
} // verus!
fn main() {}
