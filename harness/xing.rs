// C18 (crossing layer) — contract harnesses on the real crate yui-link for Crossing / CrossingType:
// the strand-through-crossing map `pass`, the arcs of a crossing, resolution and mirroring.
// Loop-free over symbolic crossing type and symbolic edge labels: complete for this layer.
use super::src::*;
use crate::{ob, pre, reach};
use yui::bitseq::Bit;
use yui_link::{Crossing, CrossingType, Path};
use CrossingType::{H, V, X, Xm};

fn any_type(s: &mut Src) -> CrossingType { match s.u8() % 4 { 0 => X, 1 => Xm, 2 => V, _ => H } }
fn any_edges(s: &mut Src) -> [usize; 4] { [s.usize(), s.usize(), s.usize(), s.usize()] }

pub fn xing_pass(s: &mut Src) -> R {
    let t = any_type(s); let e = any_edges(s); let i = s.usize();
    pre!(i < 4);
    reach!();
    let c = Crossing::new(t, e);
    let j = c.pass(i);
    ob!(j < 4, "pass::index-in-range");
    ob!(j != i, "pass::leaves-through-a-different-end");
    ob!(c.pass(j) == i, "pass::involution");
    // which ends are joined: crossing -> opposite ends; V -> {0,3},{1,2}; H -> {0,1},{2,3}
    let exp = match t { X | Xm => [2, 3, 0, 1], V => [3, 2, 1, 0], H => [1, 0, 3, 2] };
    ob!(j == exp[i], "pass::joins-the-right-ends");
    ob!(c.edge(i) == e[i] && c.edges() == &e && c.ctype() == t, "accessors");
    Ok(())
}

pub fn xing_arcs(s: &mut Src) -> R {
    let t = any_type(s); let e = any_edges(s);
    reach!();
    let c = Crossing::new(t, e);
    let (p, q) = c.arcs();
    let (i0, j0, i1, j1) = match t { X | Xm => (0, 2, 1, 3), V => (0, 3, 1, 2), H => (0, 1, 2, 3) };
    // arcs pair exactly {i, pass(i)}
    ob!(c.pass(i0) == j0 && c.pass(i1) == j1, "arcs::pairs-are-pass-orbits");
    // each strand: a closed one-edge path when its two ends carry the same label, else the arc (e_i, e_j)
    let ok = |pth: &Path, a: usize, b: usize| {
        let v = pth.edges();
        if e[a] == e[b] { pth.is_circle() && v.len() == 1 && v[0] == e[a] } else { pth.is_arc() && v.len() == 2 && v[0] == e[a] && v[1] == e[b] }
    };
    ob!(ok(&p, i0, j0) && ok(&q, i1, j1), "arcs::edges-of-each-strand");
    Ok(())
}

pub fn xing_resolve(s: &mut Src) -> R {
    let t = any_type(s); let e = any_edges(s); let b = s.bool();
    pre!(t == X || t == Xm);
    reach!();
    let c = Crossing::new(t, e);
    ob!(!c.is_resolved(), "is_resolved::false-on-crossings");
    let r = c.resolved(if b { Bit::Bit1 } else { Bit::Bit0 });
    let exp = match (t, b) { (X, false) | (Xm, true) => H, _ => V };
    ob!(r.ctype() == exp, "resolve::0/1-smoothing-table");
    ob!(r.edges() == &e, "resolve::keeps-edges");
    ob!(r.is_resolved(), "resolve::result-is-resolved");
    let mut m = c.clone(); m.resolve(if b { Bit::Bit1 } else { Bit::Bit0 });
    ob!(m == r, "resolve/resolved::agree");
    // mirror swaps the two smoothings
    ob!(c.mirror().resolved(if b { Bit::Bit1 } else { Bit::Bit0 }).ctype() == c.resolved(if b { Bit::Bit0 } else { Bit::Bit1 }).ctype(), "mirror::swaps-smoothings");
    Ok(())
}

pub fn xing_mirror(s: &mut Src) -> R {
    let t = any_type(s); let e = any_edges(s);
    reach!();
    let c = Crossing::new(t, e);
    let m = c.mirror();
    ob!(m.edges() == &e, "mirror::keeps-edges");
    ob!(m.ctype() == match t { X => Xm, Xm => X, o => o }, "mirror::swaps-X-Xm-fixes-V-H");
    ob!(m.mirror() == c, "mirror::involution");
    ob!(t.mirror().mirror() == t && t.mirror() == m.ctype(), "CrossingType::mirror");
    ob!(Crossing::from_pd_code(e) == Crossing::new(X, e) && Crossing::from(e) == Crossing::new(X, e), "from_pd_code::is-X");
    Ok(())
}

pub fn xing_reject_resolve_twice(s: &mut Src) -> R {
    let e = any_edges(s); let b = s.bool(); let v = s.bool();
    let mut c = Crossing::new(if v { V } else { H }, e);
    c.resolve(if b { Bit::Bit1 } else { Bit::Bit0 }); // must not return
    Ok(())
}

// ------------------------------------------------------------------ Link: resolution bookkeeping
// (witness search / replay for the Verus unit `link`; Vec-based: native only)
pub fn xing_link_resolve(s: &mut Src) -> R {
    use yui_link::{Link, State};
    let n = s.small(0, 5) as usize;
    let mut data = vec![]; let mut bits = vec![];
    for k in 0..5 { let t = any_type(s); let e = [s.small(0, 9) as usize, s.small(0, 9) as usize, s.small(0, 9) as usize, s.small(0, 9) as usize]; let b = s.bool(); if k < n { data.push(Crossing::new(t, e)); bits.push(b); } }
    reach!();
    let l = Link::new(data.clone());
    let unres: Vec<usize> = (0..n).filter(|&j| !data[j].is_resolved()).collect();
    ob!(l.crossing_num() == unres.len(), "Link::crossing_num-counts-unresolved");
    for (i, &j) in unres.iter().enumerate() { ob!(l.crossing_at(i) == &data[j], "Link::crossing_at-is-ith-unresolved"); }
    let m = unres.len();
    let st = State::from_iter(bits.iter().take(m).map(|&b| if b { Bit::Bit1 } else { Bit::Bit0 }));
    let r = l.resolved_by(&st);
    let mut want = data.clone();
    for (i, &j) in unres.iter().enumerate() { want[j] = data[j].resolved(if bits[i] { Bit::Bit1 } else { Bit::Bit0 }); }
    ob!(r.data() == &want, "Link::resolved_by::ith-actual-crossing-gets-ith-bit");
    // traversal on known diagrams (pass_edge through traverse_edges): number of components and writhe
    let known: [(&[[usize; 4]], usize, i32); 6] = [
        (&[[1, 4, 2, 5], [3, 6, 4, 1], [5, 2, 6, 3]], 1, -3),          // trefoil
        (&[[4, 2, 5, 1], [8, 6, 1, 5], [6, 3, 7, 4], [2, 7, 3, 8]], 1, 0), // figure-8
        (&[[4, 1, 3, 2], [2, 3, 1, 4]], 2, -2),                          // Hopf link
        (&[[0, 0, 1, 1]], 1, 1),                                         // kinked unknot: the strand re-enters the same crossing
        (&[[0, 1, 1, 0]], 1, -1),
        (&[[0, 0, 1, 1], [2, 2, 3, 3]], 2, 2),
    ];
    let (pd, nc, w) = known[s.small(0, 5) as usize];
    let k = Link::from_pd_code(pd.iter().cloned());
    ob!(k.components().len() == nc, "Link::components-count-on-known-diagrams");
    ob!(k.writhe() == w, "Link::writhe-on-known-diagrams");
    if m > 0 {
        let i = s.small(0, (m - 1) as i64) as usize; let b = if s.bool() { Bit::Bit1 } else { Bit::Bit0 };
        let r1 = l.resolved_at(i, b);
        let mut want = data.clone(); want[unres[i]] = data[unres[i]].resolved(b);
        ob!(r1.data() == &want, "Link::resolved_at");
    }
    Ok(())
}

// ------------------------------------------------------------------ Braid::closure and Link::{crossing_signs, components, writhe}
// (BOUNDED stand-in: these traversals -- closures over hash sets / maps -- are outside both verifiers; braids on 2..4 strands, 1..6 letters,
//  every strand touched.  The closure has one crossing per letter, in order, with the letter's sign; its components are the cycles of the
//  braid permutation; writhe = exponent sum.)
pub fn xing_braid_closure(s: &mut Src) -> R {
    use yui_link::{Braid, Generator};
    use yui::Sign;
    let n = s.small(2, 4) as usize;
    let len = s.small(1, 6) as usize;
    let mut word: Vec<i32> = vec![];
    for k in 0..6 { let i = s.small(1, 3); let neg = s.bool(); if k < len { let i = ((i - 1) % (n as i64 - 1) + 1) as i32; word.push(if neg { -i } else { i }); } }
    // pos[p] = the strand (numbered by its top position) currently at position p; under[s] = strand s passes under somewhere
    let mut pos: Vec<usize> = (0..n).collect();
    let mut touched = vec![false; n];
    let mut under = vec![false; n];
    let mut over_strand: Vec<usize> = vec![];
    for &g in &word {
        let i = (g.unsigned_abs() - 1) as usize;
        // positive letter: the strand coming from the top left is the under strand; negative: the one from the top right
        under[if g > 0 { pos[i] } else { pos[i + 1] }] = true;
        over_strand.push(if g > 0 { pos[i + 1] } else { pos[i] });
        pos.swap(i, i + 1); touched[i] = true; touched[i + 1] = true;
    }
    pre!(touched.iter().all(|&t| t));
    // perm: top position -> bottom position of the same strand (closing up identifies them); comp[s] = component of strand s
    let mut perm = vec![0usize; n];
    for p in 0..n { perm[pos[p]] = p; }
    let mut comp = vec![usize::MAX; n]; let mut cycles = 0;
    for i in 0..n { if comp[i] == usize::MAX { let mut j = i; while comp[j] == usize::MAX { comp[j] = cycles; j = perm[j]; } cycles += 1; } }
    // the diagram's orientation is read off the under strands (PD convention); a component that never passes under has none, the library may
    // orient it either way -- but one way for the whole component
    let mut comp_under = vec![false; cycles];
    for s0 in 0..n { if under[s0] { comp_under[comp[s0]] = true; } }
    reach!();
    let b = Braid::new(n, word.iter().map(|&g| Generator::from(g)).collect());
    let l = b.closure();
    ob!(l.crossing_num() == word.len(), "Braid::closure::one-crossing-per-letter");
    let signs = l.crossing_signs();
    ob!(signs.len() == word.len(), "Link::crossing_signs::one-per-crossing");
    let mut flip: Vec<Option<bool>> = vec![None; cycles];
    let mut expect_writhe_known = true; let mut w = 0i32;
    for (k, &g) in word.iter().enumerate() {
        let same = (signs[k] == Sign::Pos) == (g > 0);
        let c = comp[over_strand[k]];
        if comp_under[c] {
            ob!(same, "Braid::closure/Link::crossing_signs::sign-of-kth-crossing-is-sign-of-kth-letter");
        } else {
            match flip[c] { None => { flip[c] = Some(!same); } Some(f) => { ob!(f == !same, "Link::crossing_signs::an-over-only-component-is-oriented-one-way"); } }
            expect_writhe_known = false;
        }
        w += g.signum();
    }
    if expect_writhe_known { ob!(l.writhe() == w, "Link::writhe==exponent-sum"); }
    let comps = l.components();
    ob!(comps.len() == cycles, "Link::components==cycles-of-the-braid-permutation");
    ob!(comps.iter().all(|c| c.is_circle()), "Link::components-are-closed");
    // Seifert's algorithm on a closed braid gives one circle per strand; mirroring negates every crossing sign
    // (only when every component is oriented as in the braid: an over-only component may be oriented either way, see above)
    if expect_writhe_known {
        ob!(l.seifert_circles().len() == n, "Link::seifert_circles(closed-braid)==strands");
        let lm = l.mirror();
        ob!(lm.writhe() == -w && lm.crossing_num() == word.len() && lm.components().len() == cycles, "Link::mirror-negates-writhe");
        let sm = lm.crossing_signs();
        ob!(sm.len() == signs.len() && (0..signs.len()).all(|k| sm[k] != signs[k]), "Link::mirror-negates-crossing-signs");
    }
    Ok(())
}
crate::harness_table!(XING: xing_pass, xing_arcs, xing_resolve, xing_mirror, xing_link_resolve, xing_braid_closure);
crate::harness_table_should_panic!(XING_REJECT: xing_reject_resolve_twice);
