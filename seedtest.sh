#!/bin/bash
# seedtest.sh <seed-name> <agent-worktree|-> <demo-rel-path> <crate> <property...>   ('-' = files already under /verif/seeded/<name>)
# confirm a seeded change in the scratch worktree /var/tmp/mut, store it under /verif/seeded/<name>,
# then run the registered checks of the given properties against it (applied to /repo, undone afterwards).
set -u
name=$1; wt=$2; demo=$3; crate=$4; shift 4
out=/verif/seeded/$name; mkdir -p $out
if [ "$wt" != "-" ]; then
cp $wt/seed_out/patch.diff $out/patch.diff; cp $wt/seed_out/notes.md $out/notes.md 2>/dev/null
cp $wt/$demo $out/$(basename $demo)
fi
M=/var/tmp/mut
[ -d $M ] || git -C /repo worktree add -q --detach $M HEAD   # scratch worktree outside /repo and /verif; remove it when done: git -C /repo worktree remove --force $M
cd $M && git checkout -q --detach $(git -C /repo rev-parse HEAD) && git checkout -q -- . && git clean -fdq -e target
git apply $out/patch.diff || { echo "PATCH DOES NOT APPLY"; exit 2; }
mkdir -p $(dirname $M/$demo); cp $out/$(basename $demo) $M/$demo
suite=$(cargo test --workspace --no-fail-fast --offline --lib --bins 2>&1 | grep -E "^test result" | awk '{p+=$4; f+=$6} END {print p" passed "f" failed"}')
echo "suite with change: $suite"
t=$(basename $demo .rs)
cargo test -p $crate --offline --test $t > /tmp/demo_with.log 2>&1; with=$?
git apply -R $out/patch.diff
cargo test -p $crate --offline --test $t > /tmp/demo_without.log 2>&1; without=$?
rm -f $M/$demo; git checkout -q -- .; git clean -fdq -e target
echo "demo with change: exit $with ; without: exit $without"
res=""
cd /repo && git apply $out/patch.diff
for p in "$@"; do
  cd /verif && ./check $p > /tmp/seed_check_$p.log 2>&1; rc=$?
  echo "check $p -> exit $rc"; grep -E "^(VIOLATION|UNDECIDED|SUMMARY)" /tmp/seed_check_$p.log | cut -c1-220
  res="$res $p:$rc"
done
git -C /repo checkout -- .
python3 - "$name" "$suite" "$with" "$without" "$res" "$demo" "$crate" <<'PY'
import json,sys,os
name,suite,w,wo,res,demo,crate=sys.argv[1:8]
out='/verif/seeded/'+name
meta={"name":name,"suite_with_change":suite,"demo":os.path.basename(demo),"demo_place_at":demo,"demo_cmd":"cargo test -p %s --offline --test %s"%(crate,os.path.basename(demo)[:-3]),
 "demo_exit_with_change":int(w),"demo_exit_without_change":int(wo),"checks":{kv.split(':')[0]:int(kv.split(':')[1]) for kv in res.split()},
 "confirmed": int(w)!=0 and int(wo)==0 and suite.endswith(" 0 failed")}
old={}
if os.path.exists(out+'/meta.json'): old=json.load(open(out+'/meta.json'))
old.update(meta); json.dump(old,open(out+'/meta.json','w'),indent=1)
print(json.dumps(meta))
PY
