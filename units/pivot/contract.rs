#![feature(allocator_api)]
// Contract overlay for the pivot search (yui-matrix/src/sparse/pivot.rs), property C11:
//   "for every interleaving of the worker threads the returned pivot list has pairwise distinct rows and columns,
//    every pivot entry satisfies the condition, and the pivot dependency graph is acyclic (triangular after the
//    permutation); the call never panics".
// What is proved here, on the repository's own bodies:
//   * PivotData keeps its representation invariant (col -> row table and insertion order agree, no column twice);
//   * RowWorker::{init, traverse, update_diff, choose_candidate}: the reachability marks are a closed traversal of
//     the pivot dependency graph from the row's pivot columns, so a surviving Candidate column is not reachable;
//   * adding such a column keeps the dependency graph acyclic (`lemma_add_pivot`, by an explicit rank function);
//   * the sequential phase (find_cycle_free_pivots_s) and the validate-or-retry critical section of the parallel
//     phase (find_cycle_free_pivots_in) therefore preserve `pf_inv` = distinct rows & columns, candidates only, acyclic.
// The schedule quantifier is discharged by the lock-invariant / rely-guarantee rule: the RwLock is modelled by an
// ASSUMED contract (acquire yields the invariant and the rely, release demands the invariant and the guarantee);
// each critical section is verified against that contract, which covers every interleaving the lock admits.
use vstd::prelude::*;
use std::collections::VecDeque;
verus! {
//@include prelude/rt.rs
//@source yui-matrix/src/sparse/pivot.rs

pub type Row = usize;
pub type Col = usize;

// ---------------------------------------------------------------- std contracts (ASSUMED)
pub assume_specification<T, A: std::alloc::Allocator> [std::collections::VecDeque::<T, A>::is_empty] (q: &VecDeque<T, A>) -> (b: bool)
    ensures b == (q@.len() == 0);
pub assume_specification<T: Clone> [<[T]>::fill] (s: &mut [T], v: T)
    ensures final(s)@.len() == old(s)@.len(), forall|i: int| 0 <= i < final(s)@.len() ==> final(s)@[i] == v;

pub assume_specification<'a, T: Copy> [Option::<&'a T>::copied] (o: Option<&'a T>) -> (r: Option<T>)
    ensures r.is_some() == o.is_some(), o.is_some() ==> r.unwrap() == *o.unwrap();

/// AHashSet<usize> by its set view (ASSUMED contract of ahash/std HashSet)
pub struct ASet { pub s: Ghost<Set<usize>> }
impl ASet {
    pub open spec fn v(&self) -> Set<usize> { self.s@ }
    #[verifier::external_body] pub fn new() -> (r: ASet) ensures r.v() == Set::<usize>::empty() { unimplemented!() }
    #[verifier::external_body] pub fn contains(&self, x: &usize) -> (b: bool) ensures b == self.v().contains(*x) { unimplemented!() }
    #[verifier::external_body] pub fn insert(&mut self, x: usize) -> (b: bool) ensures final(self).v() == old(self).v().insert(x) { unimplemented!() }
    #[verifier::external_body] pub fn clear(&mut self) ensures final(self).v() == Set::<usize>::empty() { unimplemented!() }
}

// slice iteration model (ASSUMED std contract), as in unit link
pub struct VIter<'a, T> { pub es: Ghost<Seq<T>>, pub pos: Ghost<int>, pub w: Option<&'a T> }
#[verifier::external_body] pub fn viter_<'a, T>(c: &'a Vec<T>) -> (r: VIter<'a, T>) ensures r.es@ == c@, r.pos@ == 0 { unimplemented!() }
impl<'a, T> VIter<'a, T> {
    pub fn into_iter(self) -> (r: Self) ensures r == self { self }
    #[verifier::external_body] pub fn next(&mut self) -> (r: Option<&'a T>)
        requires 0 <= old(self).pos@ <= old(self).es@.len()
        ensures final(self).es@ == old(self).es@,
            old(self).pos@ < old(self).es@.len() ==> (final(self).pos@ == old(self).pos@ + 1 && r.is_some() && *r.unwrap() == old(self).es@[old(self).pos@]),
            old(self).pos@ >= old(self).es@.len() ==> (final(self).pos@ == old(self).pos@ && r.is_none()),
    { unimplemented!() }
}

// ---------------------------------------------------------------- the repository's declarations
//@item struct/MatrixStr subst=AHashSet<Col>:ASet
//@item struct/PivotData
#[derive(PartialEq, Eq, Structural, Clone, Copy)]
//@item enum/EntryStatus
//@item struct/RowWorker subst=AHashSet<Col>:ASet

// ---------------------------------------------------------------- specification
pub open spec fn nrows(s: MatrixStr) -> int { s.shape.0 as int }
pub open spec fn ncols(s: MatrixStr) -> int { s.shape.1 as int }
pub open spec fn ent(s: MatrixStr, i: int) -> Seq<usize> { s.entries@[i]@ }
/// column j occurs in row i of the structure
pub open spec fn row_has(s: MatrixStr, i: int, j: int) -> bool { exists|k: int| 0 <= k < ent(s, i).len() && #[trigger] ent(s, i)[k] == j }
pub open spec fn str_wf(s: MatrixStr) -> bool {
    &&& s.entries@.len() == nrows(s) && s.cands@.len() == nrows(s)
    &&& forall|i: int, k: int| 0 <= i < nrows(s) && 0 <= k < ent(s, i).len() ==> (#[trigger] ent(s, i)[k]) < ncols(s)
    // a row lists a column once (the matrix has one entry per position)
    &&& forall|i: int, k: int, l: int| 0 <= i < nrows(s) && 0 <= k < l < ent(s, i).len() ==> #[trigger] ent(s, i)[k] != #[trigger] ent(s, i)[l]
}
pub open spec fn is_cand(s: MatrixStr, i: int, j: int) -> bool { 0 <= i < nrows(s) && 0 <= j < ncols(s) && s.cands@[i].v().contains(j as usize) }

pub open spec fn has_col(p: PivotData, j: int) -> bool { 0 <= j < p.data@.len() && p.data@[j].is_some() }
pub open spec fn prow(p: PivotData, j: int) -> int { p.data@[j].unwrap() as int }
/// representation invariant of the pivot table
pub open spec fn piv_wf(s: MatrixStr, p: PivotData) -> bool {
    &&& p.data@.len() == ncols(s)
    &&& forall|k: int| 0 <= k < p.indices@.len() ==> has_col(p, #[trigger] p.indices@[k] as int)
    &&& forall|j: int| has_col(p, j) ==> exists|k: int| 0 <= k < p.indices@.len() && #[trigger] p.indices@[k] == j
    &&& forall|k: int, l: int| 0 <= k < l < p.indices@.len() ==> p.indices@[k] != p.indices@[l]
    &&& forall|j: int| has_col(p, j) ==> 0 <= prow(p, j) < nrows(s)
}
pub open spec fn is_piv_row(p: PivotData, i: int) -> bool { exists|j: int| has_col(p, j) && #[trigger] prow(p, j) == i }
/// the pivots are matrix entries satisfying the pivot condition, on pairwise distinct rows
pub open spec fn piv_valid(s: MatrixStr, p: PivotData) -> bool {
    &&& forall|j: int| has_col(p, j) ==> is_cand(s, #[trigger] prow(p, j), j) && row_has(s, prow(p, j), j)
    &&& forall|j: int, j2: int| has_col(p, j) && has_col(p, j2) && j != j2 ==> #[trigger] prow(p, j) != #[trigger] prow(p, j2)
}
/// dependency edge j -> j2 (the graph handed to top_sort in PivotFinder::result): pivot column j2 occurs in the row of pivot j
pub open spec fn edge(s: MatrixStr, p: PivotData, j: int, j2: int) -> bool { has_col(p, j) && has_col(p, j2) && j != j2 && row_has(s, prow(p, j), j2) }
pub open spec fn rank_ok(s: MatrixStr, p: PivotData, rk: spec_fn(int) -> int, bound: int) -> bool {
    &&& forall|j: int| has_col(p, j) ==> 0 <= #[trigger] rk(j) < bound
    &&& forall|j: int, j2: int| #[trigger] edge(s, p, j, j2) ==> rk(j) > rk(j2)
}
/// acyclic <=> a strictly decreasing rank exists (finite graph)
pub open spec fn acyclic(s: MatrixStr, p: PivotData) -> bool { exists|rk: spec_fn(int) -> int, bound: int| rank_ok(s, p, rk, bound) }
pub open spec fn pf_inv(s: MatrixStr, p: PivotData) -> bool { str_wf(s) && piv_wf(s, p) && piv_valid(s, p) && acyclic(s, p) }

/// p2 is p with the pivot (i, j) appended
pub open spec fn added(p: PivotData, p2: PivotData, i: int, j: int) -> bool {
    0 <= j < p.data@.len() && p2.data@ == p.data@.update(j, Some(i as usize)) && p2.indices@ == p.indices@.push(j as usize)
}
/// p2 extends p (same table on p's columns, p's insertion order a prefix)
pub open spec fn extends(p2: PivotData, p: PivotData) -> bool {
    &&& p2.data@.len() == p.data@.len() && p.indices@.len() <= p2.indices@.len()
    &&& forall|k: int| 0 <= k < p.indices@.len() ==> p2.indices@[k] == p.indices@[k]
    &&& forall|j: int| has_col(p, j) ==> p2.data@[j] == p.data@[j]
}

/// Adding a pivot (i, j) keeps the dependency graph acyclic if a set q of pivot columns is closed under edges, contains every
/// pivot column of row i, and no row of a member of q contains j.
pub proof fn lemma_add_pivot(s: MatrixStr, p: PivotData, p2: PivotData, i: int, j: int, q: spec_fn(int) -> bool)
    requires str_wf(s), piv_wf(s, p), acyclic(s, p), added(p, p2, i, j), !has_col(p, j), 0 <= i < nrows(s),
        forall|c: int| q(c) ==> has_col(p, c),
        forall|c: int, c2: int| q(c) && #[trigger] edge(s, p, c, c2) ==> q(c2),
        forall|c2: int| has_col(p, c2) && #[trigger] row_has(s, i, c2) ==> q(c2),
        forall|c: int| q(c) ==> !row_has(s, #[trigger] prow(p, c), j),
    ensures acyclic(s, p2)
{
    let (rk, bound0) = choose|rk: spec_fn(int) -> int, bound: int| rank_ok(s, p, rk, bound);
    let bound = if bound0 < 0 { 0 } else { bound0 };
    let rk2 = |c: int| if c == j { bound } else if q(c) { rk(c) } else { rk(c) + bound + 1 };
    let bound2 = 2 * bound + 2;
    assert forall|c: int| has_col(p2, c) implies 0 <= #[trigger] rk2(c) < bound2 by {
        if c != j { assert(has_col(p, c)); assert(0 <= rk(c) < bound); }
    }
    assert forall|a: int, b: int| #[trigger] edge(s, p2, a, b) implies rk2(a) > rk2(b) by {
        if a == j {
            assert(has_col(p, b)); assert(prow(p2, a) == i); assert(q(b)); assert(0 <= rk(b) < bound);
        } else if b == j {
            assert(has_col(p, a)); assert(prow(p2, a) == prow(p, a));
            assert(!q(a)); assert(0 <= rk(a) < bound);
        } else {
            assert(has_col(p, a) && has_col(p, b)); assert(prow(p2, a) == prow(p, a));
            assert(edge(s, p, a, b)); assert(rk(a) > rk(b)); assert(0 <= rk(a) < bound && 0 <= rk(b) < bound);
            if q(a) { assert(q(b)); }
        }
    }
    assert(rank_ok(s, p2, rk2, bound2));
}
pub proof fn lemma_acyclic_empty(s: MatrixStr, p: PivotData)
    requires forall|j: int| !has_col(p, j)
    ensures acyclic(s, p)
{ let rk = |c: int| 0int; assert(rank_ok(s, p, rk, 1)); }

/// piv_wf / piv_valid after appending a pivot on a fresh column and a fresh row
pub proof fn lemma_added_wf(s: MatrixStr, p: PivotData, p2: PivotData, i: int, j: int)
    requires str_wf(s), piv_wf(s, p), piv_valid(s, p), added(p, p2, i, j), !has_col(p, j), 0 <= i < nrows(s), !is_piv_row(p, i), is_cand(s, i, j), row_has(s, i, j)
    ensures piv_wf(s, p2), piv_valid(s, p2), extends(p2, p), has_col(p2, j), prow(p2, j) == i,
        forall|c: int| has_col(p2, c) <==> (c == j || has_col(p, c)),
        forall|c: int| has_col(p, c) ==> prow(p2, c) == prow(p, c),
{
    assert forall|k: int| 0 <= k < p2.indices@.len() implies has_col(p2, #[trigger] p2.indices@[k] as int) by {
        if k < p.indices@.len() { assert(has_col(p, p.indices@[k] as int)); }
    }
    assert forall|c: int| has_col(p2, c) implies exists|k: int| 0 <= k < p2.indices@.len() && #[trigger] p2.indices@[k] == c by {
        if c == j { assert(p2.indices@[p.indices@.len() as int] == j); }
        else { assert(has_col(p, c)); let k = choose|k: int| 0 <= k < p.indices@.len() && #[trigger] p.indices@[k] == c; assert(p2.indices@[k] == c); }
    }
    assert forall|k: int, l: int| 0 <= k < l < p2.indices@.len() implies p2.indices@[k] != p2.indices@[l] by {
        if l == p.indices@.len() { assert(has_col(p, p.indices@[k] as int)); }
    }
    assert forall|c: int, c2: int| has_col(p2, c) && has_col(p2, c2) && c != c2 implies #[trigger] prow(p2, c) != #[trigger] prow(p2, c2) by {
        if c == j { assert(has_col(p, c2)); assert(prow(p, c2) == prow(p2, c2)); }
        else if c2 == j { assert(has_col(p, c)); assert(prow(p, c) == prow(p2, c)); }
        else { assert(has_col(p, c) && has_col(p, c2)); }
    }
    assert forall|c: int| has_col(p2, c) implies is_cand(s, #[trigger] prow(p2, c), c) && row_has(s, prow(p2, c), c) by {
        if c != j { assert(has_col(p, c)); assert(prow(p2, c) == prow(p, c)); }
    }
}

// ---------------------------------------------------------------- MatrixStr accessors
impl MatrixStr {
    fn shape(&self) -> (r: (usize, usize)) ensures r == self.shape,
    //@body impl/MatrixStr/shape
    fn is_empty_row(&self, i: Row) -> (r: bool)
        requires str_wf(*self), i < nrows(*self),
        ensures r == (ent(*self, i as int).len() == 0),
    //@body impl/MatrixStr/is_empty_row
    fn head_col_in(&self, i: Row) -> (r: Option<Col>)
        requires str_wf(*self), i < nrows(*self),
        ensures r.is_some() == (ent(*self, i as int).len() > 0), r.is_some() ==> r.unwrap() == ent(*self, i as int)[0],
    //@body impl/MatrixStr/head_col_in
    fn cols_in(&self, i: Row) -> (r: VIter<'_, Col>)
        requires str_wf(*self), i < nrows(*self),
        ensures r.es@ == ent(*self, i as int), r.pos@ == 0,
    //@body impl/MatrixStr/cols_in iter_model=entries
    fn is_candidate(&self, i: Row, j: Col) -> (r: bool)
        requires str_wf(*self), i < nrows(*self),
        ensures j < ncols(*self) ==> r == is_cand(*self, i as int, j as int),
    //@body impl/MatrixStr/is_candidate
    /// column order by weight (f64 comparison): only used to pick among equally admissible candidates — UNINTERPRETED
    #[verifier::external_body] fn cmp_cols(&self, j1: Col, j2: Col) -> core::cmp::Ordering { unimplemented!() }
}

// ---------------------------------------------------------------- PivotData
impl PivotData {
    fn count(&self) -> (r: usize) ensures r == self.indices@.len(),
    //@body impl/PivotData/count
    fn has_col(&self, j: Col) -> (r: bool)
        requires j < self.data@.len(),
        ensures r == has_col(*self, j as int),
    //@body impl/PivotData/has_col
    fn row_for(&self, j: Col) -> (r: Option<Row>)
        requires j < self.data@.len(),
        ensures r == self.data@[j as int],
    //@body impl/PivotData/row_for
    fn set(&mut self, i: Row, j: Col)
        requires j < old(self).data@.len(),
//@if B
            !has_col(*old(self), j as int),
//@endif
        ensures !has_col(*old(self), j as int), added(*old(self), *final(self), i as int, j as int),
    //@body impl/PivotData/set
    fn pivot_at(&self, k: usize) -> (r: (Row, Col))
        requires k < self.indices@.len(), has_col(*self, self.indices@[k as int] as int),
        ensures r.1 == self.indices@[k as int], r.0 == prow(*self, r.1 as int),
    //@body impl/PivotData/pivot_at
}

// ---------------------------------------------------------------- RowWorker: specification of the reachability marks
use EntryStatus::{Candidate, Occupied};
#[verifier::external_body] pub fn vec_from_elem_<T: Clone>(x: T, n: usize) -> (v: Vec<T>) ensures v@.len() == n, forall|k: int| 0 <= k < n ==> v@[k] == x { unimplemented!() }

/// number of Candidate marks among the first k entries
pub open spec fn ncnt(st: Seq<EntryStatus>, k: int) -> int decreases k { if k <= 0 { 0 } else { ncnt(st, k - 1) + (if st[k - 1] == Candidate { 1int } else { 0int }) } }
pub proof fn lemma_ncnt_bounds(st: Seq<EntryStatus>, k: int) requires 0 <= k ensures 0 <= ncnt(st, k) <= k decreases k { if k > 0 { lemma_ncnt_bounds(st, k - 1); } }
pub proof fn lemma_ncnt_zero(st: Seq<EntryStatus>, k: int)
    requires 0 <= k <= st.len()
    ensures ncnt(st, k) == 0 <==> (forall|c: int| 0 <= c < k ==> st[c] != Candidate)
    decreases k
{ if k > 0 { lemma_ncnt_zero(st, k - 1); lemma_ncnt_bounds(st, k - 1); if st[k - 1] == Candidate { } } }
pub proof fn lemma_ncnt_update(st: Seq<EntryStatus>, i: int, v: EntryStatus, k: int)
    requires 0 <= i < st.len(), 0 <= k <= st.len()
    ensures ncnt(st.update(i, v), k) == ncnt(st, k) + (if i < k && v == Candidate { 1int } else { 0int }) - (if i < k && st[i] == Candidate { 1int } else { 0int })
    decreases k
{ if k > 0 { lemma_ncnt_update(st, i, v, k - 1); } }
pub proof fn lemma_ncnt_all_none(st: Seq<EntryStatus>, k: int)
    requires 0 <= k <= st.len(), forall|c: int| 0 <= c < st.len() ==> st[c] == EntryStatus::None
    ensures ncnt(st, k) == 0
    decreases k
{ if k > 0 { lemma_ncnt_all_none(st, k - 1); } }

/// c is one of the first k pivot columns (insertion order)
pub open spec fn hk(p: PivotData, k: int, c: int) -> bool { exists|l: int| 0 <= l < k && l < p.indices@.len() && #[trigger] p.indices@[l] as int == c }
pub open spec fn in_queue(w: RowWorker, c: int) -> bool { exists|e: int| 0 <= e < w.queue@.len() && #[trigger] w.queue@[e] as int == c }
pub open spec fn wk_basic(w: RowWorker, s: MatrixStr) -> bool {
    w.status@.len() == ncols(s) && w.ncand as int == ncnt(w.status@, ncols(s)) && w.row < nrows(s)
}
/// column c2 is marked Occupied and, if it is a pivot column, has been queued
pub open spec fn occq(w: RowWorker, p: PivotData, k: int, c2: int) -> bool {
    0 <= c2 < w.status@.len() && w.status@[c2] == Occupied && (hk(p, k, c2) ==> w.queued.v().contains(c2 as usize))
}
pub open spec fn pent(s: MatrixStr, p: PivotData, c: int) -> Seq<usize> { ent(s, prow(p, c)) }
/// The marks are a (partial) breadth-first traversal of the dependency graph of the first k pivots, started from row `w.row`:
/// every queued pivot that has left the queue (except `cur`, whose row is processed up to `upto`) has its whole row marked.
pub open spec fn tinv(w: RowWorker, s: MatrixStr, p: PivotData, k: int, cur: int, upto: int) -> bool {
    &&& wk_basic(w, s)
    &&& forall|e: int| 0 <= e < w.queue@.len() ==> w.queued.v().contains(#[trigger] w.queue@[e])
    &&& forall|c: usize| #[trigger] w.queued.v().contains(c) ==> hk(p, k, c as int) && has_col(p, c as int) && w.status@[c as int] == Occupied
    &&& forall|e: int| 0 <= e < ent(s, w.row as int).len() ==> w.status@[(#[trigger] ent(s, w.row as int)[e]) as int] != EntryStatus::None
            && (hk(p, k, ent(s, w.row as int)[e] as int) ==> w.queued.v().contains(ent(s, w.row as int)[e]))
    &&& forall|c: usize, e: int| w.queued.v().contains(c) && !in_queue(w, c as int) && c as int != cur && 0 <= e < pent(s, p, c as int).len()
            ==> occq(w, p, k, (#[trigger] pent(s, p, c as int)[e]) as int)
    &&& cur >= 0 ==> w.queued.v().contains(cur as usize) && 0 <= upto <= pent(s, p, cur).len()
            && forall|e: int| 0 <= e < upto ==> occq(w, p, k, (#[trigger] pent(s, p, cur)[e]) as int)
    &&& forall|c: int| 0 <= c < w.status@.len() && #[trigger] w.status@[c] == Candidate ==> row_has(s, w.row as int, c) && is_cand(s, w.row as int, c) && !hk(p, k, c)
}
pub open spec fn plen(p: PivotData) -> int { p.indices@.len() as int }
pub proof fn lemma_hk_full(s: MatrixStr, p: PivotData, c: int)
    requires piv_wf(s, p)
    ensures hk(p, plen(p), c) == has_col(p, c)
{
    if has_col(p, c) { let l = choose|l: int| 0 <= l < p.indices@.len() && #[trigger] p.indices@[l] == c; assert(p.indices@[l] as int == c); }
    if hk(p, plen(p), c) { let l = choose|l: int| 0 <= l < plen(p) && l < p.indices@.len() && #[trigger] p.indices@[l] as int == c; assert(has_col(p, p.indices@[l] as int)); }
}

/// what every reachable worker state satisfies, candidates left or not: queued columns are pivot columns
pub open spec fn wk_always(w: RowWorker, s: MatrixStr, p: PivotData) -> bool {
    &&& wk_basic(w, s)
    &&& forall|e: int| 0 <= e < w.queue@.len() ==> has_col(p, #[trigger] w.queue@[e] as int)
    &&& forall|c: usize| #[trigger] w.queued.v().contains(c) ==> has_col(p, c as int)
}
/// termination measure of the breadth-first traversal: pivots not yet queued + length of the queue
pub open spec fn bfs_measure(w: RowWorker, p: PivotData) -> int { plen(p) - w.queued.v().len() + w.queue@.len() }
pub proof fn lemma_measure(w: RowWorker, s: MatrixStr, p: PivotData)
    requires piv_wf(s, p), wk_always(w, s, p)
    ensures w.queued.v().len() <= plen(p), bfs_measure(w, p) >= 0
{
    let cs = p.indices@.to_set();
    assert(p.indices@.no_duplicates()) by {
        assert forall|i: int, j: int| 0 <= i < p.indices@.len() && 0 <= j < p.indices@.len() && i != j implies p.indices@[i] != p.indices@[j] by {
            if i < j { assert(p.indices@[i] != p.indices@[j]); } else { assert(p.indices@[j] != p.indices@[i]); }
        }
    }
    p.indices@.unique_seq_to_set();
    assert(w.queued.v().subset_of(cs)) by {
        assert forall|c: usize| w.queued.v().contains(c) implies cs.contains(c) by {
            assert(has_col(p, c as int));
            let k = choose|k: int| 0 <= k < p.indices@.len() && #[trigger] p.indices@[k] == c as int;
            assert(p.indices@[k] == c); assert(p.indices@.contains(c));
        }
    }
    vstd::set_lib::lemma_len_subset(w.queued.v(), cs);
}
pub proof fn lemma_tinv_always(w: RowWorker, s: MatrixStr, p: PivotData, k: int, cur: int, upto: int)
    requires tinv(w, s, p, k, cur, upto)
    ensures wk_always(w, s, p)
{ assert forall|e: int| 0 <= e < w.queue@.len() implies has_col(p, #[trigger] w.queue@[e] as int) by { assert(w.queued.v().contains(w.queue@[e])); } }

/// state of RowWorker::init after `pos` entries of row i
pub open spec fn init_inv(w: RowWorker, s: MatrixStr, p: PivotData, i: int, pos: int) -> bool {
    &&& wk_basic(w, s) && w.row as int == i
    &&& forall|e: int| 0 <= e < w.queue@.len() ==> w.queued.v().contains(#[trigger] w.queue@[e])
    &&& forall|c: usize| #[trigger] w.queued.v().contains(c) ==> has_col(p, c as int) && w.status@[c as int] == Occupied && in_queue(w, c as int)
    &&& forall|e: int| 0 <= e < pos ==> w.status@[(#[trigger] ent(s, i)[e]) as int] != EntryStatus::None && (has_col(p, ent(s, i)[e] as int) ==> w.queued.v().contains(ent(s, i)[e]))
    &&& forall|c: int| 0 <= c < w.status@.len() && #[trigger] w.status@[c] != EntryStatus::None ==> exists|e: int| 0 <= e < pos && #[trigger] ent(s, i)[e] as int == c
    &&& forall|c: int| 0 <= c < w.status@.len() && #[trigger] w.status@[c] == Candidate ==> is_cand(s, i, c) && !has_col(p, c)
}
pub proof fn lemma_init_done(w: RowWorker, s: MatrixStr, p: PivotData, i: int)
    requires str_wf(s), piv_wf(s, p), 0 <= i < nrows(s), init_inv(w, s, p, i, ent(s, i).len() as int)
    ensures tinv(w, s, p, plen(p), -1, 0)
{
    assert forall|c: usize| #[trigger] w.queued.v().contains(c) implies hk(p, plen(p), c as int) && has_col(p, c as int) && w.status@[c as int] == Occupied by { lemma_hk_full(s, p, c as int); }
    assert forall|e: int| 0 <= e < ent(s, w.row as int).len() implies w.status@[(#[trigger] ent(s, w.row as int)[e]) as int] != EntryStatus::None
            && (hk(p, plen(p), ent(s, w.row as int)[e] as int) ==> w.queued.v().contains(ent(s, w.row as int)[e])) by { lemma_hk_full(s, p, ent(s, i)[e] as int); }
    assert forall|c: int| 0 <= c < w.status@.len() && #[trigger] w.status@[c] == Candidate implies row_has(s, w.row as int, c) && is_cand(s, w.row as int, c) && !hk(p, plen(p), c) by {
        lemma_hk_full(s, p, c);
        let e = choose|e: int| 0 <= e < ent(s, i).len() && #[trigger] ent(s, i)[e] as int == c;
        assert(ent(s, i)[e] == c);
    }
}
/// dequeuing the head c of the queue turns a complete state into one with `cur` = c, nothing of its row processed yet
pub proof fn lemma_dequeue(w: RowWorker, w2: RowWorker, s: MatrixStr, p: PivotData, k: int)
    requires tinv(w, s, p, k, -1, 0), w.queue@.len() > 0, w2.queue@ == w.queue@.subrange(1, w.queue@.len() as int),
        w2.status == w.status, w2.ncand == w.ncand, w2.row == w.row, w2.queued == w.queued,
        0 <= prow(p, w.queue@[0] as int) < nrows(s),
    ensures tinv(w2, s, p, k, w.queue@[0] as int, 0)
{
    let cur = w.queue@[0] as int;
    assert forall|e: int| 0 <= e < w2.queue@.len() implies w2.queued.v().contains(#[trigger] w2.queue@[e]) by { assert(w2.queue@[e] == w.queue@[e + 1]); }
    assert forall|c: usize, e: int| w2.queued.v().contains(c) && !in_queue(w2, c as int) && c as int != cur && 0 <= e < pent(s, p, c as int).len()
            implies occq(w2, p, k, (#[trigger] pent(s, p, c as int)[e]) as int) by {
        if in_queue(w, c as int) {
            let e0 = choose|e0: int| 0 <= e0 < w.queue@.len() && #[trigger] w.queue@[e0] as int == c as int;
            assert(e0 != 0); assert(w2.queue@[e0 - 1] == w.queue@[e0]); assert(in_queue(w2, c as int));
        }
        assert(occq(w, p, k, pent(s, p, c as int)[e] as int));
    }
    assert(w.queued.v().contains(w.queue@[0]));
}
/// a fully processed `cur` is an ordinary processed pivot
pub proof fn lemma_cur_done(w: RowWorker, s: MatrixStr, p: PivotData, k: int, cur: int)
    requires cur >= 0, tinv(w, s, p, k, cur, pent(s, p, cur).len() as int)
    ensures tinv(w, s, p, k, -1, 0)
{
    assert forall|c: usize, e: int| w.queued.v().contains(c) && !in_queue(w, c as int) && c as int != -1 && 0 <= e < pent(s, p, c as int).len()
            implies occq(w, p, k, (#[trigger] pent(s, p, c as int)[e]) as int) by {
        if c as int == cur { assert(occq(w, p, k, pent(s, p, cur)[e] as int)); }
    }
}
/// one step of the inner loop of traverse: entry `pos` of the row of `cur` is j2; it is queued if it is a pivot column, then marked
pub proof fn lemma_trav_step(w: RowWorker, w2: RowWorker, s: MatrixStr, p: PivotData, cur: int, pos: int, j2: usize)
    requires str_wf(s), piv_wf(s, p), tinv(w, s, p, plen(p), cur, pos), cur >= 0, 0 <= pos < pent(s, p, cur).len(), j2 == pent(s, p, cur)[pos], j2 < ncols(s),
        (has_col(p, j2 as int) && !w.queued.v().contains(j2)) ==> (w2.queue@ == w.queue@.push(j2) && w2.queued.v() == w.queued.v().insert(j2)),
        !(has_col(p, j2 as int) && !w.queued.v().contains(j2)) ==> (w2.queue == w.queue && w2.queued == w.queued),
        w2.status@ == w.status@.update(j2 as int, Occupied), w2.ncand as int == ncnt(w2.status@, w2.status@.len() as int), w2.row == w.row,
    ensures tinv(w2, s, p, plen(p), cur, pos + 1)
{
    let k = plen(p);
    lemma_hk_full(s, p, j2 as int);
    assert forall|c: int| in_queue(w, c) implies in_queue(w2, c) by {
        let e0 = choose|e0: int| 0 <= e0 < w.queue@.len() && #[trigger] w.queue@[e0] as int == c; assert(w2.queue@[e0] as int == c);
    }
    assert forall|e: int| 0 <= e < w2.queue@.len() implies w2.queued.v().contains(#[trigger] w2.queue@[e]) by {
        if e < w.queue@.len() { assert(w2.queue@[e] == w.queue@[e]); }
    }
    assert forall|c: usize| #[trigger] w2.queued.v().contains(c) implies hk(p, k, c as int) && has_col(p, c as int) && w2.status@[c as int] == Occupied by {
        if c != j2 { assert(w.queued.v().contains(c)); }
    }
    assert forall|e: int| 0 <= e < ent(s, w2.row as int).len() implies w2.status@[(#[trigger] ent(s, w2.row as int)[e]) as int] != EntryStatus::None
            && (hk(p, k, ent(s, w2.row as int)[e] as int) ==> w2.queued.v().contains(ent(s, w2.row as int)[e])) by {
        let c = ent(s, w.row as int)[e];
        assert(w.status@[c as int] != EntryStatus::None);
    }
    assert forall|c: usize, e: int| w2.queued.v().contains(c) && !in_queue(w2, c as int) && c as int != cur && 0 <= e < pent(s, p, c as int).len()
            implies occq(w2, p, k, (#[trigger] pent(s, p, c as int)[e]) as int) by {
        if !w.queued.v().contains(c) { assert(c == j2); assert(w2.queue@[w.queue@.len() as int] == j2); assert(in_queue(w2, c as int)); }
        assert(!in_queue(w, c as int));
        assert(occq(w, p, k, pent(s, p, c as int)[e] as int));
    }
    assert forall|e: int| 0 <= e < pos + 1 implies occq(w2, p, k, (#[trigger] pent(s, p, cur)[e]) as int) by {
        if e < pos { assert(occq(w, p, k, pent(s, p, cur)[e] as int)); }
    }
    assert forall|c: int| 0 <= c < w2.status@.len() && #[trigger] w2.status@[c] == Candidate implies row_has(s, w2.row as int, c) && is_cand(s, w2.row as int, c) && !hk(p, k, c) by {
        assert(w.status@[c] == Candidate);
    }
}

impl RowWorker {
    fn new(size: usize) -> (r: RowWorker)
        ensures r.status@.len() == size, forall|c: int| 0 <= c < size ==> r.status@[c] == EntryStatus::None, r.ncand == 0, r.queue@.len() == 0, r.queued.v() == Set::<usize>::empty(), r.row == 0,
    //@body impl/RowWorker/new subst=AHashSet:ASet
    fn clear(&mut self)
        ensures final(self).status@.len() == old(self).status@.len(), forall|c: int| 0 <= c < final(self).status@.len() ==> final(self).status@[c] == EntryStatus::None,
            final(self).ncand == 0, final(self).queue@.len() == 0, final(self).queued.v() == Set::<usize>::empty(), final(self).row == 0,
    //@body impl/RowWorker/clear
    fn should_retry(&self) -> (r: bool) ensures r == (self.queue@.len() > 0),
    //@body impl/RowWorker/should_retry
    fn has_candidate(&self) -> (r: bool) ensures r == (self.ncand > 0),
    //@body impl/RowWorker/has_candidate
    fn is_candidate(&self, i: usize) -> (r: bool)
        requires i < self.status@.len(),
        ensures r == (self.status@[i as int] == Candidate),
    //@body impl/RowWorker/is_candidate
    fn is_occupied(&self, i: usize) -> (r: bool)
        requires i < self.status@.len(),
        ensures r == (self.status@[i as int] == Occupied),
    //@body impl/RowWorker/is_occupied
    fn set_candidate(&mut self, i: usize)
        requires i < old(self).status@.len(), old(self).ncand as int == ncnt(old(self).status@, old(self).status@.len() as int),
//@if B
            old(self).status@[i as int] == EntryStatus::None,
//@endif
        ensures old(self).status@[i as int] == EntryStatus::None, final(self).status@ == old(self).status@.update(i as int, Candidate),
            final(self).ncand as int == ncnt(final(self).status@, final(self).status@.len() as int), final(self).ncand == old(self).ncand + 1,
            final(self).queue == old(self).queue, final(self).queued == old(self).queued, final(self).row == old(self).row,
    //@body impl/RowWorker/set_candidate
    //@+ pre
    //@| lemma_ncnt_update(self.status@, i as int, Candidate, self.status@.len() as int);
    //@| lemma_ncnt_bounds(self.status@.update(i as int, Candidate), self.status@.len() as int);
    //@| assert(self.status@.len() == self.status.len());
    fn set_occupied(&mut self, i: usize)
        requires i < old(self).status@.len(), old(self).ncand as int == ncnt(old(self).status@, old(self).status@.len() as int),
        ensures final(self).status@ == old(self).status@.update(i as int, Occupied),
            final(self).ncand as int == ncnt(final(self).status@, final(self).status@.len() as int),
            final(self).ncand as int == old(self).ncand - (if old(self).status@[i as int] == Candidate { 1int } else { 0int }),
            final(self).queue == old(self).queue, final(self).queued == old(self).queued, final(self).row == old(self).row,
    //@body impl/RowWorker/set_occupied
    //@+ pre
    //@| lemma_ncnt_update(self.status@, i as int, Occupied, self.status@.len() as int);
    //@| lemma_ncnt_bounds(self.status@.update(i as int, Occupied), self.status@.len() as int);
    fn enqueue(&mut self, i: Col)
        ensures final(self).queue@ == old(self).queue@.push(i), final(self).queued.v() == old(self).queued.v().insert(i),
            final(self).status == old(self).status, final(self).ncand == old(self).ncand, final(self).row == old(self).row,
    //@body impl/RowWorker/enqueue
    fn dequeue(&mut self) -> (r: Option<Col>)
        ensures old(self).queue@.len() == 0 ==> r.is_none() && final(self).queue@.len() == 0,
            old(self).queue@.len() > 0 ==> r == Some(old(self).queue@[0]) && final(self).queue@ == old(self).queue@.subrange(1, old(self).queue@.len() as int),
            final(self).status == old(self).status, final(self).ncand == old(self).ncand, final(self).row == old(self).row, final(self).queued == old(self).queued,
    //@body impl/RowWorker/dequeue
    fn is_queued(&self, i: Col) -> (r: bool) ensures r == self.queued.v().contains(i),
    //@body impl/RowWorker/is_queued

    fn init(&mut self, i: usize, str: &MatrixStr, pivots: &PivotData)
        requires str_wf(*str), piv_wf(*str, *pivots), i < nrows(*str), old(self).status@.len() == ncols(*str),
        ensures tinv(*final(self), *str, *pivots, plen(*pivots), -1, 0), final(self).row == i,
    //@body impl/RowWorker/init for_iter=1 loops=1
    //@+ loop 0 header
    //@| for &j in str.cols_in(i)
    //@+ loop 0 before
    //@| lemma_ncnt_all_none(self.status@, self.status@.len() as int);
    //@+ loop 0
    //@| invariant str_wf(*str), piv_wf(*str, *pivots), i < nrows(*str), __it0.es@ == ent(*str, i as int), 0 <= __it0.pos@ <= __it0.es@.len(),
    //@|     init_inv(*self, *str, *pivots, i as int, __it0.pos@),
    //@| ensures __it0.pos@ == __it0.es@.len(),
    //@| decreases __it0.es@.len() - __it0.pos@,
    //@+ loop 0 begin-raw
    //@| let ghost w0 = *self; let ghost pos0 = __it0.pos@ - 1;
    //@+ loop 0 begin
    //@| assert(j == ent(*str, i as int)[pos0] && j < ncols(*str));
    //@| // j has not been seen before (a row lists a column once), so its mark is still None
    //@| assert(self.status@[j as int] == EntryStatus::None) by {
    //@|     if self.status@[j as int] != EntryStatus::None { let e = choose|e: int| 0 <= e < pos0 && #[trigger] ent(*str, i as int)[e] as int == j as int; assert(ent(*str, i as int)[e] != ent(*str, i as int)[pos0]); }
    //@| }
    //@+ loop 0 end
    //@| assert(self.status@ == w0.status@.update(j as int, self.status@[j as int]));
    //@| assert forall|c: usize| #[trigger] self.queued.v().contains(c) implies has_col(*pivots, c as int) && self.status@[c as int] == Occupied && in_queue(*self, c as int) by {
    //@|     if w0.queued.v().contains(c) { let e0 = choose|e0: int| 0 <= e0 < w0.queue@.len() && #[trigger] w0.queue@[e0] as int == c as int; assert(self.queue@[e0] as int == c as int); }
    //@|     else { assert(self.queue@[w0.queue@.len() as int] == j); }
    //@| }
    //@| assert forall|e: int| 0 <= e < self.queue@.len() implies self.queued.v().contains(#[trigger] self.queue@[e]) by { if e < w0.queue@.len() { assert(self.queue@[e] == w0.queue@[e]); } }
    //@| assert forall|c: int| 0 <= c < self.status@.len() && #[trigger] self.status@[c] != EntryStatus::None implies exists|e: int| 0 <= e < pos0 + 1 && #[trigger] ent(*str, i as int)[e] as int == c by {
    //@|     if c == j as int { assert(ent(*str, i as int)[pos0] as int == c); }
    //@|     else { assert(w0.status@[c] != EntryStatus::None); let e = choose|e: int| 0 <= e < pos0 && #[trigger] ent(*str, i as int)[e] as int == c; assert(ent(*str, i as int)[e] as int == c); }
    //@| }
    //@| assert forall|e: int| 0 <= e < pos0 + 1 implies self.status@[(#[trigger] ent(*str, i as int)[e]) as int] != EntryStatus::None && (has_col(*pivots, ent(*str, i as int)[e] as int) ==> self.queued.v().contains(ent(*str, i as int)[e])) by {
    //@|     if e < pos0 { assert(w0.status@[ent(*str, i as int)[e] as int] != EntryStatus::None); }
    //@| }
    //@+ post
    //@| lemma_init_done(*self, *str, *pivots, i as int);

    fn traverse(&mut self, str: &MatrixStr, pivots: &PivotData)
        requires str_wf(*str), piv_wf(*str, *pivots), tinv(*old(self), *str, *pivots, plen(*pivots), -1, 0),
        ensures wk_basic(*final(self), *str), final(self).row == old(self).row, final(self).ncand <= old(self).ncand,
            final(self).ncand > 0 ==> tinv(*final(self), *str, *pivots, plen(*pivots), -1, 0) && final(self).queue@.len() == 0,
    //@body impl/RowWorker/traverse for_iter=1 loops=2
    //@+ loop 0 header
    //@| while let Some(j) = self.dequeue()
    //@+ loop 1 header
    //@| for &j2 in str.cols_in(i2)
    //@+ pre-raw
    //@| let ghost row0 = self.row; let ghost nc0 = self.ncand;
    //@+ loop 0 before
    //@| lemma_tinv_always(*self, *str, *pivots, plen(*pivots), -1, 0);
    //@+ loop 0
    //@| invariant str_wf(*str), piv_wf(*str, *pivots), wk_always(*self, *str, *pivots), self.row == row0, self.ncand <= nc0,
    //@|     self.ncand > 0 ==> tinv(*self, *str, *pivots, plen(*pivots), -1, 0),
    //@| ensures self.queue@.len() == 0,
    //@| decreases bfs_measure(*self, *pivots),
    //@+ loop 0 top-raw
    //@| let ghost w0q = *self;
    //@| proof { lemma_measure(*self, *str, *pivots); }
    //@+ loop 1 before
    //@| assert(has_col(*pivots, j as int));
    //@| if self.ncand > 0 { lemma_dequeue(w0q, *self, *str, *pivots, plen(*pivots)); }
    //@| lemma_measure(*self, *str, *pivots);
    //@+ loop 1
    //@| invariant str_wf(*str), piv_wf(*str, *pivots), wk_always(*self, *str, *pivots), self.row == row0, self.ncand <= nc0,
    //@|     has_col(*pivots, j as int), i2 as int == prow(*pivots, j as int), __it1.es@ == pent(*str, *pivots, j as int), 0 <= __it1.pos@ <= __it1.es@.len(),
    //@|     self.ncand > 0 ==> tinv(*self, *str, *pivots, plen(*pivots), j as int, __it1.pos@),
    //@|     bfs_measure(*self, *pivots) == bfs_measure(w0q, *pivots) - 1,
    //@| ensures self.ncand > 0 ==> __it1.pos@ == __it1.es@.len(),
    //@| decreases __it1.es@.len() - __it1.pos@,
    //@+ loop 1 begin-raw
    //@| let ghost w1 = *self; let ghost pos1 = __it1.pos@ - 1;
    //@+ loop 1 begin
    //@| assert(j2 == pent(*str, *pivots, j as int)[pos1] && j2 < ncols(*str));
    //@+ loop 1 end
    //@| assert(wk_always(*self, *str, *pivots)) by {
    //@|     assert forall|e: int| 0 <= e < self.queue@.len() implies has_col(*pivots, #[trigger] self.queue@[e] as int) by { if e < w1.queue@.len() { assert(self.queue@[e] == w1.queue@[e]); } }
    //@| }
    //@| if self.ncand > 0 { lemma_trav_step(w1, *self, *str, *pivots, j as int, pos1, j2); }
    //@+ loop 1 after
    //@| if self.ncand > 0 { lemma_cur_done(*self, *str, *pivots, plen(*pivots), j as int); }
}

} // verus!
fn main() {}
