// Contract overlay for the cobordism-relation kernel of yui-khovanov/src/kh/internal/v2/cob.rs
// (properties C05 / C01, kernel only): CobComp::part_eval's inner `eval`, is_zero_cob, is_unit_cob,
// should_part_eval, is_closed, is_sph.
// Independent specification (not read off the code): the rank-2 Frobenius algebra
//     A = R[X] / (X^2 - hX - t),   Y = X - h,   handle element 2X - h = X + Y,   counit eps(1)=0, eps(X)=1.
// A closed component with g handles, x dots X and y dots Y evaluates to eps(X^x Y^y (2X-h)^g);
// an open one to a combination a0 [c] + aX [c;X] + aY [c;Y] with a0 + aX X + aY Y = X^x Y^y (2X-h)^g in A.
// Model: R := Z (h, t arbitrary integers, so the value is an integer polynomial in (h,t) and commutes
// with every ring homomorphism); LcCob<R> := abstract free module (assumed free-module contract).
use vstd::prelude::*;
verus! {
//@include prelude/rt.rs
//@source yui-khovanov/src/kh/internal/v2/cob.rs

// ---------------------------------------------------------------- the algebra A (pairs p0 + p1 X)
pub open spec fn amul(a: (int, int), b: (int, int), h: int, t: int) -> (int, int) {
    (a.0 * b.0 + a.1 * b.1 * t, a.0 * b.1 + a.1 * b.0 + a.1 * b.1 * h)
}
pub open spec fn aadd(a: (int, int), b: (int, int)) -> (int, int) { (a.0 + b.0, a.1 + b.1) }
pub open spec fn ascal(s: int, a: (int, int)) -> (int, int) { (s * a.0, s * a.1) }
pub open spec fn apow(a: (int, int), n: nat, h: int, t: int) -> (int, int)
    decreases n
{ if n == 0 { (1, 0) } else { amul(a, apow(a, (n - 1) as nat, h, t), h, t) } }
pub open spec fn gx() -> (int, int) { (0, 1) }
pub open spec fn gy(h: int) -> (int, int) { (-h, 1) }
pub open spec fn gh(h: int) -> (int, int) { (-h, 2) }
/// X^x Y^y (2X - h)^g
pub open spec fn poly(g: nat, x: nat, y: nat, h: int, t: int) -> (int, int) {
    amul(amul(apow(gx(), x, h, t), apow(gy(h), y, h, t), h, t), apow(gh(h), g, h, t), h, t)
}

// ring laws of A (pure polynomial identities in the components), each reduced by hand to
// three-factor associativity / commutativity and distributivity steps so that every solver query is tiny
proof fn c2(a: int, b: int) by (nonlinear_arith) ensures a * b == b * a {}
proof fn m3(a: int, b: int, c: int) by (nonlinear_arith) ensures (a * b) * c == a * (b * c), (a * b) * c == (a * c) * b {}
proof fn d2(s: int, u: int, v: int) by (nonlinear_arith) ensures s * (u + v) == s * u + s * v, (u + v) * s == u * s + v * s {}
proof fn d3(s: int, u: int, v: int, w: int) by (nonlinear_arith) ensures s * (u + v + w) == s * u + s * v + s * w, (u + v + w) * s == u * s + v * s + w * s {}

pub proof fn amul_comm(a: (int, int), b: (int, int), h: int, t: int) ensures amul(a, b, h, t) == amul(b, a, h, t) {
    c2(a.0, b.0); c2(a.1, b.1); c2(a.0, b.1); c2(a.1, b.0);
}
proof fn k01(a: int, b: int) by (nonlinear_arith) ensures a * 1 == a, 1 * a == a, a * 0 == 0, 0 * a == 0, a * 0 * b == 0, 0 * a * b == 0, a * 1 * b == a * b, 1 * a * b == a * b, 1 * 1 * b == b {}
pub proof fn amul_one(a: (int, int), h: int, t: int) ensures amul(a, (1, 0), h, t) == a, amul((1, 0), a, h, t) == a {
    k01(a.0, t); k01(a.1, t); k01(a.1, h); k01(a.0, h);
    assert(amul(a, (1, 0), h, t) == (a.0 * 1 + a.1 * 0 * t, a.0 * 0 + a.1 * 1 + a.1 * 0 * h));
    amul_comm(a, (1, 0), h, t);
}
pub proof fn amul_scal(s: int, a: (int, int), h: int, t: int) ensures amul((s, 0), a, h, t) == ascal(s, a), amul(a, (s, 0), h, t) == ascal(s, a) {
    k01(a.0, t); k01(a.1, t); k01(a.1, h); k01(a.0, h);
    assert(amul((s, 0), a, h, t) == (s * a.0 + 0 * a.1 * t, s * a.1 + 0 * a.0 + 0 * a.1 * h));
    amul_comm(a, (s, 0), h, t);
}
pub proof fn amul_dist(a: (int, int), b: (int, int), c: (int, int), h: int, t: int)
    ensures amul(aadd(a, b), c, h, t) == aadd(amul(a, c, h, t), amul(b, c, h, t)), amul(c, aadd(a, b), h, t) == aadd(amul(c, a, h, t), amul(c, b, h, t))
{
    d2(c.0, a.0, b.0); d2(c.1, a.1, b.1); d2(t, a.1 * c.1, b.1 * c.1);
    d2(c.1, a.0, b.0); d2(c.0, a.1, b.1); d2(h, a.1 * c.1, b.1 * c.1);
    amul_comm(aadd(a, b), c, h, t); amul_comm(a, c, h, t); amul_comm(b, c, h, t);
}
pub proof fn amul_scal_left(s: int, a: (int, int), b: (int, int), h: int, t: int) ensures amul(ascal(s, a), b, h, t) == ascal(s, amul(a, b, h, t)) {
    m3(s, a.0, b.0); m3(s, a.1, b.1); m3(s, a.1 * b.1, t); d2(s, a.0 * b.0, a.1 * b.1 * t);
    m3(s, a.0, b.1); m3(s, a.1, b.0); m3(s, a.1 * b.1, h); d3(s, a.0 * b.1, a.1 * b.0, a.1 * b.1 * h);
}
pub proof fn amul_assoc(a: (int, int), b: (int, int), c: (int, int), h: int, t: int)
    ensures amul(amul(a, b, h, t), c, h, t) == amul(a, amul(b, c, h, t), h, t)
{
    let (a0, a1, b0, b1, c0, c1) = (a.0, a.1, b.0, b.1, c.0, c.1);
    // second component of a b and of b c
    let ab1 = a0 * b1 + a1 * b0 + a1 * b1 * h; let bc1 = b0 * c1 + b1 * c0 + b1 * c1 * h;
    // ---- expand the left-hand sides
    d2(c0, a0 * b0, a1 * b1 * t);                 // (a0b0 + a1b1t) c0
    d2(c1, a0 * b0, a1 * b1 * t);                 // (a0b0 + a1b1t) c1
    d3(c0, a0 * b1, a1 * b0, a1 * b1 * h);        // ab1 c0
    d3(c1, a0 * b1, a1 * b0, a1 * b1 * h);        // ab1 c1
    d3(t, (a0 * b1) * c1, (a1 * b0) * c1, (a1 * b1 * h) * c1);   // (ab1 c1) t
    d3(h, (a0 * b1) * c1, (a1 * b0) * c1, (a1 * b1 * h) * c1);   // (ab1 c1) h
    // ---- expand the right-hand sides
    d2(a0, b0 * c0, b1 * c1 * t);                 // a0 (b0c0 + b1c1t)
    d2(a1, b0 * c0, b1 * c1 * t);                 // a1 (b0c0 + b1c1t)
    d3(a0, b0 * c1, b1 * c0, b1 * c1 * h);        // a0 bc1
    d3(a1, b0 * c1, b1 * c0, b1 * c1 * h);        // a1 bc1
    d3(t, a1 * (b0 * c1), a1 * (b1 * c0), a1 * (b1 * c1 * h));   // (a1 bc1) t
    d3(h, a1 * (b0 * c1), a1 * (b1 * c0), a1 * (b1 * c1 * h));   // (a1 bc1) h
    // ---- match the monomials
    m3(a0, b0, c0); m3(a0, b0, c1); m3(a0, b1, c0); m3(a0, b1, c1);
    m3(a1, b0, c0); m3(a1, b0, c1); m3(a1, b1, c0); m3(a1, b1, c1);
    m3(a0, b1 * c1, t); m3(a0, b1 * c1, h); m3(a1, b1 * c1, t); m3(a1, b1 * c1, h);
    m3(a1 * b1, t, c0); m3(a1 * b1, t, c1); m3(a1 * b1, h, c0); m3(a1 * b1, h, c1);
    assert(ab1 == a0 * b1 + a1 * b0 + a1 * b1 * h); assert(bc1 == b0 * c1 + b1 * c0 + b1 * c1 * h);
    // component 0
    assert((a0 * b0 + a1 * b1 * t) * c0 + ab1 * c1 * t == a0 * (b0 * c0 + b1 * c1 * t) + a1 * bc1 * t);
    // component 1
    assert((a0 * b0 + a1 * b1 * t) * c1 + ab1 * c0 + ab1 * c1 * h == a0 * bc1 + a1 * (b0 * c0 + b1 * c1 * t) + a1 * bc1 * h);
}
/// (a b)(c d) = (a c)(b d)
pub proof fn amul_swap22(a: (int, int), b: (int, int), c: (int, int), d: (int, int), h: int, t: int)
    ensures amul(amul(a, b, h, t), amul(c, d, h, t), h, t) == amul(amul(a, c, h, t), amul(b, d, h, t), h, t)
{
    // (ab)(cd) = a(b(cd)) = a((bc)d) = a((cb)d) = a(c(bd)) = (ac)(bd)
    amul_assoc(a, b, amul(c, d, h, t), h, t); amul_assoc(b, c, d, h, t); amul_comm(b, c, h, t);
    amul_assoc(c, b, d, h, t); amul_assoc(a, c, amul(b, d, h, t), h, t);
}
// the defining relations
pub proof fn rel_xy(h: int, t: int) ensures amul(gx(), gy(h), h, t) == (t, 0int) {
    k01(-h, t); k01(1, t); k01(1, h); k01(-h, h);
    assert(amul(gx(), gy(h), h, t) == (0 * (-h) + 1 * 1 * t, 0 * 1 + 1 * (-h) + 1 * 1 * h));
}
pub proof fn rel_xx(h: int, t: int) ensures amul(gx(), gx(), h, t) == aadd(ascal(h, gx()), (t, 0int)) {
    k01(h, t); k01(1, t); k01(1, h);
    assert(amul(gx(), gx(), h, t) == (0 * 0 + 1 * 1 * t, 0 * 1 + 1 * 0 + 1 * 1 * h));
    assert(ascal(h, gx()) == (h * 0, h * 1));
}
pub proof fn rel_yy(h: int, t: int) ensures amul(gy(h), gy(h), h, t) == aadd(ascal(-h, gy(h)), (t, 0int)) {
    k01(-h, t); k01(1, t); k01(1, h); k01(-h, h);
    assert(amul(gy(h), gy(h), h, t) == ((-h) * (-h) + 1 * 1 * t, (-h) * 1 + 1 * (-h) + 1 * 1 * h));
    assert(ascal(-h, gy(h)) == ((-h) * (-h), (-h) * 1));
}
pub proof fn rel_handle(h: int) ensures gh(h) == aadd(gx(), gy(h)) {}

// ---- the five rewriting rules as identities between poly(...) ----
pub proof fn lemma_neck(g: nat, x: nat, y: nat, h: int, t: int)
    requires g > 0
    ensures poly(g, x, y, h, t) == aadd(poly((g - 1) as nat, x + 1, y, h, t), poly((g - 1) as nat, x, y + 1, h, t))
{
    let p = apow(gx(), x, h, t); let q = apow(gy(h), y, h, t); let r = apow(gh(h), (g - 1) as nat, h, t);
    let pq = amul(p, q, h, t);
    // H^g = (X + Y) H^(g-1)
    assert(apow(gh(h), g, h, t) == amul(gh(h), r, h, t));
    amul_assoc(pq, gh(h), r, h, t);                         // pq (H r) = (pq H) r
    amul_dist(gx(), gy(h), pq, h, t);                       // pq (X + Y) = pq X + pq Y
    amul_dist(amul(pq, gx(), h, t), amul(pq, gy(h), h, t), r, h, t);
    // pq X = (X p) q ,  pq Y = p (Y q)
    amul_comm(pq, gx(), h, t); amul_assoc(gx(), p, q, h, t);
    amul_assoc(p, q, gy(h), h, t); amul_comm(q, gy(h), h, t);
    assert(apow(gx(), x + 1, h, t) == amul(gx(), p, h, t));
    assert(apow(gy(h), y + 1, h, t) == amul(gy(h), q, h, t));
}
pub proof fn lemma_xy(x: nat, y: nat, h: int, t: int)
    requires x >= 1, y >= 1
    ensures poly(0, x, y, h, t) == ascal(t, poly(0, (x - 1) as nat, (y - 1) as nat, h, t))
{
    let p = apow(gx(), (x - 1) as nat, h, t); let q = apow(gy(h), (y - 1) as nat, h, t);
    amul_swap22(gx(), p, gy(h), q, h, t); rel_xy(h, t);
    amul_scal(t, amul(p, q, h, t), h, t);
    amul_one(amul(apow(gx(), x, h, t), apow(gy(h), y, h, t), h, t), h, t);
    amul_one(amul(p, q, h, t), h, t);
}
pub proof fn lemma_xx(x: nat, h: int, t: int)
    requires x >= 2
    ensures poly(0, x, 0, h, t) == aadd(ascal(h, poly(0, (x - 1) as nat, 0, h, t)), ascal(t, poly(0, (x - 2) as nat, 0, h, t)))
{
    let p2 = apow(gx(), (x - 2) as nat, h, t); let p1 = apow(gx(), (x - 1) as nat, h, t); let p0 = apow(gx(), x, h, t);
    assert(p1 == amul(gx(), p2, h, t)); assert(p0 == amul(gx(), p1, h, t));
    amul_assoc(gx(), gx(), p2, h, t); rel_xx(h, t);
    amul_dist(ascal(h, gx()), (t, 0int), p2, h, t); amul_scal_left(h, gx(), p2, h, t); amul_scal(t, p2, h, t);
    amul_one(p0, h, t); amul_one(p1, h, t); amul_one(p2, h, t);
    amul_one(amul(p0, (1, 0), h, t), h, t); amul_one(amul(p1, (1, 0), h, t), h, t); amul_one(amul(p2, (1, 0), h, t), h, t);
}
pub proof fn lemma_yy(y: nat, h: int, t: int)
    requires y >= 2
    ensures poly(0, 0, y, h, t) == aadd(ascal(-h, poly(0, 0, (y - 1) as nat, h, t)), ascal(t, poly(0, 0, (y - 2) as nat, h, t)))
{
    let q2 = apow(gy(h), (y - 2) as nat, h, t); let q1 = apow(gy(h), (y - 1) as nat, h, t); let q0 = apow(gy(h), y, h, t);
    assert(q1 == amul(gy(h), q2, h, t)); assert(q0 == amul(gy(h), q1, h, t));
    amul_assoc(gy(h), gy(h), q2, h, t); rel_yy(h, t);
    amul_dist(ascal(-h, gy(h)), (t, 0int), q2, h, t); amul_scal_left(-h, gy(h), q2, h, t); amul_scal(t, q2, h, t);
    amul_one(q0, h, t); amul_one(q1, h, t); amul_one(q2, h, t);
    amul_one(amul((1, 0), q0, h, t), h, t); amul_one(amul((1, 0), q1, h, t), h, t); amul_one(amul((1, 0), q2, h, t), h, t);
}
pub proof fn lemma_base(h: int, t: int)
    ensures poly(0, 0, 0, h, t) == (1int, 0int), poly(0, 1, 0, h, t) == gx(), poly(0, 0, 1, h, t) == gy(h)
{
    amul_one((1, 0), h, t); amul_one(gx(), h, t); amul_one(gy(h), h, t);
    assert(apow(gx(), 1, h, t) == amul(gx(), apow(gx(), 0, h, t), h, t));
    assert(apow(gy(h), 1, h, t) == amul(gy(h), apow(gy(h), 0, h, t), h, t));
}

// ---- S_g with equally many X and Y dots vanishes for even g:  X^n Y^n = t^n and (2X-h)^2 = h^2 + 4t are scalars ----
pub proof fn lemma_scalar_mul(a: (int, int), b: (int, int), h: int, t: int) requires a.1 == 0, b.1 == 0 ensures amul(a, b, h, t).1 == 0 {
    k01(a.0, h); k01(b.0, h); k01(a.0, t); k01(b.0, t);
    assert(amul(a, b, h, t).1 == a.0 * 0 + 0 * b.0 + 0 * 0 * h);
}
pub proof fn lemma_xnyn_scalar(n: nat, h: int, t: int) ensures amul(apow(gx(), n, h, t), apow(gy(h), n, h, t), h, t).1 == 0
    decreases n
{
    if n == 0 { amul_one((1, 0), h, t); } else {
        let p = apow(gx(), (n - 1) as nat, h, t); let q = apow(gy(h), (n - 1) as nat, h, t);
        lemma_xnyn_scalar((n - 1) as nat, h, t);
        amul_swap22(gx(), p, gy(h), q, h, t); rel_xy(h, t);
        lemma_scalar_mul((t, 0int), amul(p, q, h, t), h, t);
    }
}
pub proof fn lemma_hh_scalar(h: int, t: int) ensures amul(gh(h), gh(h), h, t).1 == 0 {
    k01(-h, h); k01(2, h);
    assert(amul(gh(h), gh(h), h, t).1 == (-h) * 2 + 2 * (-h) + 2 * 2 * h);
    assert(2 * 2 * h == 4 * h) by (nonlinear_arith);
}
pub proof fn lemma_heven_scalar(g: nat, h: int, t: int) requires g % 2 == 0 ensures apow(gh(h), g, h, t).1 == 0
    decreases g
{
    if g >= 2 {
        let r = apow(gh(h), (g - 2) as nat, h, t);
        lemma_heven_scalar((g - 2) as nat, h, t);
        assert(apow(gh(h), (g - 1) as nat, h, t) == amul(gh(h), r, h, t));
        assert(apow(gh(h), g, h, t) == amul(gh(h), apow(gh(h), (g - 1) as nat, h, t), h, t));
        amul_assoc(gh(h), gh(h), r, h, t); lemma_hh_scalar(h, t);
        lemma_scalar_mul(amul(gh(h), gh(h), h, t), r, h, t);
    }
}
pub proof fn lemma_zero_cob(g: nat, n: nat, h: int, t: int) requires g % 2 == 0 ensures poly(g, n, n, h, t).1 == 0 {
    lemma_xnyn_scalar(n, h, t); lemma_heven_scalar(g, h, t);
    lemma_scalar_mul(amul(apow(gx(), n, h, t), apow(gy(h), n, h, t), h, t), apow(gh(h), g, h, t), h, t);
}

// ---------------------------------------------------------------- models
pub struct Z { pub g: Ghost<int> }
pub trait ZL: Sized { spec fn v(&self) -> int; }
impl ZL for Z { open spec fn v(&self) -> int { self.g@ } }
impl ZL for &Z { open spec fn v(&self) -> int { self.g@ } }
impl Z {
    #[verifier::external_body] pub fn clone(&self) -> (r: Z) ensures r.v() == self.v() { unimplemented!() }
    #[verifier::external_body] pub fn zero() -> (r: Z) ensures r.v() == 0 { unimplemented!() }
}
#[verifier::external_body] pub fn neg_<A: ZL>(a: A) -> (r: Z) ensures r.v() == -a.v() { unimplemented!() }

/// abstract tangle (crossingless 1-manifold): only emptiness is observed by the kernel
pub struct Tng { pub id: Ghost<int>, pub empty: Ghost<bool> }
impl Tng {
    #[verifier::external_body] pub fn is_empty(&self) -> (r: bool) ensures r == self.empty@ { unimplemented!() }
    #[verifier::external_body] pub fn clone(&self) -> (r: Tng) ensures r == *self { unimplemented!() }
}
//@item struct/CobComp

/// basis elements of the free module: the empty cobordism, or a component (src, tgt) with genus and dots
pub ghost struct Key { pub empty: bool, pub src: int, pub tgt: int, pub g: int, pub x: int, pub y: int }
pub open spec fn kempty() -> Key { Key { empty: true, src: 0, tgt: 0, g: 0, x: 0, y: 0 } }
pub open spec fn kcomp(c: CobComp, x: int, y: int) -> Key { Key { empty: false, src: c.src.id@, tgt: c.tgt.id@, g: 0, x: x, y: y } }

pub struct Cob { pub k: Ghost<Key> }
impl Cob {
    #[verifier::external_body] pub fn empty() -> (r: Cob) ensures r.k@ == kempty() { unimplemented!() }
    #[verifier::external_body] pub fn is_empty(&self) -> (r: bool) ensures r == (self.k@ == kempty()) { unimplemented!() }
    #[verifier::external_body] pub fn from(c: CobComp) -> (r: Cob)
        ensures r.k@ == (Key { empty: false, src: c.src.id@, tgt: c.tgt.id@, g: c.genus as int, x: c.dots.0 as int, y: c.dots.1 as int }) { unimplemented!() }
}
/// Lc<Cob, R>: ASSUMED free-module contract (zero, generator, +, scalar multiple)
pub struct LcM { pub m: Ghost<Map<Key, int>> }
impl LcM { pub open spec fn at(&self, k: Key) -> int { if self.m@.dom().contains(k) { self.m@[k] } else { 0 } } }
pub struct Lc;
impl Lc {
    #[verifier::external_body] pub fn zero() -> (r: LcM) ensures forall|k: Key| r.at(k) == 0 { unimplemented!() }
    #[verifier::external_body] pub fn from(c: Cob) -> (r: LcM) ensures forall|k: Key| r.at(k) == (if k == c.k@ { 1int } else { 0int }) { unimplemented!() }
}
impl LcM {
    /// Lc stores exactly the non-zero terms (proved in unit lc): nterms / any_term in terms of the coefficient function
    #[verifier::external_body] pub fn nterms(&self) -> (r: usize)
        ensures (r == 0) <==> (forall|k: Key| self.at(k) == 0), r <= 1 ==> forall|k1: Key, k2: Key| self.at(k1) != 0 && self.at(k2) != 0 ==> k1 == k2 { unimplemented!() }
    #[verifier::external_body] pub fn any_term(&self) -> (r: Option<(&Cob, &Z)>)
        ensures r.is_none() <==> (forall|k: Key| self.at(k) == 0), r.is_some() ==> (r.unwrap().1.v() == self.at(r.unwrap().0.k@) && r.unwrap().1.v() != 0) { unimplemented!() }
}
#[verifier::external_body] pub fn lc_add(a: LcM, b: LcM) -> (r: LcM) ensures forall|k: Key| r.at(k) == a.at(k) + b.at(k) { unimplemented!() }
#[verifier::external_body] pub fn lc_scale<B: ZL>(a: LcM, b: B) -> (r: LcM) ensures forall|k: Key| r.at(k) == a.at(k) * b.v() { unimplemented!() }

pub open spec fn closed(c: &CobComp) -> bool { c.src.empty@ && c.tgt.empty@ }
/// interpretation of the open-component part in A:  a0 + aX X + aY Y
pub open spec fn interp(r: LcM, c: CobComp, h: int) -> (int, int) {
    (r.at(kcomp(c, 0, 0)) - h * r.at(kcomp(c, 0, 1)), r.at(kcomp(c, 1, 0)) + r.at(kcomp(c, 0, 1)))
}

/// `+` and `* r` on the module: the assumed pointwise contract (lc_add / lc_scale) plus, derived here,
/// linearity of the interpretation in A
pub fn add_(a: LcM, b: LcM) -> (r: LcM)
    ensures forall|k: Key| r.at(k) == a.at(k) + b.at(k),
        forall|c: CobComp, hh: int| #[trigger] interp(r, c, hh) == aadd(interp(a, c, hh), interp(b, c, hh)),
{
    let ghost (ga, gb) = (a, b);
    let r = lc_add(a, b);
    proof {
        assert forall|c: CobComp, hh: int| #[trigger] interp(r, c, hh) == aadd(interp(ga, c, hh), interp(gb, c, hh)) by {
            d2(hh, ga.at(kcomp(c, 0, 1)), gb.at(kcomp(c, 0, 1)));
        }
    }
    r
}
pub fn mul_<B: ZL>(a: LcM, b: B) -> (r: LcM)
    ensures forall|k: Key| r.at(k) == a.at(k) * b.v() && r.at(k) == b.v() * a.at(k),
        forall|c: CobComp, hh: int| #[trigger] interp(r, c, hh) == ascal(b.v(), interp(a, c, hh)),
{
    let ghost ga = a; let ghost s = b.v();
    let r = lc_scale(a, b);
    proof {
        assert forall|k: Key| r.at(k) == s * ga.at(k) by { c2(ga.at(k), s); }
        assert forall|c: CobComp, hh: int| #[trigger] interp(r, c, hh) == ascal(s, interp(ga, c, hh)) by {
            let (a00, a10, a01) = (ga.at(kcomp(c, 0, 0)), ga.at(kcomp(c, 1, 0)), ga.at(kcomp(c, 0, 1)));
            c2(a00, s); c2(a10, s); c2(a01, s);
            m3(hh, s, a01); m3(s, hh, a01); c2(hh, s);           // hh (s a01) == s (hh a01)
            d2(s, a00, -(hh * a01)); d2(s, a10, a01);
            assert(s * (-(hh * a01)) == -(s * (hh * a01))) by (nonlinear_arith);
        }
    }
    r
}

pub open spec fn support_ok(r: LcM, c: CobComp) -> bool {
    forall|k: Key| k != kempty() && k != kcomp(c, 0, 0) && k != kcomp(c, 1, 0) && k != kcomp(c, 0, 1) ==> #[trigger] r.at(k) == 0
}
/// the contract of `eval`
pub open spec fn eval_ok(r: LcM, c: CobComp, g: nat, x: nat, y: nat, h: int, t: int) -> bool {
    let p = poly(g, x, y, h, t);
    support_ok(r, c)
    && (closed(&c) ==> (r.at(kempty()) == p.1 && r.at(kcomp(c, 0, 0)) == 0 && r.at(kcomp(c, 1, 0)) == 0 && r.at(kcomp(c, 0, 1)) == 0))
    && (!closed(&c) ==> (r.at(kempty()) == 0 && interp(r, c, h) == p))
}

impl CobComp {
    pub fn is_closed(&self) -> (r: bool) ensures r == closed(self),
    //@body impl/CobComp/is_closed
    //@+ sig
    //@| fn is_closed(&self) -> bool

    pub fn is_sph(&self) -> (r: bool) ensures r == (closed(self) && self.genus == 0),
    //@body impl/CobComp/is_sph
    //@+ sig
    //@| fn is_sph(&self) -> bool

    pub fn is_zero_cob(&self) -> (r: bool)
        ensures r == (closed(self) && self.genus % 2 == 0 && self.dots.0 == self.dots.1),
            // such a component evaluates to 0 for every (h, t)
            r ==> forall|h: int, t: int| #[trigger] poly(self.genus as nat, self.dots.0 as nat, self.dots.1 as nat, h, t).1 == 0,
    //@body impl/CobComp/is_zero_cob
    //@+ sig
    //@| fn is_zero_cob(&self) -> bool
    //@+ pre
    //@| if self.genus % 2 == 0 && self.dots.0 == self.dots.1 {
    //@|     assert forall|h: int, t: int| #[trigger] poly(self.genus as nat, self.dots.0 as nat, self.dots.1 as nat, h, t).1 == 0 by { lemma_zero_cob(self.genus as nat, self.dots.0 as nat, h, t); }
    //@| }

    pub fn is_unit_cob(&self) -> (r: bool)
        ensures r == (closed(self) && self.genus == 0 && (self.dots == (1usize, 0usize) || self.dots == (0usize, 1usize))),
            // such a component evaluates to 1 for every (h, t)
            r ==> forall|h: int, t: int| #[trigger] poly(self.genus as nat, self.dots.0 as nat, self.dots.1 as nat, h, t).1 == 1,
    //@body impl/CobComp/is_unit_cob
    //@+ sig
    //@| fn is_unit_cob(&self) -> bool
    //@+ pre
    //@| assert forall|h: int, t: int| #[trigger] poly(0, 1, 0, h, t).1 == 1 by { lemma_base(h, t); }
    //@| assert forall|h: int, t: int| #[trigger] poly(0, 0, 1, h, t).1 == 1 by { lemma_base(h, t); }

    pub fn should_part_eval(&self) -> (r: bool)
        ensures !r ==> (!closed(self) && self.genus == 0 && (self.dots == (0usize, 0usize) || self.dots == (1usize, 0usize) || self.dots == (0usize, 1usize))),
    //@body impl/CobComp/should_part_eval
    //@+ sig
    //@| fn should_part_eval(&self) -> bool

    pub fn part_eval(&self, h: &Z, t: &Z) -> (r: LcM)
        requires self.genus + self.dots.0 + self.dots.1 <= usize::MAX,
        ensures eval_ok(r, *self, self.genus as nat, self.dots.0 as nat, self.dots.1 as nat, h.v(), t.v()),
    //@body impl/CobComp/part_eval
    //@+ sig
    //@| fn part_eval<R>(&self, h: &R, t: &R) -> LcCob<R> where R: Ring, for<'x> &'x R: RingOps<R>
}

impl CobComp {
    /// the value of a closed component: the counit applied to X^x Y^y (2X - h)^g
    pub fn eval(&self, h: &Z, t: &Z) -> (r: Z)
        requires self.genus + self.dots.0 + self.dots.1 <= usize::MAX,
        ensures closed(self), r.v() == poly(self.genus as nat, self.dots.0 as nat, self.dots.1 as nat, h.v(), t.v()).1,
    //@body impl/CobComp/eval subst=R:Z
    //@+ sig
    //@| fn eval<R>(&self, h: &R, t: &R) -> R where R: Ring, for<'x> &'x R: RingOps<R>
}

/// CobComp::part_eval::eval  (nested fn)
pub fn eval(c: &CobComp, g: usize, x: usize, y: usize, h: &Z, t: &Z) -> (r: LcM)
    requires g + x + y <= usize::MAX,
    ensures eval_ok(r, *c, g as nat, x as nat, y as nat, h.v(), t.v()),
    decreases g, x + y
//@body impl/CobComp/part_eval/eval ring=1 machine=g,x,y
//@+ sig
//@| fn eval<R>(c: &CobComp, g: usize, x: usize, y: usize, h: &R, t: &R) -> LcCob<R> where R: Ring, for<'x> &'x R: RingOps<R>
//@+ pre
//@| let (hv, tv) = (h.v(), t.v());
//@| if g > 0 { lemma_neck(g as nat, x as nat, y as nat, hv, tv); }
//@| if g == 0 && x >= 1 && y >= 1 { lemma_xy(x as nat, y as nat, hv, tv); }
//@| if g == 0 && x >= 2 && y == 0 { lemma_xx(x as nat, hv, tv); }
//@| if g == 0 && y >= 2 && x == 0 { lemma_yy(y as nat, hv, tv); }
//@| lemma_base(hv, tv);

} // verus!
fn main() {}
