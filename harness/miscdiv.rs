// C06 (valuation kernel) — witness search / replay on the real crate: misc::div is private, so it is
// reached through the public div_vec on a one-entry vector.  Rings: i64 (c = 2, 3) and Z[i] (c = 1 + i).
use super::src::*;
use crate::{ob, pre, reach};
use yui::GaussInt;
use yui_kh::misc::div_vec;
use yui_matrix::sparse::SpVec;

pub fn misc_div_valuation(s: &mut Src) -> R {
    let k = s.small(0, 20) as u32; let u = s.small(-1000, 1000); let c = s.small(2, 5);
    pre!(u != 0 && u % c != 0);
    reach!();
    // a = u c^k with c not dividing u: the valuation is exactly k
    let a = u * c.pow(k);
    let v = SpVec::from(vec![a]);
    ob!(div_vec(&v, &c) == Some(k as i32), "div::exact-valuation(i64)");
    ob!(div_vec(&SpVec::from(vec![0i64]), &c) == None, "div::zero-has-no-valuation");
    // Z[i], c = 1 + i (norm 2): (1+i)^k times an odd-norm element
    type G = GaussInt<i64>;
    let (p, q) = (s.small(-20, 20), s.small(-20, 20));
    pre!((p * p + q * q) % 2 == 1);
    let k2 = (k % 12) as usize;
    let cc = G::new(1, 1);
    let mut z = G::new(p, q);
    for _ in 0..k2 { z = &z * &cc; }
    ob!(div_vec(&SpVec::from(vec![z]), &cc) == Some(k2 as i32), "div::exact-valuation(Z[i])");
    // vectors: the minimum over the non-zero entries
    let (k3, u3) = (s.small(0, 20) as u32, s.small(-1000, 1000));
    pre!(u3 != 0 && u3 % c != 0);
    let b = u3 * c.pow(k3);
    ob!(div_vec(&SpVec::from(vec![a, 0, b]), &c) == Some(k.min(k3) as i32), "div_vec::min-over-non-zero-entries");
    ob!(div_vec(&SpVec::from(vec![0, b, 0, a]), &c) == Some(k.min(k3) as i32), "div_vec::order-independent");
    Ok(())
}
crate::harness_table!(MISC: misc_div_valuation [unwind 24]);
