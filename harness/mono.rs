// C16 (monomial layer) — contract harnesses on the real crate for Var / Var2 / Var3 with usize and
// isize exponents: product adds exponents, `one` is neutral, lex / grlex are total orders consistent
// with equality and compatible with multiplication.  Loop-free: complete for these types under the
// stated representability precondition (exponent sums do not overflow).
use super::src::*;
use crate::{ob, reach};
use num_traits::One;
use std::cmp::Ordering::{self, *};
use yui::poly::{Mono, MonoOrd, Var, Var2, Var3};

const LIM: i64 = 1 << 31;

type V1u = Var<'x', usize>;
type V1i = Var<'x', isize>;
type V2u = Var2<'x', 'y', usize>;
type V2i = Var2<'x', 'y', isize>;
type V3u = Var3<'x', 'y', 'z', usize>;
type V3i = Var3<'x', 'y', 'z', isize>;

fn lex2(a: (i64, i64), b: (i64, i64)) -> Ordering { a.0.cmp(&b.0).then(a.1.cmp(&b.1)) }
fn lex3(a: (i64, i64, i64), b: (i64, i64, i64)) -> Ordering { a.0.cmp(&b.0).then(a.1.cmp(&b.1)).then(a.2.cmp(&b.2)) }

macro_rules! order_axioms {
    ($cmp:expr, $a:expr, $b:expr, $c:expr, $tag:literal) => {
        ob!($cmp(&$a, &$a) == Equal, concat!($tag, "::reflexive"));
        ob!($cmp(&$a, &$b) == $cmp(&$b, &$a).reverse(), concat!($tag, "::antisymmetric-total"));
        ob!(($cmp(&$a, &$b) == Equal) == ($a == $b), concat!($tag, "::Equal-iff-eq"));
        ob!(!($cmp(&$a, &$b) != Greater && $cmp(&$b, &$c) != Greater) || $cmp(&$a, &$c) != Greater, concat!($tag, "::transitive"));
    };
}

macro_rules! var1_harness {
    ($name:ident, $t:ident, $v:ty, $lo:expr) => {
        pub fn $name(s: &mut Src) -> R {
            let (a, b, c) = (s.small($lo, LIM), s.small($lo, LIM), s.small($lo, LIM));
            reach!();
            let (x, y, z) = (<$v>::from(a as $t), <$v>::from(b as $t), <$v>::from(c as $t));
            ob!(x.clone() * y.clone() == <$v>::from((a + b) as $t), "Var::mul-adds-exponents");
            ob!(&x * &y == x.clone() * y.clone() && { let mut t = x.clone(); t *= &y; t == &x * &y }, "Var::mul-forms-agree");
            ob!(x.clone() * <$v>::one() == x && <$v>::one().deg() == 0, "Var::one-neutral");
            ob!((&x * &y) * z.clone() == x.clone() * (&y * &z) && &x * &y == &y * &x, "Var::mul-assoc-comm");
            ob!(x.cmp_lex(&y) == a.cmp(&b) && x.cmp_grlex(&y) == a.cmp(&b), "Var::order-is-exponent-order");
            order_axioms!(|p: &$v, q: &$v| p.cmp_lex(q), x, y, z, "Var::cmp_lex");
            ob!(x.cmp_lex(&y) == (&x * &z).cmp_lex(&(&y * &z)), "Var::order-compatible-with-mul");
            if $lo == 0 { ob!(<$v>::one().cmp_lex(&x) != Greater, "Var::one-is-least(unsigned)"); }
            ob!(x.deg() == a as $t, "Var::deg");
            Ok(())
        }
    };
}
var1_harness!(mono_var_usize, usize, V1u, 0);
var1_harness!(mono_var_isize, isize, V1i, -LIM);

macro_rules! var2_harness {
    ($alg:ident, $lexo:ident, $grlexo:ident, $t:ident, $v:ty, $lo:expr) => {
        pub fn $alg(s: &mut Src) -> R {
            let (a0, a1, b0, b1, c0, c1) = (s.small($lo, LIM), s.small($lo, LIM), s.small($lo, LIM), s.small($lo, LIM), s.small($lo, LIM), s.small($lo, LIM));
            reach!();
            let mk = |p: i64, q: i64| <$v>::from((p as $t, q as $t));
            let (x, y, z) = (mk(a0, a1), mk(b0, b1), mk(c0, c1));
            ob!(x.clone() * y.clone() == mk(a0 + b0, a1 + b1), "Var2::mul-adds-exponents");
            ob!(&x * &y == x.clone() * y.clone() && { let mut t = x.clone(); t *= &y; t == &x * &y }, "Var2::mul-forms-agree");
            ob!(x.clone() * <$v>::one() == x && <$v>::one() == mk(0, 0), "Var2::one-neutral");
            ob!((&x * &y) * z.clone() == x.clone() * (&y * &z) && &x * &y == &y * &x, "Var2::mul-assoc-comm");
            ob!(x.total_deg() == (a0 + a1) as $t && x.deg_for(0) == a0 as $t && x.deg_for(1) == a1 as $t && x.deg() == (a0 as $t, a1 as $t), "Var2::degrees");
            Ok(())
        }
        pub fn $lexo(s: &mut Src) -> R {
            let (a0, a1, b0, b1, c0, c1) = (s.small($lo, LIM), s.small($lo, LIM), s.small($lo, LIM), s.small($lo, LIM), s.small($lo, LIM), s.small($lo, LIM));
            reach!();
            let mk = |p: i64, q: i64| <$v>::from((p as $t, q as $t));
            let (x, y, z) = (mk(a0, a1), mk(b0, b1), mk(c0, c1));
            ob!(x.cmp_lex(&y) == lex2((a0, a1), (b0, b1)), "Var2::cmp_lex-is-lexicographic");
            order_axioms!(|p: &$v, q: &$v| p.cmp_lex(q), x, y, z, "Var2::cmp_lex");
            ob!(x.cmp_lex(&y) == (&x * &z).cmp_lex(&(&y * &z)), "Var2::cmp_lex-compatible-with-mul");
            if $lo == 0 { ob!(<$v>::one().cmp_lex(&x) != Greater, "Var2::one-is-least(unsigned)"); }
            Ok(())
        }
        pub fn $grlexo(s: &mut Src) -> R {
            let (a0, a1, b0, b1, c0, c1) = (s.small($lo, LIM), s.small($lo, LIM), s.small($lo, LIM), s.small($lo, LIM), s.small($lo, LIM), s.small($lo, LIM));
            reach!();
            let mk = |p: i64, q: i64| <$v>::from((p as $t, q as $t));
            let (x, y, z) = (mk(a0, a1), mk(b0, b1), mk(c0, c1));
            // the order axioms and compatibility with multiplication of the graded-lex key are the
            // pure lemmas of the Verus unit mono_order; here: the code computes that key order.
            let _ = &z;
            ob!(x.cmp_grlex(&y) == (a0 + a1).cmp(&(b0 + b1)).then(lex2((a0, a1), (b0, b1))), "Var2::cmp_grlex-is-graded-lexicographic");
            ob!((x.cmp_grlex(&y) == Equal) == (x == y), "Var2::cmp_grlex::Equal-iff-eq");
            if $lo == 0 { ob!(<$v>::one().cmp_grlex(&x) != Greater, "Var2::one-is-least(unsigned)"); }
            Ok(())
        }
    };
}
var2_harness!(mono_var2_alg_usize, mono_var2_lex_usize, mono_var2_grlex_usize, usize, V2u, 0);
var2_harness!(mono_var2_alg_isize, mono_var2_lex_isize, mono_var2_grlex_isize, isize, V2i, -LIM);

macro_rules! var3_harness {
    ($alg:ident, $lexo:ident, $grlexo:ident, $t:ident, $v:ty, $lo:expr) => {
        pub fn $alg(s: &mut Src) -> R {
            let (a0, a1, a2, b0, b1, b2) = (s.small($lo, LIM), s.small($lo, LIM), s.small($lo, LIM), s.small($lo, LIM), s.small($lo, LIM), s.small($lo, LIM));
            reach!();
            let mk = |p: i64, q: i64, r: i64| <$v>::from((p as $t, q as $t, r as $t));
            let (x, y) = (mk(a0, a1, a2), mk(b0, b1, b2));
            ob!(x.clone() * y.clone() == mk(a0 + b0, a1 + b1, a2 + b2), "Var3::mul-adds-exponents");
            ob!(&x * &y == x.clone() * y.clone() && { let mut t = x.clone(); t *= &y; t == &x * &y } && &x * &y == &y * &x, "Var3::mul-forms-agree-comm");
            ob!(x.clone() * <$v>::one() == x && <$v>::one() == mk(0, 0, 0), "Var3::one-neutral");
            ob!(x.total_deg() == (a0 + a1 + a2) as $t && x.deg_for(0) == a0 as $t && x.deg_for(1) == a1 as $t && x.deg_for(2) == a2 as $t, "Var3::degrees");
            Ok(())
        }
        pub fn $lexo(s: &mut Src) -> R {
            let (a0, a1, a2, b0, b1, b2, c0, c1, c2) = (s.small($lo, LIM), s.small($lo, LIM), s.small($lo, LIM), s.small($lo, LIM), s.small($lo, LIM), s.small($lo, LIM), s.small($lo, LIM), s.small($lo, LIM), s.small($lo, LIM));
            reach!();
            let mk = |p: i64, q: i64, r: i64| <$v>::from((p as $t, q as $t, r as $t));
            let (x, y, z) = (mk(a0, a1, a2), mk(b0, b1, b2), mk(c0, c1, c2));
            ob!(x.cmp_lex(&y) == lex3((a0, a1, a2), (b0, b1, b2)), "Var3::cmp_lex-is-lexicographic");
            order_axioms!(|p: &$v, q: &$v| p.cmp_lex(q), x, y, z, "Var3::cmp_lex");
            ob!(x.cmp_lex(&y) == (&x * &z).cmp_lex(&(&y * &z)), "Var3::cmp_lex-compatible-with-mul");
            Ok(())
        }
        pub fn $grlexo(s: &mut Src) -> R {
            let (a0, a1, a2, b0, b1, b2, c0, c1, c2) = (s.small($lo, LIM), s.small($lo, LIM), s.small($lo, LIM), s.small($lo, LIM), s.small($lo, LIM), s.small($lo, LIM), s.small($lo, LIM), s.small($lo, LIM), s.small($lo, LIM));
            reach!();
            let mk = |p: i64, q: i64, r: i64| <$v>::from((p as $t, q as $t, r as $t));
            let (x, y, z) = (mk(a0, a1, a2), mk(b0, b1, b2), mk(c0, c1, c2));
            let _ = &z;
            ob!(x.cmp_grlex(&y) == (a0 + a1 + a2).cmp(&(b0 + b1 + b2)).then(lex3((a0, a1, a2), (b0, b1, b2))), "Var3::cmp_grlex-is-graded-lexicographic");
            ob!((x.cmp_grlex(&y) == Equal) == (x == y), "Var3::cmp_grlex::Equal-iff-eq");
            Ok(())
        }
    };
}
var3_harness!(mono_var3_alg_usize, mono_var3_lex_usize, mono_var3_grlex_usize, usize, V3u, 0);
var3_harness!(mono_var3_alg_isize, mono_var3_lex_isize, mono_var3_grlex_isize, isize, V3i, -LIM);

// ------------------------------------------------------------------ MultiDeg<isize> (sparse exponent vectors)
// (witness search / replay for the Verus unit `mdeg`; BTreeMap-based: native only)
pub fn mono_mdeg(s: &mut Src) -> R {
    use yui::poly::MultiDeg;
    use num_traits::Zero;
    const N: usize = 4;
    let mut va = [0i64; N]; let mut vb = [0i64; N]; let mut vc = [0i64; N];
    for i in 0..N { va[i] = s.small(-2, 2); vb[i] = s.small(-2, 2); vc[i] = s.small(-2, 2); }
    reach!();
    let mk = |v: &[i64; N]| MultiDeg::<isize>::from_iter(v.iter().enumerate().map(|(i, &e)| (i, e as isize)));
    let same = |d: &MultiDeg<isize>, v: &[i64; N]| (0..N + 2).all(|i| d[i] as i64 == if i < N { v[i] } else { 0 })
        && d.ninds() == v.iter().filter(|e| **e != 0).count() && d.iter().all(|(_, e)| *e != 0) && d.is_zero() == v.iter().all(|e| *e == 0);
    let (a, b, c) = (mk(&va), mk(&vb), mk(&vc));
    ob!(same(&a, &va) && same(&b, &vb), "MultiDeg::from_iter::stores-no-zero-exponent");
    let mut vs = [0i64; N]; let mut vd = [0i64; N]; let mut vac = [0i64; N]; let mut vbc = [0i64; N];
    for i in 0..N { vs[i] = va[i] + vb[i]; vd[i] = va[i] - vb[i]; vac[i] = va[i] + vc[i]; vbc[i] = vb[i] + vc[i]; }
    let mut t = a.clone(); t += &b;
    ob!(same(&t, &vs), "MultiDeg::add_assign::exponentwise-sum-no-zero-stored");
    let mut t = a.clone(); t -= &b;
    ob!(same(&t, &vd), "MultiDeg::sub_assign::exponentwise-difference-no-zero-stored");
    ob!(a.total() as i64 == va.iter().sum::<i64>(), "MultiDeg::total-is-sum-of-exponents");
    ob!(a.all_leq(&b) == (0..N).all(|i| va[i] <= vb[i]), "MultiDeg::all_leq-is-componentwise");
    ob!(a.cmp_lex(&b) == va.cmp(&vb), "MultiDeg::cmp_lex-is-lexicographic");
    ob!(a.cmp_grlex(&b) == va.iter().sum::<i64>().cmp(&vb.iter().sum::<i64>()).then(va.cmp(&vb)), "MultiDeg::cmp_grlex-is-graded-lexicographic");
    let (ac, bc) = (mk(&vac), mk(&vbc));
    ob!(a.cmp_lex(&b) == ac.cmp_lex(&bc) && a.cmp_grlex(&b) == ac.cmp_grlex(&bc), "MultiDeg::orders-compatible-with-multiplication");
    Ok(())
}

crate::harness_table!(MONO:
    mono_var_usize, mono_var_isize,
    mono_var2_alg_usize, mono_var2_lex_usize, mono_var2_grlex_usize,
    mono_var2_alg_isize, mono_var2_lex_isize, mono_var2_grlex_isize,
    mono_var3_alg_usize, mono_var3_lex_usize, mono_var3_grlex_usize,
    mono_var3_alg_isize, mono_var3_lex_isize, mono_var3_grlex_isize,
    mono_mdeg,
);
