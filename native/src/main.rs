// Native replay / witness search: runs the very harness functions Kani verifies, on the
// real crates built from /repo's working tree.
//   native list
//   native replay <harness> <bytes-json>       e.g. [[255,255],[64,0,0,0,0,0,0,0]]
//   native search <harness> <seed> <iters>
// prints one line:  RESULT <ok|skipped|violated|panic> obligation=<..> inputs=<..> bytes=<json>
#[path = "../../harness/mod.rs"]
pub mod harness;
use harness::src::{Src, R};
use std::panic;

fn table() -> Vec<(&'static str, fn(&mut Src) -> R, bool)> {
    let mut t: Vec<(&'static str, fn(&mut Src) -> R, bool)> = vec![];
    for l in harness::all_tables() { for (n, f) in l.0 { t.push((n, *f, l.1)); } }
    t
}

fn parse_bytes(s: &str) -> Vec<Vec<u8>> {
    let mut out = vec![]; let mut cur: Option<Vec<u8>> = None; let mut num = String::new(); let mut depth = 0;
    for ch in s.chars() {
        match ch {
            '[' => { depth += 1; if depth == 2 { cur = Some(vec![]); } }
            ']' => { if depth == 2 { if !num.is_empty() { cur.as_mut().unwrap().push(num.parse().unwrap()); num.clear(); } out.push(cur.take().unwrap()); } depth -= 1; }
            ',' => { if depth == 2 && !num.is_empty() { cur.as_mut().unwrap().push(num.parse().unwrap()); num.clear(); } }
            c if c.is_ascii_digit() => num.push(c),
            _ => {}
        }
    }
    out
}
fn bytes_json(b: &Vec<Vec<u8>>) -> String {
    format!("[{}]", b.iter().map(|v| format!("[{}]", v.iter().map(|x| x.to_string()).collect::<Vec<_>>().join(","))).collect::<Vec<_>>().join(","))
}

/// (status, obligation)
fn run_one(f: fn(&mut Src) -> R, should_panic: bool, src: &mut Src) -> (&'static str, String) {
    let r = panic::catch_unwind(panic::AssertUnwindSafe(|| f(src)));
    match r {
        Ok(Ok(())) => if should_panic { ("violated", "must-reject::call-returned".into()) } else { ("ok", String::new()) },
        Ok(Err(e)) if e == "__pre__" => ("skipped", String::new()),
        Ok(Err(e)) => ("violated", e),
        Err(p) => {
            let msg = p.downcast_ref::<String>().cloned().or_else(|| p.downcast_ref::<&str>().map(|s| s.to_string())).unwrap_or_default();
            if should_panic { ("ok", String::new()) } else { ("panic", msg) }
        }
    }
}

fn main() {
    panic::set_hook(Box::new(|_| {}));
    let a: Vec<String> = std::env::args().collect();
    let t = table();
    match a.get(1).map(|s| s.as_str()) {
        Some("list") => for (n, _, sp) in &t { println!("{n}{}", if *sp { " should_panic" } else { "" }); },
        Some("replay") => {
            let (_, f, sp) = t.iter().find(|(n, _, _)| *n == a[2]).expect("no such harness");
            let limit: u64 = std::env::var("VERIF_WATCHDOG_S").ok().and_then(|v| v.parse().ok()).unwrap_or(120);
            let (f2, sp2) = (*f, *sp);
            let data = parse_bytes(&a[3]);
            let (tx, rx) = std::sync::mpsc::channel();
            let d2 = data.clone();
            let _h = std::thread::Builder::new().stack_size(512 << 20).spawn(move || {
                let mut src = Src::from_bytes(d2);
                let (st, ob) = run_one(f2, sp2, &mut src);
                let _ = tx.send((st, ob, src.log().clone(), src.raw()));
            }).expect("spawn");
            match rx.recv_timeout(std::time::Duration::from_secs(limit)) {
                Ok((st, ob, log, raw)) => {
                    println!("RESULT {st} obligation={:?} inputs={:?} bytes={}", ob, log, bytes_json(&raw));
                    std::process::exit(if st == "violated" || st == "panic" { 1 } else { 0 });
                }
                Err(_) => {
                    println!("RESULT violated obligation={:?} inputs={:?} bytes={}", format!("no-return-within-{limit}s"), Vec::<String>::new(), bytes_json(&data));
                    std::process::exit(1);
                }
            }
        }
        Some("search") => {
            let (_, f, sp) = t.iter().find(|(n, _, _)| *n == a[2]).expect("no such harness");
            let seed: u64 = a[3].parse().unwrap(); let iters: u64 = a[4].parse().unwrap();
            let mut ran = 0u64;
            // every sample runs under a watchdog: a call that does not come back (the properties say "returns ...") is reported with the
            // inputs drawn so far instead of hanging the check.  The limit is far above the milliseconds-to-seconds a sample takes.
            let limit: u64 = std::env::var("VERIF_WATCHDOG_S").ok().and_then(|v| v.parse().ok()).unwrap_or(120);
            let (f2, sp2) = (*f, *sp);
            // one worker thread runs all samples; the main thread waits for each with the time limit
            let (jtx, jrx) = std::sync::mpsc::channel::<u64>();
            let (tx, rx) = std::sync::mpsc::channel();
            let _h = std::thread::Builder::new().stack_size(512 << 20).spawn(move || {
                while let Ok(sd) = jrx.recv() {
                    harness::src::reset_last_draws();
                    let mut src = Src::from_seed(sd);
                    let (st, ob) = run_one(f2, sp2, &mut src);
                    let bad = st == "violated" || st == "panic";
                    if tx.send((st, ob, if bad { src.log().clone() } else { vec![] }, if bad { src.raw() } else { vec![] })).is_err() { break; }
                }
            }).expect("spawn");
            for k in 0..iters {
                let sd = seed.wrapping_mul(1_000_003).wrapping_add(k);
                jtx.send(sd).expect("worker");
                match rx.recv_timeout(std::time::Duration::from_secs(limit)) {
                    Ok((st, ob, log, raw)) => {
                        if st != "skipped" { ran += 1; }
                        if st == "violated" || st == "panic" {
                            println!("RESULT {st} obligation={:?} inputs={:?} bytes={}", ob, log, bytes_json(&raw));
                            std::process::exit(1);
                        }
                    }
                    Err(_) => {
                        let g = harness::src::LAST_DRAWS.lock().unwrap_or_else(|e| e.into_inner());
                        println!("RESULT violated obligation={:?} inputs={:?} bytes={}", format!("no-return-within-{limit}s"), g.0, bytes_json(&g.1));
                        std::process::exit(1);
                    }
                }
            }
            println!("RESULT ok evaluated={ran} of {iters}");
        }
        _ => { eprintln!("usage: native list|replay|search"); std::process::exit(2); }
    }
}
