// Contract overlay for the transform-tracking primitives of yui-matrix/src/dense/lll.rs (property C10:
// "returns H, P, P^-1 with H = P A and P P^-1 = I"):  LLLData::{swap, mul_row, add_row_to}.
// Ghost invariant, for an arbitrary original matrix A:
//     (p present)         target == P A
//     (p, pinv present)   P P^-1 == I and P^-1 P == I
// The Gram-Schmidt data (det, lambda) these functions also update is NOT under contract here: every
// lambda operation is modelled as an arbitrary change of lambda (the exact det/lambda update of `swap`
// and the Lovasz test are out of reach, see DESIGN.md).  Mat operations are ASSUMED to be left / right
// multiplication by the corresponding elementary matrix.
use vstd::prelude::*;
verus! {
//@include prelude/rt.rs
//@include prelude/er.rs
//@source yui-matrix/src/dense/lll.rs

pub uninterp spec fn mmul(a: int, b: int) -> int;
pub uninterp spec fn mid() -> int;
pub uninterp spec fn e_swap(i: int, j: int) -> int;
pub uninterp spec fn e_scale(i: int, u: int) -> int;
/// I + r e_{a,b}  (a != b): left multiplication adds r * row_b to row_a, right multiplication adds r * col_a to col_b
pub uninterp spec fn e_shear(a: int, b: int, r: int) -> int;
#[verifier::external_body] pub proof fn mx_assoc(a: int, b: int, c: int) ensures mmul(mmul(a, b), c) == mmul(a, mmul(b, c)) {}
#[verifier::external_body] pub proof fn mx_id(a: int) ensures mmul(mid(), a) == a, mmul(a, mid()) == a {}
#[verifier::external_body] pub proof fn mx_swap(i: int, j: int) ensures mmul(e_swap(i, j), e_swap(i, j)) == mid() {}
#[verifier::external_body] pub proof fn mx_scale(i: int, u: int, w: int) requires rmul(u, w) == r1()
    ensures mmul(e_scale(i, u), e_scale(i, w)) == mid(), mmul(e_scale(i, w), e_scale(i, u)) == mid() {}
#[verifier::external_body] pub proof fn mx_shear(a: int, b: int, r: int) requires a != b
    ensures mmul(e_shear(a, b, r), e_shear(a, b, rneg(r))) == mid(), mmul(e_shear(a, b, rneg(r)), e_shear(a, b, r)) == mid() {}

pub struct Mat { pub m: Ghost<int> }
/// stand-ins for nalgebra views of lambda (their effect on lambda is not tracked)
pub struct Inner { pub g: Ghost<int> }
pub struct NView { pub g: Ghost<int> }
impl Inner {
    #[verifier::external_body] pub fn column_mut(&mut self, j: usize) -> (r: NView) { unimplemented!() }
    #[verifier::external_body] pub fn row_mut(&mut self, j: usize) -> (r: NView) { unimplemented!() }
}
impl NView {
    #[verifier::external_body] pub fn swap_rows(&mut self, i: usize, j: usize) { unimplemented!() }
    #[verifier::external_body] pub fn swap_columns(&mut self, i: usize, j: usize) { unimplemented!() }
}
impl Mat {
    #[verifier::external_body] pub fn swap_rows(&mut self, i: usize, j: usize) ensures final(self).m@ == mmul(e_swap(i as int, j as int), old(self).m@) { unimplemented!() }
    #[verifier::external_body] pub fn swap_cols(&mut self, i: usize, j: usize) ensures final(self).m@ == mmul(old(self).m@, e_swap(i as int, j as int)) { unimplemented!() }
    #[verifier::external_body] pub fn mul_row(&mut self, i: usize, u: &ER) ensures final(self).m@ == mmul(e_scale(i as int, u.v()), old(self).m@) { unimplemented!() }
    #[verifier::external_body] pub fn mul_col(&mut self, i: usize, u: &ER) ensures final(self).m@ == mmul(old(self).m@, e_scale(i as int, u.v())) { unimplemented!() }
    /// row_j += r * row_i
    #[verifier::external_body] pub fn add_row_to(&mut self, i: usize, j: usize, r: &ER) ensures final(self).m@ == mmul(e_shear(j as int, i as int, r.v()), old(self).m@) { unimplemented!() }
    /// col_j += r * col_i
    #[verifier::external_body] pub fn add_col_to(&mut self, i: usize, j: usize, r: &ER) ensures final(self).m@ == mmul(old(self).m@, e_shear(i as int, j as int, r.v())) { unimplemented!() }
    #[verifier::external_body] pub fn at(&self, i: usize, j: usize) -> (r: &ER) { unimplemented!() }
    #[verifier::external_body] pub fn set_at(&mut self, i: usize, j: usize, v: ER) { unimplemented!() }
    #[verifier::external_body] pub fn add_at(&mut self, i: usize, j: usize, v: ER) { unimplemented!() }
    #[verifier::external_body] pub fn inner_mut(&mut self) -> (r: Inner) { unimplemented!() }
    #[verifier::external_body] pub fn ncols(&self) -> (r: usize) { unimplemented!() }
}
impl ER {
    /// LLLRing::conj, norm (only used for the untracked lambda / det updates)
    #[verifier::external_body] pub fn conj(&self) -> (r: ER) { unimplemented!() }
    #[verifier::external_body] pub fn norm(&self) -> (r: ER) { unimplemented!() }
}

//@item struct/LLLData subst=Mat<R>:Mat,Vec<R>:Vec<ER>

pub open spec fn opt(o: Option<Mat>) -> int { o.unwrap().m@ }
pub open spec fn p_ok(s: LLLData, a0: int) -> bool {
    (s.p.is_some() ==> s.target.m@ == mmul(opt(s.p), a0))
    && (s.p.is_some() && s.pinv.is_some() ==> mmul(opt(s.p), opt(s.pinv)) == mid() && mmul(opt(s.pinv), opt(s.p)) == mid())
}
/// state after the row operation E (inverse E1)
pub open spec fn row_op(s0: LLLData, s1: LLLData, e: int, e1: int) -> bool {
    s0.p.is_some() == s1.p.is_some() && s0.pinv.is_some() == s1.pinv.is_some() && s1.step == s0.step
    && s1.target.m@ == mmul(e, s0.target.m@)
    && (s0.p.is_some() ==> opt(s1.p) == mmul(e, opt(s0.p))) && (s0.pinv.is_some() ==> opt(s1.pinv) == mmul(opt(s0.pinv), e1))
}
pub proof fn lemma_row_op_keeps(s0: LLLData, s1: LLLData, e: int, e1: int)
    requires row_op(s0, s1, e, e1), s0.pinv.is_some() ==> (mmul(e, e1) == mid() && mmul(e1, e) == mid())
    ensures forall|a0: int| p_ok(s0, a0) ==> p_ok(s1, a0)
{
    assert forall|a0: int| p_ok(s0, a0) implies p_ok(s1, a0) by {
        if s0.p.is_some() {
            let p = opt(s0.p);
            mx_assoc(e, p, a0);
            if s0.pinv.is_some() {
                let p1 = opt(s0.pinv);
                mx_assoc(e, p, mmul(p1, e1)); mx_assoc(p, p1, e1); mx_id(e1);
                mx_assoc(p1, e1, mmul(e, p)); mx_assoc(e1, e, p); mx_id(p);
            }
        }
    }
}

impl LLLData {
    pub fn mul_row(&mut self, i: usize, r: &ER)
//@if B
        requires is_unit(r.v()),
//@endif
        ensures exists|w: int| (old(self).pinv.is_some() ==> rmul(r.v(), w) == r1()) && #[trigger] row_op(*old(self), *final(self), e_scale(i as int, r.v()), e_scale(i as int, w)),
            forall|a0: int| p_ok(*old(self), a0) ==> p_ok(*final(self), a0),
    //@body impl/LLLData/mul_row
    //@+ sig
    //@| fn mul_row(&mut self, i: Row, r: &R)
    //@+ post
    //@| let w = if old(self).pinv.is_some() { choose|w: int| rmul(r.v(), w) == r1() && opt(self.pinv) == mmul(opt(old(self).pinv), e_scale(i as int, w)) } else { 0 };
    //@| if old(self).pinv.is_some() { mx_scale(i as int, r.v(), w); }
    //@| assert(row_op(*old(self), *self, e_scale(i as int, r.v()), e_scale(i as int, w)));
    //@| lemma_row_op_keeps(*old(self), *self, e_scale(i as int, r.v()), e_scale(i as int, w));

    /// a[k] += r * a[i]
    pub fn add_row_to(&mut self, i: usize, k: usize, r: &ER)
        requires i < old(self).det@.len(),
//@if B
            i < k,
//@endif
        ensures i < k, row_op(*old(self), *final(self), e_shear(k as int, i as int, r.v()), e_shear(k as int, i as int, rneg(r.v()))),
            forall|a0: int| p_ok(*old(self), a0) ==> p_ok(*final(self), a0),
    //@body impl/LLLData/add_row_to ring=1 index2=1 for_range=1 machine=i,j,k loops=1
    //@+ loop 0 header
    //@| for j in 0..i
    //@+ sig
    //@| fn add_row_to(&mut self, i: Row, k: Row, r: &R)
    //@+ pre-raw
    //@| let ghost s0 = *self;
    //@+ loop 0
    //@| invariant i < k, self.step == s0.step, self.det == s0.det,
    //@|     self.target.m@ == mmul(e_shear(k as int, i as int, r.v()), s0.target.m@),
    //@|     s0.p.is_some() == self.p.is_some() && s0.pinv.is_some() == self.pinv.is_some(),
    //@|     s0.p.is_some() ==> opt(self.p) == mmul(e_shear(k as int, i as int, r.v()), opt(s0.p)),
    //@|     s0.pinv.is_some() ==> opt(self.pinv) == mmul(opt(s0.pinv), e_shear(k as int, i as int, rneg(r.v()))),
    //@+ post
    //@| if i < k {
    //@|     mx_shear(k as int, i as int, r.v());
    //@|     lemma_row_op_keeps(*old(self), *self, e_shear(k as int, i as int, r.v()), e_shear(k as int, i as int, rneg(r.v())));
    //@| }

    /// b[k-1] <-> b[k]
    pub fn swap(&mut self, k: usize)
        requires k < old(self).det@.len(), old(self).det@.len() <= usize::MAX - 1,
            // valid Gram-Schmidt data: the (k-1)-st Gram determinant is non-zero (rows are independent)
            k > 0 ==> old(self).det@[k - 1].v() != r0(),
//@if B
            k > 0,
//@endif
        ensures k > 0, row_op(*old(self), *final(self), e_swap(k - 1, k as int), e_swap(k - 1, k as int)),
            forall|a0: int| p_ok(*old(self), a0) ==> p_ok(*final(self), a0),
    //@body impl/LLLData/swap ring=1 index2=1 for_range=1 machine=i,j,k,m subst=R:ER loops=2
    //@+ loop 0 header
    //@| for j in 0..k-1
    //@+ loop 1 header
    //@| for i in k+1..m
    //@+ sig
    //@| fn swap(&mut self, k: Row)
    //@+ pre-raw
    //@| let ghost s0 = *self;
    //@+ loop 0
    //@| invariant k > 0, self.target.m@ == mmul(e_swap(k - 1, k as int), s0.target.m@), self.step == s0.step, self.det == s0.det,
    //@|     s0.p.is_some() == self.p.is_some() && s0.pinv.is_some() == self.pinv.is_some(),
    //@|     s0.p.is_some() ==> opt(self.p) == mmul(e_swap(k - 1, k as int), opt(s0.p)),
    //@|     s0.pinv.is_some() ==> opt(self.pinv) == mmul(opt(s0.pinv), e_swap(k - 1, k as int)),
    //@+ loop 1
    //@| invariant k > 0, k < self.det@.len(), d1.v() != r0(), self.target.m@ == mmul(e_swap(k - 1, k as int), s0.target.m@), self.step == s0.step, self.det == s0.det,
    //@|     s0.p.is_some() == self.p.is_some() && s0.pinv.is_some() == self.pinv.is_some(),
    //@|     s0.p.is_some() ==> opt(self.p) == mmul(e_swap(k - 1, k as int), opt(s0.p)),
    //@|     s0.pinv.is_some() ==> opt(self.pinv) == mmul(opt(s0.pinv), e_swap(k - 1, k as int)),
    //@+ post
    //@| if k > 0 {
    //@|     mx_swap(k - 1, k as int);
    //@|     lemma_row_op_keeps(*old(self), *self, e_swap(k - 1, k as int), e_swap(k - 1, k as int));
    //@| }
}
} // verus!
fn main() {}
