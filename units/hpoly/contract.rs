// Contract overlay for homogeneous polynomials HPoly<X, R> (yui/src/types/poly/h_poly.rs) — a single
// term c x^d, used as the coefficient ring R[H] of the Bar-Natan / involutive theories.  Properties C15
// ("... and homogeneous polynomials": division with remainder, units, normalising unit) and C16
// (equality is equality of the denoted polynomial; a zero value may carry any degree).
// View: None for zero, Some((d, c)) for c x^d with c != 0; coefficients in the abstract ring ER (a field
// for div_rem).
use vstd::prelude::*;
verus! {
//@include prelude/rt.rs
//@include prelude/er.rs
//@source yui/src/types/poly/h_poly.rs

#[verifier::external_body] pub proof fn ax_field(a: int, b: int) requires b != r0() ensures rmul(rdiv(a, b), b) == a {}
impl ER {
    #[verifier::external_body] pub fn add_assign<B: ERL>(&mut self, b: B) ensures (*final(self)).v() == radd((*old(self)).v(), b.v()) { unimplemented!() }
    #[verifier::external_body] pub fn sub_assign<B: ERL>(&mut self, b: B) ensures (*final(self)).v() == rsub((*old(self)).v(), b.v()) { unimplemented!() }
}

//@item struct/HPoly subst=R:ER

/// the polynomial denoted: None = 0, Some((d, c)) = c x^d
pub open spec fn hv(p: HPoly) -> Option<(nat, int)> { if p.coeff.v() == r0() { None } else { Some((p.deg as nat, p.coeff.v())) } }
pub open spec fn mono(d: nat, c: int) -> Option<(nat, int)> { if c == r0() { None } else { Some((d, c)) } }

pub trait HL: Sized { spec fn h(&self) -> HPoly; fn rf(&self) -> (r: &HPoly) ensures *r == self.h(); }
impl HL for HPoly { open spec fn h(&self) -> HPoly { *self } fn rf(&self) -> (r: &HPoly) { self } }
impl HL for &HPoly { open spec fn h(&self) -> HPoly { **self } fn rf(&self) -> (r: &HPoly) { *self } }
pub fn qneg_<A: HL>(a: A) -> (r: HPoly) ensures r.deg == a.h().deg, r.coeff.v() == rneg(a.h().coeff.v()) { a.rf().neg_ref() }

impl HPoly {
    /// derive(Clone) (TRUSTED to copy both fields)
    pub fn clone(&self) -> (r: HPoly) ensures r.deg == self.deg, r.coeff.v() == self.coeff.v() { HPoly { deg: self.deg, coeff: self.coeff.clone() } }

    pub fn new(deg: usize, coeff: ER) -> (r: HPoly) ensures r.deg == deg, r.coeff.v() == coeff.v(),
    //@body impl/HPoly/new
    pub fn coeff(&self) -> (r: &ER) ensures r.v() == self.coeff.v(),
    //@body impl/HPoly/coeff
    pub fn deg(&self) -> (r: usize) ensures r == self.deg,
    //@body impl/HPoly/deg
    pub fn from_const(r: ER) -> (p: HPoly) ensures p.deg == 0, p.coeff.v() == r.v(), hv(p) == mono(0, r.v()),
    //@body impl/HPoly/from_const
    pub fn variable() -> (p: HPoly) ensures p.deg == 1, p.coeff.v() == r1(),
    //@body impl/HPoly/variable subst=R:ER

    pub fn zero() -> (p: HPoly) ensures hv(p) == None::<(nat, int)>, p.deg == 0,
    //@body impl/Zero@HPoly/zero subst=R:ER
    pub fn is_zero(&self) -> (r: bool) ensures r == (hv(*self) == None::<(nat, int)>),
    //@body impl/Zero@HPoly/is_zero
    pub fn one() -> (p: HPoly) ensures p.deg == 0, p.coeff.v() == r1(),
    //@body impl/One@HPoly/one subst=R:ER
    pub fn is_one(&self) -> (r: bool) ensures r == (self.deg == 0 && self.coeff.v() == r1()),
    //@body impl/One@HPoly/is_one

    /// equality is equality of the denoted polynomial (a zero value may carry any degree)
    pub fn eq(&self, other: &HPoly) -> (r: bool) ensures r == (hv(*self) == hv(*other)),
    //@body impl/PartialEq@HPoly/eq ring=1 machine=deg

    pub fn add_assign(&mut self, rhs: &HPoly)
//@if B
        requires hv(*old(self)) == None::<(nat, int)> || hv(*rhs) == None::<(nat, int)> || old(self).deg == rhs.deg,
//@endif
        ensures
            hv(*old(self)) == None::<(nat, int)> ==> hv(*final(self)) == hv(*rhs),
            hv(*rhs) == None::<(nat, int)> ==> hv(*final(self)) == hv(*old(self)),
            (hv(*old(self)) != None::<(nat, int)> && hv(*rhs) != None::<(nat, int)>) ==>
                (old(self).deg == rhs.deg && hv(*final(self)) == mono(rhs.deg as nat, radd(old(self).coeff.v(), rhs.coeff.v()))),
    //@body impl/AddAssign@HPoly/add_assign ring=1 machine=deg

    pub fn sub_assign(&mut self, rhs: &HPoly)
//@if B
        requires hv(*old(self)) == None::<(nat, int)> || hv(*rhs) == None::<(nat, int)> || old(self).deg == rhs.deg,
//@endif
        ensures
            hv(*old(self)) == None::<(nat, int)> ==> hv(*final(self)) == mono(rhs.deg as nat, rneg(rhs.coeff.v())),
            hv(*rhs) == None::<(nat, int)> ==> hv(*final(self)) == hv(*old(self)),
            (hv(*old(self)) != None::<(nat, int)> && hv(*rhs) != None::<(nat, int)>) ==>
                (old(self).deg == rhs.deg && hv(*final(self)) == mono(rhs.deg as nat, rsub(old(self).coeff.v(), rhs.coeff.v()))),
    //@body impl/SubAssign@HPoly/sub_assign ring=1 machine=deg q=rhs
    //@+ pre
    //@| id_neg_zero();

    pub fn neg(self) -> (r: HPoly) ensures r.deg == self.deg, r.coeff.v() == rneg(self.coeff.v()),
    //@body impl/Neg@HPoly/neg ring=1 machine=deg
    pub fn neg_ref(&self) -> (r: HPoly) ensures r.deg == self.deg, r.coeff.v() == rneg(self.coeff.v()),
    //@body impl/Neg@&HPoly/neg ring=1 machine=deg

    /// scalar multiple
    pub fn mul_assign_scalar(&mut self, rhs: &ER)
        ensures final(self).deg == old(self).deg, final(self).coeff.v() == rmul(old(self).coeff.v(), rhs.v()),
    //@body impl/MulAssign@HPoly/mul_assign#0 ring=1 machine=deg
    //@+ pre
    //@| ax_mul_one(self.coeff.v());

    /// product of monomials: degrees add, coefficients multiply
    pub fn mul_assign(&mut self, rhs: &HPoly)
        requires old(self).deg + rhs.deg <= usize::MAX,
        ensures hv(*final(self)) == mono((old(self).deg + rhs.deg) as nat, rmul(old(self).coeff.v(), rhs.coeff.v())),
    //@body impl/MulAssign@HPoly/mul_assign#1 ring=1 machine=deg
    //@+ pre
    //@| ax_mul_one(self.coeff.v());

    pub fn inv(&self) -> (r: Option<HPoly>)
        ensures match r {
            Some(w) => self.deg == 0 && w.deg == 0 && rmul(self.coeff.v(), w.coeff.v()) == r1(),
            None => self.deg > 0 || !is_unit(self.coeff.v()),
        },
    //@body impl/Ring@HPoly/inv
    pub fn is_unit(&self) -> (r: bool) ensures r == (self.deg == 0 && is_unit(self.coeff.v())),
    //@body impl/Ring@HPoly/is_unit
    pub fn normalizing_unit(&self) -> (u: HPoly) ensures u.deg == 0, u.coeff.v() == nunit(self.coeff.v()),
    //@body impl/Ring@HPoly/normalizing_unit
    //@+ pre
    //@| ax_nunit_unit(self.coeff.v());

    /// division with remainder over a field:  self == q rhs + r  with  r == 0  or  r == self and deg self < deg rhs
    pub fn div_rem(&self, rhs: &HPoly) -> (res: (HPoly, HPoly))
//@if B
        requires hv(*rhs) != None::<(nat, int)>,
//@endif
        ensures hv(*rhs) != None::<(nat, int)>,
            self.deg < rhs.deg ==> (hv(res.0) == None::<(nat, int)> && hv(res.1) == hv(*self)),
            self.deg >= rhs.deg ==> (hv(res.1) == None::<(nat, int)>
                && res.0.deg + rhs.deg == self.deg && rmul(res.0.coeff.v(), rhs.coeff.v()) == self.coeff.v()),
    //@body impl/HPoly/div_rem ring=1 machine=deg,i,j,k
    //@+ pre
    //@| if rhs.coeff.v() != r0() { ax_field(self.coeff.v(), rhs.coeff.v()); }
}
} // verus!
fn main() {}
