// Contract overlay for the transform-tracking primitives of yui-matrix/src/dense/snf.rs (property C09,
// mechanism "2x2 unimodular matrices ... mirrored into P, P^-1, Q, Q^-1"):
//   SnfCalc::{swap_rows, swap_cols, mul_row, mul_col, left_elementary, right_elementary}
// and the decision clause of diag_normalize_step.  Ghost invariant carried through every primitive,
// for an arbitrary original matrix A:
//     (p, q present)      target == P A Q
//     (p, pinv present)   P P^-1 == I and P^-1 P == I        (likewise q, qinv)
// Matrices are abstract (uninterpreted product, elementary matrices by axioms); ring entries live in
// the abstract Euclidean domain ER.  The Mat operations themselves (yui-matrix/src/dense/mat.rs, over
// nalgebra) are ASSUMED to be left / right multiplication by the corresponding elementary matrix.
use vstd::prelude::*;
verus! {
//@include prelude/rt.rs
//@include prelude/er.rs
//@include units/euc_ring/body.inc
//@source yui-matrix/src/dense/snf.rs

// ---------------------------------------------------------------- abstract matrices
pub uninterp spec fn mmul(a: int, b: int) -> int;
pub uninterp spec fn mid() -> int;
pub uninterp spec fn e_swap(i: int, j: int) -> int;
pub uninterp spec fn e_scale(i: int, u: int) -> int;
/// the identity with the 2x2 block [[a, b], [c, d]] placed at rows / columns (i, j), i != j
pub uninterp spec fn e_emb(a: int, b: int, c: int, d: int, i: int, j: int) -> int;
#[verifier::external_body] pub proof fn mx_assoc(a: int, b: int, c: int) ensures mmul(mmul(a, b), c) == mmul(a, mmul(b, c)) {}
#[verifier::external_body] pub proof fn mx_id(a: int) ensures mmul(mid(), a) == a, mmul(a, mid()) == a {}
#[verifier::external_body] pub proof fn mx_swap(i: int, j: int) ensures mmul(e_swap(i, j), e_swap(i, j)) == mid() {}
#[verifier::external_body] pub proof fn mx_scale(i: int, u: int, w: int) requires rmul(u, w) == r1()
    ensures mmul(e_scale(i, u), e_scale(i, w)) == mid(), mmul(e_scale(i, w), e_scale(i, u)) == mid() {}
#[verifier::external_body] pub proof fn mx_emb(a: int, b: int, c: int, d: int, a2: int, b2: int, c2: int, d2: int, i: int, j: int) requires i != j
    ensures mmul(e_emb(a, b, c, d, i, j), e_emb(a2, b2, c2, d2, i, j))
        == e_emb(radd(rmul(a, a2), rmul(b, c2)), radd(rmul(a, b2), rmul(b, d2)), radd(rmul(c, a2), rmul(d, c2)), radd(rmul(c, b2), rmul(d, d2)), i, j) {}
#[verifier::external_body] pub proof fn mx_emb_id(i: int, j: int) ensures e_emb(r1(), r0(), r0(), r1(), i, j) == mid() {}

/// det [[a,b],[c,d]] == 1  ==>  [[d,-b],[-c,a]] is the two-sided inverse
pub proof fn lemma_emb_inv(a: int, b: int, c: int, d: int, i: int, j: int)
    requires i != j, rsub(rmul(a, d), rmul(b, c)) == r1()
    ensures
        mmul(e_emb(a, b, c, d, i, j), e_emb(d, rneg(b), rneg(c), a, i, j)) == mid(),
        mmul(e_emb(d, rneg(b), rneg(c), a, i, j), e_emb(a, b, c, d, i, j)) == mid(),
{
    id_adj(a, b, c, d);
    mx_emb(a, b, c, d, d, rneg(b), rneg(c), a, i, j);
    mx_emb(d, rneg(b), rneg(c), a, a, b, c, d, i, j);
    mx_emb_id(i, j);
}
/// T == P A Q, E E' == I == E' E, P P' == I == P' P:  left-multiplying T and P by E and right-multiplying P' by E' keeps both
pub proof fn lemma_left_update(e: int, e1: int, t: int, p: int, p1: int, a: int, q: int)
    requires mmul(e, e1) == mid(), mmul(e1, e) == mid()
    ensures
        t == mmul(mmul(p, a), q) ==> mmul(e, t) == mmul(mmul(mmul(e, p), a), q),
        (mmul(p, p1) == mid() && mmul(p1, p) == mid()) ==> (mmul(mmul(e, p), mmul(p1, e1)) == mid() && mmul(mmul(p1, e1), mmul(e, p)) == mid()),
{
    mx_assoc(e, mmul(p, a), q); mx_assoc(e, p, a);
    mx_assoc(e, p, mmul(p1, e1)); mx_assoc(p, p1, e1); mx_id(e1);
    mx_assoc(p1, e1, mmul(e, p)); mx_assoc(e1, e, p); mx_id(p);
}
/// the mirror image on the right: T, Q right-multiplied by E, Q' left-multiplied by E'
pub proof fn lemma_right_update(e: int, e1: int, t: int, p: int, a: int, q: int, q1: int)
    requires mmul(e, e1) == mid(), mmul(e1, e) == mid()
    ensures
        t == mmul(mmul(p, a), q) ==> mmul(t, e) == mmul(mmul(p, a), mmul(q, e)),
        (mmul(q, q1) == mid() && mmul(q1, q) == mid()) ==> (mmul(mmul(q, e), mmul(e1, q1)) == mid() && mmul(mmul(e1, q1), mmul(q, e)) == mid()),
{
    mx_assoc(mmul(p, a), q, e);
    mx_assoc(q, e, mmul(e1, q1)); mx_assoc(e, e1, q1); mx_id(q1);
    mx_assoc(e1, q1, mmul(q, e)); mx_assoc(q1, q, e); mx_id(e);
}

// ---------------------------------------------------------------- Mat (ASSUMED contracts, see header)
pub struct Mat { pub m: Ghost<int> }
impl Mat {
    #[verifier::external_body] pub fn swap_rows(&mut self, i: usize, j: usize) ensures final(self).m@ == mmul(e_swap(i as int, j as int), old(self).m@) { unimplemented!() }
    #[verifier::external_body] pub fn swap_cols(&mut self, i: usize, j: usize) ensures final(self).m@ == mmul(old(self).m@, e_swap(i as int, j as int)) { unimplemented!() }
    /// (also entry level: row i is multiplied by u, every other row is unchanged)
    #[verifier::external_body] pub fn mul_row(&mut self, i: usize, u: &ER) ensures final(self).m@ == mmul(e_scale(i as int, u.v()), old(self).m@), scaled_row(old(self).m@, final(self).m@, i as int, u.v()) { unimplemented!() }
    #[verifier::external_body] pub fn mul_col(&mut self, i: usize, u: &ER) ensures final(self).m@ == mmul(old(self).m@, e_scale(i as int, u.v())) { unimplemented!() }
    /// "Multiply [a, b; c, d] from left"
    #[verifier::external_body] pub fn left_elementary(&mut self, comps: [&ER; 4], i: usize, j: usize)
        ensures final(self).m@ == mmul(e_emb(comps@[0].v(), comps@[1].v(), comps@[2].v(), comps@[3].v(), i as int, j as int), old(self).m@) { unimplemented!() }
    /// "Multiply [a, c; b, d] from right"
    #[verifier::external_body] pub fn right_elementary(&mut self, comps: [&ER; 4], i: usize, j: usize)
        ensures final(self).m@ == mmul(old(self).m@, e_emb(comps@[0].v(), comps@[2].v(), comps@[1].v(), comps@[3].v(), i as int, j as int)) { unimplemented!() }
    /// entry access (only used by the decision clause of diag_normalize_step)
    #[verifier::external_body] pub fn at(&self, i: usize, j: usize) -> (r: &ER) ensures r.v() == mat_at(self.m@, i as int, j as int) { unimplemented!() }
}
pub uninterp spec fn mat_at(m: int, i: int, j: int) -> int;
pub uninterp spec fn mat_nr(m: int) -> int;
pub uninterp spec fn mat_nc(m: int) -> int;
pub open spec fn scaled_row(m0: int, m1: int, i: int, u: int) -> bool {
    forall|a: int, b: int| #[trigger] mat_at(m1, a, b) == (if a == i { rmul(u, mat_at(m0, a, b)) } else { mat_at(m0, a, b) })
}
/// diagonal entries, the first zero among them, and the divisibility chain below it
pub open spec fn dg(m: int, i: int) -> int { mat_at(m, i, i) }
pub open spec fn chain(m: int, r: int) -> bool { forall|i: int| 0 <= i && i + 1 < r ==> dvd(#[trigger] dg(m, i), dg(m, i + 1)) }
/// u a | b and a | u b for a unit u, when a | b
pub proof fn lemma_dvd_unit(u: int, a: int, b: int) requires is_unit(u), dvd(a, b) ensures dvd(rmul(u, a), b), dvd(a, rmul(u, b)) {
    let w = choose|w: int| #[trigger] rmul(u, w) == r1(); let k = choose|k: int| b == #[trigger] rmul(k, a);
    // b = k a = (k w)(u a)
    ax_mul_assoc(rmul(k, w), u, a); ax_mul_assoc(k, w, u); ax_mul_comm(w, u); ax_mul_one(k);
    assert(b == rmul(rmul(k, w), rmul(u, a)));
    // u b = (u k) a
    ax_mul_assoc(u, k, a);
    assert(rmul(u, b) == rmul(rmul(u, k), a));
}
impl Mat { pub open spec fn at_spec(&self, i: usize, j: usize) -> int { mat_at(self.m@, i as int, j as int) } }

//@item struct/SnfCalc subst=Mat<R>:Mat

pub open spec fn opt(o: Option<Mat>) -> int { o.unwrap().m@ }
/// the invariant, for an original matrix a0
pub open spec fn pq_ok(s: SnfCalc, a0: int) -> bool {
    (s.p.is_some() && s.q.is_some() ==> s.target.m@ == mmul(mmul(opt(s.p), a0), opt(s.q)))
    && (s.p.is_some() && s.pinv.is_some() ==> mmul(opt(s.p), opt(s.pinv)) == mid() && mmul(opt(s.pinv), opt(s.p)) == mid())
    && (s.q.is_some() && s.qinv.is_some() ==> mmul(opt(s.q), opt(s.qinv)) == mid() && mmul(opt(s.qinv), opt(s.q)) == mid())
}
pub open spec fn same_flags(s: SnfCalc, t: SnfCalc) -> bool {
    s.p.is_some() == t.p.is_some() && s.pinv.is_some() == t.pinv.is_some() && s.q.is_some() == t.q.is_some() && s.qinv.is_some() == t.qinv.is_some()
}
/// no row operation recorded yet
pub open spec fn p_fresh(s: SnfCalc) -> bool { (s.p.is_some() ==> opt(s.p) == mid()) && (s.pinv.is_some() ==> opt(s.pinv) == mid()) }
//@include units/lll_flow/tok.inc
/// proved in unit lll_flow (C10) on the repository's bodies; the two units use the same abstract matrices
//@contract-of units/lll_flow/contract.rs lll_hnf_in_place variant=A
/// std::mem::take on a Mat: the old value is returned (what is left behind is not used before it is overwritten)
#[verifier::external_body] pub fn mat_take_(m: &mut Mat) -> (r: Mat) ensures r == *old(m) { unimplemented!() }
/// state after a row operation by E (inverse E1) / a column operation by E
pub open spec fn row_op(s0: SnfCalc, s1: SnfCalc, e: int, e1: int) -> bool {
    same_flags(s0, s1) && s1.target.m@ == mmul(e, s0.target.m@)
    && (s0.p.is_some() ==> opt(s1.p) == mmul(e, opt(s0.p))) && (s0.pinv.is_some() ==> opt(s1.pinv) == mmul(opt(s0.pinv), e1))
    && s1.q == s0.q && s1.qinv == s0.qinv
}
pub open spec fn col_op(s0: SnfCalc, s1: SnfCalc, e: int, e1: int) -> bool {
    same_flags(s0, s1) && s1.target.m@ == mmul(s0.target.m@, e)
    && (s0.q.is_some() ==> opt(s1.q) == mmul(opt(s0.q), e)) && (s0.qinv.is_some() ==> opt(s1.qinv) == mmul(e1, opt(s0.qinv)))
    && s1.p == s0.p && s1.pinv == s0.pinv
}
pub proof fn lemma_row_op_keeps(s0: SnfCalc, s1: SnfCalc, e: int, e1: int)
    requires row_op(s0, s1, e, e1), s0.pinv.is_some() ==> (mmul(e, e1) == mid() && mmul(e1, e) == mid())
    ensures forall|a0: int| pq_ok(s0, a0) ==> pq_ok(s1, a0)
{
    assert forall|a0: int| pq_ok(s0, a0) implies pq_ok(s1, a0) by {
        let (p, p1, q) = (if s0.p.is_some() { opt(s0.p) } else { 0 }, if s0.pinv.is_some() { opt(s0.pinv) } else { 0 }, if s0.q.is_some() { opt(s0.q) } else { 0 });
        if s0.pinv.is_some() { lemma_left_update(e, e1, s0.target.m@, p, p1, a0, q); }
        else { mx_assoc(e, mmul(p, a0), q); mx_assoc(e, p, a0); }
    }
}
pub proof fn lemma_col_op_keeps(s0: SnfCalc, s1: SnfCalc, e: int, e1: int)
    requires col_op(s0, s1, e, e1), s0.qinv.is_some() ==> (mmul(e, e1) == mid() && mmul(e1, e) == mid())
    ensures forall|a0: int| pq_ok(s0, a0) ==> pq_ok(s1, a0)
{
    assert forall|a0: int| pq_ok(s0, a0) implies pq_ok(s1, a0) by {
        let (p, q, q1) = (if s0.p.is_some() { opt(s0.p) } else { 0 }, if s0.q.is_some() { opt(s0.q) } else { 0 }, if s0.qinv.is_some() { opt(s0.qinv) } else { 0 });
        if s0.qinv.is_some() { lemma_right_update(e, e1, s0.target.m@, p, a0, q, q1); }
        else { mx_assoc(mmul(p, a0), q, e); }
    }
}

impl SnfCalc {
    pub fn swap_rows(&mut self, i: usize, j: usize)
        ensures row_op(*old(self), *final(self), e_swap(i as int, j as int), e_swap(i as int, j as int)),
            forall|a0: int| pq_ok(*old(self), a0) ==> pq_ok(*final(self), a0),
    //@body impl/SnfCalc/swap_rows
    //@+ sig
    //@| fn swap_rows(&mut self, i: usize, j: usize)
    //@+ post
    //@| mx_swap(i as int, j as int); lemma_row_op_keeps(*old(self), *self, e_swap(i as int, j as int), e_swap(i as int, j as int));

    pub fn swap_cols(&mut self, i: usize, j: usize)
        ensures col_op(*old(self), *final(self), e_swap(i as int, j as int), e_swap(i as int, j as int)),
            forall|a0: int| pq_ok(*old(self), a0) ==> pq_ok(*final(self), a0),
    //@body impl/SnfCalc/swap_cols
    //@+ sig
    //@| fn swap_cols(&mut self, i: usize, j: usize)
    //@+ post
    //@| mx_swap(i as int, j as int); lemma_col_op_keeps(*old(self), *self, e_swap(i as int, j as int), e_swap(i as int, j as int));

    pub fn mul_row(&mut self, i: usize, u: &ER)
//@if B
        requires is_unit(u.v()),
//@endif
        ensures exists|w: int| (old(self).pinv.is_some() ==> rmul(u.v(), w) == r1()) && #[trigger] row_op(*old(self), *final(self), e_scale(i as int, u.v()), e_scale(i as int, w)),
            forall|a0: int| pq_ok(*old(self), a0) ==> pq_ok(*final(self), a0),
            scaled_row(old(self).target.m@, final(self).target.m@, i as int, u.v()),
    //@body impl/SnfCalc/mul_row
    //@+ sig
    //@| fn mul_row(&mut self, i: usize, u: &R)
    //@+ post
    //@| let w = if old(self).pinv.is_some() { choose|w: int| rmul(u.v(), w) == r1() && opt(self.pinv) == mmul(opt(old(self).pinv), e_scale(i as int, w)) } else { 0 };
    //@| if old(self).pinv.is_some() { mx_scale(i as int, u.v(), w); }
    //@| assert(row_op(*old(self), *self, e_scale(i as int, u.v()), e_scale(i as int, w)));
    //@| lemma_row_op_keeps(*old(self), *self, e_scale(i as int, u.v()), e_scale(i as int, w));

    pub fn mul_col(&mut self, i: usize, u: &ER)
//@if B
        requires is_unit(u.v()),
//@endif
        ensures exists|w: int| (old(self).qinv.is_some() ==> rmul(u.v(), w) == r1()) && #[trigger] col_op(*old(self), *final(self), e_scale(i as int, u.v()), e_scale(i as int, w)),
            forall|a0: int| pq_ok(*old(self), a0) ==> pq_ok(*final(self), a0),
    //@body impl/SnfCalc/mul_col
    //@+ sig
    //@| fn mul_col(&mut self, i: usize, u: &R)
    //@+ post
    //@| let w = if old(self).qinv.is_some() { choose|w: int| rmul(u.v(), w) == r1() && opt(self.qinv) == mmul(e_scale(i as int, w), opt(old(self).qinv)) } else { 0 };
    //@| if old(self).qinv.is_some() { mx_scale(i as int, u.v(), w); }
    //@| assert(col_op(*old(self), *self, e_scale(i as int, u.v()), e_scale(i as int, w)));
    //@| lemma_col_op_keeps(*old(self), *self, e_scale(i as int, u.v()), e_scale(i as int, w));

    /// "Multiply [a, b; c, d] from left, assuming det = 1"
    pub fn left_elementary(&mut self, comps: [&ER; 4], i: usize, j: usize)
        requires i != j, rsub(rmul(comps@[0].v(), comps@[3].v()), rmul(comps@[1].v(), comps@[2].v())) == r1(),
        ensures row_op(*old(self), *final(self),
                e_emb(comps@[0].v(), comps@[1].v(), comps@[2].v(), comps@[3].v(), i as int, j as int),
                e_emb(comps@[3].v(), rneg(comps@[1].v()), rneg(comps@[2].v()), comps@[0].v(), i as int, j as int)),
            forall|a0: int| pq_ok(*old(self), a0) ==> pq_ok(*final(self), a0),
    //@body impl/SnfCalc/left_elementary ring=1
    //@+ sig
    //@| fn left_elementary(&mut self, comps: [&R; 4], i: usize, j: usize)
    //@+ post
    //@| let (ga, gb, gc, gd) = (comps@[0].v(), comps@[1].v(), comps@[2].v(), comps@[3].v());
    //@| lemma_emb_inv(ga, gb, gc, gd, i as int, j as int);
    //@| lemma_row_op_keeps(*old(self), *self, e_emb(ga, gb, gc, gd, i as int, j as int), e_emb(gd, rneg(gb), rneg(gc), ga, i as int, j as int));

    /// "Multiply [a, c; b, d] from right, assuming det = 1"
    pub fn right_elementary(&mut self, comps: [&ER; 4], i: usize, j: usize)
        requires i != j, rsub(rmul(comps@[0].v(), comps@[3].v()), rmul(comps@[1].v(), comps@[2].v())) == r1(),
        ensures col_op(*old(self), *final(self),
                e_emb(comps@[0].v(), comps@[2].v(), comps@[1].v(), comps@[3].v(), i as int, j as int),
                e_emb(comps@[3].v(), rneg(comps@[2].v()), rneg(comps@[1].v()), comps@[0].v(), i as int, j as int)),
            forall|a0: int| pq_ok(*old(self), a0) ==> pq_ok(*final(self), a0),
    //@body impl/SnfCalc/right_elementary ring=1
    //@+ sig
    //@| fn right_elementary(&mut self, comps: [&R; 4], i: usize, j: usize)
    //@+ post
    //@| let (ga, gb, gc, gd) = (comps@[0].v(), comps@[1].v(), comps@[2].v(), comps@[3].v());
    //@| ax_mul_comm(gb, gc);
    //@| lemma_emb_inv(ga, gc, gb, gd, i as int, j as int);
    //@| lemma_col_op_keeps(*old(self), *self, e_emb(ga, gc, gb, gd, i as int, j as int), e_emb(gd, rneg(gc), rneg(gb), ga, i as int, j as int));
}

/// d = s x + t y is a gcd of (x, y), d != 0, a = x / d, b = y / d   ==>   s a + t b == 1  (the 2x2 block is unimodular)
pub proof fn lemma_unimodular(x: int, y: int, d: int, s: int, t: int)
    requires d != r0(), d == radd(rmul(s, x), rmul(t, y)), dvd(d, x), dvd(d, y)
    ensures x == rmul(rdiv(x, d), d), y == rmul(rdiv(y, d), d),
        radd(rmul(s, rdiv(x, d)), rmul(t, rdiv(y, d))) == r1(),
        rsub(rmul(s, rdiv(x, d)), rmul(t, rneg(rdiv(y, d)))) == r1(),
        rsub(rmul(r1(), rmul(s, rdiv(x, d))), rmul(r1(), rneg(rmul(t, rdiv(y, d))))) == r1(),
{
    let (a, b) = (rdiv(x, d), rdiv(y, d));
    lemma_rem_zero_iff_dvd(x, d); ax_euclid(x, d); ax_add_zero(rmul(a, d));
    lemma_rem_zero_iff_dvd(y, d); ax_euclid(y, d); ax_add_zero(rmul(b, d));
    id_det_expand(s, t, a, b, d); ax_mul_one(d);
    lemma_cancel(radd(rmul(s, a), rmul(t, b)), r1(), d);
    id_det_diag(s, t, a, b);
}

impl Mat {
    #[verifier::external_body] pub fn ncols(&self) -> (r: usize) ensures r == mat_nc(self.m@) { unimplemented!() }
    #[verifier::external_body] pub fn nrows(&self) -> (r: usize) ensures r == mat_nr(self.m@) { unimplemented!() }
}
impl SnfCalc {
    /// SnfCalc::gcdx: contract proved in unit snf_gcdx (re-stated; the body is verified there)
    #[verifier::external_body] pub fn gcdx(x: &ER, y: &ER) -> (res: (ER, ER, ER))
        requires !(x.v() == r0() && y.v() == r0()),
        ensures res.0.v() == radd(rmul(res.1.v(), x.v()), rmul(res.2.v(), y.v())), is_gcd(res.0.v(), x.v(), y.v()), is_norm(res.0.v()),
    { unimplemented!() }

    pub fn eliminate_row(&mut self, i: usize, j: usize) -> (modified: bool)
        ensures same_flags(*old(self), *final(self)), forall|a0: int| pq_ok(*old(self), a0) ==> pq_ok(*final(self), a0),
    //@body impl/SnfCalc/eliminate_row ring=1 index2=1 for_range=1 machine=j,j1 loops=1
    //@+ loop 0 header
    //@| for j1 in 0..self.target.ncols()
    //@+ sig
    //@| fn eliminate_row(&mut self, i: usize, j: usize) -> bool
    //@+ loop 0
    //@| invariant same_flags(*old(self), *self), forall|a0: int| pq_ok(*old(self), a0) ==> pq_ok(*self, a0),
    //@+ after-let d
    //@| if d.v() == r0() { lemma_zero_dvd(y.v()); }
    //@| lemma_unimodular(x.v(), y.v(), d.v(), s.v(), t.v());

    pub fn eliminate_col(&mut self, i: usize, j: usize) -> (modified: bool)
        ensures same_flags(*old(self), *final(self)), forall|a0: int| pq_ok(*old(self), a0) ==> pq_ok(*final(self), a0),
    //@body impl/SnfCalc/eliminate_col ring=1 index2=1 for_range=1 machine=i,i1 loops=1
    //@+ loop 0 header
    //@| for i1 in 0..self.target.nrows()
    //@+ sig
    //@| fn eliminate_col(&mut self, i: usize, j: usize) -> bool
    //@+ loop 0
    //@| invariant same_flags(*old(self), *self), forall|a0: int| pq_ok(*old(self), a0) ==> pq_ok(*self, a0),
    //@+ after-let d
    //@| if d.v() == r0() { lemma_zero_dvd(y.v()); }
    //@| lemma_unimodular(x.v(), y.v(), d.v(), s.v(), t.v());

    /// one step of the diagonal normalisation.  Decision clause (what makes the final diagonal a
    /// divisibility chain): `true` is returned only when D[i] already divides D[i+1], and then nothing changed.
    pub fn diag_normalize_step(&mut self, i: usize) -> (r: bool)
        requires i + 1 <= usize::MAX,
//@if B
            // valid input: both diagonal entries are non-zero (diag_normalize only calls it below the first zero)
            mat_at(old(self).target.m@, i as int, i as int) != r0(), mat_at(old(self).target.m@, i + 1, i + 1) != r0(),
//@endif
        ensures same_flags(*old(self), *final(self)), forall|a0: int| pq_ok(*old(self), a0) ==> pq_ok(*final(self), a0),
            r ==> (*final(self) == *old(self)
                && dvd(mat_at(old(self).target.m@, i as int, i as int), mat_at(old(self).target.m@, i + 1, i + 1))),
    //@body impl/SnfCalc/diag_normalize_step ring=1 index2=1 machine=i subst=R:ER
    //@+ sig
    //@| fn diag_normalize_step(&mut self, i: usize) -> bool
    //@+ after-let d
    //@| if d.v() == r0() { lemma_zero_dvd(y.v()); }
    //@| lemma_unimodular(x.v(), y.v(), d.v(), s.v(), t.v());
}

impl Mat {
    #[verifier::external_body] pub fn shape(&self) -> (r: (usize, usize)) { unimplemented!() }
    #[verifier::external_body] pub fn is_diag(&self) -> (r: bool) { unimplemented!() }
    #[verifier::external_body] pub fn is_zero(&self) -> (r: bool) { unimplemented!() }
    #[verifier::external_body] pub fn id(n: usize) -> (r: Mat) ensures r.m@ == mid() { unimplemented!() }
    #[verifier::external_body] pub fn clone(&self) -> (r: Mat) ensures r.m@ == self.m@ { unimplemented!() }
}
/// std::cmp::min (ASSUMED)
pub fn umin_(a: usize, b: usize) -> (r: usize) ensures r == (if a <= b { a } else { b }) { if a <= b { a } else { b } }
//@item struct/SnfResult subst=Mat<R>:Mat,Option<Mat<R>>:Option<Mat>
impl SnfCalc {
    /// pivot search and non-zero counts: iterator adaptors over nalgebra views (not under contract; any result is allowed)
    #[verifier::external_body] pub fn select_pivot(&self, below_i: usize, j: usize) -> (r: Option<usize>) { unimplemented!() }
    #[verifier::external_body] pub fn row_nz(&self, i: usize) -> (r: usize) { unimplemented!() }
    #[verifier::external_body] pub fn col_nz(&self, j: usize) -> (r: usize) { unimplemented!() }

//@if A
    // (variant A only: whether the pivot assertion / the endless-loop guard can fire depends on entry-level
    //  semantics that are not modelled, so 'valid input is not rejected' is not claimed for these three)
    /// termination is NOT proved (the loop runs until the pivot row and column are clean)
    #[verifier::exec_allows_no_decreases_clause]
    pub fn eliminate_at(&mut self, i: usize, j: usize)
        ensures same_flags(*old(self), *final(self)), forall|a0: int| pq_ok(*old(self), a0) ==> pq_ok(*final(self), a0),
    //@body impl/SnfCalc/eliminate_at ring=1 index2=1 boolor=1 machine=i,j loops=1
    //@+ sig
    //@| fn eliminate_at(&mut self, i: usize, j: usize)
    //@+ loop 0 header
    //@| while self.row_nz(i) > 1 || self.col_nz(j) > 1
    //@+ loop 0
    //@| invariant same_flags(*old(self), *self), forall|a0: int| pq_ok(*old(self), a0) ==> pq_ok(*self, a0),

    #[verifier::exec_allows_no_decreases_clause]
    pub fn eliminate_step(&mut self, i: usize, j: usize) -> (r: bool)
        ensures same_flags(*old(self), *final(self)), forall|a0: int| pq_ok(*old(self), a0) ==> pq_ok(*final(self), a0),
    //@body impl/SnfCalc/eliminate_step ring=1 index2=1 machine=i,j,i_p
    //@+ sig
    //@| fn eliminate_step(&mut self, i: usize, j: usize) -> bool
    //@+ after-let u
    //@| ax_nunit_unit(self.target.at_spec(i, i));

    #[verifier::exec_allows_no_decreases_clause]
    pub fn eliminate_all(&mut self)
        ensures same_flags(*old(self), *final(self)), forall|a0: int| pq_ok(*old(self), a0) ==> pq_ok(*final(self), a0),
    //@body impl/SnfCalc/eliminate_all for_range=1 loops=1
    //@+ sig
    //@| fn eliminate_all(&mut self)
    //@+ loop 0 header
    //@| for j in 0..n
    //@+ loop 0
    //@| invariant i <= __it0, same_flags(*old(self), *self), forall|a0: int| pq_ok(*old(self), a0) ==> pq_ok(*self, a0),
    /// the LLL-based Hermite pre-pass on the real body: the target is replaced by H = P'.target and p, pinv by the transforms lll_hnf returns --
    /// correct exactly when no row operation has been recorded yet (P = Pinv = I), which is where `process` calls it
    pub fn preprocess_lll(&mut self)
        requires p_fresh(*old(self)),
        ensures same_flags(*old(self), *final(self)), forall|a0: int| pq_ok(*old(self), a0) ==> pq_ok(*final(self), a0),
    //@body impl/SnfCalc/preprocess_lll subst=std::mem::take:mat_take_
    //@+ pre-raw
    //@| let ghost s0 = *self;
    //@+ post
    //@| assert forall|a0: int| pq_ok(s0, a0) implies pq_ok(*self, a0) by {
    //@|     if s0.p.is_some() && s0.q.is_some() { let q = opt(s0.q); mx_id(a0); mx_assoc(opt(self.p), a0, q); }
    //@| }
//@expect-in yui-matrix/src/dense/snf.rs _self.preprocess_lll()
//@expect-in yui-matrix/src/dense/snf.rs preprocess_lll_for!(self,
    /// ASSUMED (macro dispatch over `dyn Any`: for the listed ring types it calls preprocess_lll, for every other type it does nothing):
    /// the text of the dispatch is pinned below
    #[verifier::external_body] pub fn preprocess(&mut self)
        requires p_fresh(*old(self)),
        ensures same_flags(*old(self), *final(self)), forall|a0: int| pq_ok(*old(self), a0) ==> pq_ok(*final(self), a0) { unimplemented!() }

    /// the diagonal normalisation as a whole: it works through tracked operations, and when it returns the diagonal entries above the
    /// first zero form a divisibility chain  d_0 | d_1 | ... | d_{r-1}
    #[verifier::exec_allows_no_decreases_clause]
    pub fn diag_normalize(&mut self)
        ensures same_flags(*old(self), *final(self)), forall|a0: int| pq_ok(*old(self), a0) ==> pq_ok(*final(self), a0),
            exists|r: int| 0 <= r && (forall|j: int| 0 <= j < r ==> #[trigger] dg(old(self).target.m@, j) != r0())
                && (r == (if mat_nr(old(self).target.m@) <= mat_nc(old(self).target.m@) { mat_nr(old(self).target.m@) } else { mat_nc(old(self).target.m@) }) || dg(old(self).target.m@, r) == r0())
                && #[trigger] chain(final(self).target.m@, r),
    //@body impl/SnfCalc/diag_normalize ring=1 index2=1 for_range=1 for_iter=1 machine=n,r,i loops=4 subst=min:umin_
    //@+ sig
    //@| fn diag_normalize(&mut self)
    //@+ pre-raw
    //@| let ghost m0 = self.target.m@;
    //@+ loop 0 header
    //@| (0..n).filter(|&i|
    //@+ loop 0
    //@| invariant_except_break __found0.is_none(), forall|j: int| 0 <= j < __it0 ==> #[trigger] dg(m0, j) != r0(),
    //@| invariant __it0 <= __hi0, __hi0 == n, self.target.m@ == m0,
    //@| ensures __found0.is_some() ==> (__found0.unwrap() < n && dg(m0, __found0.unwrap() as int) == r0() && forall|j: int| 0 <= j < __found0.unwrap() ==> #[trigger] dg(m0, j) != r0()),
    //@|     __found0.is_none() ==> forall|j: int| 0 <= j < n ==> #[trigger] dg(m0, j) != r0(),
    //@+ after-let r
    //@| assert(forall|j: int| 0 <= j < r ==> #[trigger] dg(m0, j) != r0());
    //@| assert(r == n || dg(m0, r as int) == r0());
    //@| assert(chain(m0, 0));
    //@+ loop 1 header
    //@| 'outer: loop
    //@+ loop 1
    //@| invariant r >= 1, r <= n, same_flags(*old(self), *self), forall|a0: int| pq_ok(*old(self), a0) ==> pq_ok(*self, a0),
    //@| ensures chain(self.target.m@, r as int), same_flags(*old(self), *self), forall|a0: int| pq_ok(*old(self), a0) ==> pq_ok(*self, a0),
    //@+ loop 2 header
    //@| for i in 0..r-1
    //@+ loop 2
    //@| invariant r >= 1, r <= n, __hi2 == r - 1, __it2 <= __hi2, same_flags(*old(self), *self), forall|a0: int| pq_ok(*old(self), a0) ==> pq_ok(*self, a0),
    //@|     forall|i2: int| 0 <= i2 < __it2 ==> dvd(#[trigger] dg(self.target.m@, i2), dg(self.target.m@, i2 + 1)),
    //@+ loop 3 header
    //@| for i in 0..r
    //@+ loop 3
    //@| invariant same_flags(*old(self), *self), forall|a0: int| pq_ok(*old(self), a0) ==> pq_ok(*self, a0), chain(self.target.m@, r as int), __hi3 == r,
    //@+ after-let u
    //@| ax_nunit_unit(self.target.at_spec(i, i));
    //@| gu = u.v();
    //@+ loop 3 begin-raw
    //@| let ghost mb = self.target.m@; let ghost mut gu = r1();
    //@+ loop 3 end
    //@| let m1 = self.target.m@;
    //@| assert forall|i2: int| 0 <= i2 && i2 + 1 < r implies dvd(#[trigger] dg(m1, i2), dg(m1, i2 + 1)) by {
    //@|     assert(dvd(dg(mb, i2), dg(mb, i2 + 1)));
    //@|     if m1 != mb { assert(scaled_row(mb, m1, i as int, gu)); lemma_dvd_unit(gu, dg(mb, i2), dg(mb, i2 + 1)); }
    //@| }

    /// the whole reduction
    #[verifier::exec_allows_no_decreases_clause]
    pub fn process(&mut self)
        requires p_fresh(*old(self)),
        ensures same_flags(*old(self), *final(self)), forall|a0: int| pq_ok(*old(self), a0) ==> pq_ok(*final(self), a0),
    //@body impl/SnfCalc/process

    /// start: P = Pinv = I, Q = Qinv = I for the requested transforms
    pub fn new(target: Mat, flags: [bool; 4]) -> (s: SnfCalc)
        ensures s.target.m@ == target.m@, pq_ok(s, target.m@), p_fresh(s),
            s.p.is_some() == flags@[0], s.pinv.is_some() == flags@[1], s.q.is_some() == flags@[2], s.qinv.is_some() == flags@[3],
    //@body impl/SnfCalc/new subst=R:ER
    //@+ sig
    //@| fn new(target: Mat<R>, flags: SnfFlags) -> Self
    //@+ closure 0 typed
    //@| size: usize, flag: bool
    //@+ closure 0
    //@| -> (o: Option<Mat>) ensures o.is_some() == flag, flag ==> o.unwrap().m@ == mid()
    //@+ pre
    //@| mx_id(target.m@); mx_id(mid());

    pub fn result(self) -> (r: SnfResult)
        ensures r.result == self.target, r.p == self.p, r.pinv == self.pinv, r.q == self.q, r.qinv == self.qinv,
    //@body impl/SnfCalc/result
    //@+ sig
    //@| fn result(self) -> SnfResult<R>
//@endif
}
//@if A
/// what snf_in_place(a0, flags) returns: D = P a0 Q and two-sided inverses, for the transforms that were requested
impl SnfResult {
    /// the rank read off the result: the index of the first zero on the diagonal (all of min(rows, cols) if there is none)
    pub fn rank(&self) -> (r: usize)
        ensures r <= mat_nr(self.result.m@), r <= mat_nc(self.result.m@), forall|j: int| 0 <= j < r ==> #[trigger] dg(self.result.m@, j) != r0(),
            r == (if mat_nr(self.result.m@) <= mat_nc(self.result.m@) { mat_nr(self.result.m@) } else { mat_nc(self.result.m@) }) || dg(self.result.m@, r as int) == r0(),
    //@body impl/SnfResult/rank ring=1 index2=1 for_range=1 machine=n,i loops=1 subst=min:umin_
    //@+ loop 0
    //@| invariant __it0 <= __hi0, __hi0 == n, n == umin_spec(mat_nr(self.result.m@), mat_nc(self.result.m@)), forall|j: int| 0 <= j < __it0 ==> #[trigger] dg(self.result.m@, j) != r0(),
}
pub open spec fn umin_spec(a: int, b: int) -> int { if a <= b { a } else { b } }
pub open spec fn snf_res_ok(r: SnfResult, a0: int) -> bool {
    (r.p.is_some() && r.q.is_some() ==> r.result.m@ == mmul(mmul(opt(r.p), a0), opt(r.q)))
    && (r.p.is_some() && r.pinv.is_some() ==> mmul(opt(r.p), opt(r.pinv)) == mid() && mmul(opt(r.pinv), opt(r.p)) == mid())
    && (r.q.is_some() && r.qinv.is_some() ==> mmul(opt(r.q), opt(r.qinv)) == mid() && mmul(opt(r.qinv), opt(r.q)) == mid())
}
#[verifier::exec_allows_no_decreases_clause]
pub fn snf_in_place(target: Mat, flags: [bool; 4]) -> (r: SnfResult)
    ensures snf_res_ok(r, target.m@), r.p.is_some() == flags@[0], r.pinv.is_some() == flags@[1], r.q.is_some() == flags@[2], r.qinv.is_some() == flags@[3],
//@body fn/snf_in_place
//@+ sig
//@| fn snf_in_place<R>(target: Mat<R>, flags: SnfFlags) -> SnfResult<R> where R: EucRing, for<'a> &'a R: EucRingOps<R>
//@+ pre-raw
//@| let ghost a0 = target.m@;
#[verifier::exec_allows_no_decreases_clause]
pub fn snf(target: &Mat, flags: [bool; 4]) -> (r: SnfResult)
    ensures snf_res_ok(r, target.m@), r.p.is_some() == flags@[0], r.pinv.is_some() == flags@[1], r.q.is_some() == flags@[2], r.qinv.is_some() == flags@[3],
//@body fn/snf
//@+ sig
//@| fn snf<R>(target: &Mat<R>, flags: SnfFlags) -> SnfResult<R> where R: EucRing, for<'a> &'a R: EucRingOps<R>
//@endif
} // verus!
fn main() {}
