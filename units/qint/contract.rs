// Contract overlay for yui/src/types/qint.rs (properties C14 / C15, and the division kernel of
// C09 / C10): quadratic integers Z[w] over the integer model Z.  Variants: G = Gaussian integers
// (D = -1, w = i), E = Eisenstein integers (D = -3, w^2 = w - 1).
//   C14: the product formula (incl. both shortcut branches), conj, norm agree with Z[w];
//   C15: a == (a/b) b + (a%b) with N(a%b) < N(b)  (Gauss: 2 N(r) <= N(b), Eisenstein: 4 N(r) <= 3 N(b)),
//        given only the contract of the integer div_round (unit int_div_round) for the callee.
use vstd::prelude::*;
verus! {
//@include prelude/rt.rs
//@include prelude/z.rs
//@source yui/src/types/qint.rs

//@if G
pub const D: i32 = -1;
//@else
pub const D: i32 = -3;
//@endif

// std contract assumed (TRUSTED): i32::rem_euclid
pub assume_specification[ i32::rem_euclid ](x: i32, y: i32) -> (r: i32)
    requires y > 0
    ensures r == (x as int) % (y as int);

/// contract of `impl DivRound for T: Integer` proved in unit int_div_round
impl Z {
    #[verifier::external_body] pub fn div_round(&self, q: &Z) -> (r: Z)
        requires q.v() != 0
        ensures 2 * zabs(self.v() - r.v() * q.v()) <= zabs(q.v()), zdvd(q.v(), self.v()) ==> r.v() * q.v() == self.v()
    { unimplemented!() }
}

//@item struct/QuadInt subst=I:Z

pub open spec fn qv(z: QuadInt) -> (int, int) { (z.0.v(), z.1.v()) }
//@if G
pub open spec fn qmul(p: (int, int), q: (int, int)) -> (int, int) { (p.0 * q.0 - p.1 * q.1, p.0 * q.1 + p.1 * q.0) }
pub open spec fn qnorm(p: (int, int)) -> int { p.0 * p.0 + p.1 * p.1 }
pub open spec fn qconj(p: (int, int)) -> (int, int) { (p.0, -p.1) }
//@else
pub open spec fn qmul(p: (int, int), q: (int, int)) -> (int, int) { (p.0 * q.0 - p.1 * q.1, p.0 * q.1 + p.1 * q.0 + p.1 * q.1) }
pub open spec fn qnorm(p: (int, int)) -> int { p.0 * p.0 + p.0 * p.1 + p.1 * p.1 }
pub open spec fn qconj(p: (int, int)) -> (int, int) { (p.0 + p.1, -p.1) }
//@endif
pub open spec fn qsub(p: (int, int), q: (int, int)) -> (int, int) { (p.0 - q.0, p.1 - q.1) }
pub open spec fn qadd(p: (int, int), q: (int, int)) -> (int, int) { (p.0 + q.0, p.1 + q.1) }

proof fn k0(a: int) by (nonlinear_arith) ensures a * 0 == 0, 0 * a == 0, a * 1 == a, 1 * a == a, a * (-1) == -a, (-1) * a == -a {}
proof fn c2(a: int, b: int) by (nonlinear_arith) ensures a * b == b * a {}
proof fn m3(a: int, b: int, c: int) by (nonlinear_arith) ensures (a * b) * c == a * (b * c), (a * b) * c == (a * c) * b {}
proof fn d2(s: int, u: int, v: int) by (nonlinear_arith) ensures s * (u + v) == s * u + s * v, (u + v) * s == u * s + v * s, s * (u - v) == s * u - s * v, (u - v) * s == u * s - v * s {}
proof fn ng(a: int, b: int) by (nonlinear_arith) ensures (-a) * b == -(a * b), a * (-b) == -(a * b), (-a) * (-b) == a * b {}

impl QuadInt {
    pub fn pair(&self) -> (r: (&Z, &Z)) ensures r.0.v() == self.0.v(), r.1.v() == self.1.v(),
    //@body impl/QuadInt/pair
    //@+ sig
    //@| fn pair(&self) -> (&I, &I)
    pub fn pair_into(self) -> (r: (Z, Z)) ensures r.0.v() == self.0.v(), r.1.v() == self.1.v(),
    //@body impl/QuadInt/pair_into
    //@+ sig
    //@| fn pair_into(self) -> (I, I)

    pub fn conj(&self) -> (r: QuadInt) ensures qv(r) == qconj(qv(*self)),
    //@body impl/QuadInt/conj ring=1 machine=D
    //@+ sig
    //@| fn conj(&self) -> Self

    pub fn norm(&self) -> (r: Z) ensures r.v() == qnorm(qv(*self)),
    //@body impl/QuadInt/norm ring=1 machine=D subst=I:Z
    //@+ sig
    //@| fn norm(&self) -> I
    //@+ pre
    //@| let (a, b) = (self.0.v(), self.1.v()); k0(a * a); k0(b * b); ng(b * b, 1);

    /// Mul<&QuadInt> for &QuadInt
    pub fn mul(&self, rhs: &QuadInt) -> (r: QuadInt) ensures qv(r) == qmul(qv(*self), qv(*rhs)),
    //@body impl/Mul@&QuadInt/mul ring=1 machine=D subst=I:Z
    //@+ sig
    //@| fn mul(self, rhs: &'b QuadInt<I, D>) -> Self::Output
    //@+ pre
    //@| let (a, b, c, d) = (self.0.v(), self.1.v(), rhs.0.v(), rhs.1.v());
    //@| k0(a); k0(b); k0(c); k0(d); k0(a * c); k0(a * d); k0(b * c); k0(b * d); ng(b * d, 1); c2(b, c);
    //@| if b == 0 { k0(c); k0(d); assert(b * d == 0 && b * c == 0) by (nonlinear_arith) requires b == 0; }
    //@| if d == 0 { assert(b * d == 0 && a * d == 0) by (nonlinear_arith) requires d == 0; }
}


//@if G
//@include units/qint/poly_G.inc
//@else
//@include units/qint/poly_E.inc
//@endif

// ---------------------------------------------------------------- operator helpers (q-family of R3)
// `*` and `/` on QuadInt delegate to the verified &-forms (auto_ops-derived by-value forms: assumed to
// delegate); `-` is macro-generated (impl_add_op!, qualified-path calls the extractor does not take):
// componentwise contract ASSUMED here, proved on i32 by the Kani harness ring_qint_addsub_i32.
pub trait QL: Sized {
    spec fn q(&self) -> (int, int);
    fn rf(&self) -> (r: &QuadInt) ensures qv(*r) == self.q();
}
impl QL for QuadInt { open spec fn q(&self) -> (int, int) { qv(*self) } fn rf(&self) -> (r: &QuadInt) { self } }
impl QL for &QuadInt { open spec fn q(&self) -> (int, int) { qv(**self) } fn rf(&self) -> (r: &QuadInt) { *self } }
pub fn qmul_<A: QL, B: QL>(a: A, b: B) -> (r: QuadInt) ensures qv(r) == qmul(a.q(), b.q()) { a.rf().mul(b.rf()) }
#[verifier::external_body] pub fn qsub_<A: QL, B: QL>(a: A, b: B) -> (r: QuadInt) ensures qv(r) == qsub(a.q(), b.q()) { unimplemented!() }
pub fn qdiv_<A: QL, B: QL>(a: A, b: B) -> (r: QuadInt)
    requires b.q() != (0int, 0int)
    ensures div_ok(a.q(), b.q(), qv(r))
{ a.rf().div(b.rf()) }

proof fn lemma_sq_bound(e: int, n: int) by (nonlinear_arith) requires 2 * zabs(e) <= n ensures 4 * (e * e) <= n * n {}
proof fn lemma_sq_nonneg(e: int) by (nonlinear_arith) ensures e * e >= 0 {}
proof fn lemma_prod_bound(s: int, e: int, n: int) by (nonlinear_arith) requires 2 * zabs(s) <= n, 2 * zabs(e) <= n ensures -(4 * (s * e)) <= n * n {}
proof fn lemma_cancel_pos(k: int, n: int, c: int, d: int) by (nonlinear_arith) requires n > 0, c > 0, c * (k * n) <= d * (n * n) ensures c * k <= d * n {}

//@if G
pub open spec fn div_ok(a: (int, int), b: (int, int), q: (int, int)) -> bool { 2 * qnorm(qsub(a, qmul(b, q))) <= qnorm(b) }
pub proof fn lemma_norm_pos(b: (int, int)) requires b != (0int, 0int) ensures qnorm(b) > 0 {
    lemma_sq_nonneg(b.0); lemma_sq_nonneg(b.1);
    if b.0 != 0 { assert(b.0 * b.0 > 0) by (nonlinear_arith) requires b.0 != 0; } else { assert(b.1 * b.1 > 0) by (nonlinear_arith) requires b.1 != 0; }
}
/// a, b != 0, w = a conj(b), q with 2|w_i - q_i N| <= N   ==>   2 N(a - b q) <= N(b)
pub proof fn lemma_div_bound(a: (int, int), b: (int, int), q: (int, int))
    requires b != (0int, 0int),
        2 * zabs(qmul(a, qconj(b)).0 - q.0 * qnorm(b)) <= qnorm(b),
        2 * zabs(qmul(a, qconj(b)).1 - q.1 * qnorm(b)) <= qnorm(b),
    ensures div_ok(a, b, q)
{
    let n = qnorm(b); let r = qsub(a, qmul(b, q)); let w = qmul(a, qconj(b));
    lemma_norm_pos(b);
    pg_rbar0(a.0, a.1, b.0, b.1, q.0, q.1); pg_rbar1(a.0, a.1, b.0, b.1, q.0, q.1);
    c2(q.0, n); c2(q.1, n);
    let e = (w.0 - q.0 * n, w.1 - q.1 * n);
    assert(qmul(r, qconj(b)) == e);
    pg_norm_mul(r.0, r.1, b.0, -b.1); pg_conj_norm(b.0, b.1);
    assert(qnorm(e) == qnorm(r) * n);
    lemma_sq_bound(e.0, n); lemma_sq_bound(e.1, n);
    assert(4 * (qnorm(r) * n) <= 2 * (n * n));
    lemma_cancel_pos(qnorm(r), n, 4, 2);
}
//@else
pub open spec fn div_ok(a: (int, int), b: (int, int), q: (int, int)) -> bool { 4 * qnorm(qsub(a, qmul(b, q))) <= 3 * qnorm(b) }
pub proof fn lemma_norm_pos(b: (int, int)) requires b != (0int, 0int) ensures qnorm(b) > 0 {
    // 4 N = (2 b0 + b1)^2 + 3 b1^2
    assert(4 * (b.0 * b.0 + b.0 * b.1 + b.1 * b.1) == (2 * b.0 + b.1) * (2 * b.0 + b.1) + 3 * (b.1 * b.1)) by (nonlinear_arith);
    lemma_sq_nonneg(2 * b.0 + b.1); lemma_sq_nonneg(b.1);
    if b.1 != 0 { assert(b.1 * b.1 > 0) by (nonlinear_arith) requires b.1 != 0; }
    else { assert((2 * b.0 + b.1) * (2 * b.0 + b.1) > 0) by (nonlinear_arith) requires 2 * b.0 + b.1 != 0; }
}
/// Eisenstein: w = x + y w0, m ~ (x + y)/N, n ~ y/N, q = (m - n, n)   ==>   4 N(a - b q) <= 3 N(b)
pub proof fn lemma_div_bound(a: (int, int), b: (int, int), m: int, n1: int)
    requires b != (0int, 0int),
        2 * zabs((qmul(a, qconj(b)).0 + qmul(a, qconj(b)).1) - m * qnorm(b)) <= qnorm(b),
        2 * zabs(qmul(a, qconj(b)).1 - n1 * qnorm(b)) <= qnorm(b),
    ensures div_ok(a, b, (m - n1, n1))
{
    let q = (m - n1, n1);
    let n = qnorm(b); let r = qsub(a, qmul(b, q)); let w = qmul(a, qconj(b));
    lemma_norm_pos(b);
    pe_rbar0(a.0, a.1, b.0, b.1, q.0, q.1); pe_rbar1(a.0, a.1, b.0, b.1, q.0, q.1);
    c2(q.0, n); c2(q.1, n); c2(m, n); c2(n1, n); d2(n, m, n1);
    let e = (w.0 - n * q.0, w.1 - n * q.1);
    assert(qmul(r, qconj(b)) == e);
    pe_norm_mul(r.0, r.1, b.0 + b.1, -b.1); pe_conj_norm(b.0, b.1);
    assert(qnorm(e) == qnorm(r) * n);
    let s = e.0 + e.1;
    assert(s == (w.0 + w.1) - m * n);
    pe_norm_shift(s, e.1);
    assert(qnorm(e) == s * s - s * e.1 + e.1 * e.1);
    lemma_sq_bound(s, n); lemma_sq_bound(e.1, n); lemma_prod_bound(s, e.1, n);
    assert(4 * (qnorm(r) * n) <= 3 * (n * n));
    lemma_cancel_pos(qnorm(r), n, 4, 3);
}
//@endif

impl QuadInt {
//@if G
    pub fn div_round(&self, rhs: &QuadInt) -> (r: QuadInt)
        requires qv(*rhs) != (0int, 0int),
        ensures div_ok(qv(*self), qv(*rhs), qv(r)),
    //@body impl/DivRound@GaussInt/div_round ring=1 q=self,rhs,conj
    //@+ sig
    //@| fn div_round(&self, rhs: &Self) -> Self
    //@+ after-let norm
    //@| lemma_norm_pos(qv(*rhs));
    //@+ post
    //@| lemma_div_bound(qv(*self), qv(*rhs), qv(__ret));

    pub fn div(&self, rhs: &QuadInt) -> (r: QuadInt)
        requires qv(*rhs) != (0int, 0int),
        ensures div_ok(qv(*self), qv(*rhs), qv(r)),
    //@body impl/Div@&GaussInt/div
    //@+ sig
    //@| fn div(self, rhs: &'b GaussInt<I>) -> Self::Output

    pub fn rem(&self, rhs: &QuadInt) -> (r: QuadInt)
        requires qv(*rhs) != (0int, 0int),
        ensures
            // a == q b + r for the quotient q = a / b, and the remainder is strictly smaller in norm
            exists|q: (int, int)| #[trigger] div_ok(qv(*self), qv(*rhs), q) && qv(r) == qsub(qv(*self), qmul(qv(*rhs), q)),
            2 * qnorm(qv(r)) <= qnorm(qv(*rhs)), qnorm(qv(r)) < qnorm(qv(*rhs)),
    //@body impl/Rem@&GaussInt/rem ring=1 q=self,rhs,q
    //@+ sig
    //@| fn rem(self, rhs: &'b GaussInt<I>) -> Self::Output
    //@+ after-let q
    //@| lemma_norm_pos(qv(*rhs));
    //@| assert(div_ok(qv(*self), qv(*rhs), qv(q)));
//@else
    pub fn div_round(&self, rhs: &QuadInt) -> (r: QuadInt)
        requires qv(*rhs) != (0int, 0int),
        ensures div_ok(qv(*self), qv(*rhs), qv(r)),
    //@body impl/DivRound@EisenInt/div_round ring=1 q=self,rhs,conj
    //@+ sig
    //@| fn div_round(&self, rhs: &Self) -> Self
    //@+ after-let norm
    //@| lemma_norm_pos(qv(*rhs));
    //@+ after-let m
    //@| lemma_div_bound(qv(*self), qv(*rhs), m.v(), n.v());

    pub fn div(&self, rhs: &QuadInt) -> (r: QuadInt)
        requires qv(*rhs) != (0int, 0int),
        ensures div_ok(qv(*self), qv(*rhs), qv(r)),
    //@body impl/Div@&EisenInt/div
    //@+ sig
    //@| fn div(self, rhs: &'b EisenInt<I>) -> Self::Output

    pub fn rem(&self, rhs: &QuadInt) -> (r: QuadInt)
        requires qv(*rhs) != (0int, 0int),
        ensures
            exists|q: (int, int)| #[trigger] div_ok(qv(*self), qv(*rhs), q) && qv(r) == qsub(qv(*self), qmul(qv(*rhs), q)),
            4 * qnorm(qv(r)) <= 3 * qnorm(qv(*rhs)), qnorm(qv(r)) < qnorm(qv(*rhs)),
    //@body impl/Rem@&EisenInt/rem ring=1 q=self,rhs,q
    //@+ sig
    //@| fn rem(self, rhs: &'b EisenInt<I>) -> Self::Output
    //@+ after-let q
    //@| lemma_norm_pos(qv(*rhs));
    //@| assert(div_ok(qv(*self), qv(*rhs), qv(q)));
//@endif
}

} // verus!
fn main() {}
