// Contract overlay for PolyBase<X, R> (yui/src/types/poly/poly.rs): polynomials as linear combinations of
// monomials.  Property C16, mechanism "special cases of polynomial *= (rhs one / const / self const)":
// every branch of MulAssign<&PolyBase> must produce the product in the polynomial ring — here: the
// bilinear extension of the monomial product that the general branch (Lc::mul / combine, proved in unit lc)
// computes — and keep "no zero coefficient stored".  Modular: Lc's operations enter only through the
// contracts proved in unit lc (copied verbatim by //@contract-of).
use vstd::prelude::*;
verus! {
//@include prelude/rt.rs
//@include prelude/er.rs
//@source yui/src/types/poly/poly.rs
//@include units/lc/model.inc

impl Lc {
//@contract-of units/lc/contract.rs zero,is_zero,nterms,coeff,iter,add_assign,sub_assign,mul
    /// derive(Clone) — TRUSTED to copy the term map
    #[verifier::external_body] pub fn clone(&self) -> (r: Lc) ensures r == *self { unimplemented!() }
}

// ---------------------------------------------------------------- monomials
/// identity of the monomial 1 (Mono::one); neutral for the product (Kani obligations 'one-is-neutral' of the mono_* harnesses)
pub uninterp spec fn mone() -> int;
#[verifier::external_body] pub proof fn ax_xm_one(x: int) ensures xm(x, mone()) == x, xm(mone(), x) == x {}
/// the graded-lex order on monomials, as a total order on their identities (the order axioms are proved for Var / Var2 / Var3 and
/// MultiDeg in the Kani mono_* harnesses and the units mono_order / mdeg; ASSUMED here for the abstract generator)
pub uninterp spec fn gle(a: int, b: int) -> bool;
#[verifier::external_body] pub proof fn ax_gle(a: int, b: int, c: int) ensures gle(a, a), gle(a, b) || gle(b, a), (gle(a, b) && gle(b, a)) ==> a == b, (gle(a, b) && gle(b, c)) ==> gle(a, c) {}
pub uninterp spec fn mdeg(k: int) -> int;
pub struct GDeg { pub d: Ghost<int> }
#[verifier::external_body] pub fn gcmp_(a: &GenK, b: &GenK) -> (r: core::cmp::Ordering)
    ensures r == core::cmp::Ordering::Less <==> (gle(a.k@, b.k@) && a.k@ != b.k@), r == core::cmp::Ordering::Equal <==> a.k@ == b.k@, r == core::cmp::Ordering::Greater <==> (gle(b.k@, a.k@) && a.k@ != b.k@) { unimplemented!() }
/// unit monomials (Mono::is_unit / inv): y is the inverse of x iff x y = 1; proved for Var / Var2 / Var3 by the Kani mono_* harnesses? NO — ASSUMED here
pub uninterp spec fn munit(x: int) -> bool;
impl GenK {
    #[verifier::external_body] pub fn deg(&self) -> (r: GDeg) ensures r.d@ == mdeg(self.k@) { unimplemented!() }
    #[verifier::external_body] pub fn is_unit(&self) -> (r: bool) ensures r == munit(self.k@) { unimplemented!() }
    #[verifier::external_body] pub fn inv(&self) -> (r: Option<GenK>) ensures r.is_some() == munit(self.k@), r.is_some() ==> xm(self.k@, r.unwrap().k@) == mone() { unimplemented!() }
    #[verifier::external_body] pub fn one() -> (r: GenK) ensures r.k@ == mone() { unimplemented!() }
    #[verifier::external_body] pub fn is_one(&self) -> (r: bool) ensures r == (self.k@ == mone()) { unimplemented!() }
}
/// the iteration order of a map lists its entries (the contract AMap::iter states for every map)
#[verifier::external_body] pub proof fn ax_ord(m: &AMap) ensures entries_of(m.ord@, m.m@) {}

//@item struct/PolyBase subst=Lc<X,R>:Lc,X:GenK,R:ER

/// the product in the polynomial ring: coefficient of k in a * b
pub open spec fn pprod(a: &Lc, b: &Lc, k: int) -> int { dsum(a.data.ord@, a.data.ord@.len() as int, b.data.ord@, k) }
/// all stored terms are constants
pub open spec fn konst(a: &Lc) -> bool { forall|k: int| a.data.m@.dom().contains(k) ==> k == mone() }

// ---- the two collapse lemmas: multiplying by a constant polynomial is coefficientwise scaling ----
proof fn lemma_const_len(e: Seq<(int, int)>, m: Map<int, int>)
    requires entries_of(e, m), forall|k: int| m.dom().contains(k) ==> k == mone()
    ensures e.len() <= 1, e.len() == 1 ==> (e[0].0 == mone() && m.dom().contains(mone()) && e[0].1 == m[mone()]), e.len() == 0 ==> !m.dom().contains(mone()),
{
    if e.len() >= 2 { assert(e[0].0 == mone()); assert(e[1].0 == mone()); }
    if e.len() == 1 { assert(e[0].0 == mone()); }
}
proof fn lemma_right_const(ea: Seq<(int, int)>, ma: Map<int, int>, eb: Seq<(int, int)>, c: int, n: int, k: int)
    requires entries_of(ea, ma), 0 <= n <= ea.len(), eb.len() <= 1, eb.len() == 1 ==> eb[0] == (mone(), c), eb.len() == 0 ==> c == r0(),
    ensures dsum(ea, n, eb, k) == (if seen(ea, n, k) { rmul(ma[k], c) } else { r0() }),
    decreases n
{
    if n > 0 {
        lemma_right_const(ea, ma, eb, c, n - 1, k);
        let (x, r) = ea[n - 1];
        let base = dsum(ea, n - 1, eb, k);
        ax_xm_one(x);
        if eb.len() == 0 {
            assert(isum(base, x, r, eb, 0, k) == base);
            id_mul_zero(ma[k]);
        } else {
            assert(isum(base, x, r, eb, 0, k) == base);
            assert(isum(base, x, r, eb, 1, k) == (if x == k { radd(base, rmul(r, c)) } else { base }));
        }
        if x == k {
            assert(!seen(ea, n - 1, k));
            assert(seen(ea, n, k)) by { assert(ea[n - 1].0 == k); }
            ax_add_zero(rmul(r, c));
            if eb.len() == 0 { id_mul_zero(r); ax_add_zero(r0()); }
        } else {
            assert(seen(ea, n, k) == seen(ea, n - 1, k));
        }
    }
}
proof fn lemma_left_const_inner(c: int, eb: Seq<(int, int)>, mb: Map<int, int>, n: int, k: int)
    requires entries_of(eb, mb), 0 <= n <= eb.len(),
    ensures isum(r0(), mone(), c, eb, n, k) == (if seen(eb, n, k) { rmul(c, mb[k]) } else { r0() }),
    decreases n
{
    if n > 0 {
        lemma_left_const_inner(c, eb, mb, n - 1, k);
        let (y, s) = eb[n - 1];
        ax_xm_one(y);
        if y == k {
            assert(!seen(eb, n - 1, k));
            assert(seen(eb, n, k)) by { assert(eb[n - 1].0 == k); }
            ax_add_zero(rmul(c, s));
        } else {
            assert(seen(eb, n, k) == seen(eb, n - 1, k));
        }
    }
}
/// a * (constant c) = coefficientwise a_k c
proof fn lemma_mul_const_right(a: &Lc, b: &Lc)
    requires konst(b)
    ensures forall|k: int| pprod(a, b, k) == rmul(a.at(k), b.at(mone()))
{
    ax_ord(&a.data); ax_ord(&b.data);
    lemma_const_len(b.data.ord@, b.data.m@);
    let c = b.at(mone());
    assert forall|k: int| pprod(a, b, k) == rmul(a.at(k), c) by {
        lemma_right_const(a.data.ord@, a.data.m@, b.data.ord@, c, a.data.ord@.len() as int, k);
        if a.data.m@.dom().contains(k) {
            let i = choose|i: int| 0 <= i < a.data.ord@.len() && #[trigger] a.data.ord@[i].0 == k;
            assert(seen(a.data.ord@, a.data.ord@.len() as int, k));
        } else { id_mul_zero(c); }
    }
}
/// (constant c) * b = coefficientwise c b_k
proof fn lemma_mul_const_left(a: &Lc, b: &Lc)
    requires konst(a)
    ensures forall|k: int| pprod(a, b, k) == rmul(a.at(mone()), b.at(k))
{
    ax_ord(&a.data); ax_ord(&b.data);
    lemma_const_len(a.data.ord@, a.data.m@);
    let c = a.at(mone());
    let ea = a.data.ord@; let eb = b.data.ord@;
    assert forall|k: int| pprod(a, b, k) == rmul(c, b.at(k)) by {
        if ea.len() == 0 { assert(dsum(ea, 0, eb, k) == r0()); id_mul_zero(b.at(k)); }
        else {
            assert(dsum(ea, 0, eb, k) == r0());
            assert(dsum(ea, 1, eb, k) == isum(r0(), mone(), c, eb, eb.len() as int, k));
            lemma_left_const_inner(c, eb, b.data.m@, eb.len() as int, k);
            if b.data.m@.dom().contains(k) {
                let i = choose|i: int| 0 <= i < eb.len() && #[trigger] eb[i].0 == k;
                assert(seen(eb, eb.len() as int, k));
            } else { id_mul_zero(c); }
        }
    }
}

// ---------------------------------------------------------------- operator helpers (shapes of the auto_ops / delegate! expansions, pinned by //@expect)
/// Lc: MulAssign<&R>  (iter_mut().for_each(|(_, r)| *r *= rhs); clean) — ASSUMED, not within the extractor's reach
#[verifier::external_body] pub fn cmul_assign_(a: &mut Lc, c: &ER)
    ensures final(a).r_zero == old(a).r_zero, forall|k: int| final(a).at(k) == rmul(old(a).at(k), c.v()), old(a).nz() ==> final(a).nz()
{ unimplemented!() }
/// Lc: MulAssign<&Lc> generated by #[auto_ops] from `Mul for &Lc`:  *a = &*a * b
//@expect-in yui/src/types/lc/lc.rs impl<X, R> Mul for &Lc<X, R>
pub fn lmul_assign_(a: &mut Lc, b: &Lc)
    requires old(a).data.m@.dom().len() * b.data.m@.dom().len() <= usize::MAX,
    ensures final(a).nz(), final(a).wf(), forall|k: int| final(a).at(k) == pprod(old(a), b, k)
{ let r = a.mul(b); *a = r; }

impl PolyBase {
    pub open spec fn at(&self, k: int) -> int { self.data.at(k) }
    /// derive(Clone) — TRUSTED
    #[verifier::external_body] pub fn clone(&self) -> (r: PolyBase) ensures r == *self { unimplemented!() }

    pub fn new(data: Lc) -> (r: PolyBase) ensures r.data == data,
    //@body impl/PolyBase/new subst=X:GenK,R:ER
    pub fn from(data: Lc) -> (r: PolyBase) ensures r.data == data,
    //@body impl/From<Lc<X,R>>@PolyBase/from
    pub fn inner(&self) -> (r: &Lc) ensures *r == self.data,
    //@body impl/PolyBase/inner

    // delegate! { to self.data { ... } } — expansion stated by hand, input pinned
    //@expect pub fn coeff(&self, x: &X) -> &R;
    //@expect pub fn nterms(&self) -> usize;
    pub fn coeff(&self, x: &GenK) -> (r: &ER) requires self.data.wf() ensures r.v() == self.at(x.k@) { self.data.coeff(x) }
    pub fn nterms(&self) -> (r: usize) ensures self.data.data.m@.dom().finite(), r == self.data.data.m@.dom().len(), r == self.data.data.ord@.len() { self.data.nterms() }

    /// the cached pair returned for the zero polynomial is (1, 0)
    pub open spec fn zwf(&self) -> bool { self.zero.0.k@ == mone() && self.zero.1.v() == r0() }
    /// the leading term: the stored term with the largest monomial ((1, 0) for the zero polynomial)
    pub fn lead_term(&self) -> (r: (&GenK, &ER)) requires self.zwf()
        ensures self.data.data.ord@.len() == 0 ==> (r.0.k@ == mone() && r.1.v() == r0()),
            self.data.data.ord@.len() > 0 ==> (self.data.data.m@.dom().contains(r.0.k@) && r.1.v() == self.at(r.0.k@)
                && forall|k: int| self.data.data.m@.dom().contains(k) ==> gle(k, r.0.k@)),
    //@body impl/PolyBase/lead_term for_iter=1 loops=1 subst=MonoOrd::cmp_grlex:gcmp_
    //@+ loop 0 header
    //@| self.iter().max_by(|t1, t2|
    //@+ loop 0 elem
    //@| (&GenK, &ER)
    //@+ loop 0
    //@| invariant __it0.es@ == self.data.data.ord@, entries_of(__it0.es@, self.data.data.m@), 0 <= __it0.pos@ <= __it0.es@.len(),
    //@|     __best0.is_none() <==> __it0.pos@ == 0,
    //@|     __best0.is_some() ==> ((exists|j: int| 0 <= j < __it0.pos@ && #[trigger] __it0.es@[j] == (__best0.unwrap().0.k@, __best0.unwrap().1.v()))
    //@|         && forall|j: int| 0 <= j < __it0.pos@ ==> gle((#[trigger] __it0.es@[j]).0, __best0.unwrap().0.k@)),
    //@| ensures __it0.pos@ == __it0.es@.len(),
    //@| decreases __it0.es@.len() - __it0.pos@,
    //@+ loop 0 begin-raw
    //@| let ghost b0 = __best0;
    //@+ loop 0 end
    //@| let p = __it0.pos@ - 1; let xk = __it0.es@[p].0;
    //@| ax_gle(xk, xk, xk);
    //@| if b0.is_some() {
    //@|     let bk = b0.unwrap().0.k@; ax_gle(bk, xk, xk); ax_gle(xk, bk, bk);
    //@|     assert forall|j: int| 0 <= j < __it0.pos@ implies gle((#[trigger] __it0.es@[j]).0, __best0.unwrap().0.k@) by { if j < p { ax_gle(__it0.es@[j].0, bk, xk); } }
    //@| }
    //@+ loop 0 after
    //@| if __best0.is_some() {
    //@|     let j = choose|j: int| 0 <= j < __it0.pos@ && #[trigger] __it0.es@[j] == (__best0.unwrap().0.k@, __best0.unwrap().1.v());
    //@|     assert forall|k: int| self.data.data.m@.dom().contains(k) implies gle(k, __best0.unwrap().0.k@) by { let i = choose|i: int| 0 <= i < __it0.es@.len() && #[trigger] __it0.es@[i].0 == k; }
    //@| }
    pub fn lead_coeff(&self) -> (r: &ER) requires self.zwf()
        ensures self.data.data.ord@.len() == 0 ==> r.v() == r0(),
            self.data.data.ord@.len() > 0 ==> exists|x: int| self.data.data.m@.dom().contains(x) && r.v() == self.at(x) && forall|k: int| self.data.data.m@.dom().contains(k) ==> gle(k, x),
    //@body impl/PolyBase/lead_coeff
    pub fn lead_deg(&self) -> (r: GDeg) requires self.zwf()
        ensures self.data.data.ord@.len() == 0 ==> r.d@ == mdeg(mone()),
            self.data.data.ord@.len() > 0 ==> exists|x: int| self.data.data.m@.dom().contains(x) && r.d@ == mdeg(x) && forall|k: int| self.data.data.m@.dom().contains(k) ==> gle(k, x),
    //@body impl/PolyBase/lead_deg
    //@+ sig
    //@| fn lead_deg(&self) -> X::Deg

    // delegate! any_term; From<(X, R)> (= Lc::from_iter([pair])): ASSUMED single-term constructors / accessors
    //@expect pub fn any_term(&self) -> Option<(&X, &R)>;
    #[verifier::external_body] pub fn any_term(&self) -> (r: Option<(&GenK, &ER)>)
        ensures r.is_some() == (self.data.data.ord@.len() > 0), r.is_some() ==> (r.unwrap().0.k@ == self.data.data.ord@[0].0 && r.unwrap().1.v() == self.data.data.ord@[0].1) { unimplemented!() }
    #[verifier::external_body] pub fn from_pair(pair: (GenK, ER)) -> (r: PolyBase)
        ensures r.data.wf(), r.data.nz(), pair.1.v() != r0() ==> r.data.data.ord@ == seq![(pair.0.k@, pair.1.v())], pair.1.v() == r0() ==> r.data.data.ord@.len() == 0 { unimplemented!() }

    /// Ring::is_unit / inv: a x^i is a unit iff both a and the monomial are, and then (a x^i)(a^-1 x^-i) = 1
    pub fn is_unit(&self) -> (r: bool) requires self.data.nz()
        ensures r == (self.data.data.ord@.len() == 1 && munit(self.data.data.ord@[0].0) && is_unit(self.data.data.ord@[0].1)),
    //@body impl/Ring@PolyBase/is_unit
    pub fn inv(&self) -> (r: Option<PolyBase>) requires self.data.nz()
        ensures r.is_some() == (self.data.data.ord@.len() == 1 && munit(self.data.data.ord@[0].0) && is_unit(self.data.data.ord@[0].1)),
            r.is_some() ==> forall|k: int| pprod(&self.data, &r.unwrap().data, k) == (if k == mone() { r1() } else { r0() }),
    //@body impl/Ring@PolyBase/inv subst=Self::from:Self::from_pair
    //@+ sig
    //@| fn inv(&self) -> Option<Self>
    //@+ after-let inv
    //@| let (xk, av, yk, wv) = (x.k@, a.v(), xinv.k@, ainv.v());
    //@| ax_ord(&self.data.data);
    //@| if wv == r0() { id_mul_zero(av); ax_nontrivial(); }
    //@| let ea = self.data.data.ord@; let eb = inv.data.data.ord@;
    //@| assert forall|k: int| pprod(&self.data, &inv.data, k) == (if k == mone() { r1() } else { r0() }) by {
    //@|     assert(dsum(ea, 0, eb, k) == r0());
    //@|     assert(isum(r0(), xk, av, eb, 0, k) == r0());
    //@|     ax_add_zero(rmul(av, wv));
    //@| }

    //@expect pub fn iter(&self) -> impl Iterator<Item = (&X, &R)>;
    pub fn iter(&self) -> (r: MapIter<'_>) ensures r.pos@ == 0, r.es@ == self.data.data.ord@, entries_of(r.es@, self.data.data.m@), r.src == &self.data.data { self.data.iter() }

    /// every stored term is a constant
    pub fn is_const(&self) -> (r: bool) ensures r == konst(&self.data),
    //@body impl/PolyBase/is_const for_iter=1 loops=1
    //@+ loop 0 header
    //@| self.iter().all(|(x, _)|
    //@+ loop 0
    //@| invariant
    //@|     __it0.es@ == self.data.data.ord@, entries_of(__it0.es@, self.data.data.m@), 0 <= __it0.pos@ <= __it0.es@.len(),
    //@|     __all0 ==> forall|j: int| 0 <= j < __it0.pos@ ==> #[trigger] __it0.es@[j].0 == mone(),
    //@|     !__all0 ==> exists|j: int| 0 <= j < __it0.es@.len() && #[trigger] __it0.es@[j].0 != mone(),
    //@| ensures __all0 ==> __it0.pos@ == __it0.es@.len(),
    //@| decreases __it0.es@.len() - __it0.pos@,
    //@+ loop 0 after
    //@| if __all0 { assert forall|k: int| self.data.data.m@.dom().contains(k) implies k == mone() by { let i = choose|i: int| 0 <= i < __it0.es@.len() && #[trigger] __it0.es@[i].0 == k; } }
    //@| else { let j = choose|j: int| 0 <= j < __it0.es@.len() && #[trigger] __it0.es@[j].0 != mone(); assert(self.data.data.m@.dom().contains(__it0.es@[j].0)); }

    pub fn const_term(&self) -> (r: &ER) requires self.data.wf() ensures r.v() == self.at(mone()),
    //@body impl/PolyBase/const_term subst=X:GenK

    pub fn zero() -> (r: PolyBase) ensures r.data.wf(), r.data.nz(), forall|k: int| r.at(k) == r0(),
    //@body impl/Zero@PolyBase/zero
    pub fn is_zero(&self) -> (r: bool) ensures self.data.nz() ==> (r == (forall|k: int| self.at(k) == r0())),
    //@body impl/Zero@PolyBase/is_zero
    //@+ post
    //@| assert((forall|k: int| self.at(k) == r0()) == (forall|k: int| self.data.at(k) == r0())) by {
    //@|     if forall|k: int| self.data.at(k) == r0() { assert forall|k: int| self.at(k) == r0() by { assert(self.data.at(k) == r0()); } }
    //@|     if forall|k: int| self.at(k) == r0() { assert forall|k: int| self.data.at(k) == r0() by { assert(self.at(k) == r0()); } }
    //@| }
    /// is_one: the constant polynomial 1
    pub fn is_one(&self) -> (r: bool) requires self.data.wf() ensures r == (konst(&self.data) && self.at(mone()) == r1()),
    //@body impl/One@PolyBase/is_one

    pub fn add_assign(&mut self, rhs: &PolyBase)
        ensures final(self).data.nz(), forall|k: int| final(self).at(k) == radd(old(self).at(k), rhs.at(k)),
    //@body impl/AddAssign@PolyBase/add_assign macro=impl_assop(AddAssign;add_assign)
    pub fn sub_assign(&mut self, rhs: &PolyBase)
        ensures final(self).data.nz(), forall|k: int| final(self).at(k) == rsub(old(self).at(k), rhs.at(k)),
    //@body impl/SubAssign@PolyBase/sub_assign macro=impl_assop(SubAssign;sub_assign)

    /// MulAssign<&R>: scaling
    pub fn mul_assign_scalar(&mut self, rhs: &ER)
        ensures final(self).data.r_zero == old(self).data.r_zero, forall|k: int| final(self).at(k) == rmul(old(self).at(k), rhs.v()), old(self).data.nz() ==> final(self).data.nz(),
    //@body impl/MulAssign<&R>@PolyBase/mul_assign ring=1 q=rhs qname=c

    /// MulAssign<&PolyBase>: all four branches give the ring product, and leave no zero coefficient stored
    pub fn mul_assign(&mut self, rhs: &PolyBase)
        requires old(self).data.wf(), rhs.data.wf(), old(self).data.data.m@.dom().len() * rhs.data.data.m@.dom().len() <= usize::MAX,
        ensures forall|k: int| final(self).at(k) == pprod(&old(self).data, &rhs.data, k),
            (old(self).data.nz() && rhs.data.nz()) ==> final(self).data.nz(),
    //@body impl/MulAssign<&PolyBase<X,R>>@PolyBase/mul_assign ring=1 q=const_term:s,data:l
    //@+ pre
    //@| if konst(&rhs.data) { lemma_mul_const_right(&old(self).data, &rhs.data); }
    //@| if konst(&old(self).data) { lemma_mul_const_left(&old(self).data, &rhs.data); }
    //@| assert forall|k: int| rmul(old(self).at(k), r1()) == old(self).at(k) by { ax_mul_one(old(self).at(k)); }
    //@| assert forall|k: int| rmul(rhs.at(k), old(self).at(mone())) == rmul(old(self).at(mone()), rhs.at(k)) by { ax_mul_comm(rhs.at(k), old(self).at(mone())); }
}
/// PolyBase: MulAssign<&R> / Mul<&R> for &PolyBase as generated by #[auto_ops] from MulAssign<&R>
//@expect impl<X, R> MulAssign<&R> for PolyBase<X, R>
pub fn smul_assign_(a: &mut PolyBase, c: &ER)
    ensures final(a).data.r_zero == old(a).data.r_zero, forall|k: int| final(a).at(k) == rmul(old(a).at(k), c.v()), old(a).data.nz() ==> final(a).data.nz()
{ a.mul_assign_scalar(c) }
pub fn smul_(a: &PolyBase, c: &ER) -> (r: PolyBase)
    ensures r.data.r_zero == a.data.r_zero, forall|k: int| r.at(k) == rmul(a.at(k), c.v()), a.data.nz() ==> r.data.nz()
{ let mut r = a.clone(); r.mul_assign_scalar(c); r }

} // verus!
fn main() {}
