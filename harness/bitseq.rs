// C17 — contract harnesses for yui::bitseq::BitSeq on the real crate.
// Every harness: preconditions (pre!), one call of the real function, one ob! per
// postcondition clause.  "for all bit positions" is expressed with a symbolic index j,
// which keeps the harness loop-free (complete over the full u64 x 0..=64 domain).
use super::src::*;
use crate::{ob, pre, reach};
use yui::bitseq::{Bit, BitSeq};

// independent specification helpers (total on 0..=64, no shifts by the word size)
fn low_mask(n: usize) -> u64 { if n >= 64 { u64::MAX } else { (1u64 << n) - 1 } }
fn fits(val: u64, len: usize) -> bool { len <= 64 && (val & !low_mask(len)) == 0 }
fn bit_of(v: u64, j: usize) -> bool { j < 64 && (v >> j) & 1 == 1 }
fn mk_bit(b: bool) -> Bit { if b { Bit::Bit1 } else { Bit::Bit0 } }

/// a symbolic well-formed bit sequence, built through the public constructor
fn any_seq(s: &mut Src) -> Option<BitSeq> {
    // every well-formed value: any length 0..=64, any value of that many bits
    let len = s.small(0, 64) as usize;
    let val = s.u64() & low_mask(len);
    if !fits(val, len) { return None; }
    Some(BitSeq::new(val, len))
}
macro_rules! seq { ($s:expr) => { match any_seq($s) { Some(b) => b, None => { pre!(false); unreachable!() } } }; }

pub fn bitseq_new(s: &mut Src) -> R {
    let val = s.u64(); let len = s.usize();
    pre!(fits(val, len));
    reach!();
    let b = BitSeq::new(val, len);
    ob!(b.as_u64() == val, "new::value");
    ob!(b.len() == len, "new::len");
    ob!(b.is_empty() == (len == 0), "new::is_empty");
    Ok(())
}

pub fn bitseq_new_rev(s: &mut Src) -> R {
    let val = s.u64(); let len = s.usize(); let j = s.usize();
    pre!(fits(val, len));
    pre!(j < 64);
    reach!();
    let b = BitSeq::new_rev(val, len);
    ob!(b.len() == len, "new_rev::len");
    ob!(fits(b.as_u64(), len), "new_rev::wf");
    if j < len { ob!(bit_of(b.as_u64(), j) == bit_of(val, len - 1 - j), "new_rev::bits-reversed"); }
    Ok(())
}

pub fn bitseq_consts(s: &mut Src) -> R {
    let len = s.usize(); let j = s.usize();
    pre!(len <= 64); pre!(j < 64);
    reach!();
    let z = BitSeq::zeros(len);
    let o = BitSeq::ones(len);
    let e = BitSeq::empty();
    ob!(e.len() == 0 && e.as_u64() == 0, "empty::is-empty-list");
    ob!(z.len() == len && z.as_u64() == 0, "zeros::all-false");
    ob!(o.len() == len, "ones::len");
    ob!(bit_of(o.as_u64(), j) == (j < len), "ones::all-true-below-len");
    Ok(())
}

pub fn bitseq_set(s: &mut Src) -> R {
    let mut b = seq!(s);
    let i = s.usize(); let v = s.bool(); let j = s.usize();
    pre!(i < b.len()); pre!(j < 64);
    reach!();
    let old = b;
    b.set(i, mk_bit(v));
    ob!(b.len() == old.len(), "set::len-unchanged");
    ob!(bit_of(b.as_u64(), j) == if j == i { v } else { bit_of(old.as_u64(), j) }, "set::update-at-i-only");
    let mut c = old; if v { c.set_1(i) } else { c.set_0(i) }
    ob!(c == b, "set_0/set_1::agree-with-set");
    Ok(())
}

pub fn bitseq_push(s: &mut Src) -> R {
    let mut b = seq!(s);
    let v = s.bool(); let j = s.usize();
    pre!(b.len() < 64); pre!(j < 64);
    reach!();
    let old = b;
    b.push(mk_bit(v));
    ob!(b.len() == old.len() + 1, "push::len+1");
    ob!(bit_of(b.as_u64(), j) == if j == old.len() { v } else { bit_of(old.as_u64(), j) }, "push::appends-one-bit");
    let mut c = old; if v { c.push_1() } else { c.push_0() }
    ob!(c == b, "push_0/push_1::agree-with-push");
    let mut d = old; d += mk_bit(v);
    ob!(d == b, "add_assign(Bit)::agrees-with-push");
    ob!(old + mk_bit(v) == b, "add(Bit)::agrees-with-push");
    Ok(())
}

pub fn bitseq_append(s: &mut Src) -> R {
    let mut a = seq!(s);
    let b = seq!(s);
    let j = s.usize();
    pre!(a.len() + b.len() <= 64); pre!(j < 64);
    reach!();
    let old = a;
    a.append(b);
    ob!(a.len() == old.len() + b.len(), "append::len-sum");
    let exp = if j < old.len() { bit_of(old.as_u64(), j) } else if j < old.len() + b.len() { bit_of(b.as_u64(), j - old.len()) } else { false };
    ob!(bit_of(a.as_u64(), j) == exp, "append::concatenation");
    let mut c = old; c += &b;
    ob!(c == a, "add_assign(&BitSeq)::agrees-with-append");
    ob!(old + b == a, "add(BitSeq)::agrees-with-append");
    Ok(())
}

pub fn bitseq_remove(s: &mut Src) -> R {
    let mut b = seq!(s);
    let i = s.usize(); let j = s.usize();
    pre!(i < b.len()); pre!(j < 64);
    reach!();
    let old = b;
    b.remove(i);
    ob!(b.len() == old.len() - 1, "remove::len-1");
    let exp = if j < i { bit_of(old.as_u64(), j) } else { bit_of(old.as_u64(), j + 1) };
    ob!(bit_of(b.as_u64(), j) == exp, "remove::shifts-tail-down");
    Ok(())
}

pub fn bitseq_insert(s: &mut Src) -> R {
    let mut b = seq!(s);
    let i = s.usize(); let v = s.bool(); let j = s.usize();
    pre!(i <= b.len()); pre!(b.len() < 64); pre!(j < 64);
    reach!();
    let old = b;
    b.insert(i, mk_bit(v));
    ob!(b.len() == old.len() + 1, "insert::len+1");
    let exp = if j < i { bit_of(old.as_u64(), j) } else if j == i { v } else { bit_of(old.as_u64(), j - 1) };
    ob!(bit_of(b.as_u64(), j) == exp, "insert::shifts-tail-up");
    let mut c = old; if v { c.insert_1(i) } else { c.insert_0(i) }
    ob!(c == b, "insert_0/insert_1::agree-with-insert");
    Ok(())
}

pub fn bitseq_sub(s: &mut Src) -> R {
    let b = seq!(s);
    let l = s.usize(); let j = s.usize();
    pre!(l <= b.len()); pre!(j < 64);
    reach!();
    let r = b.sub(l);
    ob!(r.len() == l, "sub::len");
    ob!(bit_of(r.as_u64(), j) == (j < l && bit_of(b.as_u64(), j)), "sub::is-prefix");
    ob!(r.is_sub(&b), "sub::is_sub-of-original");
    Ok(())
}

pub fn bitseq_is_sub(s: &mut Src) -> R {
    let a = seq!(s);
    let b = seq!(s);
    let j = s.usize();
    pre!(j < 64);
    reach!();
    let r = a.is_sub(&b);
    // r  <=>  a is a prefix of b
    let prefix = a.len() <= b.len() && (b.as_u64() & low_mask(a.len())) == a.as_u64();
    ob!(r == prefix, "is_sub::iff-prefix");
    if r && j < a.len() { ob!(bit_of(a.as_u64(), j) == bit_of(b.as_u64(), j), "is_sub::bits-agree"); }
    Ok(())
}

pub fn bitseq_index(s: &mut Src) -> R {
    let b = seq!(s);
    let i = s.usize();
    pre!(i < b.len());
    reach!();
    ob!(b[i] == mk_bit(bit_of(b.as_u64(), i)), "index::bit-i");
    Ok(())
}

pub fn bitseq_from_bit(s: &mut Src) -> R {
    let v = s.bool();
    reach!();
    let b = BitSeq::from(mk_bit(v));
    ob!(b.len() == 1 && b.as_u64() == v as u64, "from(Bit)::singleton");
    let b2 = BitSeq::from(v);
    ob!(b2 == b, "from(bool)::singleton");
    ob!(Bit::from(v) == mk_bit(v) && mk_bit(v).is_one() == v && mk_bit(v).is_zero() == !v && mk_bit(v).as_u64() == v as u64, "Bit::conversions");
    Ok(())
}

// ---- type-bounded loops (unwind 66; thorough tier) ----

pub fn bitseq_weight(s: &mut Src) -> R {
    let b = seq!(s);
    reach!();
    ob!(b.weight() == b.as_u64().count_ones() as usize, "weight::popcount");
    Ok(())
}

pub fn bitseq_cmp(s: &mut Src) -> R {
    use std::cmp::Ordering::*;
    let a = seq!(s);
    let b = seq!(s);
    // bounded stand-in (the unbounded proof of cmp is the Verus unit): lengths <= 8
    pre!(a.len() <= 8 && b.len() <= 8);
    reach!();
    let exp = a.len().cmp(&b.len())
        .then(a.as_u64().count_ones().cmp(&b.as_u64().count_ones()))
        .then(a.as_u64().cmp(&b.as_u64()));
    ob!(a.cmp(&b) == exp, "cmp::len-then-weight-then-value");
    ob!((a.cmp(&b) == Equal) == (a == b), "cmp::Equal-iff-eq");
    ob!(a.partial_cmp(&b) == Some(a.cmp(&b)), "partial_cmp::agrees");
    Ok(())
}

pub fn bitseq_iter(s: &mut Src) -> R {
    let b = seq!(s);
    let j = s.usize();
    pre!(j < 64);
    reach!();
    let mut n = 0usize;
    let mut at_j = None;
    for x in b.iter() { if n == j { at_j = Some(x); } n += 1; }
    ob!(n == b.len(), "iter::yields-len-items");
    ob!(at_j == if j < b.len() { Some(mk_bit(bit_of(b.as_u64(), j))) } else { None }, "iter::item-j-is-bit-j");
    Ok(())
}

pub fn bitseq_from_iter(s: &mut Src) -> R {
    let n = s.usize(); let val = s.u64(); let j = s.usize();
    pre!(n <= 64); pre!(j < 64);
    reach!();
    let b = BitSeq::from_iter((0..n).map(|k| bit_of(val, k)));
    ob!(b.len() == n, "from_iter::len");
    ob!(bit_of(b.as_u64(), j) == (j < n && bit_of(val, j)), "from_iter::bits");
    Ok(())
}

pub fn bitseq_generate(s: &mut Src) -> R {
    let len = s.usize();
    pre!(len <= 3);
    reach!();
    let mut k = 0u64;
    for b in BitSeq::generate(len) {
        ob!(b.len() == len && b.as_u64() == k, "generate::kth-item");
        k += 1;
    }
    ob!(k == 1u64 << len, "generate::count");
    Ok(())
}


// ---- parsing and printing (bounded stand-in: strings of length <= 3) ----
pub fn bitseq_parse(s: &mut Src) -> R {
    use std::str::FromStr;
    let n = s.small(0, 3) as usize;
    let (c0, c1, c2) = (s.u8(), s.u8(), s.u8());
    reach!();
    let bytes = [c0, c1, c2];
    let mut st = String::new();
    let mut k = 0;
    while k < n { pre!(bytes[k] < 128); st.push(bytes[k] as char); k += 1; }
    let r = BitSeq::from_str(&st);
    let all_bits = (0..n).all(|k| bytes[k] == b'0' || bytes[k] == b'1');
    ob!(r.is_ok() == all_bits, "from_str::accepts-exactly-0/1-strings");
    if let Ok(b) = r {
        ob!(b.len() == n, "from_str::len");
        let mut k = 0;
        while k < n { ob!(bit_of(b.as_u64(), k) == (bytes[k] == b'1'), "from_str::bit-k-is-char-k"); k += 1; }
    }
    Ok(())
}
pub fn bitseq_print(s: &mut Src) -> R {
    let n = s.small(0, 3) as usize; let val = s.u64() & low_mask(n);
    reach!();
    let b = BitSeq::new(val, n);
    let st = b.to_string();
    ob!(st.len() == n, "to_string::len");
    let by = st.as_bytes();
    let mut k = 0;
    while k < n { ob!(by[k] == if bit_of(val, k) { b'1' } else { b'0' }, "to_string::char-k-is-bit-k"); k += 1; }
    Ok(())
}

/// parsing and printing on strings of every length 0..=66 (BOUNDED, sampled; native only): from_str accepts exactly the 0/1-strings of
/// length <= 64 (anything longer must be rejected: Err or panic), bit k is character k, to_string / from_str round-trip -- incl. the empty one
pub fn bitseq_parse_print_long(s: &mut Src) -> R {
    use std::str::FromStr;
    let n = s.small(0, 66) as usize;
    let val = s.u64(); let junk_at = s.small(0, 80) as usize; let junk = s.small(0, 5);
    reach!();
    let mut st = String::new();
    for k in 0..n {
        if k == junk_at { st.push(match junk { 0 => '+', 1 => '-', 2 => ' ', 3 => '2', 4 => 'x', _ => '_' }); }
        else { st.push(if bit_of(val, k % 64) { '1' } else { '0' }); }
    }
    let all_bits = !(junk_at < n);
    let r = std::panic::catch_unwind(|| BitSeq::from_str(&st));
    match r {
        Err(_) => { ob!(n > 64, "from_str::panics-only-on-overlong-input"); }
        Ok(r) => {
            ob!(n <= 64 || r.is_err(), "from_str::rejects-more-than-64-bits");
            ob!(n > 64 || r.is_ok() == all_bits, "from_str::accepts-exactly-0/1-strings");
            if let Ok(b) = r {
                ob!(b.len() == n, "from_str::len");
                for k in 0..n { ob!(bit_of(b.as_u64(), k) == bit_of(val, k % 64), "from_str::bit-k-is-char-k"); }
                ob!(b.to_string() == st, "to_string(from_str(s))==s");
            }
        }
    }
    if n <= 64 {
        let b = BitSeq::new(val & low_mask(n), n);
        let t = b.to_string();
        ob!(t.len() == n && t.bytes().enumerate().all(|(k, c)| c == if bit_of(val, k) { b'1' } else { b'0' }), "to_string::char-k-is-bit-k");
        ob!(BitSeq::from_str(&t) == Ok(b), "from_str(to_string(b))==b");
    }
    Ok(())
}

// ---- rejection (variant A on the real crate): the call must panic ----

pub fn bitseq_reject_push_full(s: &mut Src) -> R {
    let val = s.u64(); let v = s.bool();
    let mut b = BitSeq::new(val, 64);
    b.push(mk_bit(v)); // must not return
    Ok(())
}
pub fn bitseq_reject_new_overlong(s: &mut Src) -> R {
    let val = s.u64(); let len = s.usize();
    pre!(len <= 64 && !fits(val, len));
    let _ = BitSeq::new(val, len);
    Ok(())
}

crate::harness_table!(BITSEQ:
    bitseq_new, bitseq_new_rev, bitseq_consts, bitseq_set, bitseq_push, bitseq_append,
    bitseq_remove, bitseq_insert, bitseq_sub, bitseq_is_sub, bitseq_index, bitseq_from_bit,
    bitseq_weight [unwind 66], bitseq_cmp [unwind 10], bitseq_iter [unwind 66],
    bitseq_from_iter [unwind 66], bitseq_generate [unwind 10], bitseq_parse [unwind 5], bitseq_print [unwind 5], bitseq_parse_print_long,
);
/// collecting more than 64 bits "would exceed the maximum": it must be rejected, not truncated
pub fn bitseq_reject_from_iter_overlong(s: &mut Src) -> R {
    let val = s.u64(); let n = s.usize();
    pre!(65 <= n && n <= 67);
    let _ = BitSeq::from_iter((0..n).map(|k| bit_of(val, k % 64))); // must not return
    Ok(())
}

crate::harness_table_should_panic!(BITSEQ_REJECT: bitseq_reject_push_full, bitseq_reject_new_overlong, bitseq_reject_from_iter_overlong [unwind 69]);
