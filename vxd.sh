#!/bin/sh
cd /verif && /var/tmp/vxdev/release/vextract --repo ${3:-/repo} --unit units/$1/contract.rs --variant $2 --out build/$1_$2.rs --report build/$1_$2.json && verus build/$1_$2.rs --time 2>&1 | grep -vE "^\s*$"
