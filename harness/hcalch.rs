// C07 (homology bookkeeping) — witness search / replay for the Verus unit `hcalc` on the real crate:
// chain complexes Z^2 --d1--> Z^3 --d2--> Z^1 with d2 = k (u x v)^T (so d2 d1 = 0), small entries.
use super::src::*;
use crate::{ob, pre, reach};
use yui_homology::utils::HomologyCalc;
use yui_matrix::sparse::SpMat;
use yui_matrix::MatTrait;

fn gcd(a: i64, b: i64) -> i64 { if b == 0 { a.abs() } else { gcd(b, a % b) } }

pub fn hcalc_small(s: &mut Src) -> R {
    let mut u = [0i64; 3]; let mut v = [0i64; 3];
    for i in 0..3 { u[i] = s.small(-4, 4); v[i] = s.small(-4, 4); }
    let k = s.small(-2, 2);
    reach!();
    let w = [u[1] * v[2] - u[2] * v[1], u[2] * v[0] - u[0] * v[2], u[0] * v[1] - u[1] * v[0]];
    let d1 = SpMat::from_dense_data((3, 2), [u[0], v[0], u[1], v[1], u[2], v[2]]);
    let d2 = SpMat::from_dense_data((1, 3), [k * w[0], k * w[1], k * w[2]]);
    ob!((&d2 * &d1).is_zero(), "harness::d2.d1==0");
    let (rank, tors, t) = HomologyCalc::calculate(d1.clone(), d2.clone(), true);
    // independent values: rank d1 from the 2x2 minors, invariant factors e1 = gcd(entries), e1 e2 = gcd(minors)
    let e1 = u.iter().chain(v.iter()).fold(0, |g, &x| gcd(g, x));
    let m = gcd(gcd(w[0], w[1]), w[2]);
    let r1 = if m != 0 { 2 } else if e1 != 0 { 1 } else { 0 };
    let r2 = if k != 0 && m != 0 { 1 } else { 0 };
    ob!(rank == 3 - r1 - r2, "HomologyCalc::rank==n-r1-r2");
    let mut want = vec![];
    if e1 > 1 { want.push(e1); }
    if m != 0 && m / e1 > 1 { want.push(m / e1); }
    let got: Vec<i64> = tors.iter().map(|x| x.abs()).collect();
    ob!(got == want, "HomologyCalc::tors-are-the-non-unit-invariant-factors");
    let t = t.unwrap();
    let (p, q) = (t.forward_mat(), t.backward_mat());
    let g = rank + tors.len();
    ob!(p.shape() == (g, 3) && q.shape() == (3, g), "HomologyCalc::trans::shapes");
    // (dense comparison: SpMat's derived == is structural and distinguishes explicitly stored zeros)
    ob!((&p * &q).into_dense() == SpMat::<i64>::id(g).into_dense(), "HomologyCalc::trans::p.q==I");
    ob!((&d2 * &q.submat_cols(0..rank)).is_zero(), "HomologyCalc::trans::free-generators-are-cycles");
    ob!((&p.submat_rows(0..rank) * &d1).is_zero(), "HomologyCalc::trans::boundaries-die-in-the-free-part");
    ob!((&d2 * &q).is_zero(), "HomologyCalc::trans::all-generators-are-cycles");
    // the complex-level entry point picks the differential into and out of the degree, in that order
    use yui_homology::{ComputeHomology, GenericChainComplex, SummandTrait};
    let ds = [d1.clone(), d2.clone(), SpMat::<i64>::zero((0, 1))];
    let cx = GenericChainComplex::<i64>::generate(0..=2isize, 1, |i| ds[i as usize].clone());
    let h1 = cx.compute_homology_at(1, false);
    ob!(h1.rank() == rank && h1.tors().iter().map(|x| x.abs()).collect::<Vec<_>>() == got, "compute_homology_at(i)==calculate(d[i-1],d[i])");
    Ok(())
}


// C12 (Schur complement) — witness search / replay for the Verus unit `schur` on the real crate:
// 4x4 matrices over F_5 whose leading 2x2 block is lower (or upper) triangular with unit diagonal entries.
pub fn hcalc_schur_small(s: &mut Src) -> R {
    use yui::FF;
    use yui_matrix::sparse::schur::Schur;
    use yui_matrix::sparse::triang::TriangularType;
    use yui_matrix::dense::Mat;
    type F = FF<5>;
    let mut e = [0i64; 16];
    for k in 0..16 { e[k] = s.small(0, 4); }
    let upper = s.bool();
    pre!(e[0] != 0 && e[5] != 0);
    if upper { e[4] = 0; } else { e[1] = 0; }
    reach!();
    let f = |x: i64| F::new(x as i32);
    let mm = SpMat::from_dense_data((4, 4), e.iter().map(|&x| f(x)).collect::<Vec<_>>());
    let t = if upper { TriangularType::Upper } else { TriangularType::Lower };
    let sch = Schur::from_partial_triangular(t, &mm, 2, true);
    // independent value of S = D - C A^-1 B over F_5 (2x2 inverse by the adjugate)
    let (a, b, c, d) = ([[f(e[0]), f(e[1])], [f(e[4]), f(e[5])]], [[f(e[2]), f(e[3])], [f(e[6]), f(e[7])]], [[f(e[8]), f(e[9])], [f(e[12]), f(e[13])]], [[f(e[10]), f(e[11])], [f(e[14]), f(e[15])]]);
    let det = a[0][0] * a[1][1] - a[0][1] * a[1][0];
    let di = F::new(1) / det;
    let ai = [[a[1][1] * di, -a[0][1] * di], [-a[1][0] * di, a[0][0] * di]];
    let mul = |x: &[[F; 2]; 2], y: &[[F; 2]; 2]| [[x[0][0] * y[0][0] + x[0][1] * y[1][0], x[0][0] * y[0][1] + x[0][1] * y[1][1]], [x[1][0] * y[0][0] + x[1][1] * y[1][0], x[1][0] * y[0][1] + x[1][1] * y[1][1]]];
    let cab = mul(&c, &mul(&ai, &b));
    let want = Mat::from_data((2, 2), [d[0][0] - cab[0][0], d[0][1] - cab[0][1], d[1][0] - cab[1][0], d[1][1] - cab[1][1]]);
    let sm = sch.complement().clone().into_dense();
    ob!(sm == want, "Schur::S==D-C.Ainv.B");
    let (ts, tt) = (sch.trans_src().unwrap(), sch.trans_tgt().unwrap());
    let (fs, bs, ft, bt) = (ts.forward_mat(), ts.backward_mat(), tt.forward_mat(), tt.backward_mat());
    ob!((&(&ft * &mm) * &bs).into_dense() == sm, "Schur::Ftgt.M.Bsrc==S");
    ob!((&fs * &bs).into_dense() == Mat::id(2) && (&ft * &bt).into_dense() == Mat::id(2), "Schur::F.B==I");
    let z = F::new(0);
    ob!((&ft * &mm).into_dense() == Mat::from_data((2, 4), [z, z, sm[(0, 0)], sm[(0, 1)], z, z, sm[(1, 0)], sm[(1, 1)]]), "Schur::Ftgt.M==[0|S]");
    ob!((&mm * &bs).into_dense() == Mat::from_data((4, 2), [z, z, z, z, sm[(0, 0)], sm[(0, 1)], sm[(1, 0)], sm[(1, 1)]]), "Schur::M.Bsrc==[0;S]");
    Ok(())
}


// C12 (triangular solver) — witness search / replay for the Verus unit `triang` on the real crate: 4x4 triangular matrices
// over F_5 with unit diagonal, optionally carrying explicitly stored zeros in the opposite triangle (built as M - strict(M)),
// right-hand sides with 2 columns; both orientations; solve_triangular, solve_triangular_left, solve_triangular_vec.
pub fn hcalc_triang_small(s: &mut Src) -> R {
    use yui::FF;
    use yui_matrix::sparse::triang::{solve_triangular, solve_triangular_left, solve_triangular_vec, TriangularType};
    use yui_matrix::sparse::SpVec;
    type F = FF<5>;
    const N: usize = 4;
    let mut e = [0i64; N * N]; let mut y = [0i64; 2 * N];
    for k in 0..N * N { e[k] = s.small(0, 4); }
    for k in 0..2 * N { y[k] = s.small(0, 4); }
    let (upper, stored_zeros) = (s.bool(), s.bool());
    for i in 0..N { pre!(e[i * N + i] != 0); }
    reach!();
    let f = |x: i64| F::new(x as i32);
    let full = SpMat::from_dense_data((N, N), e.iter().map(|&x| f(x)).collect::<Vec<_>>());
    let keep = |i: usize, j: usize| if upper { i <= j } else { i >= j };
    let tri_entries = |k: bool| (0..N * N).filter(move |&p| keep(p / N, p % N) == k).map(|p| (p / N, p % N, f(e[p]))).collect::<Vec<_>>();
    // with stored zeros: the opposite strict triangle is subtracted, the cancelled positions stay in the pattern
    let a = if stored_zeros { &full - &SpMat::from_entries((N, N), tri_entries(false)) } else { SpMat::from_entries((N, N), tri_entries(true)) };
    let t = if upper { TriangularType::Upper } else { TriangularType::Lower };
    ob!(a.is_triang(t), "harness::a-is-triangular");
    let ym = SpMat::from_dense_data((N, 2), y.iter().map(|&x| f(x)).collect::<Vec<_>>());
    let x = solve_triangular(t, &a, &ym);
    ob!((&a * &x).into_dense() == ym.clone().into_dense(), "solve_triangular::A.X==Y");
    let yl = SpMat::from_dense_data((2, N), y.iter().map(|&x| f(x)).collect::<Vec<_>>());
    let xl = solve_triangular_left(t, &a, &yl);
    ob!((&xl * &a).into_dense() == yl.into_dense(), "solve_triangular_left::X.A==Y");
    let yv = SpVec::from(y[..N].iter().map(|&x| f(x)).collect::<Vec<_>>());
    let xv = solve_triangular_vec(t, &a, &yv);
    ob!((&a * &xv).to_dense() == yv.to_dense(), "solve_triangular_vec::A.x==y");
    ob!(xv.iter().all(|(_, v)| *v != F::new(0)), "solve_triangular_vec::no-zero-stored");
    Ok(())
}


// C08 (chain reduction) — witness search / replay for the Verus unit `chain_red` on the real crate: complexes
// Z^2 --d1--> Z^3 --d2--> Z^2 with d2 = [k (u x v)^T ; l (u x v)^T], entries small (so units are frequent and pivots exist),
// degrees 0, 1, 2 with d of degree +1; reduce with transfer maps.
pub fn hcalc_reducer_small(s: &mut Src) -> R {
    use yui_homology::utils::ChainReducer;
    use yui_homology::GenericChainComplex;
    let mut u = [0i64; 3]; let mut v = [0i64; 3];
    for i in 0..3 { u[i] = s.small(-2, 2); v[i] = s.small(-2, 2); }
    let (k, l) = (s.small(-1, 2), s.small(-1, 1));
    reach!();
    let w = [u[1] * v[2] - u[2] * v[1], u[2] * v[0] - u[0] * v[2], u[0] * v[1] - u[1] * v[0]];
    let d0 = SpMat::from_dense_data((3, 2), [u[0], v[0], u[1], v[1], u[2], v[2]]);
    let d1 = SpMat::from_dense_data((2, 3), [k * w[0], k * w[1], k * w[2], l * w[0], l * w[1], l * w[2]]);
    let d2 = SpMat::<i64>::zero((0, 2));
    let ds = [d0.clone(), d1.clone(), d2.clone()];
    let c = GenericChainComplex::<i64>::generate(0..=2isize, 1, |i| ds[i as usize].clone());
    let r = ChainReducer::reduce(&c, true);
    let (e0, e1) = (r.matrix(0).unwrap().clone(), r.matrix(1).unwrap().clone());
    ob!(e1.ncols() == e0.nrows(), "ChainReducer::sizes-match");
    ob!((&e1 * &e0).is_zero(), "ChainReducer::d.d==0-after-reduction");
    // the homology is unchanged: compare ranks / torsion of H1 before and after
    let h_before = HomologyCalc::calculate(d0.clone(), d1.clone(), false);
    let h_after = HomologyCalc::calculate(e0.clone(), e1.clone(), false);
    let norm = |t: &Vec<i64>| { let mut t: Vec<i64> = t.iter().map(|x| x.abs()).collect(); t.sort(); t };
    ob!(h_before.0 == h_after.0 && norm(&h_before.1) == norm(&h_after.1), "ChainReducer::homology-unchanged");
    // transfer maps: F B = I, chain maps in both directions
    let (t0, t1, t2) = (r.trans(0).unwrap(), r.trans(1).unwrap(), r.trans(2).unwrap());
    let fb = |t: &yui_matrix::sparse::Trans<i64>| (&t.forward_mat() * &t.backward_mat()).into_dense() == SpMat::<i64>::id(t.tgt_dim()).into_dense();
    ob!(fb(t0) && fb(t1) && fb(t2), "ChainReducer::trans::F.B==I");
    ob!((&t1.forward_mat() * &d0).into_dense() == (&e0 * &t0.forward_mat()).into_dense() && (&t2.forward_mat() * &d1).into_dense() == (&e1 * &t1.forward_mat()).into_dense(), "ChainReducer::trans::forward-is-a-chain-map");
    ob!((&d0 * &t0.backward_mat()).into_dense() == (&t1.backward_mat() * &e0).into_dense() && (&d1 * &t1.backward_mat()).into_dense() == (&t2.backward_mat() * &e1).into_dense(), "ChainReducer::trans::backward-is-a-chain-map");
    // transfer maps tracked for one degree only (set_matrix's per-degree flag): sizes and F B = I must still follow the reduction
    let only = s.small(0, 2) as isize;
    let mut one = ChainReducer::<isize, i64>::new(0..=2isize, 1);
    for i in 0..=2isize { one.set_matrix(i, ds[i as usize].clone(), i == only); }
    one.reduce_all(false); one.reduce_all(true);
    let t = one.trans(only).unwrap();
    let cur = one.matrix(only).unwrap().ncols();
    ob!(t.tgt_dim() == cur && t.forward_mat().nrows() == cur, "ChainReducer::trans(one-sided)::target-size-is-the-reduced-rank");
    ob!((&t.forward_mat() * &t.backward_mat()).into_dense() == SpMat::<i64>::id(cur).into_dense(), "ChainReducer::trans(one-sided)::F.B==I");
    Ok(())
}

// C12 (block splitting) — witness search / replay for the Verus unit `decomp` on the real crate: dir_sum_decomp of small sparse integer
// matrices.  The permuted matrix is the block-diagonal sum of the returned blocks (plus zero rows / columns), and the number of non-empty
// blocks is the number of connected components of the row/column incidence graph (so two columns sharing a row are never separated and
// the splitting is as fine as possible).
pub fn hcalc_decomp_small(s: &mut Src) -> R {
    use yui_matrix::sparse::decomp::dir_sum_decomp;
    let m = s.small(1, 6) as usize;
    let n = s.small(1, 6) as usize;
    let mut e = vec![0i64; m * n];
    for x in e.iter_mut() { let k = s.small(-8, 8); *x = if k.abs() > 2 { 0 } else { k }; }
    // explicitly stored zeros (they arise from every subtraction): z is added and subtracted again at up to three positions that are zero in a
    let mut zs: Vec<(usize, usize, i64)> = vec![];
    for _ in 0..3 { let (i, j, on) = (s.small(0, 5) as usize, s.small(0, 5) as usize, s.small(0, 2)); if on == 0 && i < m && j < n && e[i * n + j] == 0 && !zs.iter().any(|t| t.0 == i && t.1 == j) { zs.push((i, j, 1)); } }
    reach!();
    let a0 = SpMat::from_dense_data((m, n), e.clone());
    let a = if zs.is_empty() { a0 } else { let z = SpMat::from_entries((m, n), zs.clone()); &(&a0 + &z) - &z };
    ob!(a.clone().into_dense() == SpMat::from_dense_data((m, n), e.clone()).into_dense(), "harness::stored-zeros-do-not-change-the-matrix");
    let (p, q, blocks) = dir_sum_decomp(a.clone());
    let b = a.permute(p.view(), q.view()).into_dense();
    let (mut r0, mut c0) = (0usize, 0usize);
    let mut covered = vec![vec![false; n]; m];
    for blk in blocks.iter() {
        let (bm, bn) = blk.shape();
        ob!(r0 + bm <= m && c0 + bn <= n, "dir_sum_decomp::blocks-fit");
        let d = blk.clone().into_dense();
        for i in 0..bm { for j in 0..bn { ob!(b[(r0 + i, c0 + j)] == d[(i, j)], "dir_sum_decomp::P.A.Q==sum-of-blocks(on-the-blocks)"); covered[r0 + i][c0 + j] = true; } }
        r0 += bm; c0 += bn;
    }
    for i in 0..m { for j in 0..n { if !covered[i][j] { ob!(b[(i, j)] == 0, "dir_sum_decomp::P.A.Q==sum-of-blocks(zero-outside)"); } } }
    // connected components of the incidence graph (non-empty columns only), independently
    let mut comp: Vec<usize> = (0..n).collect();
    fn find(c: &mut Vec<usize>, x: usize) -> usize { let mut x = x; while c[x] != x { x = c[x]; } x }
    for i in 0..m { let js: Vec<usize> = (0..n).filter(|&j| e[i * n + j] != 0).collect(); for w in js.windows(2) { let (x, y) = (find(&mut comp, w[0]), find(&mut comp, w[1])); if x != y { comp[x] = y; } } }
    let nonempty: Vec<usize> = (0..n).filter(|&j| (0..m).any(|i| e[i * n + j] != 0)).collect();
    let mut roots: Vec<usize> = nonempty.iter().map(|&j| find(&mut comp, j)).collect(); roots.sort(); roots.dedup();
    let nb = blocks.iter().filter(|b| !b.is_zero()).count();
    // stored zeros may legitimately glue components together (the splitting goes by the stored pattern): then only "not finer than the truth"
    if !nonempty.is_empty() { if zs.is_empty() { ob!(nb == roots.len(), "dir_sum_decomp::blocks==connected-components"); } else { ob!(nb <= roots.len(), "dir_sum_decomp::blocks<=connected-components(stored-zeros)"); } }
    Ok(())
}

// C07 on complexes of arbitrary small shape (BOUNDED, sampled): a three-term complex C2 --d1--> C1 --d2--> C0 over BigInt built in normal form
// (d1 = diag(k_1..k_s) padded, d2 = diag(e_1..e_r) on the last coordinates) and scrambled by random unimodular changes of basis of C2, C1, C0.
// Expected H_1: free rank n1 - s - r, torsion = the non-unit invariant factors of diag(k).  Checked: rank, torsion up to sign, p q = I,
// all generators are cycles, boundaries have zero free coordinates and torsion coordinates divisible by the orders.
/// the scrambled normal-form complex of hcalc_scrambled: (d1: n1 x n2, d2: n0 x n1, free rank f, diagonal k_1..k_s of d1)
fn scrambled_complex(s: &mut Src) -> std::result::Result<(SpMat<num_bigint::BigInt>, SpMat<num_bigint::BigInt>, usize, Vec<i64>, (usize, usize, usize)), String> {
    use num_bigint::BigInt;
    use num_traits::{Zero, One, Signed};
    let (sd, f, r) = (s.small(0, 3) as usize, s.small(0, 2) as usize, s.small(0, 2) as usize);
    let (x2, x0) = (s.small(0, 1) as usize, s.small(0, 1) as usize);      // extra zero columns of d1 / zero rows of d2
    let ks: Vec<i64> = (0..3).map(|_| s.small(1, 6)).collect();
    let es: Vec<i64> = (0..2).map(|_| s.small(1, 3)).collect();
    let mut ops: Vec<(usize, usize, usize, i64)> = vec![];
    for _ in 0..9 { ops.push((s.small(0, 2) as usize, s.small(0, 5) as usize, s.small(0, 5) as usize, s.small(-2, 2))); }
    let (n2, n1, n0) = (sd + x2, sd + f + r, r + x0);
    let bi = |x: i64| BigInt::from(x);
    type M = Vec<Vec<BigInt>>;
    let zeros = |a: usize, b: usize| -> M { vec![vec![BigInt::zero(); b]; a] };
    let ident = |a: usize| -> M { let mut m = zeros(a, a); for i in 0..a { m[i][i] = BigInt::one(); } m };
    let mul = |x: &M, y: &M, a: usize, b: usize, c: usize| -> M { let mut z = zeros(a, c); for i in 0..a { for j in 0..c { for k in 0..b { z[i][j] = &z[i][j] + &x[i][k] * &y[k][j]; } } } z };
    let mut d1 = zeros(n1, n2); for i in 0..sd { d1[i][i] = bi(ks[i]); }
    let mut d2 = zeros(n0, n1); for i in 0..r { d2[i][sd + f + i] = bi(es[i]); }
    // unimodular U and its inverse from elementary shears  row_a += c row_b  (inverse: applied in reverse with -c)
    let uni = |dim: usize, which: usize| -> (M, M) {
        let (mut u, mut v) = (ident(dim), ident(dim));
        if dim >= 2 { for &(w, a, b, c) in ops.iter() { if w == which { let (a, b) = (a % dim, b % dim); if a != b {
            for j in 0..dim { let t = &u[b][j] * bi(c); u[a][j] = &u[a][j] + t; }            // U <- E U
            for i in 0..dim { let t = &v[i][a] * bi(c); v[i][b] = &v[i][b] - t; }            // V <- V E^-1
        } } } }
        (u, v)
    };
    let ((u2, v2), (u1, v1), (u0, _v0)) = (uni(n2, 2), uni(n1, 1), uni(n0, 0));
    let _ = u2;
    let d1s = mul(&mul(&u1, &d1, n1, n1, n2), &v2, n1, n2, n2);      // U1 d1 U2^-1
    let d2s = mul(&mul(&u0, &d2, n0, n0, n1), &v1, n0, n1, n1);      // U0 d2 U1^-1
    let sp = |m: &M, a: usize, b: usize| SpMat::from_dense_data((a, b), m.iter().flatten().cloned().collect::<Vec<_>>());
    let (a1, a2) = (sp(&d1s, n1, n2), sp(&d2s, n0, n1));
    ob!((&a2 * &a1).is_zero(), "harness::d2.d1==0");
    Ok((a1, a2, f, ks[..sd].to_vec(), (n2, n1, n0)))
}
pub fn hcalc_scrambled(s: &mut Src) -> R {
    use num_bigint::BigInt;
    use num_traits::{Signed, Zero};
    let (a1, a2, f, kd, (n2, n1, _n0)) = scrambled_complex(s)?;
    reach!();
    let bi = |x: i64| BigInt::from(x);
    let sd = kd.len(); let ks = kd.clone();
    let (rank, tors, t) = HomologyCalc::calculate(a1.clone(), a2.clone(), true);
    ob!(rank == f, "HomologyCalc::rank==n-r1-r2");
    // invariant factors of diag(k): repeatedly (a, b) -> (gcd, lcm)
    fn g(a: i64, b: i64) -> i64 { if b == 0 { a.abs() } else { g(b, a % b) } }
    let mut inv: Vec<i64> = ks[..sd].to_vec();
    for i in 0..inv.len() { for j in i + 1..inv.len() { let (x, y) = (inv[i], inv[j]); let gg = g(x, y); inv[i] = gg; inv[j] = x / gg * y; } }
    let want: Vec<BigInt> = inv.iter().filter(|&&x| x > 1).map(|&x| bi(x)).collect();
    let got: Vec<BigInt> = tors.iter().map(|x| x.abs()).collect();
    ob!(got == want, "HomologyCalc::tors-are-the-non-unit-invariant-factors");
    let t = t.unwrap();
    let (p, q) = (t.forward_mat(), t.backward_mat());
    let gdim = rank + tors.len();
    ob!(p.shape() == (gdim, n1) && q.shape() == (n1, gdim), "HomologyCalc::trans::shapes");
    ob!((&p * &q).into_dense() == SpMat::<BigInt>::id(gdim).into_dense(), "HomologyCalc::trans::p.q==I");
    ob!((&a2 * &q).is_zero(), "HomologyCalc::trans::all-generators-are-cycles");
    let pb = (&p * &a1).into_dense();
    for j in 0..n2 { for i in 0..gdim {
        if i < rank { ob!(pb[(i, j)].is_zero(), "HomologyCalc::trans::boundaries-die-in-the-free-part"); }
        else { ob!((&pb[(i, j)] % &tors[i - rank]).is_zero(), "HomologyCalc::trans::boundaries-are-zero-modulo-the-torsion-orders"); }
    } }
    Ok(())
}

// C08 on scrambled normal-form complexes (BOUNDED, sampled): ChainReducer over BigInt on C_0 --e0--> C_1 --e1--> C_2 (the complex of
// hcalc_scrambled): d.d = 0 after reduction, homology of the middle degree unchanged, transfer maps with F B = I that are chain maps both ways.
pub fn hcalc_reducer_scrambled(s: &mut Src) -> R {
    use num_bigint::BigInt;
    use num_traits::Signed;
    use yui_homology::utils::ChainReducer;
    use yui_homology::GenericChainComplex;
    let (a1, a2, _f, _kd, (_n2, _n1, n0)) = scrambled_complex(s)?;
    reach!();
    let ds = [a1.clone(), a2.clone(), SpMat::<BigInt>::zero((0, n0))];
    let c = GenericChainComplex::<BigInt>::generate(0..=2isize, 1, |i| ds[i as usize].clone());
    let r = ChainReducer::reduce(&c, true);
    let (e0, e1) = (r.matrix(0).unwrap().clone(), r.matrix(1).unwrap().clone());
    ob!(e1.ncols() == e0.nrows(), "ChainReducer::sizes-match");
    ob!((&e1 * &e0).is_zero(), "ChainReducer::d.d==0-after-reduction");
    let h_before = HomologyCalc::calculate(a1.clone(), a2.clone(), false);
    let h_after = HomologyCalc::calculate(e0.clone(), e1.clone(), false);
    let norm = |t: &Vec<BigInt>| { let mut t: Vec<BigInt> = t.iter().map(|x| x.abs()).collect(); t.sort(); t };
    ob!(h_before.0 == h_after.0 && norm(&h_before.1) == norm(&h_after.1), "ChainReducer::homology-unchanged");
    let (t0, t1, t2) = (r.trans(0).unwrap(), r.trans(1).unwrap(), r.trans(2).unwrap());
    let fb = |t: &yui_matrix::sparse::Trans<BigInt>| (&t.forward_mat() * &t.backward_mat()).into_dense() == SpMat::<BigInt>::id(t.tgt_dim()).into_dense();
    ob!(fb(t0) && fb(t1) && fb(t2), "ChainReducer::trans::F.B==I");
    ob!((&t1.forward_mat() * &a1).into_dense() == (&e0 * &t0.forward_mat()).into_dense() && (&t2.forward_mat() * &a2).into_dense() == (&e1 * &t1.forward_mat()).into_dense(), "ChainReducer::trans::forward-is-a-chain-map");
    ob!((&a1 * &t0.backward_mat()).into_dense() == (&t1.backward_mat() * &e0).into_dense() && (&a2 * &t1.backward_mat()).into_dense() == (&t2.backward_mat() * &e1).into_dense(), "ChainReducer::trans::backward-is-a-chain-map");
    Ok(())
}

// C07 at the level of complexes (BOUNDED, sampled): GenericChainComplex::homology() on scrambled three-term complexes over BigInt, plain and
// through reduced(): per degree the rank / torsion of the direct computation, every reported generator is a cycle with standard
// coordinates, and the coordinate map of H[j] is defined on every chain of degree j and sends every boundary to zero -- also where a
// chain group of the reduced complex has rank 0.
pub fn hcalc_complex_level(s: &mut Src) -> R {
    use num_bigint::BigInt;
    use num_traits::{Signed, Zero};
    use yui_homology::{ChainComplexTrait, GenericChainComplex, GridTrait, SummandTrait};
    let (a1, a2, f, kd, (_n2, _n1, n0)) = scrambled_complex(s)?;
    let reduced = s.bool();
    reach!();
    let ds = [a1.clone(), a2.clone(), SpMat::<BigInt>::zero((0, n0))];
    let c0 = GenericChainComplex::<BigInt>::generate(0..=2isize, 1, |i| ds[i as usize].clone());
    let c = if reduced { c0.reduced() } else { c0.clone() };
    let h = c.homology();
    // H_1 as planted: free rank f, torsion = the non-unit k_i
    fn g(a: i64, b: i64) -> i64 { if b == 0 { a.abs() } else { g(b, a % b) } }
    let mut inv: Vec<i64> = kd.clone();                         // invariant factors of diag(k): repeatedly (a, b) -> (gcd, lcm)
    for i in 0..inv.len() { for j in i + 1..inv.len() { let (x, y) = (inv[i], inv[j]); let gg = g(x, y); inv[i] = gg; inv[j] = x / gg * y; } }
    let mut want: Vec<BigInt> = inv.iter().filter(|&&x| x > 1).map(|&x| BigInt::from(x)).collect(); want.sort();
    let mut got: Vec<BigInt> = h[1].tors().iter().map(|x| x.abs()).collect(); got.sort();
    ob!(h[1].rank() == f && got == want, "ChainComplex::homology::H1-rank-and-torsion-as-planted");
    for i in 0..=2isize {
        for k in 0..h[i].dim() {
            let z = h[i].gen(k);
            ob!(c.d(i, &z).is_zero(), "ChainComplex::homology::generator-is-a-cycle");
            let v = h[i].vectorize(&z).to_dense();
            ob!(v.len() == h[i].dim() && (0..v.len()).all(|l| if l == k { v[l] == BigInt::from(1) } else { v[l].is_zero() }), "ChainComplex::homology::generator-has-standard-coordinates");
        }
        let j = i + 1;
        if j > 2 { continue; }
        for k in 0..c0[i].rank() {
            let x = c0[i].gen(k);
            let b = c0.d(i, &x);
            let v = h[j].vectorize_euc(&b);
            ob!(v.dim() == h[j].dim() && v.is_zero(), "ChainComplex::homology::boundary-has-zero-coordinates");
        }
    }
    Ok(())
}

// C08, clause "for tracked vectors" (BOUNDED, sampled): vectors added with add_vec are transported by every reduction step exactly as the
// reported forward map transports them: after reduce_all (shallow, then deep) and after explicit reduce_at_spec steps with every pivot
// strategy, vecs(i)[k] == trans(i).forward(v_k) in each degree, on scrambled complexes of arbitrary small shape (incl. m < n and m > n).
pub fn hcalc_reducer_vecs(s: &mut Src) -> R {
    use num_bigint::BigInt;
    use yui_homology::utils::ChainReducer;
    use yui_homology::GenericChainComplex;
    use yui_matrix::sparse::pivot::{PivotCondition, PivotType};
    use yui_matrix::sparse::SpVec;
    let (a1, a2, _f, _kd, (n2, n1, n0)) = scrambled_complex(s)?;
    let dims = [n2, n1, n0];
    let mut vs: Vec<Vec<SpVec<BigInt>>> = vec![];
    for i in 0..3 { let mut l = vec![]; for _ in 0..2 { let d: Vec<BigInt> = (0..dims[i]).map(|_| BigInt::from(s.small(-2, 2))).collect(); l.push(SpVec::from(d)); } vs.push(l); }
    let mode = s.small(0, 6);
    reach!();
    let ds = [a1.clone(), a2.clone(), SpMat::<BigInt>::zero((0, n0))];
    let c = GenericChainComplex::<BigInt>::generate(0..=2isize, 1, |i| ds[i as usize].clone());
    let mut r = ChainReducer::from(&c, true);
    for i in 0..3 { for v in vs[i].iter() { r.add_vec(i as isize, v.clone()); } }
    if mode == 0 {
        r.reduce_all(false); r.reduce_all(true);
    } else {
        let (pt, pc) = match mode { 1 => (PivotType::Rows, PivotCondition::One), 2 => (PivotType::Cols, PivotCondition::One), 3 => (PivotType::Rows, PivotCondition::AnyUnit),
            4 => (PivotType::Cols, PivotCondition::AnyUnit), 5 => (PivotType::Rows, PivotCondition::Weight(2.0)), _ => (PivotType::Cols, PivotCondition::Weight(2.0)) };
        for _ in 0..3 { for i in 0..3isize { r.reduce_at_spec(i, pt, pc); } }
    }
    for i in 0..3 {
        let (t, ws) = (r.trans(i as isize).unwrap(), r.vecs(i as isize).unwrap());
        ob!(ws.len() == vs[i].len(), "ChainReducer::vecs::count");
        for (v, w) in vs[i].iter().zip(ws.iter()) {
            ob!(w.dim() == t.tgt_dim(), "ChainReducer::vecs::dimension-is-the-reduced-rank");
            ob!(w.to_dense() == t.forward(v).to_dense(), "ChainReducer::vecs::tracked-vector==forward(v)");
        }
    }
    Ok(())
}

// C12 on arbitrary shapes (BOUNDED, sampled): Schur::from_partial_triangular over F_5 on m x n matrices (m, n <= 5) whose leading r x r
// block (0 <= r <= 3) is triangular with non-zero diagonal: S = D - C A^-1 B (A^-1 B by substitution here), F_tgt M B_src = S, F B = I on both
// sides, F_tgt M = [0 | S], M B_src = [0 ; S].  Includes r = 0, r = m, r = n and empty complements.
pub fn hcalc_schur_shapes(s: &mut Src) -> R {
    use yui::FF;
    use yui_matrix::sparse::schur::Schur;
    use yui_matrix::sparse::triang::TriangularType;
    use yui_matrix::dense::Mat;
    type F = FF<5>;
    let r = s.small(0, 3) as usize;
    let (m, n) = (r + s.small(0, 2) as usize, r + s.small(0, 2) as usize);
    let mut e = [0i64; 25]; for x in e.iter_mut() { *x = s.small(0, 4); }
    let upper = s.bool();
    for i in 0..r { for j in 0..r { if (upper && i > j) || (!upper && i < j) { e[i * 5 + j] = 0; } } }
    pre!((0..r).all(|i| e[i * 5 + i] != 0));
    reach!();
    let f = |x: i64| F::new(x as i32);
    let at = |i: usize, j: usize| f(e[i * 5 + j]);
    let mm = SpMat::from_dense_data((m, n), (0..m).flat_map(|i| (0..n).map(move |j| (i, j))).map(|(i, j)| at(i, j)).collect::<Vec<_>>());
    let t = if upper { TriangularType::Upper } else { TriangularType::Lower };
    let sch = Schur::from_partial_triangular(t, &mm, r, true);
    // X = A^-1 B (r x (n - r)) by substitution, then S = D - C X
    let z = F::new(0);
    let mut x = vec![vec![z; n - r]; r];
    for c in 0..n - r {
        let order: Vec<usize> = if upper { (0..r).rev().collect() } else { (0..r).collect() };
        for &i in &order { let mut v = at(i, r + c); for k in 0..r { if k != i && (if upper { k > i } else { k < i }) { v = v - at(i, k) * x[k][c]; } } x[i][c] = v / at(i, i); }
    }
    let want = Mat::from_data((m - r, n - r), (0..m - r).flat_map(|i| (0..n - r).map(move |j| (i, j))).map(|(i, j)| { let mut v = at(r + i, r + j); for k in 0..r { v = v - at(r + i, k) * x[k][j]; } v }).collect::<Vec<_>>());
    let sm = sch.complement().clone().into_dense();
    ob!(sm == want, "Schur::S==D-C.Ainv.B");
    let (ts, tt) = (sch.trans_src().unwrap(), sch.trans_tgt().unwrap());
    let (fs, bs, ft, bt) = (ts.forward_mat(), ts.backward_mat(), tt.forward_mat(), tt.backward_mat());
    ob!((&(&ft * &mm) * &bs).into_dense() == sm, "Schur::Ftgt.M.Bsrc==S");
    ob!((&fs * &bs).into_dense() == Mat::id(n - r) && (&ft * &bt).into_dense() == Mat::id(m - r), "Schur::F.B==I");
    let fm = (&ft * &mm).into_dense(); let mb = (&mm * &bs).into_dense();
    ob!((0..m - r).all(|i| (0..n).all(|j| fm[(i, j)] == if j < r { z } else { sm[(i, j - r)] })), "Schur::Ftgt.M==[0|S]");
    ob!((0..m).all(|i| (0..n - r).all(|j| mb[(i, j)] == if i < r { z } else { sm[(i - r, j)] })), "Schur::M.Bsrc==[0;S]");
    Ok(())
}

// C12 triangular solvers on arbitrary sizes (BOUNDED, sampled): N in 0..=5, right-hand sides with 0..=3 columns (rows for the left variant),
// sparse right-hand sides (many zeros, so the multi-column driver meets empty and partially empty columns), stored zeros optional.
pub fn hcalc_triang_shapes(s: &mut Src) -> R {
    use yui::FF;
    use yui_matrix::sparse::triang::{solve_triangular, solve_triangular_left, solve_triangular_vec, TriangularType};
    use yui_matrix::sparse::SpVec;
    type F = FF<5>;
    let nn = s.small(0, 5) as usize; let k = s.small(0, 3) as usize;
    let mut e = [0i64; 25]; let mut y = [0i64; 15];
    for x in e.iter_mut() { *x = s.small(0, 4); }
    for x in y.iter_mut() { let v = s.small(0, 9); *x = if v > 4 { 0 } else { v }; }
    let (upper, stored_zeros) = (s.bool(), s.bool());
    pre!((0..nn).all(|i| e[i * 5 + i] != 0));
    reach!();
    let f = |x: i64| F::new(x as i32);
    let full = SpMat::from_dense_data((nn, nn), (0..nn).flat_map(|i| (0..nn).map(move |j| (i, j))).map(|(i, j)| f(e[i * 5 + j])).collect::<Vec<_>>());
    let keep = |i: usize, j: usize| if upper { i <= j } else { i >= j };
    let tri_entries = |kk: bool| (0..nn).flat_map(|i| (0..nn).map(move |j| (i, j))).filter(|&(i, j)| keep(i, j) == kk).map(|(i, j)| (i, j, f(e[i * 5 + j]))).collect::<Vec<_>>();
    let a = if stored_zeros { &full - &SpMat::from_entries((nn, nn), tri_entries(false)) } else { SpMat::from_entries((nn, nn), tri_entries(true)) };
    let t = if upper { TriangularType::Upper } else { TriangularType::Lower };
    ob!(a.is_triang(t), "harness::a-is-triangular");
    let ym = SpMat::from_dense_data((nn, k), (0..nn).flat_map(|i| (0..k).map(move |j| (i, j))).map(|(i, j)| f(y[j * 5 + i])).collect::<Vec<_>>());
    let x = solve_triangular(t, &a, &ym);
    ob!(x.shape() == (nn, k) && (&a * &x).into_dense() == ym.clone().into_dense(), "solve_triangular::A.X==Y");
    let yl = ym.transpose();
    let xl = solve_triangular_left(t, &a, &yl);
    ob!(xl.shape() == (k, nn) && (&xl * &a).into_dense() == yl.into_dense(), "solve_triangular_left::X.A==Y");
    let yv = SpVec::from((0..nn).map(|i| f(y[i])).collect::<Vec<_>>());
    let xv = solve_triangular_vec(t, &a, &yv);
    ob!(xv.dim() == nn && (&a * &xv).to_dense() == yv.to_dense(), "solve_triangular_vec::A.x==y");
    Ok(())
}

crate::harness_table!(HCALC: hcalc_small, hcalc_schur_small, hcalc_triang_small, hcalc_reducer_small, hcalc_decomp_small, hcalc_scrambled, hcalc_reducer_scrambled, hcalc_schur_shapes, hcalc_triang_shapes, hcalc_reducer_vecs, hcalc_complex_level);
