// Contract overlay for the c-adic valuation kernel `div` of yui-khovanov/src/misc.rs (property C06:
// "c-divisibility of the class in homology coordinates").  Verified over the abstract Euclidean domain
// ER: for a != 0 the result k is the exact valuation (c^k | a and c^(k+1) does not divide a), and the
// loop terminates for a non-unit c.
use vstd::prelude::*;
verus! {
//@include prelude/rt.rs
//@include prelude/er.rs
//@source yui-khovanov/src/misc.rs

pub fn div(a: &ER, c: &ER) -> (r: Option<i32>)
    requires c.v() != r0(), !is_unit(c.v()), rnorm(a.v()) < 0x7fff_ffff,
    ensures match r {
        None => a.v() == r0(),
        Some(k) => a.v() != r0() && k >= 0 && dvd(rpow(c.v(), k as nat), a.v()) && !dvd(rpow(c.v(), (k + 1) as nat), a.v()),
    },
//@body fn/div ring=1 machine=k loops=1
//@+ loop 0 header
//@| while (&a % c).is_zero()
//@+ sig
//@| fn div<R>(a: &R, c: &R) -> Option<i32> where R: EucRing, for<'x> &'x R: EucRingOps<R>
//@+ pre-raw
//@| let ghost a0 = a.v();
//@+ after-let k
//@| ax_mul_one(a0);
//@+ loop 0
//@| invariant
//@|     c.v() != r0(), !is_unit(c.v()), a.v() != r0(), (k as int) >= 0,
//@|     a0 == rmul(a.v(), rpow(c.v(), k as nat)),
//@|     (k as int) + rnorm(a.v()) <= rnorm(a0), rnorm(a0) < 0x7fff_ffff,
//@| decreases rnorm(a.v()),
//@+ loop 0 begin
//@| let (av, cv) = (a.v(), c.v());
//@| lemma_rem_zero_iff_dvd(av, cv); ax_euclid(av, cv);
//@| let q = rdiv(av, cv);
//@| ax_add_zero(rmul(q, cv));                         // a == q c
//@| if q == r0() { id_mul_zero(cv); }                 // q != 0
//@| ax_mul_comm(q, cv); ax_norm_strict(cv, q);        // rnorm(q) < rnorm(c q) == rnorm(a)
//@| id_pow_shift(q, cv, rpow(cv, k as nat));          // (q c) c^k == q (c^k c) == q c^(k+1)
//@+ post
//@| let (av, cv) = (a.v(), c.v());
//@| lemma_rem_zero_iff_dvd(av, cv);
//@| let p = rpow(cv, k as nat);
//@| ax_mul_comm(av, p); assert(a0 == rmul(av, p));   // c^k | a0
//@| lemma_rpow_nonzero(cv, k as nat);
//@| let p1 = rpow(cv, (k + 1) as nat);
//@| if dvd(p1, a0) {
//@|     let m = choose|m: int| a0 == #[trigger] rmul(m, p1);
//@|     id_pow_shift(m, cv, p);                        // m (p c) == (m c) p
//@|     lemma_cancel(av, rmul(m, cv), p);              // a == m c
//@|     assert(dvd(cv, av));
//@| }
/// SpVec<R>: ASSUMED sparse vector whose iterator lists the stored entries (index, value), possibly with explicit zeros
pub struct SpVec { pub es: Ghost<Seq<int>> }
pub struct SVIter<'a> { pub src: &'a SpVec, pub pos: Ghost<int> }
impl SpVec {
    #[verifier::external_body] pub fn iter(&self) -> (r: SVIter<'_>) ensures r.src == self, r.pos@ == 0 { unimplemented!() }
}
impl<'a> SVIter<'a> {
    pub fn into_iter(self) -> (r: Self) ensures r == self { self }
    #[verifier::external_body] pub fn next(&mut self) -> (r: Option<(usize, &'a ER)>)
        requires 0 <= old(self).pos@ <= old(self).src.es@.len()
        ensures final(self).src == old(self).src,
            old(self).pos@ < old(self).src.es@.len() ==> (final(self).pos@ == old(self).pos@ + 1 && r.is_some() && r.unwrap().1.v() == old(self).src.es@[old(self).pos@]),
            old(self).pos@ >= old(self).src.es@.len() ==> (final(self).pos@ == old(self).pos@ && r.is_none()),
    { unimplemented!() }
}
/// exact valuation: c^k | a and not c^(k+1) | a
pub open spec fn val_is(a: int, c: int, k: int) -> bool { a != r0() && k >= 0 && dvd(rpow(c, k as nat), a) && !dvd(rpow(c, (k + 1) as nat), a) }
/// c^k | a and j <= k  ==>  c^j | a
pub proof fn lemma_pow_dvd_mono(c: int, j: nat, k: nat, a: int) requires j <= k, dvd(rpow(c, k), a) ensures dvd(rpow(c, j), a) decreases k - j
{
    if j < k {
        // c^(k-1) | c^k | a
        let p = rpow(c, (k - 1) as nat);
        ax_mul_comm(p, c); assert(rpow(c, k) == rmul(c, p));
        assert(dvd(p, rpow(c, k)));
        lemma_dvd_trans(p, rpow(c, k), a);
        lemma_pow_dvd_mono(c, j, (k - 1) as nat, a);
    }
}
/// the c-divisibility of a vector: the largest k with c^k | every entry (None for the zero vector)
pub fn div_vec(v: &SpVec, c: &ER) -> (r: Option<i32>)
    requires c.v() != r0(), !is_unit(c.v()), forall|i: int| 0 <= i < v.es@.len() ==> rnorm(#[trigger] v.es@[i]) < 0x7fff_ffff,
    ensures match r {
        None => forall|i: int| 0 <= i < v.es@.len() ==> #[trigger] v.es@[i] == r0(),
        Some(k) => k >= 0 && (exists|i: int| 0 <= i < v.es@.len() && val_is(#[trigger] v.es@[i], c.v(), k as int))
            && forall|i: int| 0 <= i < v.es@.len() && #[trigger] v.es@[i] != r0() ==> dvd(rpow(c.v(), k as nat), v.es@[i]),
    },
//@body fn/div_vec for_iter=1 loops=1
//@+ sig
//@| fn div_vec<R>(v: &SpVec<R>, c: &R) -> Option<i32> where R: EucRing, for<'x> &'x R: EucRingOps<R>
//@+ loop 0 header
//@| v.iter().filter_map(|(_, a)|
//@+ loop 0 elem
//@| i32
//@+ loop 0
//@| invariant __it0.src == v, 0 <= __it0.pos@ <= v.es@.len(), c.v() != r0(), !is_unit(c.v()),
//@|     forall|i: int| 0 <= i < v.es@.len() ==> rnorm(#[trigger] v.es@[i]) < 0x7fff_ffff,
//@|     __min0.is_none() ==> forall|i: int| 0 <= i < __it0.pos@ ==> #[trigger] v.es@[i] == r0(),
//@|     __min0.is_some() ==> (__min0.unwrap() >= 0 && (exists|i: int| 0 <= i < __it0.pos@ && val_is(#[trigger] v.es@[i], c.v(), __min0.unwrap() as int))
//@|         && forall|i: int| 0 <= i < __it0.pos@ && #[trigger] v.es@[i] != r0() ==> dvd(rpow(c.v(), __min0.unwrap() as nat), v.es@[i])),
//@| ensures __it0.pos@ == v.es@.len(),
//@| decreases v.es@.len() - __it0.pos@,
//@+ loop 0 begin-raw
//@| let ghost m0 = __min0;
//@+ loop 0 end
//@| let p = __it0.pos@ - 1; let cv = c.v();
//@| assert(a.v() == v.es@[p]);
//@| if a.v() != r0() {
//@|     let k = __min0.unwrap() as int;
//@|     assert(exists|i: int| 0 <= i < __it0.pos@ && val_is(#[trigger] v.es@[i], cv, k)) by {
//@|         if m0.is_some() && m0.unwrap() == __min0.unwrap() { let i0 = choose|i: int| 0 <= i < p && val_is(#[trigger] v.es@[i], cv, m0.unwrap() as int); assert(val_is(v.es@[i0], cv, k)); }
//@|         else { assert(val_is(v.es@[p], cv, k)); }
//@|     }
//@|     assert forall|i: int| 0 <= i < __it0.pos@ && #[trigger] v.es@[i] != r0() implies dvd(rpow(cv, k as nat), v.es@[i]) by {
//@|         if i < p { lemma_pow_dvd_mono(cv, k as nat, m0.unwrap() as nat, v.es@[i]); }
//@|         else { lemma_pow_dvd_mono(cv, k as nat, __r0.unwrap() as nat, v.es@[p]); }
//@|     }
//@| }
} // verus!
fn main() {}
