// Contract overlay for formal linear combinations Lc<X, R> (yui/src/types/lc/lc.rs) — the term map every
// polynomial type (PolyBase) and chain (Lc) is built on.  Property C16: "add ... as in the [free module]
// over the coefficient ring ... A value never stores a zero coefficient ... hence equality, is_zero,
// term count ... are those of the mathematical [element] after any sequence of operations".
// View: the coefficient function  at : generators -> R  (r0 outside the stored keys); representation
// invariant nz: every stored coefficient is non-zero.  Coefficients in the abstract ring ER, generators
// abstract hashable keys (GenK), AHashMap<X, R> := AMap (ASSUMED hash-map contract incl. its iterator).
use vstd::prelude::*;
verus! {
//@include prelude/rt.rs
//@include prelude/er.rs
//@source yui/src/types/lc/lc.rs

//@include units/lc/model.inc

/// the (generator id, coefficient) view of a Vec of pairs
pub open spec fn pitems(v: Seq<(GenK, ER)>) -> Seq<(int, int)> { v.map(|i: int, x: (GenK, ER)| (x.0.k@, x.1.v())) }
/// `v.into_iter()` handed to FromIterator (ASSUMED std contract: the items in order)
#[verifier::external_body] pub fn pairs_iter_(v: Vec<(GenK, ER)>) -> (r: PairIter) ensures r.pos@ == 0, r.items@ == pitems(v@) { unimplemented!() }
/// one term e = (generator, coefficient) of the source and the item f produced from it
pub open spec fn item_ok<F: Fn(&GenK, &ER) -> (GenK, ER)>(f: F, e: (int, int), it: (int, int)) -> bool {
    exists|x: &GenK, r: &ER, o: (GenK, ER)| #![trigger f.ensures((x, r), o)] x.k@ == e.0 && r.v() == e.1 && f.ensures((x, r), o) && it == (o.0.k@, o.1.v())
}
pub open spec fn map_items<F: Fn(&GenK, &ER) -> (GenK, ER)>(f: F, ord: Seq<(int, int)>, items: Seq<(int, int)>) -> bool {
    items.len() == ord.len() && forall|i: int| 0 <= i < ord.len() ==> #[trigger] item_ok(f, ord[i], items[i])
}
/// f's postcondition through a reference (a closure's `ensures` clause that names `f.ensures(..)` directly would capture f by value)
pub open spec fn ens1<F: Fn(&ER) -> ER>(f: &F, r: &ER, o: ER) -> bool { (*f).ensures((r,), o) }
pub open spec fn ensg<F: Fn(&GenK) -> GenK>(f: &F, x: &GenK, o: GenK) -> bool { (*f).ensures((x,), o) }
/// the terms map_gens collects: coefficient kept, generator = some value of f at the old generator
pub open spec fn gens_items<F: Fn(&GenK) -> GenK>(f: &F, ord: Seq<(int, int)>, items: Seq<(int, int)>) -> bool {
    items.len() == ord.len() && forall|i: int| 0 <= i < items.len() ==> (#[trigger] items[i]).1 == ord[i].1
        && exists|x: &GenK, o: GenK| #![trigger ensg(f, x, o)] x.k@ == ord[i].0 && ensg(f, x, o) && items[i].0 == o.k@
}
/// for pairwise different generators the formal sum has the listed coefficient at each of them and zero elsewhere
pub proof fn lemma_acc_distinct(s: Seq<(int, int)>, k: int)
    requires forall|i: int, j: int| 0 <= i < j < s.len() ==> #[trigger] s[i].0 != #[trigger] s[j].0
    ensures forall|i: int| 0 <= i < s.len() && #[trigger] s[i].0 == k ==> acc(s, k) == s[i].1,
        (forall|i: int| 0 <= i < s.len() ==> #[trigger] s[i].0 != k) ==> acc(s, k) == r0(),
    decreases s.len()
{
    if s.len() > 0 {
        let t = s.drop_last();
        assert forall|i: int, j: int| 0 <= i < j < t.len() implies #[trigger] t[i].0 != #[trigger] t[j].0 by { assert(t[i] == s[i] && t[j] == s[j]); }
        lemma_acc_distinct(t, k);
        let n = s.len() - 1;
        if s[n].0 == k {
            assert forall|i: int| 0 <= i < t.len() implies #[trigger] t[i].0 != k by { assert(t[i] == s[i]); assert(s[i].0 != s[n].0); }
            ax_add_zero(s[n].1);
            assert forall|i: int| 0 <= i < s.len() && #[trigger] s[i].0 == k implies acc(s, k) == s[i].1 by { if i < n { assert(s[i].0 != s[n].0); } }
        } else {
            assert forall|i: int| 0 <= i < s.len() && #[trigger] s[i].0 == k implies acc(s, k) == s[i].1 by { assert(i < n); assert(t[i] == s[i]); }
            if forall|i: int| 0 <= i < s.len() ==> #[trigger] s[i].0 != k { assert forall|i: int| 0 <= i < t.len() implies #[trigger] t[i].0 != k by { assert(t[i] == s[i]); } }
        }
    }
}
impl Lc {
    pub fn zero() -> (r: Lc) ensures r.wf(), r.nz(), forall|k: int| r.at(k) == r0(), r.data.m@ =~= Map::<int, int>::empty(),
    //@body impl/Zero@Lc/zero

    pub fn is_zero(&self) -> (r: bool) ensures self.nz() ==> (r == (forall|k: int| self.at(k) == r0())),
    //@body impl/Zero@Lc/is_zero
    //@+ post
    //@| if !__ret && self.nz() {
    //@|     assert(exists|k: int| self.data.m@.dom().contains(k)) by { if forall|k: int| !self.data.m@.dom().contains(k) { assert(self.data.m@.dom() =~= Set::<int>::empty()); } }
    //@|     let k = choose|k: int| self.data.m@.dom().contains(k);
    //@|     assert(self.at(k) != r0());
    //@| }

    pub fn nterms(&self) -> (r: usize) ensures self.data.m@.dom().finite(), r == self.data.m@.dom().len(), r == self.data.ord@.len(),
    //@body impl/Lc/nterms

    pub fn coeff(&self, x: &GenK) -> (r: &ER) requires self.wf() ensures r.v() == self.at(x.k@),
    //@body impl/Lc/coeff

    pub fn iter(&self) -> (r: MapIter<'_>) ensures r.pos@ == 0, r.es@ == self.data.ord@, entries_of(r.es@, self.data.m@), r.src == &self.data,
    //@body impl/Lc/iter
    //@+ sig
    //@| fn iter(&self) -> impl Iterator<Item = (&X, &R)>

    /// "must clean after call": adds r to the coefficient of x, nothing else changes
    pub fn add_pair(&mut self, rhs: (GenK, ER))
        ensures final(self).r_zero == old(self).r_zero,
            forall|k: int| final(self).at(k) == (if k == rhs.0.k@ { radd(old(self).at(k), rhs.1.v()) } else { old(self).at(k) }),
            forall|k: int| final(self).data.m@.dom().contains(k) ==> (old(self).data.m@.dom().contains(k) || k == rhs.0.k@),
    //@body impl/Lc/add_pair
    //@+ sig
    //@| fn add_pair(&mut self, rhs: (X, R))
    //@+ pre
    //@| ax_add_zero(rhs.1.v()); ax_add_zero(old(self).at(rhs.0.k@));

    pub fn add_pair_ref(&mut self, rhs: (&GenK, &ER))
        ensures final(self).r_zero == old(self).r_zero,
            forall|k: int| final(self).at(k) == (if k == rhs.0.k@ { radd(old(self).at(k), rhs.1.v()) } else { old(self).at(k) }),
            forall|k: int| final(self).data.m@.dom().contains(k) ==> (old(self).data.m@.dom().contains(k) || k == rhs.0.k@),
    //@body impl/Lc/add_pair_ref
    //@+ sig
    //@| fn add_pair_ref(&mut self, rhs: (&X, &R))
    //@+ pre
    //@| ax_add_zero(rhs.1.v()); ax_add_zero(old(self).at(rhs.0.k@));

    /// self += rhs : coefficientwise sum, and no zero coefficient is left stored
    pub fn add_assign(&mut self, rhs: &Lc)
        ensures final(self).nz(), final(self).r_zero == old(self).r_zero,
            forall|k: int| final(self).at(k) == radd(old(self).at(k), rhs.at(k)),
    //@body impl/AddAssign@Lc/add_assign for_iter=1 loops=1
    //@+ loop 0 header
    //@| for e in rhs.data.iter()
    //@+ loop 0
    //@| invariant
    //@|     __it0.src == &rhs.data, entries_of(__it0.es@, rhs.data.m@), 0 <= __it0.pos@ <= __it0.es@.len(),
    //@|     self.r_zero == old(self).r_zero,
    //@|     forall|k: int| self.at(k) == (if seen(__it0.es@, __it0.pos@, k) { radd(old(self).at(k), rhs.at(k)) } else { old(self).at(k) }),
    //@| ensures __it0.pos@ == __it0.es@.len(),
    //@| decreases __it0.es@.len() - __it0.pos@,
    //@+ loop 0 begin
    //@| let ghost p = __it0.pos@ - 1;
    //@| assert(e.0.k@ == __it0.es@[p].0 && e.1.v() == __it0.es@[p].1);
    //@| assert(!seen(__it0.es@, p, e.0.k@));
    //@| assert(rhs.at(e.0.k@) == e.1.v());
    //@+ loop 0 end
    //@| assert forall|k: int| self.at(k) == (if seen(__it0.es@, __it0.pos@, k) { radd(old(self).at(k), rhs.at(k)) } else { old(self).at(k) }) by {
    //@|     if k == e.0.k@ { assert(seen(__it0.es@, __it0.pos@, k)); }
    //@|     else { assert(seen(__it0.es@, __it0.pos@, k) == seen(__it0.es@, __it0.pos@ - 1, k)); }
    //@| }
    //@+ loop 0 after
    //@| assert forall|k: int| self.at(k) == radd(old(self).at(k), rhs.at(k)) by {
    //@|     ax_add_zero(old(self).at(k));
    //@|     if rhs.data.m@.dom().contains(k) { let i = choose|i: int| 0 <= i < __it0.es@.len() && #[trigger] __it0.es@[i].0 == k; assert(seen(__it0.es@, __it0.pos@, k)); }
    //@| }

    /// self -= rhs
    pub fn sub_assign(&mut self, rhs: &Lc)
        ensures final(self).nz(), final(self).r_zero == old(self).r_zero,
            forall|k: int| final(self).at(k) == rsub(old(self).at(k), rhs.at(k)),
    //@body impl/SubAssign@Lc/sub_assign for_iter=1 loops=1 ring=1
    //@+ loop 0 header
    //@| for e in rhs.data.iter()
    //@+ loop 0
    //@| invariant
    //@|     __it0.src == &rhs.data, entries_of(__it0.es@, rhs.data.m@), 0 <= __it0.pos@ <= __it0.es@.len(),
    //@|     self.r_zero == old(self).r_zero,
    //@|     forall|k: int| self.at(k) == (if seen(__it0.es@, __it0.pos@, k) { rsub(old(self).at(k), rhs.at(k)) } else { old(self).at(k) }),
    //@| ensures __it0.pos@ == __it0.es@.len(),
    //@| decreases __it0.es@.len() - __it0.pos@,
    //@+ loop 0 begin
    //@| let ghost p = __it0.pos@ - 1;
    //@| assert(e.0.k@ == __it0.es@[p].0 && e.1.v() == __it0.es@[p].1);
    //@| assert(!seen(__it0.es@, p, e.0.k@));
    //@| assert(rhs.at(e.0.k@) == e.1.v());
    //@+ loop 0 end
    //@| assert forall|k: int| self.at(k) == (if seen(__it0.es@, __it0.pos@, k) { rsub(old(self).at(k), rhs.at(k)) } else { old(self).at(k) }) by {
    //@|     if k == e.0.k@ { assert(seen(__it0.es@, __it0.pos@, k)); }
    //@|     else { assert(seen(__it0.es@, __it0.pos@, k) == seen(__it0.es@, __it0.pos@ - 1, k)); }
    //@| }
    //@+ loop 0 after
    //@| assert forall|k: int| self.at(k) == rsub(old(self).at(k), rhs.at(k)) by {
    //@|     ax_add_zero(old(self).at(k)); id_neg_zero();
    //@|     if rhs.data.m@.dom().contains(k) { let i = choose|i: int| 0 <= i < __it0.es@.len() && #[trigger] __it0.es@[i].0 == k; assert(seen(__it0.es@, __it0.pos@, k)); }
    //@| }

    /// FromIterator<(X, R)>: the formal sum of the given terms (repeated generators add up, zero terms vanish)
    pub fn from_iter(iter: PairIter) -> (r: Lc)
        requires iter.pos@ == 0
        ensures r.nz(), r.wf(), forall|k: int| r.at(k) == acc(iter.items@, k),
    //@body impl/FromIterator@Lc/from_iter for_iter=1 loops=1
    //@+ sig
    //@| fn from_iter<T: IntoIterator<Item = (X, R)>>(iter: T) -> Self
    //@+ loop 0 header
    //@| for e in iter.into_iter()
    //@+ loop 0
    //@| invariant
    //@|     __it0.items@ == iter.items@, 0 <= __it0.pos@ <= __it0.items@.len(), res.wf(),
    //@|     forall|k: int| res.at(k) == acc(__it0.items@.take(__it0.pos@), k),
    //@| ensures __it0.pos@ == __it0.items@.len(),
    //@| decreases __it0.items@.len() - __it0.pos@,
    //@+ loop 0 end
    //@| let ghost p = __it0.pos@ - 1;
    //@| assert(__it0.items@.take(p + 1).drop_last() =~= __it0.items@.take(p));
    //@| assert(__it0.items@.take(p + 1).last() == __it0.items@[p]);
    //@+ loop 0 after
    //@| assert(__it0.items@.take(__it0.pos@) =~= iter.items@);

    /// bilinear extension of x_map: coefficient of k is  sum_{i,j : x_map(x_i, y_j) = k} r_i s_j , nothing zero stored
    pub fn combine<F: Fn(&GenK, &GenK) -> GenK>(&self, other: &Lc, x_map: F) -> (res: Lc)
        requires
            forall|a: &GenK, b: &GenK| x_map.requires((a, b)),
            forall|a: &GenK, b: &GenK, r: GenK| x_map.ensures((a, b), r) ==> r.k@ == xm(a.k@, b.k@),
            self.data.m@.dom().len() * other.data.m@.dom().len() <= usize::MAX,   // capacity hint `reserve(n * m)` does not overflow
        ensures res.nz(), res.wf(),
            forall|k: int| res.at(k) == dsum(self.data.ord@, self.data.ord@.len() as int, other.data.ord@, k),
    //@body impl/Lc/combine for_iter=1 loops=2 ring=1 machine=nterms
    //@+ sig
    //@| fn combine<F>(&self, other: &Self, x_map: F) -> Self where F: Fn(&X, &X) -> X
    //@+ loop 0 header
    //@| for (x, r) in self.iter()
    //@+ loop 1 header
    //@| for (y, s) in other.iter()
    //@+ loop 0
    //@| invariant
    //@|     __it0.es@ == self.data.ord@, 0 <= __it0.pos@ <= __it0.es@.len(), res.wf(),
    //@|     forall|a: &GenK, b: &GenK| x_map.requires((a, b)),
    //@|     forall|a: &GenK, b: &GenK, r: GenK| x_map.ensures((a, b), r) ==> r.k@ == xm(a.k@, b.k@),
    //@|     forall|k: int| res.at(k) == dsum(self.data.ord@, __it0.pos@, other.data.ord@, k),
    //@| ensures __it0.pos@ == __it0.es@.len(),
    //@| decreases __it0.es@.len() - __it0.pos@,
    //@+ loop 1
    //@| invariant
    //@|     __it1.es@ == other.data.ord@, 0 <= __it1.pos@ <= __it1.es@.len(), res.wf(),
    //@|     __it0.es@ == self.data.ord@, 1 <= __it0.pos@ <= __it0.es@.len(),
    //@|     x.k@ == self.data.ord@[__it0.pos@ - 1].0, r.v() == self.data.ord@[__it0.pos@ - 1].1,
    //@|     forall|a: &GenK, b: &GenK| x_map.requires((a, b)),
    //@|     forall|a: &GenK, b: &GenK, r: GenK| x_map.ensures((a, b), r) ==> r.k@ == xm(a.k@, b.k@),
    //@|     forall|k: int| res.at(k) == isum(dsum(self.data.ord@, __it0.pos@ - 1, other.data.ord@, k), x.k@, r.v(), other.data.ord@, __it1.pos@, k),
    //@| ensures __it1.pos@ == __it1.es@.len(),
    //@| decreases __it1.es@.len() - __it1.pos@,

    /// Mul for &Lc (X: Gen + Mul): the bilinear extension of the generator product
    pub fn mul(&self, rhs: &Lc) -> (res: Lc)
        requires self.data.m@.dom().len() * rhs.data.m@.dom().len() <= usize::MAX,
        ensures res.nz(), res.wf(),
            forall|k: int| res.at(k) == dsum(self.data.ord@, self.data.ord@.len() as int, rhs.data.ord@, k),
    //@body impl/Mul@&Lc/mul ring=1 q=clone qname=g
    //@+ closure 0
    //@| -> (out: GenK) ensures out.k@ == xm(x.k@, y.k@)


    /// From<(X, R)>: the single term r x -- and nothing stored when r = 0 (the base of PolyBase::from_const / from / one)
    pub fn from(value: (GenK, ER)) -> (r: Lc)
        ensures r.nz(), r.wf(), forall|k: int| r.at(k) == (if k == value.0.k@ { value.1.v() } else { r0() }),
    //@body impl/From@Lc/from#1 subst=Self::from_iter:lc_from_arr1_
    //@+ sig
    //@| fn from(value: (X, R)) -> Self
    //@+ post
    //@| let one = seq![(value.0.k@, value.1.v())];
    //@| assert(one.drop_last() =~= Seq::<(int, int)>::empty());
    //@| ax_add_zero(value.1.v());
    //@| assert forall|k: int| __ret.at(k) == (if k == value.0.k@ { value.1.v() } else { r0() }) by { assert(acc(one, k) == (if one.last().0 == k { radd(acc(one.drop_last(), k), one.last().1) } else { acc(one.drop_last(), k) })); }

    /// `map`: every term (x, r) is replaced by f(x, r) and the results are collected (equal generators add up, zero terms vanish)
    pub fn map<F: Fn(&GenK, &ER) -> (GenK, ER)>(&self, f: F) -> (res: Lc)
        requires forall|x: &GenK, r: &ER| f.requires((x, r)),
        ensures res.nz(), res.wf(), entries_of(self.data.ord@, self.data.m@), exists|items: Seq<(int, int)>| #[trigger] map_items(f, self.data.ord@, items) && forall|k: int| res.at(k) == acc(items, k),
    //@body impl/Lc/map for_iter=1 loops=1 collect_via=lc_collect_ vec_elem=(GenK,ER)
    //@+ pre-raw
    //@| let ghost mut items: Seq<(int, int)> = Seq::empty(); let ghost ord = self.data.ord@;
    //@+ loop 0
    //@| invariant __it0.es@ == ord, entries_of(ord, self.data.m@), 0 <= __it0.pos@ <= ord.len(), items.len() == __it0.pos@, pitems(__cout0@) =~= items,
    //@|     forall|x: &GenK, r: &ER| f.requires((x, r)),
    //@|     forall|i: int| 0 <= i < items.len() ==> #[trigger] item_ok(f, ord[i], items[i]),
    //@| ensures __it0.pos@ == ord.len(),
    //@| decreases ord.len() - __it0.pos@,
    //@+ loop 0 begin-raw
    //@| let ghost out0 = __cout0@; let ghost items0 = items;
    //@+ loop 0 end
    //@| items = items0.push((__y0.0.k@, __y0.1.v()));
    //@| assert(pitems(__cout0@) =~= pitems(out0).push((__y0.0.k@, __y0.1.v())));
    //@| assert(item_ok(f, ord[__it0.pos@ - 1], items[__it0.pos@ - 1])) by { assert(f.ensures((x, r), __y0)); }
    //@| assert forall|i: int| 0 <= i < items.len() implies #[trigger] item_ok(f, ord[i], items[i]) by { if i < items0.len() { assert(items[i] == items0[i]); assert(item_ok(f, ord[i], items0[i])); } }
    //@+ loop 0 after
    //@| assert(map_items(f, ord, items));

    /// `map_coeffs`: the coefficient of every stored generator is replaced by f(coefficient); generators are kept, zero results vanish
    pub fn map_coeffs<F: Fn(&ER) -> ER>(&self, f: F) -> (res: Lc)
        requires forall|r: &ER| f.requires((r,)),
        ensures res.nz(), res.wf(),
            forall|k: int| !self.data.m@.dom().contains(k) ==> res.at(k) == r0(),
            forall|k: int| self.data.m@.dom().contains(k) ==> exists|r: &ER, o: ER| #![trigger f.ensures((r,), o)] r.v() == self.data.m@[k] && f.ensures((r,), o) && res.at(k) == o.v(),
    //@body impl/Lc/map_coeffs
    //@+ closure 0 typed
    //@| x: &GenK, r: &ER
    //@+ closure 0
    //@| -> (o: (GenK, ER)) ensures o.0.k@ == x.k@, ens1(&f, r, o.1)
    //@+ closure 0 hoist
    //@| // captures only the parameter f
    //@+ post
    //@| let ord = self.data.ord@; let m = self.data.m@;
    //@| let items = choose|items: Seq<(int, int)>| #[trigger] map_items(__cl0, ord, items) && forall|k: int| __ret.at(k) == acc(items, k);
    //@| assert forall|i: int| 0 <= i < ord.len() implies items[i].0 == ord[i].0 && exists|r: &ER, o: ER| #![trigger f.ensures((r,), o)] r.v() == ord[i].1 && f.ensures((r,), o) && items[i].1 == o.v() by {
    //@|     assert(item_ok(__cl0, ord[i], items[i]));
    //@|     let (x, r, o) = choose|x: &GenK, r: &ER, o: (GenK, ER)| #![trigger __cl0.ensures((x, r), o)] x.k@ == ord[i].0 && r.v() == ord[i].1 && __cl0.ensures((x, r), o) && items[i] == (o.0.k@, o.1.v());
    //@|     assert(f.ensures((r,), o.1));
    //@| }
    //@| assert forall|i: int, j: int| 0 <= i < j < items.len() implies #[trigger] items[i].0 != #[trigger] items[j].0 by { assert(ord[i].0 != ord[j].0); }
    //@| assert forall|k: int| !m.dom().contains(k) implies __ret.at(k) == r0() by {
    //@|     lemma_acc_distinct(items, k);
    //@|     assert forall|i: int| 0 <= i < items.len() implies #[trigger] items[i].0 != k by { assert(m.dom().contains(ord[i].0)); }
    //@| }
    //@| assert forall|k: int| m.dom().contains(k) implies exists|r: &ER, o: ER| #![trigger f.ensures((r,), o)] r.v() == m[k] && f.ensures((r,), o) && __ret.at(k) == o.v() by {
    //@|     let i = choose|i: int| 0 <= i < ord.len() && #[trigger] ord[i].0 == k;
    //@|     lemma_acc_distinct(items, k);
    //@|     assert(items[i].0 == k);
    //@|     assert(m[k] == ord[i].1);
    //@| }
    /// `map_gens`: every generator x is replaced by f(x), coefficients kept; generators that collide add up, zero sums vanish
    pub fn map_gens<F: Fn(&GenK) -> GenK>(&self, f: F) -> (res: Lc)
        requires forall|x: &GenK| f.requires((x,)),
        ensures res.nz(), res.wf(),
            exists|items: Seq<(int, int)>| #[trigger] gens_items(&f, self.data.ord@, items) && forall|k: int| res.at(k) == acc(items, k),
    //@body impl/Lc/map_gens
    //@+ closure 0 typed
    //@| x: &GenK, r: &ER
    //@+ closure 0
    //@| -> (o: (GenK, ER)) ensures ensg(&f, x, o.0), o.1.v() == r.v()
    //@+ closure 0 hoist
    //@| // captures only the parameter f
    //@+ post
    //@| let ord = self.data.ord@;
    //@| let items = choose|items: Seq<(int, int)>| #[trigger] map_items(__cl0, ord, items) && forall|k: int| __ret.at(k) == acc(items, k);
    //@| assert forall|i: int| 0 <= i < items.len() implies (#[trigger] items[i]).1 == ord[i].1 && exists|x: &GenK, o: GenK| #![trigger ensg(&f, x, o)] x.k@ == ord[i].0 && ensg(&f, x, o) && items[i].0 == o.k@ by {
    //@|     assert(item_ok(__cl0, ord[i], items[i]));
    //@|     let (x, r, o) = choose|x: &GenK, r: &ER, o: (GenK, ER)| #![trigger __cl0.ensures((x, r), o)] x.k@ == ord[i].0 && r.v() == ord[i].1 && __cl0.ensures((x, r), o) && items[i] == (o.0.k@, o.1.v());
    //@|     assert(ensg(&f, x, o.0));
    //@| }
    //@| assert(gens_items(&f, ord, items));
} // impl Lc
/// `Lc::from_iter([value])` on a one-element array (ASSUMED: an array iterates over its elements; then the proved from_iter)
#[verifier::external_body] pub fn lc_from_arr1_(a: [(GenK, ER); 1]) -> (r: Lc)
    ensures r.nz(), r.wf(), forall|k: int| r.at(k) == acc(seq![(a@[0].0.k@, a@[0].1.v())], k) { unimplemented!() }
/// `collect::<Lc>()` of a Vec's items = FromIterator::from_iter on them (rule R45)
pub fn lc_collect_(v: Vec<(GenK, ER)>) -> (r: Lc)
    ensures r.nz(), r.wf(), forall|k: int| r.at(k) == acc(pitems(v@), k)
{ Lc::from_iter(pairs_iter_(v)) }


} // verus!
fn main() {}
