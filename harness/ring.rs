// C14 / C15 (and the division kernel of C09 / C10) — contract harnesses on the real crate `yui`
// for the macro-generated / loop-free scalar code.  Loop-free harnesses over full-domain
// symbolic machine values are complete proofs for the stated integer type.
use super::src::*;
use crate::{ob, pre, reach};
use num_traits::{One, Zero};
use yui::{DivRound, EucRing, Ratio, Ring, FF, FF2};
use yui::{EisenInt, GaussInt};
#[allow(unused_imports)]
use num_traits::Signed;

// ------------------------------------------------------------------ nearest-integer division (C15/C09/C10)
// contract: b != 0, result representable  ==>  q = a.div_round(b) satisfies 2|a - q b| <= |b|
// (tie direction left open: the property says "exactly rounded", LLL / Z[i] / Z[w] need "nearest")

macro_rules! div_round_harness {
    ($name:ident, $t:ident, $ob1:literal, $ob2:literal) => {
        pub fn $name(s: &mut Src) -> R {
            let a: $t = s.$t(); let b: $t = s.$t();
            pre!(b != 0);
            pre!(!(a == <$t>::MIN && b == -1)); // quotient not representable
            reach!();
            let q = a.div_round(&b);
            // q is the truncated quotient d or its neighbour away from zero, and the matching
            // remainder r = a - q b satisfies 2|r| <= |b|   (all computed without overflow)
            let d = a / b; let m = a % b;
            ob!(q == d || (m != 0 && (q == d + 1 || q == d - 1)), $ob1);
            let r = if q == d { m } else if q == d + 1 { m - b } else { m + b };
            let nr = if r > 0 { -r } else { r };   // -|r|
            let nb = if b > 0 { -b } else { b };   // -|b|
            ob!(nr >= nb - nr, $ob2);
            Ok(())
        }
    };
}
div_round_harness!(ring_div_round_i32, i32, "div_round<i32>::adjacent-to-truncated-quotient", "div_round<i32>::nearest-integer-quotient");
div_round_harness!(ring_div_round_i64, i64, "div_round<i64>::adjacent-to-truncated-quotient", "div_round<i64>::nearest-integer-quotient");
div_round_harness!(ring_div_round_i128, i128, "div_round<i128>::adjacent-to-truncated-quotient", "div_round<i128>::nearest-integer-quotient");

// ------------------------------------------------------------------ machine integers as a Euclidean ring (C15 item 3)

macro_rules! int_ring_harness {
    ($units:ident, $divides:ident, $t:ident) => {
        pub fn $units(s: &mut Src) -> R {
            let a: $t = s.$t();
            pre!(a != <$t>::MIN);
            reach!();
            ob!(a.is_unit() == a.inv().is_some(), "int::is_unit-iff-inv-is-some");
            if let Some(v) = a.inv() { ob!(a * v == 1, "int::a*inv==1"); }
            ob!(a.is_unit() == (a == 1 || a == -1), "int::units-are-pm1");
            let u = a.normalizing_unit();
            ob!(u == 1 || u == -1, "int::normalizing_unit-is-a-unit");
            let n = a.normalized();
            ob!(n == if u == 1 { a } else { -a }, "int::normalized==a*u");
            ob!(n >= 0 && (n == a || n == -a), "int::normalized-is-abs");
            ob!(n.normalized() == n, "int::normalized-idempotent");
            ob!((-a).normalized() == n, "int::normalized-constant-on-associates");
            ob!(a.is_pm_one() == (a == 1 || a == -1), "int::is_pm_one");
            Ok(())
        }
        pub fn $divides(s: &mut Src) -> R {
            let a: $t = s.$t(); let b: $t = s.$t();
            pre!(a != <$t>::MIN && b != <$t>::MIN);
            reach!();
            let r = a.divides(&b);
            ob!(r == (a != 0 && b % a == 0), "int::divides");
            Ok(())
        }
    };
}
int_ring_harness!(ring_int_units_i32, ring_int_divides_i32, i32);
int_ring_harness!(ring_int_units_i64, ring_int_divides_i64, i64);

// ------------------------------------------------------------------ order on Ratio (C14)
// contract: cmp is the order of Q and Equal <=> ==

pub fn ring_ratio_cmp_int_i64(s: &mut Src) -> R {
    let a = s.i64(); let b = s.i64();
    reach!();
    let (x, y) = (Ratio::<i64>::from(a), Ratio::<i64>::from(b));
    ob!(x.cmp(&y) == a.cmp(&b), "Ratio<i64>::cmp-on-integers-is-integer-order");
    ob!((x.cmp(&y) == std::cmp::Ordering::Equal) == (x == y), "Ratio<i64>::Equal-iff-eq");
    ob!(x.partial_cmp(&y) == Some(x.cmp(&y)), "Ratio<i64>::partial_cmp-agrees");
    Ok(())
}

/// general fractions with small components: bounded stand-in for the recursion in cmp
/// (the unbounded statement is the Verus unit `ratio`)
pub fn ring_ratio_cmp_small_i64(s: &mut Src) -> R {
    let (a, b, c, d) = (s.i64(), s.i64(), s.i64(), s.i64());
    pre!(-16 <= a && a <= 16 && 1 <= b && b <= 16 && -16 <= c && c <= 16 && 1 <= d && d <= 16);
    reach!();
    let (x, y) = (Ratio::<i64>::new(a, b), Ratio::<i64>::new(c, d));
    let exp = (a * d).cmp(&(c * b));
    ob!(x.cmp(&y) == exp, "Ratio<i64>::cmp-is-order-of-Q");
    ob!((x.cmp(&y) == std::cmp::Ordering::Equal) == (x == y), "Ratio<i64>::Equal-iff-eq");
    Ok(())
}

// ------------------------------------------------------------------ F_p (C14, C15 item 5)

macro_rules! ff_harness {
    ($name:ident, $inv:ident, $p:literal) => {
        pub fn $name(s: &mut Src) -> R {
            type F = FF<$p>;
            const P: i64 = $p;
            let (a, b, c) = (s.i32(), s.i32(), s.i32());
            reach!();
            let m = |x: i64| x.rem_euclid(P);
            let (x, y, z) = (F::new(a), F::new(b), F::new(c));
            let (ra, rb) = (m(a as i64), m(b as i64));
            ob!(*x.rep() as i64 == ra && 0 <= *x.rep() && (*x.rep() as i64) < P, "FF::new-canonical-representative");
            ob!(*(x + y).rep() as i64 == m(ra + rb), "FF::add");
            ob!(*(x - y).rep() as i64 == m(ra - rb), "FF::sub");
            ob!(*(x * y).rep() as i64 == m(ra * rb), "FF::mul");
            ob!(*(-x).rep() as i64 == m(-ra), "FF::neg");
            // by-reference and assigning forms (auto_ops output) agree with the by-value form
            ob!(&x + &y == x + y && &x - &y == x - y && &x * &y == x * y && -&x == -x, "FF::by-reference-forms-agree");
            ob!(x + &y == x + y && &x + y == x + y && x * &y == x * y && &x * y == x * y, "FF::mixed-forms-agree");
            let mut t = x; t += y; let mut t2 = x; t2 += &y;
            ob!(t == x + y && t2 == x + y, "FF::add_assign-agrees");
            let mut t = x; t -= y; let mut t2 = x; t2 -= &y;
            ob!(t == x - y && t2 == x - y, "FF::sub_assign-agrees");
            let mut t = x; t *= y; let mut t2 = x; t2 *= &y;
            ob!(t == x * y && t2 == x * y, "FF::mul_assign-agrees");
            // equality is equality of residues
            ob!((x == y) == (ra == rb), "FF::eq-iff-same-residue");
            // commutative-ring axioms on symbolic triples
            ob!((x + y) + z == x + (y + z) && x + y == y + x, "FF::add-assoc-comm");
            ob!((x * y) * z == x * (y * z) && x * y == y * x, "FF::mul-assoc-comm");
            ob!(x * (y + z) == x * y + x * z, "FF::distributive");
            ob!(x + F::zero() == x && x * F::one() == x && x + (-x) == F::zero(), "FF::identities-and-inverse");
            ob!(x.is_zero() == (ra == 0) && x.is_one() == (ra == 1 % P), "FF::is_zero/is_one");
            ob!(x.is_unit() == (ra != 0), "FF::is_unit-iff-nonzero");
            Ok(())
        }
        pub fn $inv(s: &mut Src) -> R {
            type F = FF<$p>;
            let a = s.i32();
            reach!();
            let x = F::new(a);
            ob!(x.is_unit() == x.inv().is_some(), "FF::is_unit-iff-inv-is-some");
            if let Some(v) = x.inv() {
                ob!(x * v == F::one(), "FF::a*inv==1");
                ob!(x / x == F::one(), "FF::a/a==1");
            }
            let u = x.normalizing_unit();
            ob!(u.is_unit(), "FF::normalizing_unit-is-a-unit");
            ob!(x.normalized() == if x.is_zero() { F::zero() } else { F::one() }, "FF::normalized-is-0-or-1");
            Ok(())
        }
    };
}
ff_harness!(ring_ff2p, ring_ff2p_inv, 2);
ff_harness!(ring_ff3, ring_ff3_inv, 3);
ff_harness!(ring_ff5, ring_ff5_inv, 5);
ff_harness!(ring_ff7, ring_ff7_inv, 7);
ff_harness!(ring_ff46337, ring_ff46337_inv, 46337);

// ------------------------------------------------------------------ F_2 (exhaustive)

pub fn ring_f2(s: &mut Src) -> R {
    let (a, b, c) = (s.bool(), s.bool(), s.bool());
    reach!();
    let f = |v: bool| if v { FF2::one() } else { FF2::zero() };
    let (x, y, z) = (f(a), f(b), f(c));
    ob!(x + y == f(a != b) && x - y == f(a != b) && x * y == f(a && b) && -x == x, "FF2::operations");
    ob!(&x + &y == x + y && &x - &y == x - y && &x * &y == x * y && -&x == -x, "FF2::by-reference-forms-agree");
    let mut t = x; t += y; let mut u = x; u *= y; let mut w = x; w -= &y;
    ob!(t == x + y && u == x * y && w == x - y, "FF2::assigning-forms-agree");
    ob!((x + y) + z == x + (y + z) && (x * y) * z == x * (y * z) && x * (y + z) == x * y + x * z, "FF2::ring-axioms");
    ob!(x + y == y + x && x * y == y * x && x + FF2::zero() == x && x * FF2::one() == x && x + (-x) == FF2::zero(), "FF2::comm-identities");
    ob!((x == y) == (a == b) && x.is_zero() == !a && x.is_one() == a, "FF2::eq");
    ob!(x.is_unit() == x.inv().is_some() && x.is_unit() == a, "FF2::is_unit-iff-inv");
    if let Some(v) = x.inv() { ob!(x * v == FF2::one(), "FF2::a*inv==1"); }
    ob!(x.normalized() == x, "FF2::normalized");
    ob!(FF2::from(3i64) == FF2::one() && FF2::from(-2i64) == FF2::zero(), "FF2::from-parity");
    Ok(())
}

// ------------------------------------------------------------------ quadratic integers: + - neg (macro-generated), *, units
macro_rules! qint_harness {
    ($addsub:ident, $mul:ident, $gunits:ident, $eunits:ident, $gdiv:ident, $ediv:ident, $t:ident, $lim:expr, $dlim:expr) => {
        pub fn $addsub(s: &mut Src) -> R {
            type G = GaussInt<$t>; type E = EisenInt<$t>;
            let (a, b, c, d): ($t, $t, $t, $t) = (s.$t(), s.$t(), s.$t(), s.$t());
            let small = |x: $t| -$lim < x && x < $lim;
            pre!(small(a) && small(b) && small(c) && small(d));
            reach!();
            let (x, y) = (G::new(a, b), G::new(c, d));
            ob!(&x + &y == G::new(a + c, b + d) && &x - &y == G::new(a - c, b - d) && -&x == G::new(-a, -b), "QuadInt::add/sub/neg-componentwise");
            ob!(x.clone() + y.clone() == &x + &y && x.clone() - y.clone() == &x - &y && -x.clone() == -&x, "QuadInt::by-value-forms-agree");
            let mut t = x.clone(); t += &y; let mut u = x.clone(); u -= y.clone();
            ob!(t == &x + &y && u == &x - &y, "QuadInt::assigning-forms-agree");
            let (x, y) = (E::new(a, b), E::new(c, d));
            ob!(&x + &y == E::new(a + c, b + d) && &x - &y == E::new(a - c, b - d) && -&x == E::new(-a, -b), "QuadInt<-3>::add/sub/neg-componentwise");
            Ok(())
        }
        pub fn $mul(s: &mut Src) -> R {
            type G = GaussInt<$t>; type E = EisenInt<$t>;
            let (a, b, c, d): ($t, $t, $t, $t) = (s.$t(), s.$t(), s.$t(), s.$t());
            let small = |x: $t| -$lim < x && x < $lim;
            pre!(small(a) && small(b) && small(c) && small(d));
            reach!();
            // Z[i]: (a+bi)(c+di) = (ac-bd) + (ad+bc)i
            let (x, y) = (G::new(a, b), G::new(c, d));
            ob!(&x * &y == G::new(a * c - b * d, a * d + b * c), "GaussInt::mul");
            ob!(x.conj() == G::new(a, -b) && x.norm() == a * a + b * b, "GaussInt::conj/norm");
            // Z[w], w^2 = w - 1: (a+bw)(c+dw) = (ac - bd) + (ad + bc + bd) w
            let (x, y) = (E::new(a, b), E::new(c, d));
            ob!(&x * &y == E::new(a * c - b * d, a * d + b * c + b * d), "EisenInt::mul");
            ob!(x.conj() == E::new(a + b, -b) && x.norm() == a * a + a * b + b * b, "EisenInt::conj/norm");
            let mut t = x.clone(); t *= &y;
            ob!(t == &x * &y && x.clone() * y.clone() == &x * &y, "QuadInt::mul-forms-agree");
            Ok(())
        }
        pub fn $gunits(s: &mut Src) -> R {
            type G = GaussInt<$t>;
            let (a, b, k): ($t, $t, u8) = (s.$t(), s.$t(), s.u8());
            let small = |x: $t| -$lim < x && x < $lim;
            pre!(small(a) && small(b) && k < 4);
            reach!();
            let z = G::new(a, b);
            let n = a * a + b * b;
            ob!(z.is_unit() == (n == 1), "GaussInt::is_unit-iff-norm-1");
            ob!(z.is_unit() == z.inv().is_some(), "GaussInt::is_unit-iff-inv-is-some");
            if let Some(v) = z.inv() { ob!(&z * &v == G::one(), "GaussInt::z*inv==1"); }
            let u = z.normalizing_unit();
            // multiplication by a unit, specified without multiplying: 1, i, -1, -i
            let times = |k: u8, a: $t, b: $t| match k { 0 => G::new(a, b), 1 => G::new(-b, a), 2 => G::new(-a, -b), _ => G::new(b, -a) };
            let units = [G::new(1, 0), G::new(0, 1), G::new(-1, 0), G::new(0, -1)];
            let ui = if u == units[0] { 0 } else if u == units[1] { 1 } else if u == units[2] { 2 } else if u == units[3] { 3 } else { 4 };
            ob!(ui < 4, "GaussInt::normalizing_unit-is-a-unit");
            let w = z.normalized();
            ob!(w == times(ui, a, b), "GaussInt::normalized==z*u");
            ob!((*w.left() > 0 && *w.right() >= 0) || (a == 0 && b == 0 && w.is_zero()), "GaussInt::normalized-in-first-quadrant");
            ob!(w.normalized() == w, "GaussInt::normalized-idempotent");
            ob!(times(k, a, b).normalized() == w, "GaussInt::normalized-constant-on-associates");
            Ok(())
        }
        pub fn $eunits(s: &mut Src) -> R {
            type E = EisenInt<$t>;
            let (a, b, k): ($t, $t, u8) = (s.$t(), s.$t(), s.u8());
            let small = |x: $t| -$lim < x && x < $lim;
            pre!(small(a) && small(b) && k < 6);
            reach!();
            let z = E::new(a, b);
            let n = a * a + a * b + b * b;
            ob!(z.is_unit() == (n == 1), "EisenInt::is_unit-iff-norm-1");
            ob!(z.is_unit() == z.inv().is_some(), "EisenInt::is_unit-iff-inv-is-some");
            if let Some(v) = z.inv() { ob!(&z * &v == E::one(), "EisenInt::z*inv==1"); }
            let u = z.normalizing_unit();
            // (a + b w) * w = -b + (a + b) w ; the six units are w^k
            let times = |k: u8, a: $t, b: $t| { let (mut x, mut y) = (a, b); let mut j = 0; while j < k { let t = x; x = -y; y = t + y; j += 1; } E::new(x, y) };
            let units = [E::new(1, 0), E::new(0, 1), E::new(-1, 1), E::new(-1, 0), E::new(0, -1), E::new(1, -1)];
            let mut ui = 6u8; let mut j = 0u8; while j < 6 { if u == units[j as usize] { ui = j; } j += 1; }
            ob!(ui < 6, "EisenInt::normalizing_unit-is-a-unit");
            let w = z.normalized();
            ob!(w == times(ui, a, b), "EisenInt::normalized==z*u");
            ob!((*w.left() > 0 && *w.right() >= 0) || (a == 0 && b == 0 && w.is_zero()), "EisenInt::normalized-in-first-sextant");
            ob!(w.normalized() == w, "EisenInt::normalized-idempotent");
            ob!(times(k, a, b).normalized() == w, "EisenInt::normalized-constant-on-associates");
            Ok(())
        }
        /// division with remainder on machine components: bounded stand-in (|components| < dlim);
        /// the unbounded statement is the Verus unit `qint`.
        pub fn $gdiv(s: &mut Src) -> R {
            type G = GaussInt<$t>;
            let (a, b, c, d): ($t, $t, $t, $t) = (s.$t(), s.$t(), s.$t(), s.$t());
            let small = |x: $t| -$dlim < x && x < $dlim;
            pre!(small(a) && small(b) && small(c) && small(d));
            pre!(c != 0 || d != 0);
            reach!();
            let (x, y) = (G::new(a, b), G::new(c, d));
            let (q, r) = (&x / &y, &x % &y);
            ob!(&(&q * &y) + &r == x, "GaussInt::a==(a/b)*b+(a%b)");
            ob!(2 * r.norm() <= y.norm(), "GaussInt::remainder-norm-at-most-half");
            Ok(())
        }
        pub fn $ediv(s: &mut Src) -> R {
            type E = EisenInt<$t>;
            let (a, b, c, d): ($t, $t, $t, $t) = (s.$t(), s.$t(), s.$t(), s.$t());
            let small = |x: $t| -$dlim < x && x < $dlim;
            pre!(small(a) && small(b) && small(c) && small(d));
            pre!(c != 0 || d != 0);
            reach!();
            let (x, y) = (E::new(a, b), E::new(c, d));
            let (q, r) = (&x / &y, &x % &y);
            ob!(&(&q * &y) + &r == x, "EisenInt::a==(a/b)*b+(a%b)");
            ob!(r.norm() < y.norm(), "EisenInt::remainder-norm-smaller");
            Ok(())
        }
    };
}
qint_harness!(ring_qint_addsub_i32, ring_qint_mul_i32, ring_gauss_units_i32, ring_eisen_units_i32, ring_gauss_divrem_i32, ring_eisen_divrem_i32, i32, (1 << 14), (1 << 5));
qint_harness!(ring_qint_addsub_i64, ring_qint_mul_i64, ring_gauss_units_i64, ring_eisen_units_i64, ring_gauss_divrem_i64, ring_eisen_divrem_i64, i64, (1i64 << 30), (1i64 << 10));


// ------------------------------------------------------------------ generic Euclid on concrete rings
// (witness search / replay for the Verus unit `euc_ring`; loops are not type-bounded, so these are
// not registered as Kani proofs)
pub fn ring_gauss_gcd(s: &mut Src) -> R {
    type G = GaussInt<i64>;
    let (a, b, c, d) = (s.i64(), s.i64(), s.i64(), s.i64());
    let lim = 1i64 << 12;
    pre!(-lim < a && a < lim && -lim < b && b < lim && -lim < c && c < lim && -lim < d && d < lim);
    reach!();
    let (x, y) = (G::new(a, b), G::new(c, d));
    let g = G::gcd(&x, &y);
    if x.is_zero() && y.is_zero() { ob!(g.is_zero(), "gcd::zero-zero"); return Ok(()); }
    ob!(g.divides(&x) && g.divides(&y), "gcd::divides-both");
    ob!(g.normalized() == g, "gcd::is-normalised");
    ob!(G::gcd(&y, &x) == g, "gcd::independent-of-argument-order");
    let (d2, p, q) = G::gcdx(&x, &y);
    ob!(d2 == g, "gcdx::same-gcd");
    ob!(&(&p * &x) + &(&q * &y) == d2, "gcdx::bezout");
    let l = G::lcm(&x, &y);
    ob!(l.normalized() == l, "lcm::is-normalised");
    ob!((&l * &g).normalized() == (&x * &y).normalized(), "lcm::lcm*gcd-associate-of-product");
    Ok(())
}
pub fn ring_ff5_gcd(s: &mut Src) -> R {
    type F = FF<5>;
    let (a, b) = (s.i32(), s.i32());
    reach!();
    let (x, y) = (F::new(a), F::new(b));
    let g = F::gcd(&x, &y);
    ob!(g.normalized() == g, "gcd::is-normalised");
    ob!(F::gcd(&y, &x) == g, "gcd::independent-of-argument-order");
    let (d2, p, q) = F::gcdx(&x, &y);
    ob!(d2 == g && p * x + q * y == d2, "gcdx::bezout");
    Ok(())
}

/// Ratio<i32> products, quotients, inverses and negatives with operands of any size (BOUNDED, sampled; native only): whenever the exact result
/// (computed in i128) is representable, the operation returns it in lowest terms with a positive denominator -- the cross-cancellation of
/// `*` / `/` exists precisely so that no intermediate value exceeds the result.  (Sums are excluded: whether their intermediate a(d/g) + c(b/g) can
/// exceed a representable result was not examined and is not claimed.)
pub fn ring_ratio_mul_limits(s: &mut Src) -> R {
    use yui::Ratio;
    let (a, b, c, d) = (s.i32(), s.i32(), s.i32(), s.i32());
    let shared = s.small(1, 50000) as i32;
    pre!(b != 0 && d != 0 && a != i32::MIN && b != i32::MIN && c != i32::MIN && d != i32::MIN);
    reach!();
    fn g(a: i128, b: i128) -> i128 { if b == 0 { a.abs() } else { g(b, a % b) } }
    let red = |n: i128, m: i128| -> (i128, i128) { let k = g(n, m); let (n, m) = (n / k, m / k); if m < 0 { (-n, -m) } else { (n, m) } };
    let fits = |x: i128| x > i32::MIN as i128 && x <= i32::MAX as i128;
    // make the two operands share a large factor across the diagonal (a/b * b'/c with b' a multiple of the same number), so that the exact
    // result is small although the plain products are not
    let (b2, c2) = (((b as i64 % 40000) as i32).saturating_mul(shared), ((c as i64 % 40000) as i32).saturating_mul(shared));
    for &(a, b, c, d) in &[(a, b, c, d), (a, b2, c2, d)] {
        if b == 0 || d == 0 { continue; }
        let (x, y) = (Ratio::new(a, b), Ratio::new(c, d));
        let (xn, xd) = red(a as i128, b as i128); let (yn, yd) = red(c as i128, d as i128);
        let (pn, pd) = red(xn * yn, xd * yd);
        if fits(pn) && fits(pd) { let z = &x * &y; ob!(*z.numer() as i128 == pn && *z.denom() as i128 == pd, "Ratio<i32>::mul-exact-when-representable"); }
        if yn != 0 { let (qn, qd) = red(xn * yd, xd * yn); if fits(qn) && fits(qd) && fits(yd) && fits(yn) { let z = &x / &y; ob!(*z.numer() as i128 == qn && *z.denom() as i128 == qd, "Ratio<i32>::div-exact-when-representable"); } }
        let z = -&x; ob!(*z.numer() as i128 == -xn && *z.denom() as i128 == xd, "Ratio<i32>::neg");
        if xn != 0 { let (inn, ind) = red(xd, xn); let z = x.inv().unwrap(); ob!(*z.numer() as i128 == inn && *z.denom() as i128 == ind, "Ratio<i32>::inv"); }
    }
    Ok(())
}

/// FF<p> for moduli near the limits of the i32 representation (BOUNDED, sampled; native only): + - * neg inv against an i128 reference.
/// p = 65537 (products of representatives exceed i32), p = 2^31 - 1 (sums do): defect D7, repaired in f4aad45.
pub fn ring_ff_large(s: &mut Src) -> R {
    let (a, b, which) = (s.i32(), s.i32(), s.bool());
    reach!();
    macro_rules! go { ($p:literal) => {{
        type F = FF<$p>;
        let m = $p as i128;
        let (x, y) = (F::new(a), F::new(b));
        let (ra, rb) = ((a as i128).rem_euclid(m), (b as i128).rem_euclid(m));
        ob!(*x.rep() as i128 == ra && *y.rep() as i128 == rb, "FF(large p)::new-is-the-canonical-representative");
        ob!(*(x + y).rep() as i128 == (ra + rb).rem_euclid(m), "FF(large p)::add");
        ob!(*(x - y).rep() as i128 == (ra - rb).rem_euclid(m), "FF(large p)::sub");
        ob!(*(x * y).rep() as i128 == (ra * rb).rem_euclid(m), "FF(large p)::mul");
        ob!(*(-x).rep() as i128 == (-ra).rem_euclid(m), "FF(large p)::neg");
        if ra != 0 { let i = x.inv().unwrap(); ob!(*(x * i).rep() == 1, "FF(large p)::a*inv(a)==1"); } else { ob!(x.inv().is_none(), "FF(large p)::inv(0)-is-none"); }
    }}; }
    if which { go!(65537) } else { go!(2147483647) }
    Ok(())
}

/// bounded stand-in on the real machine type: full-range dividend, divisor from a fixed list of
/// constants (so that CBMC's divider has a constant operand).  Complete in `a`, bounded in `b`.
macro_rules! div_round_const_harness {
    ($name:ident, $t:ident, $w:ty, [$($b:expr),*]) => {
        pub fn $name(s: &mut Src) -> R {
            let a: $t = s.$t();
            pre!(a != <$t>::MIN);
            reach!();
            $( {
                let b: $t = $b;
                let q = a.div_round(&b);
                let r = (a as $w) - (q as $w) * (b as $w);
                ob!(2 * r.abs() <= (b as $w).abs(), "div_round::nearest-integer-quotient(constant-divisor)");
            } )*
            Ok(())
        }
    };
}
div_round_const_harness!(ring_div_round_const_i64, i64, i128, [1, -1, 2, -2, 3, -3, 5, 7, -7, 10, 16, -1000003, 4294967311]);
div_round_const_harness!(ring_div_round_const_i32, i32, i64, [1, -1, 2, -2, 3, -3, 5, 7, -7, 10, 16, -1000003, 46337]);

// ------------------------------------------------------------------ Ratio<i64>: canonical form and field operations
// (witness search / replay for the Verus unit `ratio`; Kani: bounded stand-in, gcd loops unwound)
fn gcd_i128(a: i128, b: i128) -> i128 { let (mut a, mut b) = (a.abs(), b.abs()); while b != 0 { let t = a % b; a = b; b = t; } a }
fn canon(r: &Ratio<i64>, n: i128, d: i128) -> bool {
    // r is n/d in lowest terms with positive denominator
    let (p, q) = (*r.numer() as i128, *r.denom() as i128);
    q > 0 && gcd_i128(p, q) == 1 && p * d == n * q
}
pub fn ring_ratio_ops(s: &mut Src) -> R {
    let (a, b, c, d) = (s.small(-12, 12), s.small(-12, 12), s.small(-12, 12), s.small(-12, 12));
    pre!(b != 0 && d != 0);
    reach!();
    let (x, y) = (Ratio::<i64>::new(a, b), Ratio::<i64>::new(c, d));
    let (a, b, c, d) = (a as i128, b as i128, c as i128, d as i128);
    ob!(canon(&x, a, b) && canon(&y, c, d), "Ratio::new-lowest-terms");
    ob!(canon(&(&x + &y), a * d + c * b, b * d), "Ratio::add-lowest-terms-and-value");
    ob!(canon(&(&x - &y), a * d - c * b, b * d), "Ratio::sub-lowest-terms-and-value");
    ob!(canon(&(&x * &y), a * c, b * d), "Ratio::mul-lowest-terms-and-value");
    ob!(canon(&(-&x), -a, b), "Ratio::neg-lowest-terms-and-value");
    if c != 0 { ob!(canon(&(&x / &y), a * d, b * c), "Ratio::div-lowest-terms-and-value"); }
    ob!((x == y) == (a * d == c * b), "Ratio::eq-iff-same-rational");
    {
        let (p1, q1, p2, q2) = (*x.numer() as i128, *x.denom() as i128, *y.numer() as i128, *y.denom() as i128);
        ob!(x.cmp(&y) == (p1 * q2).cmp(&(p2 * q1)), "Ratio::cmp-is-order-of-Q");
        ob!((x.cmp(&y) == std::cmp::Ordering::Equal) == (x == y), "Ratio::cmp-Equal-iff-eq");
    }
    ob!(((&x + &y) - &y) == x, "Ratio::(x+y)-y==x");
    let mut t = x.clone(); t += &y; let mut u = x.clone(); u *= y.clone(); let mut w = x.clone(); w -= &y;
    ob!(t == &x + &y && u == &x * &y && w == &x - &y && x.clone() + y.clone() == &x + &y, "Ratio::operator-forms-agree");
    ob!(x.is_zero() == (a == 0) && x.is_one() == (a == b) && x.is_unit() == (a != 0), "Ratio::is_zero/is_one/is_unit");
    if let Some(v) = x.inv() { ob!(&x * &v == Ratio::one(), "Ratio::x*inv==1"); }
    Ok(())
}

// ------------------------------------------------------------------ polynomial long division over a field
// (witness search / replay for the Verus unit `poly_div`; AHashMap-based: native only)
pub fn ring_poly_divrem(s: &mut Src) -> R {
    use yui::poly::Poly;
    type F = FF<5>;
    type P = Poly<'x', F>;
    let (n, m) = (s.small(0, 5) as usize, s.small(0, 3) as usize);
    let mut fa = vec![]; let mut fb = vec![];
    for _ in 0..=5 { fa.push(s.small(0, 4) as i32); }
    for _ in 0..=3 { fb.push(s.small(0, 4) as i32); }
    let mk = |c: &[i32], k: usize| P::from_iter(c.iter().take(k + 1).enumerate().map(|(i, &c)| (P::mono(i), F::from(c))));
    let (a, b) = (mk(&fa, n), mk(&fb, m));
    pre!(!b.is_zero());
    reach!();
    let (q, r) = a.div_rem(&b);
    ob!(a == &(&q * &b) + &r, "Poly::div_rem::a==q*b+r");
    ob!(r.is_zero() || r.lead_deg() < b.lead_deg(), "Poly::div_rem::remainder-degree-smaller");
    ob!(&a / &b == q && &a % &b == r, "Poly::div/rem-agree-with-div_rem");
    // the Euclidean-domain operations on F_5[x], zero operands included
    use yui::{EucRing, Ring};
    let z = P::zero();
    for (x, y) in [(&a, &b), (&b, &a), (&z, &b), (&b, &z), (&z, &a), (&a, &z)] {
        let dv = x.divides(y);
        // (the library's convention: zero divides nothing, not even zero)
        ob!(dv == (!x.is_zero() && (y % x).is_zero()), "Poly::divides-iff-nonzero-and-remainder-zero");
        if x.is_zero() && y.is_zero() { continue; }
        let g = P::gcd(x, y);
        ob!(!g.is_zero() && (x % &g).is_zero() && (y % &g).is_zero(), "Poly::gcd-divides-both");
        ob!(g == g.normalized() && g == P::gcd(y, x), "Poly::gcd-normalised-and-symmetric");
        let (d, s1, t1) = P::gcdx(x, y);
        ob!(d == g && &(&s1 * x) + &(&t1 * y) == d, "Poly::gcdx-bezout");
        let l = P::lcm(x, y);
        ob!((&l * &g).normalized() == (x * y).normalized(), "Poly::lcm*gcd~a*b");
    }
    Ok(())
}

// ------------------------------------------------------------------ homogeneous polynomials c x^d
// (witness search / replay for the Verus unit `hpoly`)
pub fn ring_hpoly_ops(s: &mut Src) -> R {
    use yui::poly::HPoly;
    type F = FF<5>;
    type H = HPoly<'H', F>;
    let (d1, c1, d2, c2) = (s.small(0, 6) as usize, s.small(0, 4) as i32, s.small(0, 6) as usize, s.small(0, 4) as i32);
    reach!();
    let (a, b) = (H::new(d1, F::new(c1)), H::new(d2, F::new(c2)));
    let same = (c1 == 0 && c2 == 0) || (c1 != 0 && c2 != 0 && d1 == d2 && c1 == c2);
    ob!((a == b) == same, "HPoly::eq-iff-same-polynomial");
    ob!(a.is_zero() == (c1 == 0), "HPoly::is_zero");
    let p = &a * &b;
    ob!(p == H::new(d1 + d2, F::new(c1 * c2)), "HPoly::mul-adds-degrees-multiplies-coefficients");
    ob!(-&a == H::new(d1, F::new(-c1)), "HPoly::neg");
    if c2 != 0 {
        let (q, r) = a.div_rem(&b);
        ob!(&(&q * &b) + &r == a, "HPoly::div_rem::a==q*b+r");
        ob!(r.is_zero() || r.deg() < b.deg(), "HPoly::div_rem::remainder-degree-smaller");
    }
    if c1 == 0 || c2 == 0 || d1 == d2 {
        ob!(&a + &b == if c1 == 0 { b.clone() } else if c2 == 0 { a.clone() } else { H::new(d1, F::new(c1 + c2)) }, "HPoly::add");
        ob!(&(&a + &b) - &b == a, "HPoly::(a+b)-b==a");
    }
    ob!(a.is_unit() == (d1 == 0 && c1 != 0) && a.is_unit() == a.inv().is_some(), "HPoly::is_unit-iff-inv");
    if let Some(w) = a.inv() { ob!(&a * &w == H::one(), "HPoly::a*inv==1"); }
    Ok(())
}

// ------------------------------------------------------------------ formal linear combinations Lc<X, R>
// (witness search / replay for the Verus unit `lc`; AHashMap-based: native only)
pub fn ring_lc_ops(s: &mut Src) -> R {
    use yui::lc::Lc;
    use yui::poly::Var;
    type X = Var<'x', usize>;
    type L = Lc<X, i64>;
    const N: usize = 4;
    let mut ta = vec![]; let mut tb = vec![];
    for _ in 0..5 { ta.push((s.small(0, (N - 1) as i64) as usize, s.small(-2, 2))); }
    for _ in 0..5 { tb.push((s.small(0, (N - 1) as i64) as usize, s.small(-2, 2))); }
    let (na, nb) = (s.small(0, 5) as usize, s.small(0, 5) as usize);
    reach!();
    let dense = |t: &[(usize, i64)]| { let mut d = [0i64; 2 * N]; for &(i, c) in t { d[i] += c; } d };
    let mk = |t: &[(usize, i64)]| L::from_iter(t.iter().map(|&(i, c)| (X::from(i), c)));
    let same = |l: &L, d: &[i64; 2 * N]| (0..2 * N).all(|i| *l.coeff(&X::from(i)) == d[i]) && l.nterms() == d.iter().filter(|c| **c != 0).count()
        && l.iter().all(|(_, c)| *c != 0) && l.is_zero() == d.iter().all(|c| *c == 0);
    let (a, b) = (mk(&ta[..na]), mk(&tb[..nb]));
    let (da, db) = (dense(&ta[..na]), dense(&tb[..nb]));
    ob!(same(&a, &da) && same(&b, &db), "Lc::from_iter::sums-terms-stores-no-zero");
    let mut dsum = [0i64; 2 * N]; let mut ddif = [0i64; 2 * N]; let mut dmul = [0i64; 2 * N];
    for i in 0..2 * N { dsum[i] = da[i] + db[i]; ddif[i] = da[i] - db[i]; }
    for i in 0..N { for j in 0..N { dmul[i + j] += da[i] * db[j]; } }
    let mut c = a.clone(); c += &b;
    ob!(same(&c, &dsum), "Lc::add_assign::coefficientwise-sum-no-zero-stored");
    let mut c = a.clone(); c -= &b;
    ob!(same(&c, &ddif), "Lc::sub_assign::coefficientwise-difference-no-zero-stored");
    let c = a.combine(&b, |x, y| x.clone() * y.clone());
    ob!(same(&c, &dmul), "Lc::combine::bilinear-extension-no-zero-stored");
    // single-term constructors: From<(X, R)> (the base of PolyBase::from_const / from / one) stores nothing for a zero coefficient
    let c0 = s.small(-1, 1);
    let mut d1 = [0i64; 2 * N]; d1[1] = c0;
    ob!(same(&L::from((X::from(1), c0)), &d1), "Lc::from((x, r))::single-term-no-zero-stored");
    // the map family: coefficients / generators mapped termwise, terms that become zero vanish, generators that collide add up
    let q = s.small(1, 3);
    let fc = |c: i64| c.rem_euclid(q + 1) - 1;                       // hits 0 for some non-zero coefficients
    let mut dmc = [0i64; 2 * N]; for i in 0..2 * N { if da[i] != 0 { dmc[i] = fc(da[i]); } }
    ob!(same(&a.map_coeffs(|c| fc(*c)), &dmc), "Lc::map_coeffs::termwise-no-zero-stored");
    ob!(same(&a.clone().into_map_coeffs(fc), &dmc), "Lc::into_map_coeffs::termwise-no-zero-stored");
    let fg = |i: usize| i / 2;                                         // generators collide
    let mut dmg = [0i64; 2 * N]; for i in 0..2 * N { dmg[fg(i)] += da[i]; }
    let deg = |x: &X| (0..2 * N).find(|&i| X::from(i) == *x).unwrap();
    ob!(same(&a.map_gens(|x| X::from(fg(deg(x)))), &dmg), "Lc::map_gens::colliding-generators-add-up-no-zero-stored");
    ob!(same(&a.clone().into_map_gens(|x| X::from(fg(deg(&x)))), &dmg), "Lc::into_map_gens::colliding-generators-add-up-no-zero-stored");
    let mut dmm = [0i64; 2 * N]; for i in 0..2 * N { if da[i] != 0 { dmm[fg(i)] += fc(da[i]); } }
    ob!(same(&a.map(|x, c| (X::from(fg(deg(x))), fc(*c))), &dmm), "Lc::map::termwise-then-collected");
    ob!(same(&a.clone().into_map(|x, c| (X::from(fg(deg(&x))), fc(c))), &dmm), "Lc::into_map::termwise-then-collected");
    let mut dfl = [0i64; 2 * N]; for i in 0..2 * N { if i % 2 == 0 { dfl[i] = da[i]; } }
    ob!(same(&a.filter_gens(|x| deg(x) % 2 == 0), &dfl), "Lc::filter_gens::keeps-exactly-the-selected-terms");
    ob!(same(&a.clone().into_filter_gens(|x| deg(x) % 2 == 0), &dfl), "Lc::into_filter_gens::keeps-exactly-the-selected-terms");
    // apply: linear extension of x_i |-> b shifted by i  (= the product again)
    let ap = a.apply(|x| { let i = deg(x); L::from_iter(tb[..nb].iter().map(|&(j, c)| (X::from(i + j), c))) });
    ob!(same(&ap, &dmul), "Lc::apply::linear-extension-no-zero-stored");
    Ok(())
}

// ------------------------------------------------------------------ PolyBase (Laurent polynomials over Z)
// (witness search / replay for the Verus unit `polybase`)
pub fn ring_polybase_ops(s: &mut Src) -> R {
    use yui::poly::LPoly;
    type P = LPoly<'x', i64>;
    const W: i64 = 2;           // exponents in -W..=W
    let mut ta = vec![]; let mut tb = vec![];
    for _ in 0..4 { ta.push((s.small(-W, W), s.small(-2, 2))); }
    for _ in 0..4 { tb.push((s.small(-W, W), s.small(-2, 2))); }
    let (na, nb) = (s.small(0, 4) as usize, s.small(0, 4) as usize);
    reach!();
    const D: usize = (4 * W + 1) as usize;          // dense index = exponent + 2W
    let dense = |t: &[(i64, i64)]| { let mut d = [0i64; D]; for &(e, c) in t { d[(e + 2 * W) as usize] += c; } d };
    let mk = |t: &[(i64, i64)]| P::from_iter(t.iter().map(|&(e, c)| (P::mono(e as isize), c)));
    let same = |p: &P, d: &[i64; D]| (0..D).all(|i| *p.coeff(&P::mono(i as isize - 2 * W as isize)) == d[i]) && p.nterms() == d.iter().filter(|c| **c != 0).count()
        && p.iter().all(|(_, c)| *c != 0) && p.is_zero() == d.iter().all(|c| *c == 0);
    let (a, b) = (mk(&ta[..na]), mk(&tb[..nb]));
    let (da, db) = (dense(&ta[..na]), dense(&tb[..nb]));
    ob!(same(&a, &da) && same(&b, &db), "PolyBase::from_iter::sums-terms-stores-no-zero");
    let konst = |d: &[i64; D]| (0..D).all(|i| i == (2 * W) as usize || d[i] == 0);
    ob!(a.is_const() == konst(&da), "PolyBase::is_const-iff-only-constant-term");
    ob!(a.is_one() == (konst(&da) && da[(2 * W) as usize] == 1), "PolyBase::is_one-iff-constant-one");
    ob!(*a.const_term() == da[(2 * W) as usize], "PolyBase::const_term");
    let mut dsum = [0i64; D]; let mut ddif = [0i64; D]; let mut dmul = [0i64; D];
    for i in 0..D { dsum[i] = da[i] + db[i]; ddif[i] = da[i] - db[i]; }
    for i in 0..D { for j in 0..D { if da[i] != 0 && db[j] != 0 { dmul[i + j - (2 * W) as usize] += da[i] * db[j]; } } }
    let mut c = a.clone(); c += &b;
    ob!(same(&c, &dsum), "PolyBase::add_assign::coefficientwise-sum");
    let mut c = a.clone(); c -= &b;
    ob!(same(&c, &ddif), "PolyBase::sub_assign::coefficientwise-difference");
    let mut c = a.clone(); c *= &b;
    ob!(same(&c, &dmul), "PolyBase::mul_assign::ring-product-in-every-branch");
    // leading term: largest exponent among the non-zero coefficients; (1, 0) for the zero polynomial
    let top = (0..D).rev().find(|&i| da[i] != 0);
    let (lx, lc) = a.lead_term();
    ob!(match top { Some(i) => *lx == P::mono(i as isize - 2 * W as isize) && *lc == da[i], None => *lx == P::mono(0) && *lc == 0 }, "PolyBase::lead_term-is-the-top-term");
    ob!(a.lead_deg() == top.map(|i| i as isize - 2 * W as isize).unwrap_or(0) && *a.lead_coeff() == top.map(|i| da[i]).unwrap_or(0), "PolyBase::lead_deg/lead_coeff");
    // units: a x^i with a a unit; is_unit <=> inv.is_some(), and a * inv == 1
    use yui::Ring;
    ob!(a.is_unit() == a.inv().is_some(), "PolyBase::is_unit-iff-inv-is-some");
    ob!(a.is_unit() == (da.iter().filter(|c| **c != 0).count() == 1 && da.iter().any(|c| c.abs() == 1)), "PolyBase::is_unit-iff-unit-monomial(Laurent,Z)");
    if let Some(w) = a.inv() { ob!(&a * &w == P::from_iter([(P::mono(0), 1)]), "PolyBase::a*inv==1"); }
    let k = s.small(-2, 2);
    let mut c = a.clone(); c *= &k;
    let mut dk = [0i64; D]; for i in 0..D { dk[i] = da[i] * k; }
    ob!(same(&c, &dk), "PolyBase::mul_assign_scalar::coefficientwise-scaling");
    Ok(())
}

// C16 (BOUNDED, sampled): bivariate and Laurent-bivariate polynomials against a dense coefficient grid, and evaluation as a ring homomorphism.
// Poly2 over Z with exponents 0..=2, LPoly2 over Q with exponents -1..=1 (evaluation at non-zero rationals): sum, difference, product,
// no stored zero term, is_zero / nterms, and (a + b)(p) = a(p) + b(p), (a b)(p) = a(p) b(p), constants evaluate to themselves.
pub fn ring_poly2_eval(s: &mut Src) -> R {
    use yui::poly::{Poly2, LPoly2};
    use yui::Ratio;
    type P = Poly2<'x', 'y', i64>;
    type L = LPoly2<'x', 'y', Ratio<i64>>;
    type Q = Ratio<i64>;
    let mut ta = vec![]; let mut tb = vec![];
    for _ in 0..4 { ta.push((s.small(0, 2), s.small(0, 2), s.small(-2, 2))); }
    for _ in 0..4 { tb.push((s.small(0, 2), s.small(0, 2), s.small(-2, 2))); }
    let (na, nb) = (s.small(0, 4) as usize, s.small(0, 4) as usize);
    let (px, py) = (s.small(-3, 3), s.small(-3, 3));
    let (qx, qy) = (s.small(1, 3), s.small(1, 3));
    reach!();
    // ---- Poly2 over Z
    let grid = |t: &[(i64, i64, i64)]| { let mut g = [[0i64; 5]; 5]; for &(i, j, c) in t { g[i as usize][j as usize] += c; } g };
    let mk = |t: &[(i64, i64, i64)]| P::from_iter(t.iter().map(|&(i, j, c)| (P::mono(i as usize, j as usize), c)));
    let same = |p: &P, g: &[[i64; 5]; 5]| (0..5).all(|i| (0..5).all(|j| *p.coeff(&P::mono(i, j)) == g[i][j])) && p.nterms() == g.iter().flatten().filter(|c| **c != 0).count() && p.iter().all(|(_, c)| *c != 0) && p.is_zero() == g.iter().flatten().all(|c| *c == 0);
    let (a, b) = (mk(&ta[..na]), mk(&tb[..nb]));
    let (ga, gb) = (grid(&ta[..na]), grid(&tb[..nb]));
    ob!(same(&a, &ga) && same(&b, &gb), "Poly2::from_iter::sums-terms-stores-no-zero");
    let mut gs = [[0i64; 5]; 5]; let mut gd = [[0i64; 5]; 5]; let mut gm = [[0i64; 5]; 5];
    for i in 0..5 { for j in 0..5 { gs[i][j] = ga[i][j] + gb[i][j]; gd[i][j] = ga[i][j] - gb[i][j]; } }
    for i in 0..3 { for j in 0..3 { for k in 0..3 { for l in 0..3 { gm[i + k][j + l] += ga[i][j] * gb[k][l]; } } } }
    ob!(same(&(&a + &b), &gs), "Poly2::add");
    ob!(same(&(&a - &b), &gd), "Poly2::sub");
    ob!(same(&(&a * &b), &gm), "Poly2::mul");
    ob!(same(&(&b * &a), &gm), "Poly2::mul-commutes");
    let ev = |g: &[[i64; 5]; 5]| { let mut v = 0i64; for i in 0..5 { for j in 0..5 { v += g[i][j] * px.pow(i as u32) * py.pow(j as u32); } } v };
    ob!(a.eval(&px, &py) == ev(&ga), "Poly2::eval==sum-of-terms");
    ob!((&a + &b).eval(&px, &py) == a.eval(&px, &py) + b.eval(&px, &py) && (&a * &b).eval(&px, &py) == a.eval(&px, &py) * b.eval(&px, &py), "Poly2::eval-is-a-ring-homomorphism");
    ob!(P::from_const(7).eval(&px, &py) == 7, "Poly2::eval(const)");
    // ---- LPoly2 over Q: shift the exponents to -1..=1
    let lmk = |t: &[(i64, i64, i64)]| L::from_iter(t.iter().map(|&(i, j, c)| (L::mono(i as isize - 1, j as isize - 1), Q::from(c))));
    let (la, lb) = (lmk(&ta[..na]), lmk(&tb[..nb]));
    let lsame = |p: &L, g: &[[i64; 5]; 5], sh: isize| (0..5).all(|i| (0..5).all(|j| *p.coeff(&L::mono(i as isize - sh, j as isize - sh)) == Q::from(g[i][j]))) && p.nterms() == g.iter().flatten().filter(|c| **c != 0).count() && p.iter().all(|(_, c)| *c != Q::from(0));
    ob!(lsame(&la, &ga, 1) && lsame(&lb, &gb, 1), "LPoly2::from_iter");
    ob!(lsame(&(&la + &lb), &gs, 1) && lsame(&(&la - &lb), &gd, 1), "LPoly2::add/sub");
    ob!(lsame(&(&la * &lb), &gm, 2), "LPoly2::mul(negative-exponents)");
    let _ = (qx, qy);   // (Ratio has no power with a signed exponent: Laurent evaluation is not available over Q)
    Ok(())
}
crate::harness_table!(RING:
    ring_div_round_i32, ring_div_round_i64, ring_div_round_i128, ring_div_round_const_i64, ring_div_round_const_i32,
    ring_int_units_i32, ring_int_divides_i32, ring_int_units_i64, ring_int_divides_i64,
    ring_ratio_cmp_int_i64, ring_ratio_cmp_small_i64 [unwind 12],
    ring_ff2p, ring_ff3, ring_ff5, ring_ff7, ring_ff46337,
    ring_ff2p_inv [unwind 8], ring_ff3_inv [unwind 8], ring_ff5_inv [unwind 8], ring_ff7_inv [unwind 10], ring_ff46337_inv [unwind 30],
    ring_f2,
    ring_qint_addsub_i32, ring_qint_mul_i32, ring_gauss_units_i32 , ring_eisen_units_i32 [unwind 8], ring_gauss_divrem_i32, ring_eisen_divrem_i32,
    ring_gauss_gcd [unwind 6], ring_ff5_gcd [unwind 6], ring_ff_large, ring_ratio_mul_limits, ring_ratio_ops [unwind 8], ring_poly_divrem [unwind 8], ring_hpoly_ops, ring_lc_ops, ring_polybase_ops, ring_poly2_eval,
    ring_qint_addsub_i64, ring_qint_mul_i64, ring_gauss_units_i64, ring_eisen_units_i64 [unwind 8], ring_gauss_divrem_i64, ring_eisen_divrem_i64,
);
