// Contract overlay for ComputeHomology::compute_homology_at (yui-homology/src/abst/homology.rs): the homology of a chain complex at
// degree i is computed from the differential INTO degree i (d_{i - deg}) and the one OUT of it (d_i), in that order.  Property C07;
// HomologyCalc::calculate enters by the contract proved in unit hcalc (//@contract-of).
use vstd::prelude::*;
verus! {
//@include prelude/rt.rs
//@include prelude/er.rs
//@include prelude/bx.rs
//@source yui-homology/src/abst/homology.rs
//@include units/hcalc/model.inc

impl HomologyCalc {
//@contract-of units/hcalc/contract.rs calculate variant=B
}

/// a grading (I: GridDeg) and a chain complex seen through d_deg() and d_matrix(i) (ChainComplexTrait; ASSUMED accessors)
#[derive(Clone, Copy)]
pub struct Deg { pub g: Ghost<int> }
pub fn dsub_(a: Deg, b: Deg) -> (r: Deg) ensures r.g@ == a.g@ - b.g@ { Deg { g: Ghost(a.g@ - b.g@) } }
pub fn dadd_(a: Deg, b: Deg) -> (r: Deg) ensures r.g@ == a.g@ + b.g@ { Deg { g: Ghost(a.g@ + b.g@) } }
pub struct Cx { pub deg: Ghost<int>, pub d: Ghost<Map<int, int>>, pub groups: Ghost<Map<int, SummandV>> }
/// ghost content of a chain group: its raw generators and its coordinate transform
pub struct SummandV { pub gens: Seq<int>, pub f: int, pub b: int }
impl Cx {
    #[verifier::external_body] pub fn d_deg(&self) -> (r: Deg) ensures r.g@ == self.deg@ { unimplemented!() }
    /// Index<I> for ChainComplexBase: the chain group in degree i
    #[verifier::external_body] pub fn index(&self, i: Deg) -> (r: &Summand) ensures r.raw_gens.g@ == self.groups@[i.g@].gens, r.trans.f@ == self.groups@[i.g@].f, r.trans.b@ == self.groups@[i.g@].b { unimplemented!() }
    #[verifier::external_body] pub fn d_matrix(&self, i: Deg) -> (r: SpMat) ensures r.m@ == self.d@[i.g@] { unimplemented!() }
}
/// GenericSummand::generate (ASSUMED: stores what it is given)
pub struct GenericSummand { pub i: Ghost<int>, pub rank: usize, pub tors: Vec<ER>, pub trans: Option<Trans> }
impl GenericSummand {
    #[verifier::external_body] pub fn generate(i: Deg, rank: usize, tors: Vec<ER>, trans: Option<Trans>) -> (r: GenericSummand)
        ensures r.i@ == i.g@, r.rank == rank, r.tors@ == tors@, r.trans == trans { unimplemented!() }
}

/// what compute_homology_at(i, with_trans) returns
pub open spec fn cha_post(cx: Cx, i: Deg, with_trans: bool, h: GenericSummand) -> bool {
            let (d_in, d_out) = (cx.d@[i.g@ - cx.deg@], cx.d@[i.g@]);
            &&& h.i@ == i.g@ && h.trans.is_some() == with_trans
            &&& with_trans ==> trans_ok(h.trans.unwrap().f@, h.trans.unwrap().b@, d_in, d_out, h.rank as int, h.tors@.len() as int)
            &&& (d_in == mzero(nr(d_in), nc(d_in)) && d_out == mzero(nr(d_out), nc(d_out))) ==> (h.rank == nr(d_in) && h.tors@.len() == 0)
            &&& !(d_in == mzero(nr(d_in), nc(d_in)) && d_out == mzero(nr(d_out), nc(d_out))) ==> exists|s1: SnfResult, s2: SnfResult|
                    #![trigger linked(s1, s2, d_out)]
                    linked(s1, s2, d_out) && s1.a@ == d_in && h.rank == nr(d_in) - s1.r@ - s2.r@ && h.tors@.len() == nonunits(s1.diag@, s1.r@).len()
                    && forall|k: int| 0 <= k < h.tors@.len() ==> (#[trigger] h.tors@[k]).v() == nonunits(s1.diag@, s1.r@)[k]
        }
/// IndexList<X> (the raw generators of a chain group), by its abstract content
pub struct IndexList { pub g: Ghost<Seq<int>> }
impl IndexList { #[verifier::external_body] pub fn clone(&self) -> (r: IndexList) ensures r.g@ == self.g@ { unimplemented!() } }
/// a chain group / homology group with generators: conc::Summand (ASSUMED: `new` stores what it is given -- its two dimension asserts are not modelled)
pub struct Summand { pub raw_gens: IndexList, pub rank: usize, pub tors: Vec<ER>, pub trans: Trans }
impl Summand {
    #[verifier::external_body] pub fn new(raw_gens: IndexList, rank: usize, tors: Vec<ER>, trans: Trans) -> (r: Summand)
        ensures r.raw_gens.g@ == raw_gens.g@, r.rank == rank, r.tors@ == tors@, r.trans == trans { unimplemented!() }
    #[verifier::external_body] pub fn raw_gens(&self) -> (r: &IndexList) ensures r.g@ == self.raw_gens.g@ { unimplemented!() }
    /// (not used by the current body; modelled so that shortcuts through them are decided rather than rejected as unknown)
    #[verifier::external_body] pub fn rank(&self) -> (r: usize) ensures r == self.rank { unimplemented!() }
    #[verifier::external_body] pub fn zero() -> (r: Summand) ensures r.raw_gens.g@.len() == 0, r.rank == 0, r.tors@.len() == 0, r.trans.f@ == mid(0), r.trans.b@ == mid(0) { unimplemented!() }
    #[verifier::external_body] pub fn trans(&self) -> (r: &Trans) ensures *r == self.trans { unimplemented!() }
}
impl GenericSummand {
    #[verifier::external_body] pub fn rank(&self) -> (r: usize) ensures r == self.rank { unimplemented!() }
    #[verifier::external_body] pub fn tors(&self) -> (r: &Vec<ER>) ensures r@ == self.tors@ { unimplemented!() }
    /// (GenericSummand::generate turns a missing transform into the identity; here it is always present)
    #[verifier::external_body] pub fn trans(&self) -> (r: &Trans) requires self.trans.is_some() ensures *r == self.trans.unwrap() { unimplemented!() }
}
impl Trans {
    /// proved in unit trans: composition
    #[verifier::external_body] pub fn merged(&self, other: &Trans) -> (r: Trans) ensures r.f@ == mmul(other.f@, self.f@), r.b@ == mmul(self.b@, other.b@) { unimplemented!() }
}
#[verifier::external_body] pub fn vec_cloned_(v: &Vec<ER>) -> (r: Vec<ER>) ensures r@.len() == v@.len(), forall|k: int| 0 <= k < v@.len() ==> (#[trigger] r@[k]).v() == v@[k].v() { unimplemented!() }
impl Cx {
    pub fn compute_homology_at(&self, i: Deg, with_trans: bool) -> (h: GenericSummand)
        requires nr(self.d@[i.g@ - self.deg@]) == nc(self.d@[i.g@]),      // consecutive differentials compose
        ensures cha_post(*self, i, with_trans, h),
    //@body impl/ComputeHomology@C/compute_homology_at ring=1 q=i,d_deg qname=d
    //@+ sig
    //@| fn compute_homology_at(&self, i: I, with_trans: bool) -> GenericSummand<I, R>
    //@+ pre-raw
    //@| let ghost (d_in, d_out) = (self.d@[i.g@ - self.deg@], self.d@[i.g@]);
    //@+ after-let-raw rank
    //@| let ghost (grank, gtors) = (rank, tors@);
    //@+ after-let h
    //@| if !(d_in == mzero(nr(d_in), nc(d_in)) && d_out == mzero(nr(d_out), nc(d_out))) {
    //@|     let (s1, s2) = choose|s1: SnfResult, s2: SnfResult| #![trigger linked(s1, s2, d_out)]
    //@|         linked(s1, s2, d_out) && s1.a@ == d_in && grank == nr(d_in) - s1.r@ - s2.r@ && gtors.len() == nonunits(s1.diag@, s1.r@).len()
    //@|         && forall|k: int| 0 <= k < gtors.len() ==> (#[trigger] gtors[k]).v() == nonunits(s1.diag@, s1.r@)[k];
    //@|     assert(linked(s1, s2, d_out) && h.rank == nr(d_in) - s1.r@ - s2.r@ && h.tors@.len() == nonunits(s1.diag@, s1.r@).len());
    //@|     assert forall|k: int| 0 <= k < h.tors@.len() implies (#[trigger] h.tors@[k]).v() == nonunits(s1.diag@, s1.r@)[k] by { assert(h.tors@[k] == gtors[k]); }
    //@| }

    /// the homology group in degree i WITH its generators: all raw generators of the chain group C_i (also when C_i has rank 0 after a
    /// reduction), rank and torsion of compute_homology_at(i, true), coordinates = (homology coordinates) o (chain-group coordinates)
    pub fn homology_at(&self, i: Deg) -> (r: Summand)
        requires nr(self.d@[i.g@ - self.deg@]) == nc(self.d@[i.g@]),
        ensures r.raw_gens.g@ == self.groups@[i.g@].gens,
            exists|h: GenericSummand| #[trigger] cha_post(*self, i, true, h) && r.rank == h.rank && r.tors@.len() == h.tors@.len()
                && (forall|k: int| 0 <= k < h.tors@.len() ==> (#[trigger] r.tors@[k]).v() == h.tors@[k].v())
                && r.trans.f@ == mmul(h.trans.unwrap().f@, self.groups@[i.g@].f) && r.trans.b@ == mmul(self.groups@[i.g@].b, h.trans.unwrap().b@),
    //@body impl/ChainComplexBase/homology_at for_iter=1 index1=self source=yui-homology/src/conc/homology.rs
    //@+ sig
    //@| fn homology_at(&self, i: I) -> Summand<X, R>
    //@+ after-let-raw h
    //@| let ghost gh = h;
    //@+ post
    //@| assert(cha_post(*self, i, true, gh));
}

} // verus!
fn main() {}
