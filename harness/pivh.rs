// C11 (pivot search) — sampled end-to-end test on the real crate of the parts the Verus unit `pivot` ASSUMES
// (MatrixStr::new, remain_rows, occupied_cols, the rayon / thread-local dispatcher, result + top_sort, perm_for_indices):
// small sparse integer matrices, both pivot types, all three pivot conditions, the default (multithreaded) build.
// A bounded stand-in: one schedule per run, never counted as proved.
use super::src::*;
use crate::{ob, pre, reach};
use yui_matrix::sparse::SpMat;
use yui_matrix::sparse::pivot::{find_pivots, perms_by_pivots, PivotType, PivotCondition};
use yui_matrix::MatTrait;

pub fn piv_small(s: &mut Src) -> R {
    let m = s.small(1, 7) as usize;
    let n = s.small(1, 7) as usize;
    let mut data = vec![0i64; m * n];
    for x in data.iter_mut() {
        // sparse: about half of the positions empty, entries in -3..=3
        let k = s.small(-6, 6);
        *x = if k.abs() > 3 { 0 } else { k };
    }
    let t = s.small(0, 1);
    let c = s.small(0, 4);
    reach!();
    let a = SpMat::from_dense_data((m, n), data.clone());
    let piv_type = if t == 0 { PivotType::Rows } else { PivotType::Cols };
    // (over Z a unit of weight <= w is +-1 for every w >= 1: a larger bound must not admit the non-units 2, 3)
    let cond = match c { 0 => PivotCondition::One, 1 => PivotCondition::AnyUnit, 2 => PivotCondition::Weight(1.0), 3 => PivotCondition::Weight(2.0), _ => PivotCondition::Weight(3.5) };
    let pivs = find_pivots(&a, piv_type, cond);
    let r = pivs.len();
    for (k, &(i, j)) in pivs.iter().enumerate() {
        ob!(i < m && j < n, "find_pivots::positions-in-range");
        let x = data[i * n + j];
        ob!(x == 1 || x == -1, "find_pivots::entry-satisfies-the-condition");
        for &(i2, j2) in &pivs[k + 1..] {
            ob!(i != i2, "find_pivots::rows-distinct");
            ob!(j != j2, "find_pivots::cols-distinct");
        }
    }
    let (p, q) = perms_by_pivots(&a, &pivs);
    let b = a.permute(p.view(), q.view()).into_dense();
    for i in 0..r {
        ob!(b[(i, i)] == 1 || b[(i, i)] == -1, "perms_by_pivots::pivots-on-the-diagonal");
        ob!(b[(i, i)] == data[pivs[i].0 * n + pivs[i].1], "perms_by_pivots::diagonal-in-list-order");
        for j in 0..r {
            let off = match piv_type { PivotType::Rows => i > j, PivotType::Cols => i < j };
            if off { ob!(b[(i, j)] == 0, "find_pivots::leading-block-triangular"); }
        }
    }
    Ok(())
}


// C11: the ASSUMED contract of yui::algo::top_sort (used by PivotFinder::result): on a graph given as (vertex, successors) it returns
// Ok(order) exactly when the graph is acyclic (and every successor is a key); then the order lists every vertex once with each vertex before
// its successors.  Graphs on up to 6 vertices, vertex names scattered, duplicate edges allowed.  Sampled, bounded.
pub fn piv_top_sort_small(s: &mut Src) -> R {
    use yui::algo::top_sort;
    let n = s.small(0, 6) as usize;
    let mut adj = vec![vec![false; 6]; 6];
    let mut dup = vec![vec![false; 6]; 6];
    for i in 0..6 { for j in 0..6 { let x = s.small(0, 9); adj[i][j] = x < 3; dup[i][j] = x == 0; } }
    let shift = s.small(0, 3) as usize;
    reach!();
    let name = |i: usize| 10 + 7 * ((i + shift) % 6);           // scattered, distinct names
    let tree: Vec<(usize, Vec<usize>)> = (0..n).map(|i| {
        let mut l = vec![];
        for j in 0..n { if adj[i][j] { l.push(name(j)); if dup[i][j] { l.push(name(j)); } } }
        (name(i), l)
    }).collect();
    // acyclic <=> repeatedly removing vertices without incoming edges removes everything
    let mut alive = vec![true; n]; let mut left = n;
    loop { let mut progress = false; for j in 0..n { if alive[j] && !(0..n).any(|i| alive[i] && adj[i][j]) { alive[j] = false; left -= 1; progress = true; } } if !progress { break; } }
    let acyclic = left == 0;
    let res = top_sort(tree.clone());
    ob!(res.is_ok() == acyclic, "top_sort::Ok<=>acyclic");
    if let Ok(order) = res {
        ob!(order.len() == n, "top_sort::every-vertex-once(len)");
        for i in 0..n { ob!(order.iter().filter(|&&x| x == name(i)).count() == 1, "top_sort::every-vertex-once"); }
        let pos = |x: usize| order.iter().position(|&y| y == x).unwrap();
        for i in 0..n { for j in 0..n { if adj[i][j] { ob!(pos(name(i)) < pos(name(j)), "top_sort::vertex-before-its-successors"); } } }
    }
    Ok(())
}

crate::harness_table!(PIV: piv_small, piv_top_sort_small);
