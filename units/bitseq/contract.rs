// Contract overlay for yui/src/misc/bitseq.rs  (property C17)
// Function bodies are spliced from /repo on every run by vextract (//@body, //@item lines).
// Postconditions are the property statement: every operation returns what the same
// operation returns on a plain list of booleans (view `Seq<bool>`), for lengths 0..=64,
// and returns only well-formed values (variant A: for every argument; variant B: valid
// arguments are not rejected).
use vstd::prelude::*;
verus! {
//@include prelude/rt.rs
//@source yui/src/misc/bitseq.rs

// ---------------------------------------------------------------- specification
pub open spec fn bitu(v: u64, j: u64) -> bool { ((v >> j) & 1u64) == 1u64 }
pub open spec fn bit(v: u64, j: int) -> bool { 0 <= j < 64 && bitu(v, j as u64) }
/// "val fits in n bits"
pub open spec fn hi_zero(v: u64, n: int) -> bool { n >= 64 || (0 <= n && (v >> (n as u64)) == 0u64) }
/// number of set bits below position n
pub open spec fn cnt(v: u64, n: nat) -> nat
    decreases n
{ if n == 0 { 0 } else { cnt(v, (n - 1) as nat) + if bit(v, n - 1) { 1nat } else { 0nat } } }

#[derive(PartialEq, Eq, Structural, Clone, Copy)]
//@item enum/Bit
impl Bit {
    pub open spec fn b(&self) -> bool { *self == Bit::Bit1 }
}

#[derive(PartialEq, Eq, Structural, Clone, Copy)]
//@item struct/BitSeq

impl View for BitSeq {
    type V = Seq<bool>;
    open spec fn view(&self) -> Seq<bool> { Seq::new(self.len as nat, |j: int| bit(self.val, j)) }
}
impl BitSeq {
    pub open spec fn wf(&self) -> bool { self.len <= 64 && hi_zero(self.val, self.len as int) }
}

// std contract assumed (TRUSTED): u64::reverse_bits mirrors the 64 bit positions
pub uninterp spec fn rev64(v: u64) -> u64;
pub assume_specification[ u64::reverse_bits ](v: u64) -> (r: u64)
    ensures r == rev64(v), forall|j: u64| j < 64 ==> #[trigger] bitu(r, j) == bitu(v, (63 - j) as u64);

// ---------------------------------------------------------------- bit-vector lemmas
proof fn lemma_shl_ge1(n: u64) by (bit_vector)
    requires n < 64
    ensures (1u64 << n) >= 1u64
{}
proof fn lemma_mask_bit(n: u64, j: u64) by (bit_vector)
    requires n < 64, j < 64
    ensures (((((1u64 << n) - 1u64) as u64) >> j) & 1u64 == 1u64) == (j < n)
{}
proof fn lemma_mask_hi(n: u64) by (bit_vector)
    requires n < 64
    ensures ((((1u64 << n) - 1u64) as u64) >> n) == 0u64
{}
proof fn lemma_max_bit(j: u64) by (bit_vector)
    requires j < 64
    ensures ((0xffff_ffff_ffff_ffffu64 >> j) & 1u64) == 1u64
{}
proof fn lemma_le_mask(v: u64, n: u64) by (bit_vector)
    requires n < 64
    ensures (v <= (((1u64 << n) - 1u64) as u64)) == ((v >> n) == 0u64)
{}
proof fn lemma_hi_bit(v: u64, n: u64, j: u64) by (bit_vector)
    requires n <= j, j < 64, (v >> n) == 0u64
    ensures ((v >> j) & 1u64) == 0u64
{}
proof fn lemma_zero_shr(n: u64) by (bit_vector)
    requires n < 64
    ensures (0u64 >> n) == 0u64
{}
proof fn lemma_zero_bit(j: u64) by (bit_vector)
    requires j < 64
    ensures ((0u64 >> j) & 1u64) == 0u64
{}
proof fn lemma_and_bit(v: u64, m: u64, j: u64) by (bit_vector)
    requires j < 64
    ensures (((v & m) >> j) & 1u64 == 1u64) == (((v >> j) & 1u64 == 1u64) && ((m >> j) & 1u64 == 1u64))
{}
proof fn lemma_and_hi(v: u64, m: u64, n: u64) by (bit_vector)
    requires n < 64, (m >> n) == 0u64
    ensures ((v & m) >> n) == 0u64
{}
proof fn lemma_and_hi2(v: u64, m: u64, n: u64) by (bit_vector)
    requires n < 64, (v >> n) == 0u64
    ensures ((v & m) >> n) == 0u64
{}
proof fn lemma_hi_mono(v: u64, n: u64, m: u64) by (bit_vector)
    requires n <= m, m < 64, (v >> n) == 0u64
    ensures (v >> m) == 0u64
{}
proof fn lemma_bit01(v: u64, i: u64) by (bit_vector)
    requires i < 64
    ensures ((v >> i) & 1u64) == 0u64 || ((v >> i) & 1u64) == 1u64
{}
proof fn lemma_clear_bit(v: u64, i: u64, j: u64) by (bit_vector)
    requires i < 64, j < 64
    ensures ((((v & !(1u64 << i)) >> j) & 1u64) == 1u64) == (j != i && ((v >> j) & 1u64) == 1u64)
{}
proof fn lemma_set_bit(v: u64, i: u64, j: u64) by (bit_vector)
    requires i < 64, j < 64
    ensures ((((v | (1u64 << i)) >> j) & 1u64) == 1u64) == (j == i || ((v >> j) & 1u64) == 1u64)
{}
proof fn lemma_clear_hi(v: u64, i: u64, n: u64) by (bit_vector)
    requires i < 64, n < 64, (v >> n) == 0u64
    ensures ((v & !(1u64 << i)) >> n) == 0u64
{}
proof fn lemma_set_hi(v: u64, i: u64, n: u64) by (bit_vector)
    requires i < n, n < 64, (v >> n) == 0u64
    ensures ((v | (1u64 << i)) >> n) == 0u64
{}
proof fn lemma_append_bit(v: u64, w: u64, n: u64, j: u64) by (bit_vector)
    requires n < 64, j < 64, (v >> n) == 0u64
    ensures ((((v | (w << n)) >> j) & 1u64) == 1u64)
        == (if j < n { ((v >> j) & 1u64) == 1u64 } else { ((w >> ((j - n) as u64)) & 1u64) == 1u64 })
{}
proof fn lemma_append_hi(v: u64, w: u64, n: u64, m: u64) by (bit_vector)
    requires n < 64, m < 64, n + m < 64, (v >> n) == 0u64, (w >> m) == 0u64
    ensures ((v | (w << n)) >> ((n + m) as u64)) == 0u64
{}
// remove: a = v & !mask(i+1); b = v & mask(i); a >> 1 | b
proof fn lemma_remove_bit(v: u64, i: u64, j: u64) by (bit_vector)
    requires i < 63, j < 64
    ensures ({
        let m1 = ((1u64 << ((i + 1) as u64)) - 1u64) as u64;
        let m0 = ((1u64 << i) - 1u64) as u64;
        let w = ((v & !m1) >> 1u64) | (v & m0);
        (((w >> j) & 1u64) == 1u64)
            == (if j < i { ((v >> j) & 1u64) == 1u64 } else if j < 63 { ((v >> ((j + 1) as u64)) & 1u64) == 1u64 } else { false })
    })
{}
proof fn lemma_remove_bit_last(v: u64, j: u64) by (bit_vector)
    requires j < 64
    ensures ({
        let m1 = 0xffff_ffff_ffff_ffffu64;
        let m0 = ((1u64 << 63u64) - 1u64) as u64;
        let w = ((v & !m1) >> 1u64) | (v & m0);
        (((w >> j) & 1u64) == 1u64) == (j < 63 && ((v >> j) & 1u64) == 1u64)
    })
{}
proof fn lemma_remove_hi(v: u64, i: u64, n: u64) by (bit_vector)
    requires i < 63, i < n, n < 64, (v >> n) == 0u64
    ensures ({
        let m1 = ((1u64 << ((i + 1) as u64)) - 1u64) as u64;
        let m0 = ((1u64 << i) - 1u64) as u64;
        let w = ((v & !m1) >> 1u64) | (v & m0);
        (w >> ((n - 1) as u64)) == 0u64
    })
{}
proof fn lemma_remove_hi_full(v: u64, i: u64) by (bit_vector)
    requires i < 63
    ensures ({
        let m1 = ((1u64 << ((i + 1) as u64)) - 1u64) as u64;
        let m0 = ((1u64 << i) - 1u64) as u64;
        let w = ((v & !m1) >> 1u64) | (v & m0);
        (w >> 63u64) == 0u64
    })
{}
proof fn lemma_remove_hi_last(v: u64) by (bit_vector)
    ensures ({
        let m1 = 0xffff_ffff_ffff_ffffu64;
        let m0 = ((1u64 << 63u64) - 1u64) as u64;
        let w = ((v & !m1) >> 1u64) | (v & m0);
        (w >> 63u64) == 0u64
    })
{}
// insert: mask = (1<<i)-1; a = v & !mask; b = bb << i; c = v & mask; a << 1 | b | c
proof fn lemma_insert_bit(v: u64, i: u64, bb: u64, j: u64) by (bit_vector)
    requires i < 64, j < 64, bb <= 1
    ensures ({
        let m = ((1u64 << i) - 1u64) as u64;
        let w = ((v & !m) << 1u64) | (bb << i) | (v & m);
        (((w >> j) & 1u64) == 1u64)
            == (if j < i { ((v >> j) & 1u64) == 1u64 } else if j == i { bb == 1u64 } else { ((v >> ((j - 1) as u64)) & 1u64) == 1u64 })
    })
{}
proof fn lemma_insert_hi(v: u64, i: u64, bb: u64, n: u64) by (bit_vector)
    requires i <= n, n < 63, bb <= 1, (v >> n) == 0u64
    ensures ({
        let m = ((1u64 << i) - 1u64) as u64;
        let w = ((v & !m) << 1u64) | (bb << i) | (v & m);
        (w >> ((n + 1) as u64)) == 0u64
    })
{}
// new_rev: w = rev >> (64 - len)
proof fn lemma_shr_bit(r: u64, s: u64, j: u64) by (bit_vector)
    requires s < 64, j < 64
    ensures ((((r >> s) >> j) & 1u64) == 1u64) == (j + s < 64 && ((r >> ((j + s) as u64)) & 1u64) == 1u64)
{}
proof fn lemma_shr_hi(r: u64, n: u64) by (bit_vector)
    requires 0 < n, n < 64
    ensures ((r >> ((64 - n) as u64)) >> n) == 0u64
{}
// extensionality support
proof fn lemma_xor_bit(x: u64, y: u64, j: u64) by (bit_vector)
    requires j < 64
    ensures ((((x ^ y) >> j) & 1u64) == 1u64) == ((((x >> j) & 1u64) == 1u64) != (((y >> j) & 1u64) == 1u64))
{}
proof fn lemma_low_step(z: u64, n: u64) by (bit_vector)
    requires n < 63, (z & (((1u64 << n) - 1u64) as u64)) == 0u64, ((z >> n) & 1u64) != 1u64
    ensures (z & (((1u64 << ((n + 1) as u64)) - 1u64) as u64)) == 0u64
{}
proof fn lemma_low_base(z: u64) by (bit_vector)
    ensures (z & (((1u64 << 0u64) - 1u64) as u64)) == 0u64
{}
proof fn lemma_low_last(z: u64) by (bit_vector)
    requires (z & (((1u64 << 63u64) - 1u64) as u64)) == 0u64, ((z >> 63u64) & 1u64) != 1u64
    ensures z == 0u64
{}
proof fn lemma_xor_zero(x: u64, y: u64) by (bit_vector)
    requires (x ^ y) == 0u64
    ensures x == y
{}


// ---- weight: Kernighan's loop clears the lowest set bit, so each iteration removes one from cnt ----
pub open spec fn low_nz(v: u64, n: int) -> bool {
    if n >= 64 { v != 0 } else if n <= 0 { false } else { (v & (((1u64 << (n as u64)) - 1u64) as u64)) != 0u64 }
}
proof fn lemma_kern_same(v: u64, n: u64) by (bit_vector)
    requires n < 64, v != 0, (v & (((1u64 << n) - 1u64) as u64)) != 0u64
    ensures (((v & ((v - 1u64) as u64)) >> n) & 1u64) == ((v >> n) & 1u64)
{}
proof fn lemma_kern_clear(v: u64, n: u64) by (bit_vector)
    requires n < 64, v != 0, (v & (((1u64 << n) - 1u64) as u64)) == 0u64
    ensures (((v & ((v - 1u64) as u64)) >> n) & 1u64) == 0u64
{}
proof fn lemma_low_nz_step(v: u64, n: u64) by (bit_vector)
    requires n < 63
    ensures ((v & (((1u64 << ((n + 1) as u64)) - 1u64) as u64)) != 0u64)
        == (((v & (((1u64 << n) - 1u64) as u64)) != 0u64) || ((v >> n) & 1u64) == 1u64)
{}
proof fn lemma_low_nz_last(v: u64) by (bit_vector)
    ensures (v != 0u64) == (((v & (((1u64 << 63u64) - 1u64) as u64)) != 0u64) || ((v >> 63u64) & 1u64) == 1u64)
{}
proof fn lemma_low_nz_zero(v: u64) by (bit_vector)
    ensures (v & (((1u64 << 0u64) - 1u64) as u64)) == 0u64
{}
proof fn lemma_kern_lt(v: usize) by (bit_vector)
    requires v > 0
    ensures (v & ((v - 1) as usize)) < v
{}
proof fn lemma_kern_cast(v: usize) by (bit_vector)
    requires v > 0
    ensures ((v & ((v - 1) as usize)) as u64) == ((v as u64) & (((v as u64) - 1u64) as u64))
{}
proof fn lemma_kern_cnt(v: u64, n: nat)
    requires v != 0, n <= 64
    ensures cnt((v & ((v - 1u64) as u64)), n) + (if low_nz(v, n as int) { 1nat } else { 0nat }) == cnt(v, n)
    decreases n
{
    let w = v & ((v - 1u64) as u64);
    if n == 0 {
    } else {
        let m = (n - 1) as nat;
        lemma_kern_cnt(v, m);
        lemma_bit01(v, m as u64); lemma_bit01(w, m as u64);
        if m == 0 { lemma_low_nz_zero(v); }
        if m < 63 { lemma_low_nz_step(v, m as u64); } else { lemma_low_nz_last(v); }
        if low_nz(v, m as int) {
            lemma_kern_same(v, m as u64);
        } else {
            lemma_kern_clear(v, m as u64);
        }
    }
}
proof fn lemma_cnt_bound(v: u64, n: nat)
    ensures cnt(v, n) <= n
    decreases n
{ if n > 0 { lemma_cnt_bound(v, (n - 1) as nat); } }
proof fn lemma_cnt_zero(n: nat)
    ensures cnt(0u64, n) == 0
    decreases n
{ if n > 0 { lemma_cnt_zero((n - 1) as nat); if n <= 64 { lemma_zero_bit((n - 1) as u64); } } }

// std contract assumed (TRUSTED): Ordering::then_with runs the closure exactly when self is Equal
pub assume_specification<F: FnOnce() -> core::cmp::Ordering>[ core::cmp::Ordering::then_with ](o: core::cmp::Ordering, f: F) -> (r: core::cmp::Ordering)
    requires o == core::cmp::Ordering::Equal ==> f.requires(()),
    ensures o != core::cmp::Ordering::Equal ==> r == o, o == core::cmp::Ordering::Equal ==> f.ensures((), r);

/// two words with the same 64 bits are equal
proof fn lemma_ext(x: u64, y: u64)
    requires forall|j: int| 0 <= j < 64 ==> bit(x, j) == bit(y, j)
    ensures x == y
{
    let z = x ^ y;
    assert forall|j: int| 0 <= j < 64 implies !bit(z, j) by { lemma_xor_bit(x, y, j as u64); assert(bit(x, j) == bit(y, j)); }
    lemma_low(z, 63);
    assert(!bit(z, 63));
    lemma_low_last(z);
    lemma_xor_zero(x, y);
}
proof fn lemma_low(z: u64, n: u64)
    requires n <= 63, forall|j: int| 0 <= j < 64 ==> !bit(z, j)
    ensures (z & (((1u64 << n) - 1u64) as u64)) == 0u64
    decreases n
{
    if n == 0 { lemma_low_base(z); } else {
        lemma_low(z, (n - 1) as u64);
        assert(!bit(z, n - 1));
        lemma_low_step(z, (n - 1) as u64);
    }
}

/// the view determines a well-formed value
pub proof fn lemma_view_injective(a: BitSeq, b: BitSeq)
    requires a.wf(), b.wf(), a@ =~= b@
    ensures a == b
{
    assert(a@.len() == b@.len());
    assert(a.len == b.len);
    assert forall|j: int| 0 <= j < 64 implies bit(a.val, j) == bit(b.val, j) by {
        if j < a.len {
            assert(a@[j] == b@[j]);
        } else {
            lemma_hi_bit(a.val, a.len as u64, j as u64);
            lemma_hi_bit(b.val, b.len as u64, j as u64);
        }
    }
    lemma_ext(a.val, b.val);
}

// ---------------------------------------------------------------- Bit
impl Bit {
    pub fn is_zero(&self) -> (r: bool)
        ensures r == !self.b()
    //@body impl/Bit/is_zero
    //@+ sig
    //@| fn is_zero(&self) -> bool

    pub fn is_one(&self) -> (r: bool)
        ensures r == self.b()
    //@body impl/Bit/is_one
    //@+ sig
    //@| fn is_one(&self) -> bool

    pub fn as_u64(&self) -> (r: u64)
        ensures r == (if self.b() { 1u64 } else { 0u64 })
    //@body impl/Bit/as_u64
    //@+ sig
    //@| fn as_u64(&self) -> u64

    pub fn from(b: bool) -> (r: Bit)
        ensures r.b() == b
    //@body impl/From@Bit/from
    //@+ sig
    //@| fn from(b: bool) -> Self
}

// ---------------------------------------------------------------- BitSeq
impl BitSeq {
    //@item const/BitSeq/MAX_LEN

    fn mask(len: usize) -> (r: u64)
        ensures
            forall|j: int| 0 <= j < 64 ==> (bit(r, j) <==> j < len),
            hi_zero(r, len as int),
            len < 64 ==> r == (((1u64 << (len as u64)) - 1u64) as u64),
            len >= 64 ==> r == 0xffff_ffff_ffff_ffffu64,
    //@body impl/BitSeq/mask
    //@+ sig
    //@| fn mask(len: usize) -> u64
    //@+ pre
    //@| if len < 64 {
    //@|     lemma_shl_ge1(len as u64);
    //@|     lemma_mask_hi(len as u64);
    //@|     let m = val_mask_of(len);
    //@|     assert forall|j: int| 0 <= j < 64 implies (#[trigger] bit(m, j) <==> j < len) by { lemma_mask_bit(len as u64, j as u64); }
    //@| } else {
    //@|     let m = val_mask_of(len);
    //@|     assert forall|j: int| 0 <= j < 64 implies #[trigger] bit(m, j) by { lemma_max_bit(j as u64); }
    //@| }

    pub fn new(val: u64, len: usize) -> (r: BitSeq)
//@if B
        requires len <= 64, hi_zero(val, len as int),
//@endif
        ensures r.val == val, r.len == len, r.wf(),
    //@body impl/BitSeq/new
    //@+ sig
    //@| fn new(val: u64, len: usize) -> Self
    //@+ pre
    //@| if len < 64 { lemma_le_mask(val, len as u64); lemma_shl_ge1(len as u64); }

    pub fn new_rev(val: u64, len: usize) -> (r: BitSeq)
//@if B
        requires len <= 64,
//@endif
        ensures r.len == len, r.wf(),
            forall|j: int| 0 <= j < len ==> r@[j] == bit(val, len - 1 - j),
    //@body impl/BitSeq/new_rev
    //@+ sig
    //@| fn new_rev(val: u64, len: usize) -> Self
    //@+ pre-raw
    //@| let ghost val0 = val;
    //@+ stmt 2
    //@| let w = val; let val = val0;
    //@| if 0 < len && len <= 64 {
    //@|     let rv = rev64(val);
    //@|     if len < 64 { lemma_shr_hi(rv, len as u64); }
    //@|     assert forall|j: int| 0 <= j < len implies #[trigger] bit(w, j) == bit(val, len - 1 - j) by {
    //@|         lemma_shr_bit(rv, (64 - len) as u64, j as u64);
    //@|         let k = (j + 64 - len) as u64;
    //@|         assert(bitu(rv, k) == bitu(val, (63 - k) as u64));
    //@|     }
    //@| } else if len == 0 {
    //@|     lemma_zero_shr(0);
    //@| }

    pub fn empty() -> (r: BitSeq)
        ensures r.wf(), r@ =~= Seq::<bool>::empty(),
    //@body impl/BitSeq/empty
    //@+ sig
    //@| fn empty() -> Self
    //@+ pre
    //@| lemma_zero_shr(0);

    pub fn zeros(len: usize) -> (r: BitSeq)
//@if B
        requires len <= 64,
//@endif
        ensures r.wf(), r@ =~= Seq::new(len as nat, |j: int| false),
    //@body impl/BitSeq/zeros
    //@+ sig
    //@| fn zeros(len: usize) -> Self
    //@+ pre
    //@| if len < 64 { lemma_zero_shr(len as u64); }
    //@| assert forall|j: int| 0 <= j < 64 implies !bit(0u64, j) by { lemma_zero_bit(j as u64); }

    pub fn ones(len: usize) -> (r: BitSeq)
//@if B
        requires len <= 64,
//@endif
        ensures r.wf(), r@ =~= Seq::new(len as nat, |j: int| true),
    //@body impl/BitSeq/ones
    //@+ sig
    //@| fn ones(len: usize) -> Self

    pub fn len(&self) -> (r: usize)
        ensures r == self.len, self.wf() ==> r == self@.len(),
    //@body impl/BitSeq/len
    //@+ sig
    //@| fn len(&self) -> usize

    pub fn as_u64(&self) -> (r: u64)
        ensures r == self.val,
    //@body impl/BitSeq/as_u64
    //@+ sig
    //@| fn as_u64(&self) -> u64

    pub fn is_empty(&self) -> (r: bool)
        ensures r == (self@.len() == 0),
    //@body impl/BitSeq/is_empty
    //@+ sig
    //@| fn is_empty(&self) -> bool

    pub fn set(&mut self, i: usize, b: Bit)
        requires old(self).wf(),
//@if B
            i < old(self).len,
//@endif
        ensures final(self).wf(), i < old(self).len, final(self)@ =~= old(self)@.update(i as int, b.b()),
    //@body impl/BitSeq/set
    //@+ sig
    //@| fn set(&mut self, i: usize, b: Bit)
    //@+ post
    //@| if i < 64 {
    //@|     let v0 = old(self).val;
    //@|     if old(self).len < 64 { lemma_clear_hi(v0, i as u64, old(self).len as u64); lemma_set_hi(v0, i as u64, old(self).len as u64); }
    //@|     assert forall|j: int| 0 <= j < 64 implies bit(self.val, j) == (if j == i { b.b() } else { bit(v0, j) }) by {
    //@|         lemma_clear_bit(v0, i as u64, j as u64); lemma_set_bit(v0, i as u64, j as u64);
    //@|     }
    //@| }

    pub fn set_0(&mut self, i: usize)
        requires old(self).wf(),
//@if B
            i < old(self).len,
//@endif
        ensures final(self).wf(), final(self)@ =~= old(self)@.update(i as int, false),
    //@body impl/BitSeq/set_0
    //@+ sig
    //@| fn set_0(&mut self, i: usize)

    pub fn set_1(&mut self, i: usize)
        requires old(self).wf(),
//@if B
            i < old(self).len,
//@endif
        ensures final(self).wf(), final(self)@ =~= old(self)@.update(i as int, true),
    //@body impl/BitSeq/set_1
    //@+ sig
    //@| fn set_1(&mut self, i: usize)

    pub fn push(&mut self, b: Bit)
        requires old(self).wf(),
//@if B
            old(self).len < 64,
//@endif
        ensures final(self).wf(), final(self)@ =~= old(self)@.push(b.b()),
    //@body impl/BitSeq/push
    //@+ sig
    //@| fn push(&mut self, b: Bit)
    //@+ post
    //@| let v0 = old(self).val; let n = old(self).len;
    //@| if n < 64 {
    //@|     if n < 63 { lemma_hi_mono(v0, n as u64, (n + 1) as u64); lemma_set_hi(v0, n as u64, (n + 1) as u64); }
    //@|     assert forall|j: int| 0 <= j < 64 implies bit(self.val, j) == (if j == n { b.b() } else { bit(v0, j) }) by {
    //@|         lemma_set_bit(v0, n as u64, j as u64);
    //@|         if j == n { lemma_hi_bit(v0, n as u64, j as u64); }
    //@|     }
    //@| }

    pub fn push_0(&mut self)
        requires old(self).wf(),
//@if B
            old(self).len < 64,
//@endif
        ensures final(self).wf(), final(self)@ =~= old(self)@.push(false),
    //@body impl/BitSeq/push_0
    //@+ sig
    //@| fn push_0(&mut self)

    pub fn push_1(&mut self)
        requires old(self).wf(),
//@if B
            old(self).len < 64,
//@endif
        ensures final(self).wf(), final(self)@ =~= old(self)@.push(true),
    //@body impl/BitSeq/push_1
    //@+ sig
    //@| fn push_1(&mut self)

    pub fn append(&mut self, b: BitSeq)
        requires old(self).wf(), b.wf(),
//@if B
            old(self).len + b.len <= 64,
//@endif
        ensures final(self).wf(), final(self)@ =~= old(self)@ + b@,
    //@body impl/BitSeq/append
    //@+ sig
    //@| fn append(&mut self, b: BitSeq)
    //@+ post
    //@| let v0 = old(self).val; let n = old(self).len; let m = b.len;
    //@| if m > 0 && n + m <= 64 {
    //@|     if n + m < 64 { lemma_append_hi(v0, b.val, n as u64, m as u64); }
    //@|     assert forall|j: int| 0 <= j < 64 implies bit(self.val, j) == (if j < n { bit(v0, j) } else { bit(b.val, j - n) }) by {
    //@|         lemma_append_bit(v0, b.val, n as u64, j as u64);
    //@|     }
    //@| }

    pub fn remove(&mut self, i: usize)
        requires old(self).wf(),
//@if B
            i < old(self).len,
//@endif
        ensures final(self).wf(), i < old(self).len, final(self)@ =~= old(self)@.remove(i as int),
    //@body impl/BitSeq/remove
    //@+ sig
    //@| fn remove(&mut self, i: usize)
    //@+ post
    //@| let v0 = old(self).val; let n = old(self).len;
    //@| if i < 63 {
    //@|     if n < 64 { lemma_remove_hi(v0, i as u64, n as u64); } else { lemma_remove_hi_full(v0, i as u64); }
    //@|     assert forall|j: int| 0 <= j < 64 implies bit(self.val, j) == (if j < i { bit(v0, j) } else { bit(v0, j + 1) }) by {
    //@|         lemma_remove_bit(v0, i as u64, j as u64);
    //@|     }
    //@| } else if i == 63 {
    //@|     lemma_remove_hi_last(v0);
    //@|     assert forall|j: int| 0 <= j < 64 implies bit(self.val, j) == (j < 63 && bit(v0, j)) by {
    //@|         lemma_remove_bit_last(v0, j as u64);
    //@|     }
    //@| }

    pub fn insert(&mut self, i: usize, b: Bit)
        requires old(self).wf(),
//@if B
            i <= old(self).len, old(self).len < 64,
//@endif
        ensures final(self).wf(), i <= old(self).len, final(self)@ =~= old(self)@.insert(i as int, b.b()),
    //@body impl/BitSeq/insert
    //@+ sig
    //@| fn insert(&mut self, i: usize, b: Bit)
    //@+ pre-raw
    //@| let ghost b0 = b;
    //@+ pre
    //@| if i < 64 { lemma_shl_ge1(i as u64); }
    //@+ post
    //@| let v0 = old(self).val; let n = old(self).len; let bb = if b0.b() { 1u64 } else { 0u64 };
    //@| if i <= n && n < 64 {
    //@|     if n < 63 { lemma_insert_hi(v0, i as u64, bb, n as u64); }
    //@|     assert forall|j: int| 0 <= j < 64 implies bit(self.val, j) == (if j < i { bit(v0, j) } else if j == i { bb == 1 } else { bit(v0, j - 1) }) by {
    //@|         lemma_insert_bit(v0, i as u64, bb, j as u64);
    //@|     }
    //@| }

    pub fn insert_0(&mut self, i: usize)
        requires old(self).wf(),
//@if B
            i <= old(self).len, old(self).len < 64,
//@endif
        ensures final(self).wf(), final(self)@ =~= old(self)@.insert(i as int, false),
    //@body impl/BitSeq/insert_0
    //@+ sig
    //@| fn insert_0(&mut self, i: usize)

    pub fn insert_1(&mut self, i: usize)
        requires old(self).wf(),
//@if B
            i <= old(self).len, old(self).len < 64,
//@endif
        ensures final(self).wf(), final(self)@ =~= old(self)@.insert(i as int, true),
    //@body impl/BitSeq/insert_1
    //@+ sig
    //@| fn insert_1(&mut self, i: usize)

    pub fn sub(&self, l: usize) -> (r: BitSeq)
        requires self.wf(),
//@if B
            l <= self.len,
//@endif
        ensures r.wf(), l <= self.len, r@ =~= self@.subrange(0, l as int),
    //@body impl/BitSeq/sub
    //@+ sig
    //@| fn sub(&self, l: usize) -> Self
    //@+ stmt 2
    //@| if l < 64 { lemma_and_hi(self.val, val_mask_of(l), l as u64); }
    //@| assert forall|j: int| 0 <= j < 64 implies bit(val, j) == (j < l && bit(self.val, j)) by {
    //@|     lemma_and_bit(self.val, val_mask_of(l), j as u64);
    //@|     assert(bit(val_mask_of(l), j) <==> j < l);
    //@| }

    pub fn is_sub(&self, other: &BitSeq) -> (r: bool)
        requires self.wf(), other.wf(),
        ensures r <==> (self.len <= other.len && self@ =~= other@.subrange(0, self.len as int)),
    //@body impl/BitSeq/is_sub
    //@+ sig
    //@| fn is_sub(&self, other: &Self) -> bool
    //@+ post
    //@| if self.len <= other.len {
    //@|     let n = self.len; let w = other.val & val_mask_of(n);
    //@|     if n < 64 { lemma_and_hi(other.val, val_mask_of(n), n as u64); }
    //@|     assert forall|j: int| 0 <= j < 64 implies bit(w, j) == (j < n && bit(other.val, j)) by {
    //@|         lemma_and_bit(other.val, val_mask_of(n), j as u64);
    //@|         assert(bit(val_mask_of(n), j) <==> j < n);
    //@|     }
    //@|     if self@ =~= other@.subrange(0, n as int) {
    //@|         assert forall|j: int| 0 <= j < 64 implies bit(self.val, j) == bit(w, j) by {
    //@|             if j < n { assert(self@[j] == other@.subrange(0, n as int)[j]); } else { lemma_hi_bit(self.val, n as u64, j as u64); }
    //@|         }
    //@|         lemma_ext(self.val, w);
    //@|     }
    //@| }

    pub fn weight(&self) -> (r: usize)
        ensures r == cnt(self.val, 64), r <= 64,
    //@body impl/BitSeq/weight loops=1
    //@+ loop 0 header
    //@| while v > 0
    //@+ sig
    //@| fn weight(&self) -> usize
    //@+ loop 0
    //@| invariant c + cnt(v as u64, 64) == cnt(self.val, 64), c <= 64,
    //@| decreases v,
    //@+ loop 0 begin
    //@| lemma_kern_lt(v); lemma_kern_cast(v); lemma_kern_cnt(v as u64, 64); lemma_cnt_bound(self.val, 64);
    //@+ post
    //@| lemma_cnt_zero(64);

    pub fn cmp(&self, other: &BitSeq) -> (r: core::cmp::Ordering)
        ensures
            r == core::cmp::Ordering::Less <==> (key_le(*self, *other) && *self != *other),
            r == core::cmp::Ordering::Equal <==> *self == *other,
            r == core::cmp::Ordering::Greater <==> (key_le(*other, *self) && *self != *other),
    //@body impl/Ord@BitSeq/cmp
    //@+ sig
    //@| fn cmp(&self, other: &Self) -> std::cmp::Ordering
    //@+ closure 0
    //@| -> (r1: core::cmp::Ordering) ensures
    //@|     r1 == core::cmp::Ordering::Less <==> cnt(self.val, 64) < cnt(other.val, 64),
    //@|     r1 == core::cmp::Ordering::Equal <==> cnt(self.val, 64) == cnt(other.val, 64),
    //@+ closure 1
    //@| -> (r2: core::cmp::Ordering) ensures
    //@|     r2 == core::cmp::Ordering::Less <==> self.val < other.val,
    //@|     r2 == core::cmp::Ordering::Equal <==> self.val == other.val,

    pub fn index(&self, i: usize) -> (r: &Bit)
        requires self.wf(),
//@if B
            i < self.len,
//@endif
        ensures i < self.len, r.b() == self@[i as int],
    //@body impl/Index@BitSeq/index
    //@+ sig
    //@| fn index(&self, i: usize) -> &Self::Output
    //@+ stmt 1
    //@| if i < 64 { lemma_bit01(self.val, i as u64); }
}

// ---------------------------------------------------------------- collecting (FromIterator)
/// an iterator of bits by the sequence it yields (ASSUMED iterator protocol: `next` yields the items in order, then None)
pub struct BitSrc { pub es: Ghost<Seq<Bit>>, pub pos: Ghost<int> }
impl BitSrc {
    pub fn into_iter(self) -> (r: Self) ensures r == self { self }
    #[verifier::external_body] pub fn next(&mut self) -> (r: Option<Bit>)
        requires 0 <= old(self).pos@ <= old(self).es@.len()
        ensures final(self).es@ == old(self).es@,
            old(self).pos@ < old(self).es@.len() ==> (final(self).pos@ == old(self).pos@ + 1 && r == Some(old(self).es@[old(self).pos@])),
            old(self).pos@ >= old(self).es@.len() ==> (final(self).pos@ == old(self).pos@ && r.is_none()),
    { unimplemented!() }
}
/// `Bit::from(b)` for an item that already is a Bit (core's reflexive `impl From<T> for T`)
pub fn bit_id_(b: Bit) -> (r: Bit) ensures r == b { b }
/// `a << n` on u64 (rule R40): specified below the bit width only
#[verifier::external_body] pub fn shl_any_(a: u64, n: usize) -> (r: u64) ensures n < 64 ==> r == a << (n as u64) { unimplemented!() }
impl BitSeq {
    /// collecting an iterator of bits: the sequence of ALL its items -- so more than 64 items are rejected (the call does not return), never truncated
    pub fn from_iter(iter: BitSrc) -> (r: BitSeq)
        requires iter.pos@ == 0, iter.es@.len() < usize::MAX,     // stated domain: fewer than 2^64 - 1 items, so the item counter itself does not wrap
//@if B
            iter.es@.len() <= 64,
//@endif
        ensures r.wf(), r@ =~= iter.es@.map(|j: int, x: Bit| x.b()),
    //@body impl/FromIterator@BitSeq/from_iter for_iter=1 loops=1 shl_total=1 subst=Bit::from:bit_id_
    //@+ sig
    //@| fn from_iter<I: IntoIterator<Item = T>>(iter: I) -> Self
    //@+ loop 0 header
    //@| for b in iter.into_iter()
    //@+ pre-raw
    //@| let ghost es0 = iter.es@;
    //@| assert((0u64 >> 0u64) == 0u64) by (bit_vector);
    //@+ loop 0
    //@| invariant __it0.es@ == es0, 0 <= __it0.pos@ <= es0.len(), len == __it0.pos@, es0.len() < usize::MAX,
    //@|     len <= 64 ==> (hi_zero(val, len as int) && forall|j: int| 0 <= j < len ==> #[trigger] bit(val, j) == es0[j].b()),
    //@| ensures __it0.pos@ == es0.len(),
    //@| decreases es0.len() - __it0.pos@,
    //@+ loop 0 begin-raw
    //@| let ghost v0 = val;
    //@+ loop 0 end
    //@| if len <= 64 {
    //@|     let n = (len - 1) as usize;
    //@|     if n < 63 { lemma_hi_mono(v0, n as u64, (n + 1) as u64); lemma_set_hi(v0, n as u64, (n + 1) as u64); }
    //@|     assert forall|j: int| 0 <= j < 64 implies bit(val, j) == (if j == n { b.b() } else { bit(v0, j) }) by {
    //@|         lemma_set_bit(v0, n as u64, j as u64);
    //@|         if j == n { lemma_hi_bit(v0, n as u64, j as u64); }
    //@|     }
    //@| }
}

/// the mask value as a spec function (what `mask` returns, by its contract)
pub open spec fn val_mask_of(n: usize) -> u64 {
    if n >= 64 { 0xffff_ffff_ffff_ffffu64 } else { (((1u64 << (n as u64)) - 1u64) as u64) }
}

// ---------------------------------------------------------------- order (specification level)
// `Ord::cmp` is proved above against this key (len, then weight, then value); here: the key
// order is a total order consistent with ==.
pub open spec fn key_le(a: BitSeq, b: BitSeq) -> bool {
    a.len < b.len || (a.len == b.len && (cnt(a.val, 64) < cnt(b.val, 64) || (cnt(a.val, 64) == cnt(b.val, 64) && a.val <= b.val)))
}
pub proof fn lemma_order_total(a: BitSeq, b: BitSeq, c: BitSeq)
    ensures
        key_le(a, a),
        key_le(a, b) || key_le(b, a),
        key_le(a, b) && key_le(b, a) ==> a == b,
        key_le(a, b) && key_le(b, c) ==> key_le(a, c),
{}

} // verus!
fn main() {}
