// Contract overlay for formal linear combinations Lc<X, R> (yui/src/types/lc/lc.rs) — the term map every
// polynomial type (PolyBase) and chain (Lc) is built on.  Property C16: "add ... as in the [free module]
// over the coefficient ring ... A value never stores a zero coefficient ... hence equality, is_zero,
// term count ... are those of the mathematical [element] after any sequence of operations".
// View: the coefficient function  at : generators -> R  (r0 outside the stored keys); representation
// invariant nz: every stored coefficient is non-zero.  Coefficients in the abstract ring ER, generators
// abstract hashable keys (GenK), AHashMap<X, R> := AMap (ASSUMED hash-map contract incl. its iterator).
use vstd::prelude::*;
verus! {
//@include prelude/rt.rs
//@include prelude/er.rs
//@source yui/src/types/lc/lc.rs

impl ER {
    #[verifier::external_body] pub fn add_assign<B: ERL>(&mut self, b: B) ensures (*final(self)).v() == radd((*old(self)).v(), b.v()) { unimplemented!() }
}

// ---------------------------------------------------------------- models
/// a generator (hashable key); Clone / Eq / Hash are TRUSTED to respect the identity k
pub struct GenK { pub k: Ghost<int> }
impl GenK {
    #[verifier::external_body] pub fn clone(&self) -> (r: GenK) ensures r.k@ == self.k@ { unimplemented!() }
}
/// es lists every entry of m exactly once (iteration order arbitrary)
pub open spec fn entries_of(es: Seq<(int, int)>, m: Map<int, int>) -> bool {
    &&& forall|i: int| 0 <= i < es.len() ==> m.dom().contains(#[trigger] es[i].0) && m[es[i].0] == es[i].1
    &&& forall|i: int, j: int| 0 <= i < j < es.len() ==> #[trigger] es[i].0 != #[trigger] es[j].0
    &&& forall|k: int| m.dom().contains(k) ==> exists|i: int| 0 <= i < es.len() && #[trigger] es[i].0 == k
}
/// key k is among the first n entries
pub open spec fn seen(es: Seq<(int, int)>, n: int, k: int) -> bool { exists|j: int| 0 <= j < n && j < es.len() && #[trigger] es[j].0 == k }

/// AHashMap<X, R>: ASSUMED contract of the hash map (finite map key id -> coefficient id)
/// `ord`: the order in which the map would be iterated in its current state (arbitrary, changes under mutation)
pub struct AMap { pub m: Ghost<Map<int, int>>, pub ord: Ghost<Seq<(int, int)>> }
pub struct MapIter<'a> { pub src: &'a AMap, pub es: Ghost<Seq<(int, int)>>, pub pos: Ghost<int> }
impl<'a> MapIter<'a> {
    pub fn into_iter(self) -> (r: Self) ensures r == self { self }
    #[verifier::external_body] pub fn next(&mut self) -> (r: Option<(&'a GenK, &'a ER)>)
        requires 0 <= old(self).pos@ <= old(self).es@.len()
        ensures final(self).es@ == old(self).es@, final(self).src == old(self).src,
            old(self).pos@ < old(self).es@.len() ==> (final(self).pos@ == old(self).pos@ + 1 && r.is_some()
                && r.unwrap().0.k@ == old(self).es@[old(self).pos@].0 && r.unwrap().1.v() == old(self).es@[old(self).pos@].1),
            old(self).pos@ >= old(self).es@.len() ==> (final(self).pos@ == old(self).pos@ && r.is_none()),
    { unimplemented!() }
}
impl AMap {
    pub open spec fn at(&self, k: int) -> int { if self.m@.dom().contains(k) { self.m@[k] } else { r0() } }
    #[verifier::external_body] pub fn contains_key(&self, x: &GenK) -> (r: bool) ensures r == self.m@.dom().contains(x.k@) { unimplemented!() }
    #[verifier::external_body] pub fn get(&self, x: &GenK) -> (r: Option<&ER>)
        ensures r.is_some() == self.m@.dom().contains(x.k@), r.is_some() ==> r.unwrap().v() == self.m@[x.k@] { unimplemented!() }
    #[verifier::external_body] pub fn get_mut(&mut self, x: &GenK) -> (r: Option<&mut ER>)
        ensures r.is_some() == old(self).m@.dom().contains(x.k@),
            r.is_some() ==> (r.unwrap().v() == old(self).m@[x.k@] && final(self).m@ == old(self).m@.insert(x.k@, (*final(r.unwrap())).v())),
            r.is_none() ==> final(self).m@ == old(self).m@,
    { unimplemented!() }
    #[verifier::external_body] pub fn insert(&mut self, x: GenK, r: ER) -> (o: Option<ER>)
        ensures final(self).m@ == old(self).m@.insert(x.k@, r.v()) { unimplemented!() }
    #[verifier::external_body] pub fn len(&self) -> (r: usize) ensures self.m@.dom().finite(), r == self.m@.dom().len() { unimplemented!() }
    #[verifier::external_body] pub fn is_empty(&self) -> (r: bool) ensures r == (self.m@.dom() =~= Set::<int>::empty()) { unimplemented!() }
    #[verifier::external_body] pub fn reserve(&mut self, n: usize) ensures final(self).m@ == old(self).m@ { unimplemented!() }
    #[verifier::external_body] pub fn iter(&self) -> (r: MapIter<'_>) ensures r.pos@ == 0, r.es@ == self.ord@, entries_of(r.es@, self.m@), r.src == self { unimplemented!() }
}

/// an owning iterator of (generator, coefficient) pairs (model of `T: IntoIterator<Item = (X, R)>`)
pub struct PairIter { pub items: Ghost<Seq<(int, int)>>, pub pos: Ghost<int> }
impl PairIter {
    pub fn into_iter(self) -> (r: Self) ensures r == self { self }
    #[verifier::external_body] pub fn next(&mut self) -> (r: Option<(GenK, ER)>)
        requires 0 <= old(self).pos@ <= old(self).items@.len()
        ensures final(self).items@ == old(self).items@,
            old(self).pos@ < old(self).items@.len() ==> (final(self).pos@ == old(self).pos@ + 1 && r.is_some()
                && r.unwrap().0.k@ == old(self).items@[old(self).pos@].0 && r.unwrap().1.v() == old(self).items@[old(self).pos@].1),
            old(self).pos@ >= old(self).items@.len() ==> (final(self).pos@ == old(self).pos@ && r.is_none()),
    { unimplemented!() }
}
/// the coefficient of k in the formal sum  sum_i  s[i].1 * s[i].0   (terms added left to right)
pub open spec fn acc(s: Seq<(int, int)>, k: int) -> int decreases s.len() {
    if s.len() == 0 { r0() } else { let t = acc(s.drop_last(), k); if s.last().0 == k { radd(t, s.last().1) } else { t } }
}
/// the generator map of `combine` (x_map), as a function on identities
pub uninterp spec fn xm(a: int, b: int) -> int;
/// coefficient of k in  base + sum_{j<n} (r * eb[j].1) xm(x, eb[j].0)
pub open spec fn isum(base: int, x: int, r: int, eb: Seq<(int, int)>, n: int, k: int) -> int decreases n {
    if n <= 0 { base } else {
        let t = isum(base, x, r, eb, n - 1, k);
        if xm(x, eb[n - 1].0) == k { radd(t, rmul(r, eb[n - 1].1)) } else { t }
    }
}
/// coefficient of k in  sum_{i<m} sum_j (ea[i].1 * eb[j].1) xm(ea[i].0, eb[j].0)   — the bilinear extension of xm
pub open spec fn dsum(ea: Seq<(int, int)>, m: int, eb: Seq<(int, int)>, k: int) -> int decreases m {
    if m <= 0 { r0() } else { isum(dsum(ea, m - 1, eb, k), ea[m - 1].0, ea[m - 1].1, eb, eb.len() as int, k) }
}

//@item struct/Lc subst=AHashMap<X,R>:AMap,R:ER

impl Lc {
    pub open spec fn at(&self, k: int) -> int { self.data.at(k) }
    /// representation invariant: no stored zero coefficient (and the cached zero is zero)
    pub open spec fn nz(&self) -> bool { forall|k: int| self.data.m@.dom().contains(k) ==> self.data.m@[k] != r0() }
    pub open spec fn wf(&self) -> bool { self.r_zero.v() == r0() }

    /// ASSUMED (AHashMap::with_hasher, R::zero): the empty combination
    #[verifier::external_body] pub fn new() -> (r: Lc) ensures r.wf(), r.data.m@ =~= Map::<int, int>::empty() { unimplemented!() }
    /// ASSUMED (AHashMap::retain with closure |_, r| !r.is_zero()): drops exactly the zero entries
    #[verifier::external_body] pub fn clean(&mut self)
        ensures final(self).r_zero == old(self).r_zero, final(self).nz(),
            forall|k: int| final(self).data.m@.dom().contains(k) <==> (old(self).data.m@.dom().contains(k) && old(self).data.m@[k] != r0()),
            forall|k: int| final(self).data.m@.dom().contains(k) ==> final(self).data.m@[k] == old(self).data.m@[k],
            forall|k: int| final(self).at(k) == old(self).at(k),   // (consequence of the two lines above, stated for the trigger)
    { unimplemented!() }

    pub fn zero() -> (r: Lc) ensures r.wf(), r.nz(), forall|k: int| r.at(k) == r0(), r.data.m@ =~= Map::<int, int>::empty(),
    //@body impl/Zero@Lc/zero

    pub fn is_zero(&self) -> (r: bool) ensures self.nz() ==> (r == (forall|k: int| self.at(k) == r0())),
    //@body impl/Zero@Lc/is_zero
    //@+ post
    //@| if !__ret && self.nz() {
    //@|     assert(exists|k: int| self.data.m@.dom().contains(k)) by { if forall|k: int| !self.data.m@.dom().contains(k) { assert(self.data.m@.dom() =~= Set::<int>::empty()); } }
    //@|     let k = choose|k: int| self.data.m@.dom().contains(k);
    //@|     assert(self.at(k) != r0());
    //@| }

    pub fn nterms(&self) -> (r: usize) ensures self.data.m@.dom().finite(), r == self.data.m@.dom().len(),
    //@body impl/Lc/nterms

    pub fn coeff(&self, x: &GenK) -> (r: &ER) requires self.wf() ensures r.v() == self.at(x.k@),
    //@body impl/Lc/coeff

    pub fn iter(&self) -> (r: MapIter<'_>) ensures r.pos@ == 0, r.es@ == self.data.ord@, entries_of(r.es@, self.data.m@), r.src == &self.data,
    //@body impl/Lc/iter
    //@+ sig
    //@| fn iter(&self) -> impl Iterator<Item = (&X, &R)>

    /// "must clean after call": adds r to the coefficient of x, nothing else changes
    pub fn add_pair(&mut self, rhs: (GenK, ER))
        ensures final(self).r_zero == old(self).r_zero,
            forall|k: int| final(self).at(k) == (if k == rhs.0.k@ { radd(old(self).at(k), rhs.1.v()) } else { old(self).at(k) }),
            forall|k: int| final(self).data.m@.dom().contains(k) ==> (old(self).data.m@.dom().contains(k) || k == rhs.0.k@),
    //@body impl/Lc/add_pair
    //@+ sig
    //@| fn add_pair(&mut self, rhs: (X, R))
    //@+ pre
    //@| ax_add_zero(rhs.1.v()); ax_add_zero(old(self).at(rhs.0.k@));

    pub fn add_pair_ref(&mut self, rhs: (&GenK, &ER))
        ensures final(self).r_zero == old(self).r_zero,
            forall|k: int| final(self).at(k) == (if k == rhs.0.k@ { radd(old(self).at(k), rhs.1.v()) } else { old(self).at(k) }),
            forall|k: int| final(self).data.m@.dom().contains(k) ==> (old(self).data.m@.dom().contains(k) || k == rhs.0.k@),
    //@body impl/Lc/add_pair_ref
    //@+ sig
    //@| fn add_pair_ref(&mut self, rhs: (&X, &R))
    //@+ pre
    //@| ax_add_zero(rhs.1.v()); ax_add_zero(old(self).at(rhs.0.k@));

    /// self += rhs : coefficientwise sum, and no zero coefficient is left stored
    pub fn add_assign(&mut self, rhs: &Lc)
        ensures final(self).nz(), final(self).r_zero == old(self).r_zero,
            forall|k: int| final(self).at(k) == radd(old(self).at(k), rhs.at(k)),
    //@body impl/AddAssign@Lc/add_assign for_iter=1 loops=1
    //@+ loop 0 header
    //@| for e in rhs.data.iter()
    //@+ loop 0
    //@| invariant
    //@|     __it0.src == &rhs.data, entries_of(__it0.es@, rhs.data.m@), 0 <= __it0.pos@ <= __it0.es@.len(),
    //@|     self.r_zero == old(self).r_zero,
    //@|     forall|k: int| self.at(k) == (if seen(__it0.es@, __it0.pos@, k) { radd(old(self).at(k), rhs.at(k)) } else { old(self).at(k) }),
    //@| ensures __it0.pos@ == __it0.es@.len(),
    //@| decreases __it0.es@.len() - __it0.pos@,
    //@+ loop 0 begin
    //@| let ghost p = __it0.pos@ - 1;
    //@| assert(e.0.k@ == __it0.es@[p].0 && e.1.v() == __it0.es@[p].1);
    //@| assert(!seen(__it0.es@, p, e.0.k@));
    //@| assert(rhs.at(e.0.k@) == e.1.v());
    //@+ loop 0 end
    //@| assert forall|k: int| self.at(k) == (if seen(__it0.es@, __it0.pos@, k) { radd(old(self).at(k), rhs.at(k)) } else { old(self).at(k) }) by {
    //@|     if k == e.0.k@ { assert(seen(__it0.es@, __it0.pos@, k)); }
    //@|     else { assert(seen(__it0.es@, __it0.pos@, k) == seen(__it0.es@, __it0.pos@ - 1, k)); }
    //@| }
    //@+ loop 0 after
    //@| assert forall|k: int| self.at(k) == radd(old(self).at(k), rhs.at(k)) by {
    //@|     ax_add_zero(old(self).at(k));
    //@|     if rhs.data.m@.dom().contains(k) { let i = choose|i: int| 0 <= i < __it0.es@.len() && #[trigger] __it0.es@[i].0 == k; assert(seen(__it0.es@, __it0.pos@, k)); }
    //@| }

    /// self -= rhs
    pub fn sub_assign(&mut self, rhs: &Lc)
        ensures final(self).nz(), final(self).r_zero == old(self).r_zero,
            forall|k: int| final(self).at(k) == rsub(old(self).at(k), rhs.at(k)),
    //@body impl/SubAssign@Lc/sub_assign for_iter=1 loops=1 ring=1
    //@+ loop 0 header
    //@| for e in rhs.data.iter()
    //@+ loop 0
    //@| invariant
    //@|     __it0.src == &rhs.data, entries_of(__it0.es@, rhs.data.m@), 0 <= __it0.pos@ <= __it0.es@.len(),
    //@|     self.r_zero == old(self).r_zero,
    //@|     forall|k: int| self.at(k) == (if seen(__it0.es@, __it0.pos@, k) { rsub(old(self).at(k), rhs.at(k)) } else { old(self).at(k) }),
    //@| ensures __it0.pos@ == __it0.es@.len(),
    //@| decreases __it0.es@.len() - __it0.pos@,
    //@+ loop 0 begin
    //@| let ghost p = __it0.pos@ - 1;
    //@| assert(e.0.k@ == __it0.es@[p].0 && e.1.v() == __it0.es@[p].1);
    //@| assert(!seen(__it0.es@, p, e.0.k@));
    //@| assert(rhs.at(e.0.k@) == e.1.v());
    //@+ loop 0 end
    //@| assert forall|k: int| self.at(k) == (if seen(__it0.es@, __it0.pos@, k) { rsub(old(self).at(k), rhs.at(k)) } else { old(self).at(k) }) by {
    //@|     if k == e.0.k@ { assert(seen(__it0.es@, __it0.pos@, k)); }
    //@|     else { assert(seen(__it0.es@, __it0.pos@, k) == seen(__it0.es@, __it0.pos@ - 1, k)); }
    //@| }
    //@+ loop 0 after
    //@| assert forall|k: int| self.at(k) == rsub(old(self).at(k), rhs.at(k)) by {
    //@|     ax_add_zero(old(self).at(k)); id_neg_zero();
    //@|     if rhs.data.m@.dom().contains(k) { let i = choose|i: int| 0 <= i < __it0.es@.len() && #[trigger] __it0.es@[i].0 == k; assert(seen(__it0.es@, __it0.pos@, k)); }
    //@| }

    /// FromIterator<(X, R)>: the formal sum of the given terms (repeated generators add up, zero terms vanish)
    pub fn from_iter(iter: PairIter) -> (r: Lc)
        requires iter.pos@ == 0
        ensures r.nz(), r.wf(), forall|k: int| r.at(k) == acc(iter.items@, k),
    //@body impl/FromIterator@Lc/from_iter for_iter=1 loops=1
    //@+ sig
    //@| fn from_iter<T: IntoIterator<Item = (X, R)>>(iter: T) -> Self
    //@+ loop 0 header
    //@| for e in iter.into_iter()
    //@+ loop 0
    //@| invariant
    //@|     __it0.items@ == iter.items@, 0 <= __it0.pos@ <= __it0.items@.len(), res.wf(),
    //@|     forall|k: int| res.at(k) == acc(__it0.items@.take(__it0.pos@), k),
    //@| ensures __it0.pos@ == __it0.items@.len(),
    //@| decreases __it0.items@.len() - __it0.pos@,
    //@+ loop 0 end
    //@| let ghost p = __it0.pos@ - 1;
    //@| assert(__it0.items@.take(p + 1).drop_last() =~= __it0.items@.take(p));
    //@| assert(__it0.items@.take(p + 1).last() == __it0.items@[p]);
    //@+ loop 0 after
    //@| assert(__it0.items@.take(__it0.pos@) =~= iter.items@);

    /// bilinear extension of x_map: coefficient of k is  sum_{i,j : x_map(x_i, y_j) = k} r_i s_j , nothing zero stored
    pub fn combine<F: Fn(&GenK, &GenK) -> GenK>(&self, other: &Lc, x_map: F) -> (res: Lc)
        requires
            forall|a: &GenK, b: &GenK| x_map.requires((a, b)),
            forall|a: &GenK, b: &GenK, r: GenK| x_map.ensures((a, b), r) ==> r.k@ == xm(a.k@, b.k@),
            self.data.m@.dom().len() * other.data.m@.dom().len() <= usize::MAX,   // capacity hint `reserve(n * m)` does not overflow
        ensures res.nz(), res.wf(),
            forall|k: int| res.at(k) == dsum(self.data.ord@, self.data.ord@.len() as int, other.data.ord@, k),
    //@body impl/Lc/combine for_iter=1 loops=2 ring=1 machine=nterms
    //@+ sig
    //@| fn combine<F>(&self, other: &Self, x_map: F) -> Self where F: Fn(&X, &X) -> X
    //@+ loop 0 header
    //@| for (x, r) in self.iter()
    //@+ loop 1 header
    //@| for (y, s) in other.iter()
    //@+ loop 0
    //@| invariant
    //@|     __it0.es@ == self.data.ord@, 0 <= __it0.pos@ <= __it0.es@.len(), res.wf(),
    //@|     forall|a: &GenK, b: &GenK| x_map.requires((a, b)),
    //@|     forall|a: &GenK, b: &GenK, r: GenK| x_map.ensures((a, b), r) ==> r.k@ == xm(a.k@, b.k@),
    //@|     forall|k: int| res.at(k) == dsum(self.data.ord@, __it0.pos@, other.data.ord@, k),
    //@| ensures __it0.pos@ == __it0.es@.len(),
    //@| decreases __it0.es@.len() - __it0.pos@,
    //@+ loop 1
    //@| invariant
    //@|     __it1.es@ == other.data.ord@, 0 <= __it1.pos@ <= __it1.es@.len(), res.wf(),
    //@|     __it0.es@ == self.data.ord@, 1 <= __it0.pos@ <= __it0.es@.len(),
    //@|     x.k@ == self.data.ord@[__it0.pos@ - 1].0, r.v() == self.data.ord@[__it0.pos@ - 1].1,
    //@|     forall|a: &GenK, b: &GenK| x_map.requires((a, b)),
    //@|     forall|a: &GenK, b: &GenK, r: GenK| x_map.ensures((a, b), r) ==> r.k@ == xm(a.k@, b.k@),
    //@|     forall|k: int| res.at(k) == isum(dsum(self.data.ord@, __it0.pos@ - 1, other.data.ord@, k), x.k@, r.v(), other.data.ord@, __it1.pos@, k),
    //@| ensures __it1.pos@ == __it1.es@.len(),
    //@| decreases __it1.es@.len() - __it1.pos@,

} // impl Lc

} // verus!
fn main() {}
