// C05 / C01 (cobordism relation kernel) — witness search / replay harness on the real crate yui-kh:
// closed components evaluate to the counit of the Frobenius algebra A = Z[X]/(X^2 - hX - t) applied to
// X^x Y^y (2X - h)^g (Y = X - h).  Recursion depth grows with g + x + y, so this is not a Kani proof;
// the unbounded statement is the Verus unit cob_eval.
use super::src::*;
use crate::{ob, pre, reach};
use yui_kh::kh::internal::v2::cob::CobComp;
use yui_kh::kh::internal::v2::tng::Tng;

type A = (i128, i128); // p0 + p1 X
fn amul(a: A, b: A, h: i128, t: i128) -> A { (a.0 * b.0 + a.1 * b.1 * t, a.0 * b.1 + a.1 * b.0 + a.1 * b.1 * h) }
fn apow(a: A, n: usize, h: i128, t: i128) -> A { let mut r = (1, 0); for _ in 0..n { r = amul(a, r, h, t); } r }

pub fn cob_closed_eval(s: &mut Src) -> R {
    let (g, x, y) = (s.small(0, 4) as usize, s.small(0, 4) as usize, s.small(0, 4) as usize);
    let (h, t) = (s.small(-3, 3), s.small(-3, 3));
    reach!();
    let c = CobComp::new(Tng::empty(), Tng::empty(), g, (x, y));
    let (hh, tt) = (h as i128, t as i128);
    let p = amul(amul(apow((0, 1), x, hh, tt), apow((-hh, 1), y, hh, tt), hh, tt), apow((-hh, 2), g, hh, tt), hh, tt);
    let v: i64 = c.eval(&h, &t);
    ob!(v as i128 == p.1, "closed-cobordism-evaluates-to-counit-of-X^x.Y^y.(2X-h)^g");
    if c.is_zero_cob() { ob!(p.1 == 0, "is_zero_cob-implies-value-0"); }
    if c.is_unit_cob() { ob!(p.1 == 1, "is_unit_cob-implies-value-1"); }
    pre!(true);
    Ok(())
}

/// open component (an arc strip) with g handles and (x, y) dots: part_eval returns a0 [c] + aX [c;X] + aY [c;Y]
/// with a0 + aX X + aY Y == X^x Y^y (2X - h)^g in A  (native replay only)
pub fn cob_open_part_eval(s: &mut Src) -> R {
    let (g, x, y) = (s.small(0, 3) as usize, s.small(0, 4) as usize, s.small(0, 4) as usize);
    let (h, t) = (s.small(-3, 3), s.small(-3, 3));
    reach!();
    let arc = || Tng::from(TngComp::arc([0, 1]));
    let c = CobComp::new(arc(), arc(), g, (x, y));
    let (hh, tt) = (h as i128, t as i128);
    let p = amul(amul(apow((0, 1), x, hh, tt), apow((-hh, 1), y, hh, tt), hh, tt), apow((-hh, 2), g, hh, tt), hh, tt);
    let r: LcCob<i64> = c.part_eval(&h, &t);
    let mut acc: A = (0, 0);
    for (cob, a) in r.iter() {
        ob!(cob.ncomps() == 1, "part_eval::terms-are-single-components");
        let cc = cob.comp(0);
        ob!(cc.genus() == 0, "part_eval::terms-have-genus-0");
        let is = |d: (usize, usize)| *cc == CobComp::new(arc(), arc(), 0, d);
        ob!(is((0, 0)) || is((1, 0)) || is((0, 1)), "part_eval::terms-carry-at-most-one-dot");
        let basis: A = if is((0, 0)) { (1, 0) } else if is((1, 0)) { (0, 1) } else { (-hh, 1) };
        acc = (acc.0 + (*a as i128) * basis.0, acc.1 + (*a as i128) * basis.1);
    }
    ob!(acc == p, "open-component-part_eval-represents-X^x.Y^y.(2X-h)^g");
    Ok(())
}

// C01 / C05 (Gaussian elimination kernel) — witness search / replay on the real crate: the inverse of
// an invertible morphism u . id over Q is u^-1 . id  (f^-1 . f == id).  Paired with the Verus unit lccob.
use yui::Ratio;
use yui_kh::kh::internal::v2::cob::{Cob, LcCob, LcCobTrait};
use yui_kh::kh::internal::v2::tng::TngComp;
use num_traits::{One, Zero};
pub fn cob_lc_inv(s: &mut Src) -> R {
    let (n, d) = (s.small(-9, 9), s.small(1, 9));
    pre!(n != 0);
    reach!();
    type Q = Ratio<i64>;
    let v = Tng::new(vec![TngComp::arc([0, 1]), TngComp::arc([2, 3])]);
    let id = Cob::id(&v);
    let u = Q::new(n, d);
    let f = LcCob::from((id.clone(), u.clone()));
    ob!(f.is_invertible(), "LcCob::is_invertible(unit.id)");
    let Some(finv) = f.inv() else { ob!(false, "LcCob::inv(unit.id)-is-some"); return Ok(()) };
    ob!(&finv * &f == LcCob::from((id.clone(), Q::one())), "LcCob::inv::(eps.c)^-1==eps^-1.c^-1");
    // a non-invertible morphism (two terms / zero) has no inverse
    let z: LcCob<Q> = LcCob::zero();
    ob!(!z.is_invertible() && z.inv().is_none(), "LcCob::inv(0)-is-none");
    Ok(())
}
// C06 / C01: the canonical (Lee-type) cycles the tangle-complex builder transports through delooping and Gaussian elimination
// (BuildElem::{deloop, eliminate}, unit build_elem) are cycles of the complex it returns: d z = 0.  Knots from a fixed list, both
// mirrors, h in {2, 3} (t = 0), reduced and unreduced.  Sampled stand-in for the unverified glue around the verified transport formula.
pub fn kh_canon_cycles(s: &mut Src) -> R {
    use yui_link::Link;
    use yui_kh::kh::KhComplex;
    let codes: [&[[usize; 4]]; 7] = [
        &[[1,4,2,5],[3,6,4,1],[5,2,6,3]],
        &[[4,2,5,1],[8,6,1,5],[6,3,7,4],[2,7,3,8]],
        &[[1,6,2,7],[3,8,4,9],[5,10,6,1],[7,2,8,3],[9,4,10,5]],
        &[[1,4,2,5],[3,8,4,9],[5,10,6,1],[9,6,10,7],[7,2,8,3]],
        &[[1,4,2,5],[7,10,8,11],[3,9,4,8],[9,3,10,2],[5,12,6,1],[11,6,12,7]],
        &[[1,4,2,5],[5,10,6,11],[3,9,4,8],[9,3,10,2],[7,12,8,1],[11,6,12,7]],
        &[[4,2,5,1],[8,4,9,3],[12,9,1,10],[10,5,11,6],[6,11,7,12],[2,8,3,7]],
    ];
    let which = s.small(0, 6) as usize;
    let mirror = s.small(0, 1) == 1;
    let h = s.small(2, 3);
    let reduced = s.small(0, 1) == 1;
    let plain = s.small(0, 2) == 0;
    let rot = s.small(0, 5) as usize;
    let relabel = s.u64();
    let (kink, kink_pos) = (s.small(0, 6) as usize, s.small(0, 6) as usize);
    reach!();
    // PD codes need not be numbered along the strand, and the first crossing need not carry the least label: relabel the edges by a
    // pseudo-random injection into 0..40 and rotate the crossing list
    let n_x = codes[which].len();
    let mut map: Vec<usize> = (0..41).collect();
    let mut st = relabel | 1;
    for k in (1..41).rev() { st ^= st << 13; st ^= st >> 7; st ^= st << 17; map.swap(k, (st % (k as u64 + 1)) as usize); }
    let mut code: Vec<[usize; 4]> = (0..n_x).map(|k| codes[which][(k + rot) % n_x].map(|e| if plain { e } else { map[e] })).collect();
    // optionally a Reidemeister-I kink on one edge, smoothed again before the complex is built: the diagram then has an already-resolved
    // entry among its crossings (the library supports that; positions in the list and positions among the real crossings differ)
    if kink > 0 {
        // PD codes are oriented: slot 0 of a crossing is its incoming under-strand.  The kink [e, a, a, b] is traversed e -> a -> b, so it is
        // spliced in front of the crossing that e ENTERS at slot 0 (any other splice point would need the orientation of the over-strand)
        let k = (kink - 1) % n_x;
        let e = code[k][0];
        let (a, b) = (if plain { 2 * n_x + 1 } else { 41 }, if plain { 2 * n_x + 2 } else { 42 });
        code[k][0] = b;
        code.insert(kink_pos % (n_x + 1), [e, a, a, b]);
    }
    let mut l = Link::from_pd_code(code);
    if kink > 0 {
        let idx = kink_pos % (n_x + 1);
        let l0 = l.resolved_at(idx, yui::bitseq::Bit::Bit0);
        l = if l0.components().len() == 1 { l0 } else { l.resolved_at(idx, yui::bitseq::Bit::Bit1) };
        pre!(l.components().len() == 1);
    }
    if mirror { l = l.mirror(); }
    let c = KhComplex::<i64>::new(&l, &h, &0, reduced);
    let zs = c.canon_cycles();
    ob!(zs.len() == if reduced { 1 } else { 2 }, "KhComplex::canon_cycles::count");
    for z in zs.iter() {
        ob!(!z.is_zero(), "KhComplex::canon_cycles::non-zero");
        ob!(c.d(0, z).is_zero(), "KhComplex::canon_cycles::d.z==0");
    }
    Ok(())
}
// C05: the complex returned over a FIELD with arbitrary (h, t) is a chain complex: d(d(x)) = 0 for every generator x.  Over Q the pivots of
// the Gaussian eliminations carry units other than +-1, which the integer tests never exercise.  Knots from the table up to 7 crossings.
pub fn kh_dd_zero_q(s: &mut Src) -> R {
    use yui_link::Link;
    use yui_kh::kh::{KhComplex, KhChain};
    use yui::Ratio;
    type Q = Ratio<i64>;
    let names = ["3_1", "4_1", "5_2", "6_2", "6_3", "7_7"];
    let which = s.small(0, 5) as usize;
    let mirror = s.small(0, 1) == 1;
    let (hn, hd) = (s.small(-2, 2), s.small(1, 2));
    let (tn, td) = (s.small(-2, 2), s.small(1, 2));
    reach!();
    let Ok(mut l) = Link::load(names[which]) else { ob!(false, "Link::load(table-knot)"); return Ok(()) };
    if mirror { l = l.mirror(); }
    let (h, t) = (Q::new(hn, hd), Q::new(tn, td));
    let c = KhComplex::<Q>::new(&l, &h, &t, false);
    for i in c.h_range() {
        for x in c[i].raw_gens().iter() {
            let z = KhChain::<Q>::from(*x);
            let dz = c.d(i, &z);
            ob!(c.d(i + 1, &dz).is_zero(), "KhComplex::d.d==0(over-Q)");
        }
    }
    // the homology over Q: at h = t = 0 its ranks are the free ranks over Z (universal coefficients; the integer pipeline only meets the
    // units +-1); for h^2 + 4t != 0 (X^2 - hX - t has two distinct roots) a knot has total rank 2, in degree 0
    use yui_homology::SummandTrait;
    let hq = c.homology();
    if hn == 0 && tn == 0 {
        let hz = KhComplex::<i64>::new(&l, &0, &0, false).homology();
        for i in hz.h_range() { ob!(hq[i].rank() == hz[i].rank(), "KhHomology::rank(Q)==free-rank(Z)"); }
    } else if hn * hn * td + 4 * tn * hd * hd != 0 {
        let total: usize = hq.h_range().map(|i| hq[i].rank()).sum();
        ob!(total == 2 && hq[0].rank() == 2, "KhHomology::Lee-type-over-Q-has-rank-2-in-degree-0");
    }
    Ok(())
}
// C05 / C01 over the UNIVERSAL ring Z[H, T] (BOUNDED, sampled): the complex built with h = H, t = T is a chain complex (d d = 0), d is
// homogeneous of q-degree 0 with deg H = -2, deg T = -4, and specialising its differentials at integers (h, t) gives the homology of the
// complex built directly over Z with (h, t).  This is the only place where products of *different* variables (H.T, T.T) of the bivariate
// monomials enter the Khovanov code.
pub fn kh_universal_ht(s: &mut Src) -> R {
    use yui::poly::{Poly2, Mono};
    use yui_link::Link;
    use yui_kh::kh::{KhComplex, KhChain};
    use yui_homology::{ChainComplexTrait, GridTrait, SummandTrait, GenericChainComplex};
    use yui_matrix::sparse::SpMat;
    use yui_matrix::MatTrait;
    type P = Poly2<'H', 'T', i64>;
    let names = ["3_1", "4_1", "5_2", "6_2", "7_7", "8_19"];
    let which = s.small(0, 5) as usize;
    let mirror = s.small(0, 1) == 1;
    let (h0, t0) = (s.small(-2, 2), s.small(-2, 2));
    reach!();
    let l = Link::load(names[which]).map_err(|e| format!("load: {e}"))?;
    let l = if mirror { l.mirror() } else { l };
    let (h, t) = (P::variable(0), P::variable(1));
    let c = KhComplex::<P>::new(&l, &h, &t, false);
    for i in c.support() {
        for x in c[i].raw_gens().iter() {
            let z = KhChain::<P>::from(x.clone());
            let dz = c.d(i, &z);
            ob!(c.d(i + 1, &dz).is_zero(), "KhComplex(Z[H,T])::d(d(x))==0");
            for (y, p) in dz.iter() {
                ob!(y.h_deg() == x.h_deg() + 1, "KhComplex(Z[H,T])::d-raises-h-degree-by-one");
                for (m, _) in p.iter() {
                    let (a, b) = (m.deg().0 as isize, m.deg().1 as isize);
                    ob!(y.q_deg() - 2 * a - 4 * b == x.q_deg(), "KhComplex(Z[H,T])::d-is-q-homogeneous");
                }
            }
        }
    }
    // specialise at (h0, t0) and compare ranks / torsion with the direct build
    let spec = |d: &SpMat<P>| SpMat::from_entries(d.shape(), d.iter().map(|(i, j, p)| (i, j, p.eval(&h0, &t0))));
    let sup: Vec<isize> = c.support().collect();
    let (lo, hi) = (*sup.first().unwrap(), *sup.last().unwrap());
    let g = GenericChainComplex::<i64>::generate(lo..=hi, 1, |i| spec(&c.d_matrix(i)));
    let hs = g.homology();
    let direct = KhComplex::<i64>::new(&l, &h0, &t0, false).homology();
    for i in lo..=hi {
        let norm = |t: &[i64]| { let mut t: Vec<i64> = t.iter().map(|x| x.abs()).collect(); t.sort(); t };
        ob!(hs[i].rank() == direct[i].rank() && norm(hs[i].tors()) == norm(direct[i].tors()), "KhComplex(Z[H,T])::specialised-at-(h,t)-has-the-homology-of-the-direct-build");
    }
    Ok(())
}

// C04 end to end (BOUNDED, sampled): the graded Euler characteristic of the bigraded Khovanov homology over Z at h = t = 0,
// sum (-1)^i rank H^{i,j} q^j, is the (unnormalised) Jones polynomial computed from the state sum.  Links: closures of random braid words
// on 2..3 strands with up to 5 letters (every strand touched; multi-component links included) and their mirrors.
pub fn kh_euler_jones(s: &mut Src) -> R {
    use yui_link::{Braid, Generator};
    use yui_link::util::jones_polynomial;
    use yui_kh::kh::KhHomologyBigraded;
    use yui_homology::SummandTrait;
    use yui::poly::LPoly;
    type P = LPoly<'q', i32>;
    let n = s.small(2, 3) as usize;
    let len = s.small(1, 5) as usize;
    let mut word: Vec<i32> = vec![];
    for k in 0..5 { let i = s.small(1, 2); let neg = s.bool(); if k < len { let i = ((i - 1) % (n as i64 - 1) + 1) as i32; word.push(if neg { -i } else { i }); } }
    let mirror = s.bool();
    let mut touched = vec![false; n];
    for &g in &word { let i = (g.unsigned_abs() - 1) as usize; touched[i] = true; touched[i + 1] = true; }
    pre!(touched.iter().all(|&t| t));
    reach!();
    let mut l = Braid::new(n, word.iter().map(|&g| Generator::from(g)).collect()).closure();
    if mirror { l = l.mirror(); }
    let kh = KhHomologyBigraded::<i64>::new(&l, &0, &0, false);
    let mut terms: std::collections::BTreeMap<isize, i32> = Default::default();
    for i in kh.h_range() { for j in kh.q_range() {
        let r = kh[(i, j)].rank() as i32;
        if r != 0 { *terms.entry(j).or_insert(0) += if i.rem_euclid(2) == 0 { r } else { -r }; }
    } }
    let chi = P::from_iter(terms.into_iter().filter(|(_, c)| *c != 0).map(|(j, c)| (P::mono(j), c)));
    ob!(chi == jones_polynomial(&l), "graded-Euler-characteristic(Kh)==Jones");
    Ok(())
}
// C06 (BOUNDED, sampled): the s-type invariant behaves as a knot invariant on a fixed list of diagrams: it does not change when the PD code is
// relabelled by an injection or its crossings are listed in another order, the reduced and the unreduced computation agree, and the mirror
// image has the negative value.  c in {2, 3}.
pub fn kh_ss_invariance(s: &mut Src) -> R {
    use yui_link::Link;
    use yui_kh::kh::ss_invariant;
    let codes: [&[[usize; 4]]; 6] = [
        &[[1,4,2,5],[3,6,4,1],[5,2,6,3]],
        &[[4,2,5,1],[8,6,1,5],[6,3,7,4],[2,7,3,8]],
        &[[1,6,2,7],[3,8,4,9],[5,10,6,1],[7,2,8,3],[9,4,10,5]],
        &[[1,4,2,5],[3,8,4,9],[5,10,6,1],[9,6,10,7],[7,2,8,3]],
        &[[1,4,2,5],[7,10,8,11],[3,9,4,8],[9,3,10,2],[5,12,6,1],[11,6,12,7]],
        &[[4,2,5,1],[8,4,9,3],[12,9,1,10],[10,5,11,6],[6,11,7,12],[2,8,3,7]],
    ];
    let which = s.small(0, 5) as usize;
    let c = s.small(2, 3);
    let rot = s.small(0, 5) as usize;
    let relabel = s.u64();
    reach!();
    let n_x = codes[which].len();
    let mut map: Vec<usize> = (0..41).collect();
    let mut st = relabel | 1;
    for k in (1..41).rev() { st ^= st << 13; st ^= st >> 7; st ^= st << 17; map.swap(k, (st % (k as u64 + 1)) as usize); }
    let l0 = Link::from_pd_code(codes[which].iter().cloned());
    let l1 = Link::from_pd_code((0..n_x).map(|k| codes[which][(k + rot) % n_x].map(|e| map[e])));
    let s0 = ss_invariant(&l0, &c, true);
    ob!(ss_invariant(&l0, &c, false) == s0, "ss_invariant::reduced==unreduced");
    ob!(ss_invariant(&l1, &c, true) == s0 && ss_invariant(&l1, &c, false) == s0, "ss_invariant::independent-of-labels-and-crossing-order");
    ob!(ss_invariant(&l0.mirror(), &c, true) == -s0 && ss_invariant(&l1.mirror(), &c, false) == -s0, "ss_invariant::mirror-negates");
    Ok(())
}
crate::harness_table!(COB: cob_closed_eval [unwind 8], cob_open_part_eval [unwind 8], cob_lc_inv [unwind 4], kh_canon_cycles [unwind 4], kh_dd_zero_q [unwind 4], kh_euler_jones [unwind 4], kh_ss_invariance [unwind 4], kh_universal_ht [unwind 4]);
