#!/bin/bash
cd /verif
for n in "$@"; do
  d=seeded/$n
  props=$(python3 -c "
import json
m=json.load(open('$d/meta.json'))
print(' '.join(m.get('checks',{}).keys()))")
  git -C /repo apply $PWD/$d/patch.diff 2>/dev/null || { echo "$n: patch does not apply"; continue; }
  res=""
  for p in $props; do ./check $p > /tmp/reseed_$p.log 2>&1; res="$res $p:$?"; grep -E "^VIOLATION" /tmp/reseed_$p.log | head -2 | cut -c1-260; done
  git -C /repo checkout -- .
  python3 - "$d" "$res" <<'PY'
import json,sys
d,res=sys.argv[1],sys.argv[2]
m=json.load(open(d+'/meta.json')); m['checks']={kv.split(':')[0]:int(kv.split(':')[1]) for kv in res.split()}
json.dump(m,open(d+'/meta.json','w'),indent=1)
PY
  echo "$n:$res"
done
git -C /repo status --short
