#!/bin/bash
# reseed.sh — re-run the registered checks against every stored seed (patch applied to /repo, undone afterwards) and
# refresh the "checks" field of seeded/<name>/meta.json.  Does not re-confirm suite / demo (seedtest.sh does).
cd /verif
for d in seeded/*/; do
  n=$(basename $d)
  props=$(python3 -c "
import json,sys
m=json.load(open('$d/meta.json')) if __import__('os').path.exists('$d/meta.json') else {}
print(' '.join(m.get('checks',{}).keys()))")
  [ -z "$props" ] && { echo "$n: no meta / checks"; continue; }
  git -C /repo apply $PWD/$d/patch.diff 2>/dev/null || { echo "$n: patch does not apply"; continue; }
  res=""
  for p in $props; do ./check $p > /tmp/reseed_$p.log 2>&1; res="$res $p:$?"; done
  git -C /repo checkout -- .
  python3 - "$d" "$res" <<'PY'
import json,sys
d,res=sys.argv[1],sys.argv[2]
m=json.load(open(d+'/meta.json')); m['checks']={kv.split(':')[0]:int(kv.split(':')[1]) for kv in res.split()}
json.dump(m,open(d+'/meta.json','w'),indent=1)
PY
  echo "$n:$res"
done
git -C /repo status --short
