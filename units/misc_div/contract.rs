// Contract overlay for the c-adic valuation kernel `div` of yui-khovanov/src/misc.rs (property C06:
// "c-divisibility of the class in homology coordinates").  Verified over the abstract Euclidean domain
// ER: for a != 0 the result k is the exact valuation (c^k | a and c^(k+1) does not divide a), and the
// loop terminates for a non-unit c.
use vstd::prelude::*;
verus! {
//@include prelude/rt.rs
//@include prelude/er.rs
//@source yui-khovanov/src/misc.rs

pub fn div(a: &ER, c: &ER) -> (r: Option<i32>)
    requires c.v() != r0(), !is_unit(c.v()), rnorm(a.v()) < 0x7fff_ffff,
    ensures match r {
        None => a.v() == r0(),
        Some(k) => a.v() != r0() && k >= 0 && dvd(rpow(c.v(), k as nat), a.v()) && !dvd(rpow(c.v(), (k + 1) as nat), a.v()),
    },
//@body fn/div ring=1 machine=k loops=1
//@+ loop 0 header
//@| while (&a % c).is_zero()
//@+ sig
//@| fn div<R>(a: &R, c: &R) -> Option<i32> where R: EucRing, for<'x> &'x R: EucRingOps<R>
//@+ pre-raw
//@| let ghost a0 = a.v();
//@+ after-let k
//@| ax_mul_one(a0);
//@+ loop 0
//@| invariant
//@|     c.v() != r0(), !is_unit(c.v()), a.v() != r0(), (k as int) >= 0,
//@|     a0 == rmul(a.v(), rpow(c.v(), k as nat)),
//@|     (k as int) + rnorm(a.v()) <= rnorm(a0), rnorm(a0) < 0x7fff_ffff,
//@| decreases rnorm(a.v()),
//@+ loop 0 begin
//@| let (av, cv) = (a.v(), c.v());
//@| lemma_rem_zero_iff_dvd(av, cv); ax_euclid(av, cv);
//@| let q = rdiv(av, cv);
//@| ax_add_zero(rmul(q, cv));                         // a == q c
//@| if q == r0() { id_mul_zero(cv); }                 // q != 0
//@| ax_mul_comm(q, cv); ax_norm_strict(cv, q);        // rnorm(q) < rnorm(c q) == rnorm(a)
//@| id_pow_shift(q, cv, rpow(cv, k as nat));          // (q c) c^k == q (c^k c) == q c^(k+1)
//@+ post
//@| let (av, cv) = (a.v(), c.v());
//@| lemma_rem_zero_iff_dvd(av, cv);
//@| let p = rpow(cv, k as nat);
//@| ax_mul_comm(av, p); assert(a0 == rmul(av, p));   // c^k | a0
//@| lemma_rpow_nonzero(cv, k as nat);
//@| let p1 = rpow(cv, (k + 1) as nat);
//@| if dvd(p1, a0) {
//@|     let m = choose|m: int| a0 == #[trigger] rmul(m, p1);
//@|     id_pow_shift(m, cv, p);                        // m (p c) == (m c) p
//@|     lemma_cancel(av, rmul(m, cv), p);              // a == m c
//@|     assert(dvd(cv, av));
//@| }
} // verus!
fn main() {}
