// ---- prelude/rt.rs : run-time assertion / panic models (DESIGN.md §1.2 R1, R2, §1.4) ----
// variant A ("rejects rather than corrupts"): a failed assert!/panic! does not return, so on
//   every returning path the condition holds: `ensures c` / `ensures false`.  TRUSTED.
// variant B ("valid input is not rejected"): every assert! must be provable, no panic! reachable.
global size_of usize == 8;

//@if A
#[verifier::external_body]
pub fn rt_assert(c: bool)
    ensures c
    no_unwind when c
{ if !c { panic!() } }

pub fn rt_debug_assert(c: bool) {}

#[verifier::external_body]
pub fn rt_panic<T>() -> (r: T)
    ensures false
{ panic!() }
/// a panic in statement position (also the diverging branch of a let-else): does not return
#[verifier::external_body]
pub fn rt_never() -> !
{ panic!() }
//@else
pub fn rt_assert(c: bool)
    requires c
{}

pub fn rt_debug_assert(c: bool)
    requires c
{}

#[verifier::external_body]
pub fn rt_panic<T>() -> (r: T)
    requires false
{ panic!() }
#[verifier::external_body]
pub fn rt_never() -> !
    requires false
{ panic!() }
//@endif
