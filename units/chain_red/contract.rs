// Contract overlay for one reduction step of ChainReducer (yui-homology/src/utils/chain_reducer.rs): find pivots in d_i, permute
// them to the leading block, replace d_i by the Schur complement and cut the pivot rows / columns out of the neighbouring
// differentials.  Property C08 ("chain reduction is a homotopy equivalence with correct transfer maps"), the algebraic core:
//   GIVEN the pivot finder's contract (the permuted matrix has a valid triangular leading block: the subject of C11) and the Schur
//   routine's contract (proved in unit schur, copied here by //@contract-of), one call of reduce_at_spec keeps
//       d_{j+1} d_j = 0  for every j        (the result is again a chain complex)
//   whatever the degree i, the pivot type and the sizes.  Matrices are abstract block matrices (prelude/bx.rs).
use vstd::prelude::*;
verus! {
//@include prelude/rt.rs
//@include prelude/er.rs
//@include prelude/bx.rs
//@source yui-homology/src/utils/chain_reducer.rs
//@include units/schur/model.inc

impl Schur {
//@contract-of units/schur/contract.rs from_partial_triangular variant=B
    pub fn disassemble(self) -> (r: (SpMat, Option<Trans>, Option<Trans>)) ensures r.0 == self.s, r.1 == self.t_src, r.2 == self.t_tgt,
    //@body impl/Schur/disassemble source=yui-matrix/src/sparse/schur.rs
    //@+ sig
    //@| fn disassemble(self) -> (SpMat<R>, Option<Trans<R>>, Option<Trans<R>>)
}

// ---------------------------------------------------------------- models
/// a grading (I: GridDeg): abstract integers with + and -
#[derive(Clone, Copy)]
pub struct Deg { pub g: Ghost<int> }
pub fn dadd_(a: Deg, b: Deg) -> (r: Deg) ensures r.g@ == a.g@ + b.g@ { Deg { g: Ghost(a.g@ + b.g@) } }
pub fn dsub_(a: Deg, b: Deg) -> (r: Deg) ensures r.g@ == a.g@ - b.g@ { Deg { g: Ghost(a.g@ - b.g@) } }
/// HashMap<I, SpMat<R>> / HashMap<I, Trans<R>> / HashMap<I, Vec<SpVec<R>>>  (ASSUMED std contract; values by their abstract content)
pub struct MatMap { pub m: Ghost<Map<int, int>> }
pub struct TransMap { pub m: Ghost<Map<int, (int, int)>> }
pub struct VecsMap { pub m: Ghost<int> }
impl MatMap {
    #[verifier::external_body] pub fn get(&self, i: &Deg) -> (r: Option<&SpMat>) ensures r.is_some() == self.m@.dom().contains(i.g@), r.is_some() ==> r.unwrap().m@ == self.m@[i.g@] { unimplemented!() }
    #[verifier::external_body] pub fn insert(&mut self, i: Deg, a: SpMat) -> (o: Option<SpMat>) ensures final(self).m@ == old(self).m@.insert(i.g@, a.m@) { unimplemented!() }
    #[verifier::external_body] pub fn contains_key(&self, i: &Deg) -> (r: bool) ensures r == self.m@.dom().contains(i.g@) { unimplemented!() }
}
impl TransMap {
    #[verifier::external_body] pub fn contains_key(&self, i: &Deg) -> (r: bool) ensures r == self.m@.dom().contains(i.g@) { unimplemented!() }
    #[verifier::external_body] pub fn get_mut(&mut self, i: &Deg) -> (r: Option<&mut Trans>)
        ensures r.is_some() == old(self).m@.dom().contains(i.g@),
            r.is_some() ==> ((r.unwrap().f@, r.unwrap().b@) == old(self).m@[i.g@] && final(self).m@ == old(self).m@.insert(i.g@, ((*final(r.unwrap())).f@, (*final(r.unwrap())).b@))),
            r.is_none() ==> final(self).m@ == old(self).m@,
    { unimplemented!() }
}
/// permutations (sprs::PermOwned / PermView)
pub struct PermOwned { pub p: Ghost<int> }
pub struct PermView { pub p: Ghost<int> }
impl PermOwned {
    #[verifier::external_body] pub fn view(&self) -> (r: PermView) ensures r.p@ == self.p@ { unimplemented!() }
    #[verifier::external_body] pub fn dim(&self) -> (r: usize) ensures r == pdim(self.p@) { unimplemented!() }
}
impl SpMat {
    #[verifier::external_body] pub fn is_zero(&self) -> (r: bool) ensures r == (self.m@ == mzero(nr(self.m@), nc(self.m@))) { unimplemented!() }
    /// entry (i, j) moves to (p(i), q(j)):  P a Q^-1
    #[verifier::external_body] pub fn permute(&self, p: PermView, q: PermView) -> (r: SpMat)
        requires pdim(p.p@) == nr(self.m@), pdim(q.p@) == nc(self.m@)
        ensures r.m@ == mmul(mmul(pm(p.p@), self.m@), pmi(q.p@)), nr(r.m@) == nr(self.m@), nc(r.m@) == nc(self.m@) { unimplemented!() }
}
impl Trans {
    /// proved in unit trans (dimension-free): append_perm = append(row-perm, col-perm), merge composes
    #[verifier::external_body] pub fn append_perm(&mut self, p: PermView) ensures final(self).f@ == mmul(pm(p.p@), old(self).f@), final(self).b@ == mmul(old(self).b@, pmi(p.p@)) { unimplemented!() }
    #[verifier::external_body] pub fn merge(&mut self, other: Trans) ensures final(self).f@ == mmul(other.f@, old(self).f@), final(self).b@ == mmul(old(self).b@, other.b@) { unimplemented!() }
}
#[derive(PartialEq, Eq, Structural, Clone, Copy)]
//@item enum/PivotType source=yui-matrix/src/sparse/pivot.rs
/// PivotCondition (carries an f64 weight): opaque here
#[derive(Clone, Copy)]
pub struct PivotCondition { pub c: Ghost<int> }
pub open spec fn tri_of(pt: PivotType) -> TriangularType { match pt { PivotType::Rows => TriangularType::Upper, PivotType::Cols => TriangularType::Lower } }
/// the leading r x r block of mm, however mm is cut into four blocks, is a valid pivot block for t
pub open spec fn pivot_block_ok(t: TriangularType, mm: int, r: int) -> bool {
    forall|a: int, b: int, c: int, d: int| mm == mstack(mconcat(a, b), mconcat(c, d)) && nr(a) == r && nc(a) == r ==> tri_ok(t, a)
}
/// ASSUMED (find_pivots + perms_by_pivots: property C11): r pivots, permutations moving them to the leading block, which is triangular
#[verifier::external_body] pub fn pivots(a: &SpMat, piv_type: PivotType, pivot_cond: PivotCondition) -> (res: (PermOwned, PermOwned, usize))
    ensures res.2 <= nr(a.m@), res.2 <= nc(a.m@), pdim(res.0.p@) == nr(a.m@), pdim(res.1.p@) == nc(a.m@),
        pivot_block_ok(tri_of(piv_type), mmul(mmul(pm(res.0.p@), a.m@), pmi(res.1.p@)), res.2 as int),
{ unimplemented!() }
/// ASSUMED (SpMat::extract with an index closure): rows r.. of P a  /  columns r.. of a P^-1
#[verifier::external_body] pub fn reduce_mat_rows(a: &SpMat, p: &PermOwned, r: usize) -> (res: SpMat)
    requires pdim(p.p@) == nr(a.m@), r <= nr(a.m@) ensures res.m@ == mrows(mmul(pm(p.p@), a.m@), r as int, nr(a.m@)) { unimplemented!() }
#[verifier::external_body] pub fn reduce_mat_cols(a: &SpMat, p: &PermOwned, r: usize) -> (res: SpMat)
    requires pdim(p.p@) == nc(a.m@), r <= nc(a.m@) ensures res.m@ == mcols(mmul(a.m@, pmi(p.p@)), r as int, nc(a.m@)) { unimplemented!() }

//@item struct/ChainReducer subst=HashMap<I,SpMat<R>>:MatMap,HashMap<I,Trans<R>>:TransMap,HashMap<I,Vec<SpVec<R>>>:VecsMap,Vec<I>:Vec<Deg>,I:Deg

// ---------------------------------------------------------------- specification
/// d_{j+d} d_j = 0 wherever both are set, with matching sizes
pub open spec fn chain_ok(ms: Map<int, int>, d: int) -> bool {
    forall|j: int| ms.dom().contains(j) && ms.dom().contains(j + d) ==>
        nc(#[trigger] ms[j + d]) == nr(ms[j]) && mmul(ms[j + d], ms[j]) == mzero(nr(ms[j + d]), nc(ms[j]))
}

// ---- the four products that change ----
/// S v = 0 for v = the non-pivot rows of Q a0, when a1 a0 = 0   (A' = P a1 Q^-1, ft A' = [0 | S])
pub proof fn lemma_s_a0(a1: int, a0: int, p: int, q: int, r: int, s: int, ft: int, bs: int)
    requires pdim(p) == nr(a1), pdim(q) == nc(a1), nc(a1) == nr(a0), mmul(a1, a0) == mzero(nr(a1), nc(a0)),
        elim_maps(mmul(mmul(pm(p), a1), pmi(q)), s, r, ft, bs),
    ensures mmul(s, mrows(mmul(pm(q), a0), r, nr(a0))) == mzero(nr(s), nc(a0)), nc(s) == nr(a0) - r, nr(mrows(mmul(pm(q), a0), r, nr(a0))) == nr(a0) - r,
        nc(mrows(mmul(pm(q), a0), r, nr(a0))) == nc(a0),
{
    let ap = mmul(mmul(pm(p), a1), pmi(q)); let w = mmul(pm(q), a0); let n = nr(a0); let m = nr(a1);
    bx_perm(p); bx_perm(q); bx_dims(pm(p), a1, 0, 0, 0, 0, 0); bx_dims(mmul(pm(p), a1), pmi(q), 0, 0, 0, 0, 0); bx_dims(pm(q), a0, r, n, 0, 0, 0); bx_dims(w, 0, 0, r, 0, 0, 0); bx_dims(w, 0, r, n, 0, 0, 0);
    // A' w = P a1 Q^-1 Q a0 = P (a1 a0) = 0
    bx_assoc(mmul(pm(p), a1), pmi(q), w); bx_assoc(pmi(q), pm(q), a0); bx_id(a0); bx_assoc(pm(p), a1, a0); bx_zero_mul(pm(p), m, nc(a0));
    assert(mmul(ap, w) == mzero(m, nc(a0)));
    // [0 | S] w = ft (A' w) = 0,  and  [0 | S] [u ; v] = 0 u + S v = S v
    bx_assoc(ft, ap, w); bx_zero_mul(ft, m, nc(a0));
    let (u, v) = (mrows(w, 0, r), mrows(w, r, n));
    bx_split(w, r); bx_concat_stack(mzero(m - r, r), s, u, v); bx_zero_mul(u, m - r, r); bx_dims(s, v, 0, 0, 0, 0, 0); bx_add_zero(mmul(s, v));
}
/// a2' S = 0 for a2' = the non-pivot columns of a2 P^-1, when a2 a1 = 0
pub proof fn lemma_a2_s(a2: int, a1: int, p: int, q: int, r: int, s: int, ft: int, bs: int)
    requires pdim(p) == nr(a1), pdim(q) == nc(a1), nc(a2) == nr(a1), mmul(a2, a1) == mzero(nr(a2), nc(a1)),
        elim_maps(mmul(mmul(pm(p), a1), pmi(q)), s, r, ft, bs),
    ensures mmul(mcols(mmul(a2, pmi(p)), r, nc(a2)), s) == mzero(nr(a2), nc(s)), nr(s) == nc(a2) - r, nc(mcols(mmul(a2, pmi(p)), r, nc(a2))) == nc(a2) - r,
        nr(mcols(mmul(a2, pmi(p)), r, nc(a2))) == nr(a2),
{
    let ap = mmul(mmul(pm(p), a1), pmi(q)); let z = mmul(a2, pmi(p)); let n = nc(a1); let m = nr(a1);
    bx_perm(p); bx_perm(q); bx_dims(pm(p), a1, 0, 0, 0, 0, 0); bx_dims(mmul(pm(p), a1), pmi(q), 0, 0, 0, 0, 0); bx_dims(a2, pmi(p), r, m, 0, 0, 0); bx_dims(z, 0, 0, r, 0, 0, 0); bx_dims(z, 0, r, m, 0, 0, 0);
    // z A' = a2 P^-1 P a1 Q^-1 = (a2 a1) Q^-1 = 0
    bx_assoc(mmul(pm(p), a1), pmi(q), 0); bx_assoc(z, mmul(pm(p), a1), pmi(q)); bx_assoc(z, pm(p), a1); bx_assoc(a2, pmi(p), pm(p)); bx_id(a2); bx_zero_mul(pmi(q), nr(a2), n);
    assert(mmul(z, ap) == mzero(nr(a2), n));
    // z (A' bs) = z [0 ; S] = z1 0 + z2 S = z2 S,  and  (z A') bs = 0
    bx_assoc(z, ap, bs); bx_zero_mul(bs, nr(a2), n);
    let (z1, z2) = (mcols(z, 0, r), mcols(z, r, m));
    bx_split(z, r); bx_concat_stack(z1, z2, mzero(r, n - r), s); bx_zero_mul(z1, r, n - r); bx_dims(z2, s, 0, 0, 0, 0, 0); bx_add_zero(mmul(z2, s));
}
/// a0' x = 0 when a0 x = 0;   y a2' = 0 when y a2 = 0
pub proof fn lemma_outer(a0: int, x: int, q: int, a2: int, y: int, p: int, r: int)
    requires 0 <= r,
    ensures (pdim(q) == nr(a0) && r <= nr(a0) && nc(a0) == nr(x) && mmul(a0, x) == mzero(nr(a0), nc(x))) ==>
            (mmul(mrows(mmul(pm(q), a0), r, nr(a0)), x) == mzero(nr(a0) - r, nc(x)) && nc(mrows(mmul(pm(q), a0), r, nr(a0))) == nr(x) && nr(mrows(mmul(pm(q), a0), r, nr(a0))) == nr(a0) - r),
        (pdim(p) == nc(a2) && r <= nc(a2) && nc(y) == nr(a2) && mmul(y, a2) == mzero(nr(y), nc(a2))) ==>
            (mmul(y, mcols(mmul(a2, pmi(p)), r, nc(a2))) == mzero(nr(y), nc(a2) - r) && nr(mcols(mmul(a2, pmi(p)), r, nc(a2))) == nc(y) && nc(mcols(mmul(a2, pmi(p)), r, nc(a2))) == nc(a2) - r),
{
    bx_perm(q); bx_perm(p);
    bx_dims(pm(q), a0, r, nr(a0), 0, 0, 0); bx_dims(mmul(pm(q), a0), 0, r, nr(a0), 0, 0, 0);
    bx_rows_mul(mmul(pm(q), a0), x, r, nr(a0)); bx_assoc(pm(q), a0, x); bx_zero_mul(pm(q), nr(a0), nc(x)); bx_sub_zero(nr(a0), nc(x), r, nr(a0));
    bx_dims(a2, pmi(p), r, nc(a2), 0, 0, 0); bx_dims(mmul(a2, pmi(p)), 0, r, nc(a2), 0, 0, 0);
    bx_cols_mul(y, mmul(a2, pmi(p)), r, nc(a2)); bx_assoc(y, a2, pmi(p)); bx_zero_mul(pmi(p), nr(y), nc(a2)); bx_sub_zero(nr(y), nc(a2), r, nc(a2));
}
/// the new family of differentials is again a complex
pub proof fn lemma_chain_step(m0: Map<int, int>, d: int, i: int, p: int, q: int, r: int, s: int, ft: int, bs: int)
    requires chain_ok(m0, d), d != 0, m0.dom().contains(i), pdim(p) == nr(m0[i]), pdim(q) == nc(m0[i]),
        elim_maps(mmul(mmul(pm(p), m0[i]), pmi(q)), s, r, ft, bs),
    ensures ({
        let (i0, i2) = (i - d, i + d);
        let m1 = if m0.dom().contains(i0) { m0.insert(i0, mrows(mmul(pm(q), m0[i0]), r, nr(m0[i0]))) } else { m0 };
        let m2 = m1.insert(i, s);
        let m3 = if m0.dom().contains(i2) { m2.insert(i2, mcols(mmul(m0[i2], pmi(p)), r, nc(m0[i2]))) } else { m2 };
        chain_ok(m3, d)
    }),
{
    let (i0, i2) = (i - d, i + d); let a1 = m0[i];
    let m1 = if m0.dom().contains(i0) { m0.insert(i0, mrows(mmul(pm(q), m0[i0]), r, nr(m0[i0]))) } else { m0 };
    let m2 = m1.insert(i, s);
    let m3 = if m0.dom().contains(i2) { m2.insert(i2, mcols(mmul(m0[i2], pmi(p)), r, nc(m0[i2]))) } else { m2 };
    bx_perm(p); bx_perm(q); bx_dims(pm(p), a1, 0, 0, 0, 0, 0); bx_dims(mmul(pm(p), a1), pmi(q), 0, 0, 0, 0, 0);
    assert forall|j: int| m3.dom().contains(j) && m3.dom().contains(j + d) implies
        nc(#[trigger] m3[j + d]) == nr(m3[j]) && mmul(m3[j + d], m3[j]) == mzero(nr(m3[j + d]), nc(m3[j])) by {
        assert(m0.dom().contains(j) && m0.dom().contains(j + d));
        assert(nc(m0[j + d]) == nr(m0[j]) && mmul(m0[j + d], m0[j]) == mzero(nr(m0[j + d]), nc(m0[j])));
        if j == i0 { lemma_s_a0(a1, m0[i0], p, q, r, s, ft, bs); }
        else if j == i { lemma_a2_s(m0[i2], a1, p, q, r, s, ft, bs); }
        else if j + d == i0 { assert(nc(m0[i]) == nr(m0[i0])) by { assert(m0.dom().contains(i0) && m0.dom().contains(i0 + d)); } lemma_outer(m0[i0], m0[j], q, 0, 0, p, r); }
        else if j == i2 { assert(nc(m0[i2]) == nr(m0[i])) by { assert(m0.dom().contains(i) && m0.dom().contains(i + d)); } lemma_outer(0, 0, q, m0[i2], m0[j + d], p, r); }
        else { }
    }
}

impl ChainReducer {
    pub fn matrix(&self, i: Deg) -> (r: Option<&SpMat>) ensures r.is_some() == self.mats.m@.dom().contains(i.g@), r.is_some() ==> r.unwrap().m@ == self.mats.m@[i.g@],
    //@body impl/ChainReducer/matrix
    //@+ sig
    //@| fn matrix(&self, i: I) -> Option<&SpMat<R>>

    pub fn deg_trip(&self, i: Deg) -> (r: (Deg, Deg, Deg)) ensures r.0.g@ == i.g@ - self.d_deg.g@, r.1.g@ == i.g@, r.2.g@ == i.g@ + self.d_deg.g@,
    //@body impl/ChainReducer/deg_trip ring=1 q=i,deg qname=d
    //@+ sig
    //@| fn deg_trip(&self, i: I) -> (I, I, I)

    /// put the reduced matrices in place: d_{i-1} loses its pivot rows, d_i becomes s, d_{i+1} loses its pivot columns
    pub fn update_mats(&mut self, i: Deg, p: &PermOwned, q: &PermOwned, r: usize, s: SpMat)
        requires old(self).d_deg.g@ != 0, r <= pdim(p.p@), r <= pdim(q.p@),
//@if B
            old(self).mats.m@.dom().contains(i.g@ - old(self).d_deg.g@) ==> nr(old(self).mats.m@[i.g@ - old(self).d_deg.g@]) == pdim(q.p@),
            old(self).mats.m@.dom().contains(i.g@ + old(self).d_deg.g@) ==> nc(old(self).mats.m@[i.g@ + old(self).d_deg.g@]) == pdim(p.p@),
//@endif
        ensures ({
            let (m0, d) = (old(self).mats.m@, old(self).d_deg.g@); let (i0, i2) = (i.g@ - d, i.g@ + d);
            let m1 = if m0.dom().contains(i0) { m0.insert(i0, mrows(mmul(pm(q.p@), m0[i0]), r as int, nr(m0[i0]))) } else { m0 };
            let m2 = m1.insert(i.g@, s.m@);
            let m3 = if m0.dom().contains(i2) { m2.insert(i2, mcols(mmul(m0[i2], pmi(p.p@)), r as int, nc(m0[i2]))) } else { m2 };
            &&& final(self).mats.m@ == m3 && final(self).d_deg == old(self).d_deg && final(self).trans == old(self).trans
            &&& (m0.dom().contains(i0) ==> nr(m0[i0]) == pdim(q.p@)) && (m0.dom().contains(i2) ==> nc(m0[i2]) == pdim(p.p@))
        }),
    //@body impl/ChainReducer/update_mats
    //@+ sig
    //@| fn update_mats(&mut self, i: I, p: &PermOwned, q: &PermOwned, r: usize, s: SpMat<R>)
    pub fn trans_mut(&mut self, i: Deg) -> (r: Option<&mut Trans>)
        ensures r.is_some() == old(self).trans.m@.dom().contains(i.g@),
            r.is_some() ==> ((r.unwrap().f@, r.unwrap().b@) == old(self).trans.m@[i.g@] && final(self).trans.m@ == old(self).trans.m@.insert(i.g@, ((*final(r.unwrap())).f@, (*final(r.unwrap())).b@))),
            r.is_none() ==> final(self).trans.m@ == old(self).trans.m@,
            final(self).mats == old(self).mats, final(self).d_deg == old(self).d_deg,
    //@body impl/ChainReducer/trans_mut
    //@+ sig
    //@| fn trans_mut(&mut self, i: I) -> Option<&mut Trans<R>>

    /// compose the transfer maps with the permutation and the Schur maps:  F_i' = f_src Q F_i,  F_{i+1}' = f_tgt P F_{i+1}  (and the backward maps)
    pub fn update_trans(&mut self, i: Deg, p: &PermOwned, q: &PermOwned, t_src: Trans, t_tgt: Trans)
        requires old(self).d_deg.g@ != 0,
        ensures ({
            let (t0, d) = (old(self).trans.m@, old(self).d_deg.g@); let i2 = i.g@ + d;
            let t1 = if t0.dom().contains(i.g@) { t0.insert(i.g@, (mmul(t_src.f@, mmul(pm(q.p@), t0[i.g@].0)), mmul(mmul(t0[i.g@].1, pmi(q.p@)), t_src.b@))) } else { t0 };
            let t2 = if t0.dom().contains(i2) { t1.insert(i2, (mmul(t_tgt.f@, mmul(pm(p.p@), t0[i2].0)), mmul(mmul(t0[i2].1, pmi(p.p@)), t_tgt.b@))) } else { t1 };
            final(self).trans.m@ == t2 && final(self).mats == old(self).mats && final(self).d_deg == old(self).d_deg
        }),
    //@body impl/ChainReducer/update_trans
    //@+ sig
    //@| fn update_trans(&mut self, i: I, p: &PermOwned, q: &PermOwned, t_src: Trans<R>, t_tgt: Trans<R>)

    /// ASSUMED (iter_mut over the tracked vectors, extract / split closures, triangular solves): touches only `vecs`
    #[verifier::external_body] pub fn update_vecs(&mut self, i: Deg, a: &SpMat, p: &PermOwned, q: &PermOwned, r: usize, t: TriangularType)
        ensures final(self).mats == old(self).mats, final(self).trans == old(self).trans, final(self).d_deg == old(self).d_deg { unimplemented!() }

    /// one reduction step at degree i: the differentials still compose to zero
    pub fn reduce_at_spec(&mut self, i: Deg, piv_type: PivotType, piv_cond: PivotCondition) -> (res: bool)
        requires old(self).d_deg.g@ != 0, chain_ok(old(self).mats.m@, old(self).d_deg.g@),
//@if B
            old(self).mats.m@.dom().contains(i.g@),
//@endif
        ensures old(self).mats.m@.dom().contains(i.g@), chain_ok(final(self).mats.m@, old(self).d_deg.g@), final(self).d_deg == old(self).d_deg,
            !res ==> (final(self).mats == old(self).mats && final(self).trans == old(self).trans),
    //@body impl/ChainReducer/reduce_at_spec for_iter=1 ring=1 machine=r q=i,d_deg qname=d
    //@+ sig
    //@| fn reduce_at_spec(&mut self, i: I, piv_type: PivotType, piv_cond: PivotCondition) -> bool
    //@+ pre-raw
    //@| let ghost (m0, dd) = (self.mats.m@, self.d_deg.g@);
    //@+ after-let r
    //@| bx_perm(p.p@); bx_perm(q.p@);
    //@+ after-let-raw s
    //@| let ghost (gs, ap) = (s.m@, a.m@);
    //@+ after-let s
    //@| let (ft, bs) = choose|ft: int, bs: int| #[trigger] elim_maps(ap, gs, r as int, ft, bs);
    //@| lemma_chain_step(m0, dd, i.g@, p.p@, q.p@, r as int, gs, ft, bs);
    //@| if m0.dom().contains(i.g@ - dd) { assert(nc(m0[i.g@ - dd + dd]) == nr(m0[i.g@ - dd])); }
    //@| if m0.dom().contains(i.g@ + dd) { assert(nc(m0[i.g@ + dd]) == nr(m0[i.g@])); }
}

} // verus!
fn main() {}
