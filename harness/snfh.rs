// C09 (Smith normal form) — witness search / replay on the real crate: 3x3 integer matrices with small
// entries; D = P A Q, P P^-1 = I, Q Q^-1 = I, D diagonal with non-zero entries first, normalised and
// each dividing the next.  (nalgebra is outside Kani's reach: native replay only.)
use super::src::*;
use crate::{ob, reach};
use yui_matrix::dense::{snf::snf, Mat};
pub fn snf_small(s: &mut Src) -> R {
    let mut e = [0i64; 9];
    for k in 0..9 { e[k] = s.small(-6, 6); }
    reach!();
    let a = Mat::from_data((3, 3), e);
    let r = snf(&a, [true; 4]);
    let d = r.result().clone();
    let (p, pinv, q, qinv) = (r.p().unwrap(), r.pinv().unwrap(), r.q().unwrap(), r.qinv().unwrap());
    ob!(&(p * &a) * q == d, "snf::D==P.A.Q");
    ob!(p * pinv == Mat::id(3) && q * qinv == Mat::id(3), "snf::P.Pinv==I-and-Q.Qinv==I");
    ob!(d.is_diag(), "snf::D-is-diagonal");
    let v = [d[(0, 0)], d[(1, 1)], d[(2, 2)]];
    ob!(v.iter().all(|x| *x >= 0), "snf::diagonal-normalised");
    ob!(!(v[0] == 0 && v[1] != 0) && !(v[1] == 0 && v[2] != 0), "snf::non-zero-entries-first");
    ob!((v[1] == 0 || v[1] % v[0] == 0) && (v[2] == 0 || v[2] % v[1] == 0), "snf::each-entry-divides-the-next");
    Ok(())
}
crate::harness_table!(SNF: snf_small [unwind 4]);
