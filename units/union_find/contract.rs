// Contract overlay for yui/src/misc/union_find.rs (property C12, union-find kernel used by the
// direct-sum decomposition's column grouping).  View: the partition of 0..n into classes
// `same(i, j) <=> root_of(i) == root_of(j)`.  Postconditions speak about the WHOLE partition, so a
// change that corrupts other classes fails.
use vstd::prelude::*;
verus! {
//@include prelude/rt.rs
//@source yui/src/misc/union_find.rs

// std contracts assumed (TRUSTED): (a..b).collect::<Vec<usize>>() and Vec::extend(a..b)
#[verifier::external_body]
pub fn collect_range(a: usize, b: usize) -> (v: Vec<usize>)
    ensures v@.len() == (if b >= a { b - a } else { 0 }), forall|k: int| 0 <= k < v@.len() ==> v@[k] == a + k
{ (a..b).collect() }
#[verifier::external_body]
pub fn extend_range(v: &mut Vec<usize>, a: usize, b: usize)
    ensures final(v)@.len() == old(v)@.len() + (if b >= a { b - a } else { 0 }),
        forall|k: int| 0 <= k < old(v)@.len() ==> final(v)@[k] == old(v)@[k],
        forall|k: int| old(v)@.len() <= k < final(v)@.len() ==> final(v)@[k] == a + (k - old(v)@.len())
{ v.extend(a..b) }

pub open spec fn pwf(p: Seq<usize>) -> bool { forall|i: int| 0 <= i < p.len() ==> #[trigger] p[i] <= i }
pub open spec fn root_of(p: Seq<usize>, i: int) -> int
    decreases i
{ if 0 <= i < p.len() && (p[i] as int) < i { root_of(p, p[i] as int) } else { i } }
pub open spec fn same(p: Seq<usize>, i: int, j: int) -> bool { root_of(p, i) == root_of(p, j) }

pub proof fn lemma_root_props(p: Seq<usize>, i: int)
    requires pwf(p), 0 <= i < p.len()
    ensures 0 <= root_of(p, i) <= i, p[root_of(p, i)] == root_of(p, i), root_of(p, root_of(p, i)) == root_of(p, i)
    decreases i
{ if (p[i] as int) < i { lemma_root_props(p, p[i] as int); } }

/// linking root rj below root ri (ri < rj): every element of rj's class moves to ri, nothing else changes
pub proof fn lemma_root_link(p: Seq<usize>, ri: int, rj: int, a: int)
    requires pwf(p), 0 <= ri < rj < p.len(), p[ri] == ri, p[rj] == rj, 0 <= a < p.len()
    ensures root_of(p.update(rj, ri as usize), a) == (if root_of(p, a) == rj { ri } else { root_of(p, a) })
    decreases a
{
    let q = p.update(rj, ri as usize);
    if a == rj {
        assert(q[rj] == ri); assert(q[ri] == ri);
        assert(root_of(q, ri) == ri);
    } else if (p[a] as int) < a {
        lemma_root_link(p, ri, rj, p[a] as int);
    }
}
/// appended singletons do not change the old classes
pub proof fn lemma_root_extend(p: Seq<usize>, q: Seq<usize>, a: int)
    requires pwf(p), p.len() <= q.len(), forall|k: int| 0 <= k < p.len() ==> q[k] == p[k], 0 <= a < p.len()
    ensures root_of(q, a) == root_of(p, a)
    decreases a
{ if (p[a] as int) < a { lemma_root_extend(p, q, p[a] as int); } }

//@item struct/UnionFind

impl UnionFind {
    pub open spec fn wf(&self) -> bool { pwf(self.p@) }

    pub fn new(n: usize) -> (r: UnionFind)
        ensures r.wf(), r.p@.len() == n, forall|i: int| 0 <= i < n ==> root_of(r.p@, i) == i,
    //@body impl/UnionFind/new
    //@+ sig
    //@| fn new(n: usize) -> Self

    pub fn extend(&mut self, l: usize)
        requires old(self).wf(), old(self).p@.len() + l <= usize::MAX,
        ensures final(self).wf(), final(self).p@.len() == old(self).p@.len() + l,
            forall|i: int| 0 <= i < old(self).p@.len() ==> root_of(final(self).p@, i) == root_of(old(self).p@, i),
            forall|i: int| old(self).p@.len() <= i < final(self).p@.len() ==> root_of(final(self).p@, i) == i,
    //@body impl/UnionFind/extend
    //@+ sig
    //@| fn extend(&mut self, l: usize)
    //@+ post
    //@| assert forall|i: int| 0 <= i < old(self).p@.len() implies root_of(self.p@, i) == root_of(old(self).p@, i) by {
    //@|     lemma_root_extend(old(self).p@, self.p@, i);
    //@| }

    pub fn size(&self) -> (r: usize)
        ensures r == self.p@.len(),
    //@body impl/UnionFind/size
    //@+ sig
    //@| fn size(&self) -> usize

    pub fn root(&self, i: usize) -> (r: usize)
        requires self.wf(), i < self.p@.len(),
        ensures r == root_of(self.p@, i as int), r <= i, self.p@[r as int] == r,
        decreases i
    //@body impl/UnionFind/root
    //@+ sig
    //@| fn root(&self, i: usize) -> usize
    //@+ pre
    //@| lemma_root_props(self.p@, i as int);

    pub fn is_same(&self, i: usize, j: usize) -> (r: bool)
        requires self.wf(), i < self.p@.len(), j < self.p@.len(),
        ensures r == same(self.p@, i as int, j as int),
    //@body impl/UnionFind/is_same
    //@+ sig
    //@| fn is_same(&self, i: usize, j: usize) -> bool

    pub fn union(&mut self, i: usize, j: usize)
        requires old(self).wf(), i < old(self).p@.len(), j < old(self).p@.len(),
        ensures final(self).wf(), final(self).p@.len() == old(self).p@.len(),
            // the new partition is the old one with the classes of i and j merged — and nothing else
            forall|a: int, b: int| 0 <= a < old(self).p@.len() && 0 <= b < old(self).p@.len() ==>
                (#[trigger] same(final(self).p@, a, b) <==> (same(old(self).p@, a, b)
                    || (same(old(self).p@, a, i as int) && same(old(self).p@, j as int, b))
                    || (same(old(self).p@, a, j as int) && same(old(self).p@, i as int, b)))),
    //@body impl/UnionFind/union
    //@+ sig
    //@| fn union(&mut self, i: usize, j: usize)
    //@+ post
    //@| let p0 = old(self).p@; let ri = root_of(p0, i as int); let rj = root_of(p0, j as int);
    //@| lemma_root_props(p0, i as int); lemma_root_props(p0, j as int);
    //@| assert forall|a: int, b: int| 0 <= a < p0.len() && 0 <= b < p0.len() implies
    //@|     (#[trigger] same(self.p@, a, b) <==> (same(p0, a, b) || (same(p0, a, i as int) && same(p0, j as int, b)) || (same(p0, a, j as int) && same(p0, i as int, b)))) by {
    //@|     if ri < rj { lemma_root_link(p0, ri, rj, a); lemma_root_link(p0, ri, rj, b); }
    //@|     if rj < ri { lemma_root_link(p0, rj, ri, a); lemma_root_link(p0, rj, ri, b); }
    //@| }
}

} // verus!
fn main() {}
