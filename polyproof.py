#!/usr/bin/env python3
"""polyproof.py — emit a Verus proof of a polynomial identity over int, decomposed so that every
solver query is tiny (bilinear expansions over opaque monomials + pure monomial re-associations).
Used at overlay-writing time; the generated text is committed in the overlays and re-checked by
Verus on every run (nothing generated here is trusted).

usage: polyproof.py NAME "a,b,c" "LHS" "RHS"       (expressions use + - * and parentheses)
"""
import ast
import itertools
import sys


def parse(s):
    return ast.parse(s, mode='eval').body


class Gen:
    def __init__(self):
        self.lines = []
        self.k = 0
        self.mons = {}

    def mon_text(self, m):
        if not m:
            return '1'
        t = m[0]
        for v in m[1:]:
            t = '(%s * %s)' % (t, v)
        return t

    def mon_name(self, m):
        if m not in self.mons:
            name = 'm_' + ('_'.join(m) if m else '1')
            self.mons[m] = name
            self.lines.append('let %s: int = %s;' % (name, self.mon_text(m)))
        return self.mons[m]

    def nf_text(self, nf):
        terms = []
        for m in sorted(nf):
            c = nf[m]
            if c == 0:
                continue
            terms.append('(%s) * %s' % (c, self.mon_name(m)))
        return ' + '.join(terms) if terms else '0'

    def node(self, e):
        """returns (name, nf)"""
        self.k += 1
        n = 'n%d' % self.k
        if isinstance(e, ast.Name):
            nf = {(e.id,): 1}
            self.nf_text(nf)
            self.lines.append('let %s: int = %s;' % (n, e.id))
        elif isinstance(e, ast.Constant):
            nf = {(): int(e.value)} if int(e.value) != 0 else {}
            self.nf_text(nf)
            self.lines.append('let %s: int = %s;' % (n, int(e.value)))
        elif isinstance(e, ast.UnaryOp) and isinstance(e.op, ast.USub):
            a, na = self.node(e.operand)
            nf = {m: -c for m, c in na.items()}
            self.lines.append('let %s: int = -%s;' % (n, a))
        elif isinstance(e, ast.BinOp) and isinstance(e.op, (ast.Add, ast.Sub)):
            a, na = self.node(e.left)
            b, nb = self.node(e.right)
            sgn = 1 if isinstance(e.op, ast.Add) else -1
            nf = dict(na)
            for m, c in nb.items():
                nf[m] = nf.get(m, 0) + sgn * c
            nf = {m: c for m, c in nf.items() if c != 0}
            self.nf_text(nf)
            self.lines.append('let %s: int = %s %s %s;' % (n, a, '+' if sgn == 1 else '-', b))
        elif isinstance(e, ast.BinOp) and isinstance(e.op, ast.Mult):
            a, na = self.node(e.left)
            b, nb = self.node(e.right)
            nf = {}
            pairs = list(itertools.product(sorted(na.items()), sorted(nb.items())))
            for (m1, c1), (m2, c2) in pairs:
                m = tuple(sorted(m1 + m2))
                nf[m] = nf.get(m, 0) + c1 * c2
            nf = {m: c for m, c in nf.items() if c != 0}
            self.nf_text(nf)
            self.lines.append('let %s: int = %s * %s;' % (n, a, b))
            prods = ['(%s) * (%s * %s)' % (c1 * c2, self.mon_name(m1), self.mon_name(m2)) for (m1, c1), (m2, c2) in pairs]
            exp = ' + '.join(prods) if prods else '0'
            # bilinear expansion over opaque monomial values
            self.lines.append('assert(%s == %s) by (nonlinear_arith) requires %s == %s * %s, %s == %s, %s == %s;'
                              % (n, exp, n, a, b, a, self.nf_text(na), b, self.nf_text(nb)))
            for (m1, c1), (m2, c2) in pairs:
                m = tuple(sorted(m1 + m2))
                self.lines.append('assert(%s * %s == %s) by (nonlinear_arith) requires %s;'
                                  % (self.mon_name(m1), self.mon_name(m2), self.mon_name(m),
                                     ', '.join('%s == %s' % (self.mon_name(x), self.mon_text(x)) for x in (m1, m2, m))))
        else:
            raise SystemExit('unsupported expression: ' + ast.dump(e))
        self.lines.append('assert(%s == %s);' % (n, self.nf_text(nf)))
        return n, nf


def gen(name, vars_, lhs, rhs):
    g = Gen()
    l, nl = g.node(parse(lhs))
    r, nr = g.node(parse(rhs))
    if {m: c for m, c in nl.items() if c} != {m: c for m, c in nr.items() if c}:
        raise SystemExit('NOT AN IDENTITY: %s vs %s' % (nl, nr))
    lets = [x for x in g.lines if x.startswith('let m_')]
    rest = [x for x in g.lines if not x.startswith('let m_')]
    params = ', '.join('%s: int' % v.strip() for v in vars_.split(','))
    out = ['pub proof fn %s(%s)' % (name, params), '    ensures %s == %s' % (lhs, rhs), '{']
    out += ['    ' + x for x in lets + rest]
    out += ['    assert(%s == %s);' % (l, r), '}']
    return '\n'.join(out)


if __name__ == '__main__':
    print(gen(*sys.argv[1:5]))
