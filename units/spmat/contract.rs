// Contract overlay for the block split of the sparse matrix container (yui-matrix/src/sparse/sp_mat.rs: SpMat::divide4), property C13:
// divide4((k, l)) returns the four blocks [A B; C D] of M at row k / column l: each block has the right shape and entry (i, j) of a block
// is the entry of M at the shifted position.  M is given by its stored entries (positions pairwise different -- the CSC invariant); the
// coordinate buffers the blocks are assembled in are modelled by the sequence of pushed triples (ASSUMED of nalgebra-sparse's CooMatrix /
// CscMatrix::from: the matrix of a duplicate-free triple list has exactly those entries).
use vstd::prelude::*;
verus! {
//@include prelude/rt.rs
//@include prelude/er.rs
//@source yui-matrix/src/sparse/sp_mat.rs

/// a stored entry: (row, column, value)
pub type Tv = (usize, usize, int);
pub open spec fn has(es: Seq<Tv>, i: int, j: int) -> bool { exists|t: int| 0 <= t < es.len() && (#[trigger] es[t]).0 == i && es[t].1 == j }
pub open spec fn pos(es: Seq<Tv>, i: int, j: int) -> int { choose|t: int| 0 <= t < es.len() && (#[trigger] es[t]).0 == i && es[t].1 == j }
/// value of the matrix with the duplicate-free entry list `es` at (i, j)
pub open spec fn val(es: Seq<Tv>, i: int, j: int) -> int { if has(es, i, j) { es[pos(es, i, j)].2 } else { r0() } }
pub open spec fn distinct(es: Seq<Tv>) -> bool { forall|s: int, t: int| 0 <= s < t < es.len() ==> !(#[trigger] es[s].0 == #[trigger] es[t].0 && es[s].1 == es[t].1) }
pub open spec fn inside(es: Seq<Tv>, m: int, n: int) -> bool { forall|t: int| 0 <= t < es.len() ==> (#[trigger] es[t]).0 < m && es[t].1 < n }
pub proof fn lemma_val(es: Seq<Tv>, t: int)
    requires distinct(es), 0 <= t < es.len()
    ensures has(es, es[t].0 as int, es[t].1 as int), val(es, es[t].0 as int, es[t].1 as int) == es[t].2
{
    let (i, j) = (es[t].0 as int, es[t].1 as int);
    assert(has(es, i, j));
    let p = pos(es, i, j);
    if p < t { assert(!(es[p].0 == es[t].0 && es[p].1 == es[t].1)); } else if t < p { assert(!(es[t].0 == es[p].0 && es[t].1 == es[p].1)); }
}

/// sprs::PermView by its index map i |-> at(i) (ASSUMED: a permutation of 0..dim)
pub struct PermView { pub m: Ghost<Seq<usize>> }
impl PermView {
    pub open spec fn wf(&self, n: int) -> bool { self.m@.len() == n && (forall|i: int| 0 <= i < n ==> (#[trigger] self.m@[i]) < n) && (forall|i: int, j: int| 0 <= i < j < n ==> #[trigger] self.m@[i] != #[trigger] self.m@[j]) }
    #[verifier::external_body] pub fn at(&self, i: usize) -> (r: usize) requires i < self.m@.len() ensures r == self.m@[i as int] { unimplemented!() }
    #[verifier::external_body] pub fn identity(n: usize) -> (r: PermView) ensures r.m@.len() == n, forall|i: int| 0 <= i < n ==> #[trigger] r.m@[i] == i { unimplemented!() }
}
pub struct SpMat { pub sh: Ghost<(usize, usize)>, pub es: Ghost<Seq<Tv>> }
impl SpMat {
    pub open spec fn wf(&self) -> bool { distinct(self.es@) && inside(self.es@, self.sh@.0 as int, self.sh@.1 as int) }
    pub open spec fn at(&self, i: int, j: int) -> int { val(self.es@, i, j) }
    #[verifier::external_body] pub fn shape(&self) -> (r: (usize, usize)) ensures r == self.sh@ { unimplemented!() }
    #[verifier::external_body] pub fn iter(&self) -> (r: EIter<'_>) ensures r.es@ == self.es@, r.pos@ == 0 { unimplemented!() }
}
pub struct EIter<'a> { pub es: Ghost<Seq<Tv>>, pub pos: Ghost<int>, pub w: Option<&'a ER> }
impl<'a> EIter<'a> {
    pub fn into_iter(self) -> (r: Self) ensures r == self { self }
    #[verifier::external_body] pub fn next(&mut self) -> (r: Option<(usize, usize, &'a ER)>)
        requires 0 <= old(self).pos@ <= old(self).es@.len()
        ensures final(self).es@ == old(self).es@,
            old(self).pos@ < old(self).es@.len() ==> (final(self).pos@ == old(self).pos@ + 1 && r.is_some() && r.unwrap().0 == old(self).es@[old(self).pos@].0 && r.unwrap().1 == old(self).es@[old(self).pos@].1 && r.unwrap().2.v() == old(self).es@[old(self).pos@].2),
            old(self).pos@ >= old(self).es@.len() ==> (final(self).pos@ == old(self).pos@ && r.is_none()),
    { unimplemented!() }
}
/// nalgebra-sparse's coordinate buffer: `push` appends a triple (it does not return for a position outside the shape)
pub struct CooMatrix { pub sh: Ghost<(usize, usize)>, pub es: Ghost<Seq<Tv>> }
impl CooMatrix {
    #[verifier::external_body] pub fn new(r: usize, c: usize) -> (x: CooMatrix) ensures x.sh@ == (r, c), x.es@.len() == 0 { unimplemented!() }
    #[verifier::external_body] pub fn push(&mut self, i: usize, j: usize, v: ER)
//@if B
        requires i < old(self).sh@.0, j < old(self).sh@.1,
//@endif
        ensures i < old(self).sh@.0, j < old(self).sh@.1, final(self).sh == old(self).sh, final(self).es@ == old(self).es@.push((i, j, v.v())) { unimplemented!() }
}
/// `CscMatrix::from(&coo).into()`: the matrix with those triples (ASSUMED for duplicate-free lists)
pub struct CscM { pub sh: Ghost<(usize, usize)>, pub es: Ghost<Seq<Tv>> }
#[verifier::external_body] pub fn csc_from_(x: &CooMatrix) -> (r: CscM) ensures r.sh@ == x.sh@, r.es@ == x.es@ { unimplemented!() }
impl CscM { #[verifier::external_body] pub fn into(self) -> (r: SpMat) ensures r.sh@ == self.sh@, r.es@ == self.es@ { unimplemented!() } }

#[verifier::external_body] pub fn from_csc_(x: CscM) -> (r: SpMat) ensures r.sh@ == x.sh@, r.es@ == x.es@ { unimplemented!() }
/// by-value iteration of a Vec (ASSUMED std contract)
pub struct VOwnIter<T> { pub es: Ghost<Seq<T>>, pub pos: Ghost<int>, pub w: Option<T> }
#[verifier::external_body] pub fn viter_own_<T>(v: Vec<T>) -> (r: VOwnIter<T>) ensures r.es@ == v@, r.pos@ == 0 { unimplemented!() }
impl<T> VOwnIter<T> {
    pub fn into_iter(self) -> (r: Self) ensures r == self { self }
    #[verifier::external_body] pub fn next(&mut self) -> (r: Option<T>)
        requires 0 <= old(self).pos@ <= old(self).es@.len()
        ensures final(self).es@ == old(self).es@,
            old(self).pos@ < old(self).es@.len() ==> (final(self).pos@ == old(self).pos@ + 1 && r == Some(old(self).es@[old(self).pos@])),
            old(self).pos@ >= old(self).es@.len() ==> (final(self).pos@ == old(self).pos@ && r.is_none()),
    { unimplemented!() }
}
/// a list of (row, column, value) triples handed to from_entries, as stored-entry triples
pub open spec fn tv(v: Seq<(usize, usize, ER)>) -> Seq<Tv> { Seq::new(v.len(), |t: int| (v[t].0, v[t].1, v[t].2.v())) }
/// every entry moved by (di, dj)
pub open spec fn shl(es: Seq<Tv>, di: int, dj: int) -> Seq<Tv> { Seq::new(es.len(), |t: int| ((es[t].0 + di) as usize, (es[t].1 + dj) as usize, es[t].2)) }

/// does a stored entry of M go into block (bi, bj) of the split at (k, l) (zero values are dropped), and where
pub open spec fn inblk(e: Tv, k: int, l: int, bi: int, bj: int) -> bool { ((e.0 < k) == (bi == 0)) && ((e.1 < l) == (bj == 0)) && e.2 != r0() }
pub open spec fn shift(e: Tv, k: int, l: int, bi: int, bj: int) -> Tv { ((e.0 - (if bi == 1 { k } else { 0 })) as usize, (e.1 - (if bj == 1 { l } else { 0 })) as usize, e.2) }
/// what the loop has pushed into the buffer of block (bi, bj) after the first p stored entries
pub open spec fn bsel(es: Seq<Tv>, p: int, k: int, l: int, bi: int, bj: int) -> Seq<Tv> decreases p {
    if p <= 0 { Seq::empty() } else if inblk(es[p - 1], k, l, bi, bj) { bsel(es, p - 1, k, l, bi, bj).push(shift(es[p - 1], k, l, bi, bj)) } else { bsel(es, p - 1, k, l, bi, bj) }
}
/// the stored entry the u-th element of bsel comes from
pub open spec fn src(es: Seq<Tv>, p: int, k: int, l: int, bi: int, bj: int, u: int) -> int decreases p {
    if p <= 0 { -1 } else if inblk(es[p - 1], k, l, bi, bj) && u == bsel(es, p - 1, k, l, bi, bj).len() { p - 1 } else { src(es, p - 1, k, l, bi, bj, u) }
}
pub proof fn lemma_src(es: Seq<Tv>, p: int, k: int, l: int, bi: int, bj: int, u: int)
    requires 0 <= p <= es.len(), 0 <= u < bsel(es, p, k, l, bi, bj).len()
    ensures 0 <= src(es, p, k, l, bi, bj, u) < p, inblk(es[src(es, p, k, l, bi, bj, u)], k, l, bi, bj), bsel(es, p, k, l, bi, bj)[u] == shift(es[src(es, p, k, l, bi, bj, u)], k, l, bi, bj),
        forall|u2: int| u < u2 < bsel(es, p, k, l, bi, bj).len() ==> src(es, p, k, l, bi, bj, u) < #[trigger] src(es, p, k, l, bi, bj, u2),
    decreases p
{
    if p > 0 {
        let b0 = bsel(es, p - 1, k, l, bi, bj);
        if inblk(es[p - 1], k, l, bi, bj) {
            if u < b0.len() { lemma_src(es, p - 1, k, l, bi, bj, u); }
            assert forall|u2: int| u < u2 < bsel(es, p, k, l, bi, bj).len() implies src(es, p, k, l, bi, bj, u) < #[trigger] src(es, p, k, l, bi, bj, u2) by {
                assert(bsel(es, p, k, l, bi, bj).len() == b0.len() + 1);
                if u2 < b0.len() { assert(src(es, p, k, l, bi, bj, u2) == src(es, p - 1, k, l, bi, bj, u2)); assert(src(es, p - 1, k, l, bi, bj, u) < src(es, p - 1, k, l, bi, bj, u2)); }
                else { assert(u2 == b0.len()); assert(src(es, p, k, l, bi, bj, u2) == p - 1); assert(src(es, p, k, l, bi, bj, u) == src(es, p - 1, k, l, bi, bj, u)); }
            }
        } else {
            lemma_src(es, p - 1, k, l, bi, bj, u);
            assert forall|u2: int| u < u2 < bsel(es, p, k, l, bi, bj).len() implies src(es, p, k, l, bi, bj, u) < #[trigger] src(es, p, k, l, bi, bj, u2) by {
                assert(src(es, p - 1, k, l, bi, bj, u) < src(es, p - 1, k, l, bi, bj, u2));
            }
        }
    }
}
/// number of block entries among the first t stored entries = index in bsel of the entry t
pub proof fn lemma_idx(es: Seq<Tv>, p: int, k: int, l: int, bi: int, bj: int, t: int)
    requires 0 <= t < p <= es.len(), inblk(es[t], k, l, bi, bj)
    ensures 0 <= bsel(es, t, k, l, bi, bj).len() < bsel(es, p, k, l, bi, bj).len(), bsel(es, p, k, l, bi, bj)[bsel(es, t, k, l, bi, bj).len() as int] == shift(es[t], k, l, bi, bj)
    decreases p
{
    if p - 1 == t { } else { lemma_idx(es, p - 1, k, l, bi, bj, t); }
}
pub proof fn lemma_bsel_done(es: Seq<Tv>, k: int, l: int, bi: int, bj: int, m: int, n: int)
    requires distinct(es), inside(es, m, n), 0 <= k <= m, 0 <= l <= n, (bi == 0 || bi == 1), (bj == 0 || bj == 1),
    ensures ({ let x = bsel(es, es.len() as int, k, l, bi, bj); let (bm, bn) = (if bi == 0 { k } else { m - k }, if bj == 0 { l } else { n - l });
        distinct(x) && inside(x, bm, bn) && forall|i: int, j: int| 0 <= i < bm && 0 <= j < bn ==> #[trigger] val(x, i, j) == val(es, i + (if bi == 1 { k } else { 0 }), j + (if bj == 1 { l } else { 0 })) }),
{
    let p = es.len() as int;
    let x = bsel(es, p, k, l, bi, bj);
    let (bm, bn) = (if bi == 0 { k } else { m - k }, if bj == 0 { l } else { n - l });
    let (di, dj) = (if bi == 1 { k } else { 0 }, if bj == 1 { l } else { 0 });
    assert forall|u: int| 0 <= u < x.len() implies (#[trigger] x[u]).0 < bm && x[u].1 < bn by { lemma_src(es, p, k, l, bi, bj, u); let t = src(es, p, k, l, bi, bj, u); assert(es[t].0 < m && es[t].1 < n); }
    assert forall|s1: int, t1: int| 0 <= s1 < t1 < x.len() implies !(#[trigger] x[s1].0 == #[trigger] x[t1].0 && x[s1].1 == x[t1].1) by {
        lemma_src(es, p, k, l, bi, bj, s1); lemma_src(es, p, k, l, bi, bj, t1);
        let (a, b) = (src(es, p, k, l, bi, bj, s1), src(es, p, k, l, bi, bj, t1));
        assert(a < b); assert(!(es[a].0 == es[b].0 && es[a].1 == es[b].1));
    }
    assert forall|i: int, j: int| 0 <= i < bm && 0 <= j < bn implies #[trigger] val(x, i, j) == val(es, i + di, j + dj) by {
        if has(x, i, j) {
            let u = pos(x, i, j);
            lemma_src(es, p, k, l, bi, bj, u);
            lemma_val(es, src(es, p, k, l, bi, bj, u));
        } else if has(es, i + di, j + dj) {
            let t = pos(es, i + di, j + dj);
            lemma_val(es, t);
            if es[t].2 != r0() {
                assert(inblk(es[t], k, l, bi, bj));
                lemma_idx(es, p, k, l, bi, bj, t);
                let u = bsel(es, t, k, l, bi, bj).len() as int;
                assert(x[u].0 == i && x[u].1 == j);
                assert(has(x, i, j));
            }
        }
    }
}
/// what extract says about one stored entry e and the value o of the position map there
pub open spec fn ext_at<F: Fn(usize, usize) -> Option<(usize, usize)>>(f: F, e: Tv, shape: (usize, usize), r: SpMat, o: Option<(usize, usize)>) -> bool {
    f.ensures((e.0, e.1), o) && (o.is_some() ==> ((e.2 != r0() ==> o.unwrap().0 < shape.0 && o.unwrap().1 < shape.1)
        && (o.unwrap().0 < shape.0 && o.unwrap().1 < shape.1 ==> r.at(o.unwrap().0 as int, o.unwrap().1 as int) == e.2)))
}
pub open spec fn ext_ok<F: Fn(usize, usize) -> Option<(usize, usize)>>(f: F, e: Tv, shape: (usize, usize), r: SpMat) -> bool { exists|o: Option<(usize, usize)>| #[trigger] ext_at(f, e, shape, r, o) }
/// what extract hands to from_entries after the first p stored entries: the entries whose position map value os[t] is defined, moved there
pub open spec fn fsel(es: Seq<Tv>, os: Seq<Option<(usize, usize)>>, p: int) -> Seq<Tv> decreases p {
    if p <= 0 { Seq::empty() } else if os[p - 1].is_some() { fsel(es, os, p - 1).push((os[p - 1].unwrap().0, os[p - 1].unwrap().1, es[p - 1].2)) } else { fsel(es, os, p - 1) }
}
pub open spec fn fsrc(es: Seq<Tv>, os: Seq<Option<(usize, usize)>>, p: int, u: int) -> int decreases p {
    if p <= 0 { -1 } else if os[p - 1].is_some() && u == fsel(es, os, p - 1).len() { p - 1 } else { fsrc(es, os, p - 1, u) }
}
/// fsel looks at os[0..p) only
pub proof fn lemma_fsel_ext(es: Seq<Tv>, os0: Seq<Option<(usize, usize)>>, os: Seq<Option<(usize, usize)>>, p: int)
    requires 0 <= p <= os0.len(), os0.len() <= os.len(), forall|t: int| 0 <= t < os0.len() ==> os[t] == os0[t]
    ensures fsel(es, os, p) == fsel(es, os0, p)
    decreases p
{ if p > 0 { lemma_fsel_ext(es, os0, os, p - 1); } }
pub proof fn lemma_fsrc(es: Seq<Tv>, os: Seq<Option<(usize, usize)>>, p: int, u: int)
    requires 0 <= p <= es.len(), p <= os.len(), 0 <= u < fsel(es, os, p).len()
    ensures 0 <= fsrc(es, os, p, u) < p, os[fsrc(es, os, p, u)].is_some(),
        fsel(es, os, p)[u] == (os[fsrc(es, os, p, u)].unwrap().0, os[fsrc(es, os, p, u)].unwrap().1, es[fsrc(es, os, p, u)].2),
        forall|u2: int| u < u2 < fsel(es, os, p).len() ==> fsrc(es, os, p, u) < #[trigger] fsrc(es, os, p, u2),
    decreases p
{
    if p > 0 {
        let b0 = fsel(es, os, p - 1);
        if os[p - 1].is_some() {
            if u < b0.len() { lemma_fsrc(es, os, p - 1, u); }
            assert forall|u2: int| u < u2 < fsel(es, os, p).len() implies fsrc(es, os, p, u) < #[trigger] fsrc(es, os, p, u2) by {
                assert(fsel(es, os, p).len() == b0.len() + 1);
                if u2 < b0.len() { assert(fsrc(es, os, p, u2) == fsrc(es, os, p - 1, u2)); assert(fsrc(es, os, p - 1, u) < fsrc(es, os, p - 1, u2)); }
                else { assert(u2 == b0.len()); assert(fsrc(es, os, p, u2) == p - 1); assert(fsrc(es, os, p, u) == fsrc(es, os, p - 1, u)); }
            }
        } else {
            lemma_fsrc(es, os, p - 1, u);
            assert forall|u2: int| u < u2 < fsel(es, os, p).len() implies fsrc(es, os, p, u) < #[trigger] fsrc(es, os, p, u2) by {
                assert(fsrc(es, os, p - 1, u) < fsrc(es, os, p - 1, u2));
            }
        }
    }
}
pub proof fn lemma_fidx(es: Seq<Tv>, os: Seq<Option<(usize, usize)>>, p: int, t: int)
    requires 0 <= t < p <= es.len(), p <= os.len(), os[t].is_some()
    ensures 0 <= fsel(es, os, t).len() < fsel(es, os, p).len(), fsel(es, os, p)[fsel(es, os, t).len() as int] == (os[t].unwrap().0, os[t].unwrap().1, es[t].2)
    decreases p
{ if p - 1 == t { } else { lemma_fidx(es, os, p - 1, t); } }
/// dropping the zero values (and whatever lies outside the shape) of a duplicate-free list keeps it duplicate-free and keeps every value inside the shape
pub proof fn lemma_nz(es: Seq<Tv>, m: int, n: int)
    requires distinct(es), 0 <= m, 0 <= n
    ensures ({ let x = bsel(es, es.len() as int, m, n, 0, 0); distinct(x) && inside(x, m, n) && forall|i: int, j: int| 0 <= i < m && 0 <= j < n ==> #[trigger] val(x, i, j) == val(es, i, j) }),
{
    let p = es.len() as int;
    let x = bsel(es, p, m, n, 0, 0);
    assert forall|u: int| 0 <= u < x.len() implies (#[trigger] x[u]).0 < m && x[u].1 < n by { lemma_src(es, p, m, n, 0, 0, u); }
    assert forall|s1: int, t1: int| 0 <= s1 < t1 < x.len() implies !(#[trigger] x[s1].0 == #[trigger] x[t1].0 && x[s1].1 == x[t1].1) by {
        lemma_src(es, p, m, n, 0, 0, s1); lemma_src(es, p, m, n, 0, 0, t1);
        let (a, b) = (src(es, p, m, n, 0, 0, s1), src(es, p, m, n, 0, 0, t1));
        assert(a < b); assert(!(es[a].0 == es[b].0 && es[a].1 == es[b].1));
    }
    assert forall|i: int, j: int| 0 <= i < m && 0 <= j < n implies #[trigger] val(x, i, j) == val(es, i, j) by {
        if has(x, i, j) {
            let u = pos(x, i, j);
            lemma_src(es, p, m, n, 0, 0, u);
            lemma_val(es, src(es, p, m, n, 0, 0, u));
        } else if has(es, i, j) {
            let t = pos(es, i, j);
            lemma_val(es, t);
            if es[t].2 != r0() {
                assert(inblk(es[t], m, n, 0, 0));
                lemma_idx(es, p, m, n, 0, 0, t);
                let u = bsel(es, t, m, n, 0, 0).len() as int;
                assert(x[u].0 == i && x[u].1 == j);
                assert(has(x, i, j));
            }
        }
    }
}

/// the entry list combine_blocks hands to from_entries: the four blocks' stored entries, moved to their quadrant, one block after the other
#[verifier::opaque]
pub open spec fn cat4(a: Seq<Tv>, b: Seq<Tv>, c: Seq<Tv>, d: Seq<Tv>, k: int, l: int) -> Seq<Tv> { shl(a, 0, 0) + shl(b, 0, l) + shl(c, k, 0) + shl(d, k, l) }
/// entry (i, j) of [A B; C D]
pub open spec fn glue(a: Seq<Tv>, b: Seq<Tv>, c: Seq<Tv>, d: Seq<Tv>, k: int, l: int, i: int, j: int) -> int {
    if i < k { if j < l { val(a, i, j) } else { val(b, i, j - l) } } else { if j < l { val(c, i - k, j) } else { val(d, i - k, j - l) } }
}
/// which block the u-th element of cat4 comes from (0..3), and its index there
pub open spec fn gq(a: Seq<Tv>, b: Seq<Tv>, c: Seq<Tv>, u: int) -> int { if u < a.len() { 0 } else if u < a.len() + b.len() { 1 } else if u < a.len() + b.len() + c.len() { 2 } else { 3 } }
pub open spec fn gi(a: Seq<Tv>, b: Seq<Tv>, c: Seq<Tv>, u: int) -> int { if u < a.len() { u } else if u < a.len() + b.len() { u - a.len() } else if u < a.len() + b.len() + c.len() { u - a.len() - b.len() } else { u - a.len() - b.len() - c.len() } }
pub open spec fn gblk(a: Seq<Tv>, b: Seq<Tv>, c: Seq<Tv>, d: Seq<Tv>, q: int) -> Seq<Tv> { if q == 0 { a } else if q == 1 { b } else if q == 2 { c } else { d } }
pub open spec fn goff(a: Seq<Tv>, b: Seq<Tv>, c: Seq<Tv>, q: int) -> int { if q == 0 { 0 } else if q == 1 { a.len() as int } else if q == 2 { (a.len() + b.len()) as int } else { (a.len() + b.len() + c.len()) as int } }
pub open spec fn fits(a: Seq<Tv>, b: Seq<Tv>, c: Seq<Tv>, d: Seq<Tv>, k: int, l: int, m: int, n: int) -> bool {
    0 <= k <= m && 0 <= l <= n && m <= usize::MAX && n <= usize::MAX && distinct(a) && distinct(b) && distinct(c) && distinct(d)
    && inside(a, k, l) && inside(b, k, n - l) && inside(c, m - k, l) && inside(d, m - k, n - l)
}
pub proof fn lemma_cat_len(a: Seq<Tv>, b: Seq<Tv>, c: Seq<Tv>, d: Seq<Tv>, k: int, l: int)
    ensures cat4(a, b, c, d, k, l).len() == a.len() + b.len() + c.len() + d.len()
{ reveal(cat4); }
pub proof fn lemma_cat_at(a: Seq<Tv>, b: Seq<Tv>, c: Seq<Tv>, d: Seq<Tv>, k: int, l: int, m: int, n: int, u: int)
    requires fits(a, b, c, d, k, l, m, n), 0 <= u < cat4(a, b, c, d, k, l).len()
    ensures ({ let q = gq(a, b, c, u); let x = gblk(a, b, c, d, q); let t = gi(a, b, c, u); let e = cat4(a, b, c, d, k, l)[u];
        0 <= q < 4 && 0 <= t < x.len() && u == goff(a, b, c, q) + t && e.0 == x[t].0 + (if q >= 2 { k } else { 0 }) && e.1 == x[t].1 + (if q % 2 == 1 { l } else { 0 }) && e.2 == x[t].2
        && ((e.0 >= k) == (q >= 2)) && ((e.1 >= l) == (q % 2 == 1)) && e.0 < m && e.1 < n })
{
    reveal(cat4);
    let q = gq(a, b, c, u); let x = gblk(a, b, c, d, q); let t = gi(a, b, c, u);
    assert(cat4(a, b, c, d, k, l).len() == a.len() + b.len() + c.len() + d.len());
    assert(x[t].0 >= 0 && x[t].1 >= 0);
}
pub proof fn lemma_cat_from(a: Seq<Tv>, b: Seq<Tv>, c: Seq<Tv>, d: Seq<Tv>, k: int, l: int, m: int, n: int, q: int, t: int)
    requires fits(a, b, c, d, k, l, m, n), 0 <= q < 4, 0 <= t < gblk(a, b, c, d, q).len()
    ensures ({ let u = goff(a, b, c, q) + t; 0 <= u < cat4(a, b, c, d, k, l).len() && gq(a, b, c, u) == q && gi(a, b, c, u) == t }), cat4(a, b, c, d, k, l).len() == a.len() + b.len() + c.len() + d.len()
{
    reveal(cat4);
    assert(cat4(a, b, c, d, k, l).len() == a.len() + b.len() + c.len() + d.len());
}
pub proof fn lemma_glue_distinct(a: Seq<Tv>, b: Seq<Tv>, c: Seq<Tv>, d: Seq<Tv>, k: int, l: int, m: int, n: int)
    requires fits(a, b, c, d, k, l, m, n)
    ensures distinct(cat4(a, b, c, d, k, l)), inside(cat4(a, b, c, d, k, l), m, n)
{
    let g = cat4(a, b, c, d, k, l);
    assert forall|u: int| 0 <= u < g.len() implies (#[trigger] g[u]).0 < m && g[u].1 < n by { lemma_cat_at(a, b, c, d, k, l, m, n, u); }
    assert forall|s1: int, t1: int| 0 <= s1 < t1 < g.len() implies !(#[trigger] g[s1].0 == #[trigger] g[t1].0 && g[s1].1 == g[t1].1) by {
        lemma_cat_at(a, b, c, d, k, l, m, n, s1); lemma_cat_at(a, b, c, d, k, l, m, n, t1);
        if gq(a, b, c, s1) == gq(a, b, c, t1) {
            let x = gblk(a, b, c, d, gq(a, b, c, s1)); let (p1, p2) = (gi(a, b, c, s1), gi(a, b, c, t1));
            assert(p1 < p2); assert(!(x[p1].0 == x[p2].0 && x[p1].1 == x[p2].1));
        }
    }
}
/// one block of a duplicate-free entry list: if the segment [off, off + |x|) of g is x moved by (di, dj) and no other element of g lies in
/// the rectangle [di, di + bm) x [dj, dj + bn), then g and x agree on that rectangle
pub proof fn lemma_part(g: Seq<Tv>, x: Seq<Tv>, off: int, di: int, dj: int, bm: int, bn: int, i: int, j: int)
    requires distinct(g), distinct(x), 0 <= off, off + x.len() <= g.len(), 0 <= di, 0 <= dj,
        forall|t: int| 0 <= t < x.len() ==> g[off + t].0 == (#[trigger] x[t]).0 + di && g[off + t].1 == x[t].1 + dj && g[off + t].2 == x[t].2,
        forall|u: int| 0 <= u < g.len() && !(off <= u < off + x.len()) ==> !(di <= (#[trigger] g[u]).0 < di + bm && dj <= g[u].1 < dj + bn),
        di <= i < di + bm, dj <= j < dj + bn,
    ensures val(g, i, j) == val(x, i - di, j - dj)
{
    if has(g, i, j) {
        let u = pos(g, i, j);
        assert(off <= u < off + x.len());
        let t = u - off;
        assert(g[off + t].0 == x[t].0 + di);
        lemma_val(x, t); lemma_val(g, u);
    } else if has(x, i - di, j - dj) {
        let t = pos(x, i - di, j - dj);
        assert(g[off + t].0 == x[t].0 + di);
        assert(has(g, i, j));
    }
}
pub proof fn lemma_glue_val(a: Seq<Tv>, b: Seq<Tv>, c: Seq<Tv>, d: Seq<Tv>, k: int, l: int, m: int, n: int, i: int, j: int)
    requires fits(a, b, c, d, k, l, m, n), 0 <= i < m, 0 <= j < n, distinct(cat4(a, b, c, d, k, l))
    ensures val(cat4(a, b, c, d, k, l), i, j) == glue(a, b, c, d, k, l, i, j)
{
    let g = cat4(a, b, c, d, k, l);
    let q = (if i >= k { 2int } else { 0int }) + (if j >= l { 1int } else { 0int });
    let x = gblk(a, b, c, d, q); let (di, dj) = (if q >= 2 { k } else { 0 }, if q % 2 == 1 { l } else { 0 });
    let (bm, bn) = (if q >= 2 { m - k } else { k }, if q % 2 == 1 { n - l } else { l });
    let off = goff(a, b, c, q);
    lemma_cat_len(a, b, c, d, k, l);
    assert forall|t: int| 0 <= t < x.len() implies g[off + t].0 == (#[trigger] x[t]).0 + di && g[off + t].1 == x[t].1 + dj && g[off + t].2 == x[t].2 by {
        lemma_cat_from(a, b, c, d, k, l, m, n, q, t); lemma_cat_at(a, b, c, d, k, l, m, n, off + t);
    }
    assert forall|u: int| 0 <= u < g.len() && !(off <= u < off + x.len()) implies !(di <= (#[trigger] g[u]).0 < di + bm && dj <= g[u].1 < dj + bn) by {
        lemma_cat_at(a, b, c, d, k, l, m, n, u);
        assert(gq(a, b, c, u) != q);
    }
    lemma_part(g, x, off, di, dj, bm, bn, i, j);
}
pub proof fn lemma_glue(a: Seq<Tv>, b: Seq<Tv>, c: Seq<Tv>, d: Seq<Tv>, k: int, l: int, m: int, n: int)
    requires fits(a, b, c, d, k, l, m, n)
    ensures ({ let g = cat4(a, b, c, d, k, l); distinct(g) && inside(g, m, n) && forall|i: int, j: int| 0 <= i < m && 0 <= j < n ==> #[trigger] val(g, i, j) == glue(a, b, c, d, k, l, i, j) })
{
    lemma_glue_distinct(a, b, c, d, k, l, m, n);
    assert forall|i: int, j: int| 0 <= i < m && 0 <= j < n implies #[trigger] val(cat4(a, b, c, d, k, l), i, j) == glue(a, b, c, d, k, l, i, j) by { lemma_glue_val(a, b, c, d, k, l, m, n, i, j); }
}

/// block (bi, bj) of M split at (k, l): entry (i, j)
pub open spec fn blk(m: SpMat, k: int, l: int, bi: int, bj: int, i: int, j: int) -> int { m.at(i + (if bi == 1 { k } else { 0 }), j + (if bj == 1 { l } else { 0 })) }

impl SpMat {
    pub fn divide4(&self, point: (usize, usize)) -> (r: [SpMat; 4])
        requires self.wf(),
//@if B
            point.0 <= self.sh@.0, point.1 <= self.sh@.1,
//@endif
        ensures point.0 <= self.sh@.0, point.1 <= self.sh@.1,
            r@[0].sh@ == (point.0, point.1), r@[1].sh@ == (point.0, (self.sh@.1 - point.1) as usize), r@[2].sh@ == ((self.sh@.0 - point.0) as usize, point.1), r@[3].sh@ == ((self.sh@.0 - point.0) as usize, (self.sh@.1 - point.1) as usize),
            forall|q: int| 0 <= q < 4 ==> (#[trigger] r@[q]).wf(),
            forall|q: int, i: int, j: int| 0 <= q < 4 && 0 <= i < r@[q].sh@.0 && 0 <= j < r@[q].sh@.1 ==> #[trigger] r@[q].at(i, j) == blk(*self, point.0 as int, point.1 as int, q / 2, q % 2, i, j),
    //@body impl/SpMat/divide4 for_iter=1 loops=1 subst=CscMatrix::from:csc_from_
    //@+ sig
    //@| fn divide4(&self, point: (usize, usize)) -> [SpMat<R>; 4]
    //@+ loop 0 header
    //@| for (i, j, r) in self.iter()
    //@+ pre-raw
    //@| let ghost es0 = self.es@; let ghost (m0, n0) = (self.sh@.0 as int, self.sh@.1 as int);
    //@+ loop 0
    //@| invariant self.wf(), es0 == self.es@, __it0.es@ == es0, 0 <= __it0.pos@ <= es0.len(), k <= m, l <= n, m == self.sh@.0, n == self.sh@.1,
    //@|     a.sh@ == (k, l), b.sh@ == (k, (n - l) as usize), c.sh@ == ((m - k) as usize, l), d.sh@ == ((m - k) as usize, (n - l) as usize),
    //@|     a.es@ =~= bsel(es0, __it0.pos@, k as int, l as int, 0, 0), b.es@ =~= bsel(es0, __it0.pos@, k as int, l as int, 0, 1),
    //@|     c.es@ =~= bsel(es0, __it0.pos@, k as int, l as int, 1, 0), d.es@ =~= bsel(es0, __it0.pos@, k as int, l as int, 1, 1),
    //@| ensures __it0.pos@ == es0.len(),
    //@| decreases es0.len() - __it0.pos@,
    //@+ loop 0 begin
    //@| assert(i == es0[__it0.pos@ - 1].0 && j == es0[__it0.pos@ - 1].1 && r.v() == es0[__it0.pos@ - 1].2 && i < m && j < n);
    //@+ post
    //@| lemma_bsel_done(es0, k as int, l as int, 0, 0, m0, n0); lemma_bsel_done(es0, k as int, l as int, 0, 1, m0, n0);
    //@| lemma_bsel_done(es0, k as int, l as int, 1, 0, m0, n0); lemma_bsel_done(es0, k as int, l as int, 1, 1, m0, n0);

    // ---------------------------------------------------------------- from_entries, combine_blocks, concat, stack
    /// the matrix with the given triples: zero values are dropped; a non-zero value outside the shape does not return (CooMatrix::push);
    /// for pairwise different positions inside the shape the result has exactly those entries
    pub fn from_entries(shape: (usize, usize), entries: Vec<(usize, usize, ER)>) -> (r: SpMat)
//@if B
        requires inside(tv(entries@), shape.0 as int, shape.1 as int),
//@endif
        ensures r.sh@ == shape, r.es@ == bsel(tv(entries@), entries@.len() as int, shape.0 as int, shape.1 as int, 0, 0),
            forall|t: int| 0 <= t < entries@.len() && (#[trigger] tv(entries@)[t]).2 != r0() ==> tv(entries@)[t].0 < shape.0 && tv(entries@)[t].1 < shape.1,
            distinct(tv(entries@)) ==> r.wf() && forall|i: int, j: int| 0 <= i < shape.0 && 0 <= j < shape.1 ==> #[trigger] val(r.es@, i, j) == val(tv(entries@), i, j),
    //@body impl/SpMat/from_entries for_iter=1 loops=1 iter_model=entries! subst=CscMatrix::from:csc_from_,Self::from:from_csc_
    //@+ sig
    //@| fn from_entries<T>(shape: (usize, usize), entries: T) -> Self where T: IntoIterator<Item = (usize, usize, R)>
    //@+ loop 0 header
    //@| for (i, j, a) in entries
    //@+ pre-raw
    //@| let ghost es0 = tv(entries@);
    //@+ loop 0
    //@| invariant __it0.es@.len() == es0.len(), tv(__it0.es@) == es0, 0 <= __it0.pos@ <= es0.len(), coo.sh@ == shape,
    //@|     coo.es@ =~= bsel(es0, __it0.pos@, shape.0 as int, shape.1 as int, 0, 0),
    //@|     forall|t: int| 0 <= t < __it0.pos@ && (#[trigger] es0[t]).2 != r0() ==> es0[t].0 < shape.0 && es0[t].1 < shape.1,
//@if B
    //@|     inside(es0, shape.0 as int, shape.1 as int),
//@endif
    //@| ensures __it0.pos@ == es0.len(),
    //@| decreases es0.len() - __it0.pos@,
    //@+ loop 0 begin
    //@| assert(i == es0[__it0.pos@ - 1].0 && j == es0[__it0.pos@ - 1].1 && a.v() == es0[__it0.pos@ - 1].2);
    //@+ post
    //@| if distinct(es0) { lemma_nz(es0, shape.0 as int, shape.1 as int); }

    /// [A B; C D] from its four blocks
    pub fn combine_blocks(blocks: [&SpMat; 4]) -> (r: SpMat)
        requires blocks@[0].wf(), blocks@[1].wf(), blocks@[2].wf(), blocks@[3].wf(),
            // stated domain: the combined shape is representable
            blocks@[0].sh@.0 + blocks@[2].sh@.0 <= usize::MAX, blocks@[0].sh@.1 + blocks@[1].sh@.1 <= usize::MAX,
//@if B
            blocks@[0].sh@.0 == blocks@[1].sh@.0, blocks@[2].sh@.0 == blocks@[3].sh@.0, blocks@[0].sh@.1 == blocks@[2].sh@.1, blocks@[1].sh@.1 == blocks@[3].sh@.1,
//@endif
        ensures blocks@[0].sh@.0 == blocks@[1].sh@.0, blocks@[2].sh@.0 == blocks@[3].sh@.0, blocks@[0].sh@.1 == blocks@[2].sh@.1, blocks@[1].sh@.1 == blocks@[3].sh@.1,
            r.wf(), r.sh@ == ((blocks@[0].sh@.0 + blocks@[2].sh@.0) as usize, (blocks@[0].sh@.1 + blocks@[1].sh@.1) as usize),
            forall|i: int, j: int| 0 <= i < r.sh@.0 && 0 <= j < r.sh@.1 ==> #[trigger] r.at(i, j) == glue(blocks@[0].es@, blocks@[1].es@, blocks@[2].es@, blocks@[3].es@, blocks@[0].sh@.0 as int, blocks@[0].sh@.1 as int, i, j),
    //@body impl/SpMat/combine_blocks for_iter=1 loops=4 vec_elem=(usize,usize,ER)
    //@+ sig
    //@| fn combine_blocks(blocks: [&SpMat<R>; 4]) -> SpMat<R>
    //@+ loop 0 before-raw
    //@| let ghost pre = tv(__zout0@);
    //@+ loop 0
    //@| invariant x.wf(), __it0.es@ == x.es@, 0 <= __it0.pos@ <= x.es@.len(), (di as int) + x.sh@.0 <= usize::MAX, (dj as int) + x.sh@.1 <= usize::MAX,
    //@|     tv(__zout0@) =~= pre + shl(x.es@, di as int, dj as int).subrange(0, __it0.pos@),
    //@| ensures __it0.pos@ == x.es@.len(),
    //@| decreases x.es@.len() - __it0.pos@,
    //@+ loop 0 begin-raw
    //@| let ghost e = x.es@[__it0.pos@ - 1]; let ghost out0 = __zout0@;
    //@+ loop 0 begin
    //@| assert(i == e.0 && j == e.1 && r.v() == e.2 && i < x.sh@.0 && j < x.sh@.1);
    //@+ loop 0 end
    //@| assert(__zout0@ == out0.push(__y0));
    //@| assert(tv(__zout0@) =~= tv(out0).push(((i + di) as usize, (j + dj) as usize, e.2)));
    //@| assert(shl(x.es@, di as int, dj as int).subrange(0, __it0.pos@) =~= shl(x.es@, di as int, dj as int).subrange(0, __it0.pos@ - 1).push(((i + di) as usize, (j + dj) as usize, e.2)));
    //@+ loop 1 before-raw
    //@| let ghost pre = tv(__zout0@);
    //@+ loop 1
    //@| invariant x.wf(), __it1.es@ == x.es@, 0 <= __it1.pos@ <= x.es@.len(), (di as int) + x.sh@.0 <= usize::MAX, (dj as int) + x.sh@.1 <= usize::MAX,
    //@|     tv(__zout0@) =~= pre + shl(x.es@, di as int, dj as int).subrange(0, __it1.pos@),
    //@| ensures __it1.pos@ == x.es@.len(),
    //@| decreases x.es@.len() - __it1.pos@,
    //@+ loop 1 begin-raw
    //@| let ghost e = x.es@[__it1.pos@ - 1]; let ghost out0 = __zout0@;
    //@+ loop 1 begin
    //@| assert(i == e.0 && j == e.1 && r.v() == e.2 && i < x.sh@.0 && j < x.sh@.1);
    //@+ loop 1 end
    //@| assert(__zout0@ == out0.push(__y1));
    //@| assert(tv(__zout0@) =~= tv(out0).push(((i + di) as usize, (j + dj) as usize, e.2)));
    //@| assert(shl(x.es@, di as int, dj as int).subrange(0, __it1.pos@) =~= shl(x.es@, di as int, dj as int).subrange(0, __it1.pos@ - 1).push(((i + di) as usize, (j + dj) as usize, e.2)));
    //@+ loop 2 before-raw
    //@| let ghost pre = tv(__zout0@);
    //@+ loop 2
    //@| invariant x.wf(), __it2.es@ == x.es@, 0 <= __it2.pos@ <= x.es@.len(), (di as int) + x.sh@.0 <= usize::MAX, (dj as int) + x.sh@.1 <= usize::MAX,
    //@|     tv(__zout0@) =~= pre + shl(x.es@, di as int, dj as int).subrange(0, __it2.pos@),
    //@| ensures __it2.pos@ == x.es@.len(),
    //@| decreases x.es@.len() - __it2.pos@,
    //@+ loop 2 begin-raw
    //@| let ghost e = x.es@[__it2.pos@ - 1]; let ghost out0 = __zout0@;
    //@+ loop 2 begin
    //@| assert(i == e.0 && j == e.1 && r.v() == e.2 && i < x.sh@.0 && j < x.sh@.1);
    //@+ loop 2 end
    //@| assert(__zout0@ == out0.push(__y2));
    //@| assert(tv(__zout0@) =~= tv(out0).push(((i + di) as usize, (j + dj) as usize, e.2)));
    //@| assert(shl(x.es@, di as int, dj as int).subrange(0, __it2.pos@) =~= shl(x.es@, di as int, dj as int).subrange(0, __it2.pos@ - 1).push(((i + di) as usize, (j + dj) as usize, e.2)));
    //@+ loop 3 before-raw
    //@| let ghost pre = tv(__zout0@);
    //@+ loop 3
    //@| invariant x.wf(), __it3.es@ == x.es@, 0 <= __it3.pos@ <= x.es@.len(), (di as int) + x.sh@.0 <= usize::MAX, (dj as int) + x.sh@.1 <= usize::MAX,
    //@|     tv(__zout0@) =~= pre + shl(x.es@, di as int, dj as int).subrange(0, __it3.pos@),
    //@| ensures __it3.pos@ == x.es@.len(),
    //@| decreases x.es@.len() - __it3.pos@,
    //@+ loop 3 begin-raw
    //@| let ghost e = x.es@[__it3.pos@ - 1]; let ghost out0 = __zout0@;
    //@+ loop 3 begin
    //@| assert(i == e.0 && j == e.1 && r.v() == e.2 && i < x.sh@.0 && j < x.sh@.1);
    //@+ loop 3 end
    //@| assert(__zout0@ == out0.push(__y3));
    //@| assert(tv(__zout0@) =~= tv(out0).push(((i + di) as usize, (j + dj) as usize, e.2)));
    //@| assert(shl(x.es@, di as int, dj as int).subrange(0, __it3.pos@) =~= shl(x.es@, di as int, dj as int).subrange(0, __it3.pos@ - 1).push(((i + di) as usize, (j + dj) as usize, e.2)));
    //@+ after-let entries
    //@| reveal(cat4);
    //@| assert(tv(entries@) =~= cat4(a.es@, b.es@, c.es@, d.es@, k as int, l as int));
    //@| lemma_glue(a.es@, b.es@, c.es@, d.es@, k as int, l as int, m as int, n as int);

    #[verifier::external_body] pub fn zero(shape: (usize, usize)) -> (r: SpMat) ensures r.sh@ == shape, r.es@.len() == 0 { unimplemented!() }
    /// [A B]
    pub fn concat(&self, b: &SpMat) -> (r: SpMat)
        requires self.wf(), b.wf(), self.sh@.1 + b.sh@.1 <= usize::MAX,
//@if B
            self.sh@.0 == b.sh@.0,
//@endif
        ensures self.sh@.0 == b.sh@.0, r.wf(), r.sh@ == (self.sh@.0, (self.sh@.1 + b.sh@.1) as usize),
            forall|i: int, j: int| 0 <= i < r.sh@.0 && 0 <= j < r.sh@.1 ==> #[trigger] r.at(i, j) == (if j < self.sh@.1 { self.at(i, j) } else { b.at(i, j - self.sh@.1) }),
    //@body impl/SpMat/concat subst=SpMat::zero:SpMat::zero
    //@+ sig
    //@| fn concat(&self, b: &Self) -> Self
    //@+ closure 0 typed
    //@| m: usize, n: usize
    //@+ closure 0
    //@| -> (z: SpMat) ensures z.sh@ == (m, n), z.es@.len() == 0
    /// [A; B]
    pub fn stack(&self, b: &SpMat) -> (r: SpMat)
        requires self.wf(), b.wf(), self.sh@.0 + b.sh@.0 <= usize::MAX,
//@if B
            self.sh@.1 == b.sh@.1,
//@endif
        ensures self.sh@.1 == b.sh@.1, r.wf(), r.sh@ == ((self.sh@.0 + b.sh@.0) as usize, self.sh@.1),
            forall|i: int, j: int| 0 <= i < r.sh@.0 && 0 <= j < r.sh@.1 ==> #[trigger] r.at(i, j) == (if i < self.sh@.0 { self.at(i, j) } else { b.at(i - self.sh@.0, j) }),
    //@body impl/SpMat/stack subst=SpMat::zero:SpMat::zero
    //@+ sig
    //@| fn stack(&self, b: &Self) -> Self
    //@+ closure 0 typed
    //@| m: usize, n: usize
    //@+ closure 0
    //@| -> (z: SpMat) ensures z.sh@ == (m, n), z.es@.len() == 0

    // ---------------------------------------------------------------- extract and its clients
    /// the stored entries of self moved to f(position) -- the real body (from_entries over `self.iter().filter_map(..)`, rule R42), for a position
    /// map that is a function and injective where it is defined.  A non-zero entry sent outside `shape` does not return; a stored zero may be.
    pub fn extract<F: Fn(usize, usize) -> Option<(usize, usize)>>(&self, shape: (usize, usize), f: F) -> (r: SpMat)
        requires self.wf(), forall|t: int| 0 <= t < self.es@.len() ==> f.requires(((#[trigger] self.es@[t]).0, self.es@[t].1)),
            forall|t: int, r1: Option<(usize, usize)>, r2: Option<(usize, usize)>| 0 <= t < self.es@.len() && #[trigger] f.ensures((self.es@[t].0, self.es@[t].1), r1) && #[trigger] f.ensures((self.es@[t].0, self.es@[t].1), r2) ==> r1 == r2,
            forall|s: int, t: int, r: Option<(usize, usize)>| 0 <= s < self.es@.len() && 0 <= t < self.es@.len() && #[trigger] f.ensures((self.es@[s].0, self.es@[s].1), r) && #[trigger] f.ensures((self.es@[t].0, self.es@[t].1), r) && r.is_some() ==> s == t,
//@if B
            // valid arguments: the position map sends stored entries into the shape
            forall|t: int, o: Option<(usize, usize)>| 0 <= t < self.es@.len() && #[trigger] f.ensures((self.es@[t].0, self.es@[t].1), o) && o.is_some() ==> o.unwrap().0 < shape.0 && o.unwrap().1 < shape.1,
//@endif
        ensures r.sh@ == shape, r.wf(),
            forall|t: int| 0 <= t < self.es@.len() ==> ext_ok(f, #[trigger] self.es@[t], shape, r),
            forall|a: int, b: int| #[trigger] has(r.es@, a, b) ==> exists|t: int| 0 <= t < self.es@.len() && f.ensures(((#[trigger] self.es@[t]).0, self.es@[t].1), Some((a as usize, b as usize))),
    //@body impl/SpMat/extract for_iter=1 loops=1 vec_elem=(usize,usize,ER)
    //@+ sig
    //@| fn extract<F>(&self, shape: (usize, usize), f: F) -> SpMat<R> where F: Fn(usize, usize) -> Option<(usize, usize)>
    //@+ pre-raw
    //@| let ghost es0 = self.es@; let ghost mut os: Seq<Option<(usize, usize)>> = Seq::empty(); let ghost mut gout: Seq<Tv> = Seq::empty();
    //@+ loop 0
    //@| invariant self.wf(), es0 == self.es@, __it0.es@ == es0, 0 <= __it0.pos@ <= es0.len(), os.len() == __it0.pos@,
    //@|     forall|t: int| 0 <= t < es0.len() ==> f.requires(((#[trigger] es0[t]).0, es0[t].1)),
    //@|     forall|t: int| 0 <= t < os.len() ==> f.ensures(((#[trigger] es0[t]).0, es0[t].1), os[t]),
    //@|     tv(__fout0@) =~= fsel(es0, os, __it0.pos@),
//@if B
    //@|     inside(tv(__fout0@), shape.0 as int, shape.1 as int),
    //@|     forall|t: int, o: Option<(usize, usize)>| 0 <= t < es0.len() && #[trigger] f.ensures((es0[t].0, es0[t].1), o) && o.is_some() ==> o.unwrap().0 < shape.0 && o.unwrap().1 < shape.1,
//@endif
    //@| ensures __it0.pos@ == es0.len(),
    //@| decreases es0.len() - __it0.pos@,
    //@+ loop 0 begin-raw
    //@| let ghost out0 = __fout0@; let ghost os0 = os;
    //@+ loop 0 begin
    //@| assert(i == es0[__it0.pos@ - 1].0 && j == es0[__it0.pos@ - 1].1 && a.v() == es0[__it0.pos@ - 1].2);
    //@+ loop 0 end
    //@| os = os0.push(__o0);
    //@| assert forall|t: int| 0 <= t < os.len() implies f.ensures(((#[trigger] es0[t]).0, es0[t].1), os[t]) by { if t < os0.len() { assert(os[t] == os0[t]); } }
    //@| lemma_fsel_ext(es0, os0, os, __it0.pos@ - 1);
    //@| if __o0.is_some() { assert(tv(__fout0@) =~= tv(out0).push((__o0.unwrap().0, __o0.unwrap().1, es0[__it0.pos@ - 1].2))); } else { assert(__fout0@ == out0); }
    //@+ loop 0 after
    //@| gout = tv(__fout0@);
    //@+ post
    //@| assert(es0 == self.es@);
    //@| let n0 = es0.len() as int; let g = fsel(es0, os, n0); assert(gout =~= g); assert(__ret.es@ == bsel(g, g.len() as int, shape.0 as int, shape.1 as int, 0, 0)); let (m, n) = (shape.0 as int, shape.1 as int);
    //@| // the handed-over list has pairwise different positions: f is a function and injective where defined
    //@| assert forall|u1: int, u2: int| 0 <= u1 < u2 < g.len() implies !(#[trigger] g[u1].0 == #[trigger] g[u2].0 && g[u1].1 == g[u2].1) by {
    //@|     lemma_fsrc(es0, os, n0, u1); lemma_fsrc(es0, os, n0, u2);
    //@|     let (t1, t2) = (fsrc(es0, os, n0, u1), fsrc(es0, os, n0, u2));
    //@|     if g[u1].0 == g[u2].0 && g[u1].1 == g[u2].1 { assert(os[t1] == os[t2]); assert(f.ensures((es0[t1].0, es0[t1].1), os[t1]) && f.ensures((es0[t2].0, es0[t2].1), os[t1])); assert(t1 == t2); }
    //@| }
    //@| lemma_nz(g, m, n);
    //@| let x = __ret.es@;
    //@| assert(forall|t2: int| 0 <= t2 < gout.len() && (#[trigger] gout[t2]).2 != r0() ==> gout[t2].0 < shape.0 && gout[t2].1 < shape.1);
    //@| assert forall|t: int| 0 <= t < es0.len() implies ext_ok(f, #[trigger] es0[t], shape, __ret) by {
    //@|     let o = os[t];
    //@|     assert(f.ensures((es0[t].0, es0[t].1), o));
    //@|     if o.is_some() {
    //@|         lemma_fidx(es0, os, n0, t); let u = fsel(es0, os, t).len() as int; lemma_val(g, u);
    //@|         assert(g[u] == (o.unwrap().0, o.unwrap().1, es0[t].2)); assert(gout[u] == g[u]);
    //@|         if es0[t].2 != r0() { assert(gout[u].2 != r0()); assert(gout[u].0 < shape.0 && gout[u].1 < shape.1); }
    //@|         if o.unwrap().0 < shape.0 && o.unwrap().1 < shape.1 { assert(val(x, o.unwrap().0 as int, o.unwrap().1 as int) == val(g, o.unwrap().0 as int, o.unwrap().1 as int)); }
    //@|     }
    //@|     assert(ext_at(f, es0[t], shape, __ret, o));
    //@| }
    //@| assert forall|a: int, b: int| #[trigger] has(x, a, b) implies exists|t: int| 0 <= t < es0.len() && f.ensures(((#[trigger] es0[t]).0, es0[t].1), Some((a as usize, b as usize))) by {
    //@|     let u2 = pos(x, a, b);
    //@|     lemma_src(g, g.len() as int, m, n, 0, 0, u2);
    //@|     let u = src(g, g.len() as int, m, n, 0, 0, u2);
    //@|     lemma_fsrc(es0, os, n0, u);
    //@|     let t = fsrc(es0, os, n0, u);
    //@|     assert(os[t] == Some((a as usize, b as usize)));
    //@| }

    /// MatTrait's defaults: shape().0, shape().1
    #[verifier::external_body] pub fn nrows(&self) -> (r: usize) ensures r == self.sh@.0 { unimplemented!() }
    #[verifier::external_body] pub fn ncols(&self) -> (r: usize) ensures r == self.sh@.1 { unimplemented!() }

    /// the submatrix on rows i0..i1 and columns j0..j1
    pub fn submat(&self, rows: core::ops::Range<usize>, cols: core::ops::Range<usize>) -> (r: SpMat)
        requires self.wf(),
//@if B
            rows.start <= rows.end <= self.sh@.0, cols.start <= cols.end <= self.sh@.1,
//@endif
        ensures rows.start <= rows.end <= self.sh@.0, cols.start <= cols.end <= self.sh@.1, r.wf(), r.sh@ == ((rows.end - rows.start) as usize, (cols.end - cols.start) as usize),
            forall|a: int, b: int| 0 <= a < rows.end - rows.start && 0 <= b < cols.end - cols.start ==> #[trigger] r.at(a, b) == self.at(a + rows.start, b + cols.start),
    //@body impl/SpMat/submat for_iter=1
    //@+ sig
    //@| fn submat(&self, rows: Range<usize>, cols: Range<usize>) -> SpMat<R>
    //@+ closure 0 typed
    //@| i: usize, j: usize
    //@+ closure 0
    //@| -> (o: Option<(usize, usize)>) ensures o == (if i0 <= i < i1 && j0 <= j < j1 { Some(((i - i0) as usize, (j - j0) as usize)) } else { None })
    //@+ post
    //@| assert forall|a: int, b: int| 0 <= a < i1 - i0 && 0 <= b < j1 - j0 implies #[trigger] __ret.at(a, b) == self.at(a + i0, b + j0) by {
    //@|     if has(self.es@, a + i0, b + j0) { let t = pos(self.es@, a + i0, b + j0); lemma_val(self.es@, t); assert(self.es@[t].0 == a + i0 && self.es@[t].1 == b + j0); }
    //@|     else if has(__ret.es@, a, b) { let t = choose|t: int| 0 <= t < self.es@.len() && (#[trigger] self.es@[t]).0 - i0 == a && self.es@[t].1 - j0 == b && i0 <= self.es@[t].0 < i1 && j0 <= self.es@[t].1 < j1; assert(has(self.es@, a + i0, b + j0)); }
    //@| }

    pub fn submat_rows(&self, rows: core::ops::Range<usize>) -> (r: SpMat)
        requires self.wf(),
//@if B
            rows.start <= rows.end <= self.sh@.0,
//@endif
        ensures rows.start <= rows.end <= self.sh@.0, r.wf(), r.sh@ == ((rows.end - rows.start) as usize, self.sh@.1),
            forall|a: int, b: int| 0 <= a < rows.end - rows.start && 0 <= b < self.sh@.1 ==> #[trigger] r.at(a, b) == self.at(a + rows.start, b),
    //@body impl/SpMat/submat_rows
    //@+ sig
    //@| fn submat_rows(&self, rows: Range<usize>) -> SpMat<R>
    pub fn submat_cols(&self, cols: core::ops::Range<usize>) -> (r: SpMat)
        requires self.wf(),
//@if B
            cols.start <= cols.end <= self.sh@.1,
//@endif
        ensures cols.start <= cols.end <= self.sh@.1, r.wf(), r.sh@ == (self.sh@.0, (cols.end - cols.start) as usize),
            forall|a: int, b: int| 0 <= a < self.sh@.0 && 0 <= b < cols.end - cols.start ==> #[trigger] r.at(a, b) == self.at(a, b + cols.start),
    //@body impl/SpMat/submat_cols
    //@+ sig
    //@| fn submat_cols(&self, cols: Range<usize>) -> SpMat<R>

    /// rows and columns renumbered: the entry at (i, j) moves to (p.at(i), q.at(j))
    pub fn permute(&self, p: PermView, q: PermView) -> (r: SpMat)
        requires self.wf(), p.wf(self.sh@.0 as int), q.wf(self.sh@.1 as int),
        ensures r.wf(), r.sh@ == self.sh@,
            forall|i: int, j: int| 0 <= i < self.sh@.0 && 0 <= j < self.sh@.1 ==> r.at(#[trigger] p.m@[i] as int, #[trigger] q.m@[j] as int) == self.at(i, j),
    //@body impl/SpMat/permute for_iter=1
    //@+ closure 0 typed
    //@| i: usize, j: usize
    //@+ closure 0
    //@| -> (o: Option<(usize, usize)>) requires i < p.m@.len(), j < q.m@.len() ensures o == Some((p.m@[i as int], q.m@[j as int]))

    pub fn permute_rows(&self, p: PermView) -> (r: SpMat)
        requires self.wf(), p.wf(self.sh@.0 as int),
        ensures r.wf(), r.sh@ == self.sh@, forall|i: int, j: int| 0 <= i < self.sh@.0 && 0 <= j < self.sh@.1 ==> #[trigger] r.at(p.m@[i] as int, j) == self.at(i, j),
    //@body impl/SpMat/permute_rows
    //@+ post
    //@| assert forall|i: int, j: int| 0 <= i < self.sh@.0 && 0 <= j < self.sh@.1 implies #[trigger] __ret.at(p.m@[i] as int, j) == self.at(i, j) by { assert(id.m@[j] == j); assert(__ret.at(p.m@[i] as int, id.m@[j] as int) == self.at(i, j)); }
    pub fn permute_cols(&self, q: PermView) -> (r: SpMat)
        requires self.wf(), q.wf(self.sh@.1 as int),
        ensures r.wf(), r.sh@ == self.sh@, forall|i: int, j: int| 0 <= i < self.sh@.0 && 0 <= j < self.sh@.1 ==> #[trigger] r.at(i, q.m@[j] as int) == self.at(i, j),
    //@body impl/SpMat/permute_cols
    //@+ post
    //@| assert forall|i: int, j: int| 0 <= i < self.sh@.0 && 0 <= j < self.sh@.1 implies #[trigger] __ret.at(i, q.m@[j] as int) == self.at(i, j) by { assert(id.m@[i] == i); assert(__ret.at(id.m@[i] as int, q.m@[j] as int) == self.at(i, j)); }
}

// ---------------------------------------------------------------- the row / column cuts of the chain reducer (yui-homology/src/utils/chain_reducer.rs)
/// sprs::PermOwned, as PermView
pub struct PermOwned { pub m: Ghost<Seq<usize>> }
impl PermOwned {
    pub open spec fn wf(&self, n: int) -> bool { self.m@.len() == n && (forall|i: int| 0 <= i < n ==> (#[trigger] self.m@[i]) < n) && (forall|i: int, j: int| 0 <= i < j < n ==> #[trigger] self.m@[i] != #[trigger] self.m@[j]) }
    #[verifier::external_body] pub fn at(&self, i: usize) -> (r: usize) requires i < self.m@.len() ensures r == self.m@[i as int] { unimplemented!() }
}
/// rows r.. of the row-permuted matrix: row i of a goes to row p(i) - r when p(i) >= r (what ChainReducer cuts out of d_{i-1} after a step at i)
pub fn reduce_mat_rows(a: &SpMat, p: &PermOwned, r: usize) -> (res: SpMat)
    requires a.wf(), p.wf(a.sh@.0 as int), r <= a.sh@.0,     // r is the number of pivots (its caller update_mats has r <= p.dim())
    ensures res.wf(), res.sh@ == ((a.sh@.0 - r) as usize, a.sh@.1),
        forall|i: int, j: int| 0 <= i < a.sh@.0 && 0 <= j < a.sh@.1 && p.m@[i] >= r ==> #[trigger] res.at(p.m@[i] - r, j) == a.at(i, j),
//@body fn/reduce_mat_rows for_iter=1 machine=m,n,r,i,j source=yui-homology/src/utils/chain_reducer.rs
//@+ closure 0 typed
//@| i: usize, j: usize
//@+ closure 0
//@| -> (o: Option<(usize, usize)>) requires i < p.m@.len() ensures o == (if r <= p.m@[i as int] < m { Some(((p.m@[i as int] - r) as usize, j)) } else { None })
//@+ post
//@| assert forall|i: int, j: int| 0 <= i < a.sh@.0 && 0 <= j < a.sh@.1 && p.m@[i] >= r implies #[trigger] __ret.at(p.m@[i] - r, j) == a.at(i, j) by {
//@|     if has(a.es@, i, j) { let t = pos(a.es@, i, j); lemma_val(a.es@, t); assert(a.es@[t].0 == i && a.es@[t].1 == j); }
//@|     else if has(__ret.es@, p.m@[i] - r, j) { let t = choose|t: int| 0 <= t < a.es@.len() && r <= p.m@[(#[trigger] a.es@[t]).0 as int] < m && p.m@[a.es@[t].0 as int] - r == p.m@[i] - r && a.es@[t].1 == j; assert(a.es@[t].0 == i); assert(has(a.es@, i, j)); }
//@| }
/// columns r.. of the column-permuted matrix
pub fn reduce_mat_cols(a: &SpMat, p: &PermOwned, r: usize) -> (res: SpMat)
    requires a.wf(), p.wf(a.sh@.1 as int), r <= a.sh@.1,
    ensures res.wf(), res.sh@ == (a.sh@.0, (a.sh@.1 - r) as usize),
        forall|i: int, j: int| 0 <= i < a.sh@.0 && 0 <= j < a.sh@.1 && p.m@[j] >= r ==> #[trigger] res.at(i, p.m@[j] - r) == a.at(i, j),
//@body fn/reduce_mat_cols for_iter=1 machine=m,n,r,i,j source=yui-homology/src/utils/chain_reducer.rs
//@+ closure 0 typed
//@| i: usize, j: usize
//@+ closure 0
//@| -> (o: Option<(usize, usize)>) requires j < p.m@.len() ensures o == (if r <= p.m@[j as int] < n { Some((i, (p.m@[j as int] - r) as usize)) } else { None })

// ---------------------------------------------------------------- is_id (defect D5, repaired in 1866444)
/// a stored entry agrees with the identity matrix
pub open spec fn idok(e: Tv) -> bool { (e.0 == e.1 && e.2 == r1()) || (e.0 != e.1 && e.2 == r0()) }
/// the diagonal indices among the first p stored entries
pub open spec fn dsel(es: Seq<Tv>, p: int) -> Seq<usize> decreases p { if p <= 0 { Seq::empty() } else if es[p - 1].0 == es[p - 1].1 { dsel(es, p - 1).push(es[p - 1].0) } else { dsel(es, p - 1) } }
/// the stored entry the u-th diagonal index comes from
pub open spec fn dsrc(es: Seq<Tv>, p: int, u: int) -> int decreases p {
    if p <= 0 { -1 } else if es[p - 1].0 == es[p - 1].1 && u == dsel(es, p - 1).len() { p - 1 } else { dsrc(es, p - 1, u) }
}
pub proof fn lemma_dsrc(es: Seq<Tv>, p: int, u: int)
    requires 0 <= p <= es.len(), 0 <= u < dsel(es, p).len()
    ensures 0 <= dsrc(es, p, u) < p, es[dsrc(es, p, u)].0 == es[dsrc(es, p, u)].1, dsel(es, p)[u] == es[dsrc(es, p, u)].0,
        forall|u2: int| u < u2 < dsel(es, p).len() ==> dsrc(es, p, u) < #[trigger] dsrc(es, p, u2),
    decreases p
{
    if p > 0 {
        let b0 = dsel(es, p - 1);
        if es[p - 1].0 == es[p - 1].1 {
            if u < b0.len() { lemma_dsrc(es, p - 1, u); }
            assert forall|u2: int| u < u2 < dsel(es, p).len() implies dsrc(es, p, u) < #[trigger] dsrc(es, p, u2) by {
                assert(dsel(es, p).len() == b0.len() + 1);
                if u2 < b0.len() { assert(dsrc(es, p, u2) == dsrc(es, p - 1, u2)); assert(dsrc(es, p - 1, u) < dsrc(es, p - 1, u2)); }
                else { assert(dsrc(es, p, u2) == p - 1); assert(dsrc(es, p, u) == dsrc(es, p - 1, u)); }
            }
        } else {
            lemma_dsrc(es, p - 1, u);
            assert forall|u2: int| u < u2 < dsel(es, p).len() implies dsrc(es, p, u) < #[trigger] dsrc(es, p, u2) by { assert(dsrc(es, p - 1, u) < dsrc(es, p - 1, u2)); }
        }
    }
}
pub proof fn lemma_didx(es: Seq<Tv>, p: int, t: int)
    requires 0 <= t < p <= es.len(), es[t].0 == es[t].1
    ensures 0 <= dsel(es, t).len() < dsel(es, p).len(), dsel(es, p)[dsel(es, t).len() as int] == es[t].0
    decreases p
{ if p - 1 == t { } else { lemma_didx(es, p - 1, t); } }
pub proof fn lemma_dsel_len(es: Seq<Tv>, p: int) requires 0 <= p ensures dsel(es, p).len() <= p decreases p { if p > 0 { lemma_dsel_len(es, p - 1); } }
/// pairwise different numbers below n: at most n of them, and exactly n only if every number below n occurs
pub proof fn lemma_nodup_le(q: Seq<usize>, n: int)
    requires 0 <= n, forall|k: int| 0 <= k < q.len() ==> (#[trigger] q[k] as int) < n, forall|k: int, l: int| 0 <= k < l < q.len() ==> #[trigger] q[k] != #[trigger] q[l],
    ensures q.len() <= n
    decreases n
{
    if q.len() > 0 {
        if n == 0 { assert((q[0] as int) < 0); }
        else if exists|k: int| 0 <= k < q.len() && #[trigger] q[k] as int == n - 1 {
            let k = choose|k: int| 0 <= k < q.len() && #[trigger] q[k] as int == n - 1;
            let r = q.remove(k);
            assert forall|a: int| 0 <= a < r.len() implies (#[trigger] r[a] as int) < n - 1 by { if a < k { assert(r[a] == q[a]); assert(q[a] != q[k]); } else { assert(r[a] == q[a + 1]); assert(q[k] != q[a + 1]); } }
            assert forall|a: int, b: int| 0 <= a < b < r.len() implies #[trigger] r[a] != #[trigger] r[b] by { let a2 = if a < k { a } else { a + 1 }; let b2 = if b < k { b } else { b + 1 }; assert(r[a] == q[a2] && r[b] == q[b2]); assert(q[a2] != q[b2]); }
            lemma_nodup_le(r, n - 1);
        } else { assert forall|a: int| 0 <= a < q.len() implies (#[trigger] q[a] as int) < n - 1 by { }; lemma_nodup_le(q, n - 1); }
    }
}
pub proof fn lemma_nodup_full(q: Seq<usize>, n: int, i0: int)
    requires 0 <= i0 < n, q.len() == n, forall|k: int| 0 <= k < q.len() ==> (#[trigger] q[k] as int) < n, forall|k: int, l: int| 0 <= k < l < q.len() ==> #[trigger] q[k] != #[trigger] q[l],
    ensures exists|k: int| 0 <= k < q.len() && #[trigger] q[k] as int == i0
{
    if !(exists|k: int| 0 <= k < q.len() && #[trigger] q[k] as int == i0) {
        // squeeze the values above i0 down by one: still pairwise different, now below n - 1
        let r = Seq::new(q.len(), |k: int| if (q[k] as int) > i0 { (q[k] - 1) as usize } else { q[k] });
        assert forall|k: int| 0 <= k < r.len() implies (#[trigger] r[k] as int) < n - 1 by { assert((q[k] as int) < n); assert(q[k] as int != i0); }
        assert forall|k: int, l: int| 0 <= k < l < r.len() implies #[trigger] r[k] != #[trigger] r[l] by { assert(q[k] != q[l]); assert(q[k] as int != i0 && q[l] as int != i0); }
        lemma_nodup_le(r, n - 1);
    }
}
pub open spec fn covers(q: Seq<usize>, i: int) -> bool { exists|k: int| 0 <= k < q.len() && #[trigger] q[k] as int == i }
pub proof fn lemma_cover_ge(q: Seq<usize>, n: int)
    requires 0 <= n, forall|i: int| 0 <= i < n ==> #[trigger] covers(q, i)
    ensures q.len() >= n
    decreases n
{
    if n > 0 {
        assert(covers(q, n - 1));
        let k = choose|k: int| 0 <= k < q.len() && #[trigger] q[k] as int == n - 1;
        let r = q.remove(k);
        assert forall|i: int| 0 <= i < n - 1 implies #[trigger] covers(r, i) by {
            assert(covers(q, i));
            let k1 = choose|k1: int| 0 <= k1 < q.len() && #[trigger] q[k1] as int == i;
            if k1 < k { assert(r[k1] == q[k1]); } else { assert(k1 > k); assert(r[k1 - 1] == q[k1]); }
        }
        lemma_cover_ge(r, n - 1);
    }
}
/// the matrix with stored entries es (square of size n) is the identity  <=>  every stored entry agrees with it and n diagonal entries are stored
pub proof fn lemma_is_id(es: Seq<Tv>, n: int)
    requires distinct(es), inside(es, n, n), 0 <= n
    ensures ((forall|t: int| 0 <= t < es.len() ==> idok(#[trigger] es[t])) && dsel(es, es.len() as int).len() == n)
        <==> (forall|i: int, j: int| 0 <= i < n && 0 <= j < n ==> #[trigger] val(es, i, j) == (if i == j { r1() } else { r0() }))
{
    let p = es.len() as int; let d = dsel(es, p);
    ax_nontrivial();
    assert forall|u: int| 0 <= u < d.len() implies (#[trigger] d[u] as int) < n by { lemma_dsrc(es, p, u); assert(es[dsrc(es, p, u)].0 < n); }
    assert forall|u: int, w: int| 0 <= u < w < d.len() implies #[trigger] d[u] != #[trigger] d[w] by {
        lemma_dsrc(es, p, u); lemma_dsrc(es, p, w); let (a, b) = (dsrc(es, p, u), dsrc(es, p, w)); assert(a < b); assert(!(es[a].0 == es[b].0 && es[a].1 == es[b].1));
    }
    if (forall|t: int| 0 <= t < es.len() ==> idok(#[trigger] es[t])) && d.len() == n {
        assert forall|i: int, j: int| 0 <= i < n && 0 <= j < n implies #[trigger] val(es, i, j) == (if i == j { r1() } else { r0() }) by {
            if i == j {
                lemma_nodup_full(d, n, i);
                let u = choose|u: int| 0 <= u < d.len() && #[trigger] d[u] as int == i;
                lemma_dsrc(es, p, u); let t = dsrc(es, p, u);
                lemma_val(es, t); assert(idok(es[t]));
            } else if has(es, i, j) { let t = pos(es, i, j); assert(idok(es[t])); }
        }
    }
    if forall|i: int, j: int| 0 <= i < n && 0 <= j < n ==> #[trigger] val(es, i, j) == (if i == j { r1() } else { r0() }) {
        assert forall|t: int| 0 <= t < es.len() implies idok(#[trigger] es[t]) by { lemma_val(es, t); assert(val(es, es[t].0 as int, es[t].1 as int) == es[t].2); }
        assert forall|i: int| 0 <= i < n implies #[trigger] covers(d, i) by {
            assert(val(es, i, i) == r1()); assert(has(es, i, i)); let t = pos(es, i, i);
            lemma_didx(es, p, t); assert(d[dsel(es, t).len() as int] as int == i);
        }
        lemma_cover_ge(d, n); lemma_nodup_le(d, n);
    }
}

impl SpMat {
    #[verifier::external_body] pub fn is_square(&self) -> (r: bool) ensures r == (self.sh@.0 == self.sh@.1) { unimplemented!() }
    /// the identity test: true exactly for the n x n matrix with ones on the diagonal and zeros elsewhere (stored or not)
    pub fn is_id(&self) -> (r: bool)
        requires self.wf(), self.es@.len() <= usize::MAX,   // (representability: a matrix stores at most usize::MAX entries)
        ensures r == (self.sh@.0 == self.sh@.1 && forall|i: int, j: int| 0 <= i < self.sh@.0 && 0 <= j < self.sh@.1 ==> #[trigger] self.at(i, j) == (if i == j { r1() } else { r0() })),
    //@body impl/SpMat/is_id for_iter=1 loops=2
    //@+ loop 0 header
    //@| self.iter().all(|(i, j, a)|
    //@+ loop 1 header
    //@| self.iter().filter(|(i, j, _)|
    //@+ loop 0
    //@| invariant __it0.es@ == self.es@, 0 <= __it0.pos@ <= __it0.es@.len(), __all0 ==> forall|t: int| 0 <= t < __it0.pos@ ==> idok(#[trigger] self.es@[t]),
    //@|     !__all0 ==> exists|t: int| 0 <= t < self.es@.len() && !idok(#[trigger] self.es@[t]),
    //@| ensures __all0 ==> __it0.pos@ == __it0.es@.len(),
    //@| decreases __it0.es@.len() - __it0.pos@,
    //@+ loop 0 begin
    //@| assert(i == self.es@[__it0.pos@ - 1].0 && j == self.es@[__it0.pos@ - 1].1 && a.v() == self.es@[__it0.pos@ - 1].2);
    //@+ loop 1
    //@| invariant __it1.es@ == self.es@, 0 <= __it1.pos@ <= __it1.es@.len(), __cnt1 == dsel(self.es@, __it1.pos@).len(), __cnt1 <= __it1.pos@, self.es@.len() <= usize::MAX,
    //@| ensures __it1.pos@ == __it1.es@.len(),
    //@| decreases __it1.es@.len() - __it1.pos@,
    //@+ loop 1 end
    //@| assert(*i == self.es@[__it1.pos@ - 1].0 && *j == self.es@[__it1.pos@ - 1].1);
    //@+ post
    //@| if self.sh@.0 == self.sh@.1 {
    //@|     let n = self.sh@.0 as int;
    //@|     lemma_is_id(self.es@, n);
    //@|     if forall|i: int, j: int| 0 <= i < n && 0 <= j < n ==> #[trigger] self.at(i, j) == (if i == j { r1() } else { r0() }) {
    //@|         assert forall|i: int, j: int| 0 <= i < n && 0 <= j < n implies #[trigger] val(self.es@, i, j) == (if i == j { r1() } else { r0() }) by { assert(self.at(i, j) == val(self.es@, i, j)); }
    //@|     }
    //@| }
}

// ================================================================ SpVec (yui-matrix/src/sparse/sp_vec.rs)
//@source yui-matrix/src/sparse/sp_vec.rs
/// a stored entry of a sparse vector: (index, value)
pub type Tw = (usize, int);
pub open spec fn vhas(es: Seq<Tw>, i: int) -> bool { exists|t: int| 0 <= t < es.len() && (#[trigger] es[t]).0 == i }
pub open spec fn vpos(es: Seq<Tw>, i: int) -> int { choose|t: int| 0 <= t < es.len() && (#[trigger] es[t]).0 == i }
pub open spec fn vval(es: Seq<Tw>, i: int) -> int { if vhas(es, i) { es[vpos(es, i)].1 } else { r0() } }
pub open spec fn vdistinct(es: Seq<Tw>) -> bool { forall|s: int, t: int| 0 <= s < t < es.len() ==> #[trigger] es[s].0 != #[trigger] es[t].0 }
pub open spec fn vinside(es: Seq<Tw>, n: int) -> bool { forall|t: int| 0 <= t < es.len() ==> (#[trigger] es[t]).0 < n }
pub proof fn lemma_vval(es: Seq<Tw>, t: int)
    requires vdistinct(es), 0 <= t < es.len()
    ensures vhas(es, es[t].0 as int), vval(es, es[t].0 as int) == es[t].1
{
    let i = es[t].0 as int;
    assert(vhas(es, i));
    let p = vpos(es, i);
    if p < t { assert(es[p].0 != es[t].0); } else if t < p { assert(es[t].0 != es[p].0); }
}
pub struct SpVec { pub n: Ghost<usize>, pub es: Ghost<Seq<Tw>> }
pub struct WIter<'a> { pub es: Ghost<Seq<Tw>>, pub pos: Ghost<int>, pub w: Option<&'a ER> }
impl<'a> WIter<'a> {
    pub fn into_iter(self) -> (r: Self) ensures r == self { self }
    #[verifier::external_body] pub fn next(&mut self) -> (r: Option<(usize, &'a ER)>)
        requires 0 <= old(self).pos@ <= old(self).es@.len()
        ensures final(self).es@ == old(self).es@,
            old(self).pos@ < old(self).es@.len() ==> (final(self).pos@ == old(self).pos@ + 1 && r.is_some() && r.unwrap().0 == old(self).es@[old(self).pos@].0 && r.unwrap().1.v() == old(self).es@[old(self).pos@].1),
            old(self).pos@ >= old(self).es@.len() ==> (final(self).pos@ == old(self).pos@ && r.is_none()),
    { unimplemented!() }
}
/// entries collected in a Vec<(usize, R)>, by their (index, value) view
pub open spec fn tw(v: Seq<(usize, ER)>) -> Seq<Tw> { v.map(|i: int, x: (usize, ER)| (x.0, x.1.v())) }
/// first-half / second-half selection of SpVec::split after p stored entries
pub open spec fn wsel(es: Seq<Tw>, p: int, k: int, hi: bool) -> Seq<Tw> decreases p {
    if p <= 0 { Seq::empty() } else if (es[p - 1].0 >= k) == hi { wsel(es, p - 1, k, hi).push(((es[p - 1].0 - (if hi { k } else { 0 })) as usize, es[p - 1].1)) } else { wsel(es, p - 1, k, hi) }
}
pub open spec fn wsrc(es: Seq<Tw>, p: int, k: int, hi: bool, u: int) -> int decreases p {
    if p <= 0 { -1 } else if ((es[p - 1].0 >= k) == hi) && u == wsel(es, p - 1, k, hi).len() { p - 1 } else { wsrc(es, p - 1, k, hi, u) }
}
pub proof fn lemma_wsrc(es: Seq<Tw>, p: int, k: int, hi: bool, u: int)
    requires 0 <= p <= es.len(), 0 <= u < wsel(es, p, k, hi).len()
    ensures 0 <= wsrc(es, p, k, hi, u) < p, (es[wsrc(es, p, k, hi, u)].0 >= k) == hi,
        wsel(es, p, k, hi)[u] == (((es[wsrc(es, p, k, hi, u)].0 - (if hi { k } else { 0 })) as usize), es[wsrc(es, p, k, hi, u)].1),
        forall|u2: int| u < u2 < wsel(es, p, k, hi).len() ==> wsrc(es, p, k, hi, u) < #[trigger] wsrc(es, p, k, hi, u2),
    decreases p
{
    if p > 0 {
        let b0 = wsel(es, p - 1, k, hi);
        if (es[p - 1].0 >= k) == hi {
            if u < b0.len() { lemma_wsrc(es, p - 1, k, hi, u); }
            assert forall|u2: int| u < u2 < wsel(es, p, k, hi).len() implies wsrc(es, p, k, hi, u) < #[trigger] wsrc(es, p, k, hi, u2) by {
                assert(wsel(es, p, k, hi).len() == b0.len() + 1);
                if u2 < b0.len() { assert(wsrc(es, p, k, hi, u2) == wsrc(es, p - 1, k, hi, u2)); assert(wsrc(es, p - 1, k, hi, u) < wsrc(es, p - 1, k, hi, u2)); }
                else { assert(wsrc(es, p, k, hi, u2) == p - 1); assert(wsrc(es, p, k, hi, u) == wsrc(es, p - 1, k, hi, u)); }
            }
        } else {
            lemma_wsrc(es, p - 1, k, hi, u);
            assert forall|u2: int| u < u2 < wsel(es, p, k, hi).len() implies wsrc(es, p, k, hi, u) < #[trigger] wsrc(es, p, k, hi, u2) by { assert(wsrc(es, p - 1, k, hi, u) < wsrc(es, p - 1, k, hi, u2)); }
        }
    }
}
pub proof fn lemma_widx(es: Seq<Tw>, p: int, k: int, hi: bool, t: int)
    requires 0 <= t < p <= es.len(), (es[t].0 >= k) == hi
    ensures 0 <= wsel(es, t, k, hi).len() < wsel(es, p, k, hi).len(), wsel(es, p, k, hi)[wsel(es, t, k, hi).len() as int] == (((es[t].0 - (if hi { k } else { 0 })) as usize), es[t].1)
    decreases p
{ if p - 1 == t { } else { lemma_widx(es, p - 1, k, hi, t); } }
pub proof fn lemma_wsel_done(es: Seq<Tw>, k: int, hi: bool, n: int)
    requires vdistinct(es), vinside(es, n), 0 <= k <= n
    ensures ({ let x = wsel(es, es.len() as int, k, hi); let d = if hi { n - k } else { k }; let off = if hi { k } else { 0 };
        vdistinct(x) && vinside(x, d) && forall|i: int| 0 <= i < d ==> #[trigger] vval(x, i) == vval(es, i + off) }),
{
    let p = es.len() as int; let x = wsel(es, p, k, hi); let d = if hi { n - k } else { k }; let off = if hi { k } else { 0 };
    assert forall|u: int| 0 <= u < x.len() implies (#[trigger] x[u]).0 < d by { lemma_wsrc(es, p, k, hi, u); assert(es[wsrc(es, p, k, hi, u)].0 < n); }
    assert forall|s1: int, t1: int| 0 <= s1 < t1 < x.len() implies #[trigger] x[s1].0 != #[trigger] x[t1].0 by {
        lemma_wsrc(es, p, k, hi, s1); lemma_wsrc(es, p, k, hi, t1);
        let (a, b) = (wsrc(es, p, k, hi, s1), wsrc(es, p, k, hi, t1)); assert(a < b); assert(es[a].0 != es[b].0);
    }
    assert forall|i: int| 0 <= i < d implies #[trigger] vval(x, i) == vval(es, i + off) by {
        if vhas(x, i) { let u = vpos(x, i); lemma_wsrc(es, p, k, hi, u); lemma_vval(es, wsrc(es, p, k, hi, u)); }
        else if vhas(es, i + off) {
            let t = vpos(es, i + off); lemma_vval(es, t);
            assert((es[t].0 >= k) == hi);
            lemma_widx(es, p, k, hi, t);
            let u = wsel(es, t, k, hi).len() as int; assert(x[u].0 == i); assert(vhas(x, i));
        }
    }
}

/// (i, a) |-> (i, 0, a): the entries of the dim x 1 matrix
pub open spec fn col0(w: Seq<Tw>) -> Seq<Tv> { Seq::new(w.len(), |t: int| (w[t].0, 0usize, w[t].1)) }
/// the column of an n x 1 matrix as a vector's entry list
pub open spec fn vcol(es: Seq<Tv>) -> Seq<Tw> { Seq::new(es.len(), |t: int| (es[t].0, es[t].2)) }
pub proof fn lemma_col0(w: Seq<Tw>, dim: int)
    ensures vdistinct(w) ==> distinct(col0(w)), vinside(w, dim) ==> inside(col0(w), dim, 1),
        forall|i: int| #![trigger vval(w, i)] vdistinct(w) ==> val(col0(w), i, 0) == vval(w, i),
{
    let g = col0(w);
    assert forall|i: int| #![trigger vval(w, i)] vdistinct(w) implies val(g, i, 0) == vval(w, i) by {
        if vdistinct(w) {
            if vhas(w, i) { let t = vpos(w, i); lemma_vval(w, t); assert(g[t].0 == i && g[t].1 == 0); assert(has(g, i, 0)); lemma_val(g, pos(g, i, 0)); let t2 = pos(g, i, 0); assert(w[t2].0 == i); if t2 != t { if t2 < t { assert(w[t2].0 != w[t].0); } else { assert(w[t].0 != w[t2].0); } } }
            else if has(g, i, 0) { let t = pos(g, i, 0); assert(w[t].0 == i); assert(vhas(w, i)); }
        }
    }
}
/// the vector read off a well-formed dim x 1 matrix x whose values agree with the entry list w
pub proof fn lemma_vcol(ves: Seq<Tw>, g3: Seq<Tv>, w: Seq<Tw>, dim: int)
    requires vdistinct(w), g3 == col0(w), exists|x: Seq<Tv>| #![trigger vcol(x)] ves == vcol(x) && distinct(x) && inside(x, dim, 1) && forall|i: int, j: int| 0 <= i < dim && 0 <= j < 1 ==> #[trigger] val(x, i, j) == val(g3, i, j),
    ensures vdistinct(ves), vinside(ves, dim), forall|i: int| 0 <= i < dim ==> #[trigger] vval(ves, i) == vval(w, i),
{
    let x = choose|x: Seq<Tv>| #![trigger vcol(x)] ves == vcol(x) && distinct(x) && inside(x, dim, 1) && forall|i: int, j: int| 0 <= i < dim && 0 <= j < 1 ==> #[trigger] val(x, i, j) == val(g3, i, j);
    lemma_col0(w, dim);
    assert forall|s1: int, t1: int| 0 <= s1 < t1 < ves.len() implies #[trigger] ves[s1].0 != #[trigger] ves[t1].0 by { assert(x[s1].1 == 0 && x[t1].1 == 0); assert(!(x[s1].0 == x[t1].0 && x[s1].1 == x[t1].1)); }
    assert forall|t: int| 0 <= t < ves.len() implies (#[trigger] ves[t]).0 < dim by { assert(x[t].0 < dim); }
    assert forall|i: int| 0 <= i < dim implies #[trigger] vval(ves, i) == vval(w, i) by {
        assert(val(x, i, 0) == val(g3, i, 0));
        if vhas(ves, i) { let t = vpos(ves, i); lemma_vval(ves, t); assert(x[t].0 == i && x[t].1 == 0); lemma_val(x, t); }
        else if has(x, i, 0) { let t = pos(x, i, 0); assert(ves[t].0 == i); assert(vhas(ves, i)); }
    }
}
pub open spec fn vext_at<F: Fn(usize) -> Option<usize>>(f: F, e: Tw, dim: usize, r: SpVec, o: Option<usize>) -> bool {
    f.ensures((e.0,), o) && (o.is_some() ==> ((e.1 != r0() ==> o.unwrap() < dim) && (o.unwrap() < dim ==> r.at(o.unwrap() as int) == e.1)))
}
pub open spec fn vext_ok<F: Fn(usize) -> Option<usize>>(f: F, e: Tw, dim: usize, r: SpVec) -> bool { exists|o: Option<usize>| #[trigger] vext_at(f, e, dim, r, o) }
pub open spec fn vfsel(es: Seq<Tw>, os: Seq<Option<usize>>, p: int) -> Seq<Tw> decreases p {
    if p <= 0 { Seq::empty() } else if os[p - 1].is_some() { vfsel(es, os, p - 1).push((os[p - 1].unwrap(), es[p - 1].1)) } else { vfsel(es, os, p - 1) }
}
pub open spec fn vfsrc(es: Seq<Tw>, os: Seq<Option<usize>>, p: int, u: int) -> int decreases p {
    if p <= 0 { -1 } else if os[p - 1].is_some() && u == vfsel(es, os, p - 1).len() { p - 1 } else { vfsrc(es, os, p - 1, u) }
}
pub proof fn lemma_vfsel_ext(es: Seq<Tw>, os0: Seq<Option<usize>>, os: Seq<Option<usize>>, p: int)
    requires 0 <= p <= os0.len(), os0.len() <= os.len(), forall|t: int| 0 <= t < os0.len() ==> os[t] == os0[t]
    ensures vfsel(es, os, p) == vfsel(es, os0, p)
    decreases p
{ if p > 0 { lemma_vfsel_ext(es, os0, os, p - 1); } }
pub proof fn lemma_vfsrc(es: Seq<Tw>, os: Seq<Option<usize>>, p: int, u: int)
    requires 0 <= p <= es.len(), p <= os.len(), 0 <= u < vfsel(es, os, p).len()
    ensures 0 <= vfsrc(es, os, p, u) < p, os[vfsrc(es, os, p, u)].is_some(),
        vfsel(es, os, p)[u] == (os[vfsrc(es, os, p, u)].unwrap(), es[vfsrc(es, os, p, u)].1),
        forall|u2: int| u < u2 < vfsel(es, os, p).len() ==> vfsrc(es, os, p, u) < #[trigger] vfsrc(es, os, p, u2),
    decreases p
{
    if p > 0 {
        let b0 = vfsel(es, os, p - 1);
        if os[p - 1].is_some() {
            if u < b0.len() { lemma_vfsrc(es, os, p - 1, u); }
            assert forall|u2: int| u < u2 < vfsel(es, os, p).len() implies vfsrc(es, os, p, u) < #[trigger] vfsrc(es, os, p, u2) by {
                assert(vfsel(es, os, p).len() == b0.len() + 1);
                if u2 < b0.len() { assert(vfsrc(es, os, p, u2) == vfsrc(es, os, p - 1, u2)); assert(vfsrc(es, os, p - 1, u) < vfsrc(es, os, p - 1, u2)); }
                else { assert(u2 == b0.len()); assert(vfsrc(es, os, p, u2) == p - 1); assert(vfsrc(es, os, p, u) == vfsrc(es, os, p - 1, u)); }
            }
        } else {
            lemma_vfsrc(es, os, p - 1, u);
            assert forall|u2: int| u < u2 < vfsel(es, os, p).len() implies vfsrc(es, os, p, u) < #[trigger] vfsrc(es, os, p, u2) by {
                assert(vfsrc(es, os, p - 1, u) < vfsrc(es, os, p - 1, u2));
            }
        }
    }
}
pub proof fn lemma_vfidx(es: Seq<Tw>, os: Seq<Option<usize>>, p: int, t: int)
    requires 0 <= t < p <= es.len(), p <= os.len(), os[t].is_some()
    ensures 0 <= vfsel(es, os, t).len() < vfsel(es, os, p).len(), vfsel(es, os, p)[vfsel(es, os, t).len() as int] == (os[t].unwrap(), es[t].1)
    decreases p
{ if p - 1 == t { } else { lemma_vfidx(es, os, p - 1, t); } }
/// every index stored in the vector read off x = bsel(col0(w), ..) is an index of the list w
pub proof fn lemma_vcol_from(ves: Seq<Tw>, w: Seq<Tw>, dim: int)
    requires exists|x: Seq<Tv>| #![trigger vcol(x)] ves == vcol(x) && x == bsel(col0(w), w.len() as int, dim, 1, 0, 0),
    ensures forall|a: int| #[trigger] vhas(ves, a) ==> vhas(w, a),
{
    let x = choose|x: Seq<Tv>| #![trigger vcol(x)] ves == vcol(x) && x == bsel(col0(w), w.len() as int, dim, 1, 0, 0);
    let g = col0(w);
    assert forall|a: int| #[trigger] vhas(ves, a) implies vhas(w, a) by {
        let u = vpos(ves, a);
        assert(x[u].0 == a);
        lemma_src(g, g.len() as int, dim, 1, 0, 0, u);
        let t = src(g, g.len() as int, dim, 1, 0, 0, u);
        assert(g[t].0 == a); assert(w[t].0 == a);
    }
}
impl SpMat {
    /// ASSUMED (SpVec::new on the inner CSC matrix of an n x 1 matrix): the column as a vector; rejects any other width
    #[verifier::external_body] pub fn into_spvec(self) -> (r: SpVec) ensures self.sh@.1 == 1, r.n@ == self.sh@.0, r.es@ == vcol(self.es@) { unimplemented!() }
}
impl SpVec {
    pub open spec fn wf(&self) -> bool { vdistinct(self.es@) && vinside(self.es@, self.n@ as int) }
    pub open spec fn at(&self, i: int) -> int { vval(self.es@, i) }
    #[verifier::external_body] pub fn dim(&self) -> (r: usize) ensures r == self.n@ { unimplemented!() }
    #[verifier::external_body] pub fn iter(&self) -> (r: WIter<'_>) ensures r.es@ == self.es@, r.pos@ == 0 { unimplemented!() }
    /// the vector with the given (index, value) pairs -- the real body (SpMat::from_entries on a dim x 1 matrix, rule R43, then into_spvec):
    /// zero values are dropped, a non-zero value at an index >= dim does not return, pairwise different indices give exactly those entries
    pub fn from_entries(dim: usize, entries: Vec<(usize, ER)>) -> (r: SpVec)
//@if B
        requires vinside(tw(entries@), dim as int),
//@endif
        ensures r.n@ == dim, forall|t: int| 0 <= t < entries@.len() && (#[trigger] tw(entries@)[t]).1 != r0() ==> tw(entries@)[t].0 < dim,
            vdistinct(tw(entries@)) ==> r.wf() && forall|i: int| 0 <= i < dim ==> #[trigger] r.at(i) == vval(tw(entries@), i),
            forall|a: int| #[trigger] vhas(r.es@, a) ==> vhas(tw(entries@), a),
    //@body impl/SpVec/from_entries for_iter=1 loops=1 iter_model=entries! vec_elem=(usize,usize,ER) source=yui-matrix/src/sparse/sp_vec.rs
    //@+ sig
    //@| fn from_entries<T>(dim: usize, entries: T) -> Self where T: IntoIterator<Item = (usize, R)>
    //@+ pre-raw
    //@| let ghost w0 = tw(entries@); let ghost mut g3: Seq<Tv> = Seq::empty();
    //@+ loop 0
    //@| invariant __it0.es@.len() == w0.len(), tw(__it0.es@) == w0, 0 <= __it0.pos@ <= w0.len(),
    //@|     tv(__mout0@) =~= col0(w0).subrange(0, __it0.pos@),
    //@| ensures __it0.pos@ == w0.len(),
    //@| decreases w0.len() - __it0.pos@,
    //@+ loop 0 begin-raw
    //@| let ghost out0 = __mout0@;
    //@+ loop 0 end
    //@| assert(i == w0[__it0.pos@ - 1].0 && a.v() == w0[__it0.pos@ - 1].1);
    //@| assert(tv(__mout0@) =~= tv(out0).push((i, 0usize, a.v())));
    //@| assert(col0(w0).subrange(0, __it0.pos@) =~= col0(w0).subrange(0, __it0.pos@ - 1).push((i, 0usize, a.v())));
    //@+ loop 0 after
    //@| g3 = tv(__mout0@); assert(g3 =~= col0(w0));
    //@+ post
    //@| lemma_col0(w0, dim as int);
    //@| assert forall|t: int| 0 <= t < w0.len() && (#[trigger] w0[t]).1 != r0() implies w0[t].0 < dim by { assert(g3[t].2 != r0()); assert(g3[t].0 < dim); }
    //@| if vdistinct(w0) {
    //@|     assert(distinct(g3));
    //@|     assert(exists|x: Seq<Tv>| #![trigger vcol(x)] __ret.es@ == vcol(x));
    //@|     assert(exists|x: Seq<Tv>| #![trigger vcol(x)] __ret.es@ == vcol(x) && distinct(x) && inside(x, dim as int, 1));
    //@|     lemma_vcol(__ret.es@, g3, w0, dim as int);
    //@| }
    //@| lemma_vcol_from(__ret.es@, w0, dim as int);

    /// the two halves [0, at) and [at, n) of a sparse vector
    pub fn split(&self, at: usize) -> (r: (SpVec, SpVec))
        requires self.wf(),
//@if B
            at <= self.n@,
//@endif
        ensures at <= self.n@, r.0.wf(), r.1.wf(), r.0.n@ == at, r.1.n@ == (self.n@ - at) as usize,
            forall|i: int| 0 <= i < at ==> #[trigger] r.0.at(i) == self.at(i), forall|i: int| 0 <= i < self.n@ - at ==> #[trigger] r.1.at(i) == self.at(i + at),
    //@body impl/SpVec/split for_iter=1 loops=1 vec_elem=(usize,ER)
    //@+ loop 0 header
    //@| for (i, a) in self.iter()
    //@+ pre-raw
    //@| let ghost es0 = self.es@; let ghost n0 = self.n@ as int;
    //@+ loop 0
    //@| invariant self.wf(), es0 == self.es@, __it0.es@ == es0, 0 <= __it0.pos@ <= es0.len(), k <= n, n == self.n@,
    //@|     tw(e1@) =~= wsel(es0, __it0.pos@, k as int, false), tw(e2@) =~= wsel(es0, __it0.pos@, k as int, true),
    //@| ensures __it0.pos@ == es0.len(),
    //@| decreases es0.len() - __it0.pos@,
    //@+ loop 0 begin-raw
    //@| let ghost a1 = e1@; let ghost a2 = e2@;
    //@+ loop 0 begin
    //@| assert(i == es0[__it0.pos@ - 1].0 && a.v() == es0[__it0.pos@ - 1].1 && i < n);
    //@+ loop 0 end
    //@| if i < k { assert(tw(e1@) =~= tw(a1).push((i, a.v()))); assert(e2@ == a2); } else { assert(tw(e2@) =~= tw(a2).push(((i - k) as usize, a.v()))); assert(e1@ == a1); }
    //@+ loop 0 after
    //@| lemma_wsel_done(es0, k as int, false, n0); lemma_wsel_done(es0, k as int, true, n0);

    /// the stored entries of self moved to f(index) -- the real body (as SpMat::extract), for an index map that is a function and injective where defined
    pub fn extract<F: Fn(usize) -> Option<usize>>(&self, dim: usize, f: F) -> (r: SpVec)
        requires self.wf(), forall|t: int| 0 <= t < self.es@.len() ==> f.requires(((#[trigger] self.es@[t]).0,)),
            forall|t: int, r1: Option<usize>, r2: Option<usize>| 0 <= t < self.es@.len() && #[trigger] f.ensures((self.es@[t].0,), r1) && #[trigger] f.ensures((self.es@[t].0,), r2) ==> r1 == r2,
            forall|s: int, t: int, r: Option<usize>| 0 <= s < self.es@.len() && 0 <= t < self.es@.len() && #[trigger] f.ensures((self.es@[s].0,), r) && #[trigger] f.ensures((self.es@[t].0,), r) && r.is_some() ==> s == t,
//@if B
            forall|t: int, o: Option<usize>| 0 <= t < self.es@.len() && #[trigger] f.ensures((self.es@[t].0,), o) && o.is_some() ==> o.unwrap() < dim,
//@endif
        ensures r.n@ == dim, r.wf(),
            forall|t: int| 0 <= t < self.es@.len() ==> vext_ok(f, #[trigger] self.es@[t], dim, r),
            forall|a: int| #[trigger] vhas(r.es@, a) ==> exists|t: int| 0 <= t < self.es@.len() && f.ensures(((#[trigger] self.es@[t]).0,), Some(a as usize)),
    //@body impl/SpVec/extract for_iter=1 loops=1 vec_elem=(usize,ER) source=yui-matrix/src/sparse/sp_vec.rs
    //@+ sig
    //@| fn extract<F>(&self, dim: usize, f: F) -> SpVec<R> where F: Fn(usize) -> Option<usize>
    //@+ pre-raw
    //@| let ghost es0 = self.es@; let ghost mut os: Seq<Option<usize>> = Seq::empty(); let ghost mut gout: Seq<Tw> = Seq::empty();
    //@+ loop 0
    //@| invariant self.wf(), es0 == self.es@, __it0.es@ == es0, 0 <= __it0.pos@ <= es0.len(), os.len() == __it0.pos@,
    //@|     forall|t: int| 0 <= t < es0.len() ==> f.requires(((#[trigger] es0[t]).0,)),
    //@|     forall|t: int| 0 <= t < os.len() ==> f.ensures(((#[trigger] es0[t]).0,), os[t]),
    //@|     tw(__fout0@) =~= vfsel(es0, os, __it0.pos@),
//@if B
    //@|     vinside(tw(__fout0@), dim as int),
    //@|     forall|t: int, o: Option<usize>| 0 <= t < es0.len() && #[trigger] f.ensures((es0[t].0,), o) && o.is_some() ==> o.unwrap() < dim,
//@endif
    //@| ensures __it0.pos@ == es0.len(),
    //@| decreases es0.len() - __it0.pos@,
    //@+ loop 0 begin-raw
    //@| let ghost out0 = __fout0@; let ghost os0 = os;
    //@+ loop 0 begin
    //@| assert(i == es0[__it0.pos@ - 1].0 && a.v() == es0[__it0.pos@ - 1].1);
    //@+ loop 0 end
    //@| os = os0.push(__o0);
    //@| assert forall|t: int| 0 <= t < os.len() implies f.ensures(((#[trigger] es0[t]).0,), os[t]) by { if t < os0.len() { assert(os[t] == os0[t]); } }
    //@| lemma_vfsel_ext(es0, os0, os, __it0.pos@ - 1);
    //@| if __o0.is_some() { assert(tw(__fout0@) =~= tw(out0).push((__o0.unwrap(), es0[__it0.pos@ - 1].1))); } else { assert(__fout0@ == out0); }
    //@+ loop 0 after
    //@| gout = tw(__fout0@);
    //@+ post
    //@| let n0 = es0.len() as int; let g = vfsel(es0, os, n0); assert(gout =~= g);
    //@| assert forall|u1: int, u2: int| 0 <= u1 < u2 < g.len() implies #[trigger] g[u1].0 != #[trigger] g[u2].0 by {
    //@|     lemma_vfsrc(es0, os, n0, u1); lemma_vfsrc(es0, os, n0, u2);
    //@|     let (t1, t2) = (vfsrc(es0, os, n0, u1), vfsrc(es0, os, n0, u2));
    //@|     if g[u1].0 == g[u2].0 { assert(os[t1] == os[t2]); assert(f.ensures((es0[t1].0,), os[t1]) && f.ensures((es0[t2].0,), os[t1])); assert(t1 == t2); }
    //@| }
    //@| assert(forall|t2: int| 0 <= t2 < gout.len() && (#[trigger] gout[t2]).1 != r0() ==> gout[t2].0 < dim);
    //@| assert forall|t: int| 0 <= t < es0.len() implies vext_ok(f, #[trigger] es0[t], dim, __ret) by {
    //@|     let o = os[t];
    //@|     assert(f.ensures((es0[t].0,), o));
    //@|     if o.is_some() {
    //@|         lemma_vfidx(es0, os, n0, t); let u = vfsel(es0, os, t).len() as int; lemma_vval(g, u);
    //@|         assert(g[u] == (o.unwrap(), es0[t].1)); assert(gout[u] == g[u]);
    //@|         if es0[t].1 != r0() { assert(gout[u].1 != r0()); assert(gout[u].0 < dim); }
    //@|     }
    //@|     assert(vext_at(f, es0[t], dim, __ret, o));
    //@| }
    //@| assert forall|a: int| #[trigger] vhas(__ret.es@, a) implies exists|t: int| 0 <= t < es0.len() && f.ensures(((#[trigger] es0[t]).0,), Some(a as usize)) by {
    //@|     assert(vhas(gout, a));
    //@|     let u = vpos(g, a); lemma_vfsrc(es0, os, n0, u);
    //@|     let t = vfsrc(es0, os, n0, u);
    //@|     assert(os[t] == Some(a as usize));
    //@| }

    /// entries renumbered: the entry at i moves to p.at(i)
    pub fn permute(&self, p: PermView) -> (r: SpVec)
        requires self.wf(), p.wf(self.n@ as int),
        ensures r.wf(), r.n@ == self.n@, forall|i: int| 0 <= i < self.n@ ==> r.at(#[trigger] p.m@[i] as int) == self.at(i),
    //@body impl/SpVec/permute for_iter=1
    //@+ sig
    //@| fn permute(&self, p: PermView<'_>) -> SpVec<R>
    //@+ closure 0 typed
    //@| i: usize
    //@+ closure 0
    //@| -> (o: Option<usize>) requires i < p.m@.len() ensures o == Some(p.m@[i as int])
    //@+ post
    //@| assert forall|i: int| 0 <= i < self.n@ implies __ret.at(#[trigger] p.m@[i] as int) == self.at(i) by {
    //@|     if vhas(self.es@, i) { let t = vpos(self.es@, i); lemma_vval(self.es@, t); assert(self.es@[t].0 == i); }
    //@|     else if vhas(__ret.es@, p.m@[i] as int) { let t = choose|t: int| 0 <= t < self.es@.len() && p.m@[(#[trigger] self.es@[t]).0 as int] == p.m@[i]; if self.es@[t].0 as int != i { if (self.es@[t].0 as int) < i { assert(p.m@[self.es@[t].0 as int] != p.m@[i]); } else { assert(p.m@[i] != p.m@[self.es@[t].0 as int]); } } assert(vhas(self.es@, i)); }
    //@| }

    /// the sub-vector on the index range
    pub fn subvec(&self, range: core::ops::Range<usize>) -> (r: SpVec)
        requires self.wf(), range.start <= range.end,
        ensures r.wf(), r.n@ == (range.end - range.start) as usize, forall|a: int| 0 <= a < range.end - range.start ==> #[trigger] r.at(a) == self.at(a + range.start),
    //@body impl/SpVec/subvec for_iter=1
    //@+ sig
    //@| fn subvec(&self, range: Range<usize>) -> SpVec<R>
    //@+ closure 0 typed
    //@| i: usize
    //@+ closure 0
    //@| -> (o: Option<usize>) ensures o == (if range.start <= i < range.end { Some((i - range.start) as usize) } else { None })
    //@+ post
    //@| assert forall|a: int| 0 <= a < range.end - range.start implies #[trigger] __ret.at(a) == self.at(a + range.start) by {
    //@|     if vhas(self.es@, a + range.start) { let t = vpos(self.es@, a + range.start); lemma_vval(self.es@, t); assert(self.es@[t].0 == a + range.start); }
    //@|     else if vhas(__ret.es@, a) { let t = choose|t: int| 0 <= t < self.es@.len() && (#[trigger] self.es@[t]).0 - range.start == a && range.start <= self.es@[t].0 < range.end; assert(vhas(self.es@, a + range.start)); }
    //@| }
}
} // verus!
fn main() {}
