// Contract overlay for HomologyCalc (yui-homology/src/utils/homology_calc.rs): from d1 : C1 -> C2 and d2 : C2 -> C3
// (as matrices) compute rank and torsion of H2 = Ker d2 / Im d1 and the transfer maps p : C2 -> H2, q : H2 -> C2 out of
// two Smith normal forms.  Property C07, the bookkeeping layer: GIVEN the contract of snf_in_place (D = P A Q with
// two-sided inverses, D zero outside its leading r x r block; that contract is the subject of C09), the index ranges
// r1..n, r2..n-r1, r1-t..r1 and the block assembly must fit together so that
//   (E1)  p q = I_{rank + #tors}                       (every generator comes back to itself)
//   (E2)  d2 (q restricted to the free generators) = 0   (free generators are sent to cycles)
//   (E5)  (p restricted to the free part) d1 = 0          (boundaries die in the free part)
//   (E3)  rank = n - r1 - r2,  tors = the non-unit invariant factors of d1, in order.
// Matrices are abstract identifiers with dimensions; products, sub-blocks, stacking are uninterpreted and related by
// the block-algebra axioms bx_* (TRUSTED, listed below).  Whether H2 is *isomorphic* to Z^rank + sum Z/tors is a
// statement about modules and is NOT decided here.
use vstd::prelude::*;
verus! {
//@include prelude/rt.rs
//@include prelude/er.rs
//@source yui-homology/src/utils/homology_calc.rs

//@include prelude/bx.rs

//@include units/hcalc/model.inc

/// rows [a,b) of X times columns [c,d) of Y, when X Y = I_n: the corresponding block of the identity
proof fn lemma_block(x: int, y: int, n: int, a: int, b: int, c: int, d: int)
    requires mmul(x, y) == mid(n), 0 <= a <= b <= n, 0 <= c <= d <= n
    ensures (a == c && b == d) ==> mmul(mrows(x, a, b), mcols(y, c, d)) == mid(b - a),
        (b <= c || d <= a) ==> mmul(mrows(x, a, b), mcols(y, c, d)) == mzero(b - a, d - c)
{
    bx_rows_mul(x, mcols(y, c, d), a, b);     // rows(x (cols y)) = rows(x) cols(y)
    bx_cols_mul(x, y, c, d);                  // cols(x y) = x cols(y)
    bx_id_block(n, a, b, c, d);
}
/// the algebra behind HomologyCalc::trans
pub proof fn lemma_trans(s1: SnfResult, s2: SnfResult, d2: int, t: int)
    requires snf_ok(s1), snf_ok(s2), nc(s2.a@) == nr(s1.a@) - s1.r@, 0 <= t <= s1.r@,
    ensures ({
        let (n, r1, r2) = (nr(s1.a@), s1.r@, s2.r@); let k = n - r1; let r = k - r2;
        let p11 = mrows(s1.gp@, r1, n); let p22 = mrows(s2.gqinv@, r2, k); let pf = mmul(p22, p11); let pt = mrows(s1.gp@, r1 - t, r1);
        let q12 = mcols(s1.gpinv@, r1, n); let q22 = mcols(s2.gq@, r2, k); let qf = mmul(q12, q22); let qt = mcols(s1.gpinv@, r1 - t, r1);
        &&& 0 <= r && pq_ok(mstack(pf, pt), mconcat(qf, qt), s1.a@, r, t)
        &&& linked(s1, s2, d2) ==> mmul(d2, mcols(mconcat(qf, qt), 0, r)) == mzero(nr(d2), r)
        &&& nr(p11) == k && nc(p11) == n && nr(p22) == r && nc(p22) == k && nr(pf) == r && nc(pf) == n && nr(pt) == t && nc(pt) == n
        &&& nr(q12) == n && nc(q12) == k && nr(q22) == k && nc(q22) == r && nr(qf) == n && nc(qf) == r && nr(qt) == n && nc(qt) == t
        &&& nr(mstack(pf, pt)) == r + t && nc(mstack(pf, pt)) == n && nr(mconcat(qf, qt)) == n && nc(mconcat(qf, qt)) == r + t
    }),
{
    let (a1, p1, p1i, q1, q1i, dd1) = (s1.a@, s1.gp@, s1.gpinv@, s1.gq@, s1.gqinv@, s1.d@);
    let (a2, p2, p2i, q2, q2i, dd2) = (s2.a@, s2.gp@, s2.gpinv@, s2.gq@, s2.gqinv@, s2.d@);
    let (n, r1, r2) = (nr(a1), s1.r@, s2.r@); let k = n - r1; let r = k - r2;
    let p11 = mrows(p1, r1, n); let p22 = mrows(q2i, r2, k); let pf = mmul(p22, p11); let pt = mrows(p1, r1 - t, r1);
    let q12 = mcols(p1i, r1, n); let q22 = mcols(q2, r2, k); let qf = mmul(q12, q22); let qt = mcols(p1i, r1 - t, r1);
    let (p, q) = (mstack(pf, pt), mconcat(qf, qt));
    // dimensions
    bx_dims(p1i, 0, r1, n, 0, 0, 0); bx_dims(p1, 0, r1, n, 0, 0, 0);
    bx_dims(q2i, 0, r2, k, 0, 0, 0); bx_dims(q2, 0, r2, k, 0, 0, 0); bx_dims(p22, p11, 0, 0, 0, 0, 0); bx_dims(q12, q22, 0, 0, 0, 0, 0);
    bx_dims(p1, 0, r1 - t, r1, 0, 0, 0); bx_dims(p1i, 0, r1 - t, r1, 0, 0, 0);
    bx_dims(pf, pt, 0, 0, 0, 0, 0); bx_dims(qf, qt, 0, 0, 0, 0, 0);
    // ---- (E1) p q = I
    // the four blocks of the identity
    lemma_block(p1, p1i, n, r1, n, r1, n);              // p11 q12 = I_k
    lemma_block(p1, p1i, n, r1, n, r1 - t, r1);         // p11 qt  = 0 (k x t)
    lemma_block(p1, p1i, n, r1 - t, r1, r1, n);         // pt  q12 = 0 (t x k)
    lemma_block(p1, p1i, n, r1 - t, r1, r1 - t, r1);    // pt  qt  = I_t
    lemma_block(q2i, q2, k, r2, k, r2, k);              // p22 q22 = I_r
    // pf qf = p22 (p11 q12) q22 = p22 q22 = I_r
    bx_assoc(p22, p11, qf); bx_assoc(p11, q12, q22); bx_id(q22);
    assert(mmul(pf, qf) == mid(r));
    // pf qt = p22 (p11 qt) = p22 0 = 0 (r x t)
    bx_assoc(p22, p11, qt); bx_zero_mul(p22, k, t);
    assert(mmul(pf, qt) == mzero(r, t));
    // pt qf = (pt q12) q22 = 0 q22 = 0 (t x r)
    bx_assoc(pt, q12, q22); bx_zero_mul(q22, t, k);
    assert(mmul(pt, qf) == mzero(t, r));
    bx_stack_mul(pf, pt, q); bx_mul_concat(pf, qf, qt); bx_mul_concat(pt, qf, qt); bx_block_id(r, t);
    assert(mmul(p, q) == mid(r + t));
    // ---- (E2) d2 qf = (d2 q12) q22 = a2 cols(Q2) = cols(a2 Q2) = cols(P2i D2) = P2i cols(D2) = 0
    bx_parts(qf, qt);
    if linked(s1, s2, d2) {
        bx_assoc(d2, q12, q22); bx_cols_mul(a2, q2, r2, k);
        // a2 Q2 = P2i (P2 a2 Q2) = P2i D2
        bx_assoc(p2i, mmul(p2, a2), q2); bx_assoc(p2i, p2, a2); bx_id(a2); bx_assoc(mmul(p2i, p2), a2, q2);
        assert(mmul(a2, q2) == mmul(p2i, dd2));
        bx_cols_mul(p2i, dd2, r2, k); bx_zero_mul(p2i, nr(a2), k - r2);
        bx_dims(d2, q12, 0, 0, 0, 0, 0);
        assert(mmul(d2, qf) == mzero(nr(d2), r));
    }
    // ---- (E5) pf d1 = p22 (p11 a1);  p11 a1 = rows(P1 a1) = rows(D1 Q1i) = rows(D1) Q1i = 0
    bx_parts(pf, pt);
    bx_assoc(p22, p11, a1); bx_rows_mul(p1, a1, r1, n);
    // P1 a1 = (P1 a1 Q1) Q1i = D1 Q1i
    bx_assoc(mmul(p1, a1), q1, q1i); bx_dims(p1, a1, 0, 0, 0, 0, 0); bx_id(mmul(p1, a1));
    assert(mmul(p1, a1) == mmul(dd1, q1i));
    bx_rows_mul(dd1, q1i, r1, n); bx_zero_mul(q1i, n - r1, nc(a1));
    assert(mmul(p11, a1) == mzero(k, nc(a1)));
    bx_zero_mul(p22, k, nc(a1));
    assert(mmul(pf, a1) == mzero(r, nc(a1)));
}

impl HomologyCalc {
    pub fn trivial_result(rank: usize, with_trans: bool) -> (res: (usize, Vec<ER>, Option<Trans>))
        ensures res.0 == rank, res.1@.len() == 0, res.2.is_some() == with_trans, with_trans ==> (res.2.unwrap().f@ == mid(rank as int) && res.2.unwrap().b@ == mid(rank as int)),
    //@body impl/HomologyCalc/trivial_result for_iter=1
    //@+ sig
    //@| fn trivial_result(rank: usize, with_trans: bool) -> HomologyCalcResult<R>

    pub fn process_snf(d1: SpMat, d2: SpMat, with_trans: bool) -> (res: (SnfResult, SnfResult))
        requires nr(d1.m@) == nc(d2.m@),
        ensures linked(res.0, res.1, d2.m@), res.0.a@ == d1.m@,
            res.0.flags@ == seq![with_trans, true, false, false], res.1.flags@ == seq![false, false, with_trans, with_trans],
    //@body impl/HomologyCalc/process_snf ring=1 machine=n,r1 q=d2 qname=q
    //@+ sig
    //@| fn process_snf(d1: SpMat<R>, d2: SpMat<R>, with_trans: bool) -> (SnfResult<R>, SnfResult<R>)
    //@+ pre-raw
    //@| let ghost (g1, g2) = (d1.m@, d2.m@);
    //@+ after-let r1
    //@| bx_dims(s1.gpinv@, 0, r1 as int, n as int, 0, 0, 0);
    //@| if r1 == 0 { bx_full(s1.gpinv@); bx_id(g2); }

    pub fn result(s1: &SnfResult, s2: &SnfResult) -> (res: (usize, Vec<ER>))
        requires snf_ok(*s1), snf_ok(*s2), nc(s2.a@) == nr(s1.a@) - s1.r@,
        ensures res.0 == nr(s1.a@) - s1.r@ - s2.r@, res.1@.len() == nonunits(s1.diag@, s1.r@).len(),
            forall|i: int| 0 <= i < res.1@.len() ==> (#[trigger] res.1@[i]).v() == nonunits(s1.diag@, s1.r@)[i],
    //@body impl/HomologyCalc/result for_iter=1 loops=1 ring=1 machine=n,r1,r2,rank iter_model=factors!
    //@+ sig
    //@| fn result(s1: &SnfResult<R>, s2: &SnfResult<R>) -> (usize, Vec<R>)
    //@+ loop 0 header
    //@| s1.factors().into_iter().filter_map(|a|
    //@+ loop 0 elem
    //@| ER
    //@+ loop 0
    //@| invariant 0 <= __it0.pos@ <= __it0.es@.len(), __it0.es@.len() == s1.diag@.len(), s1.diag@.len() == s1.r@,
    //@|     forall|i: int| 0 <= i < __it0.es@.len() ==> (#[trigger] __it0.es@[i]).v() == s1.diag@[i],
    //@|     __out0@.len() == nonunits(s1.diag@, __it0.pos@).len(),
    //@|     forall|i: int| 0 <= i < __out0@.len() ==> (#[trigger] __out0@[i]).v() == nonunits(s1.diag@, __it0.pos@)[i],
    //@| ensures __it0.pos@ == __it0.es@.len(),
    //@| decreases __it0.es@.len() - __it0.pos@,

    /// the transfer maps: p q = I, boundaries die in the free part; and for every d2 the second normal form was computed from,
    /// the free generators are cycles
    pub fn trans(s1: &SnfResult, s2: &SnfResult) -> (res: Trans)
        requires snf_ok(*s1), snf_ok(*s2), s1.flags@ == seq![true, true, false, false], s2.flags@ == seq![false, false, true, true],
            nc(s2.a@) == nr(s1.a@) - s1.r@,
        ensures ({
            let r = nr(s1.a@) - s1.r@ - s2.r@; let t = nonunits(s1.diag@, s1.r@).len() as int;
            pq_ok(res.f@, res.b@, s1.a@, r, t) && forall|d2: int| linked(*s1, *s2, d2) ==> trans_ok(res.f@, res.b@, s1.a@, d2, r, t)
        }),
    //@body impl/HomologyCalc/trans for_iter=1 loops=1 ring=1 machine=n,r1,r2,r,t,shape iter_model=factors! q=p22,q12,p11,q22 qname=q
    //@+ sig
    //@| fn trans(s1: &SnfResult<R>, s2: &SnfResult<R>) -> Trans<R>
    //@+ loop 0 header
    //@| s1.factors().iter().filter(|a|
    //@+ loop 0
    //@| invariant 0 <= __it0.pos@ <= __it0.es@.len(), __it0.es@.len() == s1.diag@.len(), s1.diag@.len() == s1.r@, s1.r@ <= usize::MAX,
    //@|     forall|i: int| 0 <= i < __it0.es@.len() ==> (#[trigger] __it0.es@[i]).v() == s1.diag@[i],
    //@|     __cnt0 == nonunits(s1.diag@, __it0.pos@).len(), __cnt0 <= __it0.pos@,
    //@| ensures __it0.pos@ == __it0.es@.len(),
    //@| decreases __it0.es@.len() - __it0.pos@,
    //@+ loop 0 end
    //@| lemma_nonunits_len(s1.diag@, __it0.pos@);
    //@+ pre
    //@| if nc(s2.a@) == nr(s1.a@) - s1.r@ { lemma_trans(*s1, *s2, 0, 0); }
    //@+ after-let t
    //@| assert forall|d2: int| true implies #[trigger] linked(*s1, *s2, d2) ==> mmul(d2, mcols(mconcat(mmul(mcols(s1.gpinv@, s1.r@, nr(s1.a@)), mcols(s2.gq@, s2.r@, nr(s1.a@) - s1.r@)), mcols(s1.gpinv@, s1.r@ - t, s1.r@)), 0, nr(s1.a@) - s1.r@ - s2.r@)) == mzero(nr(d2), nr(s1.a@) - s1.r@ - s2.r@) by { lemma_trans(*s1, *s2, d2, t as int); }
    //@| lemma_trans(*s1, *s2, 0, t as int);
    /// the whole computation for one degree
    pub fn calculate(d1: SpMat, d2: SpMat, with_trans: bool) -> (res: (usize, Vec<ER>, Option<Trans>))
//@if B
        requires nr(d1.m@) == nc(d2.m@),
//@endif
        ensures nr(d1.m@) == nc(d2.m@), res.2.is_some() == with_trans,
            with_trans ==> trans_ok(res.2.unwrap().f@, res.2.unwrap().b@, d1.m@, d2.m@, res.0 as int, res.1@.len() as int),
            (d1.m@ == mzero(nr(d1.m@), nc(d1.m@)) && d2.m@ == mzero(nr(d2.m@), nc(d2.m@))) ==> (res.0 == nr(d1.m@) && res.1@.len() == 0),
            !(d1.m@ == mzero(nr(d1.m@), nc(d1.m@)) && d2.m@ == mzero(nr(d2.m@), nc(d2.m@))) ==> exists|s1: SnfResult, s2: SnfResult|
                #![trigger linked(s1, s2, d2.m@)]
                linked(s1, s2, d2.m@) && s1.a@ == d1.m@ && res.0 == nr(d1.m@) - s1.r@ - s2.r@ && res.1@.len() == nonunits(s1.diag@, s1.r@).len()
                && forall|i: int| 0 <= i < res.1@.len() ==> (#[trigger] res.1@[i]).v() == nonunits(s1.diag@, s1.r@)[i],
    //@body impl/HomologyCalc/calculate ring=1 machine=nrows,ncols
    //@+ sig
    //@| fn calculate(d1: SpMat<R>, d2: SpMat<R>, with_trans: bool) -> HomologyCalcResult<R>
    //@+ pre-raw
    //@| let ghost (g1, g2) = (d1.m@, d2.m@);
    //@+ pre
    //@| let n = nr(g1);
    //@| bx_dims(0, 0, 0, 0, n, 0, 0); bx_id(mid(n)); bx_full(mid(n)); bx_id(g1); bx_id(g2);
    //@+ after-let s1
    //@| bx_dims(g2, mcols(s1.gpinv@, s1.r@, nr(g1)), 0, 0, 0, 0, 0); bx_dims(s1.gpinv@, 0, s1.r@, nr(g1), 0, 0, 0);

}

} // verus!
fn main() {}
