// Contract overlay for polynomial long division over a field, Poly::div_rem (yui/src/types/poly/poly.rs),
// property C15 (mechanism "polynomial long division over a field"):
//     self == q * rhs + r   and   r == 0  or  deg r < deg rhs          (rhs != 0)
// Model: coefficients in the abstract ring ER specialised to a FIELD (exact division), polynomials as an
// abstract commutative ring P with a degree function, leading coefficient and monomials c x^k.  The one
// arithmetic fact about polynomials that is ASSUMED is the leading-term cancellation:
//     deg f >= deg g, g != 0  ==>  f - (lc f / lc g) x^(deg f - deg g) g  is 0 or has smaller degree than f;
// what is PROVED is that the repository's loop computes exactly such steps, keeps f == q g + r, and runs
// often enough for the remainder to drop below deg g.
use vstd::prelude::*;
verus! {
//@include prelude/rt.rs
//@include prelude/er.rs
//@source yui/src/types/poly/poly.rs

/// the coefficient ring is a field: division by a non-zero element is exact
#[verifier::external_body] pub proof fn ax_field(a: int, b: int) requires b != r0() ensures rmul(rdiv(a, b), b) == a, a == r0() ==> rdiv(a, b) == r0() {}

// ---------------------------------------------------------------- abstract polynomial ring P
pub uninterp spec fn padd(a: int, b: int) -> int;
pub uninterp spec fn pmul(a: int, b: int) -> int;
pub uninterp spec fn pneg(a: int) -> int;
pub uninterp spec fn p0() -> int;
pub open spec fn psub(a: int, b: int) -> int { padd(a, pneg(b)) }
pub uninterp spec fn pdeg(a: int) -> nat;
pub uninterp spec fn plc(a: int) -> int;
pub uninterp spec fn pmono(k: nat, c: int) -> int;
// ring identities of P used below (TRUSTED for the uninterpreted operations; integer twins machine-checked)
#[verifier::external_body] pub proof fn pid_step(q: int, q1: int, g: int, r: int)
    ensures padd(pmul(padd(q, q1), g), psub(r, pmul(q1, g))) == padd(pmul(q, g), r) {}
proof fn pid_step_int(q: int, q1: int, g: int, r: int) by (nonlinear_arith)
    ensures (q + q1) * g + (r + (-(q1 * g))) == q * g + r {}
#[verifier::external_body] pub proof fn pid_step2(q: int, q1: int, g: int, r1: int)
    ensures padd(pmul(padd(q, q1), g), r1) == padd(pmul(q, g), padd(pmul(q1, g), r1)) {}
proof fn pid_step2_int(q: int, q1: int, g: int, r1: int) by (nonlinear_arith)
    ensures (q + q1) * g + r1 == q * g + (q1 * g + r1) {}
#[verifier::external_body] pub proof fn pid_zero(a: int)
    ensures pmul(p0(), a) == p0(), padd(p0(), a) == a, padd(a, p0()) == a, psub(a, p0()) == a, psub(p0(), p0()) == p0() {}
proof fn pid_zero_int(a: int) ensures 0 * a == 0, 0 + a == a, a + 0 == a, a + (-0) == a, 0 + (-0) == 0 {}
// facts about degree / leading coefficient / monomials (TRUSTED, standard)
#[verifier::external_body] pub proof fn pax_zero() ensures pdeg(p0()) == 0, plc(p0()) == r0() {}
#[verifier::external_body] pub proof fn pax_lc(a: int) ensures (plc(a) == r0()) == (a == p0()) {}
#[verifier::external_body] pub proof fn pax_mono_zero(k: nat) ensures pmono(k, r0()) == p0() {}
/// leading-term cancellation (the arithmetic content of one long-division step)
#[verifier::external_body] pub proof fn pax_cancel(f: int, g: int)
    requires g != p0(), pdeg(f) >= pdeg(g)
    ensures ({ let r1 = psub(f, pmul(pmono((pdeg(f) - pdeg(g)) as nat, rdiv(plc(f), plc(g))), g)); r1 == p0() || pdeg(r1) < pdeg(f) }) {}

// ---------------------------------------------------------------- exec models
/// Var<X, usize>
pub struct Var { pub d: Ghost<nat> }
impl Var {
    #[verifier::external_body] pub fn from(k: usize) -> (r: Var) ensures r.d@ == k { unimplemented!() }
    #[verifier::external_body] pub fn deg(&self) -> (r: usize) ensures r == self.d@ { unimplemented!() }
}
pub struct Poly { pub p: Ghost<int> }
pub trait PL: Sized { spec fn pv(&self) -> int; }
impl PL for Poly { open spec fn pv(&self) -> int { self.p@ } }
impl PL for &Poly { open spec fn pv(&self) -> int { self.p@ } }
impl PL for &&Poly { open spec fn pv(&self) -> int { self.p@ } }
#[verifier::external_body] pub fn qsub_<A: PL, B: PL>(a: A, b: B) -> (r: Poly) ensures r.pv() == psub(a.pv(), b.pv()) { unimplemented!() }
#[verifier::external_body] pub fn qmul_<A: PL, B: PL>(a: A, b: B) -> (r: Poly) ensures r.pv() == pmul(a.pv(), b.pv()) { unimplemented!() }
#[verifier::external_body] pub fn qadd_assign_<B: PL>(a: &mut Poly, b: B) ensures (*final(a)).pv() == padd((*old(a)).pv(), b.pv()) { unimplemented!() }
impl Poly {
    #[verifier::external_body] pub fn zero() -> (r: Poly) ensures r.pv() == p0() { unimplemented!() }
    #[verifier::external_body] pub fn clone(&self) -> (r: Poly) ensures r.pv() == self.pv() { unimplemented!() }
    /// degrees are usize exponents: representable
    #[verifier::external_body] pub fn lead_deg(&self) -> (r: usize) ensures r == pdeg(self.pv()) { unimplemented!() }
    #[verifier::external_body] pub fn lead_term(&self) -> (r: (&Var, &ER)) ensures r.0.d@ == pdeg(self.pv()), r.1.v() == plc(self.pv()) { unimplemented!() }
    /// Poly::from((x^k, c)) = c x^k
    #[verifier::external_body] pub fn from(t: (Var, ER)) -> (r: Poly) ensures r.pv() == pmono(t.0.d@, t.1.v()) { unimplemented!() }
}

/// one division step, as a relation (this is the contract of the local closure `iter`)
pub open spec fn step_ok(f: int, g: int, q: int, r: int) -> bool {
    f == padd(pmul(q, g), r) && (r == p0() || pdeg(r) < pdeg(g) || pdeg(r) < pdeg(f))
    && (pdeg(f) < pdeg(g) ==> r == f)
}

impl Poly {
    #[verifier::loop_isolation(false)]
    pub fn div_rem(&self, rhs: &Poly) -> (res: (Poly, Poly))
        requires rhs.pv() != p0(),
        ensures
            self.pv() == padd(pmul(res.0.pv(), rhs.pv()), res.1.pv()),
            res.1.pv() == p0() || pdeg(res.1.pv()) < pdeg(rhs.pv()),
    //@body impl/Poly/div_rem ring=1 for_range=1 machine=i,j,k,deg,lead_deg q=f,g,q,q1,r,r1 loops=1
    //@+ sig
    //@| fn div_rem(&self, rhs: &Self) -> (Self, Self)
    //@+ loop 0 header
    //@| for _ in j ..= i
    //@+ closure 0
    //@| -> (out: (Poly, Poly)) requires g.pv() != p0() ensures step_ok(f.pv(), g.pv(), out.0.pv(), out.1.pv())
    //@+ before-let c
    //@| pax_lc(g.pv());
    //@+ after-let r
    //@| ax_field(a.v(), b.v()); pax_cancel(f.pv(), g.pv());
    //@| pid_step(p0(), q.pv(), g.pv(), f.pv()); pid_zero(q.pv()); pid_zero(g.pv()); pid_zero(f.pv());
    //@+ pre
    //@| pax_zero(); pid_zero(self.pv()); pid_zero(rhs.pv());
    //@| assert forall|x: int| #[trigger] pmul(p0(), x) == p0() by { pid_zero(x); }
    //@| assert forall|x: int| #[trigger] padd(p0(), x) == x by { pid_zero(x); }
    //@+ loop 0
    //@| invariant rhs.pv() != p0(), j == pdeg(rhs.pv()), i == pdeg(self.pv()), __hi0 == i, __go0 ==> (j <= __it0 && __it0 <= __hi0),
    //@|     self.pv() == padd(pmul(q.pv(), rhs.pv()), r.pv()),
    //@|     // progress: while the loop is running the remainder has degree at most i - (iterations done)
    //@|     r.pv() == p0() || pdeg(r.pv()) < pdeg(rhs.pv()) || (__go0 && pdeg(r.pv()) + (__it0 - j) <= i) ,
    //@+ after-let q1
    //@| pid_step2(q.pv(), q1.pv(), rhs.pv(), r1.pv());
}
} // verus!
fn main() {}
