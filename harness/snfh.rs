// C09 (Smith normal form) — witness search / replay on the real crate: 3x3 integer matrices with small
// entries; D = P A Q, P P^-1 = I, Q Q^-1 = I, D diagonal with non-zero entries first, normalised and
// each dividing the next.  (nalgebra is outside Kani's reach: native replay only.)
use super::src::*;
use crate::{ob, pre, reach};
use yui_matrix::dense::{snf::snf, Mat};
pub fn snf_small(s: &mut Src) -> R {
    let mut e = [0i64; 9];
    for k in 0..9 { e[k] = s.small(-6, 6); }
    reach!();
    let a = Mat::from_data((3, 3), e);
    let r = snf(&a, [true; 4]);
    let d = r.result().clone();
    let (p, pinv, q, qinv) = (r.p().unwrap(), r.pinv().unwrap(), r.q().unwrap(), r.qinv().unwrap());
    ob!(&(p * &a) * q == d, "snf::D==P.A.Q");
    ob!(p * pinv == Mat::id(3) && q * qinv == Mat::id(3), "snf::P.Pinv==I-and-Q.Qinv==I");
    ob!(d.is_diag(), "snf::D-is-diagonal");
    let v = [d[(0, 0)], d[(1, 1)], d[(2, 2)]];
    ob!(v.iter().all(|x| *x >= 0), "snf::diagonal-normalised");
    ob!(!(v[0] == 0 && v[1] != 0) && !(v[1] == 0 && v[2] != 0), "snf::non-zero-entries-first");
    ob!((v[1] == 0 || v[1] % v[0] == 0) && (v[2] == 0 || v[2] % v[1] == 0), "snf::each-entry-divides-the-next");
    Ok(())
}

/// C09 on arbitrary shapes (BOUNDED, sampled): m, n in 0..=5 incl. non-square and empty matrices, entries in -40..=40 with many zeros:
/// D = P A Q, two-sided inverses, D diagonal, normalised, non-zero entries first, each dividing the next; the number of non-zero entries of D
/// is the rank of A (fraction-free elimination here); every combination of requested transforms gives the same D.
pub fn snf_shapes(s: &mut Src) -> R {
    use yui_matrix::MatTrait;
    let (m, n) = (s.small(0, 5) as usize, s.small(0, 5) as usize);
    let mut e = vec![0i64; 25];
    for x in e.iter_mut() { let v = s.small(-60, 60); *x = if v.abs() > 40 { 0 } else { v }; }
    let flags = [s.bool(), s.bool(), s.bool(), s.bool()];
    reach!();
    // arbitrary-precision coefficients: over i64 the Gram determinants of the LLL preprocessing overflow already for 5 x 5 matrices with
    // two-digit entries (machine arithmetic, not a defect of the algorithm); the property asks for no panic with arbitrary precision
    use num_bigint::BigInt;
    use num_traits::{Zero, Signed};
    let data: Vec<BigInt> = (0..m).flat_map(|i| (0..n).map(move |j| (i, j))).map(|(i, j)| BigInt::from(e[i * 5 + j])).collect();
    let a = Mat::from_data((m, n), data);
    let r = snf(&a, [true; 4]);
    let d = r.result().clone();
    let (p, pinv, q, qinv) = (r.p().unwrap(), r.pinv().unwrap(), r.q().unwrap(), r.qinv().unwrap());
    ob!(d.shape() == (m, n) && p.shape() == (m, m) && q.shape() == (n, n), "snf::shapes");
    ob!(&(p * &a) * q == d, "snf::D==P.A.Q");
    ob!(p * pinv == Mat::id(m) && pinv * p == Mat::id(m) && q * qinv == Mat::id(n) && qinv * q == Mat::id(n), "snf::two-sided-inverses");
    ob!(d.is_diag(), "snf::D-is-diagonal");
    let k = m.min(n);
    let v: Vec<BigInt> = (0..k).map(|i| d[(i, i)].clone()).collect();
    ob!(v.iter().all(|x| !x.is_negative()), "snf::diagonal-normalised");
    ob!((1..k).all(|i| !(v[i - 1].is_zero() && !v[i].is_zero())), "snf::non-zero-entries-first");
    ob!((1..k).all(|i| v[i].is_zero() || (&v[i] % &v[i - 1]).is_zero()), "snf::each-entry-divides-the-next");
    // rank by fraction-free elimination on i128
    let mut w: Vec<Vec<i128>> = (0..m).map(|i| (0..n).map(|j| e[i * 5 + j] as i128).collect()).collect();
    let (mut rank, mut prev) = (0usize, 1i128);
    for c in 0..n { if rank == m { break; } if let Some(pr) = (rank..m).find(|&i| w[i][c] != 0) { w.swap(rank, pr); for i in rank + 1..m { for j in c + 1..n { w[i][j] = (w[i][j] * w[rank][c] - w[i][c] * w[rank][j]) / prev; } w[i][c] = 0; } prev = w[rank][c]; rank += 1; } }
    ob!(v.iter().filter(|x| !x.is_zero()).count() == rank, "snf::number-of-invariant-factors==rank");
    let r2 = snf(&a, flags);
    ob!(*r2.result() == d, "snf::D-independent-of-requested-transforms");
    ob!(r2.p().is_some() == flags[0] && r2.pinv().is_some() == flags[1] && r2.q().is_some() == flags[2] && r2.qinv().is_some() == flags[3], "snf::returns-exactly-the-requested-transforms");
    if flags[0] && flags[2] { ob!(&(r2.p().unwrap() * &a) * r2.q().unwrap() == d, "snf[flags]::D==P.A.Q"); }
    if flags[1] && flags[3] { ob!(&(r2.pinv().unwrap() * &d) * r2.qinv().unwrap() == a, "snf[flags]::Pinv.D.Qinv==A"); }
    Ok(())
}

/// C10, Hermite clause, on arbitrary shapes (BOUNDED, sampled): lll_hnf over BigInt on m x n matrices, m, n in 0..=5, any rank, entries
/// |x| <= 40: H = P A, P P^-1 = I = P^-1 P, H in row echelon form (pivot columns strictly increasing, zero rows last), pivots positive,
/// zeros below a pivot, entries above a pivot of strictly smaller absolute value; H does not depend on the requested transforms.
pub fn hnf_shapes(s: &mut Src) -> R {
    use yui_matrix::MatTrait;
    use yui_matrix::dense::lll::lll_hnf;
    use num_bigint::BigInt;
    use num_traits::{Zero, Signed};
    let (m, n) = (s.small(0, 5) as usize, s.small(0, 5) as usize);
    let mut e = vec![0i64; 25];
    for x in e.iter_mut() { let v = s.small(-60, 60); *x = if v.abs() > 40 { 0 } else { v }; }
    let flags = [s.bool(), s.bool()];
    reach!();
    let data: Vec<BigInt> = (0..m).flat_map(|i| (0..n).map(move |j| (i, j))).map(|(i, j)| BigInt::from(e[i * 5 + j])).collect();
    let a = Mat::from_data((m, n), data);
    let (h, p, pinv) = lll_hnf(&a, [true, true]);
    let (p, pinv) = (p.unwrap(), pinv.unwrap());
    ob!(h.shape() == (m, n) && p.shape() == (m, m) && pinv.shape() == (m, m), "lll_hnf::shapes");
    ob!(&p * &a == h, "lll_hnf::H==P.A");
    ob!(&p * &pinv == Mat::id(m) && &pinv * &p == Mat::id(m), "lll_hnf::P.Pinv==I==Pinv.P");
    let mut last: Option<usize> = None; let mut seen_zero_row = false;
    for i in 0..m {
        match (0..n).find(|&j| !h[(i, j)].is_zero()) {
            None => { seen_zero_row = true; }
            Some(j) => {
                ob!(!seen_zero_row, "lll_hnf::zero-rows-last");
                ob!(last.map(|l| l < j).unwrap_or(true), "lll_hnf::pivot-columns-strictly-increase");
                ob!(h[(i, j)].is_positive(), "lll_hnf::pivots-normalised");
                for i2 in i + 1..m { ob!(h[(i2, j)].is_zero(), "lll_hnf::zeros-below-a-pivot"); }
                for i2 in 0..i { ob!(h[(i2, j)].abs() < h[(i, j)], "lll_hnf::entries-above-a-pivot-are-smaller"); }
                last = Some(j);
            }
        }
    }
    let (h2, p2, q2) = lll_hnf(&a, flags);
    ob!(h2 == h && p2.is_some() == flags[0] && q2.is_some() == flags[1], "lll_hnf::H-independent-of-requested-transforms");
    Ok(())
}

/// C09 over a polynomial ring (BOUNDED, sampled): snf over F_5[x] on 2 x 2 and 2 x 3 matrices with entries of degree <= 2: D = P A Q,
/// two-sided inverses, D diagonal, each entry normalised (monic or zero), the first divides the second, zero entries last.
pub fn snf_poly_ff5(s: &mut Src) -> R {
    use yui::{FF, Ring, EucRing};
    use yui::poly::Poly;
    use yui_matrix::MatTrait;
    use num_traits::{Zero, One};
    type F = FF<5>;
    type P = Poly<'x', F>;
    let n = s.small(2, 3) as usize;
    let mut es: Vec<P> = vec![];
    for _ in 0..6 { let c = [s.small(0, 4) as i32, s.small(0, 4) as i32, s.small(0, 4) as i32]; let k = s.small(0, 3) as usize; es.push(P::from_iter(c.iter().take(k).enumerate().map(|(i, &c)| (P::mono(i), F::from(c))))); }
    reach!();
    let a = Mat::from_data((2, n), es.into_iter().take(2 * n).collect::<Vec<_>>());
    let r = snf(&a, [true; 4]);
    let d = r.result().clone();
    let (p, pinv, q, qinv) = (r.p().unwrap(), r.pinv().unwrap(), r.q().unwrap(), r.qinv().unwrap());
    ob!(d.shape() == (2, n), "snf<F5[x]>::shape");
    ob!(&(p * &a) * q == d, "snf<F5[x]>::D==P.A.Q");
    ob!(p * pinv == Mat::id(2) && pinv * p == Mat::id(2) && q * qinv == Mat::id(n) && qinv * q == Mat::id(n), "snf<F5[x]>::two-sided-inverses");
    ob!(d.is_diag(), "snf<F5[x]>::D-is-diagonal");
    let (d0, d1) = (d[(0, 0)].clone(), d[(1, 1)].clone());
    ob!(d0.normalizing_unit().is_one() && d1.normalizing_unit().is_one(), "snf<F5[x]>::diagonal-normalised");
    ob!(!(d0.is_zero() && !d1.is_zero()), "snf<F5[x]>::non-zero-entries-first");
    ob!(d1.is_zero() || (&d1 % &d0).is_zero(), "snf<F5[x]>::first-divides-second");
    let _ = P::one();
    Ok(())
}

/// C10, LLL clause, on wide shapes with arbitrary precision (BOUNDED, sampled): lll over BigInt on m x n bases, 1 <= m <= n <= 5, entries
/// |x| <= 9, rows independent: B = P A, det P = +-1, B size-reduced and Lovasz-reduced (alpha = 3/4), by exact rational Gram-Schmidt.
pub fn lll_shapes(s: &mut Src) -> R {
    use num_bigint::BigInt;
    use num_traits::{Zero, One, Signed};
    let n = s.small(1, 5) as usize;
    let m = (s.small(1, 5) as usize).min(n);
    let mut e = vec![0i64; 25];
    for x in e.iter_mut() { *x = s.small(-9, 9); }
    reach!();
    let bi = |x: i64| BigInt::from(x);
    // rank by fraction-free elimination (BigInt)
    let det_or_rank = |rows: &Vec<Vec<BigInt>>, want_det: bool| -> (usize, BigInt) {
        let (r, c) = (rows.len(), if rows.is_empty() { 0 } else { rows[0].len() });
        let mut w = rows.clone(); let (mut rank, mut prev, mut sign) = (0usize, BigInt::one(), 1i32);
        for col in 0..c { if rank == r { break; } if let Some(pr) = (rank..r).find(|&i| !w[i][col].is_zero()) { if pr != rank { w.swap(rank, pr); sign = -sign; } for i in rank + 1..r { for j in col + 1..c { w[i][j] = (&w[i][j] * &w[rank][col] - &w[i][col] * &w[rank][j]) / &prev; } w[i][col] = BigInt::zero(); } prev = w[rank][col].clone(); rank += 1; } }
        let det = if want_det && rank == r && r == c { if sign > 0 { prev } else { -prev } } else { BigInt::zero() };
        (rank, det)
    };
    let rows: Vec<Vec<BigInt>> = (0..m).map(|i| (0..n).map(|j| bi(e[i * 5 + j])).collect()).collect();
    pre!(det_or_rank(&rows, false).0 == m);
    let a = Mat::from_data((m, n), rows.iter().flatten().cloned().collect::<Vec<_>>());
    let (b, p) = lll(&a, true);
    let p = p.unwrap();
    ob!(&p * &a == b, "lll::B==P.A");
    let prow: Vec<Vec<BigInt>> = (0..m).map(|i| (0..m).map(|j| p[(i, j)].clone()).collect()).collect();
    ob!(det_or_rank(&prow, true).1.abs() == BigInt::one(), "lll::P-unimodular");
    // exact Gram-Schmidt with fractions num/den over BigInt (den > 0)
    #[derive(Clone)] struct Q(BigInt, BigInt);
    let qn = |a: BigInt, b: BigInt| { if b.is_negative() { Q(-a, -b) } else { Q(a, b) } };
    let add = |x: &Q, y: &Q| qn(&x.0 * &y.1 + &y.0 * &x.1, &x.1 * &y.1);
    let sub = |x: &Q, y: &Q| qn(&x.0 * &y.1 - &y.0 * &x.1, &x.1 * &y.1);
    let mul = |x: &Q, y: &Q| qn(&x.0 * &y.0, &x.1 * &y.1);
    let div = |x: &Q, y: &Q| qn(&x.0 * &y.1, &x.1 * &y.0);
    let le = |x: &Q, y: &Q| &x.0 * &y.1 <= &y.0 * &x.1;
    let row = |i: usize| (0..n).map(|c| Q(b[(i, c)].clone(), BigInt::one())).collect::<Vec<_>>();
    let dot = |x: &Vec<Q>, y: &Vec<Q>| (0..n).fold(Q(BigInt::zero(), BigInt::one()), |acc, c| add(&acc, &mul(&x[c], &y[c])));
    let mut bs: Vec<Vec<Q>> = vec![]; let mut mu = vec![vec![Q(BigInt::zero(), BigInt::one()); m]; m];
    for i in 0..m {
        let mut v = row(i);
        for j in 0..i { let nj = dot(&bs[j], &bs[j]); ob!(!nj.0.is_zero(), "lll::rows-independent"); mu[i][j] = div(&dot(&row(i), &bs[j]), &nj); for c in 0..n { v[c] = sub(&v[c], &mul(&mu[i][j], &bs[j][c])); } }
        bs.push(v);
    }
    let half = Q(BigInt::one(), bi(2));
    for i in 0..m { for j in 0..i { let a = Q(mu[i][j].0.abs(), mu[i][j].1.clone()); ob!(le(&a, &half), "lll::size-reduced(|mu_ij|<=1/2)"); } }
    for k in 1..m {
        let lhs = dot(&bs[k], &bs[k]);
        let rhs = mul(&sub(&Q(bi(3), bi(4)), &mul(&mu[k][k - 1], &mu[k][k - 1])), &dot(&bs[k - 1], &bs[k - 1]));
        ob!(le(&rhs, &lhs), "lll::Lovasz-condition(alpha=3/4)");
    }
    Ok(())
}

/// C10, Hermite clause over Z[i] (BOUNDED, sampled): lll_hnf over GaussInt<BigInt> on m x n matrices, m, n in 0..=3, components |x| <= 4.
pub fn hnf_gauss_shapes(s: &mut Src) -> R {
    use yui_matrix::MatTrait;
    use yui_matrix::dense::lll::lll_hnf;
    use yui::{GaussInt, Ring};
    use num_bigint::BigInt;
    use num_traits::{Zero, One};
    type G = GaussInt<BigInt>;
    let (m, n) = (s.small(0, 3) as usize, s.small(0, 3) as usize);
    let mut e: Vec<(i64, i64)> = vec![];
    for _ in 0..9 { let (a, b) = (s.small(-6, 6), s.small(-6, 6)); e.push((if a.abs() > 4 { 0 } else { a }, if b.abs() > 4 { 0 } else { b })); }
    reach!();
    let g = |(a, b): (i64, i64)| G::new(BigInt::from(a), BigInt::from(b));
    let a = Mat::from_data((m, n), (0..m).flat_map(|i| (0..n).map(move |j| (i, j))).map(|(i, j)| g(e[i * 3 + j])).collect::<Vec<_>>());
    let (h, p, pinv) = lll_hnf(&a, [true, true]);
    let (p, pinv) = (p.unwrap(), pinv.unwrap());
    ob!(h.shape() == (m, n), "lll_hnf<Z[i]>::shape");
    ob!(&p * &a == h, "lll_hnf<Z[i]>::H==P.A");
    ob!(&p * &pinv == Mat::id(m) && &pinv * &p == Mat::id(m), "lll_hnf<Z[i]>::P.Pinv==I==Pinv.P");
    let norm = |x: &G| -> BigInt { let (re, im) = (x.left().clone(), x.right().clone()); &re * &re + &im * &im };
    let mut last: Option<usize> = None; let mut seen_zero_row = false;
    for i in 0..m {
        match (0..n).find(|&j| !h[(i, j)].is_zero()) {
            None => { seen_zero_row = true; }
            Some(j) => {
                ob!(!seen_zero_row, "lll_hnf<Z[i]>::zero-rows-last");
                ob!(last.map(|l| l < j).unwrap_or(true), "lll_hnf<Z[i]>::pivot-columns-strictly-increase");
                ob!(h[(i, j)].normalizing_unit().is_one(), "lll_hnf<Z[i]>::pivots-normalised");
                for i2 in i + 1..m { ob!(h[(i2, j)].is_zero(), "lll_hnf<Z[i]>::zeros-below-a-pivot"); }
                for i2 in 0..i { ob!(norm(&h[(i2, j)]) < norm(&h[(i, j)]), "lll_hnf<Z[i]>::entries-above-a-pivot-have-smaller-norm"); }
                last = Some(j);
            }
        }
    }
    Ok(())
}

/// C09 over Z[i] and Z[omega] with arbitrary precision (BOUNDED, sampled): snf on m x n matrices, m, n in 0..=3, components |x| <= 4:
/// D = P A Q, two-sided inverses, D diagonal, normalised, non-zero entries first, each dividing the next.
pub fn snf_quad_shapes(s: &mut Src) -> R {
    use yui_matrix::MatTrait;
    use yui::{GaussInt, EisenInt, Ring, EucRing};
    use num_bigint::BigInt;
    use num_traits::Zero;
    let (m, n) = (s.small(0, 3) as usize, s.small(0, 3) as usize);
    let mut e: Vec<(i64, i64)> = vec![];
    for _ in 0..9 { let (a, b) = (s.small(-6, 6), s.small(-6, 6)); e.push((if a.abs() > 4 { 0 } else { a }, if b.abs() > 4 { 0 } else { b })); }
    let eisen = s.bool();
    reach!();
    macro_rules! go { ($T:ty) => {{
        let g = |(a, b): (i64, i64)| <$T>::new(BigInt::from(a), BigInt::from(b));
        let a = Mat::from_data((m, n), (0..m).flat_map(|i| (0..n).map(move |j| (i, j))).map(|(i, j)| g(e[i * 3 + j])).collect::<Vec<_>>());
        let r = snf(&a, [true; 4]);
        let d = r.result().clone();
        let (p, pinv, q, qinv) = (r.p().unwrap(), r.pinv().unwrap(), r.q().unwrap(), r.qinv().unwrap());
        ob!(d.shape() == (m, n), "snf<quad>::shape");
        ob!(&(p * &a) * q == d, "snf<quad>::D==P.A.Q");
        ob!(p * pinv == Mat::id(m) && pinv * p == Mat::id(m) && q * qinv == Mat::id(n) && qinv * q == Mat::id(n), "snf<quad>::two-sided-inverses");
        ob!(d.is_diag(), "snf<quad>::D-is-diagonal");
        let k = m.min(n);
        let v: Vec<$T> = (0..k).map(|i| d[(i, i)].clone()).collect();
        ob!(v.iter().all(|x| x.normalized() == *x), "snf<quad>::diagonal-normalised");
        ob!((1..k).all(|i| !(v[i - 1].is_zero() && !v[i].is_zero())), "snf<quad>::non-zero-entries-first");
        ob!((1..k).all(|i| v[i].is_zero() || v[i - 1].divides(&v[i])), "snf<quad>::each-entry-divides-the-next");
    }} }
    if eisen { go!(EisenInt<BigInt>) } else { go!(GaussInt<BigInt>) }
    Ok(())
}

/// the same over Z[i] (units other than +-1 exercise the inverse bookkeeping): 2x2, small entries
pub fn snf_gauss_small(s: &mut Src) -> R {
    use yui::GaussInt;
    type G = GaussInt<i64>;
    let mut e = vec![];
    for _ in 0..4 { e.push(G::new(s.small(-4, 4), s.small(-4, 4))); }
    reach!();
    let a = Mat::from_data((2, 2), e);
    let r = snf(&a, [true; 4]);
    let d = r.result().clone();
    let (p, pinv, q, qinv) = (r.p().unwrap(), r.pinv().unwrap(), r.q().unwrap(), r.qinv().unwrap());
    ob!(&(p * &a) * q == d, "snf<Z[i]>::D==P.A.Q");
    ob!(p * pinv == Mat::id(2) && pinv * p == Mat::id(2), "snf<Z[i]>::P.Pinv==I");
    ob!(q * qinv == Mat::id(2) && qinv * q == Mat::id(2), "snf<Z[i]>::Q.Qinv==I");
    ob!(d.is_diag(), "snf<Z[i]>::D-is-diagonal");
    use yui::Ring;
    ob!(d[(0, 0)].normalized() == d[(0, 0)] && d[(1, 1)].normalized() == d[(1, 1)], "snf<Z[i]>::diagonal-normalised");
    Ok(())
}

// C13 / C07 (composed coordinate transforms) — witness search / replay on the real crate: two steps
// (f0, b0), (f1, b1) of 2x2 integer matrices: F = f1 f0, B = b0 b1, forward / backward apply them,
// reduce() and merge() keep them.
pub fn trans_small(s: &mut Src) -> R {
    use yui_matrix::sparse::{SpMat, SpVec, Trans};
    let mut m = vec![];
    for _ in 0..4 { let mut e = vec![]; for _ in 0..4 { e.push(s.small(-3, 3)); } m.push(SpMat::from_dense_data((2, 2), e)); }
    let v = SpVec::from(vec![s.small(-3, 3), s.small(-3, 3)]);
    reach!();
    let (f0, b0, f1, b1) = (m[0].clone(), m[1].clone(), m[2].clone(), m[3].clone());
    let mut t = Trans::new(f0.clone(), b0.clone());
    t.append(f1.clone(), b1.clone());
    let (ff, bb) = (&f1 * &f0, &b0 * &b1);
    ob!(t.forward_mat() == ff, "Trans::forward_mat==f1.f0");
    ob!(t.backward_mat() == bb, "Trans::backward_mat==b0.b1");
    ob!(t.forward(&v) == &ff * &v, "Trans::forward(v)==F.v");
    ob!(t.backward(&v) == &bb * &v, "Trans::backward(v)==B.v");
    let mut r = t.clone(); r.reduce();
    ob!(r.forward_mat() == ff && r.backward_mat() == bb && r.forward(&v) == &ff * &v, "Trans::reduce-keeps-the-maps");
    let mut u = Trans::new(f0.clone(), b0.clone()); u.merge(Trans::new(f1.clone(), b1.clone()));
    ob!(u.forward_mat() == ff && u.backward_mat() == bb, "Trans::merge-composes");
    ob!(Trans::<i64>::id(2).is_id() && Trans::<i64>::id(2).forward(&v) == v && r.src_dim() == 2 && !t.is_id(), "Trans::id");
    // sub(indices): F' = E F, B' = B E^T with E the selection matrix of the index list (any order, repeats allowed),
    // the same before and after the transform is collapsed
    let idx: Vec<usize> = (0..s.small(0, 3) as usize).map(|_| 0usize).collect::<Vec<_>>();
    let idx: Vec<usize> = idx.iter().map(|_| s.small(0, 1) as usize).collect();
    let e = SpMat::from_entries((idx.len(), 2), idx.iter().enumerate().map(|(i, &j)| (i, j, 1i64)));
    let et = SpMat::from_entries((2, idx.len()), idx.iter().enumerate().map(|(i, &j)| (j, i, 1i64)));
    let (want_f, want_b) = ((&e * &ff).into_dense(), (&bb * &et).into_dense());
    let ts = t.sub(&idx);
    ob!(ts.forward_mat().into_dense() == want_f && ts.backward_mat().into_dense() == want_b, "Trans::sub==selection.F/B.selection^T");
    let rs = r.sub(&idx);
    ob!(rs.forward_mat().into_dense() == want_f && rs.backward_mat().into_dense() == want_b, "Trans::sub-after-reduce==selection.F/B.selection^T");
    Ok(())
}

// C10 (LLL) — witness search / replay on the real crate: 3x3 integer matrices of full rank, small
// entries.  B = P A with det P = +-1, B size-reduced (|mu_ij| <= 1/2) and Lovasz-reduced for alpha = 3/4,
// checked with exact rational Gram-Schmidt in i128.
use yui_matrix::dense::lll::lll;
#[derive(Clone, Copy, Debug)]
struct Fr(i128, i128);
fn g(a: i128, b: i128) -> i128 { let (mut a, mut b) = (a.abs(), b.abs()); while b != 0 { let t = a % b; a = b; b = t; } a }
impl Fr {
    fn new(n: i128, d: i128) -> Fr { let s = if d < 0 { -1 } else { 1 }; let k = g(n, d).max(1); Fr(s * n / k, s * d / k) }
    fn add(self, o: Fr) -> Fr { Fr::new(self.0 * o.1 + o.0 * self.1, self.1 * o.1) }
    fn sub(self, o: Fr) -> Fr { Fr::new(self.0 * o.1 - o.0 * self.1, self.1 * o.1) }
    fn mul(self, o: Fr) -> Fr { Fr::new(self.0 * o.0, self.1 * o.1) }
    fn div(self, o: Fr) -> Fr { Fr::new(self.0 * o.1, self.1 * o.0) }
    fn le(self, o: Fr) -> bool { self.0 * o.1 <= o.0 * self.1 }
    fn abs(self) -> Fr { Fr(self.0.abs(), self.1) }
}
fn det3(m: &Mat<i64>) -> i128 {
    let e = |i: usize, j: usize| m[(i, j)] as i128;
    e(0,0) * (e(1,1) * e(2,2) - e(1,2) * e(2,1)) - e(0,1) * (e(1,0) * e(2,2) - e(1,2) * e(2,0)) + e(0,2) * (e(1,0) * e(2,1) - e(1,1) * e(2,0))
}
pub fn lll_small(s: &mut Src) -> R {
    let mut e = [0i64; 9];
    for k in 0..9 { e[k] = s.small(-5, 5); }
    let a = Mat::from_data((3, 3), e);
    pre!(det3(&a) != 0);
    reach!();
    let (b, p) = lll(&a, true);
    let p = p.unwrap();
    ob!(&p * &a == b, "lll::B==P.A");
    ob!(det3(&p).abs() == 1, "lll::P-unimodular");
    // exact Gram-Schmidt of the rows of B
    let row = |i: usize| [Fr(b[(i, 0)] as i128, 1), Fr(b[(i, 1)] as i128, 1), Fr(b[(i, 2)] as i128, 1)];
    let dot = |x: &[Fr; 3], y: &[Fr; 3]| x[0].mul(y[0]).add(x[1].mul(y[1])).add(x[2].mul(y[2]));
    let mut bs: Vec<[Fr; 3]> = vec![];
    let mut mu = [[Fr(0, 1); 3]; 3];
    for i in 0..3 {
        let mut v = row(i);
        for j in 0..i {
            mu[i][j] = dot(&row(i), &bs[j]).div(dot(&bs[j], &bs[j]));
            for c in 0..3 { v[c] = v[c].sub(mu[i][j].mul(bs[j][c])); }
        }
        bs.push(v);
    }
    for i in 0..3 { for j in 0..i { ob!(mu[i][j].abs().le(Fr(1, 2)), "lll::size-reduced(|mu_ij|<=1/2)"); } }
    for k in 1..3 {
        let lhs = dot(&bs[k], &bs[k]);
        let rhs = Fr(3, 4).sub(mu[k][k - 1].mul(mu[k][k - 1])).mul(dot(&bs[k - 1], &bs[k - 1]));
        ob!(rhs.le(lhs), "lll::Lovasz-condition(alpha=3/4)");
    }
    // Hermite form with every combination of requested transforms: H does not depend on the flags, H = P A, P^-1 H = A
    use yui_matrix::dense::lll::lll_hnf;
    let (h, p2, q2) = lll_hnf(&a, [true, true]);
    let (p2, q2) = (p2.unwrap(), q2.unwrap());
    ob!(&p2 * &a == h && &q2 * &h == a && &p2 * &q2 == Mat::id(3), "lll_hnf::H==P.A,Pinv.H==A,P.Pinv==I");
    let (h1, p1, n1) = lll_hnf(&a, [true, false]);
    ob!(n1.is_none() && h1 == h && &p1.unwrap() * &a == h1, "lll_hnf[P-only]::H==P.A");
    let (h3, n3, q3) = lll_hnf(&a, [false, true]);
    ob!(n3.is_none() && h3 == h && &q3.unwrap() * &h3 == a, "lll_hnf[Pinv-only]::Pinv.H==A");
    // Smith form with only P and Q requested
    let sr = snf(&a, [true, false, true, false]);
    ob!(&(sr.p().unwrap() * &a) * sr.q().unwrap() == *sr.result(), "snf[P,Q-only]::D==P.A.Q");
    Ok(())
}
// C10, clause "reduced" on matrices with more than three rows (the plain LLL driver walks several earlier rows only from the fourth row on):
// 4 x 4 and 5 x 4 ... here 4 x 4 and 5 x 5 integer bases with small entries; exact rational Gram-Schmidt of the result.
fn gs_check(b: &Mat<i64>, n: usize) -> std::result::Result<(), &'static str> {
    let row = |i: usize| (0..n).map(|c| Fr(b[(i, c)] as i128, 1)).collect::<Vec<_>>();
    let dot = |x: &Vec<Fr>, y: &Vec<Fr>| (0..n).fold(Fr(0, 1), |acc, c| acc.add(x[c].mul(y[c])));
    let mut bs: Vec<Vec<Fr>> = vec![];
    let mut mu = vec![vec![Fr(0, 1); n]; n];
    for i in 0..n {
        let mut v = row(i);
        for j in 0..i {
            let nj = dot(&bs[j], &bs[j]);
            if nj.0 == 0 { return Err("lll::rows-independent"); }
            mu[i][j] = dot(&row(i), &bs[j]).div(nj);
            for c in 0..n { v[c] = v[c].sub(mu[i][j].mul(bs[j][c])); }
        }
        bs.push(v);
    }
    for i in 0..n { for j in 0..i { if !mu[i][j].abs().le(Fr(1, 2)) { return Err("lll::size-reduced(|mu_ij|<=1/2)"); } } }
    for k in 1..n {
        let lhs = dot(&bs[k], &bs[k]);
        let rhs = Fr(3, 4).sub(mu[k][k - 1].mul(mu[k][k - 1])).mul(dot(&bs[k - 1], &bs[k - 1]));
        if !rhs.le(lhs) { return Err("lll::Lovasz-condition(alpha=3/4)"); }
    }
    Ok(())
}
fn rank_full(a: &Mat<i64>, n: usize) -> bool {
    // fraction-free elimination on i128 copies
    let mut m: Vec<Vec<i128>> = (0..n).map(|i| (0..n).map(|j| a[(i, j)] as i128).collect()).collect();
    let mut prev: i128 = 1;
    for k in 0..n {
        let Some(pr) = (k..n).find(|&i| m[i][k] != 0) else { return false };
        m.swap(k, pr);
        for i in k + 1..n { for j in k + 1..n { m[i][j] = (m[i][j] * m[k][k] - m[i][k] * m[k][j]) / prev; } }
        prev = m[k][k];
    }
    true
}
pub fn lll_rows45(s: &mut Src) -> R {
    let n = s.small(4, 5) as usize;
    let mut e = vec![0i64; n * n];
    for k in 0..n * n { e[k] = s.small(-4, 4); }
    let a = Mat::from_data((n, n), e);
    pre!(rank_full(&a, n));
    reach!();
    let (b, p) = lll(&a, true);
    let p = p.unwrap();
    ob!(&p * &a == b, "lll::B==P.A");
    match gs_check(&b, n) { Ok(()) => {}, Err(name) => { ob!(false, name); } }
    Ok(())
}
// C13 (and the block-matrix axioms every unit over abstract matrices ASSUMES of SpMat): the sparse container's operations against a dense
// reference computed here from the entries: + - neg * transpose, submat / submat_rows / submat_cols, concat, stack, divide4 / combine_blocks,
// permute / permute_rows / permute_cols and the permutation matrices, id / zero / is_zero / is_id, col_vec, extend_cols.  Shapes up to 4 x 4,
// entries in -3..=3, explicit zeros included via from_entries.  Sampled, bounded.
pub fn spmat_ops_small(s: &mut Src) -> R {
    use yui_matrix::sparse::SpMat;
    use yui_matrix::MatTrait;
    use yui_matrix::sparse::pivot::perms_by_pivots;
    // (a zero dimension is allowed: the property names it)
    let (m, n, k) = (s.small(0, 4) as usize, s.small(0, 4) as usize, s.small(0, 4) as usize);
    let mut ea = vec![0i64; 16]; let mut eb = vec![0i64; 16]; let mut ec = vec![0i64; 16];
    for x in ea.iter_mut().chain(eb.iter_mut()).chain(ec.iter_mut()) { let v = s.small(-5, 5); *x = if v.abs() > 3 { 0 } else { v }; }
    let (r0, r1, c0, c1) = (s.small(0, 4) as usize, s.small(0, 4) as usize, s.small(0, 4) as usize, s.small(0, 4) as usize);
    let mut rl = [0usize; 4]; let mut cl = [0usize; 4];
    for i in 0..4 { rl[i] = s.small(0, 3) as usize; cl[i] = s.small(0, 3) as usize; }
    let (r1, c1) = (r1 % (m + 1), c1 % (n + 1));
    let (r0, c0) = (r0 % (r1 + 1), c0 % (c1 + 1));
    reach!();
    type D = Vec<Vec<i64>>;
    let dn = |r: usize, c: usize, e: &Vec<i64>| -> D { (0..r).map(|i| (0..c).map(|j| e[i * 4 + j]).collect()).collect() };
    let (da, db, dc) = (dn(m, n, &ea), dn(m, n, &eb), dn(n, k, &ec));
    // explicit zeros are stored when built from entries
    let mk = |d: &D, r: usize, c: usize| SpMat::from_entries((r, c), (0..r).flat_map(|i| (0..c).map(move |j| (i, j))).map(|(i, j)| (i, j, d[i][j])));
    let (a, b, c) = (mk(&da, m, n), SpMat::from_dense_data((m, n), db.iter().flatten().cloned().collect::<Vec<_>>()), mk(&dc, n, k));
    let same = |x: &SpMat<i64>, d: &D, r: usize, c: usize| -> bool { x.shape() == (r, c) && { let xd = x.clone().into_dense(); (0..r).all(|i| (0..c).all(|j| xd[(i, j)] == d[i][j])) } };
    ob!(same(&a, &da, m, n) && same(&b, &db, m, n), "SpMat::from_entries/from_dense_data/into_dense");
    // from_entries drops zero values; explicitly stored zeros come from arithmetic: (A + B) - B has the entries of A on the pattern of A and B
    let a = if s.bool() { &(&a + &b) - &b } else { a };
    ob!(same(&a, &da, m, n), "SpMat::(A+B)-B==A");
    let add: D = (0..m).map(|i| (0..n).map(|j| da[i][j] + db[i][j]).collect()).collect();
    let sub: D = (0..m).map(|i| (0..n).map(|j| da[i][j] - db[i][j]).collect()).collect();
    let neg: D = (0..m).map(|i| (0..n).map(|j| -da[i][j]).collect()).collect();
    let mul: D = (0..m).map(|i| (0..k).map(|j| (0..n).map(|l| da[i][l] * dc[l][j]).sum()).collect()).collect();
    let tr: D = (0..n).map(|j| (0..m).map(|i| da[i][j]).collect()).collect();
    ob!(same(&(&a + &b), &add, m, n), "SpMat::add");
    ob!(same(&(&a - &b), &sub, m, n), "SpMat::sub");
    ob!(same(&(-&a), &neg, m, n), "SpMat::neg");
    ob!(same(&(&a * &c), &mul, m, k), "SpMat::mul");
    ob!(same(&a.transpose(), &tr, n, m), "SpMat::transpose");
    let sm: D = (r0..r1).map(|i| (c0..c1).map(|j| da[i][j]).collect()).collect();
    ob!(same(&a.submat(r0..r1, c0..c1), &sm, r1 - r0, c1 - c0), "SpMat::submat");
    let sr: D = (r0..r1).map(|i| da[i].clone()).collect();
    ob!(same(&a.submat_rows(r0..r1), &sr, r1 - r0, n), "SpMat::submat_rows");
    let sc: D = (0..m).map(|i| (c0..c1).map(|j| da[i][j]).collect()).collect();
    ob!(same(&a.submat_cols(c0..c1), &sc, m, c1 - c0), "SpMat::submat_cols");
    let cc: D = (0..m).map(|i| da[i].iter().chain(db[i].iter()).cloned().collect()).collect();
    ob!(same(&a.concat(&b), &cc, m, 2 * n), "SpMat::concat");
    let st: D = da.iter().chain(db.iter()).cloned().collect();
    ob!(same(&a.stack(&b), &st, 2 * m, n), "SpMat::stack");
    let mut ext = a.clone(); ext.extend_cols(b.clone());
    ob!(same(&ext, &cc, m, 2 * n), "SpMat::extend_cols");
    let [q0, q1, q2, q3] = a.divide4((r0, c0));
    let blk = |i0: usize, i1: usize, j0: usize, j1: usize| -> D { (i0..i1).map(|i| (j0..j1).map(|j| da[i][j]).collect()).collect() };
    ob!(same(&q0, &blk(0, r0, 0, c0), r0, c0) && same(&q1, &blk(0, r0, c0, n), r0, n - c0) && same(&q2, &blk(r0, m, 0, c0), m - r0, c0) && same(&q3, &blk(r0, m, c0, n), m - r0, n - c0), "SpMat::divide4");
    ob!(same(&SpMat::combine_blocks([&q0, &q1, &q2, &q3]), &da, m, n), "SpMat::combine_blocks(divide4)==id");
    // permutations: the listed indices first (in order, repetitions dropped), the others after them in increasing order
    let listing = |cnt: usize, l: &[usize; 4]| -> Vec<usize> { let mut v: Vec<usize> = vec![]; for &x in l.iter() { if x < cnt && !v.contains(&x) { v.push(x); } } for x in 0..cnt { if !v.contains(&x) { v.push(x); } } v };
    let (lr, lc) = (listing(m, &rl), listing(n, &cl));
    let kk = lr.len().min(lc.len());
    // perms_by_pivots takes pairs: use the common prefix and let the tails fall in increasing order, recomputing the listings accordingly
    let pivs: Vec<(usize, usize)> = (0..kk).map(|t| (lr[t], lc[t])).collect();
    let relist = |cnt: usize, head: Vec<usize>| -> Vec<usize> { let mut v = head; for x in 0..cnt { if !v.contains(&x) { v.push(x); } } v };
    let (lr, lc) = (relist(m, pivs.iter().map(|p| p.0).collect()), relist(n, pivs.iter().map(|p| p.1).collect()));
    let (p, q) = perms_by_pivots(&a, &pivs);
    let pm: D = (0..m).map(|i| (0..n).map(|j| da[lr[i]][lc[j]]).collect()).collect();
    ob!(same(&a.permute(p.view(), q.view()), &pm, m, n), "SpMat::permute(p,q)[i][j]==A[listing_p[i]][listing_q[j]]");
    let pr: D = (0..m).map(|i| da[lr[i]].clone()).collect();
    ob!(same(&a.permute_rows(p.view()), &pr, m, n), "SpMat::permute_rows");
    let pc: D = (0..m).map(|i| (0..n).map(|j| da[i][lc[j]]).collect()).collect();
    ob!(same(&a.permute_cols(q.view()), &pc, m, n), "SpMat::permute_cols");
    ob!(same(&(&SpMat::<i64>::from_row_perm(p.view()) * &a), &pr, m, n), "SpMat::from_row_perm(p).A==A.permute_rows(p)");
    ob!(same(&(&a * &SpMat::<i64>::from_col_perm(q.view())), &pc, m, n), "SpMat::A.from_col_perm(q)==A.permute_cols(q)");
    let idn: D = (0..n).map(|i| (0..n).map(|j| if i == j { 1 } else { 0 }).collect()).collect();
    ob!(same(&SpMat::<i64>::id(n), &idn, n, n) && SpMat::<i64>::id(n).is_id(), "SpMat::id/is_id");
    let zz: D = vec![vec![0; n]; m];
    ob!(same(&SpMat::<i64>::zero((m, n)), &zz, m, n) && SpMat::<i64>::zero((m, n)).is_zero(), "SpMat::zero/is_zero");
    ob!(a.is_zero() == da.iter().all(|r| r.iter().all(|&x| x == 0)), "SpMat::is_zero(explicit-zeros)");
    ob!(a.is_id() == (m == n && (0..m).all(|i| (0..n).all(|j| da[i][j] == if i == j { 1 } else { 0 }))), "SpMat::is_id(explicit-zeros)");
    for j in 0..n { let v = a.col_vec(j).to_dense(); ob!((0..m).all(|i| v[i] == da[i][j]), "SpMat::col_vec"); }
    {
        use yui_matrix::sparse::triang::TriangularType;
        let up = m == n && (0..m).all(|i| (0..n).all(|j| i <= j || da[i][j] == 0));
        let lo = m == n && (0..m).all(|i| (0..n).all(|j| i >= j || da[i][j] == 0));
        ob!(a.is_triang(TriangularType::Upper) == up && a.is_triang(TriangularType::Lower) == lo, "SpMat::is_triang(explicit-zeros)");
        ob!(a.nnz() == a.iter().count() && a.iter_nz().count() == da.iter().flatten().filter(|&&x| x != 0).count(), "SpMat::nnz/iter_nz");
        let cols: Vec<_> = (0..n).map(|j| a.col_vec(j)).collect();
        ob!(same(&SpMat::from_col_vecs(m, cols), &da, m, n), "SpMat::from_col_vecs(col_vec)==id");
    }
    Ok(())
}
// C13: SpVec and the dense Mat against references computed here.  SpVec: From<Vec>, to_dense / into_vec, unit, zero, is_zero, + - neg,
// permute, subvec, stack, split, stack_vecs, from_sorted_entries, SpMat * SpVec.  Mat: from_data, zero, id, is_id, is_zero, diag, is_diag,
// submat(_rows/_cols), += -= neg *, into_sparse / into_dense round trip.  Dimensions up to 4, entries in -3..=3.  Sampled, bounded.
pub fn spvec_mat_ops_small(s: &mut Src) -> R {
    use yui_matrix::sparse::{SpMat, SpVec};
    use yui_matrix::MatTrait;
    use yui_matrix::sparse::pivot::perms_by_pivots;
    let (m, n) = (s.small(0, 4) as usize, s.small(0, 4) as usize);
    let mut ea = vec![0i64; 16]; let mut eb = vec![0i64; 16];
    for x in ea.iter_mut().chain(eb.iter_mut()) { let v = s.small(-5, 5); *x = if v.abs() > 3 { 0 } else { v }; }
    let mut ev = vec![0i64; 4]; let mut ew = vec![0i64; 4];
    for x in ev.iter_mut().chain(ew.iter_mut()) { let v = s.small(-5, 5); *x = if v.abs() > 3 { 0 } else { v }; }
    let (a0, a1, c0, c1, r0, r1) = (s.small(0, 4) as usize, s.small(0, 4) as usize, s.small(0, 4) as usize, s.small(0, 4) as usize, s.small(0, 4) as usize, s.small(0, 4) as usize);
    let mut pl = [0usize; 4]; for i in 0..4 { pl[i] = s.small(0, 3) as usize; }
    reach!();
    // ---- SpVec (dimension n)
    let dv: Vec<i64> = ev[..n].to_vec(); let dw: Vec<i64> = ew[..n].to_vec();
    let (v, w) = (SpVec::from(dv.clone()), SpVec::from(dw.clone()));
    ob!(v.dim() == n && v.to_dense() == dv && v.clone().into_vec() == dv, "SpVec::from/to_dense/into_vec/dim");
    // explicitly stored zeros: (v + w) - w
    let v = if s.bool() { &(&v + &w) - &w } else { v };
    ob!(v.to_dense() == dv, "SpVec::(v+w)-w==v");
    ob!(v.is_zero() == dv.iter().all(|&x| x == 0), "SpVec::is_zero");
    ob!(SpVec::<i64>::zero(n).to_dense() == vec![0; n] && SpVec::<i64>::zero(n).is_zero(), "SpVec::zero");
    if n > 0 { let u = a0 % n; let mut du = vec![0i64; n]; du[u] = 1; ob!(SpVec::<i64>::unit(n, u).to_dense() == du, "SpVec::unit"); }
    ob!((&v + &w).to_dense() == (0..n).map(|i| dv[i] + dw[i]).collect::<Vec<_>>(), "SpVec::add");
    ob!((&v - &w).to_dense() == (0..n).map(|i| dv[i] - dw[i]).collect::<Vec<_>>(), "SpVec::sub");
    ob!((-&v).to_dense() == dv.iter().map(|x| -x).collect::<Vec<_>>(), "SpVec::neg");
    let (s1, s0) = { let e = a1 % (n + 1); (e, a0 % (e + 1)) };
    ob!(v.subvec(s0..s1).to_dense() == dv[s0..s1].to_vec() && v.subvec(s0..s1).dim() == s1 - s0, "SpVec::subvec");
    ob!(v.stack(&w).to_dense() == dv.iter().chain(dw.iter()).cloned().collect::<Vec<_>>(), "SpVec::stack");
    let (v1, v2) = v.split(s1);
    ob!(v1.to_dense() == dv[..s1].to_vec() && v2.to_dense() == dv[s1..].to_vec(), "SpVec::split");
    ob!(SpVec::stack_vecs(vec![v.clone(), w.clone(), v.clone()]).to_dense() == dv.iter().chain(dw.iter()).chain(dv.iter()).cloned().collect::<Vec<_>>(), "SpVec::stack_vecs");
    ob!(SpVec::from_sorted_entries(n, dv.iter().cloned().enumerate().filter(|(_, x)| *x != 0)).to_dense() == dv, "SpVec::from_sorted_entries");
    // permutation of dimension n through perms_by_pivots on an n x n matrix (rows and columns listed alike)
    let mut lst: Vec<usize> = vec![]; for &x in pl.iter() { if x < n && !lst.contains(&x) { lst.push(x); } } for x in 0..n { if !lst.contains(&x) { lst.push(x); } }
    let sq = SpMat::<i64>::zero((n, n));
    let (p, _) = perms_by_pivots(&sq, &lst.iter().map(|&i| (i, i)).collect::<Vec<_>>());
    ob!(v.permute(p.view()).to_dense() == (0..n).map(|i| dv[lst[i]]).collect::<Vec<_>>(), "SpVec::permute(p)[i]==v[listing_p[i]]");
    // SpMat (m x n) * SpVec (n)
    let da: Vec<Vec<i64>> = (0..m).map(|i| (0..n).map(|j| ea[i * 4 + j]).collect()).collect();
    let db: Vec<Vec<i64>> = (0..m).map(|i| (0..n).map(|j| eb[i * 4 + j]).collect()).collect();
    let sa = SpMat::from_dense_data((m, n), da.iter().flatten().cloned().collect::<Vec<_>>());
    ob!((&sa * &v).to_dense() == (0..m).map(|i| (0..n).map(|j| da[i][j] * dv[j]).sum()).collect::<Vec<i64>>(), "SpMat*SpVec");
    ob!(v.clone().into_mat().into_dense() == Mat::from_data((n, 1), dv.clone()), "SpVec::into_mat");
    // ---- dense Mat
    let (a, b) = (Mat::from_data((m, n), da.iter().flatten().cloned().collect::<Vec<_>>()), Mat::from_data((m, n), db.iter().flatten().cloned().collect::<Vec<_>>()));
    let same = |x: &Mat<i64>, d: &Vec<Vec<i64>>, r: usize, c: usize| x.shape() == (r, c) && (0..r).all(|i| (0..c).all(|j| x[(i, j)] == d[i][j]));
    ob!(same(&a, &da, m, n), "Mat::from_data(row-major)");
    ob!(a.is_zero() == da.iter().flatten().all(|&x| x == 0) && Mat::<i64>::zero((m, n)).is_zero(), "Mat::zero/is_zero");
    ob!(a.is_id() == (m == n && (0..m).all(|i| (0..n).all(|j| da[i][j] == if i == j { 1 } else { 0 }))) && Mat::<i64>::id(n).is_id(), "Mat::id/is_id");
    ob!(a.is_diag() == (0..m).all(|i| (0..n).all(|j| i == j || da[i][j] == 0)), "Mat::is_diag");
    let dg = Mat::diag((m, n), dv.iter().take(m.min(n)).cloned());
    ob!((0..m).all(|i| (0..n).all(|j| dg[(i, j)] == if i == j { dv[i] } else { 0 })), "Mat::diag");
    let (rr1, cc1) = (r1 % (m + 1), c1 % (n + 1)); let (rr0, cc0) = (r0 % (rr1 + 1), c0 % (cc1 + 1));
    let sub: Vec<Vec<i64>> = (rr0..rr1).map(|i| (cc0..cc1).map(|j| da[i][j]).collect()).collect();
    ob!(same(&a.submat(rr0..rr1, cc0..cc1), &sub, rr1 - rr0, cc1 - cc0), "Mat::submat");
    ob!(same(&a.submat_rows(rr0..rr1), &(rr0..rr1).map(|i| da[i].clone()).collect(), rr1 - rr0, n), "Mat::submat_rows");
    ob!(same(&a.submat_cols(cc0..cc1), &(0..m).map(|i| da[i][cc0..cc1].to_vec()).collect(), m, cc1 - cc0), "Mat::submat_cols");
    let mut t = a.clone(); t += &b; ob!(same(&t, &(0..m).map(|i| (0..n).map(|j| da[i][j] + db[i][j]).collect()).collect(), m, n), "Mat::add_assign");
    let mut t = a.clone(); t -= &b; ob!(same(&t, &(0..m).map(|i| (0..n).map(|j| da[i][j] - db[i][j]).collect()).collect(), m, n), "Mat::sub_assign");
    ob!(same(&(-&a), &(0..m).map(|i| (0..n).map(|j| -da[i][j]).collect()).collect(), m, n), "Mat::neg");
    let bt = Mat::from_data((n, m), (0..n).flat_map(|j| (0..m).map(move |i| (j, i))).map(|(j, i)| db[i][j]).collect::<Vec<_>>());
    ob!(same(&(&a * &bt), &(0..m).map(|i| (0..m).map(|k| (0..n).map(|j| da[i][j] * db[k][j]).sum()).collect()).collect(), m, m), "Mat::mul");
    ob!(a.clone().into_sparse().into_dense() == a, "Mat::into_sparse.into_dense==id");
    Ok(())
}
// C09 / C10: the ASSUMED contracts of the dense matrix container's elementary operations, tested against the real `Mat`:
// each operation equals left / right multiplication by the elementary matrix the overlays (units snf_prims, lll_prims) name.
pub fn snf_mat_ops(s: &mut Src) -> R {
    const N: usize = 3;
    let mut e = [0i64; N * N];
    for k in 0..N * N { e[k] = s.small(-4, 4); }
    let (i, j) = (s.small(0, 2) as usize, s.small(0, 2) as usize);
    let (a, b, c, d, r) = (s.small(-3, 3), s.small(-3, 3), s.small(-3, 3), s.small(-3, 3), s.small(-3, 3));
    reach!();
    let m = Mat::from_data((N, N), e);
    let el = |f: &dyn Fn(usize, usize) -> i64| Mat::from_data((N, N), (0..N * N).map(|p| f(p / N, p % N)).collect::<Vec<_>>());
    let id = |x: usize, y: usize| if x == y { 1 } else { 0 };
    let e_swap = el(&|x, y| { let x2 = if x == i { j } else if x == j { i } else { x }; id(x2, y) });
    let e_scale = el(&|x, y| if x == y { if x == i { r } else { 1 } } else { 0 });
    let mut t = m.clone(); t.swap_rows(i, j); ob!(t == &e_swap * &m, "Mat::swap_rows==E_swap.M");
    let mut t = m.clone(); t.swap_cols(i, j); ob!(t == &m * &e_swap, "Mat::swap_cols==M.E_swap");
    let mut t = m.clone(); t.mul_row(i, &r); ob!(t == &e_scale * &m, "Mat::mul_row==E_scale.M");
    let mut t = m.clone(); t.mul_col(i, &r); ob!(t == &m * &e_scale, "Mat::mul_col==M.E_scale");
    if i != j {
        // row_j += r row_i  =  (I + r e_{j,i}) M ;  col_j += r col_i  =  M (I + r e_{i,j})
        let sh_l = el(&|x, y| id(x, y) + if x == j && y == i { r } else { 0 });
        let sh_r = el(&|x, y| id(x, y) + if x == i && y == j { r } else { 0 });
        let mut t = m.clone(); t.add_row_to(i, j, &r); ob!(t == &sh_l * &m, "Mat::add_row_to==E_shear(j,i,r).M");
        let mut t = m.clone(); t.add_col_to(i, j, &r); ob!(t == &m * &sh_r, "Mat::add_col_to==M.E_shear(i,j,r)");
        // [a b; c d] embedded at (i, j) from the left; from the right the overlay names e_emb(a, c, b, d): columns i, j become a col_i + b col_j, c col_i + d col_j
        let emb = |p: i64, q: i64, u: i64, v: i64| el(&|x, y| if x == i && y == i { p } else if x == i && y == j { q } else if x == j && y == i { u } else if x == j && y == j { v } else { id(x, y) });
        let mut t = m.clone(); t.left_elementary([&a, &b, &c, &d], i, j); ob!(t == &emb(a, b, c, d) * &m, "Mat::left_elementary==E_emb(a,b,c,d).M");
        let mut t = m.clone(); t.right_elementary([&a, &b, &c, &d], i, j); ob!(t == &m * &emb(a, c, b, d), "Mat::right_elementary==M.E_emb(a,c,b,d)");
    }
    Ok(())
}
crate::harness_table!(SNF: snf_small [unwind 4], snf_gauss_small [unwind 4], trans_small [unwind 4], lll_small [unwind 4], snf_mat_ops [unwind 4], lll_rows45 [unwind 4], spmat_ops_small [unwind 4], spvec_mat_ops_small [unwind 4], snf_shapes [unwind 4], hnf_shapes [unwind 4], snf_poly_ff5 [unwind 4], lll_shapes [unwind 4], hnf_gauss_shapes [unwind 4], snf_quad_shapes [unwind 4]);
