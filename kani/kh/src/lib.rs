// Kani harness crate for yui / yui-link.  All harness text lives in /verif/harness and is
// shared with /verif/native (replay).
#[path = "../../../harness/mod.rs"]
pub mod harness;
pub use harness::*;
