// C09 (Smith normal form) — witness search / replay on the real crate: 3x3 integer matrices with small
// entries; D = P A Q, P P^-1 = I, Q Q^-1 = I, D diagonal with non-zero entries first, normalised and
// each dividing the next.  (nalgebra is outside Kani's reach: native replay only.)
use super::src::*;
use crate::{ob, pre, reach};
use yui_matrix::dense::{snf::snf, Mat};
pub fn snf_small(s: &mut Src) -> R {
    let mut e = [0i64; 9];
    for k in 0..9 { e[k] = s.small(-6, 6); }
    reach!();
    let a = Mat::from_data((3, 3), e);
    let r = snf(&a, [true; 4]);
    let d = r.result().clone();
    let (p, pinv, q, qinv) = (r.p().unwrap(), r.pinv().unwrap(), r.q().unwrap(), r.qinv().unwrap());
    ob!(&(p * &a) * q == d, "snf::D==P.A.Q");
    ob!(p * pinv == Mat::id(3) && q * qinv == Mat::id(3), "snf::P.Pinv==I-and-Q.Qinv==I");
    ob!(d.is_diag(), "snf::D-is-diagonal");
    let v = [d[(0, 0)], d[(1, 1)], d[(2, 2)]];
    ob!(v.iter().all(|x| *x >= 0), "snf::diagonal-normalised");
    ob!(!(v[0] == 0 && v[1] != 0) && !(v[1] == 0 && v[2] != 0), "snf::non-zero-entries-first");
    ob!((v[1] == 0 || v[1] % v[0] == 0) && (v[2] == 0 || v[2] % v[1] == 0), "snf::each-entry-divides-the-next");
    Ok(())
}

/// the same over Z[i] (units other than +-1 exercise the inverse bookkeeping): 2x2, small entries
pub fn snf_gauss_small(s: &mut Src) -> R {
    use yui::GaussInt;
    type G = GaussInt<i64>;
    let mut e = vec![];
    for _ in 0..4 { e.push(G::new(s.small(-4, 4), s.small(-4, 4))); }
    reach!();
    let a = Mat::from_data((2, 2), e);
    let r = snf(&a, [true; 4]);
    let d = r.result().clone();
    let (p, pinv, q, qinv) = (r.p().unwrap(), r.pinv().unwrap(), r.q().unwrap(), r.qinv().unwrap());
    ob!(&(p * &a) * q == d, "snf<Z[i]>::D==P.A.Q");
    ob!(p * pinv == Mat::id(2) && pinv * p == Mat::id(2), "snf<Z[i]>::P.Pinv==I");
    ob!(q * qinv == Mat::id(2) && qinv * q == Mat::id(2), "snf<Z[i]>::Q.Qinv==I");
    ob!(d.is_diag(), "snf<Z[i]>::D-is-diagonal");
    use yui::Ring;
    ob!(d[(0, 0)].normalized() == d[(0, 0)] && d[(1, 1)].normalized() == d[(1, 1)], "snf<Z[i]>::diagonal-normalised");
    Ok(())
}

// C13 / C07 (composed coordinate transforms) — witness search / replay on the real crate: two steps
// (f0, b0), (f1, b1) of 2x2 integer matrices: F = f1 f0, B = b0 b1, forward / backward apply them,
// reduce() and merge() keep them.
pub fn trans_small(s: &mut Src) -> R {
    use yui_matrix::sparse::{SpMat, SpVec, Trans};
    let mut m = vec![];
    for _ in 0..4 { let mut e = vec![]; for _ in 0..4 { e.push(s.small(-3, 3)); } m.push(SpMat::from_dense_data((2, 2), e)); }
    let v = SpVec::from(vec![s.small(-3, 3), s.small(-3, 3)]);
    reach!();
    let (f0, b0, f1, b1) = (m[0].clone(), m[1].clone(), m[2].clone(), m[3].clone());
    let mut t = Trans::new(f0.clone(), b0.clone());
    t.append(f1.clone(), b1.clone());
    let (ff, bb) = (&f1 * &f0, &b0 * &b1);
    ob!(t.forward_mat() == ff, "Trans::forward_mat==f1.f0");
    ob!(t.backward_mat() == bb, "Trans::backward_mat==b0.b1");
    ob!(t.forward(&v) == &ff * &v, "Trans::forward(v)==F.v");
    ob!(t.backward(&v) == &bb * &v, "Trans::backward(v)==B.v");
    let mut r = t.clone(); r.reduce();
    ob!(r.forward_mat() == ff && r.backward_mat() == bb && r.forward(&v) == &ff * &v, "Trans::reduce-keeps-the-maps");
    let mut u = Trans::new(f0.clone(), b0.clone()); u.merge(Trans::new(f1.clone(), b1.clone()));
    ob!(u.forward_mat() == ff && u.backward_mat() == bb, "Trans::merge-composes");
    ob!(Trans::<i64>::id(2).is_id() && Trans::<i64>::id(2).forward(&v) == v && r.src_dim() == 2 && !t.is_id(), "Trans::id");
    // sub(indices): F' = E F, B' = B E^T with E the selection matrix of the index list (any order, repeats allowed),
    // the same before and after the transform is collapsed
    let idx: Vec<usize> = (0..s.small(0, 3) as usize).map(|_| 0usize).collect::<Vec<_>>();
    let idx: Vec<usize> = idx.iter().map(|_| s.small(0, 1) as usize).collect();
    let e = SpMat::from_entries((idx.len(), 2), idx.iter().enumerate().map(|(i, &j)| (i, j, 1i64)));
    let et = SpMat::from_entries((2, idx.len()), idx.iter().enumerate().map(|(i, &j)| (j, i, 1i64)));
    let (want_f, want_b) = ((&e * &ff).into_dense(), (&bb * &et).into_dense());
    let ts = t.sub(&idx);
    ob!(ts.forward_mat().into_dense() == want_f && ts.backward_mat().into_dense() == want_b, "Trans::sub==selection.F/B.selection^T");
    let rs = r.sub(&idx);
    ob!(rs.forward_mat().into_dense() == want_f && rs.backward_mat().into_dense() == want_b, "Trans::sub-after-reduce==selection.F/B.selection^T");
    Ok(())
}

// C10 (LLL) — witness search / replay on the real crate: 3x3 integer matrices of full rank, small
// entries.  B = P A with det P = +-1, B size-reduced (|mu_ij| <= 1/2) and Lovasz-reduced for alpha = 3/4,
// checked with exact rational Gram-Schmidt in i128.
use yui_matrix::dense::lll::lll;
#[derive(Clone, Copy, Debug)]
struct Fr(i128, i128);
fn g(a: i128, b: i128) -> i128 { let (mut a, mut b) = (a.abs(), b.abs()); while b != 0 { let t = a % b; a = b; b = t; } a }
impl Fr {
    fn new(n: i128, d: i128) -> Fr { let s = if d < 0 { -1 } else { 1 }; let k = g(n, d).max(1); Fr(s * n / k, s * d / k) }
    fn add(self, o: Fr) -> Fr { Fr::new(self.0 * o.1 + o.0 * self.1, self.1 * o.1) }
    fn sub(self, o: Fr) -> Fr { Fr::new(self.0 * o.1 - o.0 * self.1, self.1 * o.1) }
    fn mul(self, o: Fr) -> Fr { Fr::new(self.0 * o.0, self.1 * o.1) }
    fn div(self, o: Fr) -> Fr { Fr::new(self.0 * o.1, self.1 * o.0) }
    fn le(self, o: Fr) -> bool { self.0 * o.1 <= o.0 * self.1 }
    fn abs(self) -> Fr { Fr(self.0.abs(), self.1) }
}
fn det3(m: &Mat<i64>) -> i128 {
    let e = |i: usize, j: usize| m[(i, j)] as i128;
    e(0,0) * (e(1,1) * e(2,2) - e(1,2) * e(2,1)) - e(0,1) * (e(1,0) * e(2,2) - e(1,2) * e(2,0)) + e(0,2) * (e(1,0) * e(2,1) - e(1,1) * e(2,0))
}
pub fn lll_small(s: &mut Src) -> R {
    let mut e = [0i64; 9];
    for k in 0..9 { e[k] = s.small(-5, 5); }
    let a = Mat::from_data((3, 3), e);
    pre!(det3(&a) != 0);
    reach!();
    let (b, p) = lll(&a, true);
    let p = p.unwrap();
    ob!(&p * &a == b, "lll::B==P.A");
    ob!(det3(&p).abs() == 1, "lll::P-unimodular");
    // exact Gram-Schmidt of the rows of B
    let row = |i: usize| [Fr(b[(i, 0)] as i128, 1), Fr(b[(i, 1)] as i128, 1), Fr(b[(i, 2)] as i128, 1)];
    let dot = |x: &[Fr; 3], y: &[Fr; 3]| x[0].mul(y[0]).add(x[1].mul(y[1])).add(x[2].mul(y[2]));
    let mut bs: Vec<[Fr; 3]> = vec![];
    let mut mu = [[Fr(0, 1); 3]; 3];
    for i in 0..3 {
        let mut v = row(i);
        for j in 0..i {
            mu[i][j] = dot(&row(i), &bs[j]).div(dot(&bs[j], &bs[j]));
            for c in 0..3 { v[c] = v[c].sub(mu[i][j].mul(bs[j][c])); }
        }
        bs.push(v);
    }
    for i in 0..3 { for j in 0..i { ob!(mu[i][j].abs().le(Fr(1, 2)), "lll::size-reduced(|mu_ij|<=1/2)"); } }
    for k in 1..3 {
        let lhs = dot(&bs[k], &bs[k]);
        let rhs = Fr(3, 4).sub(mu[k][k - 1].mul(mu[k][k - 1])).mul(dot(&bs[k - 1], &bs[k - 1]));
        ob!(rhs.le(lhs), "lll::Lovasz-condition(alpha=3/4)");
    }
    // Hermite form with every combination of requested transforms: H does not depend on the flags, H = P A, P^-1 H = A
    use yui_matrix::dense::lll::lll_hnf;
    let (h, p2, q2) = lll_hnf(&a, [true, true]);
    let (p2, q2) = (p2.unwrap(), q2.unwrap());
    ob!(&p2 * &a == h && &q2 * &h == a && &p2 * &q2 == Mat::id(3), "lll_hnf::H==P.A,Pinv.H==A,P.Pinv==I");
    let (h1, p1, n1) = lll_hnf(&a, [true, false]);
    ob!(n1.is_none() && h1 == h && &p1.unwrap() * &a == h1, "lll_hnf[P-only]::H==P.A");
    let (h3, n3, q3) = lll_hnf(&a, [false, true]);
    ob!(n3.is_none() && h3 == h && &q3.unwrap() * &h3 == a, "lll_hnf[Pinv-only]::Pinv.H==A");
    // Smith form with only P and Q requested
    let sr = snf(&a, [true, false, true, false]);
    ob!(&(sr.p().unwrap() * &a) * sr.q().unwrap() == *sr.result(), "snf[P,Q-only]::D==P.A.Q");
    Ok(())
}
// C10, clause "reduced" on matrices with more than three rows (the plain LLL driver walks several earlier rows only from the fourth row on):
// 4 x 4 and 5 x 4 ... here 4 x 4 and 5 x 5 integer bases with small entries; exact rational Gram-Schmidt of the result.
fn gs_check(b: &Mat<i64>, n: usize) -> std::result::Result<(), &'static str> {
    let row = |i: usize| (0..n).map(|c| Fr(b[(i, c)] as i128, 1)).collect::<Vec<_>>();
    let dot = |x: &Vec<Fr>, y: &Vec<Fr>| (0..n).fold(Fr(0, 1), |acc, c| acc.add(x[c].mul(y[c])));
    let mut bs: Vec<Vec<Fr>> = vec![];
    let mut mu = vec![vec![Fr(0, 1); n]; n];
    for i in 0..n {
        let mut v = row(i);
        for j in 0..i {
            let nj = dot(&bs[j], &bs[j]);
            if nj.0 == 0 { return Err("lll::rows-independent"); }
            mu[i][j] = dot(&row(i), &bs[j]).div(nj);
            for c in 0..n { v[c] = v[c].sub(mu[i][j].mul(bs[j][c])); }
        }
        bs.push(v);
    }
    for i in 0..n { for j in 0..i { if !mu[i][j].abs().le(Fr(1, 2)) { return Err("lll::size-reduced(|mu_ij|<=1/2)"); } } }
    for k in 1..n {
        let lhs = dot(&bs[k], &bs[k]);
        let rhs = Fr(3, 4).sub(mu[k][k - 1].mul(mu[k][k - 1])).mul(dot(&bs[k - 1], &bs[k - 1]));
        if !rhs.le(lhs) { return Err("lll::Lovasz-condition(alpha=3/4)"); }
    }
    Ok(())
}
fn rank_full(a: &Mat<i64>, n: usize) -> bool {
    // fraction-free elimination on i128 copies
    let mut m: Vec<Vec<i128>> = (0..n).map(|i| (0..n).map(|j| a[(i, j)] as i128).collect()).collect();
    let mut prev: i128 = 1;
    for k in 0..n {
        let Some(pr) = (k..n).find(|&i| m[i][k] != 0) else { return false };
        m.swap(k, pr);
        for i in k + 1..n { for j in k + 1..n { m[i][j] = (m[i][j] * m[k][k] - m[i][k] * m[k][j]) / prev; } }
        prev = m[k][k];
    }
    true
}
pub fn lll_rows45(s: &mut Src) -> R {
    let n = s.small(4, 5) as usize;
    let mut e = vec![0i64; n * n];
    for k in 0..n * n { e[k] = s.small(-4, 4); }
    let a = Mat::from_data((n, n), e);
    pre!(rank_full(&a, n));
    reach!();
    let (b, p) = lll(&a, true);
    let p = p.unwrap();
    ob!(&p * &a == b, "lll::B==P.A");
    match gs_check(&b, n) { Ok(()) => {}, Err(name) => { ob!(false, name); } }
    Ok(())
}
// C09 / C10: the ASSUMED contracts of the dense matrix container's elementary operations, tested against the real `Mat`:
// each operation equals left / right multiplication by the elementary matrix the overlays (units snf_prims, lll_prims) name.
pub fn snf_mat_ops(s: &mut Src) -> R {
    const N: usize = 3;
    let mut e = [0i64; N * N];
    for k in 0..N * N { e[k] = s.small(-4, 4); }
    let (i, j) = (s.small(0, 2) as usize, s.small(0, 2) as usize);
    let (a, b, c, d, r) = (s.small(-3, 3), s.small(-3, 3), s.small(-3, 3), s.small(-3, 3), s.small(-3, 3));
    reach!();
    let m = Mat::from_data((N, N), e);
    let el = |f: &dyn Fn(usize, usize) -> i64| Mat::from_data((N, N), (0..N * N).map(|p| f(p / N, p % N)).collect::<Vec<_>>());
    let id = |x: usize, y: usize| if x == y { 1 } else { 0 };
    let e_swap = el(&|x, y| { let x2 = if x == i { j } else if x == j { i } else { x }; id(x2, y) });
    let e_scale = el(&|x, y| if x == y { if x == i { r } else { 1 } } else { 0 });
    let mut t = m.clone(); t.swap_rows(i, j); ob!(t == &e_swap * &m, "Mat::swap_rows==E_swap.M");
    let mut t = m.clone(); t.swap_cols(i, j); ob!(t == &m * &e_swap, "Mat::swap_cols==M.E_swap");
    let mut t = m.clone(); t.mul_row(i, &r); ob!(t == &e_scale * &m, "Mat::mul_row==E_scale.M");
    let mut t = m.clone(); t.mul_col(i, &r); ob!(t == &m * &e_scale, "Mat::mul_col==M.E_scale");
    if i != j {
        // row_j += r row_i  =  (I + r e_{j,i}) M ;  col_j += r col_i  =  M (I + r e_{i,j})
        let sh_l = el(&|x, y| id(x, y) + if x == j && y == i { r } else { 0 });
        let sh_r = el(&|x, y| id(x, y) + if x == i && y == j { r } else { 0 });
        let mut t = m.clone(); t.add_row_to(i, j, &r); ob!(t == &sh_l * &m, "Mat::add_row_to==E_shear(j,i,r).M");
        let mut t = m.clone(); t.add_col_to(i, j, &r); ob!(t == &m * &sh_r, "Mat::add_col_to==M.E_shear(i,j,r)");
        // [a b; c d] embedded at (i, j) from the left; from the right the overlay names e_emb(a, c, b, d): columns i, j become a col_i + b col_j, c col_i + d col_j
        let emb = |p: i64, q: i64, u: i64, v: i64| el(&|x, y| if x == i && y == i { p } else if x == i && y == j { q } else if x == j && y == i { u } else if x == j && y == j { v } else { id(x, y) });
        let mut t = m.clone(); t.left_elementary([&a, &b, &c, &d], i, j); ob!(t == &emb(a, b, c, d) * &m, "Mat::left_elementary==E_emb(a,b,c,d).M");
        let mut t = m.clone(); t.right_elementary([&a, &b, &c, &d], i, j); ob!(t == &m * &emb(a, c, b, d), "Mat::right_elementary==M.E_emb(a,c,b,d)");
    }
    Ok(())
}
crate::harness_table!(SNF: snf_small [unwind 4], snf_gauss_small [unwind 4], trans_small [unwind 4], lll_small [unwind 4], snf_mat_ops [unwind 4], lll_rows45 [unwind 4]);
