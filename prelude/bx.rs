// ---- prelude/bx.rs : abstract block-matrix algebra with dimensions (TRUSTED axioms; DESIGN.md 8.11, 8.12) ----
pub uninterp spec fn nr(a: int) -> int;
pub uninterp spec fn nc(a: int) -> int;
pub uninterp spec fn mmul(a: int, b: int) -> int;
pub uninterp spec fn mid(n: int) -> int;
pub uninterp spec fn mzero(r: int, c: int) -> int;
pub uninterp spec fn mrows(a: int, lo: int, hi: int) -> int;
pub uninterp spec fn mcols(a: int, lo: int, hi: int) -> int;
pub uninterp spec fn mstack(a: int, b: int) -> int;
pub uninterp spec fn mconcat(a: int, b: int) -> int;
#[verifier::external_body] pub proof fn bx_dims(a: int, b: int, lo: int, hi: int, n: int, r: int, c: int)
    ensures nr(mmul(a, b)) == nr(a), nc(mmul(a, b)) == nc(b), nr(mid(n)) == n, nc(mid(n)) == n, nr(mzero(r, c)) == r, nc(mzero(r, c)) == c,
        nr(mrows(a, lo, hi)) == hi - lo, nc(mrows(a, lo, hi)) == nc(a), nr(mcols(a, lo, hi)) == nr(a), nc(mcols(a, lo, hi)) == hi - lo,
        nr(mstack(a, b)) == nr(a) + nr(b), nc(mstack(a, b)) == nc(a), nr(mconcat(a, b)) == nr(a), nc(mconcat(a, b)) == nc(a) + nc(b) {}
#[verifier::external_body] pub proof fn bx_assoc(a: int, b: int, c: int) ensures mmul(mmul(a, b), c) == mmul(a, mmul(b, c)) {}
#[verifier::external_body] pub proof fn bx_id(a: int) ensures mmul(mid(nr(a)), a) == a, mmul(a, mid(nc(a))) == a {}
/// rows of a product / columns of a product
#[verifier::external_body] pub proof fn bx_rows_mul(a: int, b: int, lo: int, hi: int) ensures mrows(mmul(a, b), lo, hi) == mmul(mrows(a, lo, hi), b) {}
#[verifier::external_body] pub proof fn bx_cols_mul(a: int, b: int, lo: int, hi: int) ensures mcols(mmul(a, b), lo, hi) == mmul(a, mcols(b, lo, hi)) {}
/// a block of the identity: the identity on the diagonal, zero off it
#[verifier::external_body] pub proof fn bx_id_block(n: int, a: int, b: int, c: int, d: int)
    requires 0 <= a <= b <= n, 0 <= c <= d <= n
    ensures (a == c && b == d) ==> mrows(mcols(mid(n), c, d), a, b) == mid(b - a),
        (b <= c || d <= a) ==> mrows(mcols(mid(n), c, d), a, b) == mzero(b - a, d - c) {}
#[verifier::external_body] pub proof fn bx_full(a: int) ensures mrows(a, 0, nr(a)) == a, mcols(a, 0, nc(a)) == a {}
#[verifier::external_body] pub proof fn bx_stack_mul(a: int, b: int, c: int) ensures mmul(mstack(a, b), c) == mstack(mmul(a, c), mmul(b, c)) {}
#[verifier::external_body] pub proof fn bx_mul_concat(a: int, c: int, d: int) ensures mmul(a, mconcat(c, d)) == mconcat(mmul(a, c), mmul(a, d)) {}
#[verifier::external_body] pub proof fn bx_block_id(r: int, t: int) requires 0 <= r, 0 <= t
    ensures mstack(mconcat(mid(r), mzero(r, t)), mconcat(mzero(t, r), mid(t))) == mid(r + t) {}
#[verifier::external_body] pub proof fn bx_zero_mul(a: int, r: int, c: int)
    ensures nc(a) == r ==> mmul(a, mzero(r, c)) == mzero(nr(a), c), nr(a) == c ==> mmul(mzero(r, c), a) == mzero(r, nc(a)) {}
#[verifier::external_body] pub proof fn bx_parts(a: int, b: int) ensures mrows(mstack(a, b), 0, nr(a)) == a, mcols(mconcat(a, b), 0, nc(a)) == a {}
#[verifier::external_body] pub proof fn bx_parts2(a: int, b: int) ensures mrows(mstack(a, b), nr(a), nr(a) + nr(b)) == b, mcols(mconcat(a, b), nc(a), nc(a) + nc(b)) == b {}

/// sums and negatives
pub uninterp spec fn madd(a: int, b: int) -> int;
pub uninterp spec fn mneg(a: int) -> int;
pub open spec fn msub(a: int, b: int) -> int { madd(a, mneg(b)) }
#[verifier::external_body] pub proof fn bx_add_dims(a: int, b: int) ensures nr(madd(a, b)) == nr(a), nc(madd(a, b)) == nc(a), nr(mneg(a)) == nr(a), nc(mneg(a)) == nc(a) {}
#[verifier::external_body] pub proof fn bx_add_zero(a: int) ensures madd(mzero(nr(a), nc(a)), a) == a, madd(a, mzero(nr(a), nc(a))) == a, madd(mneg(a), a) == mzero(nr(a), nc(a)), madd(a, mneg(a)) == mzero(nr(a), nc(a)) {}
#[verifier::external_body] pub proof fn bx_neg_mul(a: int, b: int) ensures mmul(mneg(a), b) == mneg(mmul(a, b)), mmul(a, mneg(b)) == mneg(mmul(a, b)) {}
#[verifier::external_body] pub proof fn bx_neg_zero(r: int, c: int) ensures mneg(mzero(r, c)) == mzero(r, c) {}
/// [a | b] [c ; d] = a c + b d
#[verifier::external_body] pub proof fn bx_concat_stack(a: int, b: int, c: int, d: int)
    requires nc(a) == nr(c), nc(b) == nr(d), nr(a) == nr(b), nc(c) == nc(d)
    ensures mmul(mconcat(a, b), mstack(c, d)) == madd(mmul(a, c), mmul(b, d)) {}
#[verifier::external_body] pub proof fn bx_add_comm(a: int, b: int) requires nr(a) == nr(b), nc(a) == nc(b) ensures madd(a, b) == madd(b, a) {}
/// [p | q] [[a, b], [c, d]] = [p a + q c | p b + q d]
#[verifier::external_body] pub proof fn bx_mul_concat_rows(p: int, q: int, a: int, b: int, c: int, d: int)
    requires nc(p) == nr(a), nr(a) == nr(b), nc(q) == nr(c), nr(c) == nr(d), nc(a) == nc(c), nc(b) == nc(d), nr(p) == nr(q)
    ensures mmul(mconcat(p, q), mstack(mconcat(a, b), mconcat(c, d))) == mconcat(madd(mmul(p, a), mmul(q, c)), madd(mmul(p, b), mmul(q, d))) {}
/// a matrix is its top rows stacked on its bottom rows / its left columns next to its right columns
#[verifier::external_body] pub proof fn bx_split(a: int, r: int) requires 0 <= r
    ensures r <= nr(a) ==> a == mstack(mrows(a, 0, r), mrows(a, r, nr(a))), r <= nc(a) ==> a == mconcat(mcols(a, 0, r), mcols(a, r, nc(a))) {}
#[verifier::external_body] pub proof fn bx_sub_zero(r: int, c: int, lo: int, hi: int) ensures mrows(mzero(r, c), lo, hi) == mzero(hi - lo, c), mcols(mzero(r, c), lo, hi) == mzero(r, hi - lo) {}
/// [0 | I_k] w = the last k rows of w;   z [0 ; I_k] = the last k columns of z
#[verifier::external_body] pub proof fn bx_proj(w: int, k: int) requires 0 <= k
    ensures k <= nr(w) ==> mmul(mconcat(mzero(k, nr(w) - k), mid(k)), w) == mrows(w, nr(w) - k, nr(w)),
        k <= nc(w) ==> mmul(w, mstack(mzero(nc(w) - k, k), mid(k))) == mcols(w, nc(w) - k, nc(w)) {}
/// permutation matrices: pm(p) and its inverse (= transpose) pmi(p), for a permutation of n points
pub uninterp spec fn pm(p: int) -> int;
pub uninterp spec fn pmi(p: int) -> int;
pub uninterp spec fn pdim(p: int) -> int;
#[verifier::external_body] pub proof fn bx_perm(p: int)
    ensures nr(pm(p)) == pdim(p), nc(pm(p)) == pdim(p), nr(pmi(p)) == pdim(p), nc(pmi(p)) == pdim(p), mmul(pm(p), pmi(p)) == mid(pdim(p)), mmul(pmi(p), pm(p)) == mid(pdim(p)) {}
#[verifier::external_body] pub proof fn bx_add_inv(x: int, y: int) requires nr(x) == nr(y), nc(x) == nc(y), madd(x, y) == mzero(nr(x), nc(x)) ensures x == mneg(y) {}
#[verifier::external_body] pub proof fn bx_neg_neg(x: int) ensures mneg(mneg(x)) == x {}
/// the shape facts of bx_dims / bx_add_dims for all terms at once
#[verifier::external_body] pub proof fn bx_dims_all()
    ensures forall|a: int, b: int| nr(#[trigger] mmul(a, b)) == nr(a) && nc(mmul(a, b)) == nc(b),
        forall|n: int| nr(#[trigger] mid(n)) == n && nc(mid(n)) == n,
        forall|r: int, c: int| nr(#[trigger] mzero(r, c)) == r && nc(mzero(r, c)) == c,
        forall|a: int, lo: int, hi: int| nr(#[trigger] mrows(a, lo, hi)) == hi - lo && nc(mrows(a, lo, hi)) == nc(a),
        forall|a: int, lo: int, hi: int| nr(#[trigger] mcols(a, lo, hi)) == nr(a) && nc(mcols(a, lo, hi)) == hi - lo,
        forall|a: int, b: int| nr(#[trigger] mstack(a, b)) == nr(a) + nr(b) && nc(mstack(a, b)) == nc(a),
        forall|a: int, b: int| nr(#[trigger] mconcat(a, b)) == nr(a) && nc(mconcat(a, b)) == nc(a) + nc(b),
        forall|a: int, b: int| nr(#[trigger] madd(a, b)) == nr(a) && nc(madd(a, b)) == nc(a),
        forall|a: int| nr(#[trigger] mneg(a)) == nr(a) && nc(mneg(a)) == nc(a),
{}
