// Contract overlay for ComputeHomology::compute_homology_at (yui-homology/src/abst/homology.rs): the homology of a chain complex at
// degree i is computed from the differential INTO degree i (d_{i - deg}) and the one OUT of it (d_i), in that order.  Property C07;
// HomologyCalc::calculate enters by the contract proved in unit hcalc (//@contract-of).
use vstd::prelude::*;
verus! {
//@include prelude/rt.rs
//@include prelude/er.rs
//@include prelude/bx.rs
//@source yui-homology/src/abst/homology.rs
//@include units/hcalc/model.inc

impl HomologyCalc {
//@contract-of units/hcalc/contract.rs calculate variant=B
}

/// a grading (I: GridDeg) and a chain complex seen through d_deg() and d_matrix(i) (ChainComplexTrait; ASSUMED accessors)
#[derive(Clone, Copy)]
pub struct Deg { pub g: Ghost<int> }
pub fn dsub_(a: Deg, b: Deg) -> (r: Deg) ensures r.g@ == a.g@ - b.g@ { Deg { g: Ghost(a.g@ - b.g@) } }
pub fn dadd_(a: Deg, b: Deg) -> (r: Deg) ensures r.g@ == a.g@ + b.g@ { Deg { g: Ghost(a.g@ + b.g@) } }
pub struct Cx { pub deg: Ghost<int>, pub d: Ghost<Map<int, int>> }
impl Cx {
    #[verifier::external_body] pub fn d_deg(&self) -> (r: Deg) ensures r.g@ == self.deg@ { unimplemented!() }
    #[verifier::external_body] pub fn d_matrix(&self, i: Deg) -> (r: SpMat) ensures r.m@ == self.d@[i.g@] { unimplemented!() }
}
/// GenericSummand::generate (ASSUMED: stores what it is given)
pub struct GenericSummand { pub i: Ghost<int>, pub rank: usize, pub tors: Vec<ER>, pub trans: Option<Trans> }
impl GenericSummand {
    #[verifier::external_body] pub fn generate(i: Deg, rank: usize, tors: Vec<ER>, trans: Option<Trans>) -> (r: GenericSummand)
        ensures r.i@ == i.g@, r.rank == rank, r.tors@ == tors@, r.trans == trans { unimplemented!() }
}

impl Cx {
    pub fn compute_homology_at(&self, i: Deg, with_trans: bool) -> (h: GenericSummand)
        requires nr(self.d@[i.g@ - self.deg@]) == nc(self.d@[i.g@]),      // consecutive differentials compose
        ensures ({
            let (d_in, d_out) = (self.d@[i.g@ - self.deg@], self.d@[i.g@]);
            &&& h.i@ == i.g@ && h.trans.is_some() == with_trans
            &&& with_trans ==> trans_ok(h.trans.unwrap().f@, h.trans.unwrap().b@, d_in, d_out, h.rank as int, h.tors@.len() as int)
            &&& (d_in == mzero(nr(d_in), nc(d_in)) && d_out == mzero(nr(d_out), nc(d_out))) ==> (h.rank == nr(d_in) && h.tors@.len() == 0)
            &&& !(d_in == mzero(nr(d_in), nc(d_in)) && d_out == mzero(nr(d_out), nc(d_out))) ==> exists|s1: SnfResult, s2: SnfResult|
                    #![trigger linked(s1, s2, d_out)]
                    linked(s1, s2, d_out) && s1.a@ == d_in && h.rank == nr(d_in) - s1.r@ - s2.r@ && h.tors@.len() == nonunits(s1.diag@, s1.r@).len()
                    && forall|k: int| 0 <= k < h.tors@.len() ==> (#[trigger] h.tors@[k]).v() == nonunits(s1.diag@, s1.r@)[k]
        }),
    //@body impl/ComputeHomology@C/compute_homology_at ring=1 q=i,d_deg qname=d
    //@+ sig
    //@| fn compute_homology_at(&self, i: I, with_trans: bool) -> GenericSummand<I, R>
    //@+ pre-raw
    //@| let ghost (d_in, d_out) = (self.d@[i.g@ - self.deg@], self.d@[i.g@]);
    //@+ after-let-raw rank
    //@| let ghost (grank, gtors) = (rank, tors@);
    //@+ after-let h
    //@| if !(d_in == mzero(nr(d_in), nc(d_in)) && d_out == mzero(nr(d_out), nc(d_out))) {
    //@|     let (s1, s2) = choose|s1: SnfResult, s2: SnfResult| #![trigger linked(s1, s2, d_out)]
    //@|         linked(s1, s2, d_out) && s1.a@ == d_in && grank == nr(d_in) - s1.r@ - s2.r@ && gtors.len() == nonunits(s1.diag@, s1.r@).len()
    //@|         && forall|k: int| 0 <= k < gtors.len() ==> (#[trigger] gtors[k]).v() == nonunits(s1.diag@, s1.r@)[k];
    //@|     assert(linked(s1, s2, d_out) && h.rank == nr(d_in) - s1.r@ - s2.r@ && h.tors@.len() == nonunits(s1.diag@, s1.r@).len());
    //@|     assert forall|k: int| 0 <= k < h.tors@.len() implies (#[trigger] h.tors@[k]).v() == nonunits(s1.diag@, s1.r@)[k] by { assert(h.tors@[k] == gtors[k]); }
    //@| }
}

} // verus!
fn main() {}
