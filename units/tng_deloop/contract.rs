// Contract overlay for delooping in the tangle complex (yui-khovanov/src/kh/internal/v2/tng_complex.rs: TngComplex::{modify_edge,
// deloop_with, deloop}), properties C05 / C01, mechanism "delooping with dotted cup/cap".
// The complex is a graph: vertices (keys) and edges carrying morphisms.  Proved on the repository's bodies, for graphs of any size:
//   modify_edge(k, l, map):  the edge k -> l becomes map(edge), or disappears if that is zero; nothing else changes;
//   deloop_with(k, r, birth, death):  every edge INTO k is capped off at its target with the `death` dot and part-evaluated, every edge OUT
//                                     of k is capped off at its source with the `birth` dot and part-evaluated; nothing else changes;
//   deloop(k, r):  the vertex k is replaced by k+X (and, unless the circle carries the base point, by a copy k+1); edges into k+X get a plain
//                  cap, edges into k+1 a Y-dotted cap; edges out of k+X an X-dotted cup, edges out of k+1 a plain cup  -- the delooping
//                  isomorphism of the (h,t)-deformed theory; its inverse pair is the one BuildElem::deloop (unit build_elem) applies to elements.
// Morphisms are abstract; rename_vertex_key / duplicate_vertex / add_edge / remove_edge are ASSUMED graph operations (closures capturing
// `&mut self`, hash maps).
use vstd::prelude::*;
verus! {
//@include prelude/rt.rs
//@source yui-khovanov/src/kh/internal/v2/tng_complex.rs

pub type Edge = usize;

// ---------------------------------------------------------------- morphisms, abstract (as in unit build_elem)
pub uninterp spec fn czero() -> int;
pub uninterp spec fn pe(a: int) -> int;
/// cap_off(bottom, c, dot): bottom 0 = Src (a cup glued below), 1 = Tgt (a cap glued on top)
pub uninterp spec fn capf(a: int, bottom: int, comp: int, dot: int) -> int;
pub uninterp spec fn csub(a: int, b: int) -> int;
pub uninterp spec fn cneg(a: int) -> int;
pub uninterp spec fn cmul(a: int, b: int) -> int;
pub uninterp spec fn cinv(a: int) -> Option<int>;
/// additive group: 0 - x = -x  (TRUSTED algebra fact)
#[verifier::external_body] pub proof fn ax_sub_zero_left(x: int) ensures csub(czero(), x) == cneg(x) {}
pub struct LC { pub g: Ghost<int> }
pub trait LCL { spec fn lv(&self) -> int; }
impl LCL for LC { open spec fn lv(&self) -> int { self.g@ } }
impl<'a> LCL for &'a LC { open spec fn lv(&self) -> int { (**self).g@ } }
#[verifier::external_body] pub fn mul_<A: LCL, B: LCL>(a: A, b: B) -> (r: LC) ensures r.g@ == cmul(a.lv(), b.lv()) { unimplemented!() }
#[verifier::external_body] pub fn sub_<A: LCL, B: LCL>(a: A, b: B) -> (r: LC) ensures r.g@ == csub(a.lv(), b.lv()) { unimplemented!() }
#[verifier::external_body] pub fn neg_<A: LCL>(a: A) -> (r: LC) ensures r.g@ == cneg(a.lv()) { unimplemented!() }
#[derive(Clone, Copy)]
pub struct HT { pub g: Ghost<int> }
pub struct TngComp { pub id: Ghost<int>, pub marked_by: Ghost<Set<Edge>>, pub circle: Ghost<bool> }
impl TngComp {
    #[verifier::external_body] pub fn contains(&self, e: Edge) -> (r: bool) ensures r == self.marked_by@.contains(e) { unimplemented!() }
    #[verifier::external_body] pub fn is_circle(&self) -> (r: bool) ensures r == self.circle@ { unimplemented!() }
}
#[derive(PartialEq, Eq, Structural, Clone, Copy)]
//@item enum/Bottom source=yui-khovanov/src/kh/internal/v2/cob.rs
#[derive(PartialEq, Eq, Structural, Clone, Copy)]
//@item enum/Dot source=yui-khovanov/src/kh/internal/v2/cob.rs
pub open spec fn dotn(d: Dot) -> int { match d { Dot::None => 0, Dot::X => 1, Dot::Y => 2 } }
pub open spec fn botn(b: Bottom) -> int { match b { Bottom::Src => 0, Bottom::Tgt => 1 } }
impl LC {
    pub open spec fn v(&self) -> int { self.g@ }
    #[verifier::external_body] pub fn clone(&self) -> (r: LC) ensures r.v() == self.v() { unimplemented!() }
    #[verifier::external_body] pub fn is_zero(&self) -> (r: bool) ensures r == (self.v() == czero()) { unimplemented!() }
    #[verifier::external_body] pub fn inv(&self) -> (r: Option<LC>) ensures r.is_some() == cinv(self.v()).is_some(), r.is_some() ==> r.unwrap().v() == cinv(self.v()).unwrap() { unimplemented!() }
    #[verifier::external_body] pub fn part_eval(self, h: &HT, t: &HT) -> (r: LC) ensures r.v() == pe(self.v()) { unimplemented!() }
    #[verifier::external_body] pub fn cap_off(self, b: Bottom, c: &TngComp, d: Dot) -> (r: LC) ensures r.v() == capf(self.v(), botn(b), c.id@, dotn(d)) { unimplemented!() }
}

// ---------------------------------------------------------------- keys
#[derive(PartialEq, Eq, Structural, Clone, Copy)]
//@item enum/KhAlgGen source=yui-khovanov/src/kh/alg.rs
#[derive(Clone, Copy)]
pub struct TngKey { pub id: Ghost<int> }
pub uninterp spec fn key_add(k: int, g: KhAlgGen) -> int;
/// homological degree of a key (the weight of its state; labels do not count) -- UNINTERPRETED
pub uninterp spec fn kdeg(k: int) -> int;
/// appending a label gives a new key, and different labels give different keys (the label sequence is part of the key) -- TRUSTED
#[verifier::external_body] pub proof fn ax_key_add(k: int) ensures key_add(k, KhAlgGen::X) != k, key_add(k, KhAlgGen::I) != k, key_add(k, KhAlgGen::X) != key_add(k, KhAlgGen::I),
    kdeg(key_add(k, KhAlgGen::X)) == kdeg(k), kdeg(key_add(k, KhAlgGen::I)) == kdeg(k) {}
#[verifier::external_body] pub fn kadd_(a: &TngKey, g: KhAlgGen) -> (r: TngKey) ensures r.id@ == key_add(a.id@, g) { unimplemented!() }

// ---------------------------------------------------------------- the graph
pub type EMap = Map<(int, int), int>;
/// the morphism on the edge a -> b (absent = 0; stored edges are non-zero: add_edge asserts it)
pub open spec fn ev(e: EMap, a: int, b: int) -> int { if e.dom().contains((a, b)) { e[(a, b)] } else { czero() } }
pub open spec fn nz(e: EMap) -> bool { forall|a: int, b: int| e.dom().contains((a, b)) ==> #[trigger] e[(a, b)] != czero() }

pub struct Tng { pub comps: Ghost<Seq<TngComp>> }
impl Tng {
    #[verifier::external_body] pub fn comp(&self, i: usize) -> (r: &TngComp) ensures i < self.comps@.len(), *r == self.comps@[i as int] { unimplemented!() }
    #[verifier::external_body] pub fn remove_at(&mut self, i: usize) -> (r: TngComp) ensures i < old(self).comps@.len(), r == old(self).comps@[i as int], final(self).comps@ == old(self).comps@.remove(i as int) { unimplemented!() }
}
pub struct TngVertex { pub key: TngKey, pub tng: Tng }
/// AHashMap<TngKey, TngVertex>: only the tangles are visible here; the edge data of the vertices is the ghost graph `eg` of the complex
pub struct VMap { pub tngs: Ghost<Map<int, Seq<TngComp>>> }
impl VMap {
    #[verifier::external_body] pub fn get_mut(&mut self, k: &TngKey) -> (r: Option<&mut TngVertex>)
        ensures r.is_some() == old(self).tngs@.dom().contains(k.id@),
            r.is_some() ==> (*r.unwrap()).tng.comps@ == old(self).tngs@[k.id@] && final(self).tngs@ == old(self).tngs@.insert(k.id@, (*final(r.unwrap())).tng.comps@),
    { unimplemented!() }
}
pub struct KeyIter { pub es: Ghost<Seq<int>> }
pub struct KeyIterOwned { pub es: Ghost<Seq<int>> }
impl KeyIter { #[verifier::external_body] pub fn cloned(self) -> (r: KeyIterOwned) ensures r.es@ == self.es@ { unimplemented!() } }
impl KeyIterOwned { #[verifier::external_body] pub fn collect_vec(self) -> (r: Vec<TngKey>) ensures kids(r@) == self.es@ { unimplemented!() } }
/// `E.filter(|&a| a != b)` on a key iterator (R37)
#[verifier::external_body] pub fn filter_ne_(it: KeyIter, b: &TngKey) -> (r: KeyIter)
    ensures nodup(it.es@) ==> nodup(r.es@), forall|x: int| inlist(r.es@, x) <==> (inlist(it.es@, x) && x != b.id@) { unimplemented!() }
/// `cartesian!(A, B)` (R36): all pairs, A-major
pub struct PairIter { pub es: Ghost<Seq<(int, int)>> }
pub open spec fn inpairs(es: Seq<(int, int)>, a: int, b: int) -> bool { exists|i: int| 0 <= i < es.len() && #[trigger] es[i] == (a, b) }
pub open spec fn nodup2(es: Seq<(int, int)>) -> bool { forall|i: int, j: int| 0 <= i < j < es.len() ==> es[i] != es[j] }
#[verifier::external_body] pub fn cartesian_(a: KeyIter, b: KeyIter) -> (r: PairIter)
    ensures (nodup(a.es@) && nodup(b.es@)) ==> nodup2(r.es@), forall|x: int, y: int| inpairs(r.es@, x, y) <==> (inlist(a.es@, x) && inlist(b.es@, y)) { unimplemented!() }
pub open spec fn kpairs(v: Seq<(&TngKey, &TngKey)>) -> Seq<(int, int)> { v.map(|i: int, x: (&TngKey, &TngKey)| (x.0.id@, x.1.id@)) }
impl PairIter { #[verifier::external_body] pub fn collect_vec<'a>(self) -> (r: Vec<(&'a TngKey, &'a TngKey)>) ensures kpairs(r@) == self.es@ { unimplemented!() } }
/// front removal of a Vec (what `into_iter()` / rayon's indexed iterator yields next) -- ASSUMED std contract
#[verifier::external_body] pub fn vec_take_first_<T>(v: &mut Vec<T>) -> (r: Option<T>)
    ensures old(v)@.len() == 0 ==> r.is_none() && final(v)@ == old(v)@,
        old(v)@.len() > 0 ==> r == Some(old(v)@[0]) && final(v)@ == old(v)@.subrange(1, old(v)@.len() as int),
{ unimplemented!() }
/// by-value iteration of a Vec (ASSUMED std contract)
pub struct VOwnIter<T> { pub es: Ghost<Seq<T>>, pub pos: Ghost<int>, pub w: Option<T> }
#[verifier::external_body] pub fn viter_own_<T>(v: Vec<T>) -> (r: VOwnIter<T>) ensures r.es@ == v@, r.pos@ == 0 { unimplemented!() }
impl<T> VOwnIter<T> {
    pub fn into_iter(self) -> (r: Self) ensures r == self { self }
    #[verifier::external_body] pub fn next(&mut self) -> (r: Option<T>)
        requires 0 <= old(self).pos@ <= old(self).es@.len()
        ensures final(self).es@ == old(self).es@,
            old(self).pos@ < old(self).es@.len() ==> (final(self).pos@ == old(self).pos@ + 1 && r == Some(old(self).es@[old(self).pos@])),
            old(self).pos@ >= old(self).es@.len() ==> (final(self).pos@ == old(self).pos@ && r.is_none()),
    { unimplemented!() }
}
pub struct VIter<'a, T> { pub es: Ghost<Seq<T>>, pub pos: Ghost<int>, pub w: Option<&'a T> }
#[verifier::external_body] pub fn viter_<'a, T>(c: &'a Vec<T>) -> (r: VIter<'a, T>) ensures r.es@ == c@, r.pos@ == 0 { unimplemented!() }
impl<'a, T> VIter<'a, T> {
    pub fn into_iter(self) -> (r: Self) ensures r == self { self }
    #[verifier::external_body] pub fn next(&mut self) -> (r: Option<&'a T>)
        requires 0 <= old(self).pos@ <= old(self).es@.len()
        ensures final(self).es@ == old(self).es@,
            old(self).pos@ < old(self).es@.len() ==> (final(self).pos@ == old(self).pos@ + 1 && r.is_some() && *r.unwrap() == old(self).es@[old(self).pos@]),
            old(self).pos@ >= old(self).es@.len() ==> (final(self).pos@ == old(self).pos@ && r.is_none()),
    { unimplemented!() }
}

/// the pair (h, t) (a tuple in the repository; only its `clone()` is used here)
pub struct HTPair { pub g: Ghost<int> }
impl HTPair { #[verifier::external_body] pub fn clone(&self) -> (r: (HT, HT)) { unimplemented!() } }
pub struct TngComplex { pub ht: HTPair, pub base_pt: Option<Edge>, pub vertices: VMap, pub eg: Ghost<EMap> }
pub open spec fn gwf(e: EMap, tngs: Map<int, Seq<TngComp>>) -> bool { nz(e) && forall|a: int, b: int| #[trigger] e.dom().contains((a, b)) ==> tngs.dom().contains(a) && tngs.dom().contains(b) && kdeg(b) == kdeg(a) + 1 }
pub open spec fn nodup(es: Seq<int>) -> bool { forall|a: int, b: int| 0 <= a < b < es.len() ==> es[a] != es[b] }
pub open spec fn inlist(es: Seq<int>, k: int) -> bool { exists|a: int| 0 <= a < es.len() && #[trigger] es[a] == k }
/// es lists the sources of the edges into k (the targets of the edges out of k), each once
pub open spec fn lists_in(es: Seq<int>, e: EMap, k: int) -> bool { nodup(es) && forall|j: int| #[trigger] e.dom().contains((j, k)) <==> inlist(es, j) }
pub open spec fn lists_out(es: Seq<int>, e: EMap, k: int) -> bool { nodup(es) && forall|l: int| #[trigger] e.dom().contains((k, l)) <==> inlist(es, l) }
impl TngComplex {
    pub open spec fn e(&self) -> EMap { self.eg@ }
    /// stored edges are non-zero, join vertices of the complex and raise the homological degree by one
    pub open spec fn wf(&self) -> bool { gwf(self.e(), self.vertices.tngs@) }
    // ASSUMED accessors / graph operations (hash maps; rename / duplicate use closures that capture `&mut self`)
    #[verifier::external_body] pub fn vertex(&self, k: &TngKey) -> (r: &TngVertex) ensures self.vertices.tngs@.dom().contains(k.id@), r.tng.comps@ == self.vertices.tngs@[k.id@] { unimplemented!() }
    #[verifier::external_body] pub fn contains_base_pt(&self, c: &TngComp) -> (r: bool) ensures r == (self.base_pt.is_some() && c.marked_by@.contains(self.base_pt.unwrap())) { unimplemented!() }
    #[verifier::external_body] pub fn has_edge(&self, k: &TngKey, l: &TngKey) -> (r: bool) ensures r == self.e().dom().contains((k.id@, l.id@)) { unimplemented!() }
    #[verifier::external_body] pub fn keys_into(&self, k: &TngKey) -> (r: KeyIter) ensures lists_in(r.es@, self.e(), k.id@) { unimplemented!() }
    #[verifier::external_body] pub fn keys_out_from(&self, k: &TngKey) -> (r: KeyIter) ensures lists_out(r.es@, self.e(), k.id@) { unimplemented!() }
    /// indexes two hash maps: does not return for a missing edge
    #[verifier::external_body] pub fn edge(&self, k: &TngKey, l: &TngKey) -> (r: &LC)
//@if B
        requires self.e().dom().contains((k.id@, l.id@)),
//@endif
        ensures self.e().dom().contains((k.id@, l.id@)), r.v() == self.e()[(k.id@, l.id@)] { unimplemented!() }
    #[verifier::external_body] pub fn ht(&self) -> (r: &(HT, HT)) { unimplemented!() }
    /// removes the vertex and every edge at it
    #[verifier::external_body] pub fn remove_vertex(&mut self, k: &TngKey) -> (v: TngVertex)
        requires old(self).wf(), old(self).vertices.tngs@.dom().contains(k.id@),
        ensures final(self).wf(), final(self).base_pt == old(self).base_pt, final(self).vertices.tngs@ == old(self).vertices.tngs@.remove(k.id@),
            forall|a: int, b: int| #[trigger] ev(final(self).e(), a, b) == (if a == k.id@ || b == k.id@ { czero() } else { ev(old(self).e(), a, b) }),
    { unimplemented!() }
    #[verifier::external_body] fn add_edge(&mut self, k: &TngKey, l: &TngKey, f: LC)
        requires !old(self).e().dom().contains((k.id@, l.id@)), f.v() != czero(),
        ensures final(self).e() == old(self).e().insert((k.id@, l.id@), f.v()), final(self).vertices == old(self).vertices, final(self).base_pt == old(self).base_pt, final(self).ht == old(self).ht { unimplemented!() }
    #[verifier::external_body] fn remove_edge(&mut self, k: &TngKey, l: &TngKey) -> (f: LC)
        requires old(self).e().dom().contains((k.id@, l.id@)),
        ensures final(self).e() == old(self).e().remove((k.id@, l.id@)), f.v() == old(self).e()[(k.id@, l.id@)], final(self).vertices == old(self).vertices, final(self).base_pt == old(self).base_pt, final(self).ht == old(self).ht { unimplemented!() }
    /// the vertex k_old is re-keyed k_new: its tangle and all its edges move with it
    #[verifier::external_body] fn rename_vertex_key(&mut self, k_old: &TngKey, k_new: TngKey)
        requires old(self).wf(), old(self).vertices.tngs@.dom().contains(k_old.id@), !old(self).vertices.tngs@.dom().contains(k_new.id@), k_old.id@ != k_new.id@,
        ensures final(self).wf(), final(self).base_pt == old(self).base_pt, final(self).ht == old(self).ht,
            final(self).vertices.tngs@ == old(self).vertices.tngs@.remove(k_old.id@).insert(k_new.id@, old(self).vertices.tngs@[k_old.id@]),
            forall|a: int, b: int| #[trigger] ev(final(self).e(), a, b) == (
                if a == k_old.id@ || b == k_old.id@ { czero() }
                else if a == k_new.id@ { ev(old(self).e(), k_old.id@, b) }
                else if b == k_new.id@ { ev(old(self).e(), a, k_old.id@) }
                else { ev(old(self).e(), a, b) }),
    { unimplemented!() }
    /// a second copy k_new of the vertex k with the same tangle and copies of all its edges
    #[verifier::external_body] fn duplicate_vertex(&mut self, k: &TngKey, k_new: TngKey)
        requires old(self).wf(), old(self).vertices.tngs@.dom().contains(k.id@), !old(self).vertices.tngs@.dom().contains(k_new.id@), k.id@ != k_new.id@,
        ensures final(self).wf(), final(self).base_pt == old(self).base_pt, final(self).ht == old(self).ht,
            final(self).vertices.tngs@ == old(self).vertices.tngs@.insert(k_new.id@, old(self).vertices.tngs@[k.id@]),
            forall|a: int, b: int| #[trigger] ev(final(self).e(), a, b) == (
                if a == k_new.id@ { ev(old(self).e(), k.id@, b) }
                else if b == k_new.id@ { ev(old(self).e(), a, k.id@) }
                else { ev(old(self).e(), a, b) }),
    { unimplemented!() }

    /// the edge k -> l is replaced by its image under `map` (dropped if that is zero)
    fn modify_edge<F: Fn(LC) -> LC>(&mut self, k: &TngKey, l: &TngKey, map: F)
        requires old(self).wf(), forall|f: LC| #[trigger] map.requires((f,)),
//@if B
            old(self).e().dom().contains((k.id@, l.id@)),
//@endif
        ensures old(self).e().dom().contains((k.id@, l.id@)), final(self).wf(), final(self).vertices == old(self).vertices, final(self).base_pt == old(self).base_pt, final(self).ht == old(self).ht,
            exists|f: LC, r: LC| f.v() == old(self).e()[(k.id@, l.id@)] && #[trigger] map.ensures((f,), r) && edge_set(old(self).e(), final(self).e(), k.id@, l.id@, r.v()),
    //@body impl/TngComplex/modify_edge
    //@+ sig
    //@| fn modify_edge<F>(&mut self, k: &TngKey, l: &TngKey, map: F) where F: Fn(LcCob<R>) -> LcCob<R>
    //@+ after-let map_f
    //@| assert(map.ensures((f,), map_f));
    //@+ post
    //@| assert(edge_set(old(self).e(), self.e(), k.id@, l.id@, map_f.v()));

    /// remove the circle r of vertex k: edges into k are capped (death dot), edges out of k are cupped (birth dot), both part-evaluated
    fn deloop_with(&mut self, k: &TngKey, r: usize, birth_dot: Dot, death_dot: Dot)
        requires old(self).wf(), old(self).vertices.tngs@.dom().contains(k.id@),
//@if B
            r < old(self).vertices.tngs@[k.id@].len(),
//@endif
        ensures r < old(self).vertices.tngs@[k.id@].len(), final(self).wf(), final(self).base_pt == old(self).base_pt,
            final(self).vertices.tngs@ == old(self).vertices.tngs@.insert(k.id@, old(self).vertices.tngs@[k.id@].remove(r as int)),
            forall|a: int, b: int| #[trigger] ev(final(self).e(), a, b) == deloop_ev(old(self).e(), k.id@, old(self).vertices.tngs@[k.id@][r as int].id@, dotn(birth_dot), dotn(death_dot), a, b),
    //@body impl/TngComplex/deloop_with for_iter=1 loops=2 iter_model=v_in,v_out
    //@+ loop 0 header
    //@| for j in v_in.iter()
    //@+ loop 1 header
    //@| for l in v_out.iter()
    //@+ pre-raw
    //@| let ghost e0 = self.e(); let ghost t0 = self.vertices.tngs@;
    //@+ after-let circ
    //@| assert(self.vertices.tngs@ == t0.insert(k.id@, t0[k.id@].remove(r as int)));
    //@| assert(self.e() == e0);
    //@| assert(self.wf());
    //@+ closure 0 typed
    //@| f: LC
    //@+ closure 0
    //@| -> (o: LC) ensures o.v() == pe(capf(f.v(), 1, circ.id@, dotn(death_dot)))
    //@+ closure 1 typed
    //@| f: LC
    //@+ closure 1
    //@| -> (o: LC) ensures o.v() == pe(capf(f.v(), 0, circ.id@, dotn(birth_dot)))
    //@+ loop 0
    //@| invariant self.wf(), nz(e0), v_in@.len() == __it0.es@.len(), __it0.es@ == v_in@, 0 <= __it0.pos@ <= __it0.es@.len(), self.base_pt == old(self).base_pt,
    //@|     self.vertices.tngs@ == t0.insert(k.id@, t0[k.id@].remove(r as int)), t0.dom().contains(k.id@), r < t0[k.id@].len(), circ == t0[k.id@][r as int],
    //@|     nodup(kids(v_in@)), forall|j2: int| #[trigger] e0.dom().contains((j2, k.id@)) <==> inlist(kids(v_in@), j2),
    //@|     !e0.dom().contains((k.id@, k.id@)),
    //@|     forall|a: int, b: int| #[trigger] ev(self.e(), a, b) == (if b == k.id@ && inlist(kids(v_in@).subrange(0, __it0.pos@), a) { pe(capf(ev(e0, a, b), 1, circ.id@, dotn(death_dot))) } else { ev(e0, a, b) }),
    //@| ensures __it0.pos@ == __it0.es@.len(),
    //@| decreases __it0.es@.len() - __it0.pos@,
    //@+ loop 0 begin-raw
    //@| let ghost e1 = self.e(); let ghost p1 = __it0.pos@ - 1;
    //@+ loop 0 begin
    //@| assert(j.id@ == kids(v_in@)[p1]);
    //@| assert(inlist(kids(v_in@), j.id@));
    //@| assert(e0.dom().contains((j.id@, k.id@)));
    //@| assert(!inlist(kids(v_in@).subrange(0, p1), j.id@)) by { if inlist(kids(v_in@).subrange(0, p1), j.id@) { let a = choose|a: int| 0 <= a < p1 && #[trigger] kids(v_in@).subrange(0, p1)[a] == j.id@; assert(kids(v_in@)[a] != kids(v_in@)[p1]); } }
    //@| assert(ev(e1, j.id@, k.id@) == ev(e0, j.id@, k.id@));
    //@| assert(e1.dom().contains((j.id@, k.id@))) by { assert(e0[(j.id@, k.id@)] != czero()); }
    //@+ loop 0 end
    //@| lemma_sub_step(kids(v_in@), p1);
    //@| assert forall|a: int, b: int| #[trigger] ev(self.e(), a, b) == (if b == k.id@ && inlist(kids(v_in@).subrange(0, p1 + 1), a) { pe(capf(ev(e0, a, b), 1, circ.id@, dotn(death_dot))) } else { ev(e0, a, b) }) by {
    //@|     assert(ev(e1, a, b) == (if b == k.id@ && inlist(kids(v_in@).subrange(0, p1), a) { pe(capf(ev(e0, a, b), 1, circ.id@, dotn(death_dot))) } else { ev(e0, a, b) }));
    //@|     if !(a == j.id@ && b == k.id@) { assert(ev(self.e(), a, b) == ev(e1, a, b)); }
    //@| }
    //@+ loop 1 before
    //@| assert(kids(v_in@).subrange(0, v_in@.len() as int) =~= kids(v_in@));
    //@+ loop 1
    //@| invariant self.wf(), nz(e0), __it1.es@ == v_out@, 0 <= __it1.pos@ <= __it1.es@.len(), self.base_pt == old(self).base_pt,
    //@|     self.vertices.tngs@ == t0.insert(k.id@, t0[k.id@].remove(r as int)), t0.dom().contains(k.id@), r < t0[k.id@].len(), circ == t0[k.id@][r as int],
    //@|     nodup(kids(v_out@)), forall|l2: int| #[trigger] e0.dom().contains((k.id@, l2)) <==> inlist(kids(v_out@), l2),
    //@|     !e0.dom().contains((k.id@, k.id@)),
    //@|     forall|a: int, b: int| #[trigger] ev(self.e(), a, b) == (
    //@|         if b == k.id@ && e0.dom().contains((a, b)) { pe(capf(ev(e0, a, b), 1, circ.id@, dotn(death_dot))) }
    //@|         else if a == k.id@ && inlist(kids(v_out@).subrange(0, __it1.pos@), b) { pe(capf(ev(e0, a, b), 0, circ.id@, dotn(birth_dot))) }
    //@|         else { ev(e0, a, b) }),
    //@| ensures __it1.pos@ == __it1.es@.len(),
    //@| decreases __it1.es@.len() - __it1.pos@,
    //@+ loop 1 begin-raw
    //@| let ghost e2 = self.e(); let ghost p2 = __it1.pos@ - 1;
    //@+ loop 1 begin
    //@| assert(l.id@ == kids(v_out@)[p2]);
    //@| assert(inlist(kids(v_out@), l.id@));
    //@| assert(e0.dom().contains((k.id@, l.id@)));
    //@| assert(l.id@ != k.id@);
    //@| assert(!inlist(kids(v_out@).subrange(0, p2), l.id@)) by { if inlist(kids(v_out@).subrange(0, p2), l.id@) { let a = choose|a: int| 0 <= a < p2 && #[trigger] kids(v_out@).subrange(0, p2)[a] == l.id@; assert(kids(v_out@)[a] != kids(v_out@)[p2]); } }
    //@| assert(ev(e2, k.id@, l.id@) == ev(e0, k.id@, l.id@));
    //@| assert(e2.dom().contains((k.id@, l.id@))) by { assert(e0[(k.id@, l.id@)] != czero()); }
    //@+ loop 1 end
    //@| lemma_sub_step(kids(v_out@), p2);
    //@| assert forall|a: int, b: int| #[trigger] ev(self.e(), a, b) == (
    //@|         if b == k.id@ && e0.dom().contains((a, b)) { pe(capf(ev(e0, a, b), 1, circ.id@, dotn(death_dot))) }
    //@|         else if a == k.id@ && inlist(kids(v_out@).subrange(0, p2 + 1), b) { pe(capf(ev(e0, a, b), 0, circ.id@, dotn(birth_dot))) }
    //@|         else { ev(e0, a, b) }) by {
    //@|     assert(ev(e2, a, b) == (
    //@|         if b == k.id@ && e0.dom().contains((a, b)) { pe(capf(ev(e0, a, b), 1, circ.id@, dotn(death_dot))) }
    //@|         else if a == k.id@ && inlist(kids(v_out@).subrange(0, p2), b) { pe(capf(ev(e0, a, b), 0, circ.id@, dotn(birth_dot))) }
    //@|         else { ev(e0, a, b) }));
    //@|     if !(a == k.id@ && b == l.id@) { assert(ev(self.e(), a, b) == ev(e2, a, b)); }
    //@| }
    //@+ loop 1 after
    //@| assert(kids(v_out@).subrange(0, v_out@.len() as int) =~= kids(v_out@));

    /// deloop the circle r of vertex k: k is replaced by k+X and (unless the circle carries the base point) k+1
    pub fn deloop(&mut self, k: &TngKey, r: usize) -> (res: Vec<TngKey>)
        requires old(self).wf(), old(self).vertices.tngs@.dom().contains(k.id@),
            // the new keys are new (keys are label sequences: appending a label to a key of the complex gives no key of the complex)
            !old(self).vertices.tngs@.dom().contains(key_add(k.id@, KhAlgGen::X)), !old(self).vertices.tngs@.dom().contains(key_add(k.id@, KhAlgGen::I)),
//@if B
            r < old(self).vertices.tngs@[k.id@].len(), old(self).vertices.tngs@[k.id@][r as int].circle@,
//@endif
        ensures r < old(self).vertices.tngs@[k.id@].len(), final(self).wf(), final(self).base_pt == old(self).base_pt,
            ({
                let c = old(self).vertices.tngs@[k.id@][r as int];
                let based = old(self).base_pt.is_some() && c.marked_by@.contains(old(self).base_pt.unwrap());
                let (kx, k1) = (key_add(k.id@, KhAlgGen::X), key_add(k.id@, KhAlgGen::I));
                c.circle@
                && (based ==> res@.len() == 1 && res@[0].id@ == kx) && (!based ==> res@.len() == 2 && res@[0].id@ == kx && res@[1].id@ == k1)
                && forall|a: int, b: int| #[trigger] ev(final(self).e(), a, b) == deloop_final(old(self).e(), k.id@, kx, k1, c.id@, based, a, b)
            }),
    //@body impl/TngComplex/deloop ring=1 q=k:k
    //@+ pre-raw
    //@| let ghost e0 = self.e(); let ghost t0 = self.vertices.tngs@; let ghost kx = key_add(k.id@, KhAlgGen::X); let ghost k1i = key_add(k.id@, KhAlgGen::I);
    //@| let ghost mut e1: EMap = Map::empty(); let ghost mut e2: EMap = Map::empty(); let ghost mut e3: EMap = Map::empty(); let ghost cid = t0[k.id@][r as int].id@;
    //@| proof { ax_key_add(k.id@); lemma_nz_dom(e0); }
    //@+ after-call rename_vertex_key#0
    //@| e1 = self.e(); lemma_nz_dom(e1);
    //@+ after-call deloop_with#0
    //@| lemma_nz_dom(self.e());
    //@| assert forall|a: int, b: int| #[trigger] ev(self.e(), a, b) == deloop_final(e0, k.id@, kx, k1i, cid, true, a, b) by {
    //@|     assert(ev(self.e(), a, b) == deloop_ev(e1, kx, cid, 1, 0, a, b));
    //@|     assert(ev(e1, a, b) == (if a == k.id@ || b == k.id@ { czero() } else if a == kx { ev(e0, k.id@, b) } else if b == kx { ev(e0, a, k.id@) } else { ev(e0, a, b) }));
    //@|     assert(ev(e0, a, kx) == czero() && ev(e0, kx, b) == czero());
    //@| }
    //@+ after-call rename_vertex_key#1
    //@| e1 = self.e(); lemma_nz_dom(e1);
    //@+ after-call duplicate_vertex#0
    //@| e2 = self.e(); lemma_nz_dom(e2);
    //@+ after-call deloop_with#1
    //@| e3 = self.e(); lemma_nz_dom(e3);
    //@+ after-call deloop_with#2
    //@| lemma_nz_dom(self.e());
    //@| assert forall|a: int, b: int| #[trigger] ev(self.e(), a, b) == deloop_final(e0, k.id@, kx, k1i, cid, false, a, b) by {
    //@|     assert(ev(self.e(), a, b) == deloop_ev(e3, k1i, cid, 0, 2, a, b));
    //@|     assert(ev(e3, a, b) == deloop_ev(e2, kx, cid, 1, 0, a, b));
    //@|     assert(ev(e2, a, b) == (if a == k1i { ev(e1, kx, b) } else if b == k1i { ev(e1, a, kx) } else { ev(e1, a, b) }));
    //@|     assert(ev(e1, a, b) == (if a == k.id@ || b == k.id@ { czero() } else if a == kx { ev(e0, k.id@, b) } else if b == kx { ev(e0, a, k.id@) } else { ev(e0, a, b) }));
    //@|     assert(ev(e1, kx, b) == (if b == k.id@ { czero() } else { ev(e0, k.id@, b) }));
    //@|     assert(ev(e1, a, kx) == (if a == k.id@ { czero() } else { ev(e0, a, k.id@) }));
    //@|     assert(ev(e0, a, kx) == czero() && ev(e0, kx, b) == czero() && ev(e0, a, k1i) == czero() && ev(e0, k1i, b) == czero());
    //@|     assert(ev(e0, k.id@, k.id@) == czero());
    //@| }

    /// Gaussian elimination of the invertible edge a: k0 -> k1: both vertices disappear and every pair (l0 -> k1, k0 -> l1) changes the
    /// edge l0 -> l1 from d to d - part_eval(c a^-1 b)  (b = edge l0 -> k1, c = edge k0 -> l1); every other edge is unchanged
    pub fn eliminate(&mut self, k0: &TngKey, k1: &TngKey)
        requires old(self).wf(), k0.id@ != k1.id@, old(self).vertices.tngs@.dom().contains(k0.id@), old(self).vertices.tngs@.dom().contains(k1.id@),
//@if B
            old(self).e().dom().contains((k0.id@, k1.id@)), cinv(old(self).e()[(k0.id@, k1.id@)]).is_some(),
//@endif
        ensures old(self).e().dom().contains((k0.id@, k1.id@)), cinv(old(self).e()[(k0.id@, k1.id@)]).is_some(), final(self).wf(),
            forall|a: int, b: int| #[trigger] ev(final(self).e(), a, b) == elim_ev(old(self).e(), k0.id@, k1.id@, a, b),
    //@body impl/TngComplex/eliminate for_iter=1 loops=2 ring=1 iter_model=values! vec_elem=(TngKey,TngKey,LC)
    //@+ loop 0 header
    //@| keys.into_par_iter().map(|(l0, l1)|
    //@+ loop 1 header
    //@| for (l0, l1, s) in values
    //@+ pre-raw
    //@| let ghost e0 = self.e(); let ghost i0 = k0.id@; let ghost i1 = k1.id@;
    //@| proof { lemma_nz_dom(e0); }
    //@+ after-let keys
    //@| assert(nodup2(kpairs(keys@)));
    //@| assert forall|x: int, y: int| inpairs(kpairs(keys@), x, y) <==> (e0.dom().contains((x, i1)) && x != i0 && e0.dom().contains((i0, y)) && y != i1) by { }
    //@+ loop 0
    //@| invariant self.wf(), self.e() == e0, e0.dom().contains((i0, i1)), ainv.v() == cinv(e0[(i0, i1)]).unwrap(), k0.id@ == i0, k1.id@ == i1,
    //@|     kpairs(__src0@).len() + __out0@.len() == kp.len(), kp.subrange(__out0@.len() as int, kp.len() as int) =~= kpairs(__src0@),
    //@|     forall|x: int, y: int| inpairs(kp, x, y) ==> e0.dom().contains((x, i1)) && e0.dom().contains((i0, y)),
    //@|     forall|i: int| 0 <= i < __out0@.len() ==> (#[trigger] __out0@[i]).0.id@ == kp[i].0 && __out0@[i].1.id@ == kp[i].1 && __out0@[i].2.v() == elim_s(e0, i0, i1, kp[i].0, kp[i].1),
    //@| ensures __src0@.len() == 0,
    //@| decreases __src0@.len(),
    //@+ loop 0 top-raw
    //@| let ghost n0 = __out0@.len() as int; let ghost s1 = __src0@;
    //@+ loop 0 begin
    //@| assert(kpairs(s1)[0] == kp[n0]);
    //@| assert(inpairs(kp, kp[n0].0, kp[n0].1));
    //@| assert(l0.id@ == kp[n0].0 && l1.id@ == kp[n0].1);
    //@+ loop 0 end
    //@| assert(kpairs(s1)[0] == kp[n0]);
    //@| assert(inpairs(kp, kp[n0].0, kp[n0].1));
    //@| ax_sub_zero_left(pe(cmul(cmul(ev(e0, i0, kp[n0].1), cinv(e0[(i0, i1)]).unwrap()), ev(e0, kp[n0].0, i1))));
    //@| assert(kpairs(__src0@) =~= kpairs(s1).subrange(1, s1.len() as int));
    //@+ after-let-raw keys
    //@| let ghost kp = kpairs(keys@);
    //@+ loop 1
    //@| invariant self.wf(), gwf(e0, self.vertices.tngs@), e0.dom().contains((i0, i1)), forall|x: int, y: int| inpairs(kp, x, y) ==> e0.dom().contains((x, i1)) && e0.dom().contains((i0, y)),
    //@|     __it1.es@ == values@, values@.len() == kp.len(), 0 <= __it1.pos@ <= __it1.es@.len(), nodup2(kp), self.base_pt == old(self).base_pt, self.vertices == old(self).vertices,
    //@|     forall|i: int| 0 <= i < values@.len() ==> (#[trigger] values@[i]).0.id@ == kp[i].0 && values@[i].1.id@ == kp[i].1 && values@[i].2.v() == elim_s(e0, i0, i1, kp[i].0, kp[i].1),
    //@|     forall|a: int, b: int| #[trigger] ev(self.e(), a, b) == (if inpairs(kp.subrange(0, __it1.pos@), a, b) { elim_s(e0, i0, i1, a, b) } else { ev(e0, a, b) }),
    //@| ensures __it1.pos@ == __it1.es@.len(),
    //@| decreases __it1.es@.len() - __it1.pos@,
    //@+ loop 1 begin-raw
    //@| let ghost e1 = self.e(); let ghost p1 = __it1.pos@ - 1;
    //@+ loop 1 begin
    //@| assert((l0.id@, l1.id@) == kp[p1] && s.v() == elim_s(e0, i0, i1, l0.id@, l1.id@));
    //@| assert(inpairs(kp, l0.id@, l1.id@));
    //@| assert(e0.dom().contains((l0.id@, i1)) && e0.dom().contains((i0, l1.id@)));
    //@| lemma_nz_dom(e1);
    //@| assert(!inpairs(kp.subrange(0, p1), l0.id@, l1.id@)) by { if inpairs(kp.subrange(0, p1), l0.id@, l1.id@) { let i = choose|i: int| 0 <= i < p1 && #[trigger] kp.subrange(0, p1)[i] == (l0.id@, l1.id@); assert(kp[i] != kp[p1]); } }
    //@+ loop 1 end
    //@| lemma_sub_step2(kp, p1);
    //@| assert forall|a: int, b: int| #[trigger] ev(self.e(), a, b) == (if inpairs(kp.subrange(0, p1 + 1), a, b) { elim_s(e0, i0, i1, a, b) } else { ev(e0, a, b) }) by {
    //@|     assert(ev(e1, a, b) == (if inpairs(kp.subrange(0, p1), a, b) { elim_s(e0, i0, i1, a, b) } else { ev(e0, a, b) }));
    //@|     if !(a == l0.id@ && b == l1.id@) { assert(ev(self.e(), a, b) == ev(e1, a, b)); }
    //@| }
    //@+ loop 1 after
    //@| assert(kp.subrange(0, kp.len() as int) =~= kp);
    //@+ post
    //@| assert forall|a: int, b: int| #[trigger] ev(self.e(), a, b) == elim_ev(e0, i0, i1, a, b) by { }
}
pub open spec fn kids(v: Seq<TngKey>) -> Seq<int> { v.map(|i: int, x: TngKey| x.id@) }
pub proof fn lemma_sub_step(es: Seq<int>, p: int)
    requires 0 <= p < es.len()
    ensures forall|x: int| inlist(es.subrange(0, p + 1), x) <==> (inlist(es.subrange(0, p), x) || x == es[p])
{
    assert forall|x: int| inlist(es.subrange(0, p + 1), x) <==> (inlist(es.subrange(0, p), x) || x == es[p]) by {
        if inlist(es.subrange(0, p), x) { let a = choose|a: int| 0 <= a < p && #[trigger] es.subrange(0, p)[a] == x; assert(es.subrange(0, p + 1)[a] == x); }
        if x == es[p] { assert(es.subrange(0, p + 1)[p] == x); }
        if inlist(es.subrange(0, p + 1), x) { let a = choose|a: int| 0 <= a < p + 1 && #[trigger] es.subrange(0, p + 1)[a] == x; if a < p { assert(es.subrange(0, p)[a] == x); } }
    }
}
/// the new value of the edge l0 -> l1 for a pair (l0 -> k1, k0 -> l1):  d - pe(c a^-1 b)
pub open spec fn elim_s(e: EMap, k0: int, k1: int, l0: int, l1: int) -> int {
    csub(ev(e, l0, l1), pe(cmul(cmul(ev(e, k0, l1), cinv(e[(k0, k1)]).unwrap()), ev(e, l0, k1))))
}
pub open spec fn elim_ev(e: EMap, k0: int, k1: int, a: int, b: int) -> int {
    if a == k0 || a == k1 || b == k0 || b == k1 { czero() }
    else if e.dom().contains((a, k1)) && e.dom().contains((k0, b)) { elim_s(e, k0, k1, a, b) }
    else { ev(e, a, b) }
}
pub proof fn lemma_sub_step2(es: Seq<(int, int)>, p: int)
    requires 0 <= p < es.len()
    ensures forall|x: int, y: int| inpairs(es.subrange(0, p + 1), x, y) <==> (inpairs(es.subrange(0, p), x, y) || (x, y) == es[p])
{
    assert forall|x: int, y: int| inpairs(es.subrange(0, p + 1), x, y) <==> (inpairs(es.subrange(0, p), x, y) || (x, y) == es[p]) by {
        if inpairs(es.subrange(0, p), x, y) { let a = choose|a: int| 0 <= a < p && #[trigger] es.subrange(0, p)[a] == (x, y); assert(es.subrange(0, p + 1)[a] == (x, y)); }
        if (x, y) == es[p] { assert(es.subrange(0, p + 1)[p] == (x, y)); }
        if inpairs(es.subrange(0, p + 1), x, y) { let a = choose|a: int| 0 <= a < p + 1 && #[trigger] es.subrange(0, p + 1)[a] == (x, y); if a < p { assert(es.subrange(0, p)[a] == (x, y)); } }
    }
}
/// stored edges are non-zero, so "there is an edge" and "the morphism is not zero" coincide
pub proof fn lemma_nz_dom(e: EMap) requires nz(e) ensures forall|a: int, b: int| #[trigger] e.dom().contains((a, b)) <==> ev(e, a, b) != czero() {
    assert forall|a: int, b: int| #[trigger] e.dom().contains((a, b)) <==> ev(e, a, b) != czero() by { if e.dom().contains((a, b)) { assert(e[(a, b)] != czero()); } }
}
/// the edge a -> b after delooping the circle c of vertex k into kx = k+X (and k1 = k+1 unless based):
///   into kx: plain cap;  out of kx: X-dotted cup;  into k1: Y-dotted cap;  out of k1: plain cup;  k itself is gone
pub open spec fn deloop_final(e: EMap, k: int, kx: int, k1: int, c: int, based: bool, a: int, b: int) -> int {
    if a == k || b == k { czero() }
    else if b == kx { if ev(e, a, k) != czero() { pe(capf(ev(e, a, k), 1, c, 0)) } else { czero() } }
    else if a == kx { if ev(e, k, b) != czero() { pe(capf(ev(e, k, b), 0, c, 1)) } else { czero() } }
    else if !based && b == k1 { if ev(e, a, k) != czero() { pe(capf(ev(e, a, k), 1, c, 2)) } else { czero() } }
    else if !based && a == k1 { if ev(e, k, b) != czero() { pe(capf(ev(e, k, b), 0, c, 0)) } else { czero() } }
    else { ev(e, a, b) }
}
/// the edge a -> b after delooping the circle c at vertex k
pub open spec fn deloop_ev(e: EMap, k: int, c: int, birth: int, death: int, a: int, b: int) -> int {
    if b == k && e.dom().contains((a, b)) { pe(capf(ev(e, a, b), 1, c, death)) }
    else if a == k && e.dom().contains((a, b)) { pe(capf(ev(e, a, b), 0, c, birth)) }
    else { ev(e, a, b) }
}
/// e2 is e with the value x at (k, l) -- the entry absent if x is zero
pub open spec fn edge_set(e: EMap, e2: EMap, k: int, l: int, x: int) -> bool {
    e2 =~= (if x == czero() { e.remove((k, l)) } else { e.insert((k, l), x) })
}
} // verus!
fn main() {}
