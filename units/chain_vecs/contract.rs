// Contract overlay for the transport of tracked vectors in ChainReducer (yui-homology/src/utils/chain_reducer.rs: update_vecs),
// property C08, clause "for tracked vectors": in one reduction step at degree i (d_i permuted by (p, q), r pivots, leading block a)
//   a vector v tracked in the source C[i]      becomes  f_src Q v,  f_src = [0 | I_{n-r}]          (the non-pivot coordinates of Q v)
//   a vector v tracked in the target C[i + d]  becomes  f_tgt P v,  f_tgt = [-c a^-1 | I_{m-r}]    (y - c a^-1 x for P v = [x; y])
// -- the same maps update_trans composes into the forward transfer maps (unit chain_red), so a tracked vector stays the image of the
// original vector under the reported forward map (lemma_vec_step).  Vectors are abstract one-column matrices (prelude/bx.rs).
use vstd::prelude::*;
verus! {
//@include prelude/rt.rs
//@include prelude/er.rs
//@include prelude/bx.rs
//@source yui-homology/src/utils/chain_reducer.rs
//@include units/schur/model.inc

#[derive(Clone, Copy)]
pub struct Deg { pub g: Ghost<int> }
pub fn dadd_(a: Deg, b: Deg) -> (r: Deg) ensures r.g@ == a.g@ + b.g@ { Deg { g: Ghost(a.g@ + b.g@) } }
pub fn dsub_(a: Deg, b: Deg) -> (r: Deg) ensures r.g@ == a.g@ - b.g@ { Deg { g: Ghost(a.g@ - b.g@) } }
pub struct MatMap { pub m: Ghost<Map<int, int>> }
pub struct TransMap { pub m: Ghost<Map<int, (int, int)>> }
/// a sparse vector as an abstract column
pub struct SpVec { pub v: Ghost<int> }
pub open spec fn vv(s: Seq<SpVec>) -> Seq<int> { s.map(|k: int, x: SpVec| x.v@) }
/// HashMap<I, Vec<SpVec<R>>> (ASSUMED std contract)
pub struct VecsMap { pub m: Ghost<Map<int, Seq<int>>> }
impl VecsMap {
    #[verifier::external_body] pub fn get_mut(&mut self, i: &Deg) -> (r: Option<&mut Vec<SpVec>>)
        ensures r.is_some() == old(self).m@.dom().contains(i.g@),
            r.is_some() ==> (vv(r.unwrap()@) == old(self).m@[i.g@] && final(self).m@ == old(self).m@.insert(i.g@, vv((*final(r.unwrap()))@))),
            r.is_none() ==> final(self).m@ == old(self).m@,
    { unimplemented!() }
}
/// permutations (sprs): `at(i)` is the image of i; pm(p) is the matrix with (pm(p) w)[at(i)] = w[i]  (the convention of SpMat::permute_rows)
pub uninterp spec fn pat(p: int, i: int) -> int;
pub struct PermOwned { pub p: Ghost<int> }
pub struct PermView { pub p: Ghost<int> }
impl PermOwned {
    #[verifier::external_body] pub fn view(&self) -> (r: PermView) ensures r.p@ == self.p@ { unimplemented!() }
    #[verifier::external_body] pub fn at(&self, i: usize) -> (r: usize) requires i < pdim(self.p@) ensures r == pat(self.p@, i as int), r < pdim(self.p@) { unimplemented!() }
}
/// the position map "keep the coordinates whose image under q lies in lo..hi, renumbered from 0"
pub open spec fn keep(q: int, lo: int, hi: int, i: int) -> Option<usize> { if lo <= pat(q, i) < hi { Some((pat(q, i) - lo) as usize) } else { None } }
/// the vector with the entries of w moved by a position map (SpVec::extract)
pub uninterp spec fn vextract<F>(w: int, dim: int, f: F) -> int;
pub trait WL: Sized { spec fn wv(&self) -> int; }
impl WL for SpVec { open spec fn wv(&self) -> int { self.v@ } }
impl WL for &SpVec { open spec fn wv(&self) -> int { self.v@ } }
impl WL for SpMat { open spec fn wv(&self) -> int { self.m@ } }
impl WL for &SpMat { open spec fn wv(&self) -> int { self.m@ } }
/// SpVec - SpVec, SpMat * SpVec (ASSUMED to be the entrywise difference / the matrix-vector product: the containers, C13)
#[verifier::external_body] pub fn wsub_<A: WL, B: WL>(a: A, b: B) -> (r: SpVec) ensures r.v@ == msub(a.wv(), b.wv()) { unimplemented!() }
#[verifier::external_body] pub fn wmul_<A: WL, B: WL>(a: A, b: B) -> (r: SpVec) ensures r.v@ == mmul(a.wv(), b.wv()) { unimplemented!() }
impl SpVec {
    #[verifier::external_body] pub fn dim(&self) -> (r: usize) ensures r == nr(self.v@) { unimplemented!() }
    /// ASSUMED (SpVec::from_entries over filter_map): the entries moved by f; f is called on stored indices only
    /// and the TRUSTED reading of that for the position map `keep(q, lo, hi, .)`: rows lo..hi of pm(q) v
    #[verifier::external_body] pub fn extract<F: Fn(usize) -> Option<usize>>(&self, dim: usize, f: F) -> (r: SpVec)
        requires forall|i: usize| i < nr(self.v@) ==> f.requires((i,))
        ensures r.v@ == vextract(self.v@, dim as int, f),
            forall|q: int, lo: int, hi: int| #![trigger mrows(mmul(pm(q), self.v@), lo, hi)]
                (nr(self.v@) == pdim(q) && 0 <= lo <= hi <= pdim(q) && dim == hi - lo
                 && (forall|i: usize, o: Option<usize>| i < pdim(q) && #[trigger] f.ensures((i,), o) ==> o == keep(q, lo, hi, i as int)))
                ==> r.v@ == mrows(mmul(pm(q), self.v@), lo, hi) { unimplemented!() }
    /// ASSUMED: entry i moves to p(i)
    #[verifier::external_body] pub fn permute(&self, p: PermView) -> (r: SpVec) requires pdim(p.p@) == nr(self.v@) ensures r.v@ == mmul(pm(p.p@), self.v@), nr(r.v@) == nr(self.v@), nc(r.v@) == nc(self.v@) { unimplemented!() }
    /// ASSUMED (proved at entry level in unit spmat): the coordinates below / from r
    #[verifier::external_body] pub fn split(&self, r: usize) -> (res: (SpVec, SpVec))
//@if B
        requires r <= nr(self.v@),
//@endif
        ensures r <= nr(self.v@), res.0.v@ == mrows(self.v@, 0, r as int), res.1.v@ == mrows(self.v@, r as int, nr(self.v@)) { unimplemented!() }
}
/// ASSUMED (unit triang): a x = y
#[verifier::external_body] pub fn solve_triangular_vec(t: TriangularType, a: &SpMat, y: &SpVec) -> (x: SpVec)
    requires tri_ok(t, a.m@), nr(a.m@) == nr(y.v@)
    ensures mmul(a.m@, x.v@) == y.v@, nr(x.v@) == nc(a.m@), nc(x.v@) == nc(y.v@) { unimplemented!() }

//@item struct/ChainReducer subst=HashMap<I,SpMat<R>>:MatMap,HashMap<I,Trans<R>>:TransMap,HashMap<I,Vec<SpVec<R>>>:VecsMap,Vec<I>:Vec<Deg>,I:Deg

/// the leading r x r block of mm, however mm is cut into four blocks, is a valid pivot block for t   (as in unit chain_red)
pub open spec fn pivot_block_ok(t: TriangularType, mm: int, r: int) -> bool {
    forall|a: int, b: int, c: int, d: int| mm == mstack(mconcat(a, b), mconcat(c, d)) && nr(a) == r && nc(a) == r ==> tri_ok(t, a)
}
//@include units/chain_vecs/spec.inc

/// y - c (a^-1 x) = [-c a^-1 | I] [x ; y]
pub proof fn lemma_tgt(t: TriangularType, a: int, c: int, w: int, x: int, y: int, z: int, m: int, r: int)
    requires tri_ok(t, a), 0 <= r <= m, nr(a) == r, nc(a) == r, nr(c) == m - r, nc(c) == r, nr(w) == m, x == mrows(w, 0, r), y == mrows(w, r, m), mmul(a, z) == x, nr(z) == r, nc(z) == nc(w),
    ensures msub(y, mmul(c, z)) == mmul(f_tgt(a, c, m, r), w)
{
    bx_dims_all(); bx_tri_inv(t, a);
    // z = a^-1 x
    bx_assoc(minv(a), a, z); bx_id(z);
    assert(z == mmul(minv(a), x));
    bx_split(w, r);
    assert(w == mstack(x, y));
    let ny = mneg(mmul(c, minv(a)));
    bx_add_dims(mmul(c, minv(a)), 0);
    bx_concat_stack(ny, mid(m - r), x, y);
    bx_id(y);
    bx_neg_mul(mmul(c, minv(a)), x); bx_assoc(c, minv(a), x);
    // -(c z) + y  =  y + -(c z)
    bx_add_dims(mmul(c, z), 0);
    bx_add_comm(mneg(mmul(c, z)), y);
}

impl ChainReducer {
    pub fn deg_trip(&self, i: Deg) -> (r: (Deg, Deg, Deg)) ensures r.0.g@ == i.g@ - self.d_deg.g@, r.1.g@ == i.g@, r.2.g@ == i.g@ + self.d_deg.g@,
    //@body impl/ChainReducer/deg_trip ring=1 q=i,deg qname=d
    //@+ sig
    //@| fn deg_trip(&self, i: I) -> (I, I, I)

    /// transport the tracked vectors of C[i] and C[i + d] through the step
    pub fn update_vecs(&mut self, i: Deg, a: &SpMat, p: &PermOwned, q: &PermOwned, r: usize, t: TriangularType)
        requires old(self).d_deg.g@ != 0, pdim(p.p@) == nr(a.m@), pdim(q.p@) == nc(a.m@), r <= nr(a.m@), r <= nc(a.m@), pivot_block_ok(t, a.m@, r as int),
//@if B
            old(self).vecs.m@.dom().contains(i.g@) ==> all_cols(old(self).vecs.m@[i.g@], nc(a.m@)),
            old(self).vecs.m@.dom().contains(i.g@ + old(self).d_deg.g@) ==> all_cols(old(self).vecs.m@[i.g@ + old(self).d_deg.g@], nr(a.m@)),
//@endif
        ensures final(self).mats == old(self).mats, final(self).trans == old(self).trans, final(self).d_deg == old(self).d_deg,
            ({
                let (v0, v1, d) = (old(self).vecs.m@, final(self).vecs.m@, old(self).d_deg.g@); let i2 = i.g@ + d; let (m, n) = (nr(a.m@), nc(a.m@));
                &&& v1.dom() == v0.dom()
                &&& forall|j: int| v0.dom().contains(j) && j != i.g@ && j != i2 ==> #[trigger] v1[j] == v0[j]
                &&& v0.dom().contains(i.g@) ==> (all_cols(v0[i.g@], n) && v1[i.g@].len() == v0[i.g@].len()
                        && forall|k: int| 0 <= k < v0[i.g@].len() ==> #[trigger] v1[i.g@][k] == mmul(f_src(n, r as int), mmul(pm(q.p@), v0[i.g@][k])))
                &&& v0.dom().contains(i2) ==> exists|a4: int, b4: int, c4: int, d4: int| #![trigger mstack(mconcat(a4, b4), mconcat(c4, d4))]
                        a.m@ == mstack(mconcat(a4, b4), mconcat(c4, d4)) && block_dims(a4, b4, c4, d4, r as int, m, n) && tri_ok(t, a4)
                        && all_cols(v0[i2], m) && v1[i2].len() == v0[i2].len()
                        && forall|k: int| 0 <= k < v0[i2].len() ==> #[trigger] v1[i2][k] == mmul(f_tgt(a4, c4, m, r as int), mmul(pm(p.p@), v0[i2][k]))
            }),
    //@body impl/ChainReducer/update_vecs for_iter=1 loops=2 arr_own=1 ring=1 machine=m,n,r,i q=y,c,ainvx qname=w
    //@+ sig
    //@| fn update_vecs(&mut self, i: I, a: &SpMat<R>, p: &PermOwned, q: &PermOwned, r: usize, t: TriangularType)
    //@+ pre-raw
    //@| let ghost v0 = self.vecs.m@; let ghost am = a.m@; let ghost dd = self.d_deg.g@; let ghost mut ga = 0int; let ghost mut gc = 0int;
    //@+ closure 0 typed
    //@| i: usize
    //@+ closure 0
    //@| -> (o: Option<usize>) requires i < pdim(q.p@) ensures o == keep(q.p@, r as int, n as int, i as int)
    //@+ loop 0 before
    //@| assert(vv(vs@) == v0[i1.g@]);
    //@+ loop 0
    //@| invariant __k0 <= vs@.len(), vs@.len() == v0[i1.g@].len(), n == nc(am), pdim(q.p@) == n, r <= n,
    //@|     forall|k: int| 0 <= k < __k0 ==> nr(#[trigger] v0[i1.g@][k]) == n && vs@[k].v@ == mmul(f_src(n as int, r as int), mmul(pm(q.p@), v0[i1.g@][k])),
    //@|     forall|k: int| __k0 <= k < vs@.len() ==> (#[trigger] vs@[k]).v@ == v0[i1.g@][k],
//@if B
    //@|     all_cols(v0[i1.g@], n as int),
//@endif
    //@| decreases vs@.len() - __k0,
    //@+ loop 0 begin-raw
    //@| let ghost u = vs@[__k0 as int].v@;
    //@+ loop 0 end
    //@| bx_dims_all(); bx_perm(q.p@);
    //@| assert(vs@[__k0 as int].v@ == mrows(mmul(pm(q.p@), u), r as int, n as int));
    //@| bx_proj(mmul(pm(q.p@), u), n - r);
    //@+ loop 1 before
    //@| ga = a.m@; gc = c.m@;
    //@| assert(tri_ok(t, ga));
    //@| assert(vv(vs@) == v0[i2.g@]);
    //@+ loop 1
    //@| invariant __k1 <= vs@.len(), vs@.len() == v0[i2.g@].len(), m == nr(am), pdim(p.p@) == m, r <= m, a.m@ == ga, c.m@ == gc, tri_ok(t, ga),
    //@|     nr(ga) == r, nc(ga) == r, nr(gc) == m - r, nc(gc) == r,
    //@|     forall|k: int| 0 <= k < __k1 ==> nr(#[trigger] v0[i2.g@][k]) == m && vs@[k].v@ == mmul(f_tgt(ga, gc, m as int, r as int), mmul(pm(p.p@), v0[i2.g@][k])),
    //@|     forall|k: int| __k1 <= k < vs@.len() ==> (#[trigger] vs@[k]).v@ == v0[i2.g@][k],
//@if B
    //@|     all_cols(v0[i2.g@], m as int),
//@endif
    //@| decreases vs@.len() - __k1,
    //@+ loop 1 begin-raw
    //@| let ghost u = vs@[__k1 as int].v@; let ghost mut gx = 0int; let ghost mut gy = 0int; let ghost mut gz = 0int;
    //@+ after-let x
    //@| bx_dims_all();
    //@+ after-let ainvx
    //@| gx = x.v@; gy = y.v@; gz = ainvx.v@;
    //@+ loop 1 end
    //@| bx_dims_all(); bx_perm(p.p@);
    //@| lemma_tgt(t, ga, gc, mmul(pm(p.p@), u), gx, gy, gz, m as int, r as int);
}
} // verus!
fn main() {}
