#!/usr/bin/env python3
"""Regenerate MANIFEST.json from checks.json (claimed properties) and properties.jsonl (ids)."""
import json
c = json.load(open('/verif/checks.json'))
props = [json.loads(l) for l in open('/verif/properties.jsonl')]
NA = json.load(open('/verif/not_applicable.json'))
LEVEL = json.load(open('/verif/levels.json'))
checks = []
for p in props:
    pid = p['id']
    if pid not in c['properties']:
        continue
    pc = c['properties'][pid]
    lv = LEVEL[pid]
    engines = []
    if pc.get('verus'): engines.append('Verus on functions extracted mechanically from /repo every run (units: %s)' % ', '.join(u['unit'] for u in pc['verus']))
    if pc.get('kani'): engines.append('Kani/CBMC harnesses on the real crates')
    checks.append({
        "property_id": pid,
        "quick_cmd": "./check %s --tier quick" % pid,
        "thorough_cmd": "./check %s --tier thorough" % pid,
        "evidence_file": "/verif/evidence/%s.json" % pid,
        "replay_cmd_template": "./check replay {path}",
        "engine": "; ".join(engines),
        "level_claimed": {"category": "proof", "text": lv["text"], "design_ref": lv["design_ref"]},
        "level_note": lv["note"],
        "technique": lv["technique"],
    })
m = {
    "version": 1,
    "setup_cmd": "./check setup",
    "hooks": {"guard": "yui_verif", "enable": "no hooks are needed: Verus reads source text, Kani/native harnesses use public APIs only", "baseline_off_cmd": "cd /repo && cargo test --workspace --no-fail-fast --offline", "source_commits": [], "add_only": True},
    "engines": [
        {"name": "vextract+verus", "path": "/verif/vx, /verif/units, /verif/prelude", "serves_properties": [p for p in c['properties'] if c['properties'][p].get('verus')], "kind_free_text": "syn-based extractor splices the repository's function bodies into contract overlays on every run; Verus 0.2026.09.13 discharges the obligations"},
        {"name": "kani", "path": "/verif/kani, /verif/harness", "serves_properties": [p for p in c['properties'] if c['properties'][p].get('kani')], "kind_free_text": "contract-style harnesses (assume requires / assert one named ensures clause each / cover) on the real crates; loop-free or type-bounded with unwinding assertions"},
        {"name": "native replay", "path": "/verif/native", "serves_properties": list(c['properties'].keys()), "kind_free_text": "re-executes the same harness functions on the real code with a Kani counterexample or a seeded witness search; only ever used to turn a failed obligation into a replayable input"},
    ],
    "checks": checks,
    "not_applicable": [{"property_id": k, "reason": v} for k, v in NA.items() if k not in c['properties']],
    "notes": "Contract-based deductive verification (DESIGN.md). exit 0 = all obligations discharged, 1 = VIOLATION (replay file), 2 = UNDECIDED (never an alarm). Fixed defects are recorded in known_findings.json.",
}
json.dump(m, open('/verif/MANIFEST.json', 'w'), indent=1)
print("claimed:", [x['property_id'] for x in checks], "n/a:", [x['property_id'] for x in m['not_applicable']])
